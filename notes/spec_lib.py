import itertools, sys, copy, random
from bibtexparser.library import Library
from bibtexparser.model import *
def mk():
    E=lambda k,v: Entry("article",k,[Field("f",v)])
    return [E("k1","1"),E("k1","2"),E("k2","3"),E("k1","1"),String("k1","s1"),String("k1","s2"),Preamble("p"),ExplicitComment("c")]
def views(l):
    return ([id(b) for b in l.blocks],[id(b) for b in l.entries],{k:id(v) for k,v in l.entries_dict.items()},[id(b) for b in l.strings],{k:id(v) for k,v in l.strings_dict.items()},
            [id(b) for b in l.preambles],[id(b) for b in l.comments],[id(b) for b in l.failed_blocks])
def inv(l):
    bl=l.blocks; errs=[]
    ents=[b for b in bl if isinstance(b,Entry)]; strs=[b for b in bl if isinstance(b,String)]
    if [id(b) for b in l.entries]!=[id(b) for b in ents]: errs.append("entries-order")
    if {k:id(v) for k,v in l.entries_dict.items()}!={b.key:id(b) for b in ents} or len({b.key for b in ents})!=len(ents): errs.append("entries_dict")
    if {k:id(v) for k,v in l.strings_dict.items()}!={b.key:id(b) for b in strs} or len({b.key for b in strs})!=len(strs): errs.append("strings_dict")
    if sorted(id(b) for b in l.strings)!=sorted(id(b) for b in strs): errs.append("strings-set")
    if [id(b) for b in l.strings]!=[id(b) for b in strs]: errs.append("strings-order")
    parts=l.entries+l.strings+l.preambles+l.comments+l.failed_blocks
    if sorted(map(id,parts))!=sorted(map(id,bl)): errs.append("partition")
    return errs
rnd=random.Random(1); stats={}; examples={}
for trial in range(int(sys.argv[1])):
    U=mk(); l=Library(); hist=[]
    for step in range(rnd.randint(1,8)):
        op=rnd.choice(["add","addf","addl","rem","reml","rep","repf"])
        held=list(l.blocks); pick=lambda: rnd.choice(U+held)
        before=views(l)
        try:
            if op=="add": a=pick(); hist.append((op,U.index(a) if a in U and any(a is u for u in U) else 'h')); l.add(a)
            elif op=="addf": a=pick(); hist.append((op,)); l.add(a, fail_on_duplicate_key=True)
            elif op=="addl": a=[pick(),pick()]; hist.append((op,)); l.add(a)
            elif op=="rem": a=pick(); hist.append((op,)); l.remove(a)
            elif op=="reml": a=[pick(),pick()]; hist.append((op,)); l.remove(a)
            elif op=="rep": a,b=pick(),pick(); hist.append((op,)); l.replace(a,b,fail_on_duplicate_key=False)
            else: a,b=pick(),pick(); hist.append((op,)); l.replace(a,b,fail_on_duplicate_key=True)
            raised=None
        except ValueError: raised="ValueError"
        except Exception as e: raised=type(e).__name__
        if raised and raised!="ValueError": stats[("exc",op,raised)]=stats.get(("exc",op,raised),0)+1; examples.setdefault(("exc",op,raised),list(hist))
        if raised=="ValueError" and views(l)!=before: stats[("nonatomic",op)]=stats.get(("nonatomic",op),0)+1
        for e in inv(l): stats[("inv",e,op)]=stats.get(("inv",e,op),0)+1; examples.setdefault(("inv",e,op),list(hist))
print(stats); print({k:v for k,v in list(examples.items())[:6]})
