From Coq Require Import List NArith Bool Lia.
Import ListNotations.
Local Open Scope N_scope.

(* characters: code + flags (bit 0 = word char, bit 1 = space) *)
Record ch := { code : N; wordc : bool }.
Definition is c n := N.eqb (code c) n.
Definition LB := 123. Definition RB := 125. Definition ATc := 64. Definition BS := 92. Definition SP := 32. Definition TAB := 9.

Fixpoint drop_while (p : ch -> bool) (l : list ch) : list ch :=
  match l with [] => [] | c :: r => if p c then drop_while p r else l end.
(* look-ahead of the @-alternative: \w* then (space|tab)* then '{' *)
Definition at_ok (rest : list ch) : bool :=
  match drop_while (fun c => is c SP || is c TAB) (drop_while wordc rest) with
  | c :: _ => is c LB | [] => false end.

Inductive cls := Plain | MLB | MRB | MAt.
Definition classify1 (bs : bool) (c : ch) (rest : list ch) : cls :=
  if is c ATc then (if at_ok rest then MAt else Plain)
  else if bs then Plain
  else if is c LB then MLB else if is c RB then MRB else Plain.

(* a two-mode machine: Out, or inside a brace block at depth d (d = additional open braces) *)
Inductive mode := Out | AtHead | InB (d : nat) | Failed.
Record st := { md : mode; acc : list ch; out : list (list ch) }.
Definition step (s : st) (c : ch) (k : cls) : st :=
  match md s with
  | Out => match k with MAt => {| md := AtHead; acc := [c]; out := out s |} | _ => s end
  | AtHead => match k with
              | MLB => {| md := InB 0; acc := c :: acc s; out := out s |}
              | Plain => {| md := AtHead; acc := c :: acc s; out := out s |}
              | _ => {| md := Failed; acc := []; out := out s |} end
  | InB d => match k with
             | MLB => {| md := InB (S d); acc := c :: acc s; out := out s |}
             | MRB => match d with
                      | O => {| md := Out; acc := []; out := rev (c :: acc s) :: out s |}
                      | S d' => {| md := InB d'; acc := c :: acc s; out := out s |} end
             | Plain => {| md := InB d; acc := c :: acc s; out := out s |}
             | MAt => {| md := AtHead; acc := [c]; out := rev (acc s) :: out s |} end
  | Failed => s
  end.
Fixpoint run (bs : bool) (l : list ch) (s : st) : st :=
  match l with [] => s | c :: r => run (is c BS) r (step s c (classify1 bs c r)) end.

(* grammar of brace-balanced text *)
Inductive braced := BNil | BChar (c : ch) (b : braced) | BGroup (g : braced) (b : braced).
Definition lb := {| code := LB; wordc := false |}. Definition rb := {| code := RB; wordc := false |}.
Fixpoint render (b : braced) : list ch :=
  match b with BNil => [] | BChar c b => c :: render b | BGroup g b => lb :: render g ++ rb :: render b end.
(* well-formedness: plain characters are not active braces; nothing ends in a backslash before a structural brace *)
Fixpoint last_bs (bs : bool) (l : list ch) : bool := match l with [] => bs | c :: r => last_bs (is c BS) r end.
Fixpoint wf (bs : bool) (b : braced) : Prop :=
  match b with
  | BNil => bs = false
  | BChar c b' => (bs = true \/ (is c LB = false /\ is c RB = false)) /\ wf (is c BS) b'
  | BGroup g b' => bs = false /\ wf false g /\ wf false b'
  end.
(* global side condition G, local form: no '@' of text t, continued by rest, starts a block *)
Definition noat (t rest : list ch) : Prop :=
  forall pre c suf, t = pre ++ c :: suf -> is c ATc = true -> at_ok (suf ++ rest) = false.

Lemma noat_cons c t rest : noat (c :: t) rest -> (is c ATc = true -> at_ok (t ++ rest) = false) /\ noat t rest.
Proof.
  intros H; split.
  - intros Hc. apply (H [] c t); auto.
  - intros pre c' suf E Hc'. apply (H (c :: pre) c' suf); [rewrite E; reflexivity | exact Hc'].
Qed.
Lemma noat_app t1 t2 rest : noat (t1 ++ t2) rest -> noat t1 (t2 ++ rest) /\ noat t2 rest.
Proof.
  intros H; split.
  - intros pre c suf E Hc. rewrite app_assoc. apply (H pre c (suf ++ t2)); [|exact Hc].
    rewrite E. rewrite <- app_assoc. reflexivity.
  - intros pre c suf E Hc. apply (H (t1 ++ pre) c suf); [|exact Hc]. rewrite E, <- app_assoc. reflexivity.
Qed.
Lemma cls_lb r : classify1 false lb r = MLB. Proof. reflexivity. Qed.
Lemma cls_rb r : classify1 false rb r = MRB. Proof. reflexivity. Qed.
Lemma is_lb_not_at : is lb ATc = false. Proof. reflexivity. Qed.
Lemma is_rb_not_at : is rb ATc = false. Proof. reflexivity. Qed.

(* the core lemma: scanning balanced text inside a block keeps depth, accumulates text verbatim *)
Lemma run_braced b : forall bs rest d a o, wf bs b -> noat (render b) rest ->
  run bs (render b ++ rest) {| md := InB d; acc := a; out := o |}
  = run false rest {| md := InB d; acc := rev (render b) ++ a; out := o |}.
Proof.
  induction b as [|c b IH|g IHg b IHb]; intros bs rest d a o Hwf Hna; cbn [render wf] in *.
  - subst bs. reflexivity.
  - destruct Hwf as [Hc Hwf]. apply noat_cons in Hna as [Hat Hna]. cbn [app run].
    assert (Hk : classify1 bs c (render b ++ rest) = Plain).
    { unfold classify1. destruct (is c ATc) eqn:Ea; [rewrite Hat; auto|].
      destruct bs; [reflexivity|]. destruct Hc as [Hc|[H1 H2]]; [discriminate|]. rewrite H1, H2. reflexivity. }
    rewrite Hk. unfold step; cbn [md acc out].
    rewrite (IH _ _ _ _ _ Hwf Hna). cbn [rev]. rewrite <- app_assoc. reflexivity.
  - destruct Hwf as [-> [Hg Hb]].
    change (lb :: render g ++ rb :: render b) with ([lb] ++ render g ++ [rb] ++ render b) in Hna.
    apply noat_app in Hna as [_ Hna]. apply noat_app in Hna as [Hnag Hna]. apply noat_app in Hna as [_ Hnab].
    cbn [app run]. rewrite cls_lb.
    change (is lb BS) with false. unfold step at 1; cbn [md acc out]. cbn [app] in *.
    rewrite <- app_assoc. cbn [app].
    rewrite (IHg false (rb :: render b ++ rest) (S d) (lb :: a) o Hg Hnag).
    cbn [run]. rewrite cls_rb. change (is rb BS) with false.
    unfold step at 1; cbn [md acc out].
    rewrite (IHb false rest d _ o Hb Hnab).
    f_equal. f_equal. cbn [rev]. rewrite !rev_app_distr. cbn [rev app]. rewrite <- !app_assoc. reflexivity.
Qed.

(* --- one level up: a whole block "@word{ braced }" from the Out state --- *)
Definition atc := {| code := ATc; wordc := false |}.
Definition wordchar (c : ch) : Prop := wordc c = true /\ is c ATc = false /\ is c LB = false /\ is c RB = false /\ is c BS = false.
Lemma drop_word w r : Forall wordchar w -> (forall c r', r = c :: r' -> wordc c = false) ->
  drop_while wordc (w ++ r) = r.
Proof.
  induction 1 as [|c w [Hc _] _ IH]; intros Hr; cbn [app drop_while].
  - destruct r as [|c r']; [reflexivity|]. cbn [drop_while]. rewrite (Hr c r' eq_refl). reflexivity.
  - rewrite Hc. apply IH, Hr.
Qed.
Lemma at_ok_word w r : Forall wordchar w -> at_ok (w ++ lb :: r) = true.
Proof.
  intros Hw. unfold at_ok. rewrite drop_word; [reflexivity|exact Hw|].
  intros c r' E. injection E as <- _. reflexivity.
Qed.
Lemma run_head w : forall r a o, Forall wordchar w ->
  run false (w ++ lb :: r) {| md := AtHead; acc := a; out := o |}
  = run false r {| md := InB 0; acc := lb :: rev w ++ a; out := o |}.
Proof.
  induction w as [|c w IH]; intros r a o Hw; cbn [app run].
  - rewrite cls_lb. reflexivity.
  - inversion Hw as [|? ? (Hwc & Hat & Hlb & Hrb & Hbs) Hw']; subst.
    unfold classify1 at 1. rewrite Hat, Hlb, Hrb, Hbs. unfold step at 1; cbn [md acc out].
    rewrite IH by exact Hw'. cbn [rev]. rewrite <- app_assoc. reflexivity.
Qed.
Theorem run_block w b : forall bs r o, Forall wordchar w -> wf false b -> noat (render b) (rb :: r) ->
  run bs (atc :: w ++ lb :: render b ++ rb :: r) {| md := Out; acc := []; out := o |}
  = run false r {| md := Out; acc := []; out := (atc :: w ++ lb :: render b ++ [rb]) :: o |}.
Proof.
  intros bs r o Hw Hb Hna. cbn [run].
  assert (Hk : classify1 bs atc (w ++ lb :: render b ++ rb :: r) = MAt).
  { unfold classify1. change (is atc ATc) with true. cbn iota. rewrite at_ok_word by exact Hw. reflexivity. }
  rewrite Hk. unfold step at 1; cbn [md acc out]. change (is atc BS) with false.
  rewrite run_head by exact Hw.
  rewrite (run_braced b false (rb :: r) 0 _ o Hb Hna).
  cbn [run]. rewrite cls_rb. unfold step at 1; cbn [md acc out]. change (is rb BS) with false.
  f_equal. f_equal. f_equal. cbn [rev]. rewrite !rev_app_distr. cbn [rev app].
  rewrite rev_involutive, rev_app_distr, rev_involutive. cbn [rev app]. rewrite <- !app_assoc. reflexivity.
Qed.
Print Assumptions run_block.
