import itertools, sys, logging
logging.disable(logging.CRITICAL)
from bibtexparser.splitter import Splitter
from bibtexparser.model import Entry, DuplicateFieldKeyBlock, DuplicateBlockKeyBlock
def check(t):
    lib=Splitter(t).split()
    s="\n"+t; i=0; errs=[]
    for b in lib.blocks:
        raw=b.raw
        j=i
        while j<len(s) and s[j].isspace(): j+=1
        if not raw or raw[0].isspace(): errs.append("rawstart"); break
        if not s.startswith(raw,j): errs.append("tile"); break
        if b.start_line != s[:j].count("\n")-1: errs.append("line")
        ent = b if isinstance(b,Entry) else (b.ignore_error_block if isinstance(b,(DuplicateFieldKeyBlock,DuplicateBlockKeyBlock)) else None)
        i=j+len(raw)
    else:
        if s[i:].strip(): errs.append("tail")
    return errs
toks=["@a{","@comment{","@string{","{","}",'"',",","=","\n","\\","x"," ","\r\n","@preamble{"]
N=int(sys.argv[1]); n=0; bad={}
for L in range(0,N+1):
    for seq in itertools.product(toks,repeat=L):
        t="".join(seq); n+=1
        try: e=check(t)
        except RecursionError: e=["recursion"]
        for k in e:
            bad.setdefault(k,[]).append(t)
print("cases",n,{k:(len(v),v[:4]) for k,v in bad.items()})
