import itertools, sys, logging
logging.disable(logging.CRITICAL)
from bibtexparser.splitter import Splitter
from bibtexparser.model import *
def sig(b, shift=0):
    t=type(b).__name__
    if isinstance(b,(DuplicateBlockKeyBlock,DuplicateFieldKeyBlock)): return ("W",t)+sig(b.ignore_error_block,shift)
    base=(t,b.start_line-shift,b.raw)
    if isinstance(b,Entry): return base+(b.entry_type,b.key,tuple((f.key,f.value,f.start_line-shift) for f in b.fields))
    if isinstance(b,String): return base+(b.key,b.value)
    if isinstance(b,Preamble): return base+(b.value,)
    if isinstance(b,(ExplicitComment,ImplicitComment)): return base+(b.comment,)
    return base
def blocks(t,shift=0): return [sig(b,shift) for b in Splitter(t).split().blocks]
D2s=['@article{k1, a = {x},\n b = "y" # z}\nfree text\n@comment{c}', '@string{s = "v"}\n@preamble{p}', '@book{k2}']
D1s=['@article{q, a = {x}}', 'free\n@comment{c}', '@string{s = "v"} @preamble{p}']
toks=["@a{","@comment{","@string{","{","}",'"',",","=","\n","\\","x"," ","#"]
N=int(sys.argv[1]); n=bad1=bad2=0
for L in range(0,N+1):
    for seq in itertools.product(toks,repeat=L):
        X="".join(seq); n+=1
        for D2 in D2s:
            ref=blocks(D2); t=X+"\n"+D2; got=blocks(t, shift=(X+"\n").count("\n"))
            if got[-len(ref):]!=ref:
                bad2+=1
                if bad2<=5: print("RESYNC",repr(X),repr(D2[:20]),got[-len(ref):][:1],ref[:1])
        for D1 in D1s:
            ref=blocks(D1); got=blocks(D1+X)
            if got[:len(ref)]!=ref:
                bad1+=1
                if bad1<=5: print("PREFIX",repr(D1[:20]),repr(X),got[:len(ref)],ref)
print("cases",n,"prefix bad",bad1,"resync bad",bad2)
