import itertools, logging, sys
logging.disable(logging.CRITICAL)
from bibtexparser.middlewares.names import parse_single_name_into_parts as pn, InvalidNameError, NameParts, split_multiple_persons_names as sp
WS=" ~\r\n\t"
def units(s):
    """escape pairs atomic except backslash-whitespace and trailing backslash"""
    i=0; out=[]
    while i<len(s):
        if s[i]=="\\" and i+1<len(s) and s[i+1] not in WS: out.append(s[i:i+2]); i+=2
        else: out.append(s[i]); i+=1
    return out
def sections_words(s):
    d=0; secs=[[]]; cur=[]; ncomma=0
    for u in units(s):
        if u=="{": d+=1; cur.append(u)
        elif u=="}":
            if d==0: return "unmatched"
            d-=1; cur.append(u)
        elif d==0 and (u=="," or u in WS):
            if cur: secs[-1].append("".join(cur)); cur=[]
            if u==",":
                ncomma+=1
                if ncomma>2: return "toomany"
                secs.append([])
        else: cur.append(u)
    if d: return "unterminated"
    if cur: secs[-1].append("".join(cur))
    if not secs[-1]:
        if len(secs)>1: return "trailing"
        secs.pop()
    return secs
def word_case(w):
    case=-1; lvl=0; bs=False; cs=False; spc=False
    def setc(c):
        nonlocal case
        if case==-1 and c.isalpha(): case = 1 if c.isupper() else 0
    for u in units(w):
        if len(u)==2:
            if bs: bs=False; cs=u[1].isalpha(); spc=True
            else: setc(u[1])
            continue
        if u=="{": lvl+=1; bs=True; cs=False; spc=False; continue
        bs=False
        if u=="}": lvl-=1; cs=False; spc=False; continue
        if lvl:
            if cs:
                if not u.isalpha(): cs=False
            elif spc: setc(u)
            continue
        setc(u)
    return case
def partition(secs):
    P=NameParts()
    if not secs or not any(secs): return P
    def lastlow(ws):  # number of words in von for comma-forms: through last lower among non-final
        k=0
        for i,w in enumerate(ws[:-1]):
            if word_case(w)==0: k=i+1
        return k
    if len(secs)==1:
        p=secs[0]; n=len(p)
        if n==1: P.last=p
        elif n==2: P.first=p[:1]; P.last=p[1:]
        else:
            lows=[i for i,w in enumerate(p) if word_case(w)==0]
            f = lows[0] if lows else n-1
            f=min(f,n-1)
            l=lastlow(p)
            P.first=p[:f]; P.von=p[f:max(l,f)]; P.last=p[max(l,f):]
    else:
        P.first=secs[-1]
        if len(secs)==3: P.jr=secs[1]
        s0=secs[0]
        if len(s0)<=1: P.last=s0
        else:
            l=lastlow(s0); P.von=s0[:l]; P.last=s0[l:]
    return P
def spec(s):
    sw=sections_words(s)
    if isinstance(sw,str): return sw
    return partition(sw)
def impl(s):
    try: return pn(s)
    except InvalidNameError as e:
        m=str(e)
        return {"Unmatched closing brace":"unmatched","Too many commas":"toomany","Unterminated opening brace":"unterminated","Trailing comma at end of name":"trailing"}[m.split(": ")[-1]]
if __name__=="__main__":
    toks=["Aa","bb","11","{Cc}","{dd}","{\\'E}x","{\\'e}x","\\'E","\\",","," ","~","{","}"]
    N=int(sys.argv[1]); n=bad=badinv=ninv=0
    for L in range(0,N+1):
        for seq in itertools.product(toks,repeat=L):
            s="".join(seq); n+=1
            a=impl(s); b=spec(s)
            if isinstance(a,str) and isinstance(b,str):
                continue  # both invalid (reason order compared separately)
            if a!=b:
                bad+=1
                if bad<=10: print("DIFF",repr(s),a,b)
            elif not isinstance(a,str) and a.last and not any((len(w)-len(w.rstrip("\\")))%2 for part in (a.first,a.von,a.last,a.jr) for w in part):
                ninv+=1
                m=a.merge_last_name_first
                if impl(m)!=a:
                    badinv+=1
                    if badinv<=10: print("INV",repr(s),a,repr(m),impl(m))
    print("cases",n,"diff",bad,"inverse checked",ninv,"inverse bad",badinv)
