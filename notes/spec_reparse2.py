import itertools, sys, logging, re
logging.disable(logging.CRITICAL)
import bibtexparser
from bibtexparser.model import *; from bibtexparser.library import Library
from bibtexparser.middlewares.enclosing import AddEnclosingMiddleware as A
from bibtexparser.splitter import Splitter
def active_balanced(v):
    d=0
    for i,c in enumerate(v):
        if c in "{}" and not (i>0 and v[i-1]=="\\"):
            d+= 1 if c=="{" else -1
            if d<0: return False
    return d==0
def bare_quote(v):
    d=0
    for i,c in enumerate(v):
        esc = i>0 and v[i-1]=="\\"
        if c in "{}" and not esc: d+= 1 if c=="{" else -1
        if c=='"' and not esc and d==0: return True
    return False
def quote_in_braces(v):
    d=0
    for i,c in enumerate(v):
        esc = i>0 and v[i-1]=="\\"
        if c in "{}" and not esc: d+= 1 if c=="{" else -1
        if c=='"' and not esc and d>0: return True
    return False
atpat=re.compile(r"@[\w]*( |\t)*\{")
toks=["a","{","}",'"',",","=","\\","@b{","@"," ","#","\n","1"]
N=int(sys.argv[1]); res={}
for q in ("{",'"'):
  n=chk=0; bad=[]; badk2=0
  for L in range(0,N+1):
    for seq in itertools.product(toks,repeat=L):
        v="".join(seq); n+=1
        if not active_balanced(v) or v.endswith("\\"): continue
        if q=='"' and bare_quote(v): continue
        chk+=1
        lib=Library([Entry("article","k",[Field("f",v)])])
        t=bibtexparser.write_string(lib, unparse_stack=[A(reuse_previous_enclosing=False, enclose_integers=True, default_enclosing=q)])
        out=Splitter(t).split().blocks
        exp = (q+v+("}" if q=="{" else '"')).strip()
        ok = len(out)==1 and isinstance(out[0],Entry) and [(f.key,f.value) for f in out[0].fields]==[("f",exp)]
        if not ok:
            if atpat.search(v): badk2+=1
            elif quote_in_braces(v): badk4=globals().get("badk4",0)+1; globals()["badk4"]=badk4
            else: bad.append(v)
  print("K4",globals().get("badk4",0));print("enclosing",q,"cases",n,"checked",chk,"bad in K2 class",badk2,"bad outside",len(bad),bad[:12])
