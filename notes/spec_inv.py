import itertools, sys, logging
from spec_parse import impl
from bibtexparser.middlewares.names import split_multiple_persons_names as sp
toks=["Aa","bb","and","AND"," ","~",",","{and}","{x y}"]
N=int(sys.argv[1]); n=chk=bad=bad_noand=0; seen=[]
def isand(w): return len(w)==3 and w.lower()=="and"
for L in range(1,N+1):
    for seq in itertools.product(toks,repeat=L):
        v="".join(seq); n+=1
        ps=[impl(x) for x in sp(v)]
        if not ps or any(isinstance(p,str) or not p.last for p in ps): continue
        chk+=1
        m=" and ".join(p.merge_last_name_first for p in ps)
        ps2=[impl(x) for x in sp(m)]
        if ps2!=ps:
            bad+=1
            hasand=any(isand(w) for p in ps for part in (p.first,p.von,p.last,p.jr) for w in part)
            if not hasand:
                bad_noand+=1
                if bad_noand<=10: print("NOAND", repr(v), ps, repr(m), ps2)
            elif len(seen)<6: seen.append((v,m))
print("cases",n,"checked",chk,"bad",bad,"bad without and-word",bad_noand); print(seen)
