import itertools, logging, sys
logging.disable(logging.CRITICAL)
from bibtexparser.middlewares.names import split_multiple_persons_names as sp, parse_single_name_into_parts as pn, InvalidNameError, NameParts
WS4=" \r\n\t"
def balanced(s):
    d=0; i=0
    while i<len(s):
        c=s[i]
        if c=="\\": i+=2; continue
        if c=="{": d+=1
        elif c=="}":
            d-=1
            if d<0: return False
        i+=1
    return d==0
def words(s):
    """top-level words with (start,end), depth clamped at 0, escape pairs atomic"""
    out=[]; d=0; i=0; start=None
    while i<len(s):
        c=s[i]
        if c=="\\":
            if start is None: start=i
            i+=2; continue
        if c=="{": 
            if start is None: start=i
            d+=1
        elif c=="}":
            if start is None: start=i
            if d: d-=1
        elif d==0 and c in WS4:
            if start is not None: out.append((start,i)); start=None
        else:
            if start is None: start=i
        i+=1
    if start is not None: out.append((start,min(i,len(s))))
    return out
def ref_split(s):
    s=s.strip(WS4)
    if not s: return []
    ws=words(s); pieces=[]; cur=[]
    for k,(a,b) in enumerate(ws):
        w=s[a:b]
        if len(w)==3 and w.lower()=="and" and cur and k+1<len(ws):
            pieces.append(s[cur[0][0]:cur[-1][1]]); cur=[]
        else: cur.append((a,b))
    if cur: pieces.append(s[cur[0][0]:cur[-1][1]])
    return pieces
def conserved(s, pieces):
    t=s.strip(WS4); i=0
    for k,p in enumerate(pieces):
        if not t.startswith(p,i): return False
        i+=len(p)
        if k+1<len(pieces):
            j=i
            while j<len(t) and t[j] in WS4: j+=1
            if j==i or t[j:j+3].lower()!="and": return False
            j+=3; k2=j
            while k2<len(t) and t[k2] in WS4: k2+=1
            if k2==j: return False
            i=k2
    return i==len(t)
toks=["Ab","and","AND","an","d"," ","\t","~","{","}","\\","\\'",","]
N=int(sys.argv[1]); bad=[0,0,0]; n=0; nb=0
for L in range(0,N+1):
    for seq in itertools.product(toks,repeat=L):
        s="".join(seq); n+=1
        got=sp(s)
        if not conserved(s,got):
            bad[0]+=1
            if bad[0]<=5: print("CONS", repr(s), got)
        if sp(" and ".join(got))!=got:
            bad[1]+=1
            if bad[1]<=5: print("IDEM", repr(s), got, sp(" and ".join(got)))
        if balanced(s):
            nb+=1
            r=ref_split(s)
            if r!=got:
                bad[2]+=1
                if bad[2]<=8: print("EXACT", repr(s), got, r)
print("cases",n,"balanced",nb,"bad cons/idem/exact",bad)
