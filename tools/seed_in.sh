#!/bin/bash
# tools/seed_in.sh <Cxx> <suffix> <outdir-prefix>: import a breaker's output, evaluate it, drop its worktree
p=$1; s=$2; pre=${3:-seed2}
python3 /verif/tools/seeded.py import $p /tmp/${pre}_${p}_out ${p}-${s} 2>&1 | tail -1
python3 /verif/tools/seeded.py run ${p}-${s} | tail -1 | cut -c1-260
git -C /repo worktree remove --force /tmp/${pre}_$p 2>/dev/null; rm -rf /tmp/${pre}_${p}_out
