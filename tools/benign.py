#!/usr/bin/env python3
"""Behaviour-preserving rewrites of /repo: every check must stay silent on them.

usage: tools/benign.py import <name> <out_dir>      confirm (patch applies, unedited suite passes) and keep as benign/<name>/
       tools/benign.py run <name> [Cxx ...]         every (or the given) quick check against a scratch worktree with the patch:
                                                    constants are regenerated from the patched tree (compared with /repo's),
                                                    each check must exit 0 without a VIOLATION line; outcome recorded in meta.json
       tools/benign.py runall

The rewrites are written by sub-agents that see the property list and a private worktree only (tools: prompts in DESIGN.md
section 10.5).  An alarm on one of them is either a false alarm of the machinery (to be corrected) or a rewrite that is not
behaviour-preserving after all (then it is moved to seeded/ if it breaks a property, or dropped)."""
import json
import os
import shutil
import subprocess
import sys
import tempfile

ROOT = os.path.dirname(os.path.dirname(os.path.abspath(__file__)))
PY = "/venv/bin/python"


def sh(cmd, **kw):
    return subprocess.run(cmd, shell=True, stdout=subprocess.PIPE, stderr=subprocess.STDOUT, text=True, **kw)


def worktree(patch):
    d = tempfile.mkdtemp(prefix="benignwt_")
    os.rmdir(d)
    r = sh("git -C /repo worktree add -q %s HEAD" % d)
    assert r.returncode == 0, r.stdout
    r = sh("git -C %s apply %s" % (d, patch))
    if r.returncode != 0:
        drop(d)
        raise RuntimeError("patch does not apply: " + r.stdout)
    return d


def drop(d):
    sh("git -C /repo worktree remove --force %s" % d)
    shutil.rmtree(d, ignore_errors=True)
    shutil.rmtree(d + "_evidence", ignore_errors=True)


def do_import(name, out_dir):
    dst = os.path.join(ROOT, "benign", name)
    patch = os.path.join(out_dir, "patch.diff")
    meta = json.load(open(os.path.join(out_dir, "meta.json")))
    wt = worktree(patch)
    try:
        t = sh("cd %s && PYTHONPATH=%s %s -m pytest -q -p no:cacheprovider --timeout=900 tests 2>&1 | tail -1" % (wt, wt, PY))
    finally:
        drop(wt)
    suite = t.stdout.strip()
    print("suite:", suite)
    if not ("passed" in suite and "failed" not in suite and "error" not in suite):
        print("NOT CONFIRMED - not imported")
        return 1
    os.makedirs(dst, exist_ok=True)
    shutil.copy(patch, os.path.join(dst, "patch.diff"))
    meta["confirmed"] = {"test_suite_with_change": suite}
    json.dump(meta, open(os.path.join(dst, "meta.json"), "w"), indent=1)
    print("imported as benign/%s" % name)
    return 0


def constants_of(tree):
    """Gen/Constants.v as generated from `tree`, without touching the build (written to a scratch file)"""
    out = tempfile.mkdtemp(prefix="benignconst_")
    r = sh("cd %s/harness && VERIF_CONSTANTS_OUT=%s PYTHONPATH=%s PYTHONDONTWRITEBYTECODE=1 PYTHONHASHSEED=0 %s -B gen_constants.py"
           % (ROOT, out, tree, PY))
    txt = {}
    for f in sorted(os.listdir(out)):
        txt[f] = open(os.path.join(out, f)).read()
    shutil.rmtree(out, ignore_errors=True)
    return r.returncode, r.stdout[-400:], txt


def do_run(name, props=None):
    d = os.path.join(ROOT, "benign", name)
    meta = json.load(open(os.path.join(d, "meta.json")))
    allp = [c["property_id"] for c in json.load(open(os.path.join(ROOT, "MANIFEST.json")))["checks"]]
    props = props or allp
    wt = worktree(os.path.join(d, "patch.diff"))
    res = {}
    try:
        rc0, _, c_repo = constants_of("/repo")
        rc1, log1, c_wt = constants_of(wt)
        same = (rc0 == rc1 == 0) and c_repo.get("Constants.v") == c_wt.get("Constants.v")
        how = [l for l in log1.splitlines() if "pinned" in l or "observed" in l or "derived" in l]
        res["constants"] = {"same_as_repo": same, "detail": "" if same else (log1 or "generated files differ"),
                            "not_read_from_the_usual_place": how}
        print(name, "constants:", "same" if same else "DIFFERENT " + res["constants"]["detail"][:200])
        for prop in props:
            r = sh("cd %s && VERIF_EVIDENCE_DIR=%s VERIF_REPO=%s ./check %s --tier quick --no-build"
                   % (ROOT, wt + "_evidence", wt, prop))
            lines = [l for l in r.stdout.splitlines() if l.startswith("VIOLATION") or l.startswith("== ")]
            quiet = r.returncode == 0 and not any(l.startswith("VIOLATION") for l in lines)
            res[prop] = {"quiet": quiet, "rc": r.returncode, "lines": lines[-4:]}
            print(name, prop, "quiet" if quiet else "ALARM rc=%d %s" % (r.returncode, " | ".join(lines[-3:])[:300]))
            if not quiet:
                keep = os.path.join(d, "alarm_%s.log" % prop)
                open(keep, "w").write(r.stdout[-20000:])
    finally:
        drop(wt)
    meta.setdefault("checks", {}).update(res)
    json.dump(meta, open(os.path.join(d, "meta.json"), "w"), indent=1)
    return res


if __name__ == "__main__":
    cmd = sys.argv[1]
    if cmd == "import":
        sys.exit(do_import(sys.argv[2], sys.argv[3]))
    elif cmd == "run":
        do_run(sys.argv[2], sys.argv[3:] or None)
    elif cmd == "runall":
        for n in sorted(os.listdir(os.path.join(ROOT, "benign"))):
            if os.path.isdir(os.path.join(ROOT, "benign", n)):
                do_run(n)
