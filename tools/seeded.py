#!/usr/bin/env python3
"""Confirm and evaluate a seeded breaking change.

usage: tools/seeded.py import <Cxx> <out_dir> [name]   copy patch.diff / demo.py / meta.json from a breaker's output dir
                                                       into seeded/<name>/ after confirming the claims
       tools/seeded.py run <name> [--tier quick]       run the property's check against the change
       tools/seeded.py runall [--tier quick]

Confirmation (import): in a scratch worktree of /repo (under /tmp, removed afterwards): the patch applies, the unedited
test suite passes with it, demo.py exits 1 with it and 0 without it.  Evaluation (run): the check of the property is run
with VERIF_REPO pointing at a scratch worktree with the patch applied; the outcome is recorded in meta.json.
"""
import json
import os
import shutil
import subprocess
import sys
import tempfile

ROOT = os.path.dirname(os.path.dirname(os.path.abspath(__file__)))
PY = "/venv/bin/python"


def sh(cmd, **kw):
    return subprocess.run(cmd, shell=True, stdout=subprocess.PIPE, stderr=subprocess.STDOUT, text=True, **kw)


def worktree(patch):
    d = tempfile.mkdtemp(prefix="seedwt_")
    os.rmdir(d)
    r = sh("git -C /repo worktree add -q %s HEAD" % d)
    assert r.returncode == 0, r.stdout
    if patch:
        r = sh("git -C %s apply %s" % (d, patch))
        if r.returncode != 0:
            sh("git -C /repo worktree remove --force %s" % d)
            raise RuntimeError("patch does not apply: " + r.stdout)
    return d


def drop(d):
    sh("git -C /repo worktree remove --force %s" % d)
    shutil.rmtree(d, ignore_errors=True)


def demo(tree, path):
    r = sh("cd /tmp && PYTHONPATH=%s PYTHONDONTWRITEBYTECODE=1 timeout 600 %s -B %s" % (tree, PY, path))
    return r.returncode, r.stdout[-600:]


def do_import(prop, out_dir, name=None):
    name = name or prop
    dst = os.path.join(ROOT, "seeded", name)
    patch = os.path.join(out_dir, "patch.diff")
    dm = os.path.join(out_dir, "demo.py")
    meta = json.load(open(os.path.join(out_dir, "meta.json")))
    wt = worktree(patch)
    try:
        t = sh("cd %s && PYTHONPATH=%s %s -m pytest -q -p no:cacheprovider --timeout=900 tests 2>&1 | tail -1" % (wt, wt, PY))
        suite = t.stdout.strip()
        rc_mod, out_mod = demo(wt, dm)
    finally:
        drop(wt)
    rc_orig, out_orig = demo("/repo", dm)
    ok = ("passed" in suite and "failed" not in suite and "error" not in suite) and rc_mod != 0 and rc_orig == 0
    print("suite:", suite)
    print("demo on change: rc=%d  %s" % (rc_mod, out_mod.strip()[-200:]))
    print("demo on /repo : rc=%d  %s" % (rc_orig, out_orig.strip()[-200:]))
    if not ok:
        print("NOT CONFIRMED - not imported")
        return 1
    os.makedirs(dst, exist_ok=True)
    shutil.copy(patch, os.path.join(dst, "patch.diff"))
    shutil.copy(dm, os.path.join(dst, "demo.py"))
    meta.update({"property": prop, "confirmed": {"test_suite_with_change": suite, "demo_rc_with_change": rc_mod,
                                                  "demo_rc_on_repo": rc_orig,
                                                  "how": "scratch worktree of /repo under /tmp, patch applied with git apply, "
                                                         "unedited suite run with PYTHONPATH=<worktree>, demo.py run on both trees"}})
    json.dump(meta, open(os.path.join(dst, "meta.json"), "w"), indent=1)
    print("imported as seeded/%s" % name)
    return 0


def do_run(name, tier="quick", props=None):
    d = os.path.join(ROOT, "seeded", name)
    meta = json.load(open(os.path.join(d, "meta.json")))
    props = props or [meta["property"]]
    wt = worktree(os.path.join(d, "patch.diff"))
    res = {}
    try:
        for prop in props:
            # evidence of runs against a changed tree must not overwrite the evidence of /repo
            # SEEDED_NO_BUILD=1: do not regenerate constants / rebuild (for concurrent use; the model keeps /repo's constants)
            nb = " --no-build" if os.environ.get("SEEDED_NO_BUILD") else ""
            r = sh("cd %s && VERIF_EVIDENCE_DIR=%s VERIF_REPO=%s ./check %s --tier %s%s" % (ROOT, wt + "_evidence", wt, prop, tier, nb))
            shutil.rmtree(wt + "_evidence", ignore_errors=True)
            lines = [l for l in r.stdout.splitlines() if l.startswith("VIOLATION") or l.startswith("== ") or l.startswith("KNOWN")]
            res[prop] = {"rc": r.returncode, "lines": lines[-6:]}
            print(name, prop, "rc=%d" % r.returncode, "| ".join(lines[-3:])[:300])
    finally:
        drop(wt)
        if not os.environ.get("SEEDED_NO_BUILD"):
            sh("cd %s && ./build.sh" % ROOT)      # constants back to /repo's
    meta.setdefault("checks", {})
    for prop, v in res.items():
        meta["checks"]["%s/%s" % (prop, tier)] = {"caught": v["rc"] == 1 and any(l.startswith("VIOLATION") for l in v["lines"]),
                                                  "output": v["lines"]}
    json.dump(meta, open(os.path.join(d, "meta.json"), "w"), indent=1)
    return res


if __name__ == "__main__":
    cmd = sys.argv[1]
    tier = "quick"
    if "--tier" in sys.argv:
        tier = sys.argv[sys.argv.index("--tier") + 1]
    if cmd == "import":
        sys.exit(do_import(*[a for a in sys.argv[2:5] if not a.startswith("--")]))
    elif cmd == "run":
        extra = [a for a in sys.argv[3:] if a.startswith("C") and len(a) == 3]
        do_run(sys.argv[2], tier, extra or None)
    elif cmd == "runall":
        for n in sorted(os.listdir(os.path.join(ROOT, "seeded"))):
            if os.path.isdir(os.path.join(ROOT, "seeded", n)):
                do_run(n, tier)
