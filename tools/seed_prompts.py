#!/usr/bin/env python3
"""Prepare one scratch worktree + prompt per property for a round of seeded breaking changes.

usage: tools/seed_prompts.py <prefix> [Cxx ...]      e.g. tools/seed_prompts.py seed4
Creates /tmp/<prefix>_<Cxx> (git worktree of /repo HEAD), /tmp/<prefix>_<Cxx>_out and /tmp/<prefix>_<Cxx>_prompt.md.
The prompt holds ONLY the property record and the summaries of earlier changes (so that a different mechanism is chosen);
nothing about the checks.  Evaluate with tools/seed_in.sh <Cxx> <suffix> <prefix>.
"""
import glob
import json
import os
import subprocess
import sys

ROOT = os.path.dirname(os.path.dirname(os.path.abspath(__file__)))
prefix = sys.argv[1]
only = sys.argv[2:]
props = {json.loads(l)["id"]: json.loads(l) for l in open(os.path.join(ROOT, "properties.jsonl"))}
prev = {}
for d in sorted(glob.glob(os.path.join(ROOT, "seeded", "*", "meta.json"))):
    m = json.load(open(d))
    prev.setdefault(m["property"], []).append(m.get("summary", ""))
EXTRA = os.environ.get("SEED_EXTRA", "")
for pid, p in props.items():
    if only and pid not in only:
        continue
    wt = "/tmp/%s_%s" % (prefix, pid)
    out = wt + "_out"
    subprocess.run("git -C /repo worktree remove --force %s 2>/dev/null; rm -rf %s %s; git -C /repo worktree add -q %s HEAD && mkdir -p %s"
                   % (wt, wt, out, wt, out), shell=True, check=True)
    txt = f"""# Task: write a subtle breaking change for one semantic property of python-bibtexparser

You have your own scratch git worktree of the library at `{wt}` (a checkout of python-bibtexparser, package in `{wt}/bibtexparser`, tests in `{wt}/tests`). Work ONLY inside `{wt}` and `{out}`. Never touch `/repo` or `/verif` (do not read /verif at all).
Python to use: `/venv/bin/python` (the package's dependencies are installed there). Run things with `cd /tmp && PYTHONPATH={wt} PYTHONDONTWRITEBYTECODE=1 /venv/bin/python -B <script>` so that `{wt}/bibtexparser` is what gets imported (assert `bibtexparser.__file__` starts with `{wt}` in your scripts while you develop, but NOT in the final demo, which must run against any tree given by PYTHONPATH).
Test suite: `cd {wt} && PYTHONPATH={wt} /venv/bin/python -m pytest -q -p no:cacheprovider --timeout=900 tests` (about 2431 tests pass on the unchanged tree).

## The property (this text is all you are given about it)

```json
{json.dumps(p, indent=1)}
```

## What to produce

A realistic change to the library source (the kind of edit a maintainer could make in good faith: a refactor, an optimisation, a 'tidy-up', a small feature, a compatibility shim) that **breaks the property above** while:
1. the package still imports and the existing test suite, unedited, still passes entirely (same number of passed tests);
2. the breakage does NOT show in ordinary use: it needs something specific to manifest - an unusual input, a particular multi-step sequence of operations, a particular option combination, a size threshold, or **two cooperating edit sites that each look fine alone**. Prefer changes that are hard to notice: the more specific the trigger, the better. Do not write a change that breaks the first thing anyone tries.
3. it is a genuine violation of the property statement as written (not merely a different-but-allowed behaviour).
{EXTRA}
Earlier attempts already used the following mechanisms for this property - choose a clearly DIFFERENT code site or mechanism:
""" + "".join("- %s\n" % s for s in prev.get(pid, [])) + f"""
Then write into `{out}/`:
- `patch.diff`: output of `git -C {wt} diff` (source changes only; do not edit or add tests in the worktree).
- `demo.py`: a small self-contained Python program (stdlib + bibtexparser only, imports bibtexparser from PYTHONPATH) that exercises the public API and **exits with status 1 (printing what went wrong) when the property is violated and status 0 when it holds**. It must exit 1 on your changed tree and 0 on the unchanged tree. It must state the property's expectation directly (e.g. compare with what the property text demands), not compare against hard-coded output of the old code where avoidable.
- `meta.json`: {{"property": "{pid}", "summary": "<what was changed, 1-3 sentences>", "needs": "<what is required for the violation to manifest>", "files": [<changed files>], "test_suite": "<last line of pytest output with your change>"}}

Verify all of it yourself before finishing: run the suite with the change; run demo.py with the change (rc 1); undo the change with `git -C {wt} diff > {out}/patch.diff && git -C {wt} apply -R {out}/patch.diff`, run demo.py (rc 0), re-apply with `git -C {wt} apply {out}/patch.diff` (do NOT use `git stash`: the stash is shared between all worktrees of the repository and other people are working in sibling worktrees). Leave the worktree with your change applied. Your final message should be 3-6 lines: what you changed, the trigger, and the verification results.
"""
    open("/tmp/%s_%s_prompt.md" % (prefix, pid), "w").write(txt)
    print(pid, wt)
