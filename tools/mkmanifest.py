#!/usr/bin/env python3
"""Regenerate MANIFEST.json from the table below (kept in one place so it always validates)."""
import json, os
ROOT = os.path.dirname(os.path.dirname(os.path.abspath(__file__)))

CLAIMED = {
 "C15": dict(engine="month", design="4 C15",
   text="Coq theorems over the month model with the table regenerated from the running module (spellings of every case "
        "variant and zero padding, all 9 compositions, non-months unchanged, no raise), tied to /repo by exhaustive "
        "differential correspondence through the three middleware classes and by an independent Python oracle of the property.",
   note="the theorems also hold with CPython's str.lower and int() as ABSTRACT oracles (C15_gen_*: assumed only that lower maps the 24 table rows as ASCII lower does and keeps decimal strings decimal; nothing is assumed of int(), which may refuse a string); proving them exposed F18 (digit-limit ValueError, repaired); True as a month value (isinstance(True, int)) is modelled faithfully and excluded from the compose/others theorems by an explicit premise (C15_bool_true); the executable correspondence runs the ASCII instances (C15_gen_instance), other inputs go through the Python oracle only; "
        "model hand-written, tied by correspondence; extraction cross-checked by vm_compute",
   technique="Coq proof (table facts by vm_compute at every build) + differential correspondence via extracted model"),
}
CLAIMED["C01"] = dict(engine="split", design="4 C01",
   text="Coq theorems over the splitter machine: for every text the machine ends with blocks (the two 'should never happen' "
        "exceptions are unreachable thanks to the regex look-ahead, proved on the lexer model); tied to /repo by differential "
        "correspondence of Splitter/parse_string on exhaustive token sequences, mutations, garbage and size-scaled inputs, the lexer "
        "against re.finditer on the regex read from the source, and a Python oracle running the default parse and write stacks.",
   note="also proved over the composed model (Model/Pipeline.v: splitter, resolve, remove-enclosing, add-enclosing, writer): parse_string and "
        "write_string return for every text, no block is dropped, failed blocks carry raw text; that composed model is compared with "
        "write_string(parse_string(text)) on every run (op 151); Python recursion depth and memory are environment limits observed by the "
        "size-scaled stream only",
   technique="Coq proof (state-machine invariant over fold_left) + differential correspondence via extracted model")
CLAIMED["C03"] = dict(engine="split", design="4 C03",
   text="Coq theorem for ALL input texts: the raw texts of the emitted blocks tile the scanned text with whitespace-only gaps and each "
        "start_line is the true line; each field line is the true line of an '=' of its entry. Tied to /repo by differential "
        "correspondence (every block attribute compared) and an independent Python tiling/line oracle.",
   note="CPython's isspace and \\w enter as per-character flags; model hand-written, tied by correspondence; extraction cross-checked by vm_compute",
   technique="Coq proof (ghost-state invariant over the splitter fold) + differential correspondence via extracted model")

CLAIMED["C04"] = dict(engine="split", design="4 C04",
   text="Coq theorems for ALL texts: resynchronisation (arbitrary garbage followed by a line starting with a block start: that block and "
        "everything after it are parsed exactly as on their own, shifted by the preceding lines; what precedes accounts for the garbage only), "
        "prefix stability (a text after which the machine has just closed a block keeps its blocks whatever follows) and the concatenation "
        "law; tied to /repo by differential correspondence on triples (well-formed prefix, arbitrary middle, well-formed suffix) and an "
        "independent Python oracle comparing with the neighbours parsed alone.",
   note="'well-formed document ending in a complete block' is expressed on the machine state (mode Out, empty pending text); its link to the "
        "grammar is C02; model hand-written, tied by correspondence; extraction cross-checked by vm_compute",
   technique="Coq proof (simulation relation between two runs of the splitter machine, line-shifted) + differential correspondence via extracted model")
CLAIMED["C09"] = dict(engine="split", design="4 C09",
   text="Coq theorems: Library.add on any sequence of raw blocks = the source list with every later same-key Entry/String replaced at its own "
        "position by a duplicate-key block holding the key, the FIRST block and the complete duplicate (count preserved, first wins in both "
        "key indexes, duplicate-field blocks never registered); for every text an entry repeating a field name is emitted as a duplicate-field "
        "block whose inner entry keeps every occurrence; tied to /repo by correspondence on grammar documents with colliding key pools "
        "(incl. previous_block identity) and an independent Python oracle; incremental parsing (Splitter.split(library=L), parse_string(library=L)) is "
        "modelled (split_into), proved equal to adding all blocks in one go (C09_incremental) and compared (op 135); at object level (heap model): a library-level deep copy keeps every duplicate wrapper's link to the first block inside the copy (C09_copy_keeps_previous_block_live, from the isomorphism theorem of the executable deep copy), the per-block copies of a copy-mode block middleware do not (C09_block_copy_mode_refuted_K13, open finding K13); every path that copies or rebuilds a library is judged by identity of previous_block.",
   note="'one raw block per source block of a well-formed document' is C02's theorem/correspondence; model hand-written, tied by correspondence",
   technique="Coq proof (fold invariant over Library.add; field-name invariant over the splitter machine) + differential correspondence via extracted model")
CLAIMED["C19"] = dict(engine="entry", design="4 C19",
   text="Coq theorems over the Entry model (fields_dict rebuilt from the field list, set_field, pop, get, in, [], []=, del, items): "
        "every operation sequence on an entry with distinct keys refines an insertion-ordered dictionary (induction over the call list), "
        "the three views always agree, ENTRYTYPE/ID lookups, and Field/Block == is exactly same-class-and-same-content; tied to /repo by "
        "bounded-exhaustive and random operation sequences and single-attribute perturbation / copy pairs, plus an independent Python oracle (reference dict).",
   note="entries SHARING Field objects are modelled at object level (Model/EntryObj.v: a store of Field objects with identity; C19_obj_refines, C19_obj_store_frame - no mapping operation ever writes into an existing Field object -, C19_obj_other_entries, C19_obj_world_refines; the in-place alternative is refuted by example) and compared on object-level programs (op 25); Field subclasses with odd truth value / equality and entries built over one shared LIST object are checked by the Python oracle only; values containing dicts or foreign objects are outside the executable equality model (oracle only); failed-block equality is covered by the library engine (identity of the error object); "
        "model hand-written, tied by correspondence; extraction cross-checked by vm_compute",
   technique="Coq proof (refinement by induction over histories; reflection of == against a structural relation) + differential correspondence via extracted model")
CLAIMED["C17"] = dict(engine="sortfields", design="4 C17",
   text="Coq theorems over executable models of SortFieldsAlphabeticallyMiddleware, SortFieldsCustomMiddleware (incl. constructor) and "
        "NormalizeFieldKeys for all field lists / order lists / block lists: stable sorted permutation (and its uniqueness, which justifies "
        "modelling sorted() by insertion sort), explicit listed-first form, ValueError iff duplicates after folding, normalisation = "
        "first-occurrence key order with last-occurrence values, frame, idempotence; tied to /repo by differential correspondence through "
        "the real middleware classes' transform(library) and an independent Python oracle of the property text.",
   note="sorted() assumed to meet the stable-sort contract (unique result proved); the theorems also hold for EVERY str.lower as an abstract oracle (C17_gen_*: no hypothesis except idempotence of lower for idempotence of NormalizeFieldKeys / lower-case keys, proved necessary and sufficient, and brute-force checked on CPython); the executable correspondence runs the ASCII instance (C17_gen_instance), other cased letters go "
        "through the Python oracle only; blocks of the input library share no objects (aliasing is C07); model hand-written, tied by "
        "correspondence; extraction cross-checked by vm_compute",
   technique="Coq proof (induction over lists) + differential correspondence via extracted model + independent oracle")
CLAIMED["C16"] = dict(engine="sortblocks", design="4 C16",
   text="Coq theorems over an executable model of SortBlocksByTypeAndKeyMiddleware.transform (junk grouping, exact-class rank, (rank,key) "
        "tuple order, Library rebuild) for all block lists satisfying the Library key invariant and all order lists: permutation, sorted and "
        "stable on units, comment runs stay attached, uniqueness of the result under the stable-sort contract; tied to /repo by differential "
        "correspondence over a 12-block universe x all 326 type orders x both comment modes and an independent Python oracle (incl. input "
        "library unchanged).",
   note="list.sort assumed to meet the stable-sort contract (unique result proved); deepcopy assumed structure-preserving; 'input library "
        "unchanged' is proved at heap level over the framework model of C07 (C16_input_kept) and checked by the harness oracle; model hand-written, tied by correspondence; "
        "extraction cross-checked by vm_compute",
   technique="Coq proof (induction over lists/derivations) + differential correspondence via extracted model + independent oracle")

CLAIMED["C06"] = dict(engine="writer", design="4 C06",
   text="Coq theorems over a model of writer.py against an independently written contract (Spec/C06.v): every str-valued library "
        "under every format is written without exception as the block texts in library order joined by the separator (none after the last); "
        "field line shape and comma rule by position; value column = len(indent)+value_column for short keys, no padding for long keys; "
        "'auto' = 3 + longest key over all fields of all top-level entries, common and minimal; failed blocks of every subclass = configured "
        "comment with {n} = len(raw.splitlines()) then the raw text verbatim; str.splitlines proved against a declarative line grammar. "
        "Tied to /repo by differential correspondence through writer.write / write_string and by an independent Python oracle "
        "that also checks the format object is unchanged.",
   note="C06_write_no_cr: the output holds a carriage return only if the library or the format does; the 'format object unchanged' clause is proved at heap level over the framework model of C07 (C06_format_unchanged, with the executable deep copy, no hypothesis on the copy) and checked by the harness oracle; str.splitlines and str.format "
        "({n}, {{ }} templates only) are CPython oracles modelled and compared on every run (ops 62/63); templates outside that class are "
        "skipped; VAL_SEP and the default format are regenerated from the running module (val_sep = ' = ' is a Qed)",
   technique="Coq proof + differential correspondence via extracted model + independent Python oracle")
CLAIMED["C20"] = dict(engine="stack", design="4 C20",
   text="Coq theorems, for arbitrary middleware semantics, splitter, codec and sinks: parse_string/write_string apply exactly the given stack "
        "or default(+append)/(prepend+)default in left-to-right order, ValueError when both are given, parse_file/write_file forward to them, "
        "BlockMiddleware.transform splices None/block/collection results in place and raises TypeError otherwise, Library(blocks) keeps "
        "positions. Tied to /repo by correspondence with order-sensitive probe middlewares and shipped middlewares in every argument "
        "position (lists, tuples, generators, iterators), real temp files in utf-8/latin-1/gbk/utf-16 with CRLF, path/StringIO/file-object "
        "targets, and by an oracle that composes Splitter.split, mw.transform in order and writer.write manually.",
   note="the text layer under parse_file / write_file is MODELLED for utf-8, latin-1 and utf-16 (Model/TextIO.v: strict codecs, byte order mark, universal newlines; C20_text_*: what is written is read back up to newline translation, exactly when there is no carriage return, the decoders accept one spelling only, decoding / newline translation / encoding are compositional at the boundaries where a chunked reader or a piecewise writer cuts, a CR-free utf-8 file is a byte-level fixpoint, and - composed with the writer model through C06_write_no_cr - what write_file writes for a library and format without carriage returns is read back exactly) and compared with CPython's open() on every run (stream textio, ops 180/181); "
        "partial: gbk, the file system, the splitter and the shipped middlewares enter as oracles "
        "(finite graphs supplied per case by the manual composition; a missing row is a disagreement); previous_block aliases are "
        "compared as stubs; theorems are close to definitional by design - the correspondence pins the Python to them",
   technique="Coq proof (generic in the middleware type) + differential correspondence via extracted model + manual-composition oracle")

CLAIMED["C08"] = dict(engine="library", design="4 C08",
   text="Coq theorems over the Library model with object identities (add/remove/replace incl. rollback, _add_to_dicts wrapping, eight views): the invariant "
        "(dict views map exactly the held keys to those objects, no shared keys, class views partition blocks, strings/entries follow block order, only ValueError "
        "is ever raised) holds after every history, order of blocks under add/remove/replace, raise-atomicity of all eight views up to Python == except finding K1 "
        "(refuted witness proved); tied to /repo by bounded-exhaustive (depth 3/4/5) and random (depth 30) histories comparing all eight views by identity after "
        "every call, plus an independent Python oracle.",
   note="K1 (add fail_on_duplicate_key=True raises after appending) is a known finding; subclasses of Entry/String and caller-made failed blocks sharing one "
        "exception object are outside the model; model hand-written, tied by correspondence; extraction cross-checked by vm_compute",
   technique="Coq proof (representation invariant by induction over histories, explicit rollback computation) + differential correspondence via extracted model")

CLAIMED["C10"] = dict(engine="enclosing", design="4 C10",
  text="Coq theorems over the enclosing model (_strip_enclosing characterised against an independent outer-pair spec over prefixes/active-brace depth; reuse restores; integer rule and default enclosing without error; metadata and frame for entries/strings/libraries; numeric-field constants re-proved at every build), tied to /repo by bounded-exhaustive differential correspondence (all token strings up to 4/5 tokens, samples to 7, ints, every option combination) through the function level and the real middlewares, and by a Python oracle that also checks remove->add->write_string->parse_string.",
  note="the re-parse clause is also proved composed with the splitter model (C10_reparse_brace / C10_reparse_quote over the grammar's braced / quoted contents, K2 and K4 refuted by witnesses) and checked by the Python oracle through the real write_string/parse_string; K2/K4 open known findings; str.strip/isdigit enter as per-character flags; non str/int values reaching _enclose are outside the model (skipped)",
  technique="Coq proof + differential correspondence via extracted model + property oracle through the public entry points")
CLAIMED["C11"] = dict(engine="interpolate", design="4 C11",
  text="Coq theorems over ResolveStringReferences on a library given as the block list it is built from (first definition per key proved from the Library model; resolved/untouched/metadata via a spec relation; non-entry blocks untouched; default stack = resolve then remove acts block-wise, field holds the referenced string's content; order-matters witness), tied to /repo by differential correspondence on split libraries of generated documents (resolve alone, real default parse_string, swapped order) and a Python oracle on parse_string(text) against the document spec.",
  note="'after default parsing of a grammar-derived document' is proved composed with the splitter model (C11_doc_fields / C11_doc_untouched / C11_doc_strings over the dialect grammar); K8 (an @string name containing '#') open known finding; duplicate-wrapped entries are not live and not resolved (checked by correspondence)",
  technique="Coq proof + differential correspondence via extracted model + document-spec oracle")

CLAIMED["C02"] = dict(engine="split", design="4 C02",
   text="Coq theorem 'parse (print d) = ground truth of d' for EVERY document of the dialect grammar (AST Model/Grammar.v with printer, "
        "constructive ground truth and boolean well-formedness incl. side condition G): one block per source block, in order, no failed "
        "block, lower-cased type, exact key, fields in order with exact names, verbatim values and '=' lines, strings/preambles/comments/"
        "free text with their source text, raw text and start line of every block; tied to /repo by three-way correspondence "
        "(implementation = model = generator's ground truth) on seeded random derivations.",
   note="documents outside the dialect (boundaries B1-B5 of DESIGN.md section 3) are not claimed; duplicate field names are excluded "
        "(they are C09's subject); model hand-written, tied by correspondence; extraction cross-checked by vm_compute",
   technique="Coq proof (induction over the grammar derivation, fused lexer/machine run) + differential correspondence via extracted model")
CLAIMED["C18"] = dict(engine="latexwrap", design="4 C18",
  text="PARTIAL: Coq theorems for the wrapper _PyStringTransformerMiddleware with the converter as an arbitrary function (one-equation characterisation: visited texts incl. order first,last,von,jr, write-back, scope/types, error containment for every failure incl. exceptions without message, library level, conditional round trip), tied to /repo by differential correspondence through the real Latex{En,De}codingMiddleware classes with custom stub converters implementing the same table as the model; the ENCODER RULES configured in latex_encoding.py (keep_math and URL patterns with their greedy semantics, rule order, replacements, advance) are modelled (Model/LatexRules.v) with pylatexenc's per-character default conversion as an oracle, proved (C18_rules_off, C18_rules_keep_math_first_to_last_dollar = root cause of K5, C18_rules_url_raw = root cause of K6) and compared with LatexEncodingMiddleware on every run (op 121); the round trip through real pylatexenc is validated by TESTING only (1 000 / 40 000 texts x option sets), scope/type oracle under every constructor option.",
  note="pylatexenc (conversion table, LaTeX parser, hence the decoder) is not modelled; round-trip clause tested, not proved; open findings K5 (greedy keep_math rule), K6 (URLs with % ~ &), K12 (TeX ligature sequences, the characters \" ^ and ten accented Latin letters: texts the property names, run and attributed, not left out); letters OUTSIDE the alphabet the property names that pristine pylatexenc does not round-trip are excluded at run time and counted in the evidence tags",
  technique="Coq proof of the wrapper + differential correspondence with stub converters + randomized round-trip testing of the third-party converter")
CLAIMED["C07"] = dict(engine="heap", design="4 C07",
  text="Coq theorems over a heap model (objects with identity) of the middleware FRAMEWORK (BlockMiddleware.transform/transform_block, "
       "LibraryMiddleware, ResolveStringReferences, SortBlocksByTypeAndKey, Library.__init__/add incl. duplicate wrappers, default write "
       "stack + writer): for EVERY heap, library, per-block body within footprint_ok and stack of ANY length, copy mode leaves every "
       "pre-existing object unchanged and nothing reachable from the result is a pre-existing object; write_string leaves library and "
       "format untouched. Tied to /repo by (a) a Python oracle of the property on every shipped middleware class x option set x stacks "
       "<=3 x write_string formats (own deep-copy reference, id()-based aliasing, fail-closed walker) and (b) differential correspondence of "
       "the framework model against the real framework with 9 probe bodies + Resolve/Sort/LibraryMiddleware/write_string/copy.deepcopy in "
       "copy AND in-place mode, comparing the exact sharing pattern.",
  note="ASSUMED of CPython: copy.deepcopy meets dc_contract (explicit hypothesis DC of every theorem, no axiom); the executable fuelled graph "
       "copy used to run the model is PROVED total on every well-formed heap and an instance of dc_contract (C07_deepcopy_exec_total, "
       "C07_deepcopy_exec_contract, C07_stack_exec: the stack theorem with no DC hypothesis), PROVED to be a graph isomorphism of everything reachable from the root onto fresh objects (C07_deepcopy_exec_iso, C07_deepcopy_exec_iso_onto: content and sharing, not only freshness), and is compared with CPython's deepcopy on every "
       "run. PROVED for the framework, the probe bodies and the bodies of ALL shipped block middlewares, transcribed at heap level and proved "
       "footprint_ok for every string table (C07_shipped_footprints, C07_shipped_copy_mode, C07_shipped_stack, C07_write_string_default); the real "
       "shipped middlewares are compared with these body models in copy and in-place mode. 'writing twice gives identical text' is tested; the theorem gives "
       "'library and format graph unchanged'. String-level decisions (bare references, sort permutation) enter the model as harness-computed "
       "arguments. Exceptions are atoms.",
  technique="Coq proof (frame reasoning over a heap; induction over blocks/stacks) + property oracle + differential correspondence via extracted model")

CLAIMED["C05"] = dict(engine="roundtrip", design="4 C05",
   text="Coq theorems over the composed model of the public entry points (splitter, resolve, remove-enclosing, add-enclosing, writer): for "
        "EVERY duplicate-free document of the dialect grammar and EVERY format with whitespace-only indent/separator, parse->write->parse "
        "preserves the content of every block and the second write reproduces the first byte for byte; none of the four steps can fail; "
        "the writer depends on a library only through its content. Tied to /repo by differential correspondence of the composed model with "
        "parse_string/write_string on (document, format) pairs (written text, re-parsed blocks incl. metadata, second text) and an "
        "independent Python oracle.",
   note="known finding K7 (a key, explicit comment or value ending in a backslash escapes the delimiter written after it) is excluded by "
        "hypothesis and reported as KNOWN-FINDING; block_separator/indent must be whitespace-only (stated in the theorem); model "
        "hand-written, tied by correspondence; extraction cross-checked by vm_compute",
   technique="Coq proof (writer output is the rendering of a well-formed grammar AST; C02 applied twice) + differential correspondence via extracted model")

CLAIMED["C12"] = dict(engine="names", design="4 C12",
  text="Coq theorems over a faithful model of split_multiple_persons_names: conservation for ALL strings (segment invariant over the fold), equality with an independent word-level reference splitter, the protection corollary for ALL brace-balanced strings, and merge+split idempotence for ALL strings (C12_idempotent_all: forward simulation of the machine on the text with every passed separator normalised to ' and '); tied to /repo by bounded-exhaustive differential correspondence (function and SeparateCoAuthors/MergeCoAuthors) and an independent Python oracle.",
  note="exactness against the word-level reference is for brace-balanced strings (a stray closing brace has no word-level counterpart); model hand-written, tied by correspondence; whitespace sets regenerated from the running module; extraction cross-checked by vm_compute",
  technique="Coq proof (fold invariants, backward simulation against word-level spec) + differential correspondence via extracted model")
CLAIMED["C13"] = dict(engine="names", design="4 C13",
  text="Coq theorem that strict parse_single_name_into_parts IS the compositional transcription of BibTeX's algorithm (atoms/sections/words/word_case/partition) for ALL strings, that InvalidNameError is raised exactly for unbalanced braces / >2 commas / trailing comma, words-once, Last keeps the final word, strict only adds errors, and SplitNameParts never raises but returns a MiddlewareErrorBlock retaining the entry; spec and Python oracle validated on the repo's 149+11 BibTeX-derived cases at every run.",
  note="K14 open: word_case (the library's rule, which the theorem is about) is not BibTeX's von_token_found on five classes of words with a special character or an escape (C13_word_case_refuted_K14, C13_partition_refuted_K14 against the literal transcription Spec/BibtexCase.v; C13_word_case_agrees_without_backslash: no deviation without a backslash); the check's verdict on such words comes from a literal Python transcription of von_token_found; isalpha/isupper enter as per-character flags (theorems hold for any flag assignment); whitespace sets regenerated from the running module and their facts re-proved by vm_compute at every build",
  technique="Coq proof (register/atom simulation, slice arithmetic by lia) + differential correspondence via extracted model incl. the Coq spec itself")
CLAIMED["C14"] = dict(engine="names", design="4 C14",
  text="Coq theorems for ALL strings: person-level inverse split1(merge1 p)=p for valid names with non-empty last and no word ending in an odd number of backslashes (through the real tokeniser), the list-level law outside the known class K3 (through the real co-author splitter, using C12_exact), reduction of the four-middleware round trip to it, and the refutation witness for K3; the full parse_string/write_string stack is additionally exercised by differential correspondence and the Python oracle on every run.",
  note="K3, K10, K11 open known findings (KNOWN-FINDING lines); the writer/parser legs of the stack are now PROVED by composition with C05/C10 at field, entry, library and document level (C14_stack_{field,entry,library,document}_roundtrip: parse_string(append=[Separate, SplitParts]) -> write_string(prepend=[MergeParts, MergeCo]) -> parse again gives the same structured names) under explicit hypotheses on the MERGED text (brace-balanced in the splitter's reading - derived from validity when no word has two adjacent backslashes -, not ending in a backslash, no block-start pattern); the two refutation theorems C14_stack_roundtrip_refuted (K10) and ..._refuted_K2 (K11) show the hypotheses are needed; stack stream reads names back from write_string output with the plain parse stack",
  technique="Coq proof + differential correspondence (function pair, list chain, full stack)")
PENDING = {}

def main():
    props = [json.loads(l) for l in open(os.path.join(ROOT, "properties.jsonl"))]
    checks, na = [], []
    for p in props:
        pid = p["id"]
        if pid in CLAIMED:
            c = CLAIMED[pid]
            checks.append({
                "property_id": pid,
                "quick_cmd": "./check %s --tier quick" % pid,
                "thorough_cmd": "./check %s --tier thorough" % pid,
                "evidence_file": "/verif/evidence/%s.json" % pid,
                "replay_cmd_template": "./check %s --replay {path}" % pid,
                "engine": c["engine"],
                "level_claimed": {"category": "proof", "text": c["text"], "design_ref": "DESIGN.md " + c["design"]},
                "level_note": c["note"],
                "technique": c["technique"],
            })
        else:
            na.append({"property_id": pid, "reason": PENDING.get(pid, "check not built yet in this session (model and theorems planned in DESIGN.md section 4 %s); not claimed until its check runs" % pid)})
    man = {
        "version": 1,
        "setup_cmd": "./build.sh",
        "hooks": {"guard": "BIBTEXPARSER_VERIF", "enable": "no source hooks: checks observe /repo from outside (PYTHONPATH=/repo); the guard variable is set by the harness but read by nothing in /repo",
                  "baseline_off_cmd": "cd /repo && /venv/bin/python -m pytest -ra -q -p no:cacheprovider --timeout=900 --continue-on-collection-errors",
                  "source_commits": [], "add_only": True},
        "engines": [
            {"name": "coq-model", "path": "coq/theories", "serves_properties": sorted(CLAIMED), "kind_free_text": "Coq 8.16 model, specs, proofs (Model/, Spec/, Proofs/, Properties/), extracted to ocaml/model_run"},
            {"name": "harness", "path": "harness", "serves_properties": sorted(CLAIMED), "kind_free_text": "Python: generators, implementation runner, encoder, differ, oracles, evidence"},
        ],
        "checks": checks,
        "not_applicable": na,
        "notes": "Every check: rebuild Coq development against constants regenerated from /repo, re-check Print Assumptions of the property's theorems, run the implementation and the extracted model on the same generated inputs, diff, apply the property oracle, report. See DESIGN.md.",
    }
    with open(os.path.join(ROOT, "MANIFEST.json"), "w") as f:
        json.dump(man, f, indent=1)
    print("MANIFEST: %d claimed, %d not claimed" % (len(checks), len(na)))

if __name__ == "__main__":
    main()
