#!/usr/bin/env python3
"""Regenerate MANIFEST.json from the table below (kept in one place so it always validates)."""
import json, os
ROOT = os.path.dirname(os.path.dirname(os.path.abspath(__file__)))

CLAIMED = {
 "C15": dict(engine="month", design="4 C15",
   text="Coq theorems over the month model with the table regenerated from the running module (spellings of every case "
        "variant and zero padding, all 9 compositions, non-months unchanged, no raise), tied to /repo by exhaustive "
        "differential correspondence through the three middleware classes and by an independent Python oracle of the property.",
   note="CPython's str.lower/isdecimal/int are oracles (ASCII instances executable; other inputs checked by the Python oracle only); "
        "model hand-written, tied by correspondence; extraction cross-checked by vm_compute",
   technique="Coq proof (table facts by vm_compute at every build) + differential correspondence via extracted model"),
}
CLAIMED["C01"] = dict(engine="split", design="4 C01",
   text="Coq theorems over the splitter machine: for every text the machine ends with blocks (the two 'should never happen' "
        "exceptions are unreachable thanks to the regex look-ahead, proved on the lexer model); tied to /repo by differential "
        "correspondence of Splitter/parse_string on exhaustive token sequences, mutations, garbage and size-scaled inputs, the lexer "
        "against re.finditer on the regex read from the source, and a Python oracle running the default parse and write stacks.",
   note="partial: the default parse/write stacks are covered by the oracle and by C05/C06/C10/C11's models, the theorem here is about "
        "the splitter; Python recursion depth and memory are environment limits observed by the size-scaled stream only",
   technique="Coq proof (state-machine invariant over fold_left) + differential correspondence via extracted model")
CLAIMED["C03"] = dict(engine="split", design="4 C03",
   text="Coq theorem for ALL input texts: the raw texts of the emitted blocks tile the scanned text with whitespace-only gaps and each "
        "start_line is the true line; each field line is the true line of an '=' of its entry. Tied to /repo by differential "
        "correspondence (every block attribute compared) and an independent Python tiling/line oracle.",
   note="CPython's isspace and \\w enter as per-character flags; model hand-written, tied by correspondence; extraction cross-checked by vm_compute",
   technique="Coq proof (ghost-state invariant over the splitter fold) + differential correspondence via extracted model")

CLAIMED["C04"] = dict(engine="split", design="4 C04",
   text="Coq theorems for ALL texts: resynchronisation (arbitrary garbage followed by a line starting with a block start: that block and "
        "everything after it are parsed exactly as on their own, shifted by the preceding lines; what precedes accounts for the garbage only), "
        "prefix stability (a text after which the machine has just closed a block keeps its blocks whatever follows) and the concatenation "
        "law; tied to /repo by differential correspondence on triples (well-formed prefix, arbitrary middle, well-formed suffix) and an "
        "independent Python oracle comparing with the neighbours parsed alone.",
   note="'well-formed document ending in a complete block' is expressed on the machine state (mode Out, empty pending text); its link to the "
        "grammar is C02; model hand-written, tied by correspondence; extraction cross-checked by vm_compute",
   technique="Coq proof (simulation relation between two runs of the splitter machine, line-shifted) + differential correspondence via extracted model")
CLAIMED["C09"] = dict(engine="split", design="4 C09",
   text="Coq theorems: Library.add on any sequence of raw blocks = the source list with every later same-key Entry/String replaced at its own "
        "position by a duplicate-key block holding the key, the FIRST block and the complete duplicate (count preserved, first wins in both "
        "key indexes, duplicate-field blocks never registered); for every text an entry repeating a field name is emitted as a duplicate-field "
        "block whose inner entry keeps every occurrence; tied to /repo by correspondence on grammar documents with colliding key pools "
        "(incl. previous_block identity) and an independent Python oracle.",
   note="'one raw block per source block of a well-formed document' is C02's theorem/correspondence; model hand-written, tied by correspondence",
   technique="Coq proof (fold invariant over Library.add; field-name invariant over the splitter machine) + differential correspondence via extracted model")
CLAIMED["C19"] = dict(engine="entry", design="4 C19",
   text="Coq theorems over the Entry model (fields_dict rebuilt from the field list, set_field, pop, get, in, [], []=, del, items): "
        "every operation sequence on an entry with distinct keys refines an insertion-ordered dictionary (induction over the call list), "
        "the three views always agree, ENTRYTYPE/ID lookups, and Field/Block == is exactly same-class-and-same-content; tied to /repo by "
        "bounded-exhaustive and random operation sequences and single-attribute perturbation / copy pairs, plus an independent Python oracle (reference dict).",
   note="values containing dicts or foreign objects are outside the executable equality model (oracle only); failed-block equality is covered by the library engine (identity of the error object); "
        "model hand-written, tied by correspondence; extraction cross-checked by vm_compute",
   technique="Coq proof (refinement by induction over histories; reflection of == against a structural relation) + differential correspondence via extracted model")
CLAIMED["C17"] = dict(engine="sortfields", design="4 C17",
   text="Coq theorems over executable models of SortFieldsAlphabeticallyMiddleware, SortFieldsCustomMiddleware (incl. constructor) and "
        "NormalizeFieldKeys for all field lists / order lists / block lists: stable sorted permutation (and its uniqueness, which justifies "
        "modelling sorted() by insertion sort), explicit listed-first form, ValueError iff duplicates after folding, normalisation = "
        "first-occurrence key order with last-occurrence values, frame, idempotence; tied to /repo by differential correspondence through "
        "the real middleware classes' transform(library) and an independent Python oracle of the property text.",
   note="sorted() assumed to meet the stable-sort contract (unique result proved); str.lower is the ASCII instance (other cased letters are "
        "checked by the Python oracle only); blocks of the input library share no objects (aliasing is C07); model hand-written, tied by "
        "correspondence; extraction cross-checked by vm_compute",
   technique="Coq proof (induction over lists) + differential correspondence via extracted model + independent oracle")
CLAIMED["C16"] = dict(engine="sortblocks", design="4 C16",
   text="Coq theorems over an executable model of SortBlocksByTypeAndKeyMiddleware.transform (junk grouping, exact-class rank, (rank,key) "
        "tuple order, Library rebuild) for all block lists satisfying the Library key invariant and all order lists: permutation, sorted and "
        "stable on units, comment runs stay attached, uniqueness of the result under the stable-sort contract; tied to /repo by differential "
        "correspondence over a 12-block universe x all 326 type orders x both comment modes and an independent Python oracle (incl. input "
        "library unchanged).",
   note="list.sort assumed to meet the stable-sort contract (unique result proved); deepcopy assumed structure-preserving; 'input library "
        "unchanged' is checked by the harness oracle only (heap-level statement belongs to C07); model hand-written, tied by correspondence; "
        "extraction cross-checked by vm_compute",
   technique="Coq proof (induction over lists/derivations) + differential correspondence via extracted model + independent oracle")
PENDING = {}

def main():
    props = [json.loads(l) for l in open(os.path.join(ROOT, "properties.jsonl"))]
    checks, na = [], []
    for p in props:
        pid = p["id"]
        if pid in CLAIMED:
            c = CLAIMED[pid]
            checks.append({
                "property_id": pid,
                "quick_cmd": "./check %s --tier quick" % pid,
                "thorough_cmd": "./check %s --tier thorough" % pid,
                "evidence_file": "/verif/evidence/%s.json" % pid,
                "replay_cmd_template": "./check %s --replay {path}" % pid,
                "engine": c["engine"],
                "level_claimed": {"category": "proof", "text": c["text"], "design_ref": "DESIGN.md " + c["design"]},
                "level_note": c["note"],
                "technique": c["technique"],
            })
        else:
            na.append({"property_id": pid, "reason": PENDING.get(pid, "check not built yet in this session (model and theorems planned in DESIGN.md section 4 %s); not claimed until its check runs" % pid)})
    man = {
        "version": 1,
        "setup_cmd": "./build.sh",
        "hooks": {"guard": "BIBTEXPARSER_VERIF", "enable": "no source hooks: checks observe /repo from outside (PYTHONPATH=/repo); the guard variable is set by the harness but read by nothing in /repo",
                  "baseline_off_cmd": "cd /repo && /venv/bin/python -m pytest -ra -q -p no:cacheprovider --timeout=900 --continue-on-collection-errors",
                  "source_commits": [], "add_only": True},
        "engines": [
            {"name": "coq-model", "path": "coq/theories", "serves_properties": sorted(CLAIMED), "kind_free_text": "Coq 8.16 model, specs, proofs (Model/, Spec/, Proofs/, Properties/), extracted to ocaml/model_run"},
            {"name": "harness", "path": "harness", "serves_properties": sorted(CLAIMED), "kind_free_text": "Python: generators, implementation runner, encoder, differ, oracles, evidence"},
        ],
        "checks": checks,
        "not_applicable": na,
        "notes": "Every check: rebuild Coq development against constants regenerated from /repo, re-check Print Assumptions of the property's theorems, run the implementation and the extracted model on the same generated inputs, diff, apply the property oracle, report. See DESIGN.md.",
    }
    with open(os.path.join(ROOT, "MANIFEST.json"), "w") as f:
        json.dump(man, f, indent=1)
    print("MANIFEST: %d claimed, %d not claimed" % (len(checks), len(na)))

if __name__ == "__main__":
    main()
