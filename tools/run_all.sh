#!/bin/bash
# run every claimed check (quick by default) on /repo, sequentially; prints one line per check
cd "$(dirname "$0")/.."
tier=${1:-quick}
./build.sh | tail -1
for p in $(python3 -c "import json; print(' '.join(c['property_id'] for c in json.load(open('MANIFEST.json'))['checks']))"); do
  ./check $p --tier $tier --no-build 2>&1 | grep -E "^== |^VIOLATION" | tail -2 | tr '\n' ' '; echo
done
