#!/usr/bin/env python3
"""Print the theorem inventory (names per property) from coq/theories/Properties/*.v and the seeded-change table."""
import glob, json, os, re
ROOT = os.path.dirname(os.path.dirname(os.path.abspath(__file__)))
for p in sorted(glob.glob(os.path.join(ROOT, "coq/theories/Properties/C*.v"))):
    src = open(p).read()
    names = re.findall(r"^\s*Theorem\s+(\w+)", src, re.M)
    print("%s (%d): %s" % (os.path.basename(p)[:-2], len(names), ", ".join(names)))
print()
for d in sorted(glob.glob(os.path.join(ROOT, "seeded/*/meta.json"))):
    m = json.load(open(d))
    name = os.path.basename(os.path.dirname(d))
    ch = m.get("checks", {})
    print("%s | %s | %s | %s" % (name, m.get("summary", "")[:110], m.get("needs", "")[:90],
                                 "; ".join("%s:%s" % (k, "caught" if v["caught"] else "MISSED") for k, v in ch.items())))
