#!/usr/bin/env python3
"""Lines of /repo/bibtexparser executed by NO check (intersection of the not-executed sets in evidence/*.json,
first shard of each check's last run).  usage: tools/cov_union.py"""
import glob
import json
import os

ROOT = os.path.dirname(os.path.dirname(os.path.abspath(__file__)))
never = {}
total = {}
for f in sorted(glob.glob(os.path.join(os.environ.get("VERIF_EVIDENCE_DIR", os.path.join(ROOT, "evidence")), "*.json"))):
    sc = json.load(open(f))["coverage"].get("repo_statement_coverage_sampled") or {}
    for fn, v in sc.items():
        if v.get("not_executed_lines") is None:
            continue
        total[fn] = v["statements"]
        m = set(v["not_executed_lines"])
        never[fn] = never[fn] & m if fn in never else m
for fn in sorted(never):
    print("%-55s %4d statements, never executed: %s" % (fn, total[fn], sorted(never[fn])))
