#!/usr/bin/env python3
"""Witnesses for the defects recorded in known_findings.json.

Each function runs the real code (PYTHONPATH must point at the tree under test) on the
input that exposed the defect and returns (holds, detail): holds is True when the property
is satisfied on that input.  `python witnesses.py` prints one line per witness and exits 1
if any *fixed* witness fails again.  Used by ./check (corpus stage) and for the record of
what each `fix:` commit repaired.
"""
import os
import sys

sys.path.insert(0, os.path.dirname(os.path.abspath(__file__)))


def _bp():
    import bibtexparser
    return bibtexparser


def F1():
    """C01: 1200 newline marks -> RecursionError"""
    bp = _bp()
    try:
        lib = bp.parse_string("\n" * 1200 + "@a{k,\n" + "x\n" * 1200 + "b={c}}")
        bp.write_string(lib)
        return True, "parsed %d blocks" % len(lib.blocks)
    except RecursionError as e:
        return False, "RecursionError"


def _tiles(text, lib):
    s = "\n" + text
    pos = 0
    for b in lib.blocks:
        i = s.find(b.raw, pos)
        if i < 0 or s[pos:i].strip() != "":
            return False, "raw %r not found after %d with only whitespace between" % (b.raw, pos)
        pos = i + len(b.raw)
    if s[pos:].strip() != "":
        return False, "trailing text %r not covered" % s[pos:]
    return True, "tiles"


def F2():
    """C03: characters dropped/duplicated at failed-block boundaries"""
    bp = _bp()
    for t in ["@article{k, a , b = {c}}", "@article{k, a = {x@comment{y}", "@article{k @book{j,a={b}}",
              "@string{a , b}", "@comment{x @comment{y}"]:
        ok, d = _tiles(t, bp.parse_string(t, parse_stack=[]))
        if not ok:
            return False, "%r: %s" % (t, d)
    return True, "tiles"


def F3():
    """C03: newline after a backslash not counted"""
    bp = _bp()
    lib = bp.parse_string("a\\\n@comment{x}", parse_stack=[])
    sl = lib.blocks[-1].start_line
    return sl == 1, "start_line=%r (expected 1)" % sl


def F4():
    """C06: custom parsing_failed_comment ignored"""
    bp = _bp()
    lib = bp.parse_string("@article{k, a\n", parse_stack=[])
    fmt = bp.BibtexFormat()
    fmt.parsing_failed_comment = "% FAIL {n}"
    out = bp.write_string(lib, unparse_stack=[], bibtex_format=fmt)
    return out.startswith("% FAIL 1\n"), repr(out)


def F5():
    """C10: _strip_enclosing strips non-pairs"""
    from bibtexparser.middlewares.enclosing import RemoveEnclosingMiddleware as R, REMOVED_ENCLOSING_KEY
    from bibtexparser.model import Entry, Field
    from bibtexparser.library import Library

    def strip(v):        # through the public interface (a private helper may be renamed)
        e = R().transform(Library([Entry("article", "k", [Field("title", v)])])).blocks[0]
        return e.fields[0].value, e.parser_metadata[REMOVED_ENCLOSING_KEY]["title"]
    bad = []
    for v, exp in [('"', ('"', "no-enclosing")), ("{a} # {b}", ("{a} # {b}", "no-enclosing")),
                   ('"a" # "b"', ('"a" # "b"', "no-enclosing")), ("{a}", ("a", "{")), ('"a"', ("a", '"')),
                   ("{", ("{", "no-enclosing")), ("{a{b}c}", ("a{b}c", "{")), ('"a{"}b"', ('a{"}b', '"'))]:
        got = strip(v)
        if tuple(got) != exp:
            bad.append((v, got))
    return not bad, repr(bad)


def F6():
    """C10: int value with enclose_integers=False raises"""
    from bibtexparser.middlewares.enclosing import AddEnclosingMiddleware
    from bibtexparser.model import Entry, Field
    from bibtexparser.library import Library
    mw = AddEnclosingMiddleware(reuse_previous_enclosing=False, enclose_integers=False, default_enclosing="{")
    try:
        lib = mw.transform(Library([Entry("article", "k", [Field("year", 1990)])]))
        v = lib.entries[0]["year"]
        return v == 1990, repr(v)
    except AttributeError as e:
        return False, "AttributeError: %s" % e


def F7():
    """C12: escape directly after ' and ' loses the prefix"""
    from bibtexparser.middlewares.names import split_multiple_persons_names as sp
    a = sp("A and \\'Etienne B")
    b = sp("X a\\xnd Y")
    ok = a == ["A", "\\'Etienne B"] and b == ["X a\\xnd Y"]
    return ok, repr((a, b))


def F8():
    """C13/C14: von must end with the last lower-case word that is not the final word"""
    from bibtexparser.middlewares.names import parse_single_name_into_parts as p
    a = p("AA bb CC dd")
    b = p("aa BB cc")
    ok = (a.first, a.von, a.last) == (["AA"], ["bb"], ["CC", "dd"]) and (b.first, b.von, b.last) == ([], ["aa"], ["BB", "cc"])
    return ok, repr((a, b))


def F9():
    """C15: month 13 -> Field object as value; superscript digit raises"""
    from bibtexparser.middlewares import MonthIntMiddleware, MonthAbbreviationMiddleware, MonthLongStringMiddleware
    from bibtexparser.model import Entry, Field
    from bibtexparser.library import Library
    for v in [0, 13, "13", "²", "0"]:
        for M in (MonthIntMiddleware, MonthAbbreviationMiddleware, MonthLongStringMiddleware):
            try:
                lib = M().transform(Library([Entry("article", "k", [Field("month", v)])]))
            except ValueError as e:
                return False, "%s(%r) raised %s" % (M.__name__, v, e)
            got = lib.entries[0]["month"]
            if type(got) is not type(v) or got != v:
                return False, "%s(%r) -> %r" % (M.__name__, v, type(got).__name__)
    return True, "unchanged"


def F10():
    """C18: @string value becomes a tuple"""
    bp = _bp()
    from bibtexparser.middlewares import LatexDecodingMiddleware
    lib = bp.parse_string('@string{a = "x"}')
    lib = LatexDecodingMiddleware().transform(lib)
    v = lib.strings[0].value
    return isinstance(v, str), repr(v)


def F11():
    """C08: remove([held, missing]) raises after removing held"""
    from bibtexparser.model import Entry
    from bibtexparser.library import Library
    a, b = Entry("article", "a", []), Entry("article", "b", [])
    lib = Library([a])
    try:
        lib.remove([a, b])
        return False, "no exception"
    except ValueError:
        pass
    return lib.blocks == [a] and lib.entries_dict == {"a": a}, "blocks=%r dict=%r" % (lib.blocks, lib.entries_dict)


def F12():
    """C13: trailing backslash doubled"""
    from bibtexparser.middlewares.names import parse_single_name_into_parts as p
    a = p("Aa\\")
    return a.last == ["Aa\\"], repr(a)


def F13():
    """C20: append_middleware given as a generator is ignored"""
    bp = _bp()
    from bibtexparser.middlewares import MonthIntMiddleware
    lib = bp.parse_string("@article{k, month = jan}", append_middleware=(m for m in [MonthIntMiddleware()]))
    a = lib.entries[0]["month"]
    out = bp.write_string(lib, prepend_middleware=iter([MonthIntMiddleware()]))
    return a == 1, "month=%r" % (a,)


def F14():
    """C08: a raising replace changes the order of Library.strings"""
    from bibtexparser.model import String
    from bibtexparser.library import Library
    s1, s2, s3 = String("a", "1"), String("b", "2"), String("b", "3")
    lib = Library([s1, s2])
    before = [s.key for s in lib.strings]
    try:
        lib.replace(s1, s3)
        return False, "no exception"
    except ValueError:
        pass
    after = [s.key for s in lib.strings]
    return before == after, "%r -> %r" % (before, after)


def F15():
    """C07: a library with a name-error block cannot be written / copied"""
    bp = _bp()
    from bibtexparser.middlewares import SeparateCoAuthors, SplitNameParts, MonthIntMiddleware
    lib = bp.parse_string("@article{k, author = {A,, B,, C,, D}}", append_middleware=[SeparateCoAuthors(), SplitNameParts()])
    try:
        out = bp.write_string(lib)
        MonthIntMiddleware(allow_inplace_modification=False).transform(lib)
    except TypeError as e:
        return False, "TypeError: %s" % e
    return isinstance(out, str), repr(out)[:60]


def K1():
    """C08: add(dup, fail_on_duplicate_key=True) raises ValueError after adding the wrapper"""
    from bibtexparser.model import Entry
    from bibtexparser.library import Library
    a, b = Entry("article", "a", []), Entry("book", "a", [])
    lib = Library([a])
    try:
        lib.add(b, fail_on_duplicate_key=True)
        return False, "no exception"
    except ValueError:
        pass
    return len(lib.blocks) == 1, "blocks=%d after the raising call" % len(lib.blocks)


def _reparse_one_field(value, default):
    bp = _bp()
    from bibtexparser.middlewares.enclosing import AddEnclosingMiddleware
    from bibtexparser.model import Entry, Field
    from bibtexparser.library import Library
    mw = AddEnclosingMiddleware(reuse_previous_enclosing=False, enclose_integers=True, default_enclosing=default)
    text = bp.write_string(Library([Entry("article", "k", [Field("f", value)])]), unparse_stack=[mw])
    lib = bp.parse_string(text)
    ok = len(lib.blocks) == 1 and len(lib.entries) == 1 and [f.key for f in lib.entries[0].fields] == ["f"] \
        and lib.entries[0]["f"] == value
    return ok, "%r -> %r" % (text, [type(b).__name__ for b in lib.blocks])


def K2():
    """C10: balanced value containing a block-start pattern does not re-parse as one field"""
    return _reparse_one_field("a @b{c}", "{")


def K4():
    """C10: quote default, active quote inside braces"""
    return _reparse_one_field('{"}', '"')


def K3():
    """C14: a top-level word 'and' inside a name breaks the list-level inverse"""
    from bibtexparser.middlewares.names import split_multiple_persons_names as sp, parse_single_name_into_parts as p
    v = "xx~and B C"
    ps = [p(n) for n in sp(v)]
    merged = " and ".join(x.merge_last_name_first for x in ps)
    ps2 = [p(n) for n in sp(merged)]
    return ps == ps2, "%r -> %r -> %d persons" % (v, merged, len(ps2))


def K5():
    """C18: several $...$ spans: greedy keep_math rule"""
    import witnesses_c18
    return witnesses_c18.K5()


def K6():
    """C18: URL with % ~ & wrapped raw into \\url{}"""
    import witnesses_c18
    return witnesses_c18.K6()


def K12():
    """C18: TeX ligatures -- `` '' !` ?` and the characters " ^ (and ten accented Latin letters) do not survive encode -> decode"""
    import witnesses_c18
    return witnesses_c18.K12()


def K13():
    """C09: a copy-mode block middleware leaves previous_block pointing at a private, untransformed copy of the first block"""
    bp = _bp()
    from bibtexparser.middlewares import RemoveEnclosingMiddleware
    lib = bp.parse_string("@a{k,t={A}}\n@a{k,t={B}}\n", parse_stack=[RemoveEnclosingMiddleware(allow_inplace_modification=False)])
    first, dup = lib.blocks[0], lib.blocks[1]
    prev = dup.previous_block
    ok = prev is first and prev is lib.entries_dict["k"]
    return ok, "previous_block is the live first block: %r; its t = %r, the live block's t = %r" % (prev is first, prev["t"], first["t"])


def K14():
    """C13: the case of a word with a special character is not BibTeX's (control words \\O \\L \\AA ..., a letter in a braced accent argument)"""
    from bibtexparser.middlewares.names import parse_single_name_into_parts
    bad = []
    # (name, first, von, last) as BibTeX's von_token_found decides: \O is an upper-case control word, the C of \v{C} is the first letter
    for name, first, von, last in [("Bent {\\O}rsted Hansen", ["Bent", "{\\O}rsted"], [], ["Hansen"]),
                                   ("Jan {\\v{C}}apek Novak", ["Jan", "{\\v{C}}apek"], [], ["Novak"])]:
        x = parse_single_name_into_parts(name)
        if (x.first, x.von, x.last) != (first, von, last):
            bad.append("%s -> first %r von %r last %r" % (name, x.first, x.von, x.last))
    return not bad, "; ".join(bad) or "as BibTeX"


def K7():
    """C05: explicit comment ending in backslash + whitespace does not round-trip"""
    bp = _bp()
    t = "@comment{a line \\\\\n}\n@article{k, x = {y}}"
    l1 = bp.parse_string(t)
    l2 = bp.parse_string(bp.write_string(l1))
    k1 = [type(b).__name__ for b in l1.blocks]
    k2 = [type(b).__name__ for b in l2.blocks]
    return k1 == k2, "%r -> %r" % (k1, k2)


def K8():
    """C11: a concatenation whose text equals an @string key containing '#' is resolved"""
    bp = _bp()
    lib = bp.parse_string('@string{a#b = "X"} @article{k, t = a#b}')
    v = lib.entries[0]["t"]
    return v == "a#b", "t = %r" % (v,)


def K9():
    """C05: an entry type with U+0130 is lower-cased to text that is no longer one word and does not re-parse"""
    bp = _bp()
    t = "@STR\u0130NG{k, a = {b}}"
    l1 = bp.parse_string(t)
    l2 = bp.parse_string(bp.write_string(l1))
    k1 = [type(b).__name__ for b in l1.blocks]
    k2 = [type(b).__name__ for b in l2.blocks]
    return k1 == k2, "%r -> %r (type %r)" % (k1, k2, getattr(l1.blocks[0], "entry_type", None))


def _names_stack(text):
    bp = _bp()
    from bibtexparser.middlewares import SeparateCoAuthors, SplitNameParts, MergeNameParts, MergeCoAuthors
    l1 = bp.parse_string(text, append_middleware=[SeparateCoAuthors(), SplitNameParts()])
    w = bp.write_string(l1, prepend_middleware=[MergeNameParts(), MergeCoAuthors()])
    l2 = bp.parse_string(w, append_middleware=[SeparateCoAuthors(), SplitNameParts()])
    k1 = [type(b).__name__ for b in l1.blocks]
    k2 = [type(b).__name__ for b in l2.blocks]
    same = k1 == k2 and all(getattr(a, "fields", None) == getattr(b, "fields", None) for a, b in zip(l1.blocks, l2.blocks))
    return same, "%r -> written %r -> %r" % (k1, w[:60], k2)


def K10():
    """C14: a name word with a double backslash before a brace does not survive write + re-parse of the names stack"""
    return _names_stack("@article{k, author = {{\\\\} \\\\{}}}")


def K11():
    """C14: merging last-name-first can create a block-start pattern (`Z @a~{x}` -> `@a {x}, Z`)"""
    return _names_stack("@article{k, author = {Z @a~{x}}}")


def F16():
    """C18: converter exception with an empty message swallowed"""
    import witnesses_c18
    return witnesses_c18.K7()


def F18():
    """C15: month values beyond int()'s digit limit made the month middlewares raise"""
    from bibtexparser.middlewares import MonthIntMiddleware, MonthAbbreviationMiddleware, MonthLongStringMiddleware
    from bibtexparser.model import Entry, Field
    from bibtexparser.library import Library
    got = []
    for v, exp in (("0" * 4300 + "1", [1, "jan", "January"]), (10 ** 4300, None), ("1" * 4301, None)):
        for i, M in enumerate((MonthIntMiddleware, MonthAbbreviationMiddleware, MonthLongStringMiddleware)):
            r = M().transform(Library([Entry("article", "k", [Field("month", v)])])).blocks[0]["month"]
            want = v if exp is None else exp[i]
            if not (type(r) is type(want) and r == want):
                got.append((M.__name__, str(v)[:8] + "...", str(r)[:12]))
    return not got, "wrong results: %r" % (got[:3],)


def F17():
    """C07: SortFieldsCustomMiddleware stores its own order list in every entry's metadata"""
    from bibtexparser.middlewares import SortFieldsCustomMiddleware
    from bibtexparser.model import Entry, Field
    from bibtexparser.library import Library
    m = SortFieldsCustomMiddleware(order=("b", "a"), allow_inplace_modification=False)
    lib1 = m.transform(Library([Entry("article", "k", [Field("a", "1"), Field("b", "2")])]))
    lib2 = m.transform(lib1)
    a = lib1.blocks[0].parser_metadata["sorted_fields_custom"]
    b = lib2.blocks[0].parser_metadata["sorted_fields_custom"]
    shared = (a is b or any(a is x for x in vars(m).values())) and isinstance(a, list)
    return not shared, "output metadata list is the input's / the middleware's own list: %r" % shared


ALL = [F1, F2, F3, F4, F5, F6, F7, F8, F9, F10, F11, F12, F13, F14, F15, F16, F17, F18, K1, K2, K3, K4, K5, K6, K7, K8, K9, K10, K11, K12, K13, K14]

if __name__ == "__main__":
    import bibtexparser
    print("# bibtexparser from", bibtexparser.__file__)
    sel = sys.argv[1:]
    bad = 0
    for f in ALL:
        if sel and f.__name__ not in sel:
            continue
        try:
            ok, d = f()
        except Exception as e:  # an unexpected exception is a failure of the witness
            ok, d = False, "%s: %s" % (type(e).__name__, e)
        print("%s %s %s :: %s" % (f.__name__, "HOLDS" if ok else "FAILS", (f.__doc__ or "").strip(), d[:200]))
        if not ok and f.__name__.startswith("F"):
            bad = 1
    sys.exit(bad)
