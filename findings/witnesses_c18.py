#!/usr/bin/env python3
"""Witnesses for the C18 findings K5, K6, K7 (same conventions as findings/witnesses.py: each function runs the real
code of the tree on PYTHONPATH and returns (holds, detail); holds is True when the property is satisfied)."""
import sys


def _roundtrip(text, **enc_opts):
    from bibtexparser.library import Library
    from bibtexparser.model import Entry, Field
    from bibtexparser.middlewares import LatexEncodingMiddleware, LatexDecodingMiddleware
    lib = Library([Entry("article", "k", [Field("title", text)])])
    lib = LatexEncodingMiddleware(**enc_opts).transform(lib)
    mid = lib.blocks[0].fields[0].value
    lib = LatexDecodingMiddleware().transform(lib)
    return mid, lib.blocks[0].fields[0].value


def K5():
    """C18: several $...$ spans in one value: the greedy keep_math rule leaves the text between them unescaped"""
    bad = []
    for t in ["$a$ & $b$", "$a$ and 50% of $b$"]:
        mid, back = _roundtrip(t)
        if back != t:
            bad.append((t, mid, back))
    return not bad, repr(bad)


def K6():
    """C18: a URL containing % ~ & is wrapped raw into \\url{...} and parsed as LaTeX when decoding"""
    bad = []
    for t in ["http://a.b/c%20d", "http://a.b/~u", "https://a.b/c?d=e&f=g"]:
        mid, back = _roundtrip(t)
        if back != t:
            bad.append((t, mid, back))
    return not bad, repr(bad)


def K12():
    """C18: TeX ligature sequences and a few characters are written unprotected (or mapped to a different character) by the
    encoder, so decoding does not give the text back: `pp. 1--10` -> en dash, `x^2` -> modifier circumflex, `"a"` -> ''a'' ->
    right double quotes, U+0170/U+0171 (double acute) -> acute"""
    bad = []
    for t in ["pp. 1--10", "a---b", "``x''", "say \"hi\"", "x^2", "!`Hola!", "?`Que?", "Erd\u0171s", "\u0126al"]:
        mid, back = _roundtrip(t)
        if back != t:
            bad.append((t, mid, back))
    return not bad, repr(bad)


def K7():
    """C18 (fixed by 3560bac): a converter exception with an empty message was swallowed (no MiddlewareErrorBlock)"""
    from bibtexparser.library import Library
    from bibtexparser.model import Entry, Field
    from bibtexparser.middlewares import LatexEncodingMiddleware

    class Enc:
        def unicode_to_latex(self, s):
            raise ValueError()          # str(e) == ""

    lib = LatexEncodingMiddleware(encoder=Enc()).transform(Library([Entry("article", "k", [Field("title", "x")])]))
    name = type(lib.blocks[0]).__name__
    return name == "MiddlewareErrorBlock", "failing conversion produced a %s" % name


if __name__ == "__main__":
    import logging
    logging.disable(logging.CRITICAL)
    for f in (K5, K6, K7, K12):
        ok, d = f()
        print("%s %s %s" % (f.__name__, "holds" if ok else "FAILS", d))
    sys.exit(0)
