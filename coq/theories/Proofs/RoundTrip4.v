(* C05, part 3: the writer's output on a library of clean values is the rendering of a dialect document. *)
From Coq Require Import List NArith ZArith Bool Lia String.
From BP Require Import Base.Chars Model.Blocks Model.LibAdd Gen.Constants Model.Enclosing Model.Writer
  Model.Lexer Model.Splitter Model.Grammar Model.Pipeline Spec.C05
  Proofs.WriterProofs Proofs.SplitGrammar Proofs.RoundTrip Proofs.RoundTrip3.
Import ListNotations.

(* a library content whose texts are given as brace contents *)
Inductive citem :=
| CEntry (typ key : str) (fs : list (str * braced))
| CString (name : str) (b : braced)
| CPre (b : braced)
| CExpl (b : braced)
| CFree (t : str).

Definition cval (b : braced) : value := VStr (render_braced b).
Definition cc1 (c : citem) : bcontent :=
  match c with
  | CEntry t k fs => KEntry t k (map (fun p => (fst p, cval (snd p))) fs)
  | CString n b => KString n (cval b)
  | CPre b => KPreamble (render_braced b)
  | CExpl b => KExpl (render_braced b)
  | CFree t => KImpl t
  end.
Definition ccontent (cs : list citem) : list bcontent := map cc1 cs.

(* after AddEnclosing *)
Definition eval (b : braced) : value := VStr (c_lb :: render_braced b ++ [c_rb]).
Definition ecc1 (c : citem) : bcontent :=
  match c with
  | CEntry t k fs => KEntry t k (map (fun p => (fst p, eval (snd p))) fs)
  | CString n b => KString n (eval b)
  | _ => cc1 c
  end.

Lemma enc_fields_c fs : enc_fields (map (fun p : str * braced => (fst p, cval (snd p))) fs)
  = EVal (map (fun p => (fst p, eval (snd p))) fs).
Proof. induction fs as [|p r IH]; [reflexivity|]. cbn [map enc_fields fst snd]. rewrite IH. reflexivity. Qed.

Lemma enc_ccontent cs : map_res enc_c1 (ccontent cs) = EVal (map ecc1 cs).
Proof.
  induction cs as [|c r IH]; [reflexivity|]. cbn [ccontent map map_res]. fold (ccontent r). rewrite IH.
  destruct c; cbn [cc1 enc_c1 ecc1]; try reflexivity. rewrite enc_fields_c. reflexivity.
Qed.

(* ---- the document the writer produces *)
Definition ast_field (indent : str) (col : nat) (p : str * braced) (post : str) : gfield :=
  mkgf (c_nl :: indent) (fst p) (pad col (fst p) ++ [c_sp]) [c_sp] (gv1 (PBraced (snd p))) post.
Fixpoint ast_fields (indent : str) (col : nat) (tr : bool) (fs : list (str * braced)) : gfields :=
  match fs with
  | [] => FEnd [c_nl]
  | p :: r =>
      match r with
      | [] => if tr then FCons (ast_field indent col p []) (FEnd [c_nl]) else FLast (ast_field indent col p [c_nl])
      | _ => FCons (ast_field indent col p []) (ast_fields indent col tr r)
      end
  end.
Definition ast_item (indent : str) (col : nat) (tr : bool) (c : citem) : item :=
  match c with
  | CEntry t k fs => IEntry t [] [] k [] (EComma (ast_fields indent col tr fs))
  | CString n b => IString s_string [] [] n [c_sp] [c_sp] (gv1 (PBraced b)) []
  | CPre b => IPreamble s_preamble [] b
  | CExpl b => IComment s_comment [] b
  | CFree t => IFree t
  end.
Fixpoint ast_items (indent : str) (col : nat) (tr : bool) (sep : str) (cs : list citem) : list (item * str) :=
  match cs with
  | [] => []
  | c :: r => (ast_item indent col tr c, c_nl :: match r with [] => [] | _ => sep end) :: ast_items indent col tr sep r
  end.
Definition ast_of (indent : str) (col : nat) (tr : bool) (sep : str) (cs : list citem) : doc :=
  mkdoc [] (ast_items indent col tr sep cs).

(* ---- field lines *)
Definition wfield (indent : str) (col : nat) (p : str * braced) : str :=
  indent ++ fst p ++ pad col (fst p) ++ val_sep ++ c_lb :: render_braced (snd p) ++ [c_rb].
Definition efield (p : str * braced) : field := cfield (fst p, eval (snd p)).

Lemma field_pieces_text indent col tr last p :
  join_pieces (field_pieces indent col tr last (efield p))
  = Some (wfield indent col p ++ (if tr || negb last then [c_comma] else []) ++ [c_nl]).
Proof.
  unfold field_pieces, efield, cfield, wfield. cbn [fkey fval fst snd eval piece_of_value app].
  rewrite !join_pieces_cons. destruct (tr || negb last); cbn [app join_pieces option_map];
    rewrite ?app_nil_r, <- ?app_assoc; cbn [app]; rewrite <- ?app_assoc; reflexivity.
Qed.

Lemma render_ast_field indent col p post :
  render_field (ast_field indent col p post) = c_nl :: wfield indent col p ++ post.
Proof.
  unfold render_field, field_head, ast_field, wfield. cbn [g_pre g_name g_w1 g_w2 g_val g_post].
  rewrite render_gv1. cbn [render_piece app]. rewrite <- !app_assoc. cbn [app].
  change val_sep with [c_sp; c_eq; c_sp]. cbn [app]. rewrite <- !app_assoc. reflexivity.
Qed.

Definition isnil {A} (l : list A) : bool := match l with [] => true | _ => false end.
Fixpoint wfields (indent : str) (col : nat) (tr : bool) (fs : list (str * braced)) : str :=
  match fs with
  | [] => []
  | p :: r => wfield indent col p ++ (if tr || negb (isnil r) then [c_comma] else []) ++ [c_nl] ++ wfields indent col tr r
  end.

Lemma fields_pieces_text indent col tr fs :
  join_pieces (fields_pieces indent col tr (map efield fs)) = Some (wfields indent col tr fs).
Proof.
  induction fs as [|p r IH]; [reflexivity|]. cbn [map fields_pieces wfields].
  rewrite join_pieces_app, field_pieces_text, IH. cbn [option_map].
  replace (match map efield r with [] => true | _ :: _ => false end) with (isnil r) by (destruct r; reflexivity).
  rewrite <- !app_assoc. reflexivity.
Qed.

Lemma render_ast_fields indent col tr fs :
  render_fields (ast_fields indent col tr fs) = c_nl :: wfields indent col tr fs ++ [c_rb].
Proof.
  induction fs as [|p r IH]; [reflexivity|]. cbn [ast_fields wfields]. destruct r as [|p2 r].
  - cbn [isnil negb wfields]. rewrite orb_false_r. destruct tr; cbn [render_fields]; rewrite render_ast_field.
    + rewrite app_nil_r. cbn [app]. rewrite <- !app_assoc. reflexivity.
    + cbn [app]. rewrite <- !app_assoc. reflexivity.
  - cbn [render_fields]. rewrite render_ast_field, IH, app_nil_r. cbn [isnil negb]. rewrite orb_true_r.
    cbn [app]. rewrite <- !app_assoc. reflexivity.
Qed.

Ltac norm_app := repeat (progress (rewrite <- ?app_assoc; cbn [app])).

Lemma treat_block_render indent col tr failed c :
  joined (treat_block indent col tr failed (canon1 (ecc1 c))) = Some (render_item (ast_item indent col tr c) ++ [c_nl]).
Proof.
  destruct c as [t k fs|n b|b|b|t]; cbn [ecc1 cc1 canon1 treat_block joined ast_item render_item render_body].
  - rewrite map_map. change (map (fun x : str * braced => cfield (fst x, eval (snd x))) fs) with (map efield fs).
    cbn [app]. rewrite !join_pieces_cons, join_pieces_app, fields_pieces_text. cbn [join_pieces option_map].
    unfold entry_head. cbn [render_etail app]. rewrite render_ast_fields, app_nil_r. norm_app. reflexivity.
  - cbn [eval piece_of_value]. rewrite !join_pieces_cons. cbn [join_pieces option_map]. rewrite render_gv1, app_nil_r.
    cbn [render_piece]. norm_app. reflexivity.
  - rewrite join_pieces_cons. cbn [join_pieces option_map]. rewrite app_nil_r. norm_app. reflexivity.
  - rewrite !join_pieces_cons. cbn [join_pieces option_map]. rewrite app_nil_r. norm_app. reflexivity.
  - rewrite !join_pieces_cons. cbn [join_pieces option_map]. rewrite app_nil_r. reflexivity.
Qed.

Lemma write_pieces_render indent col tr failed sep cs :
  exists ps, write_pieces indent col tr failed sep (canon (map ecc1 cs)) = Writer.Val ps
    /\ join_pieces ps = Some (render_items (ast_items indent col tr sep cs)).
Proof.
  induction cs as [|c r IH]; [exists []; split; reflexivity|].
  destruct IH as (q & Hq & Jq). cbn [map canon write_pieces]. fold (canon (map ecc1 r)).
  pose proof (treat_block_render indent col tr failed c) as T.
  destruct (treat_block indent col tr failed (canon1 (ecc1 c))) as [p| |]; cbn [joined] in T; try discriminate.
  rewrite Hq. eexists. split; [reflexivity|]. rewrite !join_pieces_app, T.
  cbn [ast_items render_items]. destruct r as [|c2 r].
  - cbn [map canon join_pieces option_map]. cbn [write_pieces canon map] in Hq. inversion Hq; subst q.
    cbn [join_pieces ast_items render_items option_map]. norm_app. reflexivity.
  - cbn [map canon]. rewrite join_pieces_cons, Jq. cbn [join_pieces option_map]. norm_app. reflexivity.
Qed.

Definition col_of (f : fmt) (cs : list citem) : nat := resolve_column f (canon (map ecc1 cs)).
Definition ast_fmt (f : fmt) (cs : list citem) : doc :=
  ast_of (f_indent f) (col_of f cs) (f_trailing f) (f_sep f) cs.

Theorem cwrite_render f cs : cwrite_default f (ccontent cs) = PVal (render (ast_fmt f cs)).
Proof.
  unfold cwrite_default. rewrite enc_ccontent. unfold write.
  destruct (write_pieces_render (f_indent f) (col_of f cs) (f_trailing f) (f_failed f) (f_sep f) cs) as (ps & Hp & Jp).
  unfold col_of in Hp. rewrite Hp, Jp. reflexivity.
Qed.
Print Assumptions cwrite_render.
