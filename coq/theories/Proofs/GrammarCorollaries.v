(* Composition corollaries linking C02 (grammar), C04 (resync) and C09 (duplicates) over the dialect AST:
     - split_render_dup   : wf_doc d -> split_raw (render d) = Blocks (expected_dup d)      (no nodup_fields)
     - doc_ends_closed    : a well-formed document ending in a complete block leaves the machine closed
     - doc_starts_with_block : a well-formed document starting with a block starts with an '@' mark
     - C04_doc_prefix_stable / C04_doc_resync / C04_doc_concat : C04 stated on documents, neighbours = expected
     - C09_doc_count / C09_doc_classify (and the versions without nodup_fields).
   Nothing in the existing files is changed; the entry lemmas of SplitGrammar.v that assumed an empty duplicate
   list are re-proved here for an arbitrary one. *)
From Coq Require Import List NArith ZArith Bool Lia String.
From BP Require Import Base.Chars Model.Blocks Model.Lexer Model.LibAdd Model.Splitter Spec.C03 Spec.C04 Spec.C09
                       Model.Grammar Proofs.SplitTotal Proofs.SplitTiling Proofs.SplitGrammar Proofs.SplitResync
                       Proofs.DupProofs.
Import ListNotations.
Local Open Scope Z_scope.

(* ------------------------------------------------------------------ 0. duplicate field names, on the grammar *)
(* the splitter's bookkeeping (Splitter.ob_field) replayed on the list of field names *)
Definition seen_upd (k : str) (sn : list str) : list str := if mem_str k sn then sn else k :: sn.
Definition dups_upd (k : str) (sn dp : list str) : list str :=
  if mem_str k sn && negb (mem_str k dp) then k :: dp else dp.
Fixpoint dup_scan (sn dp : list str) (names : list str) : list str :=
  match names with
  | [] => dp
  | k :: r => dup_scan (seen_upd k sn) (dups_upd k sn dp) r
  end.
(* the emitted block for an entry: wrapper iff the duplicate list is not empty (Splitter.entry_block) *)
Definition wrap_dups (h : hdr) (dp : list str) (e : block) : block :=
  match dp with [] => e | ds => BDupField h (sort_strs ds) e end.

Lemma dup_scan_fresh names : forall sn dp, fresh_all sn names = true -> dup_scan sn dp names = dp.
Proof.
  induction names as [|k r IH]; intros sn dp H; cbn [dup_scan]; [reflexivity|].
  cbn [fresh_all] in H. apply andb_true_iff in H as [Hk Hr]. apply negb_true_iff in Hk.
  unfold seen_upd, dups_upd. rewrite Hk. cbn [andb]. apply IH, Hr.
Qed.

(* the duplicate names of an entry's field list, sorted *)
Definition dup_names (fs : gfields) : list str := dup_scan [] [] (field_names fs).

Definition block_of_dup (ln : Z) (it : item) : block :=
  match it with
  | IEntry _ _ _ _ _ (EComma fs) =>
      wrap_dups (mkhdr (Some ln) (Some (render_item it)) []) (dup_names fs) (block_of ln it)
  | _ => block_of ln it
  end.
Fixpoint exp_items_dup (ln : Z) (l : list (item * str)) : list block :=
  match l with
  | [] => []
  | (it, g) :: r => block_of_dup ln it :: exp_items_dup (ln + count_nl (render_item it ++ g))%Z r
  end.
Definition expected_dup (d : doc) : list block := exp_items_dup (count_nl (d_gap0 d)) (d_items d).

Lemma block_of_dup_nodup ln it : nodup_item it = true -> block_of_dup ln it = block_of ln it.
Proof.
  destruct it as [typ h w1 key w2 [|fs]| | | |]; try reflexivity. cbn [nodup_item]. intros H.
  unfold block_of_dup, dup_names. rewrite (dup_scan_fresh _ [] [] H). reflexivity.
Qed.
Lemma exp_items_dup_nodup l : forall ln, forallb (fun p => nodup_item (fst p)) l = true ->
  exp_items_dup ln l = exp_items ln l.
Proof.
  induction l as [|[it g] r IH]; intros ln H; cbn [exp_items_dup exp_items]; [reflexivity|].
  cbn [forallb fst] in H. apply andb_true_iff in H as [Hi Hr]. rewrite (block_of_dup_nodup ln it Hi), (IH _ Hr). reflexivity.
Qed.
Theorem expected_dup_nodup d : nodup_fields d -> expected_dup d = expected d.
Proof. intros H. apply exp_items_dup_nodup, H. Qed.

(* ------------------------------------------------------------------ 1. entry delimiters, any duplicate list *)
Definition ehdr (bl : Z) (R : str) : hdr := mkhdr (Some bl) (Some R) [].
Lemma step_fldkey_rb_d r ln o ic icl bl R T a v et ek fl fs sn dp :
  runf false (c_rb :: r) (mkst FldKey ln o ic icl (mkob bl (rev R) T a v et ek fl fs sn dp))
  = runf false r (mkst Out ln (wrap_dups (ehdr bl (R ++ [c_rb])) dp (BEntry (ehdr bl (R ++ [c_rb])) et ek (rev fs)) :: o) [] ln
                    (mkob bl (rev R) T a v et ek fl fs sn dp)).
Proof.
  cbn [runf]. change (classify1 false c_rb r) with (Some MRB). change (c_rb =? c_bs)%N with false. f_equal.
  unfold step, close_block, entry_block, ob_raw, hdr_of, wrap_dups, ehdr.
  cbn [md line out_rev Splitter.ob b_line raw_rev typ_rev a_rev v_rev etyp ekey f_line flds_rev seen dups].
  rewrite rev_snoc, rv_rev_id, rv_rev. destruct dp; reflexivity.
Qed.
Lemma step_fldval_comma_d r ln o ic icl bl R T A V et ek fl fs sn dp :
  runf false (c_comma :: r) (mkst (FldVal false 0) ln o ic icl (mkob bl (rev R) T (rev A) (rev V) et ek fl fs sn dp))
  = runf false r (mkst FldKey ln o ic icl
                    (mkob bl (rev (R ++ [c_comma])) T (rev []) (rev []) et ek fl
                       (mkfield (strip A) (VStr (strip V)) (Some fl) :: fs)
                       (seen_upd (strip A) sn) (dups_upd (strip A) sn dp))).
Proof.
  cbn [runf]. change (classify1 false c_comma r) with (Some MComma). change (c_comma =? c_bs)%N with false.
  f_equal. unfold step, upd, ob_raw, ob_field, seen_upd, dups_upd.
  cbn [md line out_rev ic_rev ic_line Splitter.ob b_line raw_rev typ_rev a_rev v_rev etyp ekey f_line flds_rev seen dups
       orb negb N.eqb].
  rewrite rev_snoc, !rv_rev_id. reflexivity.
Qed.
Lemma step_fldval_rb_d r ln o ic icl bl R T A V et ek fl fs sn dp :
  runf false (c_rb :: r) (mkst (FldVal false 0) ln o ic icl (mkob bl (rev R) T (rev A) (rev V) et ek fl fs sn dp))
  = runf false r (mkst Out ln
                    (wrap_dups (ehdr bl (R ++ [c_rb])) (dups_upd (strip A) sn dp)
                       (BEntry (ehdr bl (R ++ [c_rb])) et ek
                          (rev (mkfield (strip A) (VStr (strip V)) (Some fl) :: fs))) :: o) [] ln
                    (mkob bl (rev R) T (rev A) (rev V) et ek fl fs sn dp)).
Proof.
  cbn [runf]. change (classify1 false c_rb r) with (Some MRB). change (c_rb =? c_bs)%N with false.
  f_equal. unfold step, close_block, entry_block, ob_raw, ob_field, hdr_of, wrap_dups, ehdr, dups_upd.
  cbn [md line out_rev ic_rev ic_line Splitter.ob b_line raw_rev typ_rev a_rev v_rev etyp ekey f_line flds_rev seen dups
       N.eqb].
  rewrite rev_snoc, !rv_rev_id, rv_rev.
  destruct (mem_str (strip A) sn && negb (mem_str (strip A) dp)); [reflexivity|]. destruct dp; reflexivity.
Qed.

(* ------------------------------------------------------------------ 2. the field list, any seen / duplicate lists *)
Lemma run_fields_d fs : forall r ln o ic icl bl R T et ek fl F sn dp,
  wf_fields fs = true -> noat (render_fields fs) r = true ->
  exists B', runf false (render_fields fs ++ r)
               (mkst FldKey ln o ic icl (mkob bl (rev R) T (rev []) (rev []) et ek fl F sn dp))
  = runf false r (mkst Out (ln + count_nl (render_fields fs))
                    (wrap_dups (ehdr bl (R ++ render_fields fs)) (dup_scan sn dp (field_names fs))
                       (BEntry (ehdr bl (R ++ render_fields fs)) et ek (rev F ++ exp_fields ln fs)) :: o)
                    [] (ln + count_nl (render_fields fs)) B').
Proof.
  induction fs as [w|f|f r0 IH]; intros r ln o ic icl bl R T et ek fl F sn dp Hwf Hna;
    cbn [render_fields wf_fields field_names dup_scan exp_fields] in *.
  - rewrite noat_app in Hna. apply andb_true_iff in Hna as [Hn1 _]. eexists. rewrite <- app_assoc.
    rewrite (run_key w FldKey false _ _ _ _ _ _ _ _ _ _ _ _ _ _ _ _ (or_intror (or_intror eq_refl)) Hn1 (quiet_ws _ _ Hwf)).
    rewrite (ends_bs_ws w false Hwf eq_refl). cbn [app]. rewrite step_fldkey_rb_d. apply out_eq2.
    + rewrite count_nl_rb. reflexivity.
    + rewrite app_nil_r. lnorm. reflexivity.
  - rewrite noat_app in Hna. apply andb_true_iff in Hna as [Hn1 _].
    destruct (field_strips f Hwf) as [S1 S2]. eexists. rewrite <- app_assoc.
    rewrite (run_field f _ _ _ _ _ _ _ _ _ _ _ _ _ _ Hwf Hn1). cbn [app].
    rewrite step_fldval_rb_d. apply out_eq2.
    + rewrite count_nl_rb. reflexivity.
    + rewrite S1, S2. cbn [rev]. lnorm. reflexivity.
  - apply andb_true_iff in Hwf as [Hwf Hwr].
    rewrite noat_app in Hna. apply andb_true_iff in Hna as [Hn1 Hn2].
    change (c_comma :: render_fields r0) with ([c_comma] ++ render_fields r0) in Hn2.
    rewrite noat_app in Hn2. apply andb_true_iff in Hn2 as [_ Hn2].
    destruct (field_strips f Hwf) as [S1 S2]. rewrite <- app_assoc.
    rewrite (run_field f _ _ _ _ _ _ _ _ _ _ _ _ _ _ Hwf Hn1). cbn [app].
    rewrite step_fldval_comma_d. rewrite S1, S2.
    destruct (IH r (ln + count_nl (render_field f)) o ic icl bl ((R ++ render_field f) ++ [c_comma]) T et ek
                (ln + count_nl (field_head f))
                (mkfield (g_name f) (VStr (render_value (g_val f))) (Some (ln + count_nl (field_head f))) :: F)
                (seen_upd (g_name f) sn) (dups_upd (g_name f) sn dp) Hwr Hn2) as [B' E].
    exists B'. rewrite E. apply out_eq2.
    + rewrite count_nl_app, count_nl_cons. change (c_comma =? c_nl)%N with false. cbn iota. lia.
    + cbn [rev]. lnorm. reflexivity.
Qed.

(* ------------------------------------------------------------------ 3. items, without nodup_item *)
Definition item_ok_d (it : item) : Prop :=
  forall rest pb ln o P icl B,
    is_free it = false -> wf_item it = true -> noat (render_body it) rest = true ->
    exists B', runf pb (render_item it ++ rest) (mkst Out ln o (rev P) icl B)
               = runf false rest (mkst Out (ln + count_nl (render_item it)) (block_of_dup ln it :: flushl o P icl)
                                    (rev []) (ln + count_nl (render_item it)) B').

Lemma item_ok_d_of it : nodup_item it = true -> item_ok it -> item_ok_d it.
Proof.
  intros Hnd H rest pb ln o P icl B Fr Hwf Hna. rewrite (block_of_dup_nodup ln it Hnd).
  exact (H rest pb ln o P icl B Fr Hwf Hnd Hna).
Qed.

Lemma item_ok_entry_d typ h w1 key w2 t : item_ok_d (IEntry typ h w1 key w2 t).
Proof.
  destruct t as [|fs]; [apply item_ok_d_of; [reflexivity | apply item_ok_entry]|].
  intros rest pb ln o P icl B _ Hwf Hna. cbn [wf_item] in Hwf. band Hwf.
  destruct Hwf as (((((((((Ht & Hh) & S1) & S2) & S3) & H1) & Hk) & H2) & He) & Htl).
  cbn [render_item render_body] in *.
  assert (Hs : strip (w1 ++ key ++ w2) = key) by (apply strip_tight; auto using name_tight).
  unfold entry_head in Hna at 1. set (K := w1 ++ key ++ w2) in *.
  change (typ ++ h ++ c_lb :: K) with (typ ++ h ++ [c_lb] ++ K) in Hna.
  rewrite <- !app_assoc in Hna. rewrite noat_app in Hna. apply andb_true_iff in Hna as [_ Hna].
  rewrite noat_app in Hna. apply andb_true_iff in Hna as [_ Hna].
  rewrite noat_app in Hna. apply andb_true_iff in Hna as [_ Hna].
  rewrite noat_app in Hna. apply andb_true_iff in Hna as [HnK Hnt]. subst K.
  cbn [app]. rewrite <- app_assoc.
  rewrite (run_entry_head typ h w1 key w2 _ pb ln o P icl B Ht Hh S1 S2 S3 H1 Hk H2 He HnK).
  cbn [render_etail wf_etail] in *.
  change (c_comma :: render_fields fs) with ([c_comma] ++ render_fields fs) in Hnt.
  rewrite noat_app in Hnt. apply andb_true_iff in Hnt as [_ Hnt].
  cbn [app]. rewrite step_entkey_comma, Hs.
  destruct (run_fields_d fs rest (ln + count_nl (entry_head typ h w1 key w2)) (flushl o P icl) [] ln ln
              ((c_at :: entry_head typ h w1 key w2) ++ [c_comma]) (rev (typ ++ h)) (lower typ) key 0 [] [] []
              Htl Hnt) as [B' E].
  exists B'. rewrite E. apply out_eq.
  - rewrite count_nl_cons, count_nl_app, count_nl_cons. change (c_comma =? c_nl)%N with false.
    change (c_at =? c_nl)%N with false. cbn iota. lia.
  - unfold block_of_dup, block_of, dup_names, ehdr. cbn [render_item render_body render_etail rev]. lnorm. reflexivity.
Qed.

Lemma all_items_ok_d it : item_ok_d it.
Proof.
  destruct it.
  - apply item_ok_entry_d.
  - apply item_ok_d_of; [reflexivity | apply item_ok_string].
  - apply item_ok_d_of; [reflexivity | apply item_ok_preamble].
  - apply item_ok_d_of; [reflexivity | apply item_ok_comment].
  - intros rest pb ln o P icl B H. discriminate H.
Qed.

(* ------------------------------------------------------------------ 4. the item list and the document *)
Lemma run_items_d : forall items pf pb ln o P icl B,
  wf_items pf items = true ->
  (pf = false -> is_ws P = true /\ icl + count_nl P = ln) ->
  finish (runf pb (render_items items) (mkst Out ln o (rev P) icl B))
  = Blocks (rev (flushl o P icl) ++ exp_items_dup ln items).
Proof.
  induction items as [|[it g] r IH]; intros pf pb ln o P icl B Hwf Hpf.
  - cbn [render_items runf exp_items_dup]. unfold finish. cbn [md]. rewrite flush_ic_l, rv_rev, app_nil_r. reflexivity.
  - cbn [wf_items] in Hwf. band Hwf. destruct Hwf as ((((Hit & Hg) & Hadj) & Hna) & Hr).
    cbn [render_items exp_items_dup].
    destruct (is_free it) eqn:Fr.
    + destruct it as [| | | |t]; try discriminate Fr. cbn [andb] in Hadj. subst pf.
      destruct (Hpf eq_refl) as [HP Hl]. cbn [render_item render_body wf_item] in *.
      rewrite app_assoc, (run_out (t ++ g)) by exact Hna.
      rewrite (IH true _ _ _ _ _ _ Hr) by discriminate.
      unfold flushl. rewrite (end_implicit_free P t g icl HP Hg Hit), (end_implicit_ws P icl HP).
      cbn [rev block_of_dup block_of render_item]. rewrite <- app_assoc, Hl. reflexivity.
    + rewrite noat_app in Hna. apply andb_true_iff in Hna as [Hna1 Hna2].
      destruct (all_items_ok_d it (g ++ render_items r) pb ln o P icl B Fr Hit Hna1) as [B' E].
      rewrite E. rewrite (run_out g) by exact Hna2.
      rewrite (IH false _ _ _ _ _ _ Hr).
      * unfold flushl at 1. cbn [app]. rewrite (end_implicit_ws g _ Hg). cbn [rev].
        rewrite <- app_assoc, count_nl_app, Z.add_assoc. reflexivity.
      * intros _. cbn [app]. split; [exact Hg | reflexivity].
Qed.

(* C02 without nodup_fields: an entry that repeats a field name comes back as a duplicate-field block *)
Theorem split_render_dup : forall d, wf_doc d -> split_raw (render d) = Blocks (expected_dup d).
Proof.
  intros d Hwf. unfold wf_doc, wf_doc_b in Hwf. apply andb_true_iff in Hwf as [Hg Hwf].
  unfold split_raw, run, render, expected_dup. rewrite runf_fold.
  change (c_nl :: d_gap0 d ++ render_items (d_items d)) with ((c_nl :: d_gap0 d) ++ render_items (d_items d)).
  assert (Hg' : is_ws (c_nl :: d_gap0 d) = true) by (cbn [is_ws forallb]; exact Hg).
  unfold st0. change (mkst Out (-1) [] [] (-1) (ob0 0 0%N)) with (mkst Out (-1) [] (rev []) (-1) (ob0 0 0%N)).
  rewrite (run_out (c_nl :: d_gap0 d)) by (apply noat_ws, Hg').
  rewrite (run_items_d (d_items d) false _ _ _ _ _ _ Hwf).
  - unfold flushl. cbn [app]. rewrite (end_implicit_ws _ _ Hg'). cbn [rev app]. f_equal. f_equal.
    change (count_nl (c_nl :: d_gap0 d)) with (1 + count_nl (d_gap0 d)). lia.
  - intros _. cbn [app]. split; [exact Hg'|].
    change (count_nl (c_nl :: d_gap0 d)) with (1 + count_nl (d_gap0 d)). lia.
Qed.
Print Assumptions split_render_dup.

(* ------------------------------------------------------------------ 5. the machine state after a prefix of the items *)
Lemma render_items_app a b : render_items (a ++ b) = render_items a ++ render_items b.
Proof. induction a as [|[it g] a IH]; cbn [app render_items]; [reflexivity|]. rewrite IH, <- !app_assoc. reflexivity. Qed.

Lemma run_items_out : forall pre tail pf pb ln o P icl B,
  wf_items pf (pre ++ tail) = true ->
  exists pf' pb' ln' o' P' icl' B',
    wf_items pf' tail = true /\
    runf pb (render_items (pre ++ tail)) (mkst Out ln o (rev P) icl B)
    = runf pb' (render_items tail) (mkst Out ln' o' (rev P') icl' B').
Proof.
  induction pre as [|[it g] r IH]; intros tail pf pb ln o P icl B Hwf.
  - exists pf, pb, ln, o, P, icl, B. split; [exact Hwf | reflexivity].
  - cbn [app wf_items] in Hwf. band Hwf. destruct Hwf as ((((Hit & Hg) & Hadj) & Hna) & Hr).
    cbn [app render_items].
    destruct (is_free it) eqn:Fr.
    + destruct it as [| | | |t]; try discriminate Fr. cbn [render_item render_body] in *.
      rewrite app_assoc, (run_out (t ++ g)) by exact Hna. apply (IH tail true), Hr.
    + rewrite noat_app in Hna. apply andb_true_iff in Hna as [Hna1 Hna2].
      destruct (all_items_ok_d it (g ++ render_items (r ++ tail)) pb ln o P icl B Fr Hit Hna1) as [B' E].
      rewrite E. rewrite (run_out g) by exact Hna2. apply (IH tail false), Hr.
Qed.

(* a document "ending in a complete block": the last item is a block item and nothing follows it *)
Fixpoint ends_block_items (l : list (item * str)) : bool :=
  match l with
  | [] => false
  | [(it, g)] => negb (is_free it) && match g with [] => true | _ => false end
  | _ :: r => ends_block_items r
  end.
Definition ends_in_block (d : doc) : Prop := ends_block_items (d_items d) = true.
Lemma ends_block_items_inv l : ends_block_items l = true ->
  exists pre it, l = pre ++ [(it, [])] /\ is_free it = false.
Proof.
  induction l as [|[it g] r IH]; [discriminate|]. destruct r as [|p r'].
  - cbn [ends_block_items]. intros H. apply andb_true_iff in H as [H1 H2]. apply negb_true_iff in H1.
    destruct g; [|discriminate]. exists [], it. split; [reflexivity | exact H1].
  - intros H. change (ends_block_items (p :: r') = true) in H. destruct (IH H) as (pre & it' & E & F).
    exists ((it, g) :: pre), it'. rewrite E. split; [reflexivity | exact F].
Qed.

Theorem doc_ends_closed : forall d, wf_doc d -> ends_in_block d ->
  md (run (render d)) = Out /\ ic_rev (run (render d)) = [].
Proof.
  intros d Hwf He. unfold wf_doc, wf_doc_b in Hwf. apply andb_true_iff in Hwf as [Hg Hwf].
  destruct (ends_block_items_inv _ He) as (pre & it & E & Fr).
  unfold run, render. rewrite runf_fold, E.
  change (c_nl :: d_gap0 d ++ render_items (pre ++ [(it, [])])) with ((c_nl :: d_gap0 d) ++ render_items (pre ++ [(it, [])])).
  assert (Hg' : is_ws (c_nl :: d_gap0 d) = true) by (cbn [is_ws forallb]; exact Hg).
  unfold st0. change (mkst Out (-1) [] [] (-1) (ob0 0 0%N)) with (mkst Out (-1) [] (rev []) (-1) (ob0 0 0%N)).
  rewrite (run_out (c_nl :: d_gap0 d)) by (apply noat_ws, Hg'). rewrite E in Hwf.
  edestruct (run_items_out pre [(it, [])] false) as (pf' & pb' & ln' & o' & P' & icl' & B' & Hw1 & Er); [exact Hwf|].
  rewrite Er. cbn [wf_items] in Hw1. band Hw1. destruct Hw1 as ((((Hit & _) & _) & Hna) & _).
  cbn [render_items] in *. rewrite !app_nil_r in *.
  destruct (all_items_ok_d it [] pb' ln' o' P' icl' B' Fr Hit Hna) as [B'' E2].
  rewrite app_nil_r in E2. rewrite E2. cbn [runf md ic_rev rev]. split; reflexivity.
Qed.
Print Assumptions doc_ends_closed.

(* ------------------------------------------------------------------ 6. a document starting with a block *)
Definition starts_block_items (l : list (item * str)) : bool :=
  match l with (it, _) :: _ => negb (is_free it) | [] => false end.
Definition starts_with_block_b (d : doc) : bool :=
  match d_gap0 d with [] => true | _ => false end && starts_block_items (d_items d).
Definition starts_with_block (d : doc) : Prop := starts_with_block_b d = true.

Lemma body_head it : is_free it = false -> wf_item it = true ->
  exists w h X, render_body it = w ++ h ++ c_lb :: X /\ forallb isword w = true /\ is_hws h = true.
Proof.
  destruct it as [typ h w1 key w2 t|kw h w1 name w2 w3 v w4|kw h b|kw h b|t]; intros Fr Hwf; try discriminate Fr;
    cbn [wf_item] in Hwf; band Hwf; cbn [render_body].
  - destruct Hwf as (((((((((Ht & Hh) & _) & _) & _) & _) & _) & _) & _) & _).
    exists typ, h, (w1 ++ key ++ w2 ++ render_etail t). split; [|split; [apply (typ_tight typ Ht) | exact Hh]].
    unfold entry_head. rewrite <- !app_assoc. cbn [app]. rewrite <- !app_assoc. reflexivity.
  - destruct Hwf as ((((((((((Hkw & Hh) & _) & _) & _) & _) & _) & _) & _) & _) & _).
    exists kw, h, (w1 ++ name ++ w2 ++ c_eq :: w3 ++ render_value v ++ w4 ++ [c_rb]). auto.
  - destruct Hwf as (((Hkw & Hh) & _) & _). exists kw, h, (render_braced b ++ [c_rb]). auto.
  - destruct Hwf as (((Hkw & Hh) & _) & _). exists kw, h, (render_braced b ++ [c_rb]). auto.
Qed.

Theorem doc_starts_with_block : forall d, wf_doc d -> starts_with_block d ->
  exists r, render d = c_at :: r /\ at_ok r = true.
Proof.
  intros [g0 items] Hwf Hs. unfold starts_with_block, starts_with_block_b in Hs. cbn [d_gap0 d_items] in Hs.
  destruct g0; [|discriminate Hs]. destruct items as [|[it g] r]; [discriminate Hs|].
  cbn [andb starts_block_items] in Hs. apply negb_true_iff in Hs.
  unfold wf_doc, wf_doc_b in Hwf. cbn [d_gap0 d_items is_ws forallb andb wf_items] in Hwf. band Hwf.
  destruct Hwf as ((((Hit & _) & _) & _) & _).
  destruct (body_head it Hs Hit) as (w & h & X & E & Hw & Hh).
  exists (render_body it ++ g ++ render_items r). split.
  - unfold render. cbn [d_gap0 d_items app render_items]. destruct it; try discriminate Hs; reflexivity.
  - rewrite E, <- !app_assoc. cbn [app]. apply at_ok_head; assumption.
Qed.
Print Assumptions doc_starts_with_block.

(* ------------------------------------------------------------------ 7. C04 on documents *)
(* prefix_stable', resync_tiles, concat' (Proofs/SplitResync.v) are, verbatim, C04_prefix_stable, C04_resync and
   C04_concat of Properties/C04.v; this file does not import Properties/ so that Properties/ may restate its theorems *)

(* without nodup_fields: the neighbours are expected_dup *)
Theorem C04_doc_prefix_stable_dup : forall d, wf_doc d -> ends_in_block d ->
  forall x, exists rest, split_raw (render d ++ x) = Blocks (expected_dup d ++ rest).
Proof.
  intros d Hwf He x. destruct (doc_ends_closed d Hwf He) as [Hm Hi].
  exact (prefix_stable' (render d) x (expected_dup d) Hm Hi (split_render_dup d Hwf)).
Qed.
Theorem C04_doc_resync_dup : forall d, wf_doc d -> starts_with_block d ->
  forall x, exists pre items,
    split_raw (x ++ c_nl :: render d) = Blocks (pre ++ map (shiftb (count_nl x + 1)) (expected_dup d)) /\
    raw_lines pre = Some items /\ tiledL (-1) (c_nl :: x ++ [c_nl]) items.
Proof.
  intros d Hwf Hs x. destruct (doc_starts_with_block d Hwf Hs) as (r & Er & Hat).
  assert (E0 := split_render_dup d Hwf). rewrite Er in *.
  destruct (split_raw_total (x ++ c_nl :: c_at :: r)) as [B EB].
  destruct (resync_tiles x r B (expected_dup d) Hat EB E0) as (pre & items & -> & H1 & H2).
  exists pre, items. auto.
Qed.
Theorem C04_doc_concat_dup : forall d1 d2, wf_doc d1 -> ends_in_block d1 -> wf_doc d2 -> starts_with_block d2 ->
  split_raw (render d1 ++ c_nl :: render d2)
  = Blocks (expected_dup d1 ++ map (shiftb (count_nl (render d1) + 1)) (expected_dup d2)).
Proof.
  intros d1 d2 Hwf1 He Hwf2 Hs. destruct (doc_ends_closed d1 Hwf1 He) as [Hm Hi].
  destruct (doc_starts_with_block d2 Hwf2 Hs) as (r & Er & Hat).
  assert (E2 := split_render_dup d2 Hwf2). rewrite Er in *.
  exact (concat' (render d1) r _ _ Hm Hi Hat (split_render_dup d1 Hwf1) E2).
Qed.

(* the statements with nodup_fields: the neighbours are C02's ground truth *)
Theorem C04_doc_prefix_stable : forall d, wf_doc d -> nodup_fields d -> ends_in_block d ->
  forall x, exists rest, split_raw (render d ++ x) = Blocks (expected d ++ rest).
Proof. intros d Hwf Hnd. rewrite <- (expected_dup_nodup d Hnd). apply C04_doc_prefix_stable_dup, Hwf. Qed.
Theorem C04_doc_resync_tiles : forall d, wf_doc d -> nodup_fields d -> starts_with_block d ->
  forall x, exists pre items,
    split_raw (x ++ c_nl :: render d) = Blocks (pre ++ map (shiftb (count_nl x + 1)) (expected d)) /\
    raw_lines pre = Some items /\ tiledL (-1) (c_nl :: x ++ [c_nl]) items.
Proof. intros d Hwf Hnd. rewrite <- (expected_dup_nodup d Hnd). apply C04_doc_resync_dup, Hwf. Qed.
Theorem C04_doc_resync : forall d, wf_doc d -> nodup_fields d -> starts_with_block d ->
  forall x, exists pre, split_raw (x ++ c_nl :: render d) = Blocks (pre ++ map (shiftb (count_nl x + 1)) (expected d)).
Proof.
  intros d Hwf Hnd Hs x. destruct (C04_doc_resync_tiles d Hwf Hnd Hs x) as (pre & items & E & _). exists pre. exact E.
Qed.
Theorem C04_doc_concat : forall d1 d2,
  wf_doc d1 -> nodup_fields d1 -> ends_in_block d1 -> wf_doc d2 -> nodup_fields d2 -> starts_with_block d2 ->
  split_raw (render d1 ++ c_nl :: render d2)
  = Blocks (expected d1 ++ map (shiftb (count_nl (render d1) + 1)) (expected d2)).
Proof.
  intros d1 d2 Hwf1 Hnd1 He Hwf2 Hnd2 Hs. rewrite <- (expected_dup_nodup d1 Hnd1), <- (expected_dup_nodup d2 Hnd2).
  apply C04_doc_concat_dup; assumption.
Qed.
Print Assumptions C04_doc_prefix_stable.
Print Assumptions C04_doc_resync_tiles.
Print Assumptions C04_doc_resync.
Print Assumptions C04_doc_concat.

(* ------------------------------------------------------------------ 8. C09 on documents *)
Local Close Scope Z_scope.
Lemma exp_items_length l : forall ln, List.length (exp_items ln l) = List.length l.
Proof. induction l as [|[it g] r IH]; intros ln; cbn [exp_items List.length]; [reflexivity | rewrite IH; reflexivity]. Qed.
Lemma exp_items_dup_length l : forall ln, List.length (exp_items_dup ln l) = List.length l.
Proof. induction l as [|[it g] r IH]; intros ln; cbn [exp_items_dup List.length]; [reflexivity | rewrite IH; reflexivity]. Qed.
(* one ground-truth block per item *)
Theorem expected_length d : List.length (expected d) = List.length (d_items d).
Proof. apply exp_items_length. Qed.
Theorem expected_dup_length d : List.length (expected_dup d) = List.length (d_items d).
Proof. apply exp_items_dup_length. Qed.

(* split_is_flagged (Proofs/DupProofs.v) is C09_split_is_flagged; entry keys and @string names may repeat freely *)
Theorem C09_doc_classify_dup : forall d, wf_doc d -> split (render d) = Blocks (flag_all [] (expected_dup d)).
Proof. intros d Hwf. apply split_is_flagged, split_render_dup, Hwf. Qed.
Theorem C09_doc_count_dup : forall d, wf_doc d ->
  forall bs, split (render d) = Blocks bs -> List.length bs = List.length (d_items d).
Proof.
  intros d Hwf bs H. rewrite (C09_doc_classify_dup d Hwf) in H. injection H as <-.
  rewrite flag_all_length. apply expected_dup_length.
Qed.
(* position by position: the i-th returned block is the i-th item's block, flagged against the items before it *)
Theorem C09_doc_position_dup : forall d, wf_doc d ->
  forall bs i dflt, split (render d) = Blocks bs -> i < List.length (d_items d) ->
  nth i bs dflt = flagged (firstn i (expected_dup d)) (nth i (expected_dup d) dflt).
Proof.
  intros d Hwf bs i dflt H Hi. rewrite (C09_doc_classify_dup d Hwf) in H. injection H as <-.
  rewrite <- expected_dup_length in Hi. apply (flag_all_nth (expected_dup d) [] i dflt Hi).
Qed.

Theorem C09_doc_classify : forall d, wf_doc d -> nodup_fields d -> split (render d) = Blocks (flag_all [] (expected d)).
Proof. intros d Hwf Hnd. rewrite <- (expected_dup_nodup d Hnd). apply C09_doc_classify_dup, Hwf. Qed.
Theorem C09_doc_count : forall d, wf_doc d -> nodup_fields d ->
  forall bs, split (render d) = Blocks bs -> List.length bs = List.length (d_items d).
Proof. intros d Hwf _. apply C09_doc_count_dup, Hwf. Qed.
Theorem C09_doc_position : forall d, wf_doc d -> nodup_fields d ->
  forall bs i dflt, split (render d) = Blocks bs -> i < List.length (d_items d) ->
  nth i bs dflt = flagged (firstn i (expected d)) (nth i (expected d) dflt).
Proof. intros d Hwf Hnd. rewrite <- (expected_dup_nodup d Hnd). apply C09_doc_position_dup, Hwf. Qed.
Print Assumptions C09_doc_classify_dup.
Print Assumptions C09_doc_count_dup.
Print Assumptions C09_doc_position_dup.
Print Assumptions C09_doc_classify.
Print Assumptions C09_doc_count.
Print Assumptions C09_doc_position.
Print Assumptions expected_length.

(* the ground truth of a well-formed document is consistent about repeated field names (DupProofs.dup_ok): a plain
   entry has pairwise distinct field names; a wrapper has the inner entry's header, an inner entry with a repeated
   name, and as keys exactly the names occurring at least twice, each once *)
Corollary expected_dup_ok d : wf_doc d -> Forall dup_ok (expected_dup d).
Proof. intros Hwf. exact (split_raw_dup_ok (render d) (expected_dup d) (split_render_dup d Hwf)). Qed.
Lemma exp_fields_names fs : forall ln, map fkey (exp_fields ln fs) = field_names fs.
Proof. induction fs as [w|f|f r IH]; intros ln; cbn [exp_fields field_names map]; [reflexivity | reflexivity | rewrite IH; reflexivity]. Qed.
Print Assumptions expected_dup_ok.

(* ------------------------------------------------------------------ 9. instances *)
Local Open Scope Z_scope.
Definition gc_fa : gfield := mkgf sp_ (lit "t") [] [] (mkgv (PBraced (bs_ (lit "x") BNil)) []) [].
Definition gc_fb : gfield := mkgf sp_ (lit "u") sp_ sp_ (mkgv (PBare (lit "12")) []) [].
Definition gc_e1 : item := IEntry (lit "a") [] [] (lit "k") [] (EComma (FCons gc_fa (FLast gc_fb))).
Definition gc_e2 : item := IEntry (lit "b") [] [] (lit "k") [] ENoComma.
Definition gc_e3 : item := IEntry (lit "c") [] [] (lit "j") [] (EComma (FCons gc_fa (FCons gc_fb (FLast gc_fa)))).
Definition gc_s1 : item := IString (lit "string") [] [] (lit "m") sp_ sp_ (mkgv (PQuoted (qs_ (lit "M") QNil)) []) [].
(* starts and ends with a block; entry key k and string name m repeat; field names distinct *)
Definition gc_da : doc := mkdoc [] [(gc_e1, [c_nl]); (gc_s1, [c_nl]); (gc_e2, [c_nl]); (gc_s1, [])].
(* ends with a block; the entry c repeats the field name t *)
Definition gc_db : doc := mkdoc [c_nl] [(IFree (lit "junk"), [c_nl]); (gc_e3, [c_nl]); (gc_e1, [])].

Example gc_da_render : render gc_da = lit "@a{k, t={x}, u = 12}
@string{m = ""M""}
@b{k}
@string{m = ""M""}".
Proof. vm_compute. reflexivity. Qed.
Example gc_db_render : render gc_db = lit "
junk
@c{j, t={x}, u = 12, t={x}}
@a{k, t={x}, u = 12}".
Proof. vm_compute. reflexivity. Qed.
Example gc_da_wf : wf_doc gc_da.  Proof. vm_compute. reflexivity. Qed.
Example gc_da_nodup : nodup_fields gc_da.  Proof. vm_compute. reflexivity. Qed.
Example gc_da_ends : ends_in_block gc_da.  Proof. vm_compute. reflexivity. Qed.
Example gc_da_starts : starts_with_block gc_da.  Proof. vm_compute. reflexivity. Qed.
Example gc_db_wf : wf_doc gc_db.  Proof. vm_compute. reflexivity. Qed.
Example gc_db_not_nodup : nodup_fields_b gc_db = false.  Proof. vm_compute. reflexivity. Qed.
Example gc_db_ends : ends_in_block gc_db.  Proof. vm_compute. reflexivity. Qed.
(* SplitGrammar.ex_doc ends in free text and starts with a gap: outside both predicates *)
Example ex_doc_not_ends : ends_block_items (d_items ex_doc) = false.  Proof. vm_compute. reflexivity. Qed.
Example ex_doc_not_starts : starts_with_block_b ex_doc = false.  Proof. vm_compute. reflexivity. Qed.

(* (5) *)
Example gc_split_dup : split_raw (render gc_db) = Blocks (expected_dup gc_db).
Proof. apply split_render_dup, gc_db_wf. Qed.
Example gc_split_dup_computed : split_raw (render gc_db) = Blocks (expected_dup gc_db).
Proof. vm_compute. reflexivity. Qed.
Example gc_expected_dup_classes :
  map class_of (expected_dup gc_db) = [CImpl; CDupField; CEntry] /\ map class_of (expected gc_db) = [CImpl; CEntry; CEntry].
Proof. vm_compute. split; reflexivity. Qed.
Example gc_dup_wrapper : exists h e, nth 1 (expected_dup gc_db) (BImpl hdr0 []) = BDupField h [lit "t"] e
  /\ e = nth 1 (expected gc_db) (BImpl hdr0 []) /\ bhdr e = h /\ sl h = Some 2
  /\ match e with BEntry _ _ _ fs => map fkey fs = [lit "t"; lit "u"; lit "t"] | _ => False end.
Proof. vm_compute. do 2 eexists. repeat split; reflexivity. Qed.
Example gc_split_render_fails_without_nodup : split_raw (render gc_db) <> Blocks (expected gc_db).
Proof. vm_compute. discriminate. Qed.
Example gc_expected_dup_nodup : expected_dup gc_da = expected gc_da.
Proof. apply expected_dup_nodup, gc_da_nodup. Qed.

(* (1), (2) *)
Example gc_ends_closed : md (run (render gc_da)) = Out /\ ic_rev (run (render gc_da)) = [].
Proof. apply doc_ends_closed; [exact gc_da_wf | exact gc_da_ends]. Qed.
Example gc_ends_closed_dup : md (run (render gc_db)) = Out /\ ic_rev (run (render gc_db)) = [].
Proof. apply doc_ends_closed; [exact gc_db_wf | exact gc_db_ends]. Qed.
Example gc_ends_closed_computed : md (run (render gc_db)) = Out /\ ic_rev (run (render gc_db)) = [].
Proof. vm_compute. split; reflexivity. Qed.
(* the hypothesis is needed: after ex_doc (ends in free text) the implicit comment is open *)
Example ex_doc_not_closed : ic_rev (run (render ex_doc)) <> [].
Proof. vm_compute. discriminate. Qed.
Example gc_starts : exists r, render gc_da = c_at :: r /\ at_ok r = true.
Proof. apply doc_starts_with_block; [exact gc_da_wf | exact gc_da_starts]. Qed.

(* (3): gc_x is an entry with an unterminated quoted value containing an open brace *)
Definition gc_x : str := lit "@a{k, t = ""unclosed {".
Example gc_prefix_stable : exists rest, split_raw (render gc_da ++ gc_x) = Blocks (expected gc_da ++ rest).
Proof. apply C04_doc_prefix_stable; [exact gc_da_wf | exact gc_da_nodup | exact gc_da_ends]. Qed.
Example gc_prefix_stable_computed : exists f,
  split_raw (render gc_da ++ gc_x) = Blocks (expected gc_da ++ [f]) /\ class_of f = CFailed.
Proof. vm_compute. eexists. split; reflexivity. Qed.
Example gc_prefix_stable_dup : exists rest, split_raw (render gc_db ++ gc_x) = Blocks (expected_dup gc_db ++ rest).
Proof. apply C04_doc_prefix_stable_dup; [exact gc_db_wf | exact gc_db_ends]. Qed.
Example gc_resync : exists pre,
  split_raw (gc_x ++ c_nl :: render gc_da) = Blocks (pre ++ map (shiftb (count_nl gc_x + 1)) (expected gc_da)).
Proof. apply C04_doc_resync; [exact gc_da_wf | exact gc_da_nodup | exact gc_da_starts]. Qed.
Example gc_resync_computed : exists f,
  split_raw (gc_x ++ c_nl :: render gc_da) = Blocks ([f] ++ map (shiftb 1) (expected gc_da)) /\ class_of f = CFailed
  /\ map (fun b => sl (bhdr b)) (map (shiftb 1) (expected gc_da)) = [Some 1; Some 2; Some 3; Some 4].
Proof. vm_compute. eexists. repeat split; reflexivity. Qed.
Example gc_concat : split_raw (render gc_da ++ c_nl :: render gc_da)
  = Blocks (expected gc_da ++ map (shiftb (count_nl (render gc_da) + 1)) (expected gc_da)).
Proof. apply C04_doc_concat; auto using gc_da_wf, gc_da_nodup, gc_da_ends, gc_da_starts. Qed.
Example gc_concat_dup : split_raw (render gc_db ++ c_nl :: render gc_da)
  = Blocks (expected_dup gc_db ++ map (shiftb (count_nl (render gc_db) + 1)) (expected_dup gc_da)).
Proof. apply C04_doc_concat_dup; auto using gc_db_wf, gc_db_ends, gc_da_wf, gc_da_starts. Qed.
Example gc_concat_computed :
  count_nl (render gc_db) + 1 = 4 /\
  map (fun b => sl (bhdr b)) (expected_dup gc_db ++ map (shiftb 4) (expected_dup gc_da))
  = [Some 1; Some 2; Some 3; Some 4; Some 5; Some 6; Some 7].
Proof. vm_compute. split; reflexivity. Qed.

(* (4): in gc_da the entry key k and the string name m both repeat *)
Local Close Scope Z_scope.
Example gc_expected_length : List.length (expected gc_da) = 4 /\ List.length (d_items gc_da) = 4.
Proof. split; [rewrite expected_length|]; reflexivity. Qed.
Example gc_classify : split (render gc_da) = Blocks (flag_all [] (expected gc_da)).
Proof. apply C09_doc_classify; [exact gc_da_wf | exact gc_da_nodup]. Qed.
Example gc_count : forall bs, split (render gc_da) = Blocks bs -> List.length bs = 4.
Proof. intros bs H. apply (C09_doc_count gc_da gc_da_wf gc_da_nodup bs H). Qed.
Example gc_classify_classes :
  map class_of (expected gc_da) = [CEntry; CString; CEntry; CString] /\
  map class_of (flag_all [] (expected gc_da)) = [CEntry; CString; CDupKey; CDupKey].
Proof. vm_compute. split; reflexivity. Qed.
(* the flagged third block exposes the key, the FIRST entry with that key and the complete duplicate *)
Example gc_classify_third : exists h,
  nth 2 (flag_all [] (expected gc_da)) (BImpl hdr0 [])
  = BDupKey h (lit "k") (nth 0 (expected gc_da) (BImpl hdr0 [])) (nth 2 (expected gc_da) (BImpl hdr0 [])) /\ sl h = Some 2%Z.
Proof. vm_compute. eexists. split; reflexivity. Qed.
Example gc_position : forall bs, split (render gc_da) = Blocks bs ->
  nth 3 bs (BImpl hdr0 []) = flagged (firstn 3 (expected gc_da)) (nth 3 (expected gc_da) (BImpl hdr0 [])).
Proof. intros bs H. apply (C09_doc_position gc_da gc_da_wf gc_da_nodup bs 3 _ H). vm_compute. lia. Qed.
(* without nodup_fields: the duplicate-field entry is returned as such and is not registered *)
Example gc_classify_dup : split (render gc_db) = Blocks (flag_all [] (expected_dup gc_db)).
Proof. apply C09_doc_classify_dup, gc_db_wf. Qed.
Example gc_count_dup : forall bs, split (render gc_db) = Blocks bs -> List.length bs = 3.
Proof. intros bs H. apply (C09_doc_count_dup gc_db gc_db_wf bs H). Qed.
Example gc_classify_dup_classes : map class_of (flag_all [] (expected_dup gc_db)) = [CImpl; CDupField; CEntry].
Proof. vm_compute. reflexivity. Qed.
Example gc_expected_dup_ok : Forall dup_ok (expected_dup gc_db).
Proof. apply expected_dup_ok, gc_db_wf. Qed.
Print Assumptions C04_doc_prefix_stable_dup.
Print Assumptions C04_doc_resync_dup.
Print Assumptions C04_doc_concat_dup.
Print Assumptions expected_dup_nodup.

(* ------------------------------------------------------------------ 10. dup_names, characterised on the grammar alone *)
(* (for any field list, well-formed or not) the scan yields each name occurring at least twice, once *)
Lemma dup_scan_spec names : forall sn dp ks,
  NoDup sn -> (forall k, In k sn <-> In k ks) -> NoDup dp -> (forall k, In k dp <-> 2 <= cnt k ks) ->
  NoDup (dup_scan sn dp names) /\ forall k, In k (dup_scan sn dp names) <-> 2 <= cnt k (rev names ++ ks).
Proof.
  induction names as [|x r IH]; intros sn dp ks A B C D; cbn [dup_scan rev app]; [split; assumption|].
  assert (Bx : In x sn <-> 1 <= cnt x ks) by (rewrite <- cnt_In; apply B).
  assert (Dx := D x).
  destruct (IH (seen_upd x sn) (dups_upd x sn dp) (x :: ks)) as [I1 I2]; unfold seen_upd, dups_upd.
  - destruct (mem_str x sn) eqn:M; [exact A|].
    apply not_true_iff_false in M. rewrite mem_str_In in M. constructor; assumption.
  - intros k. cbn [In]. destruct (mem_str x sn) eqn:M.
    + apply mem_str_In in M. rewrite B. split; [tauto|]. intros [E|H]; [subst k; apply B; exact M | exact H].
    + cbn [In]. rewrite B. tauto.
  - destruct (mem_str x sn); cbn [andb]; [|exact C].
    destruct (mem_str x dp) eqn:M; cbn [negb]; [exact C|].
    apply not_true_iff_false in M. rewrite mem_str_In in M. constructor; assumption.
  - intros k. cbn [cnt]. destruct (str_eqb k x) eqn:E.
    + apply str_eqb_eq in E. subst k.
      destruct (mem_str x sn) eqn:M; cbn [andb].
      * apply mem_str_In in M. apply Bx in M. destruct (mem_str x dp) eqn:M2; cbn [negb].
        -- apply mem_str_In in M2. split; [lia | intros _; exact M2].
        -- split; [lia | intros _; left; reflexivity].
      * apply not_true_iff_false in M. rewrite mem_str_In, Bx in M. split; [|lia].
        intros H. apply Dx in H. lia.
    + apply str_eqb_neq in E.
      destruct (mem_str x sn && negb (mem_str x dp)); [|rewrite D; lia].
      cbn [In]. rewrite D. split; [intros [H|H]; [congruence | lia] | intros H; right; lia].
  - split; [exact I1|]. intros k. rewrite I2, <- app_assoc. reflexivity.
Qed.
Theorem dup_names_spec fs :
  NoDup (dup_names fs) /\ (forall k, In k (dup_names fs) <-> 2 <= cnt k (field_names fs)) /\
  (dup_names fs = [] <-> has_dup (field_names fs) = false).
Proof.
  assert (N0 : NoDup (@nil str)) by constructor.
  assert (I0 : forall k : str, In k [] <-> In k []) by (intros k; tauto).
  assert (D0 : forall k : str, In k [] <-> 2 <= cnt k []) by (intros k; cbn [In cnt]; split; [tauto | lia]).
  destruct (dup_scan_spec (field_names fs) [] [] [] N0 I0 N0 D0) as [H1 H2].
  fold (dup_names fs) in H1, H2.
  assert (H3 : forall k, In k (dup_names fs) <-> 2 <= cnt k (field_names fs))
    by (intros k; rewrite H2, app_nil_r, cnt_rev; reflexivity).
  split; [exact H1|]. split; [exact H3|]. split.
  - intros E. destruct (has_dup (field_names fs)) eqn:H; [|reflexivity].
    apply has_dup_cnt in H. destruct H as [k H]. apply H3 in H. rewrite E in H. destruct H.
  - intros H. destruct (dup_names fs) as [|x l] eqn:E; [reflexivity|].
    assert (G : has_dup (field_names fs) = true) by (apply has_dup_cnt; exists x; apply H3; left; reflexivity).
    congruence.
Qed.
(* so: block_of_dup wraps an entry exactly when one of its field names repeats *)
Corollary block_of_dup_spec ln typ h w1 key w2 fs :
  block_of_dup ln (IEntry typ h w1 key w2 (EComma fs))
  = if has_dup (field_names fs)
    then BDupField (mkhdr (Some ln) (Some (render_item (IEntry typ h w1 key w2 (EComma fs)))) [])
                   (sort_strs (dup_names fs)) (block_of ln (IEntry typ h w1 key w2 (EComma fs)))
    else block_of ln (IEntry typ h w1 key w2 (EComma fs)).
Proof.
  destruct (dup_names_spec fs) as (_ & _ & [H1 H2]). unfold block_of_dup, wrap_dups.
  destruct (dup_names fs) as [|x l] eqn:E.
  - rewrite (H1 eq_refl). reflexivity.
  - destruct (has_dup (field_names fs)); [reflexivity|]. discriminate (H2 eq_refl).
Qed.
Print Assumptions dup_names_spec.
Print Assumptions block_of_dup_spec.
Example gc_dup_names : dup_names (FCons gc_fa (FCons gc_fb (FLast gc_fa))) = [lit "t"]
  /\ has_dup (field_names (FCons gc_fa (FCons gc_fb (FLast gc_fa)))) = true
  /\ dup_names (FCons gc_fa (FLast gc_fb)) = [].
Proof. vm_compute. repeat split; reflexivity. Qed.
Example gc_block_of_dup_spec : exists h, block_of_dup 2 gc_e3 = BDupField h [lit "t"] (block_of 2 gc_e3).
Proof. unfold gc_e3. rewrite block_of_dup_spec. vm_compute. eexists. reflexivity. Qed.
