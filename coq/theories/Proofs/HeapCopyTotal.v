(* C07 - COMPLETION of the executable deepcopy (Model/Heap.v: dc / deepcopy_exec / deepcopy_checked).

   Proofs/HeapProofs.v shows that the fuelled, memoised graph copy meets the deep-copy contract whenever its flag is
   true.  Here: on every well-formed heap h0 and every root in dom h0 the flag IS true with fuel S (length h0), hence
   `dc_contract deepcopy_exec` without any side condition beyond those dc_contract itself supplies.

   Argument.  The fuel bounds the recursion DEPTH (all children of one object are copied with the same remaining fuel).
   During one call the memo's keys are a duplicate-free sub-list of dom h0 (every visited object is an object of h0:
   the objects of h0 are unchanged in the growing heap, and h0 has no dangling reference), so length memo <= length h0.
   Every nested non-memoised visit has first pushed its own key, the memo never shrinks, so the quantity
   fuel + length memo never decreases along the recursion; it starts at S (length h0) + 0.  Hence
       length h0 < fuel + length memo
   is an invariant of every call, and with length memo <= length h0 it gives 0 < fuel: the fuel-exhausted branch is
   never entered (not even for a memoised visit, which also needs one unit).  The dangling branch (lookup = None) is
   excluded because the visited object is in dom h0 and unchanged. *)
From Coq Require Import List ZArith Bool Arith Lia.
From BP Require Import Model.Heap Model.HeapMw Spec.C07 Proofs.HeapProofs.
Import ListNotations.

Definition mkeys (m : memo) : list nat := map fst m.

Lemma memo_get_none : forall m o, memo_get m o = None -> ~ In o (mkeys m).
Proof.
  induction m as [|[k v] r IH]; simpl; intros o H; [tauto|].
  destruct (Nat.eqb k o) eqn:E; [discriminate|].
  intros [I|I]; [subst; rewrite Nat.eqb_refl in E; discriminate | exact (IH o H I)].
Qed.

(* the memo's keys: pairwise distinct objects of the initial heap *)
Definition memo_ok (h0 : heap) (m : memo) : Prop := NoDup (mkeys m) /\ incl (mkeys m) (dom h0).

Lemma memo_ok_nil : forall h0, memo_ok h0 [].
Proof. intros h0. split; [constructor | intros x []]. Qed.

Lemma memo_ok_length : forall h0 m, memo_ok h0 m -> length m <= length h0.
Proof.
  intros h0 m [N I]. pose proof (NoDup_incl_length N I) as L.
  unfold mkeys, dom in L. rewrite !map_length in L. exact L.
Qed.

Lemma memo_ok_cons : forall h0 m o o', memo_ok h0 m -> In o (dom h0) -> ~ In o (mkeys m) -> memo_ok h0 ((o, o') :: m).
Proof.
  intros h0 m o o' [N I] D F. split; simpl.
  - constructor; assumption.
  - intros x [<-|X]; [assumption | apply I; assumption].
Qed.

(* one unfolding step of dc, without unfolding copy_pvs *)
Lemma dc_S : forall f h m o, dc (S f) h m o =
  match memo_get m o with
  | Some o' => (h, m, o', true)
  | None =>
      match lookup h o with
      | None => (h, m, o, false)
      | Some ob =>
          let o' := fresh h in
          let '(h2, m2, l', ok) := copy_pvs (dc f) (obj_pvs ob) (set_obj h o' (shell ob)) ((o, o') :: m) in
          (set_obj h2 o' (rebuild ob l'), m2, o', ok)
      end
  end.
Proof. reflexivity. Qed.

(* `rec` completes (flag true) whenever it is called on an object of h0 in a state where the objects of h0 are
   unchanged, the memo is memo_ok and the budget n covers the objects of h0 not yet in the memo *)
Definition dc_total (h0 : heap) (n : nat) (rec : heap -> memo -> nat -> heap * memo * nat * bool) : Prop :=
  forall h m o, unchanged h0 h -> memo_ok h0 m -> In o (dom h0) -> length h0 < n + length m ->
    exists h' m' o', rec h m o = (h', m', o', true)
      /\ unchanged h0 h' /\ memo_ok h0 m' /\ length m <= length m'.

Lemma copy_pvs_total : forall h0 n rec, dc_total h0 n rec -> forall l h m,
  (forall q, In (PRef q) l -> In q (dom h0)) ->
  unchanged h0 h -> memo_ok h0 m -> length h0 < n + length m ->
  exists h2 m2 l', copy_pvs rec l h m = (h2, m2, l', true)
    /\ unchanged h0 h2 /\ memo_ok h0 m2 /\ length m <= length m2.
Proof.
  intros h0 n rec R l. induction l as [|[a|q] r IH]; intros h m Q U K L.
  - exists h, m, []. simpl. repeat split; auto; apply K.
  - destruct (IH h m (fun q I => Q q (or_intror I)) U K L) as (h2 & m2 & r' & E & U2 & K2 & L2).
    exists h2, m2, (PAtom a :: r'). simpl. rewrite E. repeat split; auto; apply K2.
  - destruct (R h m q U K (Q q (or_introl eq_refl)) L) as (h1 & m1 & q' & E1 & U1 & K1 & L1).
    assert (L' : length h0 < n + length m1) by lia.
    destruct (IH h1 m1 (fun x I => Q x (or_intror I)) U1 K1 L') as (h2 & m2 & r' & E2 & U2 & K2 & L2).
    exists h2, m2, (PRef q' :: r'). simpl. rewrite E1, E2. simpl.
    repeat split; auto; [apply K2 | apply K2 | lia].
Qed.

Lemma pvs_refs : forall ob q, In (PRef q) (obj_pvs ob) -> In q (refs_of ob).
Proof. intros ob q I. unfold refs_of. apply in_flat_map. exists (PRef q). split; [exact I | simpl; auto]. Qed.

Lemma dc_total_fuel : forall h0, wf_heap h0 -> forall fuel, dc_total h0 fuel (dc fuel).
Proof.
  intros h0 W fuel. induction fuel as [|f IH]; intros h m o U K D L.
  - exfalso. pose proof (memo_ok_length h0 m K). lia.
  - rewrite dc_S. destruct (memo_get m o) as [v|] eqn:EM.
    + exists h, m, v. repeat split; auto; apply K.
    + destruct (dom_lookup h0 o D) as [ob EL0].
      assert (EL : lookup h o = Some ob) by (rewrite (U o D); exact EL0).
      rewrite EL. cbv zeta.
      assert (NF : ~ In (fresh h) (dom h0)).
      { intro I. apply (fresh_not_in h). eapply unchanged_dom; eauto. }
      assert (U1 : unchanged h0 (set_obj h (fresh h) (shell ob))) by (apply unchanged_set_new; assumption).
      assert (K1 : memo_ok h0 ((o, fresh h) :: m)) by (apply memo_ok_cons; auto using memo_get_none).
      assert (L1 : length h0 < f + length ((o, fresh h) :: m)) by (simpl; lia).
      assert (Q : forall q, In (PRef q) (obj_pvs ob) -> In q (dom h0)).
      { intros q I. eapply W; [exact EL0 | apply pvs_refs; exact I]. }
      destruct (copy_pvs_total h0 f (dc f) IH (obj_pvs ob) _ _ Q U1 K1 L1) as (h2 & m2 & l' & EC & U2 & K2 & L2).
      rewrite EC. exists (set_obj h2 (fresh h) (rebuild ob l')), m2, (fresh h).
      split; [reflexivity|]. split; [apply unchanged_set_new; assumption|]. split; [assumption|].
      simpl in L2. lia.
Qed.

(* ------------------------------------------------------------------ completion and the unconditional contract *)
Lemma dc_completes : forall h r, wf_heap h -> In r (dom h) ->
  exists h' m' r', dc (S (length h)) h [] r = (h', m', r', true).
Proof.
  intros h r W D.
  destruct (dc_total_fuel h W (S (length h)) h [] r (unchanged_refl h) (memo_ok_nil h) D) as (h' & m' & r' & E & _);
    [simpl; lia|].
  exists h', m', r'. exact E.
Qed.

Lemma deepcopy_checked_total : forall h r, wf_heap h -> In r (dom h) ->
  exists h' r', deepcopy_checked h r = Some (h', r').
Proof.
  intros h r W D. destruct (dc_completes h r W D) as (h' & m' & r' & E).
  exists h', r'. unfold deepcopy_checked. rewrite E. reflexivity.
Qed.

(* on a well-formed heap and a root of it the checked and the unchecked copy are the same *)
Lemma deepcopy_checked_is_exec : forall h r, wf_heap h -> In r (dom h) ->
  deepcopy_checked h r = Some (deepcopy_exec h r).
Proof.
  intros h r W D. destruct (deepcopy_checked_total h r W D) as (h' & r' & E).
  rewrite (deepcopy_checked_exec h r h' r' E). exact E.
Qed.

Lemma deepcopy_total : forall h r, wf_heap h -> In r (dom h) ->
  exists h' r', deepcopy_checked h r = Some (h', r') /\ deepcopy_exec h r = (h', r').
Proof.
  intros h r W D. destruct (deepcopy_checked_total h r W D) as (h' & r' & E).
  exists h', r'. split; [exact E | exact (deepcopy_checked_exec h r h' r' E)].
Qed.

Lemma deepcopy_exec_contract : dc_contract deepcopy_exec.
Proof.
  intros h r h' r' W D E.
  apply (deepcopy_checked_contract h r h' r' W D).
  rewrite (deepcopy_checked_is_exec h r W D), E. reflexivity.
Qed.

(* every theorem that assumes `dc_contract DC` can be instantiated with the executable copy, e.g. stacks *)
Lemma run_stack_exec_ok : forall ms h lib h' lib',
  Forall mw_ok ms -> ms <> [] -> wf_heap h -> In lib (dom h) ->
  run_stack deepcopy_exec ms h lib = Some (h', lib') -> no_alias h h' lib'.
Proof. exact (run_stack_ok deepcopy_exec deepcopy_exec_contract). Qed.
