(* Proofs for C08: the representation invariant of Library holds after every history; order; raise-atomicity. *)
From Coq Require Import List NArith ZArith Bool Lia Permutation.
From BP Require Import Base.Chars Model.Blocks Model.Entry Model.Library Spec.C08 Proofs.EntryProofs.
Import ListNotations.

(* ------------------------------------------------------------------ lists *)
Lemma list_remove_split x l l' : list_remove x l = Some l' -> removes_first x l l'.
Proof.
  revert l'. induction l as [|y r IH]; simpl; intros l' H; [discriminate|].
  destruct (ob_py_eq y x) eqn:E.
  - inversion H; subst. exists [], y, l'. repeat split; auto.
  - destruct (list_remove x r) as [r'|]; [|discriminate]. inversion H; subst.
    destruct (IH r' eq_refl) as (pre & z & post & H1 & H2 & H3 & H4). subst.
    exists (y :: pre), z, post. repeat split; auto.
Qed.

Lemma list_index_remove x l i : list_index x l = Some i ->
  exists pre y post, l = pre ++ y :: post /\ length pre = i /\ ob_py_eq y x = true
                     /\ Forall (fun z => ob_py_eq z x = false) pre /\ list_remove x l = Some (pre ++ post).
Proof.
  revert i. induction l as [|y r IH]; simpl; intros i H; [discriminate|].
  destruct (ob_py_eq y x) eqn:E.
  - inversion H; subst. exists [], y, r. repeat split; auto.
  - destruct (list_index x r) as [j|]; [|discriminate]. inversion H; subst.
    destruct (IH j eq_refl) as (pre & z & post & H1 & H2 & H3 & H4 & H5). subst.
    exists (y :: pre), z, post. simpl. rewrite H5. repeat split; auto.
Qed.

Lemma list_index_none x l : list_index x l = None -> list_remove x l = None.
Proof.
  induction l as [|y r IH]; simpl; auto.
  destruct (ob_py_eq y x); [discriminate|]. destruct (list_index x r); [discriminate|]. intros _. rewrite IH; auto.
Qed.

Lemma list_insert_app pre x post : list_insert (length pre) x (pre ++ post) = pre ++ x :: post.
Proof. induction pre; simpl; [destruct post; reflexivity | rewrite IHpre; reflexivity]. Qed.

Lemma list_insert_split i x l : exists pre post, l = pre ++ post /\ list_insert i x l = pre ++ x :: post.
Proof.
  revert l. induction i as [|j IH]; intros l; simpl.
  - exists [], l. split; reflexivity.
  - destruct l as [|y r].
    + exists [], []. split; reflexivity.
    + destruct (IH r) as (pre & post & H1 & H2). exists (y :: pre), post. simpl. rewrite H2, <- H1. split; reflexivity.
Qed.

(* ------------------------------------------------------------------ == respects class and key *)
Lemma py_eq_class y x : ob_py_eq y x = true ->
  is_entry_ob y = is_entry_ob x /\ is_string_ob y = is_string_ob x
  /\ ((is_entry_ob x || is_string_ob x) = true -> okey y = okey x).
Proof.
  destruct y as [i a|i h k p d], x as [j b|j h' k' p' d']; simpl; try discriminate.
  - destruct (is_failed_class a && is_failed_class b) eqn:F.
    + apply andb_true_iff in F as [F1 F2]. intros _.
      destruct a; try discriminate F1; destruct b; try discriminate F2; simpl; repeat split; intros; discriminate.
    + destruct a, b; simpl; try discriminate; intros H; repeat split; auto; intros _;
        repeat (apply andb_true_iff in H as [H ?]);
        match goal with E : str_eqb ?a ?b = true |- ?a = ?b => apply str_eqb_eq; exact E | _ => idtac end.
  - intros _. repeat split; auto. discriminate.
Qed.

(* ------------------------------------------------------------------ the representation invariant *)
Definition keyed (bs : list oblock) : list (str * oblock) := map (fun b => (okey b, b)) bs.

Record Rep (l : lib) : Prop := mkRep {
  rep_ents : Permutation (ents l) (keyed (filter is_entry_ob (blocks l)));
  rep_ekeys : NoDup (map okey (filter is_entry_ob (blocks l)));
  rep_strs : Permutation (strs l) (keyed (filter is_string_ob (blocks l)));
  rep_skeys : NoDup (map okey (filter is_string_ob (blocks l)))
}.

Lemma keyed_keys bs : map fst (keyed bs) = map okey bs.
Proof. unfold keyed. rewrite map_map. reflexivity. Qed.

Lemma perm_keys d bs : Permutation d (keyed bs) -> Permutation (map fst d) (map okey bs).
Proof. intros H. rewrite <- keyed_keys. apply Permutation_map. assumption. Qed.

Lemma perm_nodup_keys d bs : Permutation d (keyed bs) -> NoDup (map okey bs) -> NoDup (map fst d).
Proof. intros H N. eapply Permutation_NoDup; [apply Permutation_sym, perm_keys; eassumption | assumption]. Qed.

Lemma rep_empty n : Rep (empty_lib n).
Proof. constructor; simpl; constructor. Qed.

Definition ok_out (o : outcome) : Prop := o = Done \/ o = Raised EValue.

(* every wrapper in the list was made by this library earlier: its identity is below the allocation counter *)
Definition Fresh (l : lib) : Prop := Forall (arg_wf l) (blocks l).

Lemma arg_wf_next l1 l2 z : (next l1 <= next l2)%N -> arg_wf l1 z -> arg_wf l2 z.
Proof. destruct z; simpl; auto. intros. lia. Qed.

(* a block that is neither an entry nor a string does not show in the two filters, wherever it is put *)
Lemma filter_insert_other (p : oblock -> bool) pre x post : p x = false -> filter p (pre ++ x :: post) = filter p (pre ++ post).
Proof. intros H. rewrite !filter_app. simpl. rewrite H. reflexivity. Qed.
Lemma filter_insert_in (p : oblock -> bool) pre x post : p x = true -> filter p (pre ++ x :: post) = filter p pre ++ x :: filter p post.
Proof. intros H. rewrite !filter_app. simpl. rewrite H. reflexivity. Qed.

Lemma entry_not_string b : is_entry_ob b = true -> is_string_ob b = false.
Proof. destruct b as [i x|]; simpl; [destruct x; simpl; auto; discriminate | discriminate]. Qed.

Lemma keyed_app a b : keyed (a ++ b) = keyed a ++ keyed b.
Proof. unfold keyed. apply map_app. Qed.

(* inserting a new keyed block at any position *)
Lemma insert_keyed d (p : oblock -> bool) pre post b :
  Permutation d (keyed (filter p (pre ++ post))) -> NoDup (map okey (filter p (pre ++ post))) ->
  p b = true -> dict_get d (okey b) = None ->
  Permutation (dict_set d (okey b) b) (keyed (filter p (pre ++ b :: post)))
  /\ NoDup (map okey (filter p (pre ++ b :: post))).
Proof.
  intros HP HN Hb Hg. apply dict_get_none in Hg. rewrite dict_set_new by assumption.
  rewrite (filter_insert_in p pre b post Hb). rewrite filter_app in HP, HN.
  set (A := filter p pre) in *. set (B := filter p post) in *.
  split.
  - rewrite keyed_app. simpl. rewrite keyed_app in HP.
    eapply Permutation_trans; [apply Permutation_app_comm|]. simpl. apply Permutation_cons_app. exact HP.
  - rewrite map_app. simpl. rewrite map_app in HN.
    apply (Permutation_NoDup (l := okey b :: (map okey A ++ map okey B))).
    + apply Permutation_cons_app. apply Permutation_refl.
    + constructor; [|assumption]. intros Hin. apply Hg.
      eapply Permutation_in; [apply Permutation_sym, perm_keys; eassumption|].
      rewrite map_app. exact Hin.
Qed.

(* ------------------------------------------------------------------ _cast_to_duplicate / _add_to_dicts *)
Lemma cast_ok l prev b :
  (is_entry_ob prev = true /\ is_entry_ob b = true) \/ (is_string_ob prev = true /\ is_string_ob b = true) ->
  okey prev = okey b ->
  exists i pb di db, prev = OB i pb /\ b = OB di db
    /\ cast_to_duplicate l prev b = Some (ODup (next l) (mkhdr (sl (bhdr db)) (raw (bhdr db)) []) (okey b) (i, pb) (di, db)).
Proof.
  intros Hc Hk. destruct prev as [i pb|], b as [di db|]; simpl in Hc; try (destruct Hc as [[? ?]|[? ?]]; discriminate).
  exists i, pb, di, db. repeat split. unfold cast_to_duplicate. rewrite Hk, str_eqb_refl.
  destruct Hc as [[H1 H2]|[H1 H2]]; rewrite H1, H2; simpl; rewrite ?orb_true_r; reflexivity.
Qed.

Lemma in_keyed k x bs : In (k, x) (keyed bs) -> In x bs /\ okey x = k.
Proof. unfold keyed. intros H. apply in_map_iff in H as [y [E Hy]]. inversion E; subst. auto. Qed.

Definition is_wrapper_of (l : lib) (w b : oblock) : Prop :=
  exists i pb di db, b = OB di db /\ w = ODup (next l) (mkhdr (sl (bhdr db)) (raw (bhdr db)) []) (okey b) (i, pb) (di, db).

Lemma fresh_after_add l l' b b' pre post :
  (b' = b /\ next l' = next l) \/ (is_wrapper_of l b' b /\ l' = bump l) ->
  Forall (arg_wf l) (pre ++ post) -> arg_wf l b -> Fresh (set_blocks l' (pre ++ b' :: post)).
Proof.
  intros Hc HF Hb. unfold Fresh. simpl.
  assert (N : (next l <= next l')%N) by (destruct Hc as [[_ Hc]|[_ Hc]]; [lia | subst l'; simpl; lia]).
  apply Forall_app in HF as [F1 F2]. apply Forall_app. split; [|constructor].
  - eapply Forall_impl; [|exact F1]. intros z Hz. eapply (arg_wf_next l); simpl; eauto.
  - destruct Hc as [[Hc _]|[(i & pb & di & db & E1 & E2) Hc]]; subst.
    + eapply (arg_wf_next l); simpl; eauto.
    + simpl. lia.
  - eapply Forall_impl; [|exact F2]. intros z Hz. eapply (arg_wf_next l); simpl; eauto.
Qed.

(* what _add_to_dicts does to a library satisfying Rep, with the returned block put anywhere into the list *)
Lemma add_to_dicts_rep l b pre post : blocks l = pre ++ post -> Rep l ->
  exists l' b', add_to_dicts l b = inl (l', b') /\ blocks l' = blocks l /\ Rep (set_blocks l' (pre ++ b' :: post))
    /\ ((b' = b /\ next l' = next l) \/ (is_wrapper_of l b' b /\ l' = bump l)).
Proof.
  intros Hbl R. destruct R as [R1 R2 R3 R4]. rewrite Hbl in R1, R2, R3, R4. unfold add_to_dicts.
  destruct (is_entry_ob b) eqn:Eb.
  - destruct (dict_get (ents l) (okey b)) as [prev|] eqn:G.
    + assert (Hin := dict_get_in _ _ _ G). eapply Permutation_in in Hin; [|exact R1].
      apply in_keyed in Hin as [Hin Hk]. apply filter_In in Hin as [_ Hp].
      destruct (cast_ok l prev b (or_introl (conj Hp Eb)) Hk) as (i & pb & di & db & E1 & E2 & E3).
      rewrite E3. eexists _, _. split; [reflexivity|]. split; [reflexivity|]. split.
      * constructor; simpl; rewrite filter_insert_other by reflexivity; assumption.
      * right. split; [|reflexivity]. exists i, pb, di, db. auto.
    + eexists _, _. split; [reflexivity|]. split; [reflexivity|]. split; [|left; auto].
      destruct (insert_keyed _ is_entry_ob pre post b R1 R2 Eb G) as [P1 P2].
      constructor; simpl; auto; rewrite filter_insert_other by (apply entry_not_string; assumption); assumption.
  - destruct (is_string_ob b) eqn:Sb.
    + destruct (dict_get (strs l) (okey b)) as [prev|] eqn:G.
      * assert (Hin := dict_get_in _ _ _ G). eapply Permutation_in in Hin; [|exact R3].
        apply in_keyed in Hin as [Hin Hk]. apply filter_In in Hin as [_ Hp].
        destruct (cast_ok l prev b (or_intror (conj Hp Sb)) Hk) as (i & pb & di & db & E1 & E2 & E3).
        rewrite E3. eexists _, _. split; [reflexivity|]. split; [reflexivity|]. split.
        -- constructor; simpl; rewrite filter_insert_other by reflexivity; assumption.
        -- right. split; [|reflexivity]. exists i, pb, di, db. auto.
      * eexists _, _. split; [reflexivity|]. split; [reflexivity|]. split; [|left; auto].
        destruct (insert_keyed _ is_string_ob pre post b R3 R4 Sb G) as [P1 P2].
        constructor; simpl; auto; rewrite filter_insert_other by assumption; assumption.
    + eexists _, _. split; [reflexivity|]. split; [reflexivity|]. split; [|left; auto].
      constructor; simpl; rewrite filter_insert_other by assumption; assumption.
Qed.

(* ------------------------------------------------------------------ remove *)
Lemma dict_del_perm {V} (d : list (str * V)) k v : NoDup (map fst d) -> In (k, v) d -> Permutation d ((k, v) :: dict_del d k).
Proof.
  induction d as [|[k' v'] r IH]; simpl; intros N Hin; [contradiction|].
  inversion N as [|x l Hn Hr]; subst.
  destruct (str_eqb k k') eqn:E.
  - apply str_eqb_eq in E. subst. destruct Hin as [Hin|Hin].
    + inversion Hin; subst. apply Permutation_refl.
    + exfalso. apply Hn. change k' with (fst (k', v)). apply in_map. assumption.
  - destruct Hin as [Hin|Hin].
    + inversion Hin; subst. rewrite str_eqb_refl in E. discriminate.
    + eapply Permutation_trans; [apply perm_skip, IH; assumption | apply perm_swap].
Qed.

Lemma remove_keyed d (p : oblock -> bool) pre y post :
  Permutation d (keyed (filter p (pre ++ y :: post))) -> NoDup (map okey (filter p (pre ++ y :: post))) -> p y = true ->
  dict_has d (okey y) = true /\ Permutation (dict_del d (okey y)) (keyed (filter p (pre ++ post)))
  /\ NoDup (map okey (filter p (pre ++ post))).
Proof.
  intros HP HN Hy. assert (Nd := perm_nodup_keys _ _ HP HN).
  rewrite (filter_insert_in p pre y post Hy) in HP, HN. rewrite filter_app.
  set (A := filter p pre) in *. set (B := filter p post) in *.
  rewrite keyed_app in HP. simpl in HP.
  assert (Hin : In (okey y, y) d).
  { eapply Permutation_in; [apply Permutation_sym; exact HP|]. apply in_or_app. right. left. reflexivity. }
  split; [|split].
  - unfold dict_has. destruct (dict_get d (okey y)) eqn:G; [reflexivity|].
    apply dict_get_none in G. exfalso. apply G. change (okey y) with (fst (okey y, y)). apply in_map. assumption.
  - rewrite keyed_app. apply (Permutation_cons_inv (a := (okey y, y))).
    eapply Permutation_trans; [apply Permutation_sym, dict_del_perm; assumption|].
    eapply Permutation_trans; [exact HP|]. apply Permutation_sym, Permutation_middle.
  - rewrite map_app in *. simpl in HN. apply NoDup_remove_1 in HN. assumption.
Qed.

Lemma remove_one_rep l b : Rep l ->
  exists l' o, remove_one l b = (l', o) /\ Rep l' /\ next l' = next l
    /\ ((o = Done /\ removes_first b (blocks l) (blocks l') /\ list_remove b (blocks l) = Some (blocks l')
         /\ ents l' = (if is_entry_ob b then dict_del (ents l) (okey b) else ents l)
         /\ strs l' = (if is_entry_ob b then strs l else if is_string_ob b then dict_del (strs l) (okey b) else strs l))
        \/ (o = Raised EValue /\ l' = l /\ list_remove b (blocks l) = None)).
Proof.
  intros R. unfold remove_one. destruct (list_remove b (blocks l)) as [bl|] eqn:LR.
  2:{ eexists _, _. split; [reflexivity|]. split; [assumption|]. split; [reflexivity|]. right. auto. }
  assert (RF := list_remove_split _ _ _ LR). destruct RF as (pre & y & post & Hbl & Hy & Hpre & Hbl').
  destruct (py_eq_class _ _ Hy) as (C1 & C2 & C3).
  destruct R as [R1 R2 R3 R4]. rewrite Hbl in R1, R2, R3, R4.
  assert (RF : removes_first b (blocks l) bl) by (exists pre, y, post; auto).
  destruct (is_entry_ob b) eqn:Eb.
  - rewrite <- (C3 eq_refl). destruct (remove_keyed _ is_entry_ob pre y post R1 R2 C1) as (H1 & H2 & H3).
    simpl. rewrite H1. eexists _, _. split; [reflexivity|]. split; [|split; [reflexivity|left; simpl; auto]].
    subst bl. constructor; simpl; auto;
      rewrite (filter_insert_other is_string_ob pre y post) in * by (apply entry_not_string; assumption); assumption.
  - destruct (is_string_ob b) eqn:Sb.
    + rewrite <- (C3 eq_refl). destruct (remove_keyed _ is_string_ob pre y post R3 R4 C2) as (H1 & H2 & H3).
      simpl. rewrite H1. eexists _, _. split; [reflexivity|]. split; [|split; [reflexivity|left; simpl; auto]].
      subst bl. constructor; simpl; auto; rewrite (filter_insert_other is_entry_ob pre y post) in * by assumption; assumption.
    + eexists _, _. split; [reflexivity|]. split; [|split; [reflexivity|left; simpl; auto]].
      subst bl. constructor; simpl;
        rewrite ?(filter_insert_other is_entry_ob pre y post) in * by assumption;
        rewrite ?(filter_insert_other is_string_ob pre y post) in * by assumption; assumption.
Qed.

Lemma remove_loop_rep bs : forall l, Rep l -> validate_remove bs (blocks l) = true ->
  exists l', remove_loop l bs = (l', Done) /\ Rep l' /\ next l' = next l /\ removes_all bs (blocks l) (blocks l').
Proof.
  induction bs as [|b r IH]; intros l R V; simpl.
  - exists l. auto.
  - destruct (remove_one_rep l b R) as (l1 & o & E & R1 & N1 & [(Ho & RF & LR & _)|(Ho & El & LR)]).
    + rewrite E, Ho. simpl in V. rewrite LR in V. destruct (IH l1 R1 V) as (l2 & E2 & R2 & N2 & RA).
      exists l2. rewrite E2. split; [reflexivity|]. split; [assumption|]. split; [congruence|]. exists (blocks l1); auto.
    + simpl in V. rewrite LR in V. discriminate.
Qed.

Lemma remove_rep l bs : Rep l ->
  exists l' o, remove l bs = (l', o) /\ Rep l' /\ next l' = next l
    /\ ((o = Done /\ removes_all bs (blocks l) (blocks l')) \/ (o = Raised EValue /\ l' = l)).
Proof.
  intros R. unfold remove. destruct (validate_remove bs (blocks l)) eqn:V.
  - destruct (remove_loop_rep bs l R V) as (l' & E & R' & N & RA). exists l', Done. rewrite E.
    split; [reflexivity|]. split; [assumption|]. split; [assumption|]. left. auto.
  - exists l, (Raised EValue). split; [reflexivity|]. split; [assumption|]. split; [reflexivity|]. right. auto.
Qed.

(* remove(old) for a block that list.index found *)
Lemma remove_single l old bl : Rep l -> list_remove old (blocks l) = Some bl ->
  exists l1, remove l [old] = (l1, Done) /\ Rep l1 /\ next l1 = next l /\ blocks l1 = bl
    /\ ents l1 = (if is_entry_ob old then dict_del (ents l) (okey old) else ents l)
    /\ strs l1 = (if is_entry_ob old then strs l else if is_string_ob old then dict_del (strs l) (okey old) else strs l).
Proof.
  intros R LR. unfold remove. simpl. rewrite LR.
  destruct (remove_one_rep l old R) as (l1 & o & E & R1 & N1 & [(Ho & RF & LR' & He & Hs)|(Ho & El & LR')]).
  - rewrite E, Ho. exists l1. split; [reflexivity|]. split; [assumption|]. split; [assumption|].
    split; [congruence|]. split; assumption.
  - congruence.
Qed.

(* ------------------------------------------------------------------ add *)
Lemma wrapper_placed l w b : is_wrapper_of l w b -> placed w b.
Proof. intros (i & pb & di & db & E1 & E2). right. exists (next l), (mkhdr (sl (bhdr db)) (raw (bhdr db)) []), (i, pb), di, db. auto. Qed.

Lemma add_loop_rep bs : forall l added, Rep l ->
  exists l' added', add_loop l bs added = inl (l', added ++ added') /\ Rep l' /\ blocks l' = blocks l ++ added'
    /\ Forall2 placed added' bs /\ (next l <= next l')%N /\ (Fresh l -> Forall (arg_wf l) bs -> Fresh l').
Proof.
  induction bs as [|b r IH]; intros l added R; simpl.
  - exists l, []. rewrite !app_nil_r. split; [reflexivity|]. split; [assumption|]. split; [reflexivity|]. split; [constructor|].
    split; [lia | auto].
  - destruct (add_to_dicts_rep l b (blocks l) [] (eq_sym (app_nil_r _)) R) as (l1 & b' & E & Hb & R1 & Hc).
    rewrite E. rewrite Hb.
    destruct (IH (set_blocks l1 (blocks l ++ [b'])) (added ++ [b']) R1) as (l2 & added2 & E2 & R2 & B2 & F2 & N2 & Fr2).
    assert (N1 : (next l <= next l1)%N) by (destruct Hc as [[_ Hc']|[_ Hc']]; [lia | subst l1; simpl; lia]).
    exists l2, (b' :: added2). rewrite E2. simpl in B2, N2. rewrite <- !app_assoc in *. simpl in *.
    split; [reflexivity|]. split; [assumption|]. split; [assumption|]. split; [|split].
    + constructor; [|assumption]. destruct Hc as [[Hc _]|[Hc _]]; [left; assumption | eapply wrapper_placed; eassumption].
    + lia.
    + intros Fr Ha. inversion Ha as [|? ? Hb' Hr]; subst. apply Fr2.
      * apply (fresh_after_add l l1 b b' (blocks l) []); auto. rewrite app_nil_r. exact Fr.
      * eapply Forall_impl; [|exact Hr]. intros z Hz. eapply (arg_wf_next l); simpl; eauto.
Qed.

Lemma add_rep l bs f : Rep l ->
  exists l' o, add l bs f = (l', o) /\ Rep l' /\ ok_out o /\ (f = false -> o = Done) /\ (next l <= next l')%N
    /\ (Fresh l -> Forall (arg_wf l) bs -> Fresh l')
    /\ exists added, blocks l' = blocks l ++ added /\ Forall2 placed added bs.
Proof.
  intros R. unfold add. destruct (add_loop_rep bs l [] R) as (l' & added & E & R' & B & F & N & Fr). rewrite E. simpl.
  destruct f.
  - destruct (duplicate_keys bs added); eexists _, _; (split; [reflexivity|]); split; auto; split;
      try (left; reflexivity); try (right; reflexivity); (split; [discriminate|]); split; eauto.
  - eexists _, _. split; [reflexivity|]. split; auto. split; [left; reflexivity|]. split; auto. split; eauto.
Qed.

(* ------------------------------------------------------------------ replace *)
Lemma replace_core_spec l old new : Rep l ->
  match list_index old (blocks l) with
  | None => replace_core l old new = inr (l, EValue)
  | Some _ =>
      exists pre y post l1 l2 b',
        blocks l = pre ++ y :: post /\ ob_py_eq y old = true /\ Forall (fun z => ob_py_eq z old = false) pre
        /\ Rep l1 /\ next l1 = next l /\ blocks l1 = pre ++ post
        /\ ents l1 = (if is_entry_ob old then dict_del (ents l) (okey old) else ents l)
        /\ strs l1 = (if is_entry_ob old then strs l else if is_string_ob old then dict_del (strs l) (okey old) else strs l)
        /\ add_to_dicts l1 new = inl (l2, b') /\ blocks l2 = blocks l1
        /\ ((b' = new /\ next l2 = next l1) \/ (is_wrapper_of l1 b' new /\ l2 = bump l1))
        /\ replace_core l old new = inl (set_blocks l2 (pre ++ b' :: post), b')
        /\ Rep (set_blocks l2 (pre ++ b' :: post))
        /\ (Fresh l -> arg_wf l new -> Fresh (set_blocks l2 (pre ++ b' :: post)))
  end.
Proof.
  intros R. unfold replace_core. destruct (list_index old (blocks l)) as [idx|] eqn:LI; [|reflexivity].
  destruct (list_index_remove _ _ _ LI) as (pre & y & post & Hbl & Hlen & Hy & Hpre & LR).
  destruct (remove_single l old _ R LR) as (l1 & E1 & R1 & N1 & B1 & He & Hs).
  destruct (add_to_dicts_rep l1 new pre post B1 R1) as (l2 & b' & E2 & B2 & R2 & Hc).
  exists pre, y, post, l1, l2, b'.
  repeat (split; [assumption|]). split; [|split; [assumption|]].
  - rewrite E1, E2. rewrite B2, B1, <- Hlen, list_insert_app. reflexivity.
  - intros Fr Hn. unfold Fresh in Fr. rewrite Hbl in Fr. apply Forall_app in Fr as [F1 F2]. inversion F2 as [|? ? _ F3]; subst.
    apply (fresh_after_add l1 l2 new b' pre post Hc).
    + apply Forall_app. split; (eapply Forall_impl; [|eassumption]); intros z Hz; apply (arg_wf_next l); auto; lia.
    + apply (arg_wf_next l); auto; lia.
Qed.

Lemma replace_rep l old new f : Rep l ->
  exists l' o, replace l old new f = (l', o) /\ Rep l' /\ ok_out o /\ (next l <= next l')%N
    /\ (o = Done -> exists pre y post x, blocks l = pre ++ y :: post /\ ob_py_eq y old = true
                      /\ Forall (fun z => ob_py_eq z old = false) pre /\ blocks l' = pre ++ x :: post /\ placed x new).
Proof.
  intros R. unfold replace. pose proof (replace_core_spec l old new R) as S.
  destruct (list_index old (blocks l)) as [idx|].
  2:{ rewrite S. eexists _, _. split; [reflexivity|]. split; [assumption|]. split; [right; reflexivity|]. split; [lia | discriminate]. }
  destruct S as (pre & y & post & l1 & l2 & b' & Hbl & Hy & Hpre & R1 & N1 & B1 & He & Hs & E2 & B2 & Hc & E & R3 & Fr3).
  rewrite E.
  assert (N3 : (next l <= next (set_blocks l2 (pre ++ b' :: post)))%N).
  { simpl. destruct Hc as [[_ Hc]|[_ Hc]]; [lia | subst l2; simpl; lia]. }
  destruct (negb (oid_of new =? oid_of b')%N && is_dup_ob b' && f).
  - unfold replace_nofail. pose proof (replace_core_spec (set_blocks l2 (pre ++ b' :: post)) b' old R3) as S'.
    destruct (list_index b' (blocks (set_blocks l2 (pre ++ b' :: post)))).
    + destruct S' as (pre' & y' & post' & l1' & l2' & b'' & _ & _ & _ & _ & N1' & _ & _ & _ & _ & _ & Hc' & E' & R' & Fr').
      rewrite E'. eexists _, _. split; [reflexivity|]. split; [assumption|]. split; [right; reflexivity|]. split; [|discriminate].
      simpl in *. destruct Hc' as [[_ Hc']|[_ Hc']]; [lia | subst l2'; simpl; lia].
    + rewrite S'. eexists _, _. split; [reflexivity|]. split; [assumption|]. split; [right; reflexivity|]. split; [assumption | discriminate].
  - eexists _, _. split; [reflexivity|]. split; [assumption|]. split; [left; reflexivity|]. split; [assumption|].
    intros _. exists pre, y, post, b'. repeat (split; [assumption|]). split; [reflexivity|].
    destruct Hc as [[Hc _]|[Hc _]]; [left; assumption | eapply wrapper_placed; eassumption].
Qed.

(* ------------------------------------------------------------------ every history *)
Lemma apply_rep l o : Rep l -> Rep (fst (apply l o)) /\ ok_out (snd (apply l o)) /\ (next l <= next (fst (apply l o)))%N.
Proof.
  intros R. destruct o as [bs f|bs|old new f]; simpl.
  - destruct (add_rep l bs f R) as (l' & o & E & R' & O & _ & N & _ & _). rewrite E. auto.
  - destruct (remove_rep l bs R) as (l' & o & E & R' & N & [[O _]|[O _]]); rewrite E; simpl; subst o; unfold ok_out;
      (split; [assumption|]); split; auto; lia.
  - destruct (replace_rep l old new f R) as (l' & o & E & R' & O & N & _). rewrite E. auto.
Qed.

Lemma run_rep ops : forall l, Rep l -> Rep (fst (run ops l)) /\ Forall ok_out (snd (run ops l)).
Proof.
  induction ops as [|o r IH]; intros l R; simpl; auto.
  destruct (apply_rep l o R) as (R1 & O1 & _). destruct (apply l o) as [l1 x]. simpl in *.
  destruct (IH l1 R1) as [R2 O2]. destruct (run r l1) as [l2 xs]. simpl in *. auto.
Qed.

Lemma reachable_rep l : reachable l -> Rep l.
Proof. induction 1 as [n|l o _ IH _]; [apply rep_empty | apply apply_rep; assumption]. Qed.

(* ------------------------------------------------------------------ Rep gives the readable invariant *)
Lemma partition5 bl :
  Permutation (filter is_entry_ob bl ++ filter is_string_ob bl ++ filter is_preamble_ob bl ++ filter is_comment_ob bl
               ++ filter is_failed_ob bl) bl.
Proof.
  induction bl as [|b r IH]; simpl; [constructor|].
  destruct b as [i x|i h k p d]; [destruct x|]; simpl;
    try (apply perm_skip; exact IH);
    apply Permutation_sym;
    repeat rewrite app_assoc;
    apply Permutation_cons_app; repeat rewrite <- app_assoc; apply Permutation_sym; exact IH.
Qed.

Lemma maps_exactly_keyed d hs : Permutation d (keyed hs) -> NoDup (map okey hs) -> maps_exactly d hs.
Proof.
  intros P N. assert (Nd := perm_nodup_keys _ _ P N). split; [assumption|]. intros k b. split.
  - intros G. apply dict_get_in in G. eapply Permutation_in in G; [|exact P]. apply in_keyed in G. assumption.
  - intros [Hin Hk]. apply dict_get_nodup; [assumption|]. eapply Permutation_in; [apply Permutation_sym; exact P|].
    subst k. unfold keyed. apply in_map_iff. exists b. auto.
Qed.

Lemma keyed_values hs : map snd (keyed hs) = hs.
Proof. unfold keyed. rewrite map_map. simpl. apply map_id. Qed.

Lemma rep_inv l : Rep l -> Inv l.
Proof.
  intros [R1 R2 R3 R4]. unfold Inv, held_entries, held_strings, v_entries, v_entries_dict, v_strings_dict, v_strings,
    v_preambles, v_comments, v_failed, v_blocks.
  split; [reflexivity|]. split; [apply maps_exactly_keyed; assumption|]. split; [apply maps_exactly_keyed; assumption|].
  split; [assumption|]. split; [assumption|]. split; [reflexivity|]. split; [|auto].
  apply partition5.
Qed.

Lemma inv_reachable l : reachable l -> Inv l.
Proof. intros H. apply rep_inv, reachable_rep, H. Qed.

(* no validity condition at all is needed for the invariant, and nothing but ValueError is ever raised *)
Lemma inv_any_history ops n :
  Inv (fst (run ops (empty_lib n))) /\ Forall (fun o => o = Done \/ o = Raised EValue) (snd (run ops (empty_lib n))).
Proof. destruct (run_rep ops (empty_lib n) (rep_empty n)) as [R O]. split; [apply rep_inv; assumption | exact O]. Qed.

(* ------------------------------------------------------------------ freshness of wrapper identities is kept *)
Lemma removes_all_incl bs : forall bl bl', removes_all bs bl bl' -> incl bl' bl.
Proof.
  induction bs as [|b r IH]; simpl; intros bl bl' H.
  - subst. apply incl_refl.
  - destruct H as (mid & (pre & y & post & E1 & _ & _ & E2) & H2). apply IH in H2. subst.
    intros z Hz. apply H2 in Hz. apply in_app_or in Hz. apply in_or_app. destruct Hz; [left | right; right]; assumption.
Qed.

Lemma remove_fresh l bs : Rep l -> Fresh l -> Fresh (fst (remove l bs)).
Proof.
  intros R Fr. destruct (remove_rep l bs R) as (l' & o & E & _ & N & [[_ RA]|[_ El]]); rewrite E; simpl; [|subst; assumption].
  apply removes_all_incl in RA. unfold Fresh in *. rewrite Forall_forall in *. intros z Hz.
  apply (arg_wf_next l); [lia | apply Fr, RA, Hz].
Qed.

Lemma replace_fresh l old new f : Rep l -> Fresh l -> arg_wf l old -> arg_wf l new -> Fresh (fst (replace l old new f)).
Proof.
  intros R Fr Ho Hn. unfold replace. pose proof (replace_core_spec l old new R) as S.
  destruct (list_index old (blocks l)) as [idx|]; [|rewrite S; assumption].
  destruct S as (pre & y & post & l1 & l2 & b' & Hbl & Hy & Hpre & R1 & N1 & B1 & He & Hs & E2 & B2 & Hc & E & R3 & Fr3).
  rewrite E. specialize (Fr3 Fr Hn).
  assert (N3 : (next l <= next (set_blocks l2 (pre ++ b' :: post)))%N).
  { simpl. destruct Hc as [[_ Hc]|[_ Hc]]; [lia | subst l2; simpl; lia]. }
  destruct (negb (oid_of new =? oid_of b')%N && is_dup_ob b' && f); [|assumption].
  unfold replace_nofail. pose proof (replace_core_spec (set_blocks l2 (pre ++ b' :: post)) b' old R3) as S'.
  destruct (list_index b' (blocks (set_blocks l2 (pre ++ b' :: post)))).
  - destruct S' as (pre' & y' & post' & l1' & l2' & b'' & _ & _ & _ & _ & _ & _ & _ & _ & _ & _ & _ & E' & _ & Fr').
    rewrite E'. simpl. apply Fr'; [assumption|]. eapply arg_wf_next; eassumption.
  - rewrite S'. assumption.
Qed.

Lemma apply_fresh l o : Rep l -> Fresh l -> op_wf l o -> Fresh (fst (apply l o)).
Proof.
  intros R Fr W. destruct o as [bs f|bs|old new f]; simpl in *.
  - destruct (add_rep l bs f R) as (l' & o & E & _ & _ & _ & _ & Fr' & _). rewrite E. simpl. auto.
  - apply remove_fresh; assumption.
  - destruct W. apply replace_fresh; assumption.
Qed.

Lemma reachable_fresh l : reachable l -> Fresh l.
Proof.
  induction 1 as [n|l o H IH W]; [constructor|]. apply apply_fresh; auto. apply reachable_rep; assumption.
Qed.

(* ------------------------------------------------------------------ raise-atomicity *)
Lemma dict_get_del_same {V} (d : list (str * V)) k : NoDup (map fst d) -> dict_get (dict_del d k) k = None.
Proof.
  induction d as [|[k1 v1] r IH]; simpl; intros N; auto. inversion N as [|x l Hn Hr]; subst.
  destruct (str_eqb k k1) eqn:E.
  - apply str_eqb_eq in E. subst. apply dict_get_none. assumption.
  - simpl. rewrite E. auto.
Qed.
Lemma dict_get_del_other {V} (d : list (str * V)) k k' : k' <> k -> dict_get (dict_del d k) k' = dict_get d k'.
Proof.
  intros Hne. induction d as [|[k1 v1] r IH]; simpl; auto.
  destruct (str_eqb k k1) eqn:E.
  - apply str_eqb_eq in E. subst. destruct (str_eqb k' k1) eqn:E'; auto. apply str_eqb_eq in E'. contradiction.
  - simpl. destruct (str_eqb k' k1); auto.
Qed.
Lemma dict_get_set_same {V} (d : list (str * V)) k v : dict_get (dict_set d k v) k = Some v.
Proof.
  induction d as [|[k1 v1] r IH]; simpl; [rewrite str_eqb_refl; reflexivity|].
  destruct (str_eqb k k1) eqn:E; simpl; rewrite E; auto.
Qed.
Lemma dict_get_set_other {V} (d : list (str * V)) k k' v : k' <> k -> dict_get (dict_set d k v) k' = dict_get d k'.
Proof.
  intros Hne. induction d as [|[k1 v1] r IH]; simpl.
  - apply str_eqb_neq in Hne. rewrite Hne. reflexivity.
  - destruct (str_eqb k k1) eqn:E; simpl.
    + apply str_eqb_eq in E. subst. destruct (str_eqb k' k1) eqn:E'; auto. apply str_eqb_eq in E'. contradiction.
    + destruct (str_eqb k' k1); auto.
Qed.

Lemma forall2_ob_eq_refl bl : Forall2 ob_eq bl bl.
Proof. induction bl; constructor; auto. left; reflexivity. Qed.
Lemma dict_equal_refl d : dict_equal d d.
Proof. intros k. destruct (dict_get d k); auto. left; reflexivity. Qed.
(* equality of the state: the block list and the two indexes; all eight views follow (core_lib_equal) *)
Definition core_equal (before after : lib) : Prop :=
  Forall2 ob_eq (blocks before) (blocks after)
  /\ dict_equal (ents before) (ents after) /\ dict_equal (strs before) (strs after).
Lemma core_equal_refl l : core_equal l l.
Proof. split; [apply forall2_ob_eq_refl | split; apply dict_equal_refl]. Qed.

(* == respects the five class tests, so the filtered views of equal block lists are equal *)
Lemma ob_eq_classes a b : ob_eq a b ->
  is_entry_ob a = is_entry_ob b /\ is_string_ob a = is_string_ob b /\ is_preamble_ob a = is_preamble_ob b
  /\ is_comment_ob a = is_comment_ob b /\ is_failed_ob a = is_failed_ob b.
Proof.
  intros [E|E]; [subst; repeat split|].
  destruct a as [i x|i h k p d], b as [j y|j h' k' p' d']; simpl in E; try discriminate E; [|repeat split].
  destruct (is_failed_class x && is_failed_class y) eqn:F.
  - apply andb_true_iff in F as [F1 F2].
    destruct x; try discriminate F1; destruct y; try discriminate F2; simpl; repeat split.
  - destruct x, y; simpl in E, F; try discriminate E; try discriminate F; simpl; repeat split.
Qed.

Lemma filter_equal (p : oblock -> bool) bl bl' :
  (forall a b, ob_eq a b -> p a = p b) -> Forall2 ob_eq bl bl' -> Forall2 ob_eq (filter p bl) (filter p bl').
Proof.
  intros Hp H. induction H as [|x y l l' Hxy H IH]; simpl; [constructor|].
  rewrite (Hp x y Hxy). destruct (p y); [constructor|]; assumption.
Qed.

Lemma core_lib_equal a b : core_equal a b -> lib_equal a b.
Proof.
  intros (HB & HE & HS). unfold lib_equal, list_equal, v_blocks, v_entries, v_entries_dict, v_strings, v_strings_dict,
    v_preambles, v_comments, v_failed.
  split; [assumption|]. split; [apply filter_equal; [intros x y H; apply ob_eq_classes in H; tauto | assumption]|].
  split; [assumption|]. split; [apply filter_equal; [intros x y H; apply ob_eq_classes in H; tauto | assumption]|].
  split; [assumption|].
  repeat split; (apply filter_equal; [intros x y H; apply ob_eq_classes in H; tauto | assumption]).
Qed.

(* the dict after the rollback: the key of the removed block now maps to the caller's block, which is == to it *)
Lemma dict_equal_readd d k y old : NoDup (map fst d) -> dict_get d k = Some y -> ob_py_eq y old = true ->
  dict_equal d (dict_set (dict_del d k) k old).
Proof.
  intros N G Hy k'. destruct (str_eqb k' k) eqn:E.
  - apply str_eqb_eq in E. subst. rewrite G, dict_get_set_same. right. assumption.
  - apply str_eqb_neq in E. rewrite dict_get_set_other, dict_get_del_other by assumption.
    destruct (dict_get d k'); auto. left; reflexivity.
Qed.

(* the fresh wrapper is found at the position where it was inserted *)
Lemma find_fresh_wrapper l pre post h k p d :
  Forall (arg_wf l) pre ->
  let W := ODup (next l) h k p d in
  list_index W (pre ++ W :: post) = Some (length pre) /\ list_remove W (pre ++ W :: post) = Some (pre ++ post).
Proof.
  intros HF W. induction HF as [|z r Hz HF IH]; simpl.
  - rewrite N.eqb_refl. auto.
  - destruct IH as [I1 I2]. rewrite I1, I2.
    assert (E : ob_py_eq z W = false).
    { destruct z as [i x|i h' k' p' d']; simpl; auto. simpl in Hz. apply N.eqb_neq. lia. }
    rewrite E. auto.
Qed.

Lemma held_key_lookup d (p : oblock -> bool) pre y post :
  Permutation d (keyed (filter p (pre ++ y :: post))) -> NoDup (map okey (filter p (pre ++ y :: post))) -> p y = true ->
  NoDup (map fst d) /\ dict_get d (okey y) = Some y.
Proof.
  intros HP HN Hy. assert (Nd := perm_nodup_keys _ _ HP HN). split; [assumption|].
  apply dict_get_nodup; [assumption|]. eapply Permutation_in; [apply Permutation_sym; exact HP|].
  rewrite (filter_insert_in p pre y post Hy), keyed_app. apply in_or_app. right. left. reflexivity.
Qed.

Lemma forall2_mid pre y old post : ob_py_eq y old = true -> Forall2 ob_eq (pre ++ y :: post) (pre ++ old :: post).
Proof.
  intros H. apply Forall2_app; [apply forall2_ob_eq_refl|]. constructor; [right; assumption | apply forall2_ob_eq_refl].
Qed.

Lemma replace_atomic l old new f : Rep l -> Fresh l ->
  snd (replace l old new f) = Raised EValue -> core_equal l (fst (replace l old new f)).
Proof.
  intros R Fr. unfold replace. pose proof (replace_core_spec l old new R) as S.
  destruct (list_index old (blocks l)) as [idx|]; [|rewrite S; intros _; apply core_equal_refl].
  destruct S as (pre & y & post & l1 & l2 & b' & Hbl & Hy & Hpre & R1 & N1 & B1 & He & Hs & E2 & B2 & Hc & E & R3 & _).
  rewrite E. destruct (negb (oid_of new =? oid_of b')%N && is_dup_ob b' && f) eqn:C; [|simpl; discriminate].
  apply andb_true_iff in C as [C Cf]. apply andb_true_iff in C as [Co Cd].
  destruct Hc as [[Hc _]|[(i & pb & di & db & En & Ew) Hl2]].
  { subst b'. rewrite N.eqb_refl in Co. discriminate. }
  subst l2 b'. 
  assert (FW := find_fresh_wrapper l1 pre post (mkhdr (sl (bhdr db)) (raw (bhdr db)) []) (okey new) (i, pb) (di, db)).
  assert (Fpre : Forall (arg_wf l1) pre).
  { unfold Fresh in Fr. rewrite Hbl in Fr. apply Forall_app in Fr as [F1 _]. eapply Forall_impl; [|exact F1].
    intros z Hz. apply (arg_wf_next l); auto; lia. }
  specialize (FW Fpre). cbv zeta in FW. destruct FW as [FI FR].
  set (W := ODup (next l1) (mkhdr (sl (bhdr db)) (raw (bhdr db)) []) (okey new) (i, pb) (di, db)) in *.
  set (l3 := set_blocks (bump l1) (pre ++ W :: post)) in *.
  destruct (remove_single l3 W (pre ++ post) R3 FR) as (l4 & E4 & R4 & N4 & B4 & He4 & Hs4).
  simpl in He4, Hs4.
  unfold replace_nofail, replace_core. change (blocks l3) with (pre ++ W :: post). rewrite FI, E4.
  destruct (py_eq_class _ _ Hy) as (C1 & C2 & C3).
  destruct R as [Q1 Q2 Q3 Q4]. rewrite Hbl in Q1, Q2, Q3, Q4.
  unfold add_to_dicts. destruct (is_entry_ob old) eqn:Eb.
  - destruct (held_key_lookup _ is_entry_ob pre y post Q1 Q2 C1) as [Nd G].
    rewrite (C3 eq_refl) in G.
    rewrite He4, He, dict_get_del_same by assumption. simpl. rewrite B4, list_insert_app. intros _.
    split; [|split]; simpl.
    + rewrite Hbl. apply forall2_mid. assumption.
    + rewrite ?He4, ?He. apply (dict_equal_readd _ _ y); assumption.
    + rewrite ?Hs4, ?Hs. apply dict_equal_refl.
  - destruct (is_string_ob old) eqn:Sb.
    + destruct (held_key_lookup _ is_string_ob pre y post Q3 Q4 C2) as [Nd G].
      rewrite (C3 eq_refl) in G.
      rewrite Hs4, Hs, dict_get_del_same by assumption. simpl. rewrite B4, list_insert_app. intros _.
      split; [|split]; simpl.
      * rewrite Hbl. apply forall2_mid. assumption.
      * rewrite ?He4, ?He. apply dict_equal_refl.
      * rewrite ?Hs4, ?Hs. apply (dict_equal_readd _ _ y); assumption.
    + simpl. rewrite B4, list_insert_app. intros _.
      split; [|split]; simpl.
      * rewrite Hbl. apply forall2_mid. assumption.
      * rewrite ?He4, ?He. apply dict_equal_refl.
      * rewrite ?Hs4, ?Hs. apply dict_equal_refl.
Qed.

Lemma raise_atomic l o : reachable l -> ~ known_K1 o -> snd (apply l o) = Raised EValue -> lib_equal l (fst (apply l o)).
Proof.
  intros Hr HK. assert (R := reachable_rep l Hr). assert (Fr := reachable_fresh l Hr). intros H. apply core_lib_equal. revert H.
  destruct o as [bs f|bs|old new f]; simpl.
  - destruct f; [exfalso; apply HK; exists bs; reflexivity|].
    destruct (add_rep l bs false R) as (l' & o & E & _ & _ & Hd & _). rewrite E. simpl. rewrite (Hd eq_refl). discriminate.
  - destruct (remove_rep l bs R) as (l' & o & E & _ & _ & [[Ho _]|[_ El]]); rewrite E; simpl.
    + subst o. discriminate.
    + subst l'. intros _. apply core_equal_refl.
  - apply replace_atomic; assumption.
Qed.

(* strings: always the String blocks in block order, and a raising call (other than K1) keeps that order *)
Lemma strings_order l : reachable l ->
  v_strings l = filter is_string_ob (blocks l)
  /\ forall o, ~ known_K1 o -> snd (apply l o) = Raised EValue -> list_equal (v_strings l) (v_strings (fst (apply l o))).
Proof.
  intros Hr. split; [reflexivity|]. intros o HK H. destruct (raise_atomic l o Hr HK H) as (_ & _ & _ & HS & _). exact HS.
Qed.

Lemma order l : reachable l ->
  (forall bs f, exists added, blocks (fst (add l bs f)) = blocks l ++ added /\ Forall2 placed added bs)
  /\ (forall bs, snd (remove l bs) = Done -> removes_all bs (blocks l) (blocks (fst (remove l bs))))
  /\ (forall old new f, snd (replace l old new f) = Done ->
        exists pre y post x, blocks l = pre ++ y :: post /\ ob_py_eq y old = true
          /\ Forall (fun z => ob_py_eq z old = false) pre
          /\ blocks (fst (replace l old new f)) = pre ++ x :: post /\ placed x new).
Proof.
  intros Hr. assert (R := reachable_rep l Hr). split; [|split].
  - intros bs f. destruct (add_rep l bs f R) as (l' & o & E & _ & _ & _ & _ & _ & A). rewrite E. exact A.
  - intros bs. destruct (remove_rep l bs R) as (l' & o & E & _ & _ & [[_ RA]|[Ho _]]); rewrite E; simpl; [auto | subst o; discriminate].
  - intros old new f. destruct (replace_rep l old new f R) as (l' & o & E & _ & _ & _ & A). rewrite E. simpl. exact A.
Qed.

Lemma forall2_len {A B} (R : A -> B -> Prop) l m : Forall2 R l m -> List.length l = List.length m.
Proof. induction 1; simpl; auto. Qed.

(* ------------------------------------------------------------------ witnesses *)
From Coq Require Import String.
Definition w_e0 : oblock := OB 0 (BEntry hdr0 (lit "article"%string) (lit "a"%string) []).
Definition w_e1 : oblock := OB 1 (BEntry hdr0 (lit "book"%string) (lit "a"%string) []).
Definition w_lib1 : lib := fst (apply (empty_lib 1000) (LAdd [w_e0] false)).
Definition w_op1 : lop := LAdd [w_e1] true.

Lemma w_lib1_reachable : reachable w_lib1.
Proof. apply reach_step; [apply reach_empty|]. simpl. repeat constructor. Qed.

(* K1: add(dup, fail_on_duplicate_key=True) raises ValueError after appending the wrapper *)
Lemma atomic_refuted : exists l o, reachable l /\ op_wf l o /\ snd (apply l o) = Raised EValue /\ ~ lib_equal l (fst (apply l o)).
Proof.
  exists w_lib1, w_op1. split; [apply w_lib1_reachable|]. split; [simpl; repeat constructor|].
  split; [vm_compute; reflexivity|]. intros [H _]. unfold list_equal in H. apply forall2_len in H. vm_compute in H. discriminate.
Qed.

Definition w_s0 : oblock := OB 0 (BString hdr0 (lit "a"%string) (VStr (lit "1"%string))).
Definition w_s1 : oblock := OB 1 (BString hdr0 (lit "b"%string) (VStr (lit "2"%string))).
Definition w_s2 : oblock := OB 2 (BString hdr0 (lit "b"%string) (VStr (lit "3"%string))).
Definition w_lib2 : lib := fst (apply (empty_lib 1000) (LAdd [w_s0; w_s1] false)).
Definition w_op2 : lop := LReplace w_s0 w_s2 true.

(* the former finding (fixed in /repo by c532558): a raising replace re-inserts the old string at the END of the
   string index; `strings` now follows the block list, so it comes back in the same order *)
Lemma example_strings_order :
  reachable w_lib2 /\ ~ known_K1 w_op2 /\ snd (apply w_lib2 w_op2) = Raised EValue
  /\ map fst (v_strings_dict (fst (apply w_lib2 w_op2))) = [lit "b"%string; lit "a"%string]
  /\ map oid_of (v_strings w_lib2) = [0; 1]%N /\ map oid_of (v_strings (fst (apply w_lib2 w_op2))) = [0; 1]%N.
Proof.
  split; [|split; [|split; [|split; [|split]]]]; try (vm_compute; reflexivity).
  - apply reach_step; [apply reach_empty|]. simpl. repeat constructor.
  - intros [bs E]. discriminate E.
Qed.

(* non-vacuity of the atomicity theorem: a reachable library holding duplicates in which a raising replace of a
   structurally equal twin is rolled back *)
Definition w_e0twin : oblock := OB 7 (BEntry hdr0 (lit "article"%string) (lit "a"%string) []).
Definition w_e2 : oblock := OB 2 (BEntry hdr0 (lit "misc"%string) (lit "b"%string) []).
Definition w_lib3 : lib := fst (run [LAdd [w_e0; w_e1; w_e2] false] (empty_lib 1000)).
Definition w_op3 : lop := LReplace w_e0twin w_e2 true.
Lemma example_rollback :
  reachable w_lib3 /\ ~ known_K1 w_op3 /\ snd (apply w_lib3 w_op3) = Raised EValue
  /\ map oid_of (blocks w_lib3) = [0; 1000; 2]%N /\ map oid_of (blocks (fst (apply w_lib3 w_op3))) = [7; 1000; 2]%N.
Proof.
  split; [|split; [|split; [|split]]]; try (vm_compute; reflexivity).
  - change w_lib3 with (fst (apply (empty_lib 1000) (LAdd [w_e0; w_e1; w_e2] false))).
    apply reach_step; [apply reach_empty|]. simpl. repeat constructor.
  - intros [bs E]. discriminate E.
Qed.
