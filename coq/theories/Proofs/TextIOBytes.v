(* the file layer in the other direction: a utf-8 file without a carriage-return byte that parse_file accepts is reproduced
   byte for byte when the text that was read is written again *)
From Coq Require Import List ZArith Bool Lia ZifyBool.
Import ListNotations.
From BP Require Import Model.TextIO Proofs.TextIOProofs.
Local Open Scope Z_scope.

Definition no_cr_byte (bs : list Z) : bool := forallb (fun b => negb (b =? 13)) bs.

Lemma utf8_enc_cp_13 : utf8_enc_cp 13 = [13].
Proof. reflexivity. Qed.

Lemma encode_keeps_cr s bs : utf8_encode s = Some bs -> no_cr_byte bs = true -> no_cr s = true.
Proof.
  revert bs. induction s as [|c s IH]; intros bs H Hn; [reflexivity|].
  cbn [utf8_encode] in H. destruct (scalar c) eqn:Hs; [|discriminate].
  destruct (utf8_encode s) as [b'|] eqn:E; [|discriminate]. cbn [option_map] in H. injection H as <-.
  unfold no_cr_byte in Hn. rewrite forallb_app in Hn. apply andb_prop in Hn. destruct Hn as [H1 H2].
  cbn [no_cr forallb]. fold (no_cr s). rewrite (IH b' eq_refl H2), andb_true_r.
  destruct (Z.eq_dec c 13) as [->|N].
  - rewrite utf8_enc_cp_13 in H1. cbn in H1. discriminate.
  - lia.
Qed.

Theorem utf8_file_fixpoint bs s : no_cr_byte bs = true -> read_text Utf8 bs = Some s -> write_text Utf8 s = Some bs.
Proof.
  unfold read_text, write_text. cbn [decode encode]. intros Hn H.
  destruct (utf8_decode bs) as [s'|] eqn:D; [|discriminate]. cbn [option_map] in H. injection H as <-.
  pose proof (utf8_canonical bs s' D) as C.
  rewrite (nl_read_id s' (encode_keeps_cr s' bs C Hn)). exact C.
Qed.

(* and therefore reading is injective on such files: two different CR-free utf-8 files are never read as the same text *)
Theorem utf8_read_injective b1 b2 s : no_cr_byte b1 = true -> no_cr_byte b2 = true ->
  read_text Utf8 b1 = Some s -> read_text Utf8 b2 = Some s -> b1 = b2.
Proof.
  intros N1 N2 H1 H2. apply utf8_file_fixpoint in H1; [|exact N1]. apply utf8_file_fixpoint in H2; [|exact N2]. congruence.
Qed.

(* with carriage returns it is not: CR LF, CR and LF files read as the same text *)
Theorem utf8_read_not_injective_with_cr : read_text Utf8 [97; 13; 10] = read_text Utf8 [97; 10] /\ read_text Utf8 [97; 13] = read_text Utf8 [97; 10].
Proof. split; reflexivity. Qed.
