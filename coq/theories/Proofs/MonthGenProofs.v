(* Proofs for the generalised C15 (Model/MonthGen.v): the three month middlewares over CPython's real
   str.lower / int, entering as Section variables constrained by the hypotheses of Spec/C15Gen.v (oracles_ok).  Every table-dependent fact is re-checked by computation at every build. *)
From Coq Require Import List NArith ZArith Bool Lia.
From BP Require Import Base.Chars Model.Blocks Gen.Constants Model.Month Model.MonthGen Spec.C15 Spec.C15Gen Proofs.MonthProofs.
Import ListNotations.
Local Open Scope Z_scope.

(* ================================================================================================
   1. Facts about the table alone (no oracle).  The code uses the lowered string in ways that are only
      safe because membership in one of the ASCII tables pins the string down to a concrete row:
        `_MONTH_ABBREV_TO_FULL[v_lower[:3]]`  after  `v_lower in _LOWERCASE_FULL`        (long)
        `v_lower[:3]` returned as the abbreviation after `v_lower in _LOWERCASE_FULL`     (abbreviation)
        `_MONTH_ABBREV.index(v_lower[:3])`    after  `v_lower in _MONTH_ABBREV`           (int)
      None of these facts mentions str.lower: whatever produced v_lower, once it IS a row it is that row. *)
Lemma forallb_mem (p : str -> bool) l x : forallb p l = true -> mem_str x l = true -> p x = true.
Proof. intros H M. apply mem_str_In in M. rewrite forallb_forall in H. apply H, M. Qed.

Lemma abbrev_member_not_decimal lo : mem_str lo month_abbrev = true -> str_isdecimal lo = false.
Proof.
  intros M. apply negb_true_iff.
  assert (forallb (fun r => negb (str_isdecimal r)) month_abbrev = true) as T by (vm_compute; reflexivity).
  exact (forallb_mem _ _ _ T M).
Qed.
Lemma full_member_not_decimal lo : mem_str lo lowercase_full = true -> str_isdecimal lo = false.
Proof.
  intros M. apply negb_true_iff.
  assert (forallb (fun r => negb (str_isdecimal r)) lowercase_full = true) as T by (vm_compute; reflexivity).
  exact (forallb_mem _ _ _ T M).
Qed.

(* int middleware: v_lower in _MONTH_ABBREV  ==>  v_lower[:3] is v_lower, so .index(v_lower[:3]) finds its row *)
Lemma abbrev_member_prefix lo : mem_str lo month_abbrev = true -> firstn3 lo = lo.
Proof.
  intros M. apply str_eqb_eq.
  assert (forallb (fun r => str_eqb (firstn3 r) r) month_abbrev = true) as T by (vm_compute; reflexivity).
  exact (forallb_mem _ _ _ T M).
Qed.
Lemma abbrev_member_index lo : mem_str lo month_abbrev = true -> exists i, index_of (firstn3 lo) month_abbrev = Some i /\ (i < 12)%nat.
Proof.
  intros M. rewrite (abbrev_member_prefix lo M). destruct (mem_index _ _ M) as [i I]. exists i. split; [exact I|].
  destruct (index_of_Some _ _ _ I) as (_ & B & _). exact B.
Qed.

(* long / abbreviation middlewares: v_lower is the i-th lower-cased full name  ==>  v_lower[:3] is the i-th abbreviation,
   so the dict lookup succeeds and yields the i-th full name *)
Lemma full_member_prefix lo i : index_of lo lowercase_full = Some i ->
  firstn3 lo = nth i month_abbrev [] /\ index_of (firstn3 lo) month_abbrev = Some i /\ abbrev_to_full (firstn3 lo) = Some (nth i month_full []).
Proof.
  intros I. destruct (index_of_Some _ _ _ I) as (A & B & _).
  assert (length lowercase_full = 12%nat) as L by reflexivity. rewrite L in B. rewrite <- A. clear - B.
  twelve i; vm_compute; repeat split; reflexivity.
Qed.

Lemma abbrev_of_row m : 1 <= m <= 12 -> In (abbrev_of m) month_abbrev /\ lower (abbrev_of m) = abbrev_of m.
Proof.
  intros Hm. destruct (range_cases m Hm) as [E|[E|[E|[E|[E|[E|[E|[E|[E|[E|[E|E]]]]]]]]]]]; subst m;
    (split; [apply mem_str_In; vm_compute; reflexivity | vm_compute; reflexivity]).
Qed.
Lemma full_of_row m : 1 <= m <= 12 -> In (full_of m) month_full.
Proof.
  intros Hm. unfold full_of. apply nth_In. assert (length month_full = 12%nat) as L by reflexivity. rewrite L. lia.
Qed.
Lemma abbrev_nth_lower i : (i < 12)%nat -> In (nth i month_abbrev []) month_abbrev /\ lower (nth i month_abbrev []) = nth i month_abbrev [].
Proof.
  intros B. split; [apply nth_In; assert (length month_abbrev = 12%nat) as L by reflexivity; rewrite L; exact B|].
  clear - B. twelve i; vm_compute; reflexivity.
Qed.

(* ================================================================================================
   2. The generalised model under the oracle hypotheses *)
Section GenProofs.
  Variable lowerU : str -> str.
  Variable intU : str -> option Z.
  Hypothesis Hrows : lower_rows_ok lowerU.

  Notation rg := (resolve_g lowerU intU).
  Notation spells' := (spells_g lowerU intU).
  Notation is_spelling' := (is_month_spelling_g lowerU intU).

  (* _LOWERCASE_FULL computed with the real lower() is the table the ASCII model uses *)
  Lemma lcf_eq : lowercase_full_g lowerU = lowercase_full.
  Proof. unfold lowercase_full_g, lowercase_full. apply map_ext_in. intros r Hr. apply Hrows. right; exact Hr. Qed.

  Lemma lowerU_abbrev_nth i : (i < 12)%nat -> lowerU (nth i month_abbrev []) = nth i month_abbrev [].
  Proof. intros B. destruct (abbrev_nth_lower i B) as [I L]. rewrite Hrows by (left; exact I). exact L. Qed.
  Lemma lowerU_full_nth i : (i < 12)%nat -> lowerU (nth i month_full []) = nth i lowercase_full [].
  Proof.
    intros B. rewrite lowercase_full_nth. apply Hrows. right. apply nth_In.
    assert (length month_full = 12%nat) as L by reflexivity. rewrite L. exact B.
  Qed.

  (* ---- no exception site is reachable: for EVERY value, every int oracle, and every lower() that is right on the
     24 table rows.  Nothing else about lower() is used (not even lower_keeps_decimal): once the lowered string is
     a member of a table it is that row, and the [:3] of a row is a key / an element. *)
  Lemma never_raises_g k v : rg k v <> GRaise.
  Proof.
    destruct k; cbn [resolve_g]; unfold resolve_int_g, resolve_abbrev_g, resolve_long_g, int_branch_g;
      destruct v as [s|z| | | |b| | |]; try discriminate; cbv zeta.
    - (* int: list.index *)
      destruct (mem_str (lowerU s) month_abbrev) eqn:M.
      + destruct (abbrev_member_index _ M) as (i & I & _). rewrite I. discriminate.
      + destruct (index_of (lowerU s) (lowercase_full_g lowerU)); [discriminate|]. destruct (as_int_g intU s); discriminate.
    - (* abbreviation: no site *)
      destruct (as_int_g intU s); [discriminate|].
      destruct (mem_str (lowerU s) (lowercase_full_g lowerU)); [discriminate|].
      destruct (mem_str (lowerU s) month_abbrev && negb (str_eqb (lowerU s) s)); discriminate.
    - (* long: dict lookup *)
      destruct (as_int_g intU s); [discriminate|].
      destruct (abbrev_to_full (lowerU s)); [discriminate|].
      rewrite lcf_eq. destruct (mem_str (lowerU s) lowercase_full) eqn:M; [|discriminate].
      destruct (mem_index _ _ M) as [i I]. destruct (full_member_prefix _ _ I) as (_ & _ & K). rewrite K. discriminate.
  Qed.

  Hypothesis Hdec : lower_keeps_decimal lowerU.

  (* a decimal string does not lower-case to a table row: this is what makes the int middleware (which looks the
     lowered string up BEFORE testing isdecimal) agree with the other two (which test isdecimal first), and what
     sends a decimal string that int() refuses through the string branch unchanged *)
  Lemma lowered_decimal_not_row s : str_isdecimal s = true ->
    mem_str (lowerU s) month_abbrev = false /\ index_of (lowerU s) lowercase_full = None
    /\ index_of (lowerU s) month_abbrev = None /\ mem_str (lowerU s) lowercase_full = false.
  Proof.
    intros D. pose proof (Hdec s D) as D'.
    assert (mem_str (lowerU s) month_abbrev = false) as M1.
    { destruct (mem_str (lowerU s) month_abbrev) eqn:M; [|reflexivity].
      rewrite (abbrev_member_not_decimal _ M) in D'. discriminate. }
    assert (mem_str (lowerU s) lowercase_full = false) as M2.
    { destruct (mem_str (lowerU s) lowercase_full) eqn:M; [|reflexivity].
      rewrite (full_member_not_decimal _ M) in D'. discriminate. }
    repeat split; try assumption.
    - destruct (index_of (lowerU s) lowercase_full) as [i|] eqn:I; [|reflexivity].
      destruct (index_of_Some _ _ _ I) as (_ & _ & M). congruence.
    - destruct (index_of (lowerU s) month_abbrev) as [i|] eqn:I; [|reflexivity].
      destruct (index_of_Some _ _ _ I) as (_ & _ & M). congruence.
  Qed.
  Lemma row_not_decimal_abbrev s : mem_str (lowerU s) month_abbrev = true -> str_isdecimal s = false.
  Proof. intros M. destruct (str_isdecimal s) eqn:D; [|reflexivity]. destruct (lowered_decimal_not_row s D) as [M1 _]. congruence. Qed.
  Lemma row_not_decimal_full s i : index_of (lowerU s) lowercase_full = Some i -> str_isdecimal s = false.
  Proof. intros I. destruct (str_isdecimal s) eqn:D; [|reflexivity]. destruct (lowered_decimal_not_row s D) as (_ & M2 & _). congruence. Qed.

  (* ---- the month a value spells, computably *)
  Definition month_of_g (v : value) : option Z :=
    match v with
    | VInt z => if in_range z then Some z else None
    | VStr s =>
        if str_isdecimal s then
          match intU s with Some z => if in_range z then Some z else None | None => None end
        else match index_of (lowerU s) month_abbrev with
             | Some i => Some (Z.of_nat i + 1)
             | None => match index_of (lowerU s) lowercase_full with Some i => Some (Z.of_nat i + 1) | None => None end
             end
    | _ => None
    end.

  Lemma month_of_g_spells m v : 1 <= m <= 12 -> spells' m v -> month_of_g v = Some m.
  Proof.
    intros Hm [H|[(s & Hv & Hd & Hp)|[(s & Hv & Hl)|(s & Hv & Hl)]]]; subst v; unfold month_of_g.
    - apply in_range_spec in Hm. rewrite Hm. reflexivity.
    - rewrite Hd, Hp. apply in_range_spec in Hm. rewrite Hm. reflexivity.
    - destruct (abbrev_of_row m Hm) as [I _]. apply mem_str_In in I. rewrite <- Hl in I.
      rewrite (row_not_decimal_abbrev s I). rewrite Hl.
      destruct (range_cases m Hm) as [E|[E|[E|[E|[E|[E|[E|[E|[E|[E|[E|E]]]]]]]]]]]; subst m; reflexivity.
    - rewrite (Hrows (full_of m)) in Hl by (right; apply full_of_row, Hm).
      assert (exists i, index_of (lowerU s) lowercase_full = Some i) as [i I].
      { apply mem_index. rewrite Hl. apply mem_str_In. unfold lowercase_full. apply in_map. apply full_of_row, Hm. }
      rewrite (row_not_decimal_full s i I). rewrite Hl. clear I i.
      destruct (range_cases m Hm) as [E|[E|[E|[E|[E|[E|[E|[E|[E|[E|[E|E]]]]]]]]]]]; subst m; reflexivity.
  Qed.

  Lemma month_of_g_sound v m : month_of_g v = Some m -> 1 <= m <= 12 /\ spells' m v.
  Proof.
    unfold month_of_g. destruct v as [s|z| | | | | | |]; try discriminate.
    - destruct (str_isdecimal s) eqn:D.
      + destruct (intU s) as [z|] eqn:P; [|discriminate].
        destruct (in_range z) eqn:R; [|discriminate]. intros H; inversion H; subst.
        apply in_range_spec in R. split; [exact R|]. right; left. exists s. repeat split; auto.
      + destruct (index_of (lowerU s) month_abbrev) as [i|] eqn:I.
        * intros H; inversion H; subst. destruct (index_of_Some _ _ _ I) as (A & B & _).
          assert (length month_abbrev = 12%nat) as L by reflexivity. rewrite L in B.
          split; [lia|]. right; right; left. exists s. split; [reflexivity|].
          unfold abbrev_of. replace (Z.to_nat (Z.of_nat i + 1 - 1)) with i by lia. symmetry; exact A.
        * destruct (index_of (lowerU s) lowercase_full) as [i|] eqn:J; [|discriminate].
          intros H; inversion H; subst. destruct (index_of_Some _ _ _ J) as (A & B & _).
          assert (length lowercase_full = 12%nat) as L by reflexivity. rewrite L in B.
          split; [lia|]. right; right; right. exists s. split; [reflexivity|].
          unfold full_of. replace (Z.to_nat (Z.of_nat i + 1 - 1)) with i by lia.
          rewrite (lowerU_full_nth i B). symmetry; exact A.
    - destruct (in_range z) eqn:R; [|discriminate]. intros H; inversion H; subst.
      apply in_range_spec in R. split; [exact R|]. left; reflexivity.
  Qed.

  Lemma month_of_g_None v : month_of_g v = None -> ~ is_spelling' v.
  Proof. intros H (m & Hm & Hs). rewrite (month_of_g_spells m v Hm Hs) in H. discriminate. Qed.

  (* ---- what the three functions do with a spelling of month m *)
  Lemma resolve_spelled_g k v m : month_of_g v = Some m -> rg k v = GVal (canon k m).
  Proof.
    unfold month_of_g. destruct v as [s|z| | | | | | |]; try discriminate.
    - destruct (str_isdecimal s) eqn:D.
      + (* decimal string of any script *)
        destruct (intU s) as [z|] eqn:P; [|discriminate].
        destruct (in_range z) eqn:R; [|discriminate]. intros H; inversion H; subst m.
        destruct (lowered_decimal_not_row s D) as (M1 & M2 & _).
        destruct k; cbn [resolve_g canon]; unfold resolve_int_g, resolve_abbrev_g, resolve_long_g, int_branch_g, as_int_g;
          rewrite ?lcf_eq; cbv zeta; rewrite ?D, ?P, ?R, ?M1, ?M2, ?D, ?P, ?R; reflexivity.
      + destruct (index_of (lowerU s) month_abbrev) as [i|] eqn:I.
        * intros H; inversion H; subst m. destruct (index_of_Some _ _ _ I) as (A & B & _).
          assert (length month_abbrev = 12%nat) as L by reflexivity. rewrite L in B. clear I L.
          destruct k; cbn [resolve_g canon]; unfold resolve_int_g, resolve_abbrev_g, resolve_long_g, as_int_g, abbrev_of, full_of;
            rewrite ?lcf_eq, ?D; cbv zeta; rewrite <- A;
            try (destruct (str_eqb (nth i month_abbrev []) s) eqn:E; [apply str_eqb_eq in E; rewrite <- E|]);
            clear - B; twelve i; vm_compute; reflexivity.
        * destruct (index_of (lowerU s) lowercase_full) as [i|] eqn:J; [|discriminate].
          intros H; inversion H; subst m. destruct (index_of_Some _ _ _ J) as (A & B & _).
          assert (length lowercase_full = 12%nat) as L by reflexivity. rewrite L in B. clear J L.
          pose proof (index_of_None _ _ I) as I'.
          destruct k; cbn [resolve_g canon]; unfold resolve_int_g, resolve_abbrev_g, resolve_long_g, as_int_g, abbrev_of, full_of, abbrev_to_full;
            rewrite ?lcf_eq, ?D; cbv zeta.
          -- rewrite I'. rewrite <- A. clear - B. twelve i; vm_compute; reflexivity.
          -- rewrite <- A. clear - B. twelve i; vm_compute; reflexivity.
          -- rewrite I. rewrite <- A.
             destruct (str_eqb s (nth (Z.to_nat (Z.of_nat i + 1 - 1)) month_full [])) eqn:E.
             ++ apply str_eqb_eq in E. rewrite E. clear - B. twelve i; vm_compute; reflexivity.
             ++ revert E. clear - B. twelve i; vm_compute; intros E; rewrite ?E; reflexivity.
    - destruct (in_range z) eqn:R; [|discriminate]. intros H; inversion H; subst m.
      destruct k; cbn [resolve_g canon]; unfold resolve_int_g, resolve_abbrev_g, resolve_long_g, int_branch_g, abbrev_of, full_of, nth_str;
        rewrite ?R; reflexivity.
  Qed.

  (* ---- any other value (True excepted) is returned unchanged; a decimal string that int() refuses is one of them *)
  Lemma resolve_other_g k v : month_of_g v = None -> v <> VBool true -> rg k v = GVal v.
  Proof.
    unfold month_of_g. destruct v as [s|z| | | |b| | |]; try (intros; destruct k; reflexivity).
    - destruct (str_isdecimal s) eqn:D.
      + destruct (lowered_decimal_not_row s D) as (M1 & M2 & M3 & M4).
        destruct (intU s) as [z|] eqn:P.
        * destruct (in_range z) eqn:R; [discriminate|]. intros _ _.
          destruct k; cbn [resolve_g]; unfold resolve_int_g, resolve_abbrev_g, resolve_long_g, int_branch_g, as_int_g;
            rewrite ?lcf_eq; cbv zeta; rewrite ?D, ?P, ?R, ?M1, ?M2, ?D, ?P, ?R; reflexivity.
        * (* refused by int(): stays a string, is no row *)
          intros _ _.
          destruct k; cbn [resolve_g]; unfold resolve_int_g, resolve_abbrev_g, resolve_long_g, int_branch_g, as_int_g, abbrev_to_full;
            rewrite ?lcf_eq; cbv zeta; rewrite ?D, ?P, ?M1, ?M2, ?M3, ?M4, ?D, ?P; reflexivity.
      + destruct (index_of (lowerU s) month_abbrev) as [i|] eqn:I; [discriminate|].
        destruct (index_of (lowerU s) lowercase_full) as [i|] eqn:J; [discriminate|]. intros _ _.
        pose proof (index_of_None _ _ I) as M1. pose proof (index_of_None _ _ J) as M2.
        destruct k; cbn [resolve_g]; unfold resolve_int_g, resolve_abbrev_g, resolve_long_g, as_int_g, abbrev_to_full;
          rewrite ?lcf_eq; cbv zeta; rewrite ?D, ?I, ?J, ?M1, ?M2, ?D; reflexivity.
    - destruct (in_range z) eqn:R; [discriminate|]. intros _ _.
      destruct k; cbn [resolve_g]; unfold resolve_int_g, resolve_abbrev_g, resolve_long_g, int_branch_g; rewrite ?R; reflexivity.
    - destruct b; [intros _ H; contradiction H; reflexivity|]. intros _ _. destruct k; reflexivity.
  Qed.

  (* ---- the three canonical outputs are themselves spellings of the same month *)
  Lemma month_of_g_abbrev_row i : (i < 12)%nat -> month_of_g (VStr (nth i month_abbrev [])) = Some (Z.of_nat i + 1).
  Proof.
    intros B. unfold month_of_g. rewrite (lowerU_abbrev_nth i B). clear - B. twelve i; vm_compute; reflexivity.
  Qed.
  Lemma month_of_g_full_row i : (i < 12)%nat -> month_of_g (VStr (nth i month_full [])) = Some (Z.of_nat i + 1).
  Proof.
    intros B. unfold month_of_g. rewrite (lowerU_full_nth i B). clear - B. twelve i; vm_compute; reflexivity.
  Qed.
  Lemma canon_spells_g k m : 1 <= m <= 12 -> month_of_g (canon k m) = Some m.
  Proof.
    intros Hm. destruct k; cbn [canon].
    - unfold month_of_g. apply in_range_spec in Hm. rewrite Hm. reflexivity.
    - unfold abbrev_of. rewrite month_of_g_abbrev_row by lia. f_equal. lia.
    - unfold full_of. rewrite month_of_g_full_row by lia. f_equal. lia.
  Qed.

  (* ---- the property, function level, for every value *)
  Lemma spellings_resolve_g m v : 1 <= m <= 12 -> spells' m v ->
    rg MInt v = GVal (VInt m) /\ rg MAbbrev v = GVal (VStr (abbrev_of m)) /\ rg MLong v = GVal (VStr (full_of m)).
  Proof.
    intros Hm Hs. pose proof (month_of_g_spells m v Hm Hs) as H.
    repeat split; [apply (resolve_spelled_g MInt) | apply (resolve_spelled_g MAbbrev) | apply (resolve_spelled_g MLong)]; exact H.
  Qed.

  Lemma not_spelling_None v : ~ is_spelling' v -> month_of_g v = None.
  Proof.
    intros Hn. destruct (month_of_g v) as [m|] eqn:E; [|reflexivity]. exfalso. apply Hn.
    destruct (month_of_g_sound v m E) as [Hm Hs]. exists m. split; assumption.
  Qed.

  Lemma others_unchanged_g k v : ~ is_spelling' v -> v <> VBool true -> rg k v = GVal v.
  Proof. intros Hn Hb. apply resolve_other_g; [apply not_spelling_None, Hn | exact Hb]. Qed.

  Lemma compose_g f g v v1 : v <> VBool true -> rg f v = GVal v1 -> rg g v1 = rg g v.
  Proof.
    intros Hb H1. destruct (month_of_g v) as [m|] eqn:E.
    - destruct (month_of_g_sound v m E) as [Hm _].
      rewrite (resolve_spelled_g f v m E) in H1. inversion H1; subst v1.
      rewrite (resolve_spelled_g g _ m (canon_spells_g f m Hm)). rewrite (resolve_spelled_g g v m E). reflexivity.
    - rewrite (resolve_other_g f v E Hb) in H1. inversion H1; subst. reflexivity.
  Qed.

  (* a decimal string that int() refuses even without leading zeros comes back as it is *)
  Lemma refused_decimal_unchanged k s : str_isdecimal s = true -> intU s = None -> rg k (VStr s) = GVal (VStr s).
  Proof. intros D P. apply resolve_other_g; [|discriminate]. unfold month_of_g. rewrite D, P. reflexivity. Qed.
End GenProofs.

(* ================================================================================================
   3. The ASCII model of Model/Month.v is the instance  lowerU := lower, intU := int_of_decimal *)
Lemma ascii_instance_ok : oracles_ok lower.
Proof.
  split.
  - intros r _. reflexivity.
  - intros s D. rewrite (str_isdecimal_lower s D). exact D.
Qed.

(* wherever the ASCII model gives an answer (not MSkip) the generalised functions at that instance give the same answer
   (MSkip: a non-ASCII decimal string, which py_int cannot read; at this instance the generalised model treats it
   as a string int() refuses) *)
Lemma gen_instance k v : resolve k v <> MSkip -> to_mres (resolve_g lower int_of_decimal k v) = resolve k v.
Proof.
  destruct k; cbn [resolve resolve_g]; unfold resolve_int, resolve_abbrev, resolve_long,
    resolve_int_g, resolve_abbrev_g, resolve_long_g, int_branch_g, as_int_g;
    change (lowercase_full_g lower) with lowercase_full;
    destruct v as [s|z| | | |b| | |]; try reflexivity.
  - cbv zeta. destruct (mem_str (lower s) month_abbrev).
    + destruct (index_of (firstn3 (lower s)) month_abbrev); reflexivity.
    + destruct (index_of (lower s) lowercase_full); [reflexivity|].
      destruct (str_isdecimal s); [|reflexivity]. destruct (int_of_decimal s); [reflexivity|]. intros H; contradiction H; reflexivity.
  - cbv zeta. destruct (str_isdecimal s).
    + destruct (int_of_decimal s) as [z|]; [|intros H; contradiction H; reflexivity]. reflexivity.
    + destruct (mem_str (lower s) lowercase_full); [reflexivity|].
      destruct (mem_str (lower s) month_abbrev && negb (str_eqb (lower s) s)); reflexivity.
  - cbv zeta. destruct (str_isdecimal s).
    + destruct (int_of_decimal s) as [z|]; [|intros H; contradiction H; reflexivity]. reflexivity.
    + destruct (abbrev_to_full (lower s)); [reflexivity|].
      destruct (mem_str (lower s) lowercase_full); [|reflexivity].
      destruct (abbrev_to_full (firstn3 (lower s))); reflexivity.
Qed.

Lemma gen_instance_all k v : oracles_ok lower
  /\ (resolve k v <> MSkip -> to_mres (resolve_g lower int_of_decimal k v) = resolve k v).
Proof. split; [exact ascii_instance_ok | apply gen_instance]. Qed.

(* ================================================================================================
   4. Closed forms (the oracle hypotheses are explicit premises) *)
Lemma gen_spellings lowerU intU : oracles_ok lowerU -> forall m v, 1 <= m <= 12 -> spells_g lowerU intU m v ->
  resolve_g lowerU intU MInt v = GVal (VInt m)
  /\ resolve_g lowerU intU MAbbrev v = GVal (VStr (abbrev_of m))
  /\ resolve_g lowerU intU MLong v = GVal (VStr (full_of m)).
Proof. intros (H1 & H2). apply spellings_resolve_g; assumption. Qed.

Lemma gen_compose lowerU intU : oracles_ok lowerU -> forall f g v v1, v <> VBool true ->
  resolve_g lowerU intU f v = GVal v1 -> resolve_g lowerU intU g v1 = resolve_g lowerU intU g v.
Proof. intros (H1 & H2). apply compose_g; assumption. Qed.

Lemma gen_others lowerU intU : oracles_ok lowerU -> forall k v,
  ~ is_month_spelling_g lowerU intU v -> v <> VBool true -> resolve_g lowerU intU k v = GVal v.
Proof. intros (H1 & H2). apply others_unchanged_g; assumption. Qed.

Lemma gen_no_raise lowerU intU : oracles_ok lowerU -> forall k v, resolve_g lowerU intU k v <> GRaise.
Proof. intros (H1 & _). apply never_raises_g; assumption. Qed.

Lemma gen_no_raise_rows lowerU intU : lower_rows_ok lowerU -> forall k v, resolve_g lowerU intU k v <> GRaise.
Proof. intros H1. apply never_raises_g; assumption. Qed.

Lemma gen_refused_decimal lowerU intU : oracles_ok lowerU -> forall k s, str_isdecimal s = true -> intU s = None ->
  ~ is_month_spelling_g lowerU intU (VStr s) /\ resolve_g lowerU intU k (VStr s) = GVal (VStr s).
Proof.
  intros (H1 & H2) k s D P. split; [|apply refused_decimal_unchanged; assumption].
  apply month_of_g_None; [assumption..|]. unfold month_of_g. rewrite D, P. reflexivity.
Qed.

(* ================================================================================================
   5. A second, executable instance whose oracles are NOT the ASCII ones: the hypotheses are satisfiable by
      oracles that show the non-ASCII behaviours of CPython the ASCII model excludes:
        lower():  KELVIN SIGN U+212A -> 'k' (a non-ASCII character whose lower() is ASCII),
                  U+0130 -> 'i' + U+0307 (lower() changes the length)
        _int_of_decimal_str():  ARABIC-INDIC digits U+0660..U+0669 next to ASCII digits; drops leading zeros
                  (all but the last character), then refuses more than 4300 digits                      *)
Definition c_kelvin : ch := 1086742%N.    (* U+212A, flags alpha|upper|word *)
Definition c_Idot : ch := 38934%N.        (* U+0130, flags alpha|upper|word *)
Definition c_dot_above : ch := 99200%N.   (* U+0307, no flags *)
Definition lower_x_ch (c : ch) : str :=
  if (c =? c_kelvin)%N then [asc 107] else if (c =? c_Idot)%N then [asc 105; c_dot_above] else [lower_ch c].
Definition lower_x (s : str) : str := flat_map lower_x_ch s.

Definition digit_x (c : ch) : option N :=
  match ascii_digit_val c with
  | Some d => Some d
  | None => if (N.land c 127 =? 56)%N && (1632 <=? code c)%N && (code c <=? 1641)%N then Some (code c - 1632)%N else None
  end.
Fixpoint int_x_acc (s : str) (acc : N) : option N :=
  match s with
  | [] => Some acc
  | c :: r => match digit_x c with Some d => int_x_acc r (acc * 10 + d)%N | None => None end
  end.
(* while start < len(value) - 1 and unicodedata.decimal(value[start]) == 0: start += 1 *)
Fixpoint strip_zeros (s : str) : str :=
  match s with
  | c :: r => match r with
              | [] => s
              | _ :: _ => match digit_x c with Some 0%N => strip_zeros r | _ => s end
              end
  | [] => []
  end.
Definition max_str_digits : nat := 4300.
Definition int_x (s : str) : option Z :=
  let t := strip_zeros s in
  if (length t <=? max_str_digits)%nat
  then match t with [] => None | _ => match int_x_acc t 0 with Some n => Some (Z.of_N n) | None => None end end
  else None.

Lemma instance_x_ok : oracles_ok lower_x.
Proof.
  split.
  - intros r Hr. apply str_eqb_eq.
    assert (forallb (fun r => str_eqb (lower_x r) (lower r)) (month_abbrev ++ month_full) = true) as T by (vm_compute; reflexivity).
    rewrite forallb_forall in T. apply T. apply in_or_app. exact Hr.
  - intros s D.
    assert (forallb isdecimal s = true -> lower_x s = s) as K.
    { clear D. induction s as [|c s IH]; [reflexivity|]. simpl. intros H. apply andb_true_iff in H as [H1 H2].
      rewrite (IH H2). unfold lower_x_ch.
      destruct (c =? c_kelvin)%N eqn:E1; [apply N.eqb_eq in E1; subst c; discriminate H1|].
      destruct (c =? c_Idot)%N eqn:E2; [apply N.eqb_eq in E2; subst c; discriminate H1|].
      rewrite (lower_ch_decimal c H1). reflexivity. }
    destruct s as [|c s]; [discriminate D|]. rewrite (K D). exact D.
Qed.

Definition arabic_12 : str := [209080; 209208]%N.                    (* U+0661 U+0662 *)
Definition oKt : str := [asc 111; c_kelvin; asc 116].               (* 'o', KELVIN SIGN, 't' *)
Definition long_one : str := repeat (asc 48) 4300 ++ [asc 49].       (* 4300 zeros and a one *)
Definition long_ones : str := repeat (asc 49) 4301.                  (* 4301 ones *)

(* the theorems applied at this instance (not computed: derived from gen_spellings / gen_others) *)
Lemma example_x_arabic :
  resolve_g lower_x int_x MInt (VStr arabic_12) = GVal (VInt 12)
  /\ resolve_g lower_x int_x MAbbrev (VStr arabic_12) = GVal (VStr (abbrev_of 12))
  /\ resolve_g lower_x int_x MLong (VStr arabic_12) = GVal (VStr (full_of 12)).
Proof.
  apply (gen_spellings _ _ instance_x_ok); [lia|]. right; left. exists arabic_12.
  split; [reflexivity|]. split; vm_compute; reflexivity.
Qed.

(* a month table containing a 'k' would make the KELVIN SIGN a letter-case variant; with the shipped table
   'o' + KELVIN SIGN + 't' lowers to the ASCII word "okt", which is no row: unchanged by all three *)
Lemma example_x_kelvin k : lower_x oKt = [asc 111; asc 107; asc 116] /\ resolve_g lower_x int_x k (VStr oKt) = GVal (VStr oKt).
Proof. split; [vm_compute; reflexivity | destruct k; vm_compute; reflexivity]. Qed.

(* 4300 zeros and a one: month 1 (before the repair int() refused the 4301 characters and all three raised) *)
Lemma example_x_long_one :
  resolve_g lower_x int_x MInt (VStr long_one) = GVal (VInt 1)
  /\ resolve_g lower_x int_x MAbbrev (VStr long_one) = GVal (VStr (abbrev_of 1))
  /\ resolve_g lower_x int_x MLong (VStr long_one) = GVal (VStr (full_of 1)).
Proof.
  apply (gen_spellings _ _ instance_x_ok); [lia|]. right; left. exists long_one.
  split; [reflexivity|]. split; vm_compute; reflexivity.
Qed.

(* 4301 ones: still refused by int(); not a spelling, returned as it is by all three (before the repair: ValueError) *)
Lemma example_x_long_ones k :
  int_x long_ones = None /\ ~ is_month_spelling_g lower_x int_x (VStr long_ones)
  /\ resolve_g lower_x int_x k (VStr long_ones) = GVal (VStr long_ones).
Proof.
  assert (int_x long_ones = None) as P by (vm_compute; reflexivity).
  split; [exact P|]. apply (gen_refused_decimal _ _ instance_x_ok); [vm_compute; reflexivity | exact P].
Qed.

(* an int of more than 4300 digits: out of range, returned as it is by all three (before the repair the long /
   abbreviation middlewares raised while formatting their message) *)
Lemma example_x_big_int k : resolve_g lower_x int_x k (VInt (10 ^ 4300)) = GVal (VInt (10 ^ 4300)).
Proof.
  apply (gen_others _ _ instance_x_ok); [|discriminate].
  destruct instance_x_ok as [H1 H2]. apply month_of_g_None; [assumption..|].
  unfold month_of_g. replace (in_range (10 ^ 4300)) with false by (vm_compute; reflexivity). reflexivity.
Qed.

(* ================================================================================================
   6. The natural form of the lower() hypothesis, and: every spelling of the ASCII theorem is a spelling here *)
Lemma ascii_agree_rows lowerU : lower_ascii_agree lowerU -> lower_rows_ok lowerU.
Proof.
  intros H r Hr. apply H.
  assert (forallb is_ascii (month_abbrev ++ month_full) = true) as T by (vm_compute; reflexivity).
  rewrite forallb_forall in T. apply T. apply in_or_app. exact Hr.
Qed.

Lemma ascii_flags_upper q : (65 <= q <= 90)%N -> ascii_flags q = 22%N.
Proof.
  intros H. unfold ascii_flags.
  destruct (N.leb_spec 9 q), (N.leb_spec q 13), (N.leb_spec 28 q), (N.leb_spec q 32), (N.leb_spec 48 q), (N.leb_spec q 57),
    (N.leb_spec 65 q), (N.leb_spec q 90); simpl; try lia; reflexivity.
Qed.

(* the ASCII lower-casing only ever changes ASCII characters, so a string it maps to an ASCII-only string is ASCII-only *)
Lemma lower_ch_ascii_back c : ascii_ch (lower_ch c) = true -> ascii_ch c = true.
Proof.
  unfold lower_ch. destruct ((asc 65 <=? c)%N && (c <=? asc 90)%N && (N.land c 127 =? 22)%N) eqn:E; [|auto]. intros _.
  apply andb_true_iff in E as [E E3]. apply andb_true_iff in E as [E1 E2].
  apply N.leb_le in E1. apply N.leb_le in E2. apply N.eqb_eq in E3.
  change 127%N with (N.ones 7) in E3. rewrite N.land_ones in E3.
  pose proof (N.div_mod c (2 ^ 7) ltac:(discriminate)) as Q. rewrite E3 in Q.
  change (asc 65) with 8342%N in E1. change (asc 90) with 11542%N in E2. change (2 ^ 7)%N with 128%N in Q.
  unfold ascii_ch, code. rewrite N.shiftr_div_pow2. change (2 ^ 7)%N with 128%N.
  set (q := (c / 128)%N) in *. assert (65 <= q <= 90)%N as Hq by lia.
  apply andb_true_iff. split; [apply N.ltb_lt; lia|]. apply N.eqb_eq. unfold asc. rewrite (ascii_flags_upper q Hq). lia.
Qed.
Lemma lower_ascii_back s : is_ascii (lower s) = true -> is_ascii s = true.
Proof.
  induction s as [|c s IH]; [reflexivity|]. simpl. intros H. apply andb_true_iff in H as [H1 H2].
  rewrite (lower_ch_ascii_back c H1), (IH H2). reflexivity.
Qed.

Lemma spells_covered lowerU intU m v : lower_ascii_agree lowerU -> int_ascii_agree intU -> 1 <= m <= 12 ->
  spells m v -> spells_g lowerU intU m v.
Proof.
  intros HL HI Hm [H|[(s & Hv & Hd & Hp)|[(s & Hv & Hl)|(s & Hv & Hl)]]]; subst v.
  - left; reflexivity.
  - right; left. exists s. split; [reflexivity|]. split; [exact Hd|].
    pose proof (HI s _ Hp) as Q. destruct (intU s) as [z|].
    + rewrite Q. f_equal. lia.
    + exfalso. assert (Z.to_N m <= 12)%N as B by lia. pose proof (N.le_trans _ _ _ Q B) as C.
      vm_compute in C. apply C. reflexivity.
  - right; right; left. exists s. split; [reflexivity|]. rewrite <- Hl. apply HL. apply lower_ascii_back. rewrite Hl.
    destruct (range_cases m Hm) as [E|[E|[E|[E|[E|[E|[E|[E|[E|[E|[E|E]]]]]]]]]]]; subst m; vm_compute; reflexivity.
  - right; right; right. exists s. split; [reflexivity|].
    rewrite (ascii_agree_rows lowerU HL (full_of m)) by (right; apply full_of_row, Hm). rewrite <- Hl.
    apply HL. apply lower_ascii_back. rewrite Hl.
    destruct (range_cases m Hm) as [E|[E|[E|[E|[E|[E|[E|[E|[E|[E|[E|E]]]]]]]]]]]; subst m; vm_compute; reflexivity.
Qed.

(* ================================================================================================
   7. True: `isinstance(True, int)` holds, so the long / abbreviation middlewares read it as month 1 while the int
      middleware (str only) returns it.  Whichever way the property text is read this value breaks one clause:
      it is not a spelling in the sense of spells_g yet it is changed, and int-after-long differs from int alone. *)
Lemma gen_bool_refuted lowerU intU : oracles_ok lowerU ->
  ~ is_month_spelling_g lowerU intU (VBool true)
  /\ resolve_g lowerU intU MAbbrev (VBool true) = GVal (VStr (abbrev_of 1))
  /\ (exists v1, resolve_g lowerU intU MLong (VBool true) = GVal v1
                 /\ resolve_g lowerU intU MInt v1 = GVal (VInt 1)
                 /\ resolve_g lowerU intU MInt (VBool true) = GVal (VBool true)).
Proof.
  intros Hok. split; [|split].
  - intros (m & _ & [H|[(s & H & _)|[(s & H & _)|(s & H & _)]]]); discriminate H.
  - reflexivity.
  - exists (VStr (full_of 1)). split; [reflexivity|]. split; [|reflexivity].
    apply (gen_spellings _ _ Hok 1); [lia|]. right; right; right. exists (full_of 1). split; reflexivity.
Qed.
