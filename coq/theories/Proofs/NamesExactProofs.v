(* C12 exactness: on brace-balanced text the six-step machine returns exactly the pieces of the word-level
   reference splitter Spec.C12.ref_split.

   The proof goes backwards over the remaining text: from any machine state,  "what the machine will still return"
   equals  "what the reference walk returns on the runs of (pending separator candidate ++ remaining marked text)". *)
From Coq Require Import List NArith ZArith Bool Lia PeanoNat.
From BP Require Import Base.Chars Model.Blocks Gen.Constants Model.Names Spec.C12 Proofs.NamesSplitProofs.
Import ListNotations.

Definition mk := (ch * bool)%type.
Definition gm (g : str) : list mk := map (fun c => (c, true)) g.
Definition wm (w : str) : list mk := map (fun c => (c, false)) w.

Definition wcons (c : ch) (r : list (bool * str)) : list (bool * str) :=
  match r with (false, t) :: tl => (false, c :: t) :: tl | _ => (false, [c]) :: r end.
Definition gcons (c : ch) (r : list (bool * str)) : list (bool * str) :=
  match r with (true, t) :: tl => (true, c :: t) :: tl | _ => (true, [c]) :: r end.

Lemma runs_cons_f c M : runs ((c, false) :: M) = wcons c (runs M).
Proof. cbn [runs]. destruct (runs M) as [|[[|] t] tl]; reflexivity. Qed.
Lemma runs_cons_t c M : runs ((c, true) :: M) = gcons c (runs M).
Proof. cbn [runs]. destruct (runs M) as [|[[|] t] tl]; reflexivity. Qed.

(* the runs of  w ++ M  for a word w *)
Definition wapp (w : str) (r : list (bool * str)) : list (bool * str) :=
  match r with (false, t) :: tl => (false, w ++ t) :: tl | _ => (false, w) :: r end.
Lemma runs_wm w M : w <> [] -> runs (wm w ++ M) = wapp w (runs M).
Proof.
  intros Hne. induction w as [|c w IH]; [contradiction|]. cbn [wm map app]. fold (wm w).
  rewrite runs_cons_f. destruct w as [|c2 w].
  - cbn [wm map app]. unfold wcons, wapp. destruct (runs M) as [|[[|] t] tl]; reflexivity.
  - rewrite IH by discriminate. unfold wcons, wapp. destruct (runs M) as [|[[|] t] tl]; reflexivity.
Qed.

Definition starts_false (r : list (bool * str)) : Prop := match r with (true, _) :: _ => False | _ => True end.
Lemma runs_gm g M : g <> [] -> starts_false (runs M) -> runs (gm g ++ M) = (true, g) :: runs M.
Proof.
  intros Hne Hs. induction g as [|c g IH]; [contradiction|]. cbn [gm map app]. fold (gm g).
  rewrite runs_cons_t. destruct g as [|c2 g].
  - cbn [gm map app]. unfold gcons. destruct (runs M) as [|[[|] t] tl]; [reflexivity | contradiction | reflexivity].
  - rewrite IH by discriminate. reflexivity.
Qed.
Lemma wapp_starts_false w r : starts_false (wapp w r).
Proof. unfold wapp. destruct r as [|[[|] t] tl]; exact I. Qed.
Lemma wcons_starts_false c r : starts_false (wcons c r).
Proof. unfold wcons. destruct r as [|[[|] t] tl]; exact I. Qed.

Definition glue (r : list (bool * str)) (cur : str) : list str :=
  match r with (false, w) :: tl => ref_walk tl (cur ++ w) [] | _ => ref_walk r cur [] end.

Lemma nonempty_true (s : str) : s <> [] -> nonempty s = true.
Proof. destruct s; [contradiction | reflexivity]. Qed.
Lemma nonempty_app_l (a b : str) : a <> [] -> nonempty (a ++ b) = true.
Proof. destruct a; [contradiction | reflexivity]. Qed.

(* a word that is not 'and' joins the current piece *)
Lemma walk_word w tl cur g : cur <> [] -> is_and_word w = false ->
  ref_walk ((false, w) :: tl) cur g = ref_walk tl (cur ++ g ++ w) [].
Proof. intros Hc Hw. cbn [ref_walk]. rewrite Hw, (nonempty_true cur Hc). reflexivity. Qed.

Lemma glue_wapp w r cur : cur <> [] -> (forall t, is_and_word (w ++ t) = false) -> forall g,
  ref_walk (wapp w r) cur g = glue r (cur ++ g ++ w).
Proof.
  intros Hc Hw g. unfold wapp, glue. destruct r as [|[[|] t] tl].
  - rewrite walk_word; [reflexivity | exact Hc |]. specialize (Hw []). rewrite app_nil_r in Hw. exact Hw.
  - rewrite walk_word; [reflexivity | exact Hc |]. specialize (Hw []). rewrite app_nil_r in Hw. exact Hw.
  - rewrite walk_word; [|exact Hc | apply Hw]. rewrite <- !app_assoc. reflexivity.
Qed.

(* B: the candidate fails because of a word character *)
Lemma flushL g w0 c M cur : g <> [] -> cur <> [] -> (forall t, is_and_word (w0 ++ c :: t) = false) ->
  ref_walk (runs (gm g ++ wm (w0 ++ [c]) ++ M)) cur [] = glue (runs M) (cur ++ g ++ w0 ++ [c]).
Proof.
  intros Hg Hc Hw.
  assert (Hne : w0 ++ [c] <> []) by (destruct w0; discriminate).
  rewrite runs_gm; [|exact Hg | rewrite runs_wm by exact Hne; apply wapp_starts_false].
  rewrite runs_wm by exact Hne. cbn [ref_walk].
  rewrite glue_wapp; [reflexivity | exact Hc |]. intros t. rewrite <- app_assoc. apply Hw.
Qed.

(* B: the candidate fails because the word ends *)
Lemma restartL g w0 c M cur : g <> [] -> cur <> [] -> w0 <> [] -> is_and_word w0 = false ->
  ref_walk (runs (gm g ++ wm w0 ++ (c, true) :: M)) cur [] = ref_walk (runs ((c, true) :: M)) (cur ++ g ++ w0) [].
Proof.
  intros Hg Hc Hw0 Hna.
  assert (Hst : starts_false (runs (wm w0 ++ (c, true) :: M))) by (rewrite runs_wm by exact Hw0; apply wapp_starts_false).
  rewrite runs_gm by assumption. rewrite runs_wm by exact Hw0. rewrite runs_cons_t.
  cbn [ref_walk]. unfold wapp, gcons. destruct (runs M) as [|[[|] t] tl]; rewrite walk_word by assumption; reflexivity.
Qed.

(* B: a complete separator followed by the first character of the next name *)
Lemma cutL g w g2 c M cur : g <> [] -> g2 <> [] -> cur <> [] -> is_and_word w = true ->
  ref_walk (runs (gm g ++ wm w ++ gm g2 ++ (c, false) :: M)) cur [] = cur :: glue (runs M) [c].
Proof.
  intros Hg Hg2 Hc Hw.
  assert (Hwne : w <> []) by (destruct w; [discriminate | discriminate]).
  assert (E3 : runs ((c, false) :: M) = wcons c (runs M)) by apply runs_cons_f.
  assert (E2 : runs (gm g2 ++ (c, false) :: M) = (true, g2) :: wcons c (runs M)).
  { rewrite runs_gm; [rewrite E3; reflexivity | exact Hg2 | rewrite E3; apply wcons_starts_false]. }
  assert (E1 : runs (wm w ++ gm g2 ++ (c, false) :: M) = (false, w) :: (true, g2) :: wcons c (runs M)).
  { rewrite runs_wm by exact Hwne. rewrite E2. reflexivity. }
  rewrite runs_gm; [|exact Hg | rewrite E1; exact I]. rewrite E1.
  cbn [ref_walk]. rewrite Hw, (nonempty_true cur Hc).
  assert (Hhw : has_word ((true, g2) :: wcons c (runs M)) = true).
  { unfold has_word. cbn [existsb fst negb]. unfold wcons. destruct (runs M) as [|[[|] t] tl]; reflexivity. }
  rewrite Hhw. cbn [andb]. f_equal.
  unfold wcons, glue. destruct (runs M) as [|[[|] t] tl]; cbn [ref_walk nonempty andb app]; rewrite ?andb_false_r; reflexivity.
Qed.

(* B: a word character while no candidate is open *)
Lemma startL c M cur : glue (runs ((c, false) :: M)) cur = glue (runs M) (cur ++ [c]).
Proof.
  rewrite runs_cons_f. unfold wcons, glue. destruct (runs M) as [|[[|] t] tl]; try reflexivity.
  rewrite <- app_assoc. reflexivity.
Qed.
Lemma start_sepL c M cur : glue (runs ((c, true) :: M)) cur = ref_walk (runs (gm [c] ++ M)) cur [].
Proof. change (gm [c] ++ M) with ((c, true) :: M). rewrite runs_cons_t. unfold gcons, glue. destruct (runs M) as [|[[|] t] tl]; reflexivity. Qed.

(* B: the text ends inside a candidate word *)
Lemma endL g w0 cur : g <> [] -> w0 <> [] -> cur <> [] ->
  ref_walk (runs (gm g ++ wm w0 ++ [])) cur [] = [cur ++ g ++ w0].
Proof.
  intros Hg Hw Hc. rewrite app_nil_r.
  assert (E : runs (wm w0) = [(false, w0)]).
  { pose proof (runs_wm w0 [] Hw) as E. rewrite app_nil_r in E. exact E. }
  rewrite runs_gm; [|exact Hg | rewrite E; exact I]. rewrite E. cbn [ref_walk has_word existsb].
  rewrite andb_false_r. rewrite (nonempty_true cur Hc). cbn [nonempty].
  rewrite nonempty_app_l by exact Hc. reflexivity.
Qed.

(* ---------------------------------------------------------------- the machine side *)
Definition pendm (st : sst) : list mk := map (fun c => (c, ws_split c)) (rev (s_pend st)).
Definition curf (st : sst) : str := rev (s_cur st).
Definition sr (st : sst) (M : list mk) : list str :=
  match s_step st with
  | SStart => glue (runs M) (curf st)
  | _ => ref_walk (runs (pendm st ++ M)) (curf st) []
  end.
Definition out (st : sst) : list str := fst (split_result st).

Lemma letters_not_ws c : (is_aA c = true \/ is_nN c = true \/ is_dD c = true) -> ws_split c = false.
Proof.
  unfold is_aA, is_nN, is_dD. intros H.
  repeat (match goal with H : _ \/ _ |- _ => destruct H as [H|H] end);
    apply orb_true_iff in H; destruct H as [H|H]; apply N.eqb_eq in H; subst c; vm_compute; reflexivity.
Qed.
Lemma special_facts :
  is_aA c_bs = false /\ is_nN c_bs = false /\ is_dD c_bs = false /\ is_aA c_lb = false /\ is_nN c_lb = false /\ is_dD c_lb = false
  /\ ws_split c_bs = false /\ ws_split c_lb = false /\ ws_split c_rb = false.
Proof. vm_compute. auto 12. Qed.

Lemma map_ws_gm g : allws g -> map (fun c => (c, ws_split c)) g = gm g.
Proof.
  unfold allws, gm. induction g as [|c g IH]; intros H; [reflexivity|]. cbn [forallb map] in *.
  apply andb_true_iff in H. destruct H as [H1 H2]. rewrite H1, IH by exact H2. reflexivity.
Qed.
Lemma map_ws_app a b : map (fun c : ch => (c, ws_split c)) (a ++ b) = map (fun c => (c, ws_split c)) a ++ map (fun c => (c, ws_split c)) b.
Proof. apply map_app. Qed.

Lemma not_and_a c t : is_aA c = false -> is_and_word ([] ++ c :: t) = false.
Proof. intros H. cbn [app]. destruct t as [|n [|d [|x t]]]; try reflexivity. cbn. rewrite H. reflexivity. Qed.
Lemma not_and_n a c t : is_nN c = false -> is_and_word ([a] ++ c :: t) = false.
Proof. intros H. cbn [app]. destruct t as [|d [|x t]]; try reflexivity. cbn. rewrite H, andb_false_r. reflexivity. Qed.
Lemma not_and_d a n c t : is_dD c = false -> is_and_word ([a; n] ++ c :: t) = false.
Proof. intros H. cbn [app]. destruct t as [|x t]; try reflexivity. cbn. rewrite H, !andb_false_r. reflexivity. Qed.
Lemma not_and_4 a n d c t : is_and_word ([a; n; d] ++ c :: t) = false.
Proof. reflexivity. Qed.

Record WF (st : sst) : Prop := mkWF {
  wf_cur : s_cur st <> [];
  wf_shape : shape (s_step st) (rev (s_pend st));
  wf_esc : s_esc st = false;
  wf_depth : s_depth st <> 0%N -> s_step st = SStart
}.

Lemma curf_ne st : s_cur st <> [] -> curf st <> [].
Proof. unfold curf. intros H E. apply H. destruct (s_cur st) as [|x l]; [reflexivity|]. simpl in E. destruct (rev l); discriminate. Qed.

(* a word character that cannot extend the candidate *)
Definition nonext (st : sst) (c : ch) : Prop :=
  match s_step st with
  | SFindA => is_aA c = false | SFindN => is_nN c = false | SFindD => is_dD c = false | _ => True
  end.

Lemma word_step st c M d e : s_cur st <> [] -> shape (s_step st) (rev (s_pend st)) -> nonext st c ->
  let st' := if is_next (s_step st) then s_cut st c d e else s_flush st c d e in
  rev (s_pieces st) ++ sr st ((c, false) :: M) = rev (s_pieces st') ++ sr st' M.
Proof.
  intros Hc Hsh Hn. pose proof (curf_ne st Hc) as Hcf.
  unfold sr, pendm, nonext in *. destruct (s_step st) eqn:Est; cbn [is_next]; cbv zeta;
    unfold s_flush, s_cut, curf in *; cbn [s_step s_cur s_pend s_pieces]; simpl in Hsh.
  - (* START *)
    assert (s_pend st = []) as -> by (destruct (s_pend st) as [|x l]; [reflexivity|]; simpl in Hsh; destruct (rev l); discriminate).
    cbn [app rev]. rewrite startL. reflexivity.
  - destruct Hsh as [Hne Hall]. rewrite (map_ws_gm _ Hall).
    change ((c, false) :: M) with (wm ([] ++ [c]) ++ M).
    rewrite flushL; [|exact Hne | exact Hcf | intros t; apply not_and_a; exact Hn].
    cbn [rev]. rewrite rev_app_distr, <- !app_assoc. reflexivity.
  - destruct Hsh as (w & a & E & Hne & Hall & Ha). rewrite E, map_ws_app, (map_ws_gm _ Hall). cbn [map].
    rewrite (letters_not_ws a) by auto. rewrite <- app_assoc.
    change ([(a, false)] ++ (c, false) :: M) with (wm ([a] ++ [c]) ++ M).
    rewrite flushL; [|exact Hne | exact Hcf | intros t; apply not_and_n; exact Hn].
    cbn [rev]. rewrite rev_app_distr. rewrite <- (rev_involutive (s_pend st)) at 1. rewrite E. rewrite rev_involutive.
    rewrite <- !app_assoc. reflexivity.
  - destruct Hsh as (w & a & n & E & Hne & Hall & Ha & Hnn). rewrite E, map_ws_app, (map_ws_gm _ Hall). cbn [map].
    rewrite (letters_not_ws a), (letters_not_ws n) by auto. rewrite <- app_assoc.
    change ([(a, false); (n, false)] ++ (c, false) :: M) with (wm ([a; n] ++ [c]) ++ M).
    rewrite flushL; [|exact Hne | exact Hcf | intros t; apply not_and_d; exact Hn].
    cbn [rev]. rewrite rev_app_distr. rewrite <- (rev_involutive (s_pend st)) at 1. rewrite E. rewrite rev_involutive.
    rewrite <- !app_assoc. reflexivity.
  - destruct Hsh as (w & a & n & dd & E & Hne & Hall & Ha & Hnn & Hd). rewrite E, map_ws_app, (map_ws_gm _ Hall). cbn [map].
    rewrite (letters_not_ws a), (letters_not_ws n), (letters_not_ws dd) by auto. rewrite <- app_assoc.
    change ([(a, false); (n, false); (dd, false)] ++ (c, false) :: M) with (wm ([a; n; dd] ++ [c]) ++ M).
    rewrite flushL; [|exact Hne | exact Hcf | intros t; apply not_and_4].
    cbn [rev]. rewrite rev_app_distr. rewrite <- (rev_involutive (s_pend st)) at 1. rewrite E. rewrite rev_involutive.
    rewrite <- !app_assoc. reflexivity.
  - destruct Hsh as (w & a & n & dd & w2 & E & Hne & Hall & Ha & Hnn & Hd & Hne2 & Hall2).
    rewrite E, map_ws_app, (map_ws_gm _ Hall). cbn [map]. rewrite (map_ws_gm _ Hall2).
    rewrite (letters_not_ws a), (letters_not_ws n), (letters_not_ws dd) by auto. rewrite <- !app_assoc. cbn [app].
    change ((a, false) :: (n, false) :: (dd, false) :: gm w2 ++ (c, false) :: M) with (wm [a; n; dd] ++ gm w2 ++ (c, false) :: M).
    rewrite cutL; [|exact Hne | exact Hne2 | exact Hcf | cbn; rewrite Ha, Hnn, Hd; reflexivity].
    cbn [rev]. rewrite <- app_assoc. reflexivity.
Qed.

Lemma more_step st c M step' : s_step st <> SStart -> step' <> SStart ->
  sr st ((c, ws_split c) :: M) = sr (s_more st c step') M.
Proof.
  intros H1 H2. unfold sr, pendm, curf, s_more. cbn [s_step s_cur s_pend rev].
  destruct (s_step st); try contradiction; destruct step'; try contradiction;
    rewrite map_app; cbn [map]; rewrite <- app_assoc; reflexivity.
Qed.

Lemma restart_step st c M : s_cur st <> [] -> shape (s_step st) (rev (s_pend st)) -> ws_split c = true ->
  (s_step st = SStart \/ s_step st = SFindN \/ s_step st = SFindD) ->
  sr st ((c, true) :: M) = sr (s_restart st c) M.
Proof.
  intros Hc Hsh Hws Hst. pose proof (curf_ne st Hc) as Hcf.
  unfold sr, pendm, curf, s_restart in *. cbn [s_step s_cur s_pend rev app map]. rewrite Hws.
  destruct Hst as [E|[E|E]]; rewrite E in *; simpl in Hsh.
  - assert (s_pend st = []) as -> by (destruct (s_pend st) as [|x l]; [reflexivity|]; simpl in Hsh; destruct (rev l); discriminate).
    cbn [app rev]. apply start_sepL.
  - destruct Hsh as (w & a & Ep & Hne & Hall & Ha). rewrite Ep, map_ws_app, (map_ws_gm _ Hall). cbn [map].
    rewrite (letters_not_ws a) by auto. rewrite <- app_assoc.
    change ([(a, false)] ++ (c, true) :: M) with (wm [a] ++ (c, true) :: M).
    rewrite restartL; [|exact Hne | exact Hcf | discriminate | reflexivity].
    rewrite rev_app_distr. rewrite <- (rev_involutive (s_pend st)) at 1. rewrite Ep, rev_involutive. reflexivity.
  - destruct Hsh as (w & a & n & Ep & Hne & Hall & Ha & Hn). rewrite Ep, map_ws_app, (map_ws_gm _ Hall). cbn [map].
    rewrite (letters_not_ws a), (letters_not_ws n) by auto. rewrite <- app_assoc.
    change ([(a, false); (n, false)] ++ (c, true) :: M) with (wm [a; n] ++ (c, true) :: M).
    rewrite restartL; [|exact Hne | exact Hcf | discriminate | reflexivity].
    rewrite rev_app_distr. rewrite <- (rev_involutive (s_pend st)) at 1. rewrite Ep, rev_involutive. reflexivity.
Qed.

Lemma end_step st : s_cur st <> [] -> shape (s_step st) (rev (s_pend st)) ->
  s_step st <> SFindA -> s_step st <> SNextWord -> out st = rev (s_pieces st) ++ sr st [].
Proof.
  intros Hc Hsh H1 H2. pose proof (curf_ne st Hc) as Hcf.
  unfold out, split_result, sr, pendm, curf in *. cbn [fst rev]. f_equal. rewrite rev_app_distr.
  destruct (s_step st) eqn:E; try contradiction; simpl in Hsh.
  - assert (s_pend st = []) as -> by (destruct (s_pend st) as [|x l]; [reflexivity|]; simpl in Hsh; destruct (rev l); discriminate).
    cbn [rev app runs glue ref_walk]. rewrite app_nil_r. rewrite (nonempty_true _ Hcf). reflexivity.
  - destruct Hsh as (w & a & Ep & Hne & Hall & Ha). rewrite Ep, map_ws_app, (map_ws_gm _ Hall). cbn [map].
    rewrite (letters_not_ws a) by auto. rewrite <- app_assoc.
    change ([(a, false)] ++ []) with (wm [a] ++ []). rewrite endL; [reflexivity | exact Hne | discriminate | exact Hcf].
  - destruct Hsh as (w & a & n & Ep & Hne & Hall & Ha & Hn). rewrite Ep, map_ws_app, (map_ws_gm _ Hall). cbn [map].
    rewrite (letters_not_ws a), (letters_not_ws n) by auto. rewrite <- app_assoc.
    change ([(a, false); (n, false)] ++ []) with (wm [a; n] ++ []). rewrite endL; [reflexivity | exact Hne | discriminate | exact Hcf].
  - destruct Hsh as (w & a & n & d & Ep & Hne & Hall & Ha & Hn & Hd). rewrite Ep, map_ws_app, (map_ws_gm _ Hall). cbn [map].
    rewrite (letters_not_ws a), (letters_not_ws n), (letters_not_ws d) by auto. rewrite <- app_assoc.
    change ([(a, false); (n, false); (d, false)] ++ []) with (wm [a; n; d] ++ []). rewrite endL; [reflexivity | exact Hne | discriminate | exact Hcf].
Qed.

(* ---------------------------------------------------------------- the backward induction over the text *)
Definition tail_ok (s : str) (st : sst) : Prop :=
  match s with
  | [] => s_step st <> SFindA /\ s_step st <> SNextWord
  | _ => ws_split (last s 0%N) = false
  end.

Lemma tail_ok_cons c r st st' : tail_ok (c :: r) st -> (r = [] -> s_step st' <> SFindA /\ s_step st' <> SNextWord) -> tail_ok r st'.
Proof.
  intros H Hr. destruct r as [|x r]; [apply Hr; reflexivity|]. exact H.
Qed.

Lemma is_next_false st : s_step st <> SNextWord -> is_next (s_step st) = false.
Proof. destruct (s_step st); try reflexivity. intros H; contradiction. Qed.

Lemma exact_go : forall n s st pre, (length s <= n)%nat -> Inv pre st -> s_esc st = false ->
  (s_depth st <> 0%N -> s_step st = SStart) -> balanced_go s (s_depth st) = true -> tail_ok s st ->
  out (fold_left split_step s st) = rev (s_pieces st) ++ sr st (marks_go s (s_depth st)).
Proof.
  induction n as [|n IH]; intros s st pre Hn HI He Hd Hb Ht.
  { destruct s; [|simpl in Hn; lia]. cbn [fold_left marks_go]. destruct Ht as [T1 T2].
    apply end_step; [apply (i_cur_ne _ _ HI) | apply (i_shape _ _ HI) | exact T1 | exact T2]. }
  destruct s as [|c r].
  { cbn [fold_left marks_go]. destruct Ht as [T1 T2].
    apply end_step; [apply (i_cur_ne _ _ HI) | apply (i_shape _ _ HI) | exact T1 | exact T2]. }
  pose proof (i_cur_ne _ _ HI) as Hcur. pose proof (i_shape _ _ HI) as Hsh.
  pose proof (step_inv pre st c HI) as HI1.
  destruct special_facts as (Fa & Fn & Fd & La & Ln & Ld & Wb & Wl & Wr).
  cbn [fold_left]. cbn [marks_go balanced_go] in *.
  set (FL := fold_left split_step).
  unfold split_step in HI1 |- *. rewrite He in HI1 |- *.
  destruct (ceq c c_bs) eqn:Ebs.
  { (* a backslash *)
    apply N.eqb_eq in Ebs. subst c.
    assert (Hnx : nonext st c_bs) by (unfold nonext; destruct (s_step st); auto).
    pose proof (word_step st c_bs (match r with [] => [] | e :: r' => (e, false) :: marks_go r' (s_depth st) end)
                          (s_depth st) true Hcur Hsh Hnx) as HW. cbv zeta in HW.
    set (st1 := if is_next (s_step st) then s_cut st c_bs (s_depth st) true else s_flush st c_bs (s_depth st) true) in *.
    assert (Hst1 : s_step st1 = SStart /\ s_pend st1 = [] /\ s_esc st1 = true /\ s_depth st1 = s_depth st).
    { unfold st1. destruct (is_next (s_step st)); cbn; auto. }
    destruct Hst1 as (S1 & S2 & S3 & S4).
    destruct r as [|e r'].
    - unfold FL. cbn [fold_left]. rewrite HW. apply end_step; [apply (i_cur_ne _ _ HI1) | apply (i_shape _ _ HI1) | rewrite S1; discriminate | rewrite S1; discriminate].
    - rewrite HW. unfold FL. cbn [fold_left].
      pose proof (step_inv _ st1 e HI1) as HI2.
      assert (E2 : split_step st1 e = mksst (s_step st1) (s_depth st1) false (e :: s_cur st1) (s_pend st1) (s_pieces st1) (s_seps st1))
        by (unfold split_step; rewrite S3; reflexivity).
      rewrite E2 in HI2 |- *.
      set (st2 := mksst (s_step st1) (s_depth st1) false (e :: s_cur st1) (s_pend st1) (s_pieces st1) (s_seps st1)) in *.
      assert (Esr : sr st1 ((e, false) :: marks_go r' (s_depth st)) = sr st2 (marks_go r' (s_depth st))).
      { unfold sr, st2, curf. cbn [s_step s_cur]. rewrite S1. cbn [rev]. apply startL. }
      rewrite Esr. rewrite <- S4.
      apply (IH r' st2 ((pre ++ [c_bs]) ++ [e])); [simpl in Hn; lia | exact HI2 | reflexivity | intros _; unfold st2; cbn; exact S1 | | ].
      + unfold st2. cbn [s_depth]. rewrite S4. exact Hb.
      + apply (tail_ok_cons e r' st); [apply (tail_ok_cons c_bs (e :: r') st st); [exact Ht | intros E; discriminate]|].
        intros _. unfold st2. cbn [s_step]. rewrite S1. split; discriminate. }
  destruct (ceq c c_lb) eqn:Elb.
  { apply N.eqb_eq in Elb. subst c.
    assert (Hnx : nonext st c_lb) by (unfold nonext; destruct (s_step st); auto).
    pose proof (word_step st c_lb (marks_go r (s_depth st + 1)) (s_depth st + 1)%N false Hcur Hsh Hnx) as HW. cbv zeta in HW.
    set (st1 := if is_next (s_step st) then s_cut st c_lb (s_depth st + 1) false else s_flush st c_lb (s_depth st + 1) false) in *.
    assert (Hst1 : s_step st1 = SStart /\ s_esc st1 = false /\ s_depth st1 = (s_depth st + 1)%N).
    { unfold st1. destruct (is_next (s_step st)); cbn; auto. }
    destruct Hst1 as (S1 & S3 & S4).
    rewrite HW. rewrite <- S4.
    apply (IH r st1 (pre ++ [c_lb])); [simpl in Hn; lia | exact HI1 | exact S3 | intros _; exact S1 | rewrite S4; exact Hb |].
    eapply (tail_ok_cons _ _ st); [exact Ht | intros _; rewrite S1; split; discriminate]. }
  destruct (ceq c c_rb) eqn:Erb.
  { apply N.eqb_eq in Erb. subst c.
    destruct (s_depth st =? 0)%N eqn:Ed; [discriminate|]. apply N.eqb_neq in Ed.
    pose proof (Hd Ed) as Hst.
    assert (Hnx : nonext st c_rb) by (unfold nonext; rewrite Hst; exact I).
    pose proof (word_step st c_rb (marks_go r (N.pred (s_depth st))) (N.pred (s_depth st)) false Hcur Hsh Hnx) as HW.
    cbv zeta in HW. rewrite Hst in HW. cbn [is_next] in HW.
    set (st1 := s_flush st c_rb (N.pred (s_depth st)) false) in *.
    rewrite HW.
    apply (IH r st1 (pre ++ [c_rb])); [simpl in Hn; lia | exact HI1 | reflexivity | intros _; reflexivity | exact Hb |].
    eapply (tail_ok_cons _ _ st); [exact Ht | intros _; cbn; split; discriminate]. }
  destruct (s_depth st =? 0)%N eqn:Ed; cbn [negb andb] in *.
  2:{ (* inside braces *)
    apply N.eqb_neq in Ed. pose proof (Hd Ed) as Hst.
    assert (Hnx : nonext st c) by (unfold nonext; rewrite Hst; exact I).
    pose proof (word_step st c (marks_go r (s_depth st)) (s_depth st) false Hcur Hsh Hnx) as HW.
    cbv zeta in HW. rewrite Hst in HW. cbn [is_next] in HW.
    set (st1 := s_flush st c (s_depth st) false) in *.
    rewrite HW.
    apply (IH r st1 (pre ++ [c])); [simpl in Hn; lia | exact HI1 | reflexivity | intros _; reflexivity | exact Hb |].
    eapply (tail_ok_cons _ _ st); [exact Ht | intros _; cbn; split; discriminate]. }
  (* depth 0 *)
  apply N.eqb_eq in Ed.
  assert (Hlast : r = [] -> ws_split c = false) by (intros ->; exact Ht).
  (* the three kinds of transition *)
  assert (Kflush : nonext st c -> ws_split c = false -> s_step st <> SNextWord ->
            out (fold_left split_step r (s_flush st c 0 false)) = rev (s_pieces st) ++ sr st ((c, ws_split c) :: marks_go r (s_depth st))).
  { intros Hnx Hws Hnn. rewrite Hws.
    pose proof (word_step st c (marks_go r (s_depth st)) 0%N false Hcur Hsh Hnx) as HW. cbv zeta in HW.
    rewrite (is_next_false st Hnn) in HW. rewrite HW. rewrite Ed.
    apply (IH r (s_flush st c 0 false) (pre ++ [c])); [simpl in Hn; lia | apply flush_inv; exact HI | reflexivity | intros H; exfalso; apply H; reflexivity | cbn [s_depth s_flush]; rewrite <- Ed; exact Hb |].
    eapply (tail_ok_cons _ _ st); [exact Ht | intros _; cbn; split; discriminate]. }
  assert (Kmore : forall step', step' <> SStart -> s_step st <> SStart -> shape step' (rev (s_pend st) ++ [c]) ->
            (r = [] -> step' <> SFindA /\ step' <> SNextWord) ->
            out (fold_left split_step r (s_more st c step')) = rev (s_pieces st) ++ sr st ((c, ws_split c) :: marks_go r (s_depth st))).
  { intros step' H1 H2 Hsh' Hr. rewrite (more_step st c _ step' H2 H1).
    apply (IH r (s_more st c step') (pre ++ [c])); [simpl in Hn; lia | apply more_inv; [exact HI | exact Hsh'] | reflexivity | | exact Hb |].
    - cbn [s_depth s_more]. intros H. rewrite Ed in H. contradiction.
    - eapply (tail_ok_cons _ _ st); [exact Ht | exact Hr]. }
  assert (Krestart : ws_split c = true -> (s_step st = SStart \/ s_step st = SFindN \/ s_step st = SFindD) ->
            out (fold_left split_step r (s_restart st c)) = rev (s_pieces st) ++ sr st ((c, ws_split c) :: marks_go r (s_depth st))).
  { intros Hws Hst. rewrite Hws. rewrite (restart_step st c _ Hcur Hsh Hws Hst).
    apply (IH r (s_restart st c) (pre ++ [c])); [simpl in Hn; lia | apply restart_inv; assumption | reflexivity | | exact Hb |].
    - cbn [s_depth s_restart]. intros H. rewrite Ed in H. contradiction.
    - eapply (tail_ok_cons _ _ st); [exact Ht|]. intros Hr. rewrite (Hlast Hr) in Hws. discriminate. }
  rewrite Ed in *. cbn [N.eqb andb].
  destruct (s_step st) eqn:Est; simpl in Hsh.
  - destruct (ws_split c) eqn:Ews.
    + apply Krestart; auto.
    + apply Kflush; [unfold nonext; rewrite Est; exact I | first [exact Ews | reflexivity] | first [rewrite Est; discriminate | discriminate]].
  - destruct (is_aA c) eqn:Ea.
    + apply Kmore; [discriminate | first [rewrite Est; discriminate | discriminate] | | intros _; split; discriminate].
      destruct Hsh as [Hne Hall]. exists (rev (s_pend st)), c. auto.
    + destruct (ws_split c) eqn:Ews.
      * apply Kmore; [discriminate | first [rewrite Est; discriminate | discriminate] | | intros Hr; pose proof (Hlast Hr) as Hl; first [rewrite Hl in Ews; discriminate | discriminate]].
        destruct Hsh as [Hne Hall]. split; [intros E; apply app_eq_nil in E; tauto | apply allws_app; assumption].
      * apply Kflush; [unfold nonext; rewrite Est; exact Ea | first [exact Ews | reflexivity] | first [rewrite Est; discriminate | discriminate]].
  - destruct (is_nN c) eqn:En.
    + apply Kmore; [discriminate | first [rewrite Est; discriminate | discriminate] | | intros _; split; discriminate].
      destruct Hsh as (w & a & E & Hne & Hall & Ha). exists w, a, c. rewrite E, <- app_assoc. auto.
    + destruct (ws_split c) eqn:Ews.
      * apply Krestart; auto.
      * apply Kflush; [unfold nonext; rewrite Est; exact En | first [exact Ews | reflexivity] | first [rewrite Est; discriminate | discriminate]].
  - destruct (is_dD c) eqn:Edd.
    + apply Kmore; [discriminate | first [rewrite Est; discriminate | discriminate] | | intros _; split; discriminate].
      destruct Hsh as (w & a & n0 & E & Hne & Hall & Ha & Hn0). exists w, a, n0, c. rewrite E, <- app_assoc. auto 10.
    + destruct (ws_split c) eqn:Ews.
      * apply Krestart; auto.
      * apply Kflush; [unfold nonext; rewrite Est; exact Edd | first [exact Ews | reflexivity] | first [rewrite Est; discriminate | discriminate]].
  - destruct (ws_split c) eqn:Ews.
    + apply Kmore; [discriminate | first [rewrite Est; discriminate | discriminate] | | intros Hr; pose proof (Hlast Hr) as Hl; first [rewrite Hl in Ews; discriminate | discriminate]].
      destruct Hsh as (w & a & n0 & d0 & E & Hne & Hall & Ha & Hn0 & Hd0).
      exists w, a, n0, d0, [c]. rewrite E, <- app_assoc. repeat split; auto; try discriminate.
      unfold allws. simpl. rewrite Ews. reflexivity.
    + apply Kflush; [unfold nonext; rewrite Est; exact I | first [exact Ews | reflexivity] | first [rewrite Est; discriminate | discriminate]].
  - destruct (ws_split c) eqn:Ews.
    + apply Kmore; [discriminate | first [rewrite Est; discriminate | discriminate] | | intros Hr; pose proof (Hlast Hr) as Hl; first [rewrite Hl in Ews; discriminate | discriminate]].
      destruct Hsh as (w & a & n0 & d0 & w2 & E & Hne & Hall & Ha & Hn0 & Hd0 & Hne2 & Hall2).
      exists w, a, n0, d0, (w2 ++ [c]). rewrite E, <- !app_assoc. repeat split; auto.
      * intros E2. apply app_eq_nil in E2. tauto.
      * apply allws_app; assumption.
    + (* the next name starts *)
      assert (Hnx : nonext st c) by (unfold nonext; rewrite Est; exact I).
      pose proof (word_step st c (marks_go r 0%N) 0%N false Hcur ltac:(rewrite Est; simpl; exact Hsh) Hnx) as HW. cbv zeta in HW.
      rewrite Est in HW. cbn [is_next] in HW. rewrite HW.
      apply (IH r (s_cut st c 0 false) (pre ++ [c])); [simpl in Hn; lia | apply cut_inv; [exact HI | exact Est] | reflexivity | intros H; exfalso; apply H; reflexivity | exact Hb |].
      eapply (tail_ok_cons _ _ st); [exact Ht | intros _; cbn; split; discriminate].
Qed.

(* ---------------------------------------------------------------- the theorem *)
Lemma first_word c R : ref_walk (wcons c R) [] [] = glue R [c].
Proof. unfold wcons, glue. destruct R as [|[[|] t] tl]; cbn [ref_walk nonempty andb app]; rewrite ?andb_false_r; reflexivity. Qed.

Lemma strip_set_last p s : match strip_set p s with [] => True | x :: l => p (last (x :: l) 0%N) = false end.
Proof.
  unfold strip_set. pose proof (lstrip_set_head p (rev (lstrip_set p s))) as H.
  destruct (lstrip_set p (rev (lstrip_set p s))) as [|y u] eqn:E; [exact I|].
  cbn [rev]. destruct (rev u ++ [y]) as [|x l] eqn:E2; [exact I|]. rewrite <- E2.
  clear - H. induction (rev u) as [|z w IH]; [exact H|]. cbn [app]. destruct (w ++ [y]) eqn:E; [destruct w; discriminate|]. exact IH.
Qed.

Theorem split_exact s : C12.balanced (strip4 s) = true -> split_names s = ref_split s.
Proof.
  intros Hb. unfold split_names, split_names_seps, ref_split.
  pose proof (strip_set_head ws_split s) as Hhead. pose proof (strip_set_last ws_split s) as Hlast.
  fold (strip4 s) in Hhead, Hlast. unfold C12.balanced in Hb.
  destruct (strip4 s) as [|c t]; [reflexivity|].
  unfold split_run. cbn [fold_left]. fold (out (fold_left split_step t (split_step sst0 c))).
  pose proof (first_inv c Hhead) as HI1.
  destruct special_facts as (_ & _ & _ & _ & _ & _ & Wb & Wl & Wr).
  unfold marks. cbn [marks_go balanced_go] in *.
  set (FL := fold_left split_step).
  unfold split_step in HI1 |- *. cbn [s_esc sst0 s_step is_next s_depth] in HI1 |- *.
  destruct (ceq c c_bs) eqn:Ebs.
  { apply N.eqb_eq in Ebs. subst c.
    set (st1 := s_flush sst0 c_bs 0 true) in *.
    destruct t as [|e r'].
    - reflexivity.
    - unfold FL. cbn [fold_left].
      pose proof (step_inv _ st1 e HI1) as HI2.
      assert (E2 : split_step st1 e = mksst SStart 0 false [e; c_bs] [] [] []) by reflexivity.
      rewrite E2 in HI2 |- *. set (st2 := mksst SStart 0 false [e; c_bs] [] [] []) in *.
      rewrite (exact_go (length r') r' st2 _ (le_n _) HI2 eq_refl); [| intros H; exfalso; apply H; reflexivity | exact Hb |].
      + unfold sr, curf, st2. cbn [s_pieces s_step s_cur s_depth rev app]. rewrite !runs_cons_f, first_word.
        unfold wcons, glue. destruct (runs (marks_go r' 0)) as [|[[|] t0] tl0]; reflexivity.
      + destruct r' as [|x r'']; [split; discriminate|]. exact Hlast. }
  destruct (ceq c c_lb) eqn:Elb.
  { set (st1 := s_flush sst0 c (0 + 1) false) in *. unfold FL.
    rewrite (exact_go (length t) t st1 _ (le_n _) HI1 eq_refl); [| intros _; reflexivity | exact Hb |].
    - cbn [s_pieces st1 rev app]. rewrite runs_cons_f, first_word. reflexivity.
    - destruct t as [|x t']; [split; discriminate|]. exact Hlast. }
  destruct (ceq c c_rb) eqn:Erb; [discriminate|].
  cbn [N.eqb negb] in *. rewrite Hhead in *.
  set (st1 := s_flush sst0 c 0 false) in *. unfold FL.
  rewrite (exact_go (length t) t st1 _ (le_n _) HI1 eq_refl); [| intros H; exfalso; apply H; reflexivity | exact Hb |].
  - cbn [s_pieces st1 rev app andb]. rewrite runs_cons_f, first_word. reflexivity.
  - destruct t as [|x t']; [split; discriminate|]. exact Hlast.
Qed.

(* ---------------------------------------------------------------- protected text never splits *)
Lemma all_false_wm (M : list mk) : Forall (fun x => snd x = false) M -> M = wm (map fst M).
Proof.
  intros H. induction H as [|[c b] M Hx H IH]; [reflexivity|]. cbn in Hx. subst b. cbn [map wm fst]. unfold wm in IH. rewrite <- IH. reflexivity.
Qed.

Theorem protected_one_piece s : C12.balanced (strip4 s) = true -> strip4 s <> [] ->
  Forall (fun x => snd x = false) (marks (strip4 s)) -> split_names s = [map fst (marks (strip4 s))].
Proof.
  intros Hb Hne Hall. rewrite (split_exact s Hb). unfold ref_split.
  rewrite (all_false_wm _ Hall) at 1.
  assert (Hm : map fst (marks (strip4 s)) <> []).
  { unfold marks. destruct (strip4 s) as [|c t]; [contradiction|]. cbn [marks_go].
    destruct (ceq c c_bs); [destruct t; discriminate|]. destruct (ceq c c_lb); [discriminate|]. destruct (ceq c c_rb); discriminate. }
  pose proof (runs_wm (map fst (marks (strip4 s))) [] Hm) as E. rewrite app_nil_r in E. rewrite E.
  cbn [wapp runs ref_walk nonempty andb has_word existsb]. rewrite andb_false_r.
  destruct (map fst (marks (strip4 s))); [contradiction | reflexivity].
Qed.

Lemma marks_text : forall n s d, (length s <= n)%nat -> map fst (marks_go s d) = s.
Proof.
  induction n as [|n IH]; intros s d Hn; [destruct s; [reflexivity | simpl in Hn; lia]|].
  destruct s as [|c r]; [reflexivity|]. cbn [marks_go].
  destruct (ceq c c_bs).
  - destruct r as [|e r']; [reflexivity|]. cbn [map fst]. rewrite IH by (simpl in Hn; lia). reflexivity.
  - destruct (ceq c c_lb); [cbn [map fst]; rewrite IH by (simpl in Hn; lia); reflexivity|].
    destruct (ceq c c_rb); cbn [map fst]; rewrite IH by (simpl in Hn; lia); reflexivity.
Qed.

Theorem protected_never_splits s : C12.balanced (strip4 s) = true -> strip4 s <> [] ->
  Forall (fun x => snd x = false) (marks (strip4 s)) -> split_names s = [strip4 s].
Proof.
  intros Hb Hne Hall. rewrite (protected_one_piece s Hb Hne Hall). unfold marks. rewrite (marks_text _ _ 0%N (le_n _)). reflexivity.
Qed.
