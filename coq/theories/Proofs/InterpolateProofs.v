(* Proofs for C11 (Model/Interpolate.v against Spec/C11.v). *)
From Coq Require Import List NArith ZArith Bool Lia String.
From BP Require Import Base.Chars Model.Blocks Model.LibAdd Gen.Constants Model.Enclosing Model.Interpolate Spec.C10 Spec.C11
  Proofs.LibAddProofs Proofs.EnclosingProofs.
Import ListNotations.

Lemma first_is_starts c s : first_is c s = true <-> starts s c.
Proof.
  unfold first_is, starts. destruct s as [|x r].
  - split; [discriminate | intros [r H]; discriminate].
  - rewrite ceq_eq. split; [intros ->; exists r; reflexivity | intros [r' H]; inversion H; reflexivity].
Qed.

Lemma last_is_ends c s : last_is c s = true <-> ends s c.
Proof.
  unfold last_is, ends. rewrite rv_rev. destruct (rev s) as [|x r] eqn:E.
  - apply (f_equal (@rev ch)) in E. rewrite rev_involutive in E. simpl in E. subst.
    split; [discriminate | intros [p H]; destruct p; discriminate].
  - apply (f_equal (@rev ch)) in E. rewrite rev_involutive in E. simpl in E. subst.
    rewrite ceq_eq. split; [intros ->; exists (rev r); reflexivity | intros [p H]; apply app_inj_tail in H; tauto].
Qed.

Lemma enclosed_b s : nonstring_or_enclosed (VStr s) = true <-> enclosed s.
Proof.
  unfold nonstring_or_enclosed, enclosed.
  rewrite orb_true_iff, !andb_true_iff, !first_is_starts, !last_is_ends. tauto.
Qed.

Lemma first_string_block_value bs k : first_string bs k = option_map string_value (first_string_block bs k).
Proof.
  induction bs as [|b bs IH]; [reflexivity|].
  destruct b; simpl; try exact IH. destruct (str_eqb k key); [reflexivity | exact IH].
Qed.

Lemma strs_first_value bs k :
  match dict_get (strs (lib_of bs)) k with Some sb => Some (string_value sb) | None => None end = first_string bs k.
Proof. rewrite strs_first, first_string_block_value. destruct (first_string_block bs k); reflexivity. Qed.

(* the inner loop computes exactly the spec relation *)
Lemma resolve_fields_spec bs fs :
  res_fields bs fs (fst (resolve_fields (strs (lib_of bs)) fs)) (snd (resolve_fields (strs (lib_of bs)) fs)).
Proof.
  induction fs as [|f r IH]; [constructor|].
  cbn [resolve_fields]. destruct (resolve_fields (strs (lib_of bs)) r) as [r' ks] eqn:Er. cbn [fst snd] in IH.
  destruct (nonstring_or_enclosed (fval f)) eqn:En.
  - cbn [fst snd]. apply rf_miss; [|exact IH]. intros v (s & Ev & Hne & _). rewrite Ev in En. apply enclosed_b in En. contradiction.
  - destruct (fval f) as [s| | | | | | | |] eqn:Ev; try discriminate.
    pose proof (strs_first_value bs s) as Hs.
    destruct (dict_get (strs (lib_of bs)) s) as [sb|] eqn:Eg; cbn [fst snd].
    + apply rf_hit; [|exact IH]. exists s. repeat split; [exact Ev | | symmetry; exact Hs].
      intros He. apply enclosed_b in He. congruence.
    + apply rf_miss; [|exact IH]. intros v (s' & Ev' & _ & Hf). rewrite Ev in Ev'. inversion Ev'; subst. congruence.
Qed.

Definition resolved_hdr (h : hdr) (ks : list str) : hdr :=
  match ks with [] => h | _ => set_meta h resolve_meta_key (VList (map VStr ks)) end.

Lemma resolve_block_entry sd h t k fs :
  resolve_block sd (BEntry h t k fs) =
  BEntry (resolved_hdr h (snd (resolve_fields sd fs))) t k (fst (resolve_fields sd fs)).
Proof. cbn [resolve_block]. destruct (resolve_fields sd fs) as [fs' ks]. destruct ks; reflexivity. Qed.

(* live entries: resolved exactly as the spec relation says, at the same position *)
Theorem resolve_entries bs i h t k fs : nth_error (lblocks (lib_of bs)) i = Some (BEntry h t k fs) ->
  exists fs' ks, res_fields bs fs fs' ks /\ nth_error (resolve_lib bs) i = Some (BEntry (resolved_hdr h ks) t k fs').
Proof.
  intros H. exists (fst (resolve_fields (strs (lib_of bs)) fs)), (snd (resolve_fields (strs (lib_of bs)) fs)).
  split; [apply resolve_fields_spec|].
  unfold resolve_lib, resolve_on. rewrite nth_error_map, H. cbn [option_map]. rewrite resolve_block_entry. reflexivity.
Qed.

(* everything that is not a live entry (strings, wrapped duplicates, failed blocks, comments) is untouched *)
Theorem resolve_others bs i b : nth_error (lblocks (lib_of bs)) i = Some b -> is_entry b = false ->
  nth_error (resolve_lib bs) i = Some b.
Proof.
  intros H Hb. unfold resolve_lib, resolve_on. rewrite nth_error_map, H. cbn [option_map]. destruct b; try discriminate; reflexivity.
Qed.

Theorem resolve_length bs : List.length (resolve_lib bs) = List.length (lblocks (lib_of bs)).
Proof. unfold resolve_lib, resolve_on. apply map_length. Qed.

(* consequences of the relation, position by position *)
Lemma res_fields_hit bs fs fs' ks : res_fields bs fs fs' ks -> forall j f v, nth_error fs j = Some f -> Resolvable bs f v ->
  nth_error fs' j = Some (mkfield (fkey f) v (fline f)) /\ In (fkey f) ks.
Proof.
  induction 1 as [|f0 v0 r r' ks Hr _ IH|f0 r r' ks Hn _ IH]; intros j f v Hj Hv.
  - destruct j; discriminate.
  - destruct j as [|j]; simpl in Hj.
    + inversion Hj; subst. destruct Hr as (s & E1 & _ & F1). destruct Hv as (s' & E2 & _ & F2).
      rewrite E1 in E2. inversion E2; subst. rewrite F1 in F2. inversion F2; subst. split; [reflexivity | left; reflexivity].
    + destruct (IH j f v Hj Hv) as [A B]. split; [exact A | right; exact B].
  - destruct j as [|j]; simpl in Hj.
    + inversion Hj; subst. exfalso. exact (Hn v Hv).
    + exact (IH j f v Hj Hv).
Qed.

Lemma res_fields_keys bs fs fs' ks : res_fields bs fs fs' ks ->
  map fkey fs' = map fkey fs /\ map fline fs' = map fline fs /\ (forall k, In k ks -> exists f v, In f fs /\ fkey f = k /\ Resolvable bs f v).
Proof.
  induction 1 as [|f0 v0 r r' ks Hr _ (K1 & K2 & K3)|f0 r r' ks Hn _ (K1 & K2 & K3)].
  - repeat split. intros k [].
  - simpl. rewrite K1, K2. repeat split. intros k [<-|Hk].
    + exists f0, v0. repeat split; [left; reflexivity | exact Hr].
    + destruct (K3 k Hk) as (f & v & A & B & C). exists f, v. repeat split; [right; exact A | exact B | exact C].
  - simpl. rewrite K1, K2. repeat split. intros k Hk.
    destruct (K3 k Hk) as (f & v & A & B & C). exists f, v. repeat split; [right; exact A | exact B | exact C].
Qed.

Lemma res_fields_miss bs fs fs' ks : res_fields bs fs fs' ks -> forall j f, nth_error fs j = Some f -> (forall v, ~ Resolvable bs f v) ->
  nth_error fs' j = Some f /\ (NoDup (map fkey fs) -> ~ In (fkey f) ks).
Proof.
  induction 1 as [|f0 v0 r r' ks Hr Hrest IH|f0 r r' ks Hn Hrest IH]; intros j f Hj Hv.
  - destruct j; discriminate.
  - destruct j as [|j]; simpl in Hj.
    + inversion Hj; subst. exfalso. exact (Hv v0 Hr).
    + destruct (IH j f Hj Hv) as [A B]. split; [exact A|]. intros Hnd. simpl in Hnd. inversion Hnd as [|x l Hnot Hnd']; subst.
      intros [E|Hin]; [|exact (B Hnd' Hin)].
      apply Hnot. rewrite E. apply in_map. apply nth_error_In in Hj. exact Hj.
  - destruct j as [|j]; simpl in Hj.
    + inversion Hj; subst. split; [reflexivity|]. intros Hnd. simpl in Hnd. inversion Hnd as [|x l Hnot Hnd']; subst.
      intros Hin. destruct (res_fields_keys _ _ _ _ Hrest) as (_ & _ & K3). destruct (K3 _ Hin) as (g & v & A & B & _).
      apply Hnot. rewrite <- B. apply in_map. exact A.
    + destruct (IH j f Hj Hv) as [A B]. split; [exact A|]. intros Hnd. simpl in Hnd. inversion Hnd; subst. apply B. assumption.
Qed.

(* ---------------------------------------------------------------- the default parse stack: resolve, then remove enclosing *)
Lemma Forall2_map_self {T} (f : T -> T) (l : list T) : Forall2 (fun x y => y = f x) l (map f l).
Proof. induction l; simpl; constructor; [reflexivity | assumption]. Qed.

Lemma Forall2_map_l {T U} (f : T -> T) (R : T -> U -> Prop) l l' : Forall2 R (map f l) l' -> Forall2 (fun x y => R (f x) y) l l'.
Proof.
  revert l'. induction l as [|x l IH]; intros l' H; simpl in H; inversion H; subst; constructor; [assumption | apply IH; assumption].
Qed.

Lemma Forall2_nth {T U} (R : T -> U -> Prop) l l' : Forall2 R l l' -> forall i x, nth_error l i = Some x ->
  exists y, nth_error l' i = Some y /\ R x y.
Proof.
  induction 1 as [|a b l l' Hab _ IH]; intros i x Hi.
  - destruct i; discriminate.
  - destruct i as [|i]; simpl in Hi.
    + inversion Hi; subst. exists b. split; [reflexivity | exact Hab].
    + exact (IH i x Hi).
Qed.

Lemma resolve_block_keys sd b : ekey (resolve_block sd b) = ekey b /\ skey (resolve_block sd b) = skey b.
Proof.
  destruct b; try (split; reflexivity). rewrite resolve_block_entry. split; reflexivity.
Qed.

Lemma resolve_lib_wf bs : wf_blocks (resolve_lib bs).
Proof.
  unfold resolve_lib, resolve_on.
  apply (wf_Forall2 (fun x y => y = resolve_block (strs (lib_of bs)) x) (lblocks (lib_of bs))).
  - intros b b' ->. apply resolve_block_keys.
  - apply Forall2_map_self.
  - apply lib_of_wf.
Qed.

Theorem default_stack_blockwise bs out : default_stack bs = Val out ->
  Forall2 (fun b b' => remove_block (resolve_block (strs (lib_of bs)) b) = Val b') (lblocks (lib_of bs)) out.
Proof.
  intros H. unfold default_stack in H.
  pose proof (remove_lib_blockwise _ _ (resolve_lib_wf bs) H) as F.
  unfold resolve_lib, resolve_on in F. apply Forall2_map_l in F. exact F.
Qed.

(* strings (and every other non-entry block) come out of the default stack exactly as RemoveEnclosing alone leaves them *)
Theorem default_stack_strings bs out out0 : default_stack bs = Val out -> remove_lib (lblocks (lib_of bs)) = Val out0 ->
  forall i b, nth_error (lblocks (lib_of bs)) i = Some b -> is_entry b = false -> nth_error out i = nth_error out0 i.
Proof.
  intros H H0 i b Hi Hb.
  destruct (Forall2_nth _ _ _ (default_stack_blockwise _ _ H) i b Hi) as (y & Hy & Ry).
  destruct (Forall2_nth _ _ _ (remove_lib_blockwise _ _ (lib_of_wf bs) H0) i b Hi) as (y0 & Hy0 & Ry0).
  assert (E : resolve_block (strs (lib_of bs)) b = b) by (destruct b; try discriminate; reflexivity).
  rewrite E in Ry. rewrite Ry0 in Ry. inversion Ry; subst. rewrite Hy, Hy0. reflexivity.
Qed.

(* a field of a live entry after the default stack: the referenced string's content, or its own content *)
Theorem default_stack_field bs out i h t k fs : default_stack bs = Val out ->
  nth_error (lblocks (lib_of bs)) i = Some (BEntry h t k fs) ->
  exists h' fs'', nth_error out i = Some (BEntry h' t k fs'') /\ sl h' = sl h /\ raw h' = raw h
    /\ forall j f, nth_error fs j = Some f ->
         (forall sv, Resolvable bs f (VStr sv) ->
            nth_error fs'' j = Some (mkfield (fkey f) (VStr (fst (strip_enclosing sv))) (fline f)))
         /\ (forall s, fval f = VStr s -> (forall v, ~ Resolvable bs f v) ->
            nth_error fs'' j = Some (mkfield (fkey f) (VStr (fst (strip_enclosing s))) (fline f))).
Proof.
  intros H Hi.
  destruct (Forall2_nth _ _ _ (default_stack_blockwise _ _ H) i _ Hi) as (y & Hy & Ry).
  rewrite resolve_block_entry in Ry.
  pose proof (resolve_fields_spec bs fs) as RF.
  set (fs1 := fst (resolve_fields (strs (lib_of bs)) fs)) in *.
  set (ks := snd (resolve_fields (strs (lib_of bs)) fs)) in *.
  destruct (remove_entry_spec _ _ _ _ _ Ry) as (fs2 & md & -> & F & _ & _ & _).
  eexists. exists fs2. split; [exact Hy|].
  destruct (set_meta_frame (resolved_hdr h ks) remove_enclosing_metadata_key (VDict md)) as (S1 & S2 & _).
  assert (S3 : sl (resolved_hdr h ks) = sl h /\ raw (resolved_hdr h ks) = raw h).
  { unfold resolved_hdr. destruct ks; [split; reflexivity|]. destruct (set_meta_frame h resolve_meta_key (VList (map VStr (s :: ks)))) as (A & B & _). split; assumption. }
  destruct S3 as [S3 S4]. split; [congruence|]. split; [congruence|].
  intros j f Hj. split.
  - intros sv Hr. destruct (res_fields_hit _ _ _ _ RF j f _ Hj Hr) as [A _].
    destruct (Forall2_nth _ _ _ F j _ A) as (f2 & Hf2 & (s & Es & ->)). cbn [fval] in Es. inversion Es; subst. exact Hf2.
  - intros s Es Hn. destruct (res_fields_miss _ _ _ _ RF j f Hj Hn) as [A _].
    destruct (Forall2_nth _ _ _ F j _ A) as (f2 & Hf2 & (s' & Es' & ->)). rewrite Es in Es'. inversion Es'; subst. exact Hf2.
Qed.

(* the other order differs: after RemoveEnclosing the value {a} has become the bare a and is (wrongly) resolved *)
Definition order_witness : list block :=
  [BString hdr0 (lit "a") (VStr (c_quote :: lit "x" ++ [c_quote]));
   BEntry hdr0 (lit "article") (lit "k") [mkfield (lit "t") (VStr (lit "{a}")) None]].

Definition field_values (r : res (list block)) : list (list value) :=
  match r with Val bs => map (fun b => match b with BEntry _ _ _ fs => map fval fs | _ => [] end) bs | _ => [] end.

Theorem order_matters :
  field_values (default_stack order_witness) = [[]; [VStr (lit "a")]]
  /\ field_values (swapped_stack order_witness) = [[]; [VStr (lit "x")]]
  /\ default_stack order_witness <> swapped_stack order_witness.
Proof.
  split; [vm_compute; reflexivity|]. split; [vm_compute; reflexivity|].
  intros H. apply (f_equal field_values) in H. vm_compute in H. discriminate.
Qed.
