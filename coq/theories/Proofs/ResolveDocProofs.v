(* C11 on documents: the default parse of the render of a well-formed grammar document resolves exactly the
   bare references to the FIRST @string of that name, leaves every other field value alone, keeps the @string
   blocks as RemoveEnclosing alone leaves them, and records the resolved field names on the entry.
   Composition of: Proofs/SplitGrammar.v (split_render), Proofs/DupProofs.v (rebuild = flag_all: later @strings
   of a repeated name become duplicate wrappers, the string index holds the first), Proofs/InterpolateProofs.v
   (resolve_lib / default_stack over block lists), Proofs/PipelineTotal.v (the stack does not raise). *)
From Coq Require Import List NArith ZArith Bool Lia String.
From BP Require Import Base.Chars Model.Blocks Model.Lexer Model.LibAdd Model.Splitter Spec.C03 Model.Grammar
  Proofs.SplitGrammar Gen.Constants Model.Enclosing Model.Interpolate Model.Pipeline Spec.C10 Spec.C11 Spec.C09
  Proofs.LibAddProofs Proofs.EnclosingProofs Proofs.InterpolateProofs Proofs.DupProofs Proofs.PipelineTotal.
Import ListNotations.
Local Open Scope list_scope.

Notation fstr11 := Spec.C11.first_string.     (* block list -> key -> option value *)
Notation fstr09 := Spec.C09.first_string.     (* key -> block list -> option block *)

(* ------------------------------------------------------------------ 1. block lists: flagging and the string index *)
Lemma fstr09_flag_all k bs : forall pre,
  fstr09 k (flag_all pre bs) = match fstr09 k pre with Some _ => None | None => fstr09 k bs end.
Proof.
  induction bs as [|b bs IH]; intros pre.
  - cbn. destruct (fstr09 k pre); reflexivity.
  - cbn [flag_all]. pose proof (IH (pre ++ [b])) as IH'. rewrite first_string_app in IH'.
    destruct b as [h t k' f|h k' v|? ?|? ?|? ?|? ?|? ? ?|? ? ? ?|? ? ?];
      try (cbn [flagged Spec.C09.first_string] in *; rewrite IH'; destruct (fstr09 k pre); reflexivity).
    + (* entry: flagged or not, it is no string *)
      cbn [flagged]. cbn [Spec.C09.first_string] in IH'.
      destruct (first_entry k' pre); cbn [Spec.C09.first_string]; rewrite IH'; destruct (fstr09 k pre); reflexivity.
    + cbn [flagged]. cbn [Spec.C09.first_string] in IH'.
      destruct (fstr09 k' pre) as [p|] eqn:Ep; cbn [Spec.C09.first_string]; rewrite IH'.
      * destruct (fstr09 k pre) eqn:E; [reflexivity|].
        destruct (str_eqb k k') eqn:Ek; [|reflexivity]. apply str_eqb_eq in Ek. subst. congruence.
      * destruct (str_eqb k k') eqn:Ek.
        -- apply str_eqb_eq in Ek. subst. rewrite Ep. reflexivity.
        -- destruct (fstr09 k pre); reflexivity.
Qed.

Lemma fstr11_09 bs k : fstr11 bs k = option_map string_value (fstr09 k bs).
Proof.
  induction bs as [|b bs IH]; [reflexivity|].
  destruct b; cbn [Spec.C11.first_string Spec.C09.first_string]; try exact IH.
  destruct (str_eqb k key); [reflexivity | exact IH].
Qed.

(* the first definition of a key is the same before and after Library(blocks) has wrapped the later ones *)
Lemma fstr11_rebuild bs k : fstr11 (rebuild bs) k = fstr11 bs k.
Proof. rewrite !fstr11_09, rebuild_flag_all, fstr09_flag_all. reflexivity. Qed.

Lemma Resolvable_rebuild bs f v : Resolvable (rebuild bs) f v <-> Resolvable bs f v.
Proof. unfold Resolvable. split; intros (s & A & B & C); exists s; rewrite fstr11_rebuild in *; auto. Qed.

Lemma lblocks_rebuild bs : lblocks (lib_of (rebuild bs)) = rebuild bs.
Proof. apply rebuild_lib_of. Qed.

Lemma flag_all_nth_error bs : forall pre i,
  nth_error (flag_all pre bs) i = option_map (flagged (pre ++ firstn i bs)) (nth_error bs i).
Proof.
  induction bs as [|b bs IH]; intros pre i.
  - destruct i; reflexivity.
  - destruct i as [|i]; cbn [flag_all nth_error firstn option_map].
    + rewrite app_nil_r. reflexivity.
    + rewrite IH, <- app_assoc. reflexivity.
Qed.

Lemma rebuild_nth_error bs i : nth_error (rebuild bs) i = option_map (flagged (firstn i bs)) (nth_error bs i).
Proof. rewrite rebuild_flag_all. apply (flag_all_nth_error bs [] i). Qed.

Lemma nth_error_split {A} (l : list A) i x : nth_error l i = Some x -> l = firstn i l ++ x :: skipn (S i) l.
Proof.
  revert i. induction l as [|a l IH]; intros i H; destruct i as [|i]; try discriminate.
  - inversion H. reflexivity.
  - cbn [nth_error] in H. cbn [firstn skipn app]. f_equal. apply IH. exact H.
Qed.

(* an entry whose key no earlier entry has stays live *)
Lemma live_entry_nth bs i h t k fs : NoDup (ekeys bs) -> nth_error bs i = Some (BEntry h t k fs) ->
  nth_error (rebuild bs) i = Some (BEntry h t k fs).
Proof.
  intros ND H. rewrite rebuild_nth_error, H. cbn [option_map flagged].
  assert (E : first_entry k (firstn i bs) = None).
  { apply first_entry_none. intros h' t' f' Hin.
    rewrite (nth_error_split bs i _ H) in ND. rewrite ekeys_app in ND. cbn [ekeys flat_map ekey app] in ND.
    apply NoDup_remove_2 in ND. apply ND. apply in_or_app. left.
    unfold ekeys. apply in_flat_map. exists (BEntry h' t' k f'). split; [exact Hin | left; reflexivity]. }
  rewrite E. reflexivity.
Qed.

(* ------------------------------------------------------------------ 2. the resolved-names metadata *)
Definition listed (h : hdr) (n : str) : Prop :=
  exists l, dict_get (meta h) resolve_meta_key = Some (VList l) /\ In (VStr n) l.

Lemma keys_differ : str_eqb resolve_meta_key remove_enclosing_metadata_key = false.
Proof. vm_compute. reflexivity. Qed.

Lemma in_map_VStr n ks : In (VStr n) (map VStr ks) <-> In n ks.
Proof.
  split; [|apply in_map]. intros H. apply in_map_iff in H. destruct H as (x & E & Hx). inversion E. subst. exact Hx.
Qed.

Lemma listed_iff h ks md n : dict_get (meta h) resolve_meta_key = None ->
  (listed (set_meta (resolved_hdr h ks) remove_enclosing_metadata_key md) n <-> In n ks).
Proof.
  intros H0. unfold listed, set_meta. cbn [meta]. rewrite EnclosingProofs.dict_get_set, keys_differ.
  unfold resolved_hdr. destruct ks as [|k0 ks].
  - rewrite H0. split; [intros (l & E & _); discriminate | intros []].
  - unfold set_meta. cbn [meta]. rewrite EnclosingProofs.dict_get_set, str_eqb_refl. split.
    + intros (l & E & Hin). inversion E. subst. apply in_map_VStr. exact Hin.
    + intros Hin. eexists. split; [reflexivity|]. apply in_map_VStr. exact Hin.
Qed.

(* ------------------------------------------------------------------ 3. the default stack on the split's library *)
(* [bs] are the splitter's blocks in source order (split_raw); the library is Library(bs) = rebuild bs *)
Theorem stack_entry bs out i h t k fs :
  default_stack (rebuild bs) = Enclosing.Val out -> nth_error (rebuild bs) i = Some (BEntry h t k fs) ->
  NoDup (map fkey fs) -> dict_get (meta h) resolve_meta_key = None ->
  exists h' fs', nth_error out i = Some (BEntry h' t k fs') /\ sl h' = sl h /\ raw h' = raw h
    /\ map fkey fs' = map fkey fs
    /\ forall j f, nth_error fs j = Some f ->
         (forall sv, Resolvable bs f (VStr sv) ->
            nth_error fs' j = Some (mkfield (fkey f) (VStr (fst (strip_enclosing sv))) (fline f)) /\ listed h' (fkey f))
         /\ (forall s, fval f = VStr s -> (forall v, ~ Resolvable bs f v) ->
            nth_error fs' j = Some (mkfield (fkey f) (VStr (fst (strip_enclosing s))) (fline f)) /\ ~ listed h' (fkey f)).
Proof.
  intros H Hi ND Hm. set (B := rebuild bs) in *.
  assert (Hi' : nth_error (lblocks (lib_of B)) i = Some (BEntry h t k fs)) by (unfold B; rewrite lblocks_rebuild; exact Hi).
  destruct (Forall2_nth _ _ _ (default_stack_blockwise _ _ H) i _ Hi') as (y & Hy & Ry).
  rewrite resolve_block_entry in Ry.
  pose proof (resolve_fields_spec B fs) as RF.
  set (fs1 := fst (resolve_fields (strs (lib_of B)) fs)) in *.
  set (ks := snd (resolve_fields (strs (lib_of B)) fs)) in *.
  destruct (remove_entry_spec _ _ _ _ _ Ry) as (fs2 & md & -> & F & K2 & _ & _).
  destruct (res_fields_keys _ _ _ _ RF) as (K1 & _ & _).
  eexists. exists fs2. split; [exact Hy|].
  destruct (set_meta_frame (resolved_hdr h ks) remove_enclosing_metadata_key (VDict md)) as (S1 & S2 & _).
  assert (S3 : sl (resolved_hdr h ks) = sl h /\ raw (resolved_hdr h ks) = raw h).
  { unfold resolved_hdr. destruct ks; [split; reflexivity|]. split; reflexivity. }
  destruct S3 as [S3 S4]. split; [congruence|]. split; [congruence|]. split; [congruence|].
  intros j f Hj. split.
  - intros sv Hr. assert (Hr' : Resolvable B f (VStr sv)) by (apply Resolvable_rebuild; exact Hr).
    destruct (res_fields_hit _ _ _ _ RF j f _ Hj Hr') as [A Hin].
    destruct (Forall2_nth _ _ _ F j _ A) as (f2 & Hf2 & (s & Es & ->)). cbn [fval] in Es. inversion Es; subst.
    split; [exact Hf2|]. apply listed_iff; assumption.
  - intros s Es Hn.
    assert (Hn' : forall v, ~ Resolvable B f v) by (intros v Hv; apply (Hn v); apply (proj1 (Resolvable_rebuild bs f v)); exact Hv).
    destruct (res_fields_miss _ _ _ _ RF j f Hj Hn') as [A Hnot].
    destruct (Forall2_nth _ _ _ F j _ A) as (f2 & Hf2 & (s' & Es' & ->)). rewrite Es in Es'. inversion Es'; subst.
    split; [exact Hf2|]. intros L. apply listed_iff in L; [|assumption]. exact (Hnot ND L).
Qed.

(* everything that is no live entry (strings, wrapped duplicates, comments, ...) is what RemoveEnclosing alone makes of it *)
Theorem stack_other bs out i b :
  default_stack (rebuild bs) = Enclosing.Val out -> nth_error (rebuild bs) i = Some b -> is_entry b = false ->
  exists b', remove_block b = Enclosing.Val b' /\ nth_error out i = Some b'.
Proof.
  intros H Hi Hb. set (B := rebuild bs) in *.
  assert (Hi' : nth_error (lblocks (lib_of B)) i = Some b) by (unfold B; rewrite lblocks_rebuild; exact Hi).
  destruct (Forall2_nth _ _ _ (default_stack_blockwise _ _ H) i _ Hi') as (y & Hy & Ry).
  assert (E : resolve_block (strs (lib_of B)) b = b) by (destruct b; try discriminate; reflexivity).
  rewrite E in Ry. exists y. split; assumption.
Qed.

(* ------------------------------------------------------------------ 4. documents and their ground-truth blocks *)
Fixpoint gfield_list (fs : gfields) : list gfield :=
  match fs with FEnd _ => [] | FLast f => [f] | FCons f r => f :: gfield_list r end.
Definition etail_fields (t : etail) : list gfield := match t with ENoComma => [] | EComma fs => gfield_list fs end.

Fixpoint entry_keys (l : list (item * str)) : list str :=
  match l with
  | [] => []
  | (IEntry _ _ _ key _ _, _) :: r => key :: entry_keys r
  | _ :: r => entry_keys r
  end.
(* entry keys pairwise distinct (every entry is live); @string names may repeat *)
Definition distinct_keys_b (d : doc) : bool := negb (has_dup (entry_keys (d_items d))).
Definition distinct_keys (d : doc) : Prop := distinct_keys_b d = true.

(* the value AST of the FIRST @string item with name k *)
Fixpoint first_gstring (l : list (item * str)) (k : str) : option gvalue :=
  match l with
  | [] => None
  | (IString _ _ _ name _ _ v _, _) :: r => if str_eqb k name then Some v else first_gstring r k
  | _ :: r => first_gstring r k
  end.

Lemma exp_items_nth l : forall ln i it g, nth_error l i = Some (it, g) ->
  exists ln', nth_error (exp_items ln l) i = Some (block_of ln' it).
Proof.
  induction l as [|[it0 g0] l IH]; intros ln i it g H; destruct i as [|i]; try discriminate.
  - inversion H. subst. exists ln. reflexivity.
  - cbn [nth_error] in H. cbn [exp_items nth_error]. exact (IH _ i it g H).
Qed.

Lemma exp_items_length l : forall ln, List.length (exp_items ln l) = List.length l.
Proof. induction l as [|[it g] l IH]; intros ln; cbn; [reflexivity | rewrite IH; reflexivity]. Qed.

Lemma exp_items_ekeys l : forall ln, ekeys (exp_items ln l) = entry_keys l.
Proof.
  induction l as [|[it g] l IH]; intros ln; [reflexivity|].
  cbn [exp_items]. change (ekeys (?b :: ?r)) with (ekey b ++ ekeys r). rewrite IH.
  destruct it; reflexivity.
Qed.

Lemma exp_items_first_string l k : forall ln,
  fstr11 (exp_items ln l) k = option_map (fun v => VStr (render_value v)) (first_gstring l k).
Proof.
  induction l as [|[it g] l IH]; intros ln; [reflexivity|].
  cbn [exp_items]. destruct it; cbn [block_of Spec.C11.first_string first_gstring]; try apply IH.
  destruct (str_eqb k name); [reflexivity | apply IH].
Qed.

Lemma exp_fields_keys fs : forall ln, map fkey (exp_fields ln fs) = field_names fs.
Proof. induction fs as [w|f|f r IH]; intros ln; cbn; [reflexivity | reflexivity | rewrite IH; reflexivity]. Qed.

Lemma field_names_list fs : field_names fs = map g_name (gfield_list fs).
Proof. induction fs as [w|f|f r IH]; cbn; [reflexivity | reflexivity | rewrite IH; reflexivity]. Qed.

Lemma exp_fields_nth fs : forall ln j f, nth_error (gfield_list fs) j = Some f ->
  exists ln', nth_error (exp_fields ln fs) j = Some (exp_field ln' f).
Proof.
  induction fs as [w|f0|f0 r IH]; intros ln j f H.
  - destruct j; discriminate.
  - destruct j as [|j]; [|destruct j; discriminate]. inversion H. subst. exists ln. reflexivity.
  - destruct j as [|j].
    + inversion H. subst. exists ln. reflexivity.
    + cbn [gfield_list nth_error] in H. cbn [exp_fields nth_error]. exact (IH _ j f H).
Qed.

Lemma fresh_all_NoDup l : forall seen, fresh_all seen l = true -> NoDup l /\ forall x, In x l -> ~ In x seen.
Proof.
  induction l as [|x l IH]; intros seen H.
  - split; [constructor | intros x []].
  - cbn [fresh_all] in H. apply andb_true_iff in H as [H1 H2]. destruct (IH _ H2) as [ND Hs].
    apply negb_true_iff in H1. split.
    + constructor; [|exact ND]. intros Hin. apply (Hs x Hin). left. reflexivity.
    + intros y [<-|Hy].
      * intros Hin. apply mem_str_In in Hin. congruence.
      * intros Hin. apply (Hs y Hy). right. exact Hin.
Qed.

(* well-formedness reaches every item and every field *)
Lemma wf_items_In l : forall pf it g, wf_items pf l = true -> In (it, g) l -> wf_item it = true.
Proof.
  induction l as [|[it0 g0] l IH]; intros pf it g H Hin; [destruct Hin|].
  cbn [wf_items] in H. repeat (apply andb_true_iff in H as [H ?]).
  destruct Hin as [E|Hin]; [inversion E; subst; assumption | eapply IH; eassumption].
Qed.

Lemma wf_fields_In fs f : wf_fields fs = true -> In f (gfield_list fs) -> wf_field f = true.
Proof.
  induction fs as [w|f0|f0 r IH]; cbn [wf_fields gfield_list]; intros H Hin.
  - destruct Hin.
  - destruct Hin as [<-|[]]. exact H.
  - apply andb_true_iff in H as [H1 H2]. destruct Hin as [<-|Hin]; [exact H1 | exact (IH H2 Hin)].
Qed.

Lemma wf_field_value f : wf_field f = true -> wf_value (g_val f) = true.
Proof. unfold wf_field. intros H. repeat (apply andb_true_iff in H as [H ?]). assumption. Qed.

Lemma name_not_enclosed s : name_ok s = true -> ~ enclosed s.
Proof.
  unfold name_ok. intros H. apply andb_true_iff in H as [_ H].
  intros [[[r ->] _]|[[r ->] _]]; cbn [kchars] in H; repeat (apply andb_true_iff in H as [H ?]); discriminate.
Qed.

Lemma nodup_fields_In d it g : nodup_fields d -> In (it, g) (d_items d) -> nodup_item it = true.
Proof.
  unfold nodup_fields, nodup_fields_b. rewrite forallb_forall. intros H Hin. exact (H _ Hin).
Qed.

Definition holds (fs : list field) (j : nat) (n c : str) : Prop :=
  exists fl, nth_error fs j = Some (mkfield n (VStr c) fl).

Lemma split_doc d : wf_doc d -> nodup_fields d -> split (render d) = Blocks (rebuild (expected d)).
Proof. intros W N. unfold split. rewrite (split_render d W N). reflexivity. Qed.

Lemma parse_doc d : wf_doc d -> nodup_fields d ->
  exists out, default_stack (rebuild (expected d)) = Enclosing.Val out /\ parse_default (render d) = PVal out
              /\ List.length out = List.length (d_items d).
Proof.
  intros W N. pose proof (split_doc d W N) as S.
  destruct (default_stack_total _ (split_good _ _ S)) as (out & E & _ & L).
  exists out. split; [exact E|]. split.
  - unfold parse_default. rewrite S, E. reflexivity.
  - rewrite L, PipelineTotal.rebuild_length. apply exp_items_length.
Qed.

(* the ground-truth fields of an entry item *)
Lemma entry_block_fields ln typ hws w1 key w2 t :
  exists efs, block_of ln (IEntry typ hws w1 key w2 t)
              = BEntry (mkhdr (Some ln) (Some (render_item (IEntry typ hws w1 key w2 t))) []) (lower typ) key efs
    /\ map fkey efs = map g_name (etail_fields t)
    /\ forall j f, nth_error (etail_fields t) j = Some f -> exists ln', nth_error efs j = Some (exp_field ln' f).
Proof.
  destruct t as [|fs]; eexists; (split; [reflexivity|]); cbn [etail_fields].
  - split; [reflexivity | intros [|j] f H; discriminate].
  - split; [rewrite exp_fields_keys; apply field_names_list | intros j f H; eapply exp_fields_nth; exact H].
Qed.

(* ------------------------------------------------------------------ 5. C11 on documents: the fields of the entries *)
Theorem C11_doc_fields : forall d, wf_doc d -> nodup_fields d -> distinct_keys d ->
  exists out, parse_default (render d) = PVal out /\ List.length out = List.length (d_items d) /\
  forall i typ hws w1 key w2 t g, nth_error (d_items d) i = Some (IEntry typ hws w1 key w2 t, g) ->
    exists h' fs', nth_error out i = Some (BEntry h' (lower typ) key fs')
      /\ raw h' = Some (render_item (IEntry typ hws w1 key w2 t))
      /\ map fkey fs' = map g_name (etail_fields t)
      /\ forall j f, nth_error (etail_fields t) j = Some f ->
         (* (i) a bare piece naming an @string: the content of the FIRST such @string, and the field is listed *)
         (forall s sv, g_val f = mkgv (PBare s) [] -> first_gstring (d_items d) s = Some sv ->
            holds fs' j (g_name f) (fst (strip_enclosing (render_value sv))) /\ listed h' (g_name f))
         (* (ii) enclosed as the resolver sees it, or the whole source text names no @string: own content, not listed *)
         /\ (enclosed (render_value (g_val f)) \/ first_gstring (d_items d) (render_value (g_val f)) = None ->
            holds fs' j (g_name f) (fst (strip_enclosing (render_value (g_val f)))) /\ ~ listed h' (g_name f)).
Proof.
  intros d W N K. destruct (parse_doc d W N) as (out & DS & PD & L).
  exists out. split; [exact PD|]. split; [exact L|].
  intros i typ hws w1 key w2 t g Hi.
  set (it := IEntry typ hws w1 key w2 t) in *.
  destruct (exp_items_nth _ (count_nl (d_gap0 d)) i it g Hi) as (ln & HE). fold (expected d) in HE.
  destruct (entry_block_fields ln typ hws w1 key w2 t) as (efs & EB & EK & EN). fold it in EB. rewrite EB in HE.
  (* the entry is live *)
  assert (ND : NoDup (ekeys (expected d))).
  { unfold expected. rewrite exp_items_ekeys. apply has_dup_false_NoDup.
    unfold distinct_keys, distinct_keys_b in K. apply negb_true_iff in K. exact K. }
  pose proof (live_entry_nth _ _ _ _ _ _ ND HE) as HF.
  (* distinct field names *)
  assert (Hin : In (it, g) (d_items d)) by (eapply nth_error_In; exact Hi).
  assert (NF : NoDup (map fkey efs)).
  { rewrite EK. pose proof (nodup_fields_In d it g N Hin) as Q. unfold it in Q. destruct t as [|fs]; [constructor|].
    cbn [nodup_item] in Q. cbn [etail_fields]. rewrite <- field_names_list. exact (proj1 (fresh_all_NoDup _ _ Q)). }
  destruct (stack_entry _ _ _ _ _ _ _ DS HF NF eq_refl) as (h' & fs' & HO & _ & HR & HK & HFld).
  exists h', fs'. split; [exact HO|]. split; [exact HR|]. split; [congruence|].
  intros j f Hj. destruct (EN j f Hj) as (ln' & Hef). destruct (HFld j _ Hef) as [Hit Hmiss].
  (* the field is well-formed *)
  assert (Wv : wf_value (g_val f) = true).
  { apply wf_field_value. unfold wf_doc, wf_doc_b in W. apply andb_true_iff in W as [_ W].
    pose proof (wf_items_In _ _ _ _ W Hin) as Wi. unfold it, wf_item in Wi.
    repeat (apply andb_true_iff in Wi as [Wi ?]). destruct t as [|fs]; [destruct j; discriminate|].
    cbn [wf_etail] in *. eapply wf_fields_In; [eassumption | eapply nth_error_In; exact Hj]. }
  split.
  - intros s sv Ev Hs.
    assert (R : Resolvable (expected d) (exp_field ln' f) (VStr (render_value sv))).
    { exists s. split; [|split].
      - unfold exp_field. cbn [fval]. rewrite Ev. unfold render_value. cbn. rewrite app_nil_r. reflexivity.
      - apply name_not_enclosed. rewrite Ev in Wv. unfold wf_value in Wv. cbn [v_first v_more wf_piece wf_more] in Wv.
        apply andb_true_iff in Wv as [Wv _]. apply andb_true_iff in Wv as [Wv _]. exact Wv.
      - unfold expected. rewrite exp_items_first_string, Hs. reflexivity. }
    destruct (Hit _ R) as [A B]. split; [eexists; exact A | exact B].
  - intros Hc.
    assert (R : forall v, ~ Resolvable (expected d) (exp_field ln' f) v).
    { intros v (s & Es & Hne & Hf). unfold exp_field in Es. cbn [fval] in Es. inversion Es. subst s.
      destruct Hc as [Hc|Hc]; [exact (Hne Hc)|].
      unfold expected in Hf. rewrite exp_items_first_string, Hc in Hf. discriminate. }
    destruct (Hmiss _ eq_refl R) as [A B]. split; [eexists; exact A | exact B].
Qed.
Print Assumptions C11_doc_fields.

(* ------------------------------------------------------------------ 6. when does a source text name no @string *)
Fixpoint string_names (l : list (item * str)) : list str :=
  match l with
  | [] => []
  | (IString _ _ _ name _ _ _ _, _) :: r => name :: string_names r
  | _ :: r => string_names r
  end.
Definition no_hash (s : str) : bool := forallb (fun c => negb (c =? c_hash)%N) s.
(* no @string name contains '#' *)
Definition hash_free_b (d : doc) : bool := forallb no_hash (string_names (d_items d)).

Lemma first_gstring_In l k v : first_gstring l k = Some v -> In k (string_names l).
Proof.
  induction l as [|[it g] l IH]; [discriminate|]. destruct it; cbn [first_gstring string_names]; try exact IH.
  destruct (str_eqb k name) eqn:E; [apply str_eqb_eq in E; subst; left; reflexivity | right; auto].
Qed.

Lemma first_gstring_notin l k : ~ In k (string_names l) -> first_gstring l k = None.
Proof. intros H. destruct (first_gstring l k) eqn:E; [exfalso; apply H; eapply first_gstring_In; exact E | reflexivity]. Qed.

Lemma string_names_ok d n : wf_doc d -> In n (string_names (d_items d)) -> name_ok n = true.
Proof.
  unfold wf_doc, wf_doc_b. intros W. apply andb_true_iff in W as [_ W]. revert W. generalize false.
  induction (d_items d) as [|[it g] l IH]; intros pf W Hin; [destruct Hin|].
  cbn [wf_items] in W. repeat (apply andb_true_iff in W as [W ?]).
  destruct it; cbn [string_names] in Hin; try (eapply IH; eassumption).
  destruct Hin as [<-|Hin]; [|eapply IH; eassumption].
  unfold wf_item in W. repeat (apply andb_true_iff in W as [W ?]). assumption.
Qed.

(* a text that contains white space, or starts with an active brace or quote, is no @string name; a text that
   contains '#' is none when the names are hash-free *)
Lemma not_name_space s c : name_ok s = true -> In c s -> isspace c = false.
Proof.
  unfold name_ok. intros H Hin. apply andb_true_iff in H as [_ H]. apply kchars_nospace in H.
  rewrite forallb_forall in H. apply negb_true_iff. exact (H c Hin).
Qed.

Lemma render_more_hash l : l <> [] -> In c_hash (render_more l).
Proof. destruct l as [|[[a b] p] r]; [contradiction|]. intros _. cbn [render_more]. apply in_or_app. right. left. reflexivity. Qed.

Lemma concat_has_hash gv : v_more gv <> [] -> In c_hash (render_value gv).
Proof. intros H. unfold render_value. apply in_or_app. right. apply render_more_hash. exact H. Qed.

Lemma no_name_hash d src : hash_free_b d = true -> In c_hash src -> first_gstring (d_items d) src = None.
Proof.
  intros H Hin. apply first_gstring_notin. intros Hn. unfold hash_free_b in H. rewrite forallb_forall in H.
  specialize (H _ Hn). unfold no_hash in H. rewrite forallb_forall in H. specialize (H _ Hin). discriminate.
Qed.

Lemma no_name_space d src c : wf_doc d -> In c src -> isspace c = true -> first_gstring (d_items d) src = None.
Proof.
  intros W Hin Hc. apply first_gstring_notin. intros Hn.
  pose proof (not_name_space _ _ (string_names_ok d src W Hn) Hin). congruence.
Qed.

Lemma no_name_delim d src : wf_doc d -> enclosed src -> first_gstring (d_items d) src = None.
Proof.
  intros W He. apply first_gstring_notin. intros Hn. exact (name_not_enclosed _ (string_names_ok d src W Hn) He).
Qed.

Lemma name_not_starts s : name_ok s = true -> ~ (starts s c_lb \/ starts s c_quote).
Proof.
  unfold name_ok. intros H. apply andb_true_iff in H as [_ H].
  intros [[r ->]|[r ->]]; cbn [kchars] in H; repeat (apply andb_true_iff in H as [H ?]); discriminate.
Qed.

Lemma no_name_starts d src : wf_doc d -> starts src c_lb \/ starts src c_quote -> first_gstring (d_items d) src = None.
Proof.
  intros W He. apply first_gstring_notin. intros Hn. exact (name_not_starts _ (string_names_ok d src W Hn) He).
Qed.

(* the values the property says are left alone: one braced piece, one quoted piece, a bare piece naming no
   @string, a concatenation (whose text is not itself an @string name: see C11_concat_refuted below) *)
Inductive untouched (d : doc) : gvalue -> Prop :=
| U_braced b : untouched d (mkgv (PBraced b) [])
| U_quoted q : untouched d (mkgv (PQuoted q) [])
| U_undefined s : first_gstring (d_items d) s = None -> untouched d (mkgv (PBare s) [])
| U_concat p m : m <> [] ->
    (hash_free_b d = true                                   (* no @string name contains '#' *)
     \/ (forall s, p <> PBare s)                            (* the first piece is enclosed *)
     \/ (exists a b p' r, m = (a, b, p') :: r /\ a <> [])) (* white space before the first '#' *)
    -> untouched d (mkgv p m).

Lemma untouched_ok d gv : wf_doc d -> wf_value gv = true -> untouched d gv ->
  enclosed (render_value gv) \/ first_gstring (d_items d) (render_value gv) = None.
Proof.
  intros W Wv U. destruct U as [b|q|s Hs|p m Hm Hc].
  - left. right. unfold render_value. cbn. rewrite app_nil_r. split; [eexists; reflexivity | exists (c_lb :: render_braced b); reflexivity].
  - left. left. unfold render_value. cbn. rewrite app_nil_r. split; [eexists; reflexivity | exists (c_quote :: render_quoted q); reflexivity].
  - right. unfold render_value. cbn. rewrite app_nil_r. exact Hs.
  - right. destruct Hc as [Hh|[Hp|(a & b & p' & r & -> & Ha)]].
    + apply no_name_hash; [exact Hh | apply concat_has_hash; exact Hm].
    + apply no_name_starts; [exact W|]. unfold render_value. cbn [v_first v_more].
      destruct p as [s|b|q]; [exfalso; exact (Hp s eq_refl) | left; eexists; reflexivity | right; eexists; reflexivity].
    + destruct a as [|c a]; [contradiction|].
      unfold wf_value in Wv. cbn [v_first v_more wf_more] in Wv. apply andb_true_iff in Wv as [_ Wv].
      repeat (apply andb_true_iff in Wv as [Wv _]). pose proof (Wv : isspace c = true) as Hc.
      apply (no_name_space d _ c W); [|exact Hc].
      unfold render_value. cbn [v_first v_more render_more]. apply in_or_app. right. left. reflexivity.
Qed.

(* ------------------------------------------------------------------ 7. the @string blocks *)
Lemma exp_items_firstn l : forall ln i, firstn i (exp_items ln l) = exp_items ln (firstn i l).
Proof.
  induction l as [|[it g] l IH]; intros ln i; destruct i as [|i]; try reflexivity.
  cbn [exp_items firstn]. rewrite IH. reflexivity.
Qed.

Lemma exp_items_fstr09 l k : forall ln,
  match first_gstring l k with
  | None => fstr09 k (exp_items ln l) = None
  | Some v0 => exists hp, fstr09 k (exp_items ln l) = Some (BString hp k (VStr (render_value v0)))
  end.
Proof.
  induction l as [|[it g] l IH]; intros ln; [reflexivity|].
  cbn [exp_items]. destruct it; cbn [block_of Spec.C09.first_string first_gstring]; try apply IH.
  destruct (str_eqb k name) eqn:E; [|apply IH]. apply str_eqb_eq in E. subst. eexists. reflexivity.
Qed.

Theorem C11_doc_strings : forall d, wf_doc d -> nodup_fields d ->
  exists out, parse_default (render d) = PVal out /\ List.length out = List.length (d_items d)
  (* block level: everything that is no live entry is exactly what RemoveEnclosing alone makes of the split's block *)
  /\ split (render d) = Blocks (rebuild (expected d))
  /\ (forall i b, nth_error (rebuild (expected d)) i = Some b -> is_entry b = false ->
        exists b', remove_block b = Enclosing.Val b' /\ nth_error out i = Some b')
  (* document level *)
  /\ forall i kw hws w1 name w2 w3 v w4 g,
       nth_error (d_items d) i = Some (IString kw hws w1 name w2 w3 v w4, g) ->
       let it := IString kw hws w1 name w2 w3 v w4 in
       (* the first @string of its name: same position, same key, its own content, only the enclosing removed *)
       (first_gstring (firstn i (d_items d)) name = None ->
          exists ln, nth_error out i =
            Some (BString (mkhdr (Some ln) (Some (render_item it))
                             [(remove_enclosing_metadata_key, VStr (snd (strip_enclosing (render_value v))))])
                    name (VStr (fst (strip_enclosing (render_value v))))))
       (* a later @string of a repeated name: the duplicate wrapper of the split, untouched *)
       /\ (forall v0, first_gstring (firstn i (d_items d)) name = Some v0 ->
          exists ln hp, nth_error out i =
            Some (BDupKey (mkhdr (Some ln) (Some (render_item it)) []) name
                    (BString hp name (VStr (render_value v0)))
                    (BString (mkhdr (Some ln) (Some (render_item it)) []) name (VStr (render_value v))))).
Proof.
  intros d W N. destruct (parse_doc d W N) as (out & DS & PD & L).
  exists out. split; [exact PD|]. split; [exact L|]. split; [exact (split_doc d W N)|]. split.
  - intros i b Hi Hb. exact (stack_other _ _ _ _ DS Hi Hb).
  - intros i kw hws w1 name w2 w3 v w4 g Hi it.
    destruct (exp_items_nth _ (count_nl (d_gap0 d)) i it g Hi) as (ln & HE). fold (expected d) in HE.
    pose proof (rebuild_nth_error (expected d) i) as HR. rewrite HE in HR. cbn [option_map block_of it flagged] in HR.
    unfold expected in HR at 2. rewrite exp_items_firstn in HR.
    pose proof (exp_items_fstr09 (firstn i (d_items d)) name (count_nl (d_gap0 d))) as Q.
    split.
    + intros H0. rewrite H0 in Q. rewrite Q in HR.
      destruct (stack_other _ _ _ _ DS HR eq_refl) as (b' & Rb & Ho).
      cbn [remove_block strip_value] in Rb. destruct (strip_enclosing (render_value v)) as [c e].
      inversion Rb. subst b'. exists ln. exact Ho.
    + intros v0 H0. rewrite H0 in Q. destruct Q as (hp & Q). rewrite Q in HR.
      destruct (stack_other _ _ _ _ DS HR eq_refl) as (b' & Rb & Ho).
      cbn [remove_block] in Rb. inversion Rb. subst b'. exists ln, hp. exact Ho.
Qed.
Print Assumptions C11_doc_strings.

(* ------------------------------------------------------------------ 8. the property's case list *)
Lemma doc_field_wf d typ hws w1 key w2 t g f : wf_doc d ->
  In (IEntry typ hws w1 key w2 t, g) (d_items d) -> In f (etail_fields t) -> wf_value (g_val f) = true.
Proof.
  intros W Hin Hf. apply wf_field_value. unfold wf_doc, wf_doc_b in W. apply andb_true_iff in W as [_ W].
  pose proof (wf_items_In _ _ _ _ W Hin) as Wi. unfold wf_item in Wi.
  repeat (apply andb_true_iff in Wi as [Wi ?]). destruct t as [|fs]; [destruct Hf|].
  cbn [wf_etail etail_fields] in *. eapply wf_fields_In; eassumption.
Qed.

Theorem C11_doc_untouched : forall d, wf_doc d -> nodup_fields d -> distinct_keys d ->
  exists out, parse_default (render d) = PVal out /\
  forall i typ hws w1 key w2 t g, nth_error (d_items d) i = Some (IEntry typ hws w1 key w2 t, g) ->
    exists h' fs', nth_error out i = Some (BEntry h' (lower typ) key fs')
      /\ forall j f, nth_error (etail_fields t) j = Some f -> untouched d (g_val f) ->
           holds fs' j (g_name f) (fst (strip_enclosing (render_value (g_val f)))) /\ ~ listed h' (g_name f).
Proof.
  intros d W N K. destruct (C11_doc_fields d W N K) as (out & PD & _ & H).
  exists out. split; [exact PD|]. intros i typ hws w1 key w2 t g Hi.
  destruct (H i typ hws w1 key w2 t g Hi) as (h' & fs' & HO & _ & _ & HF).
  exists h', fs'. split; [exact HO|]. intros j f Hj U.
  apply (proj2 (HF j f Hj)). apply untouched_ok; [exact W | | exact U].
  eapply doc_field_wf; [exact W | eapply nth_error_In; exact Hi | eapply nth_error_In; exact Hj].
Qed.
Print Assumptions C11_doc_untouched.

(* The restriction on concatenations is needed: '#' is a key character, so an @string may be NAMED a#b, and then the
   field value a#b (grammatically the concatenation of the bare pieces a and b) is the bare text of a defined key
   and is resolved. *)
Definition cx_doc : doc :=
  mkdoc []
    [ (IString (lit "string") [] [] (lit "a#b") (lit " ") (lit " ") (mkgv (PQuoted (qs_ (lit "X") QNil)) []) [], lit " ");
      (IEntry (lit "article") [] [] (lit "k") []
         (EComma (FLast (mkgf (lit " ") (lit "t") (lit " ") (lit " ")
                           (mkgv (PBare (lit "a")) [([], [], PBare (lit "b"))]) []))), []) ].
Theorem C11_concat_refuted :
  render cx_doc = lit "@string{a#b = ""X""} @article{k, t = a#b}"
  /\ wf_doc cx_doc /\ nodup_fields cx_doc /\ distinct_keys cx_doc /\ hash_free_b cx_doc = false
  /\ match parse_default (render cx_doc) with
     | PVal [_; BEntry h _ _ [f]] => fval f = VStr (lit "X") /\ dict_get (meta h) resolve_meta_key = Some (VList [VStr (lit "t")])
     | _ => False
     end.
Proof.
  split; [vm_compute; reflexivity|]. split; [vm_compute; reflexivity|]. split; [vm_compute; reflexivity|].
  split; [vm_compute; reflexivity|]. split; [vm_compute; reflexivity|].
  vm_compute. split; reflexivity.
Qed.
Print Assumptions C11_concat_refuted.

(* ------------------------------------------------------------------ 9. a concrete document *)
Definition bare (s : string) : gvalue := mkgv (PBare (lit s)) [].
Definition fld (n : string) (v : gvalue) : gfield := mkgf (lit " ") (lit n) (lit " ") (lit " ") v [].
Definition ex11 : doc :=
  mkdoc []
    [ (IString (lit "string") [] [] (lit "jan") (lit " ") (lit " ") (mkgv (PQuoted (qs_ (lit "January") QNil)) []) [], lit " ");
      (IString (lit "string") [] [] (lit "jan") (lit " ") (lit " ") (mkgv (PBraced (bs_ (lit "X") BNil)) []) [], lit " ");
      (IEntry (lit "article") [] [] (lit "k") []
         (EComma (FCons (fld "month" (bare "jan"))
                 (FCons (fld "a" (mkgv (PBraced (bs_ (lit "jan") BNil)) []))
                 (FCons (fld "b" (mkgv (PQuoted (qs_ (lit "jan") QNil)) []))
                 (FCons (fld "c" (mkgv (PBare (lit "jan")) [(lit " ", lit " ", PBare (lit "jan"))]))
                 (FCons (fld "d" (bare "JAN"))
                 (FLast (fld "e" (bare "feb"))))))))), []) ].
Example ex11_render : render ex11 =
  lit "@string{jan = ""January""} @string{jan = {X}} @article{k, month = jan, a = {jan}, b = ""jan"", c = jan # jan, d = JAN, e = feb}".
Proof. vm_compute. reflexivity. Qed.
Example ex11_wf : wf_doc ex11.                Proof. vm_compute. reflexivity. Qed.
Example ex11_nodup : nodup_fields ex11.       Proof. vm_compute. reflexivity. Qed.
Example ex11_keys : distinct_keys ex11.       Proof. vm_compute. reflexivity. Qed.
Example ex11_hash_free : hash_free_b ex11 = true.  Proof. vm_compute. reflexivity. Qed.

(* what the executable model computes *)
Definition field_view (f : field) : str * value := (fkey f, fval f).
Example ex11_computed :
  match parse_default (render ex11) with
  | PVal [BString h1 k1 v1; BDupKey _ k2 (BString _ _ p2) (BString _ _ v2); BEntry h _ _ fs] =>
      (k1, v1) = (lit "jan", VStr (lit "January"))
      /\ dict_get (meta h1) remove_enclosing_metadata_key = Some (VStr [c_quote])
      /\ (k2, p2, v2) = (lit "jan", VStr (lit """January"""), VStr (lit "{X}"))
      /\ map field_view fs = [ (lit "month", VStr (lit "January")); (lit "a", VStr (lit "jan")); (lit "b", VStr (lit "jan"));
                               (lit "c", VStr (lit "jan # jan")); (lit "d", VStr (lit "JAN")); (lit "e", VStr (lit "feb")) ]
      /\ dict_get (meta h) resolve_meta_key = Some (VList [VStr (lit "month")])
  | _ => False
  end.
Proof. vm_compute. repeat split. Qed.

(* the same facts obtained from the theorems (hypotheses checked by computation, conclusions instantiated) *)
Example ex11_by_theorem :
  exists out h' fs', parse_default (render ex11) = PVal out
    /\ nth_error out 2 = Some (BEntry h' (lit "article") (lit "k") fs')
    /\ (holds fs' 0 (lit "month") (lit "January") /\ listed h' (lit "month"))       (* first definition, not {X} *)
    /\ (holds fs' 1 (lit "a") (lit "jan") /\ ~ listed h' (lit "a"))                 (* {jan} *)
    /\ (holds fs' 2 (lit "b") (lit "jan") /\ ~ listed h' (lit "b"))                 (* "jan" *)
    /\ (holds fs' 3 (lit "c") (lit "jan # jan") /\ ~ listed h' (lit "c"))           (* concatenation *)
    /\ (holds fs' 4 (lit "d") (lit "JAN") /\ ~ listed h' (lit "d"))                 (* other case *)
    /\ (holds fs' 5 (lit "e") (lit "feb") /\ ~ listed h' (lit "e")).                (* undefined *)
Proof.
  destruct (C11_doc_fields ex11 ex11_wf ex11_nodup ex11_keys) as (out & PD & _ & H).
  edestruct (H 2%nat) as (h' & fs' & HO & _ & _ & HF); [reflexivity|].
  exists out, h', fs'. split; [exact PD|]. split; [exact HO|].
  assert (U : forall j f, nth_error (etail_fields (EComma (FCons (fld "month" (bare "jan"))
                 (FCons (fld "a" (mkgv (PBraced (bs_ (lit "jan") BNil)) []))
                 (FCons (fld "b" (mkgv (PQuoted (qs_ (lit "jan") QNil)) []))
                 (FCons (fld "c" (mkgv (PBare (lit "jan")) [(lit " ", lit " ", PBare (lit "jan"))]))
                 (FCons (fld "d" (bare "JAN"))
                 (FLast (fld "e" (bare "feb")))))))))) j = Some f -> untouched ex11 (g_val f) ->
            holds fs' j (g_name f) (fst (strip_enclosing (render_value (g_val f)))) /\ ~ listed h' (g_name f)).
  { intros j f Hj Uf. apply (proj2 (HF j f Hj)). apply untouched_ok; [exact ex11_wf | | exact Uf].
    eapply (doc_field_wf ex11); [exact ex11_wf | right; right; left; reflexivity | eapply nth_error_In; exact Hj]. }
  split.
  - destruct (HF 0%nat _ eq_refl) as [Hi _].
    exact (Hi (lit "jan") (mkgv (PQuoted (qs_ (lit "January") QNil)) []) eq_refl eq_refl).
  - split; [exact (U 1%nat _ eq_refl (U_braced _ _))|].
    split; [exact (U 2%nat _ eq_refl (U_quoted _ _))|].
    split; [apply (U 3%nat _ eq_refl); apply U_concat; [discriminate | left; reflexivity]|].
    split; [apply (U 4%nat _ eq_refl); apply U_undefined; reflexivity|].
    apply (U 5%nat _ eq_refl); apply U_undefined; reflexivity.
Qed.

Example ex11_strings_by_theorem :
  exists out ln1 ln2 hp, parse_default (render ex11) = PVal out
    /\ nth_error out 0 = Some (BString (mkhdr (Some ln1) (Some (lit "@string{jan = ""January""}"))
                                          [(remove_enclosing_metadata_key, VStr [c_quote])]) (lit "jan") (VStr (lit "January")))
    /\ nth_error out 1 = Some (BDupKey (mkhdr (Some ln2) (Some (lit "@string{jan = {X}}")) []) (lit "jan")
                                 (BString hp (lit "jan") (VStr (lit """January""")))
                                 (BString (mkhdr (Some ln2) (Some (lit "@string{jan = {X}}")) []) (lit "jan") (VStr (lit "{X}")))).
Proof.
  destruct (C11_doc_strings ex11 ex11_wf ex11_nodup) as (out & PD & _ & _ & _ & H).
  edestruct (H 0%nat) as [H0 _]; [reflexivity|]. destruct (H0 eq_refl) as (ln1 & E1).
  edestruct (H 1%nat) as [_ H1]; [reflexivity|]. destruct (H1 _ eq_refl) as (ln2 & hp & E2).
  exists out, ln1, ln2, hp. split; [exact PD|]. split; [exact E1 | exact E2].
Qed.
