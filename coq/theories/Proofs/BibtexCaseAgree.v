(* K14 needs a backslash: on words of ASCII characters without one, the word case of Spec/C13 (the library's) IS the one of
   BibTeX's von_token_found - by induction over the word, for words of any length and nesting. *)
From Coq Require Import List NArith ZArith Bool String Lia.
From BP Require Import Base.Chars Model.Blocks Gen.Constants Model.Names Spec.C13 Spec.BibtexCase Proofs.BibtexCaseProofs.
Import ListNotations.
Local Open Scope N_scope.

(* an ASCII character with the flags CPython gives it (what the harness sends for every ASCII character; checked per run) *)
Definition ascii_canon (c : ch) : bool := (code c <? 128) && (c =? asc (code c)).
Definition no_bs (w : str) : bool := forallb (fun c => negb (ceq c c_bs)) w.

Definition ascii_facts (n : N) : bool :=
  let c := asc n in
  (code c =? n)
  && Bool.eqb (isalpha c) (upA c || loA c) && Bool.eqb (isupper c) (upA c)
  && Bool.eqb (ceq c c_lb) (n =? 123) && Bool.eqb (ceq c c_rb) (n =? 125).
Lemma ascii_sweep : forallb ascii_facts (map N.of_nat (seq 0 128)) = true.
Proof. vm_compute. reflexivity. Qed.

Lemma canon_facts c : ascii_canon c = true ->
  isalpha c = (upA c || loA c) /\ isupper c = upA c.
Proof.
  unfold ascii_canon. intro H. apply andb_prop in H. destruct H as [Hl He].
  apply N.ltb_lt in Hl. apply N.eqb_eq in He.
  assert (Hin : In (code c) (map N.of_nat (seq 0 128))).
  { apply in_map_iff. exists (N.to_nat (code c)). split; [apply N2Nat.id|]. apply in_seq. lia. }
  pose proof (proj1 (forallb_forall _ _) ascii_sweep _ Hin) as F. unfold ascii_facts in F. rewrite <- He in F.
  repeat (apply andb_prop in F; destruct F as [F ?]).
  split; apply eqb_prop; assumption.
Qed.

Definition rel (m : wmode) (d : N) (t : tmode) : Prop :=
  (m = MTop /\ d = 0 /\ t = TTop) \/ ((m = MStart \/ m = MGroup) /\ 1 <= d /\ t = TGroup d).

Lemma atoms_no_bs w : no_bs w = true -> atoms w = map AChar w.
Proof.
  induction w as [|c r IH]; cbn [no_bs forallb atoms map]; intro H; [reflexivity|].
  apply andb_prop in H. destruct H as [Hc Hr]. apply negb_true_iff in Hc. rewrite Hc.
  f_equal. apply IH. exact Hr.
Qed.

Lemma agree_go w : forallb ascii_canon w = true -> no_bs w = true ->
  forall m d t, rel m d t ->
  (match word_case_go (map AChar w) m d with Lower => true | _ => false end) = von_go w t.
Proof.
  induction w as [|c r IH]; intros Hc Hb m d t R.
  - cbn. destruct R as [(-> & -> & ->)|(_ & _ & ->)]; reflexivity.
  - cbn [forallb] in Hc. apply andb_prop in Hc. destruct Hc as [Hc Hcr].
    cbn [no_bs forallb] in Hb. apply andb_prop in Hb. destruct Hb as [Hb Hbr]. apply negb_true_iff in Hb.
    destruct (canon_facts c Hc) as [Fa Fu].
    cbn [map word_case_go is_open is_close von_go].
    destruct R as [(-> & -> & ->)|(Hm & Hd & ->)].
    + (* top *)
      destruct (ceq c c_lb) eqn:Eo.
      { assert (upA c = false /\ loA c = false) as [U Lo].
        { apply N.eqb_eq in Eo. subst c. split; reflexivity. }
        rewrite U, Lo.
        destruct r as [|b r'].
        - reflexivity.
        - assert (Hb' : ceq b c_bs = false).
          { cbn [no_bs forallb] in Hbr. apply andb_prop in Hbr. destruct Hbr as [X _]. apply negb_true_iff in X. exact X. }
          rewrite Hb'. cbn [andb]. apply (IH Hcr Hbr). right. split; [left; reflexivity|]. split; [lia|reflexivity]. }
      destruct (ceq c c_rb) eqn:Ec.
      { assert (upA c = false /\ loA c = false) as [U Lo].
        { apply N.eqb_eq in Ec. subst c. split; reflexivity. }
        rewrite U, Lo. apply (IH Hcr Hbr). left. repeat split; reflexivity. }
      rewrite Fa. unfold letter_case. rewrite Fu.
      destruct (upA c) eqn:U; [reflexivity|]. destruct (loA c) eqn:Lo; [reflexivity|]. cbn [orb].
      apply (IH Hcr Hbr). left. repeat split; reflexivity.
    + (* inside a group *)
      destruct (ceq c c_lb) eqn:Eo.
      { assert (ceq c c_rb = false) as Ec by (apply N.eqb_eq in Eo; subst c; reflexivity). rewrite Ec.
        apply (IH Hcr Hbr). right. split; [left; reflexivity|]. split; [lia|reflexivity]. }
      destruct (ceq c c_rb) eqn:Ec.
      { unfold leave. destruct (d =? 1) eqn:E1.
        - apply N.eqb_eq in E1. subst d. cbn. apply (IH Hcr Hbr). left. repeat split; reflexivity.
        - apply N.eqb_neq in E1. replace (N.pred d =? 0) with false by (symmetry; apply N.eqb_neq; lia).
          replace (N.pred d) with (d - 1) by lia.
          apply (IH Hcr Hbr). right. split; [right; reflexivity|]. split; [lia|reflexivity]. }
      assert (G : word_case_go (map AChar r) MGroup d = word_case_go (map AChar r) MGroup d) by reflexivity.
      destruct Hm as [-> | ->]; apply (IH Hcr Hbr); right; (split; [right; reflexivity|]); (split; [lia|reflexivity]).
Qed.

(* on words of ASCII characters without a backslash the library's word case IS BibTeX's: K14 needs a backslash *)
Theorem agree_no_backslash w : forallb ascii_canon w = true -> no_bs w = true -> lib_von w = von_token_found w.
Proof.
  intros Hc Hb. unfold lib_von, von_token_found, word_case. rewrite (atoms_no_bs w Hb).
  apply (agree_go w Hc Hb). left. repeat split; reflexivity.
Qed.
