(* Facts shared by the C16 and C17 proofs: list lemmas, the insertion-ordered dict of Model/Blocks.v,
   and Library(blocks=...) (Model/LibRebuild.v). *)
From Coq Require Import List NArith ZArith Bool Arith Lia Permutation Sorted.
From BP Require Import Base.Chars Base.StableSort Model.Blocks Model.LibRebuild.
Import ListNotations.

(* ================================================================ generic list facts *)
Lemma SS_impl {A} (R R' : A -> A -> Prop) l :
  (forall x y, R x y -> R' x y) -> StronglySorted R l -> StronglySorted R' l.
Proof.
  intros H Hs. induction Hs as [|x l Hs IH Hall]; constructor; [exact IH|].
  eapply Forall_impl; [|exact Hall]. intros y; apply H.
Qed.

Lemma filter_filter_and {A} (p q : A -> bool) l : filter p (filter q l) = filter (fun x => p x && q x) l.
Proof.
  induction l as [|x l IH]; [reflexivity|]. cbn [filter].
  destruct (q x); cbn [filter]; rewrite ?andb_true_r, ?andb_false_r; [destruct (p x)|]; rewrite IH; reflexivity.
Qed.

Lemma filter_ext_In {A} (p q : A -> bool) l : (forall x, In x l -> p x = q x) -> filter p l = filter q l.
Proof.
  induction l as [|x l IH]; intros H; [reflexivity|]. cbn [filter].
  rewrite (H x (or_introl eq_refl)), IH; [reflexivity|]. intros y Hy; apply H; right; exact Hy.
Qed.

Lemma filter_none {A} (p : A -> bool) l : (forall x, In x l -> p x = false) -> filter p l = [].
Proof.
  induction l as [|x l IH]; intros H; [reflexivity|]. cbn [filter].
  rewrite (H x (or_introl eq_refl)). apply IH. intros y Hy; apply H; right; exact Hy.
Qed.

Lemma filter_all {A} (p : A -> bool) l : (forall x, In x l -> p x = true) -> filter p l = l.
Proof.
  induction l as [|x l IH]; intros H; [reflexivity|]. cbn [filter].
  rewrite (H x (or_introl eq_refl)). f_equal. apply IH. intros y Hy; apply H; right; exact Hy.
Qed.

Lemma str_eqb_sym a b : str_eqb a b = str_eqb b a.
Proof.
  destruct (str_eqb a b) eqn:E.
  - apply str_eqb_eq in E. subst. symmetry. apply str_eqb_refl.
  - apply str_eqb_neq in E. symmetry. apply str_eqb_neq. congruence.
Qed.

Lemma mem_str_false x l : mem_str x l = false <-> ~ In x l.
Proof.
  split; intros H.
  - intros Hin. apply mem_str_In in Hin. congruence.
  - destruct (mem_str x l) eqn:E; [apply mem_str_In in E; contradiction | reflexivity].
Qed.

(* ---- insertion-ordered dict facts *)
Section Dict.
  Variable V : Type.
  Implicit Types (d : list (str * V)) (k : str) (v : V).

  Lemma dict_get_set d k v k' : dict_get (dict_set d k v) k' = if str_eqb k' k then Some v else dict_get d k'.
  Proof.
    induction d as [|[k0 v0] d IH]; cbn [dict_set dict_get].
    - destruct (str_eqb k' k); reflexivity.
    - destruct (str_eqb k k0) eqn:E; cbn [dict_get].
      + apply str_eqb_eq in E. subst k0. destruct (str_eqb k' k); reflexivity.
      + rewrite IH. destruct (str_eqb k' k0) eqn:E0; [|reflexivity].
        apply str_eqb_eq in E0. subst k0. rewrite str_eqb_sym, E. reflexivity.
  Qed.

  Lemma dict_keys_set d k v :
    map fst (dict_set d k v) = if mem_str k (map fst d) then map fst d else map fst d ++ [k].
  Proof.
    induction d as [|[k0 v0] d IH]; [reflexivity|]. cbn [dict_set map fst mem_str].
    destruct (str_eqb k k0) eqn:E; cbn [orb map fst]; [reflexivity|].
    rewrite IH. destruct (mem_str k (map fst d)); reflexivity.
  Qed.

  Lemma dict_set_fresh d k v : ~ In k (map fst d) -> dict_set d k v = d ++ [(k, v)].
  Proof.
    induction d as [|[k0 v0] d IH]; intros H; [reflexivity|]. cbn [dict_set map fst In app] in *.
    assert (E : str_eqb k k0 = false) by (apply str_eqb_neq; intros ->; apply H; left; reflexivity).
    rewrite E. f_equal. apply IH. intros Hin; apply H; right; exact Hin.
  Qed.

  Lemma dict_set_idem d k v : dict_set (dict_set d k v) k v = dict_set d k v.
  Proof.
    induction d as [|[k0 v0] d IH]; cbn [dict_set].
    - rewrite str_eqb_refl. reflexivity.
    - destruct (str_eqb k k0) eqn:E; cbn [dict_set]; rewrite E; [reflexivity|]. rewrite IH. reflexivity.
  Qed.

  Lemma dict_get_In d k v : NoDup (map fst d) -> In (k, v) d -> dict_get d k = Some v.
  Proof.
    induction d as [|[k0 v0] d IH]; intros Hnd Hin; [destruct Hin|]. cbn [dict_get map fst] in *.
    inversion Hnd as [|? ? Hk Hnd']; subst. destruct Hin as [Heq|Hin].
    - injection Heq as -> ->. rewrite str_eqb_refl. reflexivity.
    - assert (E : str_eqb k k0 = false).
      { apply str_eqb_neq. intros ->. apply Hk. apply in_map_iff. exists (k0, v); auto. }
      rewrite E. apply IH; assumption.
  Qed.

  Lemma dict_keys_set_nodup d k v : NoDup (map fst d) -> NoDup (map fst (dict_set d k v)).
  Proof.
    intros H. rewrite dict_keys_set. destruct (mem_str k (map fst d)) eqn:E; [exact H|].
    apply mem_str_false in E.
    apply Permutation_NoDup with (l := k :: map fst d).
    - apply Permutation_cons_append.
    - constructor; assumption.
  Qed.
End Dict.

(* ---- Library(blocks=...) *)
Lemma dict_get_set_other {V} (d : list (str * V)) k v k' : k' <> k -> dict_get (dict_set d k v) k' = dict_get d k'.
Proof. intros H. rewrite dict_get_set. assert (E : str_eqb k' k = false) by (apply str_eqb_neq; exact H). rewrite E. reflexivity. Qed.

(* a library that satisfies Library's invariant is rebuilt as it is *)
Lemma rebuild_from_ok bs : forall es ss,
  NoDup (entry_keys bs) -> NoDup (string_keys bs) ->
  (forall k, In k (entry_keys bs) -> dict_get es k = None) ->
  (forall k, In k (string_keys bs) -> dict_get ss k = None) ->
  rebuild_from es ss bs = bs.
Proof.
  induction bs as [|b r IH]; intros es ss He Hs Hes Hss; [reflexivity|].
  destruct b; cbn [rebuild_from]; cbn [entry_keys string_keys flat_map app] in *;
    try (f_equal; apply IH; assumption).
  - rewrite (Hes key (or_introl eq_refl)). inversion He as [|? ? Hk He']; subst. f_equal. apply IH; try assumption.
    intros k Hk'. rewrite dict_get_set_other; [apply Hes; right; exact Hk' | intros ->; contradiction].
  - rewrite (Hss key (or_introl eq_refl)). inversion Hs as [|? ? Hk Hs']; subst. f_equal. apply IH; try assumption.
    intros k Hk'. rewrite dict_get_set_other; [apply Hss; right; exact Hk' | intros ->; contradiction].
Qed.

Theorem rebuild_ok bs : lib_ok bs -> rebuild bs = bs.
Proof. intros [He Hs]. apply rebuild_from_ok; try assumption; reflexivity. Qed.

(* rebuilding twice is rebuilding once (for ANY list of blocks) *)
Lemma rebuild_from_idem bs : forall es ss, rebuild_from es ss (rebuild_from es ss bs) = rebuild_from es ss bs.
Proof.
  induction bs as [|b r IH]; intros es ss; [reflexivity|].
  destruct b; cbn [rebuild_from]; try (cbn [rebuild_from]; f_equal; apply IH).
  - destruct (dict_get es key) eqn:E; cbn [rebuild_from cast_to_duplicate]; [|rewrite E]; f_equal; apply IH.
  - destruct (dict_get ss key) eqn:E; cbn [rebuild_from cast_to_duplicate]; [|rewrite E]; f_equal; apply IH.
Qed.

Lemma rebuild_idem bs : rebuild (rebuild bs) = rebuild bs.
Proof. apply rebuild_from_idem. Qed.

(* each rebuilt block is the block itself or a duplicate-key wrapper around it *)
Lemma rebuild_from_fixed (f : block -> block) bs : forall es ss,
  (forall b, is_entry b = false -> f b = b) -> Forall (fun b => f b = b) bs ->
  Forall (fun b => f b = b) (rebuild_from es ss bs).
Proof.
  intros es ss Hne. revert es ss. induction bs as [|b r IH]; intros es ss Hall; [constructor|].
  inversion Hall as [|? ? Hb Hr]; subst.
  destruct b; cbn [rebuild_from]; try (constructor; [exact Hb | apply IH; exact Hr]).
  - destruct (dict_get es key); constructor; try (apply IH; exact Hr); [apply Hne; reflexivity | exact Hb].
  - destruct (dict_get ss key); constructor; try (apply IH; exact Hr); [apply Hne; reflexivity | exact Hb].
Qed.

