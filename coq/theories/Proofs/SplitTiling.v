(* C03: for every input text the raw texts of the blocks emitted by the splitter machine tile "\n" ++ text
   with whitespace-only gaps, every start_line is -1 + the number of newlines before the raw text, and every
   field of every emitted entry carries the line of an '=' of the entry's raw text.

   Ghost-state invariant over  fold_left step : [consumed] is the list of characters already processed;
   consumed = P ++ pending s, where P is tiled by the blocks emitted so far (ending with a whitespace gap) and
   pending is the implicit comment (Out) or the raw accumulator of the open block (block modes).
   The invariant does not depend on the class annotations being a classify output, except for
   [ckok]: a character is classified MNL iff it is the newline, and MEq only if it is '='. *)
From Coq Require Import List NArith ZArith Bool Lia String.
From BP Require Import Base.Chars Model.Blocks Model.Lexer Model.Splitter Spec.C03.
Import ListNotations.
Local Open Scope Z_scope.

(* ------------------------------------------------------------------ count_nl, all_ws *)
Lemma count_nl_app a b : count_nl (a ++ b) = count_nl a + count_nl b.
Proof. induction a as [|x a IH]; cbn [count_nl app]; [reflexivity | rewrite IH; lia]. Qed.

Lemma count_nl_rev l : count_nl (rev l) = count_nl l.
Proof. induction l as [|x l IH]; cbn [rev]; [reflexivity|]. rewrite count_nl_app, IH. cbn [count_nl]. lia. Qed.

Lemma count_nl_nonneg s : 0 <= count_nl s.
Proof. induction s as [|x s IH]; cbn [count_nl]; [lia|]. destruct (x =? c_nl)%N; lia. Qed.

Lemma count_nl_1 c : count_nl [c] = if (c =? c_nl)%N then 1 else 0.
Proof. cbn [count_nl]. destruct (c =? c_nl)%N; reflexivity. Qed.

Lemma all_ws_app a b : all_ws a -> all_ws b -> all_ws (a ++ b).
Proof. intros; apply Forall_app; split; assumption. Qed.

(* ------------------------------------------------------------------ tiledL *)
Lemma tiledL_app_ws n P L w : tiledL n P L -> all_ws w -> tiledL n (P ++ w) L.
Proof.
  intros H Hw. induction H as [n g Hg | n g r rest items Hg Hr H IH].
  - constructor. apply all_ws_app; assumption.
  - replace ((g ++ r ++ rest) ++ w) with (g ++ r ++ (rest ++ w)) by (rewrite <- !app_assoc; reflexivity).
    constructor; auto.
Qed.

Lemma tiledL_snoc n P L r : tiledL n P L -> r <> [] -> tiledL n (P ++ r) (L ++ [(r, n + count_nl P)]).
Proof.
  intros H Hr. induction H as [n g Hg | n g r0 rest items Hg Hr0 H IH].
  - cbn [app]. replace (g ++ r) with (g ++ r ++ []) by (rewrite app_nil_r; reflexivity).
    constructor; auto. constructor. constructor.
  - replace ((g ++ r0 ++ rest) ++ r) with (g ++ r0 ++ (rest ++ r)) by (rewrite <- !app_assoc; reflexivity).
    cbn [app]. constructor; auto.
    replace (n + count_nl (g ++ r0 ++ rest)) with (n + count_nl g + count_nl r0 + count_nl rest)
      by (rewrite !count_nl_app; lia).
    exact IH.
Qed.

Lemma raw_lines_snoc l a b x : raw_lines l = Some a -> raw_line b = Some x -> raw_lines (l ++ [b]) = Some (a ++ [x]).
Proof.
  revert a. induction l as [|y l IH]; intros a Ha Hb; cbn [raw_lines app] in *.
  - inversion Ha; subst. rewrite Hb. reflexivity.
  - destruct (raw_line y); [|discriminate]. destruct (raw_lines l) as [xs|]; [|discriminate].
    inversion Ha; subst. rewrite (IH xs eq_refl Hb). reflexivity.
Qed.

(* ------------------------------------------------------------------ strip, skip_leading, end_implicit *)
Lemma lstrip_split s : exists lead, s = lead ++ lstrip s /\ all_ws lead.
Proof.
  induction s as [|c r IH]; [exists []; split; [reflexivity|constructor]|].
  cbn [lstrip]. destruct (isspace c) eqn:E.
  - destruct IH as (lead & H1 & H2). exists (c :: lead). split; [cbn [app]; f_equal; exact H1 | constructor; assumption].
  - exists []. split; [reflexivity | constructor].
Qed.

Lemma rstrip_split s : exists trail, s = rstrip s ++ trail /\ all_ws trail.
Proof.
  unfold rstrip. rewrite !rv_rev. destruct (lstrip_split (rev s)) as (lead & H1 & H2).
  exists (rev lead). split; [|apply Forall_rev; assumption].
  rewrite <- rev_app_distr, <- H1, rev_involutive. reflexivity.
Qed.

Lemma isspace_nl : isspace c_nl = true.
Proof. reflexivity. Qed.

Lemma skip_leading_split s : forall n rest n', skip_leading s n = (rest, n') ->
  exists lead, s = lead ++ rest /\ all_ws lead /\ n' = n + count_nl lead.
Proof.
  induction s as [|c r IH]; intros n rest n' H; cbn [skip_leading] in H.
  - inversion H; subst. exists []. repeat split; [constructor | cbn [count_nl]; lia].
  - destruct (c =? c_nl)%N eqn:E.
    + apply IH in H as (lead & H1 & H2 & H3). exists (c :: lead). split; [cbn [app]; f_equal; exact H1|].
      split; [constructor; [apply N.eqb_eq in E; subst c; apply isspace_nl | exact H2]|].
      cbn [count_nl]. rewrite E. lia.
    + destruct (isspace c) eqn:E2.
      * apply IH in H as (lead & H1 & H2 & H3). exists (c :: lead). split; [cbn [app]; f_equal; exact H1|].
        split; [constructor; assumption|]. cbn [count_nl]. rewrite E. lia.
      * inversion H; subst. exists []. repeat split; [constructor | cbn [count_nl]; lia].
Qed.

Lemma end_implicit_spec text l : exists lead core trail,
  text = lead ++ core ++ trail /\ all_ws lead /\ all_ws trail /\
  ((core = [] /\ end_implicit text l = None) \/
   (core <> [] /\ end_implicit text l = Some (BImpl (mkhdr (Some (l + count_nl lead)) (Some core) []) core))).
Proof.
  unfold end_implicit. destruct (skip_leading text 0) as [rest n] eqn:E.
  apply skip_leading_split in E as (lead & H1 & H2 & H3).
  destruct (rstrip_split rest) as (trail & H4 & H5).
  exists lead, (rstrip rest), trail. split; [rewrite <- H4; exact H1|]. split; [exact H2|]. split; [exact H5|].
  replace n with (count_nl lead) by lia.
  destruct (rstrip rest) as [|x y] eqn:E2.
  - left; split; reflexivity.
  - right. split; [discriminate | reflexivity].
Qed.

(* ------------------------------------------------------------------ the field-line facts *)
(* field f of a block with raw text r starting on line l0: its line is the line of an '=' of r *)
Definition fld_ok (r : str) (l0 : Z) (f : field) : Prop :=
  exists l pre post, fline f = Some l /\ r = pre ++ c_eq :: post /\ l = l0 + count_nl pre.
Definition ent_ok (h : hdr) (fs : list field) : Prop :=
  match raw h, sl h with Some r, Some l0 => Forall (fld_ok r l0) fs | _, _ => True end.
Definition blk_ok (b : block) : Prop :=
  match b with
  | BEntry h _ _ fs => ent_ok h fs
  | BDupField h _ (BEntry h' _ _ fs) => ent_ok h fs /\ h' = h
  | _ => True
  end.
(* the open field: the '=' that set f_line *)
Definition fl_ok (o : openb) : Prop :=
  exists pre post, rev (raw_rev o) = pre ++ c_eq :: post /\ f_line o = b_line o + count_nl pre.

Lemma fld_ok_ext r l0 c f : fld_ok r l0 f -> fld_ok (r ++ [c]) l0 f.
Proof.
  intros (l & pre & post & H1 & H2 & H3). exists l, pre, (post ++ [c]). split; [exact H1|]. split; [|exact H3].
  rewrite H2, <- app_assoc. reflexivity.
Qed.

Lemma fld_ok_range r l0 f : fld_ok r l0 f -> exists l, fline f = Some l /\ l0 <= l <= l0 + count_nl r.
Proof.
  intros (l & pre & post & H1 & H2 & H3). exists l. split; [exact H1|]. subst r l.
  rewrite count_nl_app. pose proof (count_nl_nonneg pre). pose proof (count_nl_nonneg (c_eq :: post)). lia.
Qed.

(* ------------------------------------------------------------------ the invariant *)
Definition fl_needed (m : mode) : Prop := match m with FldVal _ _ => True | _ => False end.
Definition blockmode (m : mode) : Prop := match m with Out | Crashed => False | _ => True end.

Definition OutInv (s : st) (consumed : str) : Prop :=
  exists P items, consumed = P ++ rev (ic_rev s) /\ raw_lines (rev (out_rev s)) = Some items /\
    tiledL (-1) P items /\ line s = -1 + count_nl consumed /\ ic_line s = -1 + count_nl P /\
    Forall blk_ok (out_rev s).

Definition BlkInv (s : st) (consumed : str) : Prop :=
  exists P items, consumed = P ++ rev (raw_rev (ob s)) /\ raw_lines (rev (out_rev s)) = Some items /\
    tiledL (-1) P items /\ line s = -1 + count_nl consumed /\ b_line (ob s) = -1 + count_nl P /\
    raw_rev (ob s) <> [] /\ Forall blk_ok (out_rev s) /\
    Forall (fld_ok (rev (raw_rev (ob s))) (b_line (ob s))) (flds_rev (ob s)) /\
    (fl_needed (md s) -> fl_ok (ob s)).

Definition Inv (s : st) (consumed : str) : Prop :=
  match md s with Crashed => True | Out => OutInv s consumed | _ => BlkInv s consumed end.

(* one more character on the raw accumulator; fields kept or cleared *)
Definition ext (c : ch) (o o' : openb) : Prop :=
  raw_rev o' = c :: raw_rev o /\ b_line o' = b_line o /\ (flds_rev o' = flds_rev o \/ flds_rev o' = []).

Lemma ext_raw c o : ext c o (ob_raw c o).       Proof. repeat split; left; reflexivity. Qed.
Lemma ext_raw_typ c o : ext c o (ob_raw_typ c o). Proof. repeat split; left; reflexivity. Qed.
Lemma ext_raw_a c o : ext c o (ob_raw_a c o).   Proof. repeat split; left; reflexivity. Qed.
Lemma ext_raw_v c o : ext c o (ob_raw_v c o).   Proof. repeat split; left; reflexivity. Qed.
Lemma ext_eq c ln o : ext c o (ob_eq c ln o).   Proof. repeat split; left; reflexivity. Qed.
Lemma ext_open c ty o : ext c o (ob_open c ty o). Proof. repeat split; right; reflexivity. Qed.
Lemma ext_key c o : ext c o (ob_key c o).       Proof. repeat split; right; reflexivity. Qed.

Lemma ext_flds c o o' : ext c o o' ->
  Forall (fld_ok (rev (raw_rev o)) (b_line o)) (flds_rev o) ->
  Forall (fld_ok (rev (raw_rev o')) (b_line o')) (flds_rev o').
Proof.
  intros (E1 & E2 & E3) H. rewrite E1, E2. cbn [rev]. destruct E3 as [E3|E3]; rewrite E3; [|constructor].
  eapply Forall_impl; [|exact H]. intros f Hf. apply fld_ok_ext. exact Hf.
Qed.

(* a block-mode step that keeps the block open *)
Lemma blk_upd s consumed c m' ln' o' :
  BlkInv s consumed -> ext c (ob s) o' ->
  ln' = line s + (if (c =? c_nl)%N then 1 else 0) ->
  (fl_needed m' -> (fl_needed (md s) /\ f_line o' = f_line (ob s)) \/ (f_line o' = line s /\ c = c_eq)) ->
  BlkInv (mkst m' ln' (out_rev s) (ic_rev s) (ic_line s) o') (consumed ++ [c]).
Proof.
  intros (P & items & H1 & H2 & H3 & H4 & H5 & H6 & H7 & H8 & H9) E Hln Hfl.
  pose proof (ext_flds _ _ _ E H8) as H8'.
  destruct E as (E1 & E2 & E3).
  exists P, items. cbn [md line out_rev ic_rev ic_line ob].
  split; [rewrite E1; cbn [rev]; rewrite H1, app_assoc; reflexivity|].
  split; [exact H2|]. split; [exact H3|].
  split; [rewrite count_nl_app, count_nl_1; lia|].
  split; [rewrite E2; exact H5|].
  split; [rewrite E1; discriminate|].
  split; [exact H7|]. split; [exact H8'|].
  intros Hn. destruct (Hfl Hn) as [[Hn' Hf] | [Hf Hc]].
  - destruct (H9 Hn') as (pre & post & Hr & Hl). exists pre, (post ++ [c]).
    rewrite E1, E2, Hf. cbn [rev]. split; [rewrite Hr, <- app_assoc; reflexivity | exact Hl].
  - exists (rev (raw_rev (ob s))), []. rewrite E1, E2, Hf. cbn [rev]. split; [subst c; reflexivity|].
    rewrite H4, H1, H5, count_nl_app. lia.
Qed.

Lemma inv_upd s consumed c m' o' :
  BlkInv s consumed -> blockmode m' -> ext c (ob s) o' -> c <> c_nl ->
  (fl_needed m' -> (fl_needed (md s) /\ f_line o' = f_line (ob s)) \/ (f_line o' = line s /\ c = c_eq)) ->
  Inv (upd s m' o') (consumed ++ [c]).
Proof.
  intros H Hm E Hc Hfl.
  assert (B : BlkInv (upd s m' o') (consumed ++ [c])).
  { unfold upd. apply blk_upd; auto. apply N.eqb_neq in Hc. rewrite Hc. lia. }
  unfold Inv. destruct m'; try contradiction; exact B.
Qed.

Lemma inv_upd_nl s consumed c o' :
  BlkInv s consumed -> blockmode (md s) -> ext c (ob s) o' -> c = c_nl ->
  f_line o' = f_line (ob s) ->
  Inv (upd_nl s o') (consumed ++ [c]).
Proof.
  intros H Hm E Hc Hfl.
  assert (B : BlkInv (upd_nl s o') (consumed ++ [c])).
  { unfold upd_nl. apply blk_upd; auto. subst c. reflexivity. }
  unfold Inv. change (md (upd_nl s o')) with (md s). destruct (md s); try contradiction; exact B.
Qed.

(* a field is complete (no character consumed) *)
Lemma blk_field s consumed :
  BlkInv s consumed -> fl_needed (md s) -> BlkInv (upd s (md s) (ob_field (ob s))) consumed.
Proof.
  intros (P & items & H1 & H2 & H3 & H4 & H5 & H6 & H7 & H8 & H9) Hn.
  exists P, items. cbn [upd md line out_rev ic_rev ic_line ob ob_field raw_rev b_line flds_rev f_line].
  repeat (split; [assumption|]). split; [|exact H9].
  constructor; [|exact H8].
  destruct (H9 Hn) as (pre & post & Hr & Hl). exists (f_line (ob s)), pre, post. cbn [fline]. auto.
Qed.

(* a block-mode step that closes the block *)
Lemma blk_close s consumed c o' b oo :
  BlkInv s consumed -> ext c (ob s) o' -> c <> c_nl ->
  bhdr b = hdr_of o' ->
  (Forall (fld_ok (rev (raw_rev o')) (b_line o')) (flds_rev o') -> blk_ok b) ->
  OutInv (mkst Out (line s) (b :: out_rev s) [] (line s) oo) (consumed ++ [c]).
Proof.
  intros (P & items & H1 & H2 & H3 & H4 & H5 & H6 & H7 & H8 & H9) E Hc Hh Hb.
  pose proof (ext_flds _ _ _ E H8) as H8'. destruct E as (E1 & E2 & E3).
  assert (Hcons : consumed ++ [c] = P ++ rev (raw_rev o')).
  { rewrite E1. cbn [rev]. rewrite H1, app_assoc. reflexivity. }
  assert (Hl : line s = -1 + count_nl (consumed ++ [c])).
  { rewrite count_nl_app, count_nl_1. apply N.eqb_neq in Hc. rewrite Hc. lia. }
  exists (consumed ++ [c]), (items ++ [(rev (raw_rev o'), -1 + count_nl P)]).
  cbn [md line out_rev ic_rev ic_line ob rev].
  split; [rewrite app_nil_r; reflexivity|].
  split.
  { apply raw_lines_snoc; [exact H2|]. unfold raw_line. rewrite Hh. cbn [hdr_of raw sl].
    rewrite rv_rev, E2, H5. reflexivity. }
  split.
  { rewrite Hcons. apply tiledL_snoc; [exact H3|]. rewrite E1. cbn [rev]. intro X.
    apply app_eq_nil in X as [_ X]. discriminate. }
  split; [exact Hl|]. split; [exact Hl|].
  constructor; [apply Hb; exact H8' | exact H7].
Qed.

(* the Python raised BlockAbortedException: failed block with the pending raw, back to Out *)
Lemma blk_abort s consumed reason oo :
  BlkInv s consumed ->
  OutInv (mkst Out (line s) (failed_block (ob s) reason :: out_rev s) [] (line s) oo) consumed.
Proof.
  intros (P & items & H1 & H2 & H3 & H4 & H5 & H6 & H7 & H8 & H9).
  exists consumed, (items ++ [(rev (raw_rev (ob s)), -1 + count_nl P)]).
  cbn [md line out_rev ic_rev ic_line ob rev].
  split; [rewrite app_nil_r; reflexivity|].
  split.
  { apply raw_lines_snoc; [exact H2|]. unfold raw_line, failed_block. cbn [bhdr hdr_of raw sl].
    rewrite rv_rev, H5. reflexivity. }
  split.
  { rewrite H1. apply tiledL_snoc; [exact H3|]. intro X. apply H6.
    apply (f_equal (@rev ch)) in X. rewrite rev_involutive in X. exact X. }
  split; [exact H4|]. split; [exact H4|].
  constructor; [exact I | exact H7].
Qed.

(* flushing the implicit comment *)
Lemma flush_ok s consumed : OutInv s consumed ->
  exists items', raw_lines (rev (flush_ic s)) = Some items' /\ tiledL (-1) consumed items' /\
                 Forall blk_ok (flush_ic s).
Proof.
  intros (P & items & H1 & H2 & H3 & H4 & H5 & H6).
  unfold flush_ic. rewrite rv_rev.
  destruct (end_implicit_spec (rev (ic_rev s)) (ic_line s)) as (lead & core & trail & Ht & Hl & Htr & [[Hc He]|[Hc He]]);
    rewrite He.
  - exists items. split; [exact H2|]. split; [|exact H6].
    rewrite H1, Ht, Hc. cbn [app]. apply tiledL_app_ws; [exact H3|]. apply all_ws_app; assumption.
  - exists (items ++ [(core, -1 + count_nl (P ++ lead))]). split.
    { cbn [rev]. apply raw_lines_snoc; [exact H2|]. unfold raw_line. cbn [bhdr raw sl].
      rewrite count_nl_app, H5. do 2 f_equal. lia. }
    split; [|constructor; [exact I | exact H6]].
    rewrite H1, Ht. replace (P ++ lead ++ core ++ trail) with (((P ++ lead) ++ core) ++ trail)
      by (rewrite <- !app_assoc; reflexivity).
    apply tiledL_app_ws; [|exact Htr]. apply tiledL_snoc; [|exact Hc]. apply tiledL_app_ws; assumption.
Qed.

(* Out mode keeps collecting the implicit comment *)
Lemma out_keep s consumed c ln' oo :
  OutInv s consumed -> ln' = line s + (if (c =? c_nl)%N then 1 else 0) ->
  OutInv (mkst Out ln' (out_rev s) (c :: ic_rev s) (ic_line s) oo) (consumed ++ [c]).
Proof.
  intros (P & items & H1 & H2 & H3 & H4 & H5 & H6) Hln.
  exists P, items. cbn [md line out_rev ic_rev ic_line ob rev].
  split; [rewrite H1, app_assoc; reflexivity|].
  split; [exact H2|]. split; [exact H3|].
  split; [rewrite count_nl_app, count_nl_1; lia|].
  split; [exact H5 | exact H6].
Qed.

(* ------------------------------------------------------------------ the hypothesis on class annotations *)
Definition ckok (ck : ch * option mk) : Prop :=
  (snd ck = Some MNL <-> fst ck = c_nl) /\ (snd ck = Some MEq -> fst ck = c_eq).

Lemma classify1_nl pb c rest : classify1 pb c rest = Some MNL <-> c = c_nl.
Proof.
  unfold classify1. destruct (c =? c_nl)%N eqn:E.
  - apply N.eqb_eq in E. tauto.
  - apply N.eqb_neq in E. split; [|intros; contradiction].
    destruct (c =? c_at)%N; [destruct (at_ok rest); discriminate|].
    destruct pb; [discriminate|].
    destruct (c =? c_lb)%N; [discriminate|]. destruct (c =? c_rb)%N; [discriminate|].
    destruct (c =? c_quote)%N; [discriminate|]. destruct (c =? c_comma)%N; [discriminate|].
    destruct (c =? c_eq)%N; discriminate.
Qed.

Lemma classify1_eq pb c rest : classify1 pb c rest = Some MEq -> c = c_eq.
Proof.
  unfold classify1. destruct (c =? c_nl)%N; [discriminate|].
  destruct (c =? c_at)%N; [destruct (at_ok rest); discriminate|].
  destruct pb; [discriminate|].
  destruct (c =? c_lb)%N; [discriminate|]. destruct (c =? c_rb)%N; [discriminate|].
  destruct (c =? c_quote)%N; [discriminate|]. destruct (c =? c_comma)%N; [discriminate|].
  destruct (c =? c_eq)%N eqn:E; [|discriminate]. intros _. apply N.eqb_eq. exact E.
Qed.

Lemma classify_ckok l : forall pb, Forall ckok (classify pb l).
Proof.
  induction l as [|c r IH]; intros pb; cbn [classify]; constructor; [|apply IH].
  split; cbn [fst snd]; [apply classify1_nl | apply classify1_eq].
Qed.

Lemma classify_fst l : forall pb, map fst (classify pb l) = l.
Proof. induction l as [|c r IH]; intros pb; cbn [classify map fst]; [reflexivity | rewrite IH; reflexivity]. Qed.

(* ------------------------------------------------------------------ the step *)
Lemma inv_step_out s consumed c k :
  ckok (c, k) -> OutInv s consumed -> Inv (step_out s c k) (consumed ++ [c]).
Proof.
  intros [[Hnl1 Hnl2] _] H. cbn [fst snd] in *.
  assert (Hnl : k <> Some MNL -> c <> c_nl) by (intros A B; apply A, Hnl2, B).
  assert (Keep : forall ln' oo, ln' = line s + (if (c =? c_nl)%N then 1 else 0) ->
            Inv (mkst Out ln' (out_rev s) (c :: ic_rev s) (ic_line s) oo) (consumed ++ [c])).
  { intros. unfold Inv. cbn [md]. apply out_keep; assumption. }
  assert (Other : k <> Some MNL -> Inv (mkst Out (line s) (out_rev s) (c :: ic_rev s) (ic_line s) (ob s)) (consumed ++ [c])).
  { intros A. apply Keep. apply Hnl, N.eqb_neq in A. rewrite A. lia. }
  destruct k as [[]|]; cbn [step_out]; try (apply Other; discriminate).
  - (* MNL *) apply Keep. rewrite (Hnl1 eq_refl). reflexivity.
  - (* MAt *)
    unfold Inv. cbn [md].
    destruct (flush_ok _ _ H) as (items' & F1 & F2 & F3).
    destruct H as (P & items & H1 & H2 & H3 & H4 & H5 & H6).
    exists consumed, items'. cbn [md line out_rev ic_rev ic_line ob ob0 raw_rev b_line flds_rev rev app].
    split; [reflexivity|]. split; [exact F1|]. split; [exact F2|].
    assert (Hc : c <> c_nl) by (apply Hnl; discriminate). apply N.eqb_neq in Hc.
    split; [rewrite count_nl_app, count_nl_1, Hc; lia|].
    split; [exact H4|]. split; [discriminate|]. split; [exact F3|]. split; [constructor|].
    intros [].
Qed.

Lemma inv_abort s consumed reason c k :
  ckok (c, k) -> BlkInv s consumed -> Inv (abort s reason c k) (consumed ++ [c]).
Proof.
  intros Hck H. unfold abort. apply inv_step_out; [exact Hck |]. apply blk_abort. exact H.
Qed.

Lemma inv_close s consumed c o' b :
  BlkInv s consumed -> ext c (ob s) o' -> c <> c_nl -> bhdr b = hdr_of o' ->
  (Forall (fld_ok (rev (raw_rev o')) (b_line o')) (flds_rev o') -> blk_ok b) ->
  Inv (close_block s b) (consumed ++ [c]).
Proof. intros. unfold Inv, close_block. cbn [md]. eapply blk_close; eassumption. Qed.

Lemma bhdr_entry o : bhdr (entry_block o) = hdr_of o.
Proof. unfold entry_block. destruct (dups o); reflexivity. Qed.
Lemma bhdr_braces k o : bhdr (braces_block k o) = hdr_of o.
Proof. destruct k; reflexivity. Qed.
Lemma blk_ok_braces k o : blk_ok (braces_block k o).
Proof. destruct k; exact I. Qed.
Lemma blk_ok_entry o :
  Forall (fld_ok (rev (raw_rev o)) (b_line o)) (flds_rev o) -> blk_ok (entry_block o).
Proof.
  intros H. assert (E : ent_ok (hdr_of o) (rv (flds_rev o))).
  { unfold ent_ok. cbn [hdr_of raw sl]. rewrite !rv_rev. apply Forall_rev. exact H. }
  unfold entry_block. destruct (dups o); cbn [blk_ok]; [exact E | split; [exact E | reflexivity]].
Qed.

Lemma step_inv s consumed c k : ckok (c, k) -> Inv s consumed -> Inv (step s (c, k)) (consumed ++ [c]).
Proof.
  intros Hck H. pose proof Hck as [[Hnl1 Hnl2] Heq]. cbn [fst snd] in *.
  assert (Hnl : k <> Some MNL -> c <> c_nl) by (intros A B; apply A, Hnl2, B).
  unfold Inv in H. unfold step.
  destruct (md s) eqn:Hm.
  - (* Out *) apply inv_step_out; [exact Hck | exact H].
  - (* Head *)
    destruct k as [[]|]; try exact I.
    + destruct (starts_with s_comment _); [|destruct (starts_with s_preamble _); [|destruct (starts_with s_string _)]];
        (apply inv_upd; [exact H | exact I | apply ext_open | apply Hnl; discriminate | intros []]).
    + apply inv_upd; [exact H | exact I | apply ext_raw_typ | apply Hnl; discriminate | intros []].
  - (* InBraces *)
    destruct k as [[]|];
      try (apply inv_upd; [exact H | exact I | apply ext_raw_v | apply Hnl; discriminate | intros []]).
    + (* MRB *) destruct (d =? 0)%N.
      * apply inv_close with (o' := ob_raw c (ob s));
          [exact H | apply ext_raw | apply Hnl; discriminate | apply bhdr_braces | intros _; apply blk_ok_braces].
      * apply inv_upd; [exact H | exact I | apply ext_raw_v | apply Hnl; discriminate | intros []].
    + (* MNL *) apply inv_upd_nl; [exact H | rewrite Hm; exact I | apply ext_raw_v | auto | reflexivity].
    + (* MAt *) apply inv_abort; assumption.
  - (* StrKey *)
    destruct k as [[]|]; try (apply inv_abort; assumption).
    + apply inv_upd; [exact H | exact I | apply ext_eq | apply Hnl; discriminate | intros []].
    + apply inv_upd_nl; [exact H | rewrite Hm; exact I | apply ext_raw_a | auto | reflexivity].
    + apply inv_upd; [exact H | exact I | apply ext_raw_a | apply Hnl; discriminate | intros []].
  - (* EntKey *)
    destruct k as [[]|]; try (apply inv_abort; assumption).
    + apply inv_close with (o' := ob_key c (ob s));
        [exact H | apply ext_key | apply Hnl; discriminate | apply bhdr_entry | apply blk_ok_entry].
    + apply inv_upd; [exact H | exact I | apply ext_key | apply Hnl; discriminate | intros []].
    + apply inv_upd_nl; [exact H | rewrite Hm; exact I | apply ext_raw_a | auto | reflexivity].
    + apply inv_upd; [exact H | exact I | apply ext_raw_a | apply Hnl; discriminate | intros []].
  - (* FldKey *)
    destruct k as [[]|]; try (apply inv_abort; assumption).
    + apply inv_close with (o' := ob_raw c (ob s));
        [exact H | apply ext_raw | apply Hnl; discriminate | apply bhdr_entry | apply blk_ok_entry].
    + apply inv_upd; [exact H | exact I | apply ext_eq | apply Hnl; discriminate |].
      intros _. right. split; [reflexivity | apply Heq; reflexivity].
    + apply inv_upd_nl; [exact H | rewrite Hm; exact I | apply ext_raw_a | auto | reflexivity].
    + apply inv_upd; [exact H | exact I | apply ext_raw_a | apply Hnl; discriminate | intros []].
  - (* FldVal *)
    assert (Hn : fl_needed (md s)) by (rewrite Hm; exact I).
    assert (Stay : forall m', blockmode m' -> k <> Some MNL -> Inv (upd s m' (ob_raw_v c (ob s))) (consumed ++ [c])).
    { intros m' Hm' A. apply inv_upd; [exact H | exact Hm' | apply ext_raw_v | apply Hnl; exact A |].
      intros _. left. split; [exact Hn | reflexivity]. }
    pose proof (blk_field _ _ H Hn) as HF. rewrite Hm in HF.
    destruct k as [[]|]; try (apply Stay; [exact I | discriminate]).
    + (* MLB *) destruct q; apply Stay; try exact I; discriminate.
    + (* MRB *) destruct q; [apply Stay; [exact I | discriminate]|].
      destruct (d =? 0)%N; [|apply Stay; [exact I | discriminate]].
      unfold Inv, close_block. cbn [md].
      apply (blk_close _ _ c (ob_raw c (ob_field (ob s))) _ (ob s) HF);
        [apply ext_raw | apply Hnl; discriminate | apply bhdr_entry | apply blk_ok_entry].
    + (* MQ *) destruct (d =? 0)%N; apply Stay; try exact I; discriminate.
    + (* MComma *) destruct (q || negb (d =? 0)%N); [apply Stay; [exact I | discriminate]|].
      apply (inv_upd _ _ c FldKey (ob_raw c (ob_field (ob s))) HF);
        [exact I | apply ext_raw | apply Hnl; discriminate | intros []].
    + (* MNL *) apply inv_upd_nl; [exact H | rewrite Hm; exact I | apply ext_raw_v | auto | reflexivity].
    + (* MAt *) apply inv_abort; assumption.
  - (* Crashed *) unfold Inv. rewrite Hm. exact I.
Qed.

Lemma run_inv cl : forall s consumed, Forall ckok cl -> Inv s consumed ->
  Inv (fold_left step cl s) (consumed ++ map fst cl).
Proof.
  induction cl as [|[c k] cl IH]; intros s consumed Hc H; cbn [fold_left map fst].
  - rewrite app_nil_r. exact H.
  - inversion Hc; subst.
    replace (consumed ++ c :: map fst cl) with ((consumed ++ [c]) ++ map fst cl) by (rewrite <- app_assoc; reflexivity).
    apply IH; [assumption|]. apply step_inv; assumption.
Qed.

Lemma inv_st0 : Inv st0 [].
Proof.
  unfold Inv, st0. cbn [md]. exists [], []. cbn [md line out_rev ic_rev ic_line ob rev app count_nl].
  repeat split; constructor. constructor.
Qed.

Lemma finish_inv s consumed bs : Inv s consumed -> finish s = Blocks bs ->
  exists items, raw_lines bs = Some items /\ tiledL (-1) consumed items /\ Forall blk_ok bs.
Proof.
  unfold Inv, finish. intros H F.
  assert (Blk : BlkInv s consumed -> Blocks (rv (failed_block (ob s) R_EOF :: out_rev s)) = Blocks bs ->
          exists items, raw_lines bs = Some items /\ tiledL (-1) consumed items /\ Forall blk_ok bs).
  { intros B E. inversion E; subst bs. clear E.
    pose proof (blk_abort s consumed R_EOF (ob s) B) as (P & items & H1 & H2 & H3 & H4 & H5 & H6).
    cbn [md line out_rev ic_rev ic_line ob rev] in *. rewrite app_nil_r in H1. subst P.
    exists items. rewrite rv_rev. split; [exact H2|]. split; [exact H3|]. apply Forall_rev. exact H6. }
  destruct (md s); try discriminate; try (apply Blk; assumption).
  inversion F; subst bs. destruct (flush_ok _ _ H) as (items' & F1 & F2 & F3).
  exists items'. rewrite rv_rev. split; [exact F1|]. split; [exact F2|]. apply Forall_rev. exact F3.
Qed.

Lemma split_raw_inv t bs : split_raw t = Blocks bs ->
  exists items, raw_lines bs = Some items /\ tiledL (-1) (c_nl :: t) items /\ Forall blk_ok bs.
Proof.
  unfold split_raw, run. intros F.
  pose proof (run_inv (classify false (c_nl :: t)) st0 [] (classify_ckok _ _) inv_st0) as H.
  rewrite classify_fst in H. cbn [app] in H.
  exact (finish_inv _ _ _ H F).
Qed.

(* ------------------------------------------------------------------ the theorems *)
Theorem split_raw_tiles : forall (t : str) (bs : list block),
  split_raw t = Blocks bs -> tiles_with_true_lines t bs.
Proof.
  intros t bs F. destruct (split_raw_inv t bs F) as (items & H1 & H2 & _).
  exists items. split; assumption.
Qed.

(* every field of every emitted entry (bare or wrapped in a duplicate-field block) carries the line of an '='
   of the entry's raw text: raw = pre ++ '=' :: post and line = start_line + number of newlines of pre.
   (By construction of the machine that '=' is the one read in FldKey mode: ob_eq stores [line s] there,
   ob_field copies it into the field.) *)
Theorem field_line_is_eq_line : forall (t : str) (bs : list block),
  split_raw t = Blocks bs -> Forall blk_ok bs.
Proof. intros t bs F. destruct (split_raw_inv t bs F) as (items & _ & _ & H). exact H. Qed.

(* the range form: start_line <= field line <= start_line + newlines of raw *)
Definition fields_in_range (b : block) : Prop :=
  forall h ty k fs, (b = BEntry h ty k fs \/ exists ks, b = BDupField h ks (BEntry h ty k fs)) ->
  forall r l0, raw h = Some r -> sl h = Some l0 ->
  Forall (fun f => exists l, fline f = Some l /\ l0 <= l <= l0 + count_nl r) fs.

Corollary field_lines_in_range : forall (t : str) (bs : list block),
  split_raw t = Blocks bs -> Forall fields_in_range bs.
Proof.
  intros t bs F. eapply Forall_impl; [|exact (field_line_is_eq_line t bs F)].
  intros b Hb h ty k fs Hs r l0 Hr Hl.
  assert (E : ent_ok h fs).
  { destruct Hs as [-> | [ks ->]]; cbn [blk_ok] in Hb; [exact Hb | exact (proj1 Hb)]. }
  unfold ent_ok in E. rewrite Hr, Hl in E.
  eapply Forall_impl; [|exact E]. intros f. apply fld_ok_range.
Qed.

(* ------------------------------------------------------------------ an instance *)
Definition ex_text : str := lit "@a{k, x = {y}} junk @b{".

Example ex_split : exists b1 b2 b3,
  split_raw ex_text = Blocks [b1; b2; b3] /\ map class_of [b1; b2; b3] = [CEntry; CImpl; CFailed].
Proof. vm_compute. do 3 eexists. split; reflexivity. Qed.

Example ex_tiles : exists bs, split_raw ex_text = Blocks bs /\ List.length bs = 3%nat /\
  tiles_with_true_lines ex_text bs /\ Forall blk_ok bs.
Proof.
  destruct ex_split as (b1 & b2 & b3 & E & _). exists [b1; b2; b3].
  split; [exact E|]. split; [reflexivity|].
  split; [apply split_raw_tiles | eapply field_line_is_eq_line]; exact E.
Qed.

Print Assumptions split_raw_tiles.
Print Assumptions field_line_is_eq_line.
Print Assumptions field_lines_in_range.
