(* C05, part 5: the first parse of a well-formed document yields clean content (outside K7), and the round trip. *)
From Coq Require Import List NArith ZArith Bool Lia String.
From BP Require Import Base.Chars Model.Blocks Model.LibAdd Gen.Constants Model.Enclosing Model.Writer
  Model.Lexer Model.Splitter Model.Interpolate Model.Grammar Model.Pipeline Spec.C05
  Proofs.LibAddProofs Proofs.EnclosingProofs Proofs.WriterProofs Proofs.SplitGrammar
  Proofs.RoundTrip Proofs.RoundTrip2 Proofs.RoundTrip3 Proofs.RoundTrip4 Proofs.RoundTrip5.
Import ListNotations.

(* ---- lower-casing an entry type *)
Lemma lower_ch_word c : isword c = true -> isword (lower_ch c) = true.
Proof.
  intros W. unfold lower_ch. destruct ((asc 65 <=? c)%N && (c <=? asc 90)%N && (N.land c 127 =? 22)%N) eqn:E; [|exact W].
  apply andb_true_iff in E as [_ E]. apply N.eqb_eq in E. unfold isword.
  change 127%N with (N.ones 7) in E. rewrite N.land_ones in E.
  rewrite <- (N.mod_pow2_bits_low (c + 4156) 7 4) by lia.
  rewrite N.add_mod by discriminate. rewrite E. reflexivity.
Qed.
Lemma lower_ch_idem c : lower_ch (lower_ch c) = lower_ch c.
Proof.
  unfold lower_ch at 2 3. destruct ((asc 65 <=? c)%N && (c <=? asc 90)%N && (N.land c 127 =? 22)%N) eqn:E;
    [|unfold lower_ch; rewrite E; reflexivity].
  apply andb_true_iff in E as [E _]. apply andb_true_iff in E as [E1 E2]. apply N.leb_le in E1, E2.
  unfold lower_ch. replace (c + 4156 <=? asc 90)%N with false; [rewrite andb_false_r; reflexivity|].
  symmetry. apply N.leb_gt. change (asc 90) with 11542%N in *. change (asc 65) with 8342%N in *. lia.
Qed.
Lemma lower_idem s : lower (lower s) = lower s.
Proof. unfold lower. rewrite map_map. apply map_ext, lower_ch_idem. Qed.

Lemma typ_clean_lower typ : typ_ok typ = true ->
  negb (starts_with s_comment (lower typ)) && negb (starts_with s_preamble (lower typ)) && negb (starts_with s_string (lower typ)) = true ->
  typ_clean (lower typ).
Proof.
  intros H X. split; [|split; [apply lower_idem | exact X]].
  unfold typ_ok in *. apply andb_true_iff in H as [Hn H]. apply andb_true_iff. split; [destruct typ; [discriminate | reflexivity]|].
  rewrite forallb_forall in *. intros x Hx. apply in_map_iff in Hx as (c & <- & Hc). specialize (H c Hc).
  apply andb_true_iff in H as [H1 H2]. rewrite isspace_lower, H2, (lower_ch_word c H1). reflexivity.
Qed.

(* ---- K7 on contents *)
Lemma ends_bs_rev s : forall pb, ends_bs pb s = match rev s with c :: _ => (c =? c_bs)%N | [] => pb end.
Proof.
  induction s as [|c r IH]; intros pb; [reflexivity|]. cbn [ends_bs rev]. rewrite IH.
  destruct (rev r); reflexivity.
Qed.
Lemma ends_in_bs_eq s : ends_in_bs s = ends_bs false s.
Proof. unfold ends_in_bs. rewrite rv_rev, ends_bs_rev. reflexivity. Qed.

Definition k7_c (c : bcontent) : bool :=
  match c with
  | KEntry _ k fs => ends_in_bs k || existsb (fun kv => value_ends_in_bs (snd kv)) fs
  | KString _ v => value_ends_in_bs v
  | KExpl c => ends_in_bs c
  | _ => false
  end.
Lemma k7_block_c b : k7_block b = k7_c (content1 b).
Proof.
  destruct b; try reflexivity. cbn [k7_block content1 k7_c]. f_equal.
  induction fields as [|f r IH]; [reflexivity|]. cbn [existsb map snd]. rewrite IH. reflexivity.
Qed.
Lemma known_K7_c l : known_K7 l = existsb k7_c (content l).
Proof. unfold known_K7. induction l as [|b r IH]; [reflexivity|]. cbn [existsb content map]. rewrite k7_block_c, IH. reflexivity. Qed.

(* ---- every item of a well-formed document: its own well-formedness and side condition G *)
Lemma wf_items_in l : forall prev it g, wf_items prev l = true -> In (it, g) l ->
  wf_item it = true /\ exists R, noat (render_body it ++ g) R = true.
Proof.
  induction l as [|[it0 g0] r IH]; intros prev it g W I; [contradiction|]. cbn [wf_items] in W.
  apply andb_true_iff in W as [W Wr]. apply andb_true_iff in W as [W Wn]. apply andb_true_iff in W as [W _].
  apply andb_true_iff in W as [Wi _]. destruct I as [I|I].
  - inversion I; subst. split; [exact Wi | eexists; exact Wn].
  - exact (IH _ _ _ Wr I).
Qed.

Lemma exp_items_in l : forall ln b, In b (exp_items ln l) -> exists it g ln', In (it, g) l /\ b = block_of ln' it.
Proof.
  induction l as [|[it0 g0] r IH]; intros ln b I; [contradiction|]. cbn [exp_items] in I. destruct I as [I|I].
  - exists it0, g0, ln. split; [left; reflexivity | symmetry; exact I].
  - destruct (IH _ _ I) as (it & g & ln' & I' & E). exists it, g, ln'. split; [right; exact I' | exact E].
Qed.

(* ---- the strings dictionary of a well-formed document *)
Definition good_value (v : str) : Prop := exists gv, v = render_value gv /\ wf_value gv = true /\ nat_ok (sval gv).
Definition sd_ok (bs : list block) : Prop := forall k v, sd_lookup bs k = Some v -> good_value v.

Lemma string_item_good kw hws w1 name w2 w3 gv w4 g R :
  wf_item (IString kw hws w1 name w2 w3 gv w4) = true ->
  noat (render_body (IString kw hws w1 name w2 w3 gv w4) ++ g) R = true ->
  name_ok name = true /\ nat_ok name /\ wf_value gv = true /\ nat_ok (sval gv).
Proof.
  intros W N. cbn [wf_item] in W. repeat (apply andb_true_iff in W as [W ?]).
  cbn [render_body] in N. repeat split; try assumption.
  - apply (nat_ok_mid (kw ++ hws ++ c_lb :: w1) name (w2 ++ c_eq :: w3 ++ render_value gv ++ w4 ++ [c_rb] ++ g) R).
    revert N. norm_app. exact (fun x => x).
  - apply (nat_ok_sval (kw ++ hws ++ c_lb :: w1 ++ name ++ w2 ++ c_eq :: w3) gv (w4 ++ [c_rb] ++ g) R).
    revert N. norm_app. exact (fun x => x).
Qed.

Lemma sd_ok_expected d : wf_doc d -> sd_ok (expected d).
Proof.
  intros W k v H. unfold wf_doc, wf_doc_b in W. apply andb_true_iff in W as [_ W].
  unfold sd_lookup in H. destruct (first_string_block (expected d) k) as [b|] eqn:E; [|discriminate].
  cbn [option_map] in H. inversion H; subst v. destruct (first_string_block_in _ _ _ E) as [I S].
  destruct (exp_items_in _ _ _ I) as (it & g & ln' & I' & ->).
  destruct (wf_items_in _ _ _ _ W I') as (Wi & R & N).
  destruct it; try discriminate. cbn [block_of string_value str_of].
  destruct (string_item_good _ _ _ _ _ _ _ _ _ _ Wi N) as (_ & _ & Wv & Nv). exists v. repeat split; assumption.
Qed.

(* ---- values *)
Lemma good_clean v : good_value v -> value_ends_in_bs (stripv v) = false -> exists b, wf_cb b /\ stripv v = cval b.
Proof.
  intros (gv & -> & W & N) K. unfold stripv in *. rewrite (strip_enclosing_value gv W) in *. cbn [value_ends_in_bs] in K.
  rewrite ends_in_bs_eq in K. exists (clean_of gv). split; [split|].
  - apply wf_clean_of; assumption.
  - rewrite render_clean_of. exact N.
  - unfold cval. rewrite render_clean_of. reflexivity.
Qed.

Lemma res_str_good bs s : sd_ok bs -> good_value s -> good_value (res_str bs s).
Proof.
  intros S G. unfold res_str. destruct (enclosedb s); [exact G|].
  destruct (sd_lookup bs s) as [v|] eqn:E; [exact (S _ _ E) | exact G].
Qed.

Lemma field_good f X R : wf_field f = true -> noat (render_field f ++ X) R = true ->
  name_ok (g_name f) = true /\ nat_ok (g_name f) /\ good_value (render_value (g_val f)).
Proof.
  intros W N. unfold wf_field in W. repeat (apply andb_true_iff in W as [W ?]).
  unfold render_field, field_head in N. split; [assumption|]. split.
  - apply (nat_ok_mid (g_pre f) (g_name f) (g_w1 f ++ c_eq :: g_w2 f ++ render_value (g_val f) ++ g_post f ++ X) R).
    revert N. norm_app. exact (fun x => x).
  - exists (g_val f). split; [reflexivity|]. split; [assumption|].
    apply (nat_ok_sval (g_pre f ++ g_name f ++ g_w1 f ++ c_eq :: g_w2 f) (g_val f) (g_post f ++ X) R).
    revert N. norm_app. exact (fun x => x).
Qed.

Lemma pfield_exp bs ln f : pfield bs (exp_field ln f) = (g_name f, stripv (res_str bs (render_value (g_val f)))).
Proof. reflexivity. Qed.

Lemma field_clean bs ln f X R : sd_ok bs -> wf_field f = true -> noat (render_field f ++ X) R = true ->
  value_ends_in_bs (snd (pfield bs (exp_field ln f))) = false ->
  exists p, wf_cfield p /\ pfield bs (exp_field ln f) = (fst p, cval (snd p)) /\ fst p = g_name f.
Proof.
  intros S W N K. destruct (field_good f X R W N) as (Hn & Nn & G). rewrite pfield_exp in *. cbn [snd] in K.
  destruct (good_clean _ (res_str_good bs _ S G) K) as (b & Wb & E).
  exists (g_name f, b). split; [split; [exact Hn | split; [exact Nn | exact Wb]]|]. rewrite E. split; reflexivity.
Qed.

Definition k7_fields (l : list (str * value)) : bool := existsb (fun kv => value_ends_in_bs (snd kv)) l.

Lemma fields_clean bs fs : forall ln X R, sd_ok bs -> wf_fields fs = true -> noat (render_fields fs ++ X) R = true ->
  k7_fields (map (pfield bs) (exp_fields ln fs)) = false ->
  exists cfs, Forall wf_cfield cfs /\ map (pfield bs) (exp_fields ln fs) = map (fun p => (fst p, cval (snd p))) cfs
              /\ map fst cfs = field_names fs.
Proof.
  induction fs as [w|f|f r IH]; intros ln X R S W N K.
  - exists []. repeat split. constructor.
  - cbn [wf_fields render_fields exp_fields map k7_fields existsb] in *. rewrite orb_false_r in K.
    rewrite <- app_assoc in N. destruct (field_clean bs ln f _ R S W N K) as (p & Wp & E & En).
    exists [p]. split; [constructor; [exact Wp | constructor]|]. cbn [map field_names]. rewrite E, En. split; reflexivity.
  - cbn [wf_fields render_fields exp_fields map k7_fields existsb] in *. apply andb_true_iff in W as [Wf Wr].
    apply orb_false_iff in K as [K1 K2]. rewrite <- app_assoc in N.
    destruct (field_clean bs ln f _ R S Wf N K1) as (p & Wp & E & En).
    assert (N2 : noat (render_fields r ++ X) R = true).
    { rewrite noat_app in N. apply andb_true_iff in N as [_ N]. cbn [app noat] in N. apply andb_true_iff in N as [_ N]. exact N. }
    destruct (IH _ X R S Wr N2 K2) as (cfs & F & E2 & En2).
    exists (p :: cfs). split; [constructor; assumption|]. cbn [map field_names]. rewrite E, E2, En, En2. split; reflexivity.
Qed.

(* ---- strip is idempotent *)
Lemma lstrip_idem s : lstrip (lstrip s) = lstrip s.
Proof. induction s as [|c r IH]; [reflexivity|]. cbn [lstrip]. destruct (isspace c) eqn:E; [exact IH|]. cbn [lstrip]. rewrite E. reflexivity. Qed.
Lemma rv_rv {A} (l : list A) : rv (rv l) = l.
Proof. rewrite !rv_rev. apply rev_involutive. Qed.
Lemma rstrip_idem s : rstrip (rstrip s) = rstrip s.
Proof. unfold rstrip. rewrite rv_rv, lstrip_idem. reflexivity. Qed.
Lemma lstrip_rstrip_head c t : isspace c = false -> lstrip (rstrip (c :: t)) = rstrip (c :: t).
Proof.
  intros Hc. destruct (SplitTiling.rstrip_split (c :: t)) as (trail & E & Ht).
  destruct (rstrip (c :: t)) as [|c' u] eqn:Er.
  - reflexivity.
  - cbn [app] in E. inversion E; subst c'. cbn [lstrip]. rewrite Hc. reflexivity.
Qed.
Lemma strip_idem s : strip (strip s) = strip s.
Proof.
  unfold strip. destruct (lstrip s) as [|c t] eqn:E.
  - reflexivity.
  - assert (Hc : isspace c = false).
    { destruct (isspace c) eqn:Hc; [|reflexivity]. exfalso. pose proof (lstrip_idem s) as I. rewrite E in I. cbn [lstrip] in I. rewrite Hc in I.
      assert (L : (List.length (lstrip t) <= List.length t)%nat).
      { clear. induction t as [|x t IH]; [constructor|]. cbn [lstrip]. destruct (isspace x); cbn [List.length]; lia. }
      rewrite I in L. cbn [List.length] in L. lia. }
    rewrite (lstrip_rstrip_head c t Hc). apply rstrip_idem.
Qed.

(* ---- items *)
Lemma noat_suffix A B R : noat (A ++ B) R = true -> noat B R = true.
Proof. rewrite noat_app. intros H. apply andb_true_iff in H as [_ H]. exact H. Qed.
Lemma entry_clean bs ln typ hws w1 key w2 t g R : sd_ok bs ->
  wf_item (IEntry typ hws w1 key w2 t) = true -> nodup_item (IEntry typ hws w1 key w2 t) = true ->
  noat (render_body (IEntry typ hws w1 key w2 t) ++ g) R = true ->
  k7_c (pc1 bs (block_of ln (IEntry typ hws w1 key w2 t))) = false ->
  exists c, wf_citem c /\ pc1 bs (block_of ln (IEntry typ hws w1 key w2 t)) = cc1 c /\ cfree c = false.
Proof.
  intros S W D N K. cbn [wf_item] in W. do 9 (apply andb_true_iff in W as [W ?]).
  cbn [block_of pc1 k7_c] in *. apply orb_false_iff in K as [Kk Kf]. rewrite ends_in_bs_eq in Kk.
  cbn [render_body] in N. unfold entry_head in N.
  assert (Nk : nat_ok key).
  { apply (nat_ok_mid (typ ++ hws ++ c_lb :: w1) key (w2 ++ render_etail t ++ g) R). revert N. norm_app. exact (fun x => x). }
  assert (Tc : typ_clean (lower typ)).
  { apply typ_clean_lower; [assumption|]. repeat (apply andb_true_iff; split); assumption. }
  assert (F : exists cfs, Forall wf_cfield cfs /\
     map (pfield bs) match t with ENoComma => [] | EComma fs => exp_fields (ln + C03.count_nl (entry_head typ hws w1 key w2))%Z fs end
     = map (fun p => (fst p, cval (snd p))) cfs /\ fresh_all [] (map fst cfs) = true).
  { destruct t as [|fs].
    - exists []. repeat split. constructor.
    - cbn [wf_etail nodup_item] in *.
      assert (N2 : noat (render_fields fs ++ g) R = true).
      { cbn [render_etail] in N. apply (noat_suffix (typ ++ hws ++ c_lb :: w1 ++ key ++ w2 ++ [c_comma])).
        revert N. norm_app. exact (fun x => x). }
      destruct (fields_clean bs fs _ g R S H N2 Kf) as (cfs & Fc & E & En). exists cfs. rewrite En. repeat split; assumption. }
  destruct F as (cfs & Fc & E & Fr). exists (CEntry (lower typ) key cfs). split; [|split; [cbn [cc1]; rewrite E; reflexivity | reflexivity]].
  cbn [wf_citem]. repeat split; try assumption; apply Tc.
Qed.

Lemma item_clean bs ln it g R : sd_ok bs -> wf_item it = true -> nodup_item it = true ->
  noat (render_body it ++ g) R = true -> k7_c (pc1 bs (block_of ln it)) = false ->
  exists c, wf_citem c /\ pc1 bs (block_of ln it) = cc1 c /\ cfree c = is_free it.
Proof.
  intros S W D N K. destruct it as [typ hws w1 key w2 t|kw hws w1 name w2 w3 gv w4|kw hws b|kw hws b|t].
  - apply (entry_clean bs ln typ hws w1 key w2 t g R); assumption.
  - destruct (string_item_good _ _ _ _ _ _ _ _ _ _ W N) as (Hn & Nn & Wv & Nv).
    cbn [block_of pc1 k7_c str_of] in *.
    assert (G : good_value (render_value gv)) by (exists gv; repeat split; assumption).
    destruct (good_clean _ G K) as (b & Wb & E). exists (CString name b). cbn [wf_citem cc1 cfree is_free]. rewrite E.
    repeat split; try assumption; apply Wb.
  - cbn [wf_item] in W. do 3 (apply andb_true_iff in W as [W ?]). exists (CPre b). cbn [render_body] in N.
    split; [|split; reflexivity]. split; [assumption|].
    apply (nat_ok_mid (kw ++ hws ++ [c_lb]) (render_braced b) ([c_rb] ++ g) R). revert N. norm_app. exact (fun x => x).
  - cbn [wf_item] in W. do 3 (apply andb_true_iff in W as [W ?]). cbn [render_body] in N.
    cbn [block_of pc1 content1 k7_c] in *. rewrite ends_in_bs_eq in K.
    destruct (strip_braced b H K) as (b' & Rb & Wb). exists (CExpl b'). cbn [wf_citem cc1 cfree is_free]. rewrite Rb.
    split; [|split; reflexivity]. split; [split; [exact Wb|] | apply strip_idem]. rewrite Rb.
    apply (nat_ok_strip (kw ++ hws ++ [c_lb]) (render_braced b) ([c_rb] ++ g) R). revert N. norm_app. exact (fun x => x).
  - cbn [wf_item render_body] in *. exists (CFree t). split; [|split; reflexivity]. split; [exact W|].
    apply (nat_ok_mid [] t g R). exact N.
Qed.

Lemma items_clean bs l : forall prev ln, sd_ok bs -> wf_items prev l = true ->
  forallb (fun p => nodup_item (fst p)) l = true ->
  existsb k7_c (map (pc1 bs) (exp_items ln l)) = false ->
  exists cs, wf_cs prev cs /\ map (pc1 bs) (exp_items ln l) = ccontent cs.
Proof.
  induction l as [|[it g] r IH]; intros prev ln S W D K; [exists []; split; [exact I | reflexivity]|].
  cbn [wf_items] in W. apply andb_true_iff in W as [W Wr]. apply andb_true_iff in W as [W Wn].
  apply andb_true_iff in W as [W Wf]. apply andb_true_iff in W as [Wi Wg].
  cbn [forallb fst] in D. apply andb_true_iff in D as [Di Dr].
  cbn [exp_items map existsb] in K. apply orb_false_iff in K as [Ki Kr].
  destruct (item_clean bs ln it g _ S Wi Di Wn Ki) as (c & Wc & Ec & Fc).
  destruct (IH _ _ S Wr Dr Kr) as (cs & Wcs & Ecs).
  exists (c :: cs). cbn [wf_cs exp_items map ccontent]. rewrite Fc. split.
  - split; [exact Wc|]. split; [apply negb_true_iff in Wf; exact Wf | exact Wcs].
  - rewrite Ec. f_equal. exact Ecs.
Qed.

Theorem first_parse_clean d : wf_doc d -> nodup_doc d -> existsb k7_c (pcontent d) = false ->
  exists cs, wf_cs false cs /\ pcontent d = ccontent cs.
Proof.
  intros W (Nf & _) K. pose proof (sd_ok_expected d W) as S. unfold wf_doc, wf_doc_b in W. apply andb_true_iff in W as [_ W].
  exact (items_clean (expected d) (d_items d) false _ S W Nf K).
Qed.

(* ---- the round trip *)
Lemma ccontent_no_other cs : forallb (fun c => negb (other_c c)) (ccontent cs) = true.
Proof. induction cs as [|c r IH]; [reflexivity|]. cbn [ccontent map forallb]. fold (ccontent r). rewrite IH. destruct c; reflexivity. Qed.

(* second half: a library with clean content is written as a well-formed document and read back unchanged *)
Theorem clean_roundtrip f cs l1 t1 l2 : wf_fmt f -> wf_cs false cs -> content l1 = ccontent cs ->
  wf_blocks l1 -> md_ok l1 = true -> write_default f l1 = PVal t1 -> parse_default t1 = PVal l2 ->
  t1 = render (ast_fmt f cs) /\ wf_doc (ast_fmt f cs) /\ content l2 = content l1 /\ write_default f l2 = PVal t1.
Proof.
  intros Hf Wcs E Wb Hm Hw Hp.
  assert (Hnf : no_failed l1 = true) by (rewrite no_failed_content, E; apply ccontent_no_other).
  rewrite (write_default_c f l1 Wb Hnf Hm), E, cwrite_render in Hw. inversion Hw; subst t1.
  pose proof (wf_ast_fmt f cs Hf Wcs) as Wd.
  assert (Nd : nodup_doc (ast_fmt f cs)).
  { destruct Wb as [We Ws]. rewrite ekeys_content, E in We. rewrite skeys_content, E in Ws. apply nodup_ast_fmt; assumption. }
  split; [reflexivity|]. split; [exact Wd|].
  assert (C2 : content l2 = content l1) by (rewrite (parse_render_content _ _ Wd Nd Hp), (pcontent_ast f cs Wcs); symmetry; exact E).
  split; [exact C2|]. destruct (parse_default_props _ _ Hp) as [_ Hm2].
  rewrite <- (write_default_content f l1 l2 (eq_sym C2) Wb Hnf Hm Hm2).
  rewrite (write_default_c f l1 Wb Hnf Hm), E. apply cwrite_render.
Qed.

Theorem roundtrip_content : forall d f l1 t1 l2, wf_doc d -> nodup_doc d -> wf_fmt f ->
  parse_default (render d) = PVal l1 -> known_K7 l1 = false ->
  write_default f l1 = PVal t1 -> parse_default t1 = PVal l2 -> content l2 = content l1.
Proof.
  intros d f l1 t1 l2 Wd Nd Hf P1 K Hw P2.
  pose proof (parse_render_content d l1 Wd Nd P1) as C1.
  rewrite known_K7_c, C1 in K. destruct (first_parse_clean d Wd Nd K) as (cs & Wcs & Ecs).
  destruct (parse_default_props _ _ P1) as [Wb Hm].
  assert (E : content l1 = ccontent cs) by congruence.
  exact (proj1 (proj2 (proj2 (clean_roundtrip f cs l1 t1 l2 Hf Wcs E Wb Hm Hw P2)))).
Qed.
Print Assumptions roundtrip_content.

(* the written text is a fixpoint: writing the re-parsed library reproduces it byte for byte *)
Theorem roundtrip_fixpoint_doc : forall d f l1 t1 l2, wf_doc d -> nodup_doc d -> wf_fmt f ->
  parse_default (render d) = PVal l1 -> known_K7 l1 = false ->
  write_default f l1 = PVal t1 -> parse_default t1 = PVal l2 -> write_default f l2 = PVal t1.
Proof.
  intros d f l1 t1 l2 Wd Nd Hf P1 K Hw P2.
  pose proof (parse_render_content d l1 Wd Nd P1) as C1.
  rewrite known_K7_c, C1 in K. destruct (first_parse_clean d Wd Nd K) as (cs & Wcs & Ecs).
  destruct (parse_default_props _ _ P1) as [Wb Hm].
  assert (E : content l1 = ccontent cs) by congruence.
  exact (proj2 (proj2 (proj2 (clean_roundtrip f cs l1 t1 l2 Hf Wcs E Wb Hm Hw P2)))).
Qed.
Print Assumptions roundtrip_fixpoint_doc.
