(* C04: malformed blocks never damage neighbours (splitter machine).

   RESYNC            arbitrary text x, then a line starting with a block-start mark: the blocks of
                     x ++ "\n" ++ d end with exactly the blocks of d alone, shifted by the lines before d.
   PREFIX STABILITY  once the machine has just closed a block, following text does not change the blocks
                     already emitted.
   CONCATENATION     both together: the blocks of p ++ "\n" ++ d are the blocks of p, then those of d shifted.

   Proof ingredients:
   - [classify_app]: the classification of a ++ b is (a classified with look-ahead into b) ++ classify _ b;
     the second part is literally a [classify] of b, the look-behind being the last character of a;
   - a simulation [sim k pre s1 s2] between two runs of the machine over the same classified characters, the
     first one k lines further down and with the blocks [pre] already emitted; dead registers (the implicit
     comment in block modes, the open block in Out mode, f_line outside FldVal) are left unconstrained;
   - every transition on an At mark from a mode other than Head/Crashed lands in Head with a fresh open block;
     Head/Crashed are excluded right before an At mark by the invariant of Proofs/SplitTotal.v;
   - [out_rev] is append-only; the classification of a prefix ending in '}' does not depend on what follows. *)
From Coq Require Import List NArith ZArith Bool Lia String.
From BP Require Import Base.Chars Model.Blocks Model.Lexer Model.Splitter Spec.C03 Spec.C04
                       Proofs.SplitTotal Proofs.SplitTiling.
Import ListNotations.
Local Open Scope Z_scope.

(* ------------------------------------------------------------------ classification of a prefix *)
(* the characters of a classified inside a ++ b *)
Fixpoint classify_pre (pb : bool) (a b : str) : list (ch * option mk) :=
  match a with
  | [] => []
  | c :: a' => (c, classify1 pb c (a' ++ b)) :: classify_pre (c =? c_bs)%N a' b
  end.
(* the look-behind seen by the first character after a *)
Fixpoint last_bs (pb : bool) (a : str) : bool :=
  match a with [] => pb | c :: a' => last_bs (c =? c_bs)%N a' end.

Lemma classify_app a : forall pb b,
  classify pb (a ++ b) = classify_pre pb a b ++ classify (last_bs pb a) b.
Proof.
  induction a as [|c a IH]; intros pb b; cbn [app classify classify_pre last_bs]; [reflexivity|].
  rewrite IH. reflexivity.
Qed.

Lemma last_bs_snoc a : forall pb c, last_bs pb (a ++ [c]) = (c =? c_bs)%N.
Proof. induction a as [|x a IH]; intros pb c; cbn [app last_bs]; [reflexivity | apply IH]. Qed.

Lemma classify_pre_ckok a : forall pb b, Forall ckok (classify_pre pb a b).
Proof.
  induction a as [|c a IH]; intros pb b; cbn [classify_pre]; constructor; [|apply IH].
  split; cbn [fst snd]; [apply classify1_nl | apply classify1_eq].
Qed.

Lemma classify_pre_fst a : forall pb b, map fst (classify_pre pb a b) = a.
Proof. induction a as [|c a IH]; intros pb b; cbn [classify_pre map fst]; [reflexivity | rewrite IH; reflexivity]. Qed.

(* the invariant of SplitTotal carried over a prefix of a classify output *)
Lemma pre_ok a : forall pb s b,
  ok s (classify pb (a ++ b)) ->
  ok (fold_left step (classify_pre pb a b) s) (classify (last_bs pb a) b).
Proof.
  induction a as [|c a IH]; intros pb s b H; cbn [classify_pre fold_left last_bs app] in *; [exact H|].
  apply IH. cbn [classify] in H.
  apply (step_ok s c (classify1 pb c (a ++ b)) (classify (c =? c_bs)%N (a ++ b)) []); [exact H|].
  intros E. eapply at_then_brace. exact E.
Qed.

Lemma ok_st0 l : ok st0 l.
Proof. split; [discriminate|]. discriminate. Qed.

(* line counter from the C03 invariant *)
Lemma inv_line s consumed : Inv s consumed -> md s <> Crashed -> line s = -1 + count_nl consumed.
Proof.
  unfold Inv. intros H Hc. destruct (md s) eqn:M; try contradiction;
    try (destruct H as (P & items & _ & _ & _ & H4 & _); exact H4).
Qed.

Lemma pre_line a b : let s := fold_left step (classify_pre false a b) st0 in
  md s <> Crashed -> line s = -1 + count_nl a.
Proof.
  intros s Hc. apply inv_line; [|exact Hc].
  pose proof (run_inv (classify_pre false a b) st0 [] (classify_pre_ckok _ _ _) inv_st0) as H.
  rewrite classify_pre_fst in H. exact H.
Qed.

(* ------------------------------------------------------------------ small facts about the literals *)
Lemma cls_nl pb rest : classify1 pb c_nl rest = Some MNL.
Proof. reflexivity. Qed.
Lemma cls_at pb rest : at_ok rest = true -> classify1 pb c_at rest = Some MAt.
Proof. intros H. unfold classify1. rewrite H. reflexivity. Qed.
Lemma nl_not_bs : (c_nl =? c_bs)%N = false.  Proof. reflexivity. Qed.
Lemma at_not_bs : (c_at =? c_bs)%N = false.  Proof. reflexivity. Qed.
Lemma rb_not_bs : (c_rb =? c_bs)%N = false.  Proof. reflexivity. Qed.

Lemma classify_nl_at r : at_ok r = true ->
  classify false (c_nl :: c_at :: r) = (c_nl, Some MNL) :: (c_at, Some MAt) :: classify false r.
Proof.
  intros H. cbn [classify]. rewrite cls_nl, (cls_at _ _ H), at_not_bs. reflexivity.
Qed.

(* ------------------------------------------------------------------ shifted blocks *)
Lemma rv_map {A B} (f : A -> B) l : rv (map f l) = map f (rv l).
Proof. rewrite !rv_rev. symmetry. apply map_rev. Qed.

(* the open blocks of two runs, the first k lines further down; fl: the field line is live *)
Definition sim_ob (fl : bool) (k : Z) (o1 o2 : openb) : Prop :=
  b_line o1 = b_line o2 + k /\ raw_rev o1 = raw_rev o2 /\ typ_rev o1 = typ_rev o2 /\ a_rev o1 = a_rev o2 /\
  v_rev o1 = v_rev o2 /\ etyp o1 = etyp o2 /\ ekey o1 = ekey o2 /\
  (fl = true -> f_line o1 = f_line o2 + k) /\
  flds_rev o1 = map (shiftf k) (flds_rev o2) /\ seen o1 = seen o2 /\ dups o1 = dups o2.

Ltac ob_tac :=
  intros (H1 & H2 & H3 & H4 & H5 & H6 & H7 & H8 & H9 & H10 & H11);
  unfold sim_ob;
  cbn [b_line raw_rev typ_rev a_rev v_rev etyp ekey f_line flds_rev seen dups
       ob_raw ob_raw_typ ob_raw_a ob_raw_v ob_open ob_eq ob_key map];
  rewrite ?H2, ?H3, ?H4, ?H5, ?H6, ?H7, ?H10, ?H11;
  repeat (split; [solve [auto | discriminate | congruence]|]); solve [auto | discriminate | congruence].

Lemma so_weaken fl k o1 o2 : sim_ob fl k o1 o2 -> sim_ob false k o1 o2.
Proof. ob_tac. Qed.
Lemma so_raw fl k c o1 o2 : sim_ob fl k o1 o2 -> sim_ob fl k (ob_raw c o1) (ob_raw c o2).
Proof. ob_tac. Qed.
Lemma so_raw_typ fl k c o1 o2 : sim_ob fl k o1 o2 -> sim_ob fl k (ob_raw_typ c o1) (ob_raw_typ c o2).
Proof. ob_tac. Qed.
Lemma so_raw_a fl k c o1 o2 : sim_ob fl k o1 o2 -> sim_ob fl k (ob_raw_a c o1) (ob_raw_a c o2).
Proof. ob_tac. Qed.
Lemma so_raw_v fl k c o1 o2 : sim_ob fl k o1 o2 -> sim_ob fl k (ob_raw_v c o1) (ob_raw_v c o2).
Proof. ob_tac. Qed.
Lemma so_open fl k c ty o1 o2 : sim_ob fl k o1 o2 -> sim_ob false k (ob_open c ty o1) (ob_open c ty o2).
Proof. ob_tac. Qed.
Lemma so_key fl k c o1 o2 : sim_ob fl k o1 o2 -> sim_ob false k (ob_key c o1) (ob_key c o2).
Proof. ob_tac. Qed.
Lemma so_eq fl k c l1 l2 o1 o2 : l1 = l2 + k -> sim_ob fl k o1 o2 -> sim_ob true k (ob_eq c l1 o1) (ob_eq c l2 o2).
Proof. intros Hl. ob_tac. Qed.
Lemma so_field k o1 o2 : sim_ob true k o1 o2 -> sim_ob true k (ob_field o1) (ob_field o2).
Proof.
  intros (H1 & H2 & H3 & H4 & H5 & H6 & H7 & H8 & H9 & H10 & H11).
  unfold sim_ob, ob_field.
  cbn [b_line raw_rev typ_rev a_rev v_rev etyp ekey f_line flds_rev seen dups map shiftf fkey fval fline shift_opt].
  rewrite H1, H2, H3, H4, H5, H6, H7, H9, H10, H11, (H8 eq_refl).
  repeat split; intros; reflexivity.
Qed.
Lemma so_ob0 k l1 l2 c : l1 = l2 + k -> sim_ob false k (ob0 l1 c) (ob0 l2 c).
Proof.
  intros H. unfold sim_ob, ob0. cbn [b_line raw_rev typ_rev a_rev v_rev etyp ekey f_line flds_rev seen dups map].
  repeat (split; [solve [auto | discriminate]|]). reflexivity.
Qed.

Lemma hdr_shift fl k o1 o2 : sim_ob fl k o1 o2 -> hdr_of o1 = shifth k (hdr_of o2).
Proof.
  intros (H1 & H2 & _). unfold hdr_of, shifth. cbn [sl raw meta shift_opt]. rewrite H1, H2. reflexivity.
Qed.

Lemma entry_shift fl k o1 o2 : sim_ob fl k o1 o2 -> entry_block o1 = shiftb k (entry_block o2).
Proof.
  intros H. pose proof (hdr_shift _ _ _ _ H) as Hh.
  destruct H as (H1 & H2 & H3 & H4 & H5 & H6 & H7 & H8 & H9 & H10 & H11).
  unfold entry_block. rewrite Hh, H6, H7, H9, H11, rv_map.
  destruct (dups o2); reflexivity.
Qed.

Lemma braces_shift fl k kd o1 o2 : sim_ob fl k o1 o2 -> braces_block kd o1 = shiftb k (braces_block kd o2).
Proof.
  intros H. pose proof (hdr_shift _ _ _ _ H) as Hh.
  destruct H as (H1 & H2 & H3 & H4 & H5 & H6 & H7 & H8 & H9 & H10 & H11).
  unfold braces_block. rewrite Hh, H4, H5. destruct kd; reflexivity.
Qed.

Lemma failed_shift fl k rs o1 o2 : sim_ob fl k o1 o2 -> failed_block o1 rs = shiftb k (failed_block o2 rs).
Proof. intros H. unfold failed_block. rewrite (hdr_shift _ _ _ _ H). reflexivity. Qed.

Lemma end_implicit_shift text l k : end_implicit text (l + k) = option_map (shiftb k) (end_implicit text l).
Proof.
  unfold end_implicit. destruct (skip_leading text 0) as [rest n]. destruct (rstrip rest) as [|x y]; [reflexivity|].
  cbn [option_map shiftb shifth sl raw meta shift_opt]. replace (l + k + n) with (l + n + k) by lia. reflexivity.
Qed.

(* ------------------------------------------------------------------ the simulation *)
Definition obrel (m : mode) (k : Z) (o1 o2 : openb) : Prop :=
  match m with
  | Out | Crashed => True
  | FldVal _ _ => sim_ob true k o1 o2
  | _ => sim_ob false k o1 o2
  end.
Definition icrel (m : mode) (k : Z) (s1 s2 : st) : Prop :=
  match m with Out => ic_rev s1 = ic_rev s2 /\ ic_line s1 = ic_line s2 + k | _ => True end.

Definition sim (k : Z) (pre : list block) (s1 s2 : st) : Prop :=
  md s1 = md s2 /\ line s1 = line s2 + k /\ out_rev s1 = map (shiftb k) (out_rev s2) ++ pre /\
  icrel (md s2) k s1 s2 /\ obrel (md s2) k (ob s1) (ob s2).

Lemma flush_sim k pre s1 s2 :
  out_rev s1 = map (shiftb k) (out_rev s2) ++ pre -> ic_rev s1 = ic_rev s2 -> ic_line s1 = ic_line s2 + k ->
  flush_ic s1 = map (shiftb k) (flush_ic s2) ++ pre.
Proof.
  intros Ho Hi Hl. unfold flush_ic. rewrite Hi, Hl, end_implicit_shift, Ho.
  destruct (end_implicit (rv (ic_rev s2)) (ic_line s2)); reflexivity.
Qed.

Lemma sim_step_out k pre s1 s2 c kk :
  line s1 = line s2 + k -> out_rev s1 = map (shiftb k) (out_rev s2) ++ pre ->
  ic_rev s1 = ic_rev s2 -> ic_line s1 = ic_line s2 + k ->
  sim k pre (step_out s1 c kk) (step_out s2 c kk).
Proof.
  intros Hl Ho Hi Hil.
  assert (Keep : forall d, sim k pre (mkst Out (line s1 + d) (out_rev s1) (c :: ic_rev s1) (ic_line s1) (ob s1))
                                     (mkst Out (line s2 + d) (out_rev s2) (c :: ic_rev s2) (ic_line s2) (ob s2))).
  { intros d. unfold sim. cbn [md line out_rev ic_rev ic_line ob icrel obrel].
    split; [reflexivity|]. split; [lia|]. split; [exact Ho|]. split; [|exact I].
    split; [rewrite Hi; reflexivity | exact Hil]. }
  assert (Keep0 : sim k pre (mkst Out (line s1) (out_rev s1) (c :: ic_rev s1) (ic_line s1) (ob s1))
                            (mkst Out (line s2) (out_rev s2) (c :: ic_rev s2) (ic_line s2) (ob s2))).
  { specialize (Keep 0). rewrite !Z.add_0_r in Keep. exact Keep. }
  destruct kk as [[]|]; cbn [step_out]; try exact Keep0; try apply Keep.
  unfold sim. cbn [md line out_rev ic_rev ic_line ob icrel obrel].
  split; [reflexivity|]. split; [exact Hl|]. split; [apply flush_sim; assumption|]. split; [exact I|].
  apply so_ob0. exact Hl.
Qed.

Lemma sim_upd k pre s1 s2 m o1 o2 :
  sim k pre s1 s2 -> m <> Out -> obrel m k o1 o2 -> sim k pre (upd s1 m o1) (upd s2 m o2).
Proof.
  intros (Hm & Hl & Ho & _ & _) Hn Hob. unfold sim, upd. cbn [md line out_rev ic_rev ic_line ob].
  split; [reflexivity|]. split; [exact Hl|]. split; [exact Ho|]. split; [|exact Hob].
  destruct m; try exact I. contradiction.
Qed.

Lemma sim_upd_nl k pre s1 s2 o1 o2 :
  sim k pre s1 s2 -> md s2 <> Out -> obrel (md s2) k o1 o2 -> sim k pre (upd_nl s1 o1) (upd_nl s2 o2).
Proof.
  intros (Hm & Hl & Ho & _ & _) Hn Hob. unfold sim, upd_nl. cbn [md line out_rev ic_rev ic_line ob].
  split; [exact Hm|]. split; [lia|]. split; [exact Ho|]. split; [|exact Hob].
  destruct (md s2); try exact I. contradiction.
Qed.

Lemma sim_close k pre s1 s2 b1 b2 :
  sim k pre s1 s2 -> b1 = shiftb k b2 -> sim k pre (close_block s1 b1) (close_block s2 b2).
Proof.
  intros (Hm & Hl & Ho & _ & _) Hb. unfold sim, close_block. cbn [md line out_rev ic_rev ic_line ob icrel obrel].
  split; [reflexivity|]. split; [exact Hl|]. split; [rewrite Ho, Hb; reflexivity|].
  split; [split; [reflexivity | exact Hl] | exact I].
Qed.

Lemma sim_abort fl k pre s1 s2 rs c kk :
  sim k pre s1 s2 -> sim_ob fl k (ob s1) (ob s2) -> sim k pre (abort s1 rs c kk) (abort s2 rs c kk).
Proof.
  intros (Hm & Hl & Ho & _ & _) Hob. unfold abort.
  apply sim_step_out; cbn [md line out_rev ic_rev ic_line ob]; try assumption; try reflexivity.
  rewrite Ho, (failed_shift _ _ rs _ _ Hob). reflexivity.
Qed.

Lemma sim_step k pre s1 s2 ck : sim k pre s1 s2 -> sim k pre (step s1 ck) (step s2 ck).
Proof.
  intros H. pose proof H as (Hm & Hl & Ho & Hic & Hob).
  destruct ck as [c kk]. unfold step. rewrite Hm.
  destruct (md s2) eqn:M; cbn [icrel obrel] in Hic, Hob.
  - (* Out *) destruct Hic as [Hi Hil]. apply sim_step_out; assumption.
  - (* Head *)
    pose proof Hob as (_ & _ & Ht & _). rewrite Ht.
    destruct kk as [[]|]; try (apply sim_upd; [exact H | discriminate | exact I]).
    + destruct (starts_with s_comment _); [|destruct (starts_with s_preamble _); [|destruct (starts_with s_string _)]];
        (apply sim_upd; [exact H | discriminate | cbn [obrel]; eapply so_open; exact Hob]).
    + apply sim_upd; [exact H | discriminate | cbn [obrel]; apply so_raw_typ; exact Hob].
  - (* InBraces *)
    destruct kk as [[]|];
      try (apply sim_upd; [exact H | rewrite ?M; discriminate | rewrite ?M; cbn [obrel]; apply so_raw_v; exact Hob]).
    + (* MRB *) destruct (d =? 0)%N.
      * apply sim_close; [exact H|]. eapply braces_shift. apply so_raw. exact Hob.
      * apply sim_upd; [exact H | discriminate | cbn [obrel]; apply so_raw_v; exact Hob].
    + (* MNL *) apply sim_upd_nl; [exact H | rewrite M; discriminate | rewrite M; cbn [obrel]; apply so_raw_v; exact Hob].
    + (* MAt *) eapply sim_abort; [exact H | exact Hob].
  - (* StrKey *)
    destruct kk as [[]|]; try (eapply sim_abort; [exact H | exact Hob]).
    + apply sim_upd; [exact H | discriminate | cbn [obrel]; eapply so_weaken, so_eq; [exact Hl | exact Hob]].
    + apply sim_upd_nl; [exact H | rewrite M; discriminate | rewrite M; cbn [obrel]; apply so_raw_a; exact Hob].
    + apply sim_upd; [exact H | discriminate | cbn [obrel]; apply so_raw_a; exact Hob].
  - (* EntKey *)
    destruct kk as [[]|]; try (eapply sim_abort; [exact H | exact Hob]).
    + apply sim_close; [exact H|]. eapply entry_shift. eapply so_key. exact Hob.
    + apply sim_upd; [exact H | discriminate | cbn [obrel]; eapply so_key; exact Hob].
    + apply sim_upd_nl; [exact H | rewrite M; discriminate | rewrite M; cbn [obrel]; apply so_raw_a; exact Hob].
    + apply sim_upd; [exact H | discriminate | cbn [obrel]; apply so_raw_a; exact Hob].
  - (* FldKey *)
    destruct kk as [[]|]; try (eapply sim_abort; [exact H | exact Hob]).
    + apply sim_close; [exact H|]. eapply entry_shift. apply so_raw. exact Hob.
    + apply sim_upd; [exact H | discriminate | cbn [obrel]; eapply so_eq; [exact Hl | exact Hob]].
    + apply sim_upd_nl; [exact H | rewrite M; discriminate | rewrite M; cbn [obrel]; apply so_raw_a; exact Hob].
    + apply sim_upd; [exact H | discriminate | cbn [obrel]; apply so_raw_a; exact Hob].
  - (* FldVal *)
    assert (Stay : forall q' d', sim k pre (upd s1 (FldVal q' d') (ob_raw_v c (ob s1))) (upd s2 (FldVal q' d') (ob_raw_v c (ob s2)))).
    { intros q' d'. apply sim_upd; [exact H | discriminate | cbn [obrel]; apply so_raw_v; exact Hob]. }
    destruct kk as [[]|]; rewrite ?M; try apply Stay.
    + (* MLB *) destruct q; apply Stay.
    + (* MRB *) destruct q; [apply Stay|]. destruct (d =? 0)%N; [|apply Stay].
      apply sim_close; [exact H|]. eapply entry_shift. apply so_raw. apply so_field. exact Hob.
    + (* MQ *) destruct (d =? 0)%N; apply Stay.
    + (* MComma *) destruct (q || negb (d =? 0)%N)%bool; [apply Stay|].
      apply sim_upd; [exact H | discriminate |]. cbn [obrel]. eapply so_weaken. apply so_raw. apply so_field. exact Hob.
    + (* MNL *) apply sim_upd_nl; [exact H | rewrite M; discriminate | rewrite M; cbn [obrel]; apply so_raw_v; exact Hob].
    + (* MAt *) eapply sim_abort; [exact H | exact Hob].
  - (* Crashed *) exact H.
Qed.

Lemma sim_fold k pre l : forall s1 s2, sim k pre s1 s2 -> sim k pre (fold_left step l s1) (fold_left step l s2).
Proof. induction l as [|ck l IH]; intros s1 s2 H; cbn [fold_left]; [exact H | apply IH, sim_step, H]. Qed.

Lemma rv_shift_cons k pre b1 b2 o1 o2 :
  b1 = shiftb k b2 -> o1 = map (shiftb k) o2 ++ pre ->
  rv (b1 :: o1) = rev pre ++ map (shiftb k) (rv (b2 :: o2)).
Proof.
  intros -> ->. rewrite !rv_rev. change (shiftb k b2 :: map (shiftb k) o2 ++ pre) with (map (shiftb k) (b2 :: o2) ++ pre).
  rewrite rev_app_distr, map_rev. reflexivity.
Qed.

Lemma sim_finish k pre s1 s2 B B0 :
  sim k pre s1 s2 -> finish s1 = Blocks B -> finish s2 = Blocks B0 -> B = rev pre ++ map (shiftb k) B0.
Proof.
  intros (Hm & Hl & Ho & Hic & Hob). unfold finish. rewrite Hm.
  assert (Blk : forall fl, sim_ob fl k (ob s1) (ob s2) ->
            Blocks (rv (failed_block (ob s1) R_EOF :: out_rev s1)) = Blocks B ->
            Blocks (rv (failed_block (ob s2) R_EOF :: out_rev s2)) = Blocks B0 ->
            B = rev pre ++ map (shiftb k) B0).
  { intros fl Hs E1 E2. inversion E1; inversion E2; subst.
    apply rv_shift_cons; [eapply failed_shift; exact Hs | exact Ho]. }
  destruct (md s2) eqn:M; cbn [icrel obrel] in Hic, Hob; try discriminate; try (eapply Blk; exact Hob).
  destruct Hic as [Hi Hil]. intros E1 E2. inversion E1; inversion E2; subst.
  rewrite (flush_sim k pre s1 s2 Ho Hi Hil), !rv_rev, rev_app_distr, map_rev. reflexivity.
Qed.

(* ------------------------------------------------------------------ the At mark re-enters Head *)
Lemma step_at s c : md s <> Head -> md s <> Crashed ->
  exists o, step s (c, Some MAt) = mkst Head (line s) o [] (line s) (ob0 (line s) c).
Proof.
  intros H1 H2. unfold step. destruct (md s); try contradiction; try (eexists; reflexivity).
Qed.

(* the run of "@..." alone, after the artificial newline and the mark *)
Definition s_head0 : st := mkst Head 0 [] [] 0 (ob0 0 c_at).

Lemma d_start : step (step st0 (c_nl, Some MNL)) (c_at, Some MAt) = s_head0.
Proof. vm_compute. reflexivity. Qed.

Lemma run_d r : at_ok r = true -> run (c_at :: r) = fold_left step (classify false r) s_head0.
Proof. intros H. unfold run. rewrite (classify_nl_at r H). cbn [fold_left]. rewrite d_start. reflexivity. Qed.

(* from any state outside Head/Crashed: the rest of the run simulates the run of d alone *)
Lemma resync_core s1 r B B0 : md s1 <> Head -> md s1 <> Crashed -> at_ok r = true ->
  finish (fold_left step (classify false r) (step s1 (c_at, Some MAt))) = Blocks B ->
  split_raw (c_at :: r) = Blocks B0 ->
  B = rev (out_rev (step s1 (c_at, Some MAt))) ++ map (shiftb (line s1)) B0.
Proof.
  intros H1 H2 Ha F1 F2. unfold split_raw in F2. rewrite (run_d r Ha) in F2.
  destruct (step_at s1 c_at H1 H2) as [o E]. rewrite E in *. cbn [out_rev].
  eapply sim_finish; [|exact F1 | exact F2]. apply sim_fold.
  unfold sim, s_head0. cbn [md line out_rev ic_rev ic_line ob icrel obrel map app].
  split; [reflexivity|]. split; [lia|]. split; [reflexivity|]. split; [exact I|]. apply so_ob0. lia.
Qed.

Lemma last_bs_nl x : last_bs false (c_nl :: x ++ [c_nl]) = false.
Proof. change (c_nl :: x ++ [c_nl]) with ((c_nl :: x) ++ [c_nl]). rewrite last_bs_snoc. reflexivity. Qed.

(* the state before the mark: x ++ "\n" consumed *)
Lemma before_mark x d : exists s1,
  run (x ++ c_nl :: d) = fold_left step (classify false d) s1 /\
  s1 = fold_left step (classify_pre false (c_nl :: x ++ [c_nl]) d) st0 /\
  ok s1 (classify false d).
Proof.
  eexists. split; [|split; [reflexivity|]].
  - unfold run.
    replace (c_nl :: x ++ c_nl :: d) with ((c_nl :: x ++ [c_nl]) ++ d)
      by (cbn [app]; rewrite <- app_assoc; reflexivity).
    rewrite classify_app, fold_left_app.
    rewrite last_bs_nl. reflexivity.
  - pose proof (pre_ok (c_nl :: x ++ [c_nl]) false st0 d (ok_st0 _)) as H.
    rewrite last_bs_nl in H. exact H.
Qed.

Lemma count_nl_line x : -1 + count_nl (c_nl :: x ++ [c_nl]) = count_nl x + 1.
Proof. cbn [count_nl]. rewrite count_nl_app, count_nl_1, N.eqb_refl. lia. Qed.

(* ------------------------------------------------------------------ (1) RESYNC *)
(* strong form: [pre] is determined, and its raw texts tile exactly "\n" ++ x ++ "\n" (it accounts for x only) *)
Theorem resync_tiles : forall x r B B0, at_ok r = true ->
  split_raw (x ++ c_nl :: c_at :: r) = Blocks B -> split_raw (c_at :: r) = Blocks B0 ->
  exists pre items, B = pre ++ map (shiftb (count_nl x + 1)) B0 /\
    raw_lines pre = Some items /\ tiledL (-1) (c_nl :: x ++ [c_nl]) items.
Proof.
  intros x r B B0 Ha F1 F2.
  destruct (before_mark x (c_at :: r)) as (s1 & E & Es & [Hc Hh]).
  assert (Hnh : md s1 <> Head).
  { intros M. specialize (Hh M). cbn [classify] in Hh. rewrite (cls_at _ _ Ha) in Hh. inversion Hh. }
  unfold split_raw in F1. rewrite E in F1. cbn [classify fold_left] in F1.
  rewrite (cls_at _ _ Ha), at_not_bs in F1.
  pose proof (resync_core s1 r B B0 Hnh Hc Ha F1 F2) as HB.
  assert (Hline : line s1 = count_nl x + 1).
  { rewrite Es. rewrite pre_line; [apply count_nl_line | rewrite <- Es; exact Hc]. }
  rewrite Hline in HB.
  exists (rev (out_rev (step s1 (c_at, Some MAt)))).
  (* tiling of pre: the C03 invariant after the mark *)
  pose proof (run_inv (classify_pre false (c_nl :: x ++ [c_nl]) (c_at :: r)) st0 []
                (classify_pre_ckok _ _ _) inv_st0) as I1.
  rewrite classify_pre_fst, <- Es in I1. cbn [app] in I1.
  assert (Hck : ckok (c_at, Some MAt)).
  { split; cbn [fst snd]; [split; intros X; discriminate X | intros X; discriminate X]. }
  pose proof (step_inv s1 _ c_at (Some MAt) Hck I1) as I2.
  destruct (step_at s1 c_at Hnh Hc) as [o Eo]. rewrite Eo in *. unfold Inv in I2. cbn [md] in I2.
  destruct I2 as (P & items & K1 & K2 & K3 & _). cbn [out_rev ob ob0 raw_rev rev app] in K1, K2.
  change (c_nl :: (x ++ [c_nl]) ++ [c_at]) with ((c_nl :: x ++ [c_nl]) ++ [c_at]) in K1.
  apply app_inj_tail in K1 as [K1 _]. subst P.
  exists items. split; [exact HB|]. split; [exact K2 | exact K3].
Qed.

Theorem resync : forall x r B B0, at_ok r = true ->
  split_raw (x ++ c_nl :: c_at :: r) = Blocks B -> split_raw (c_at :: r) = Blocks B0 ->
  exists pre, B = pre ++ map (shiftb (count_nl x + 1)) B0.
Proof.
  intros x r B B0 Ha F1 F2. destruct (resync_tiles x r B B0 Ha F1 F2) as (pre & _ & H & _).
  exists pre. exact H.
Qed.

(* ------------------------------------------------------------------ out_rev is append-only *)
Lemma flush_ext s : exists new, flush_ic s = new ++ out_rev s.
Proof.
  unfold flush_ic. destruct (end_implicit _ _) as [b|]; [exists [b] | exists []]; reflexivity.
Qed.

Lemma step_out_ext s c k : exists new, out_rev (step_out s c k) = new ++ out_rev s.
Proof.
  destruct k as [[]|]; cbn [step_out out_rev]; try (exists []; reflexivity). apply flush_ext.
Qed.

Lemma abort_ext s rs c k : exists new, out_rev (abort s rs c k) = new ++ out_rev s.
Proof.
  unfold abort. destruct (step_out_ext (mkst Out (line s) (failed_block (ob s) rs :: out_rev s) [] (line s) (ob s)) c k)
    as [new E]. rewrite E. cbn [out_rev]. exists (new ++ [failed_block (ob s) rs]). rewrite <- app_assoc. reflexivity.
Qed.

Lemma step_ext s ck : exists new, out_rev (step s ck) = new ++ out_rev s.
Proof.
  destruct ck as [c k]. unfold step.
  destruct (md s); [apply step_out_ext | | | | | | | exists []; reflexivity];
    destruct k as [[]|];
    repeat match goal with |- context [if ?b then _ else _] => destruct b end;
    first [ apply abort_ext | exists []; reflexivity | eexists [_]; reflexivity ].
Qed.

Lemma fold_ext l : forall s, exists new, out_rev (fold_left step l s) = new ++ out_rev s.
Proof.
  induction l as [|ck l IH]; intros s; cbn [fold_left]; [exists []; reflexivity|].
  destruct (IH (step s ck)) as [n1 E1]. destruct (step_ext s ck) as [n2 E2].
  exists (n1 ++ n2). rewrite E1, E2, app_assoc. reflexivity.
Qed.

Lemma finish_ext s bs : finish s = Blocks bs -> exists extra, bs = rev (out_rev s) ++ extra.
Proof.
  unfold finish.
  assert (Blk : Blocks (rv (failed_block (ob s) R_EOF :: out_rev s)) = Blocks bs ->
                exists extra, bs = rev (out_rev s) ++ extra).
  { intros E. inversion E. rewrite rv_rev. cbn [rev]. eexists. reflexivity. }
  destruct (md s); try discriminate; try exact Blk.
  intros E. inversion E. destruct (flush_ext s) as [new En]. rewrite En, rv_rev, rev_app_distr. eexists. reflexivity.
Qed.

Lemma end_implicit_nil l : end_implicit (rv []) l = None.
Proof. reflexivity. Qed.

(* a just-closed state: finish yields exactly the emitted blocks *)
Lemma finish_closed s : md s = Out -> ic_rev s = [] -> finish s = Blocks (rev (out_rev s)).
Proof.
  intros M I0. unfold finish, flush_ic. rewrite M, I0, end_implicit_nil, rv_rev. reflexivity.
Qed.

(* ------------------------------------------------------------------ look-ahead stops at '}' *)
Lemma dw_stop (p : ch -> bool) e b : p e = false -> forall u,
  exists u2, drop_while p (u ++ [e]) = u2 ++ [e] /\ drop_while p (u ++ e :: b) = u2 ++ e :: b.
Proof.
  intros He. induction u as [|c u IH]; cbn [app drop_while].
  - rewrite He. exists []. split; reflexivity.
  - destruct (p c); [exact IH|]. exists (c :: u). split; reflexivity.
Qed.

Lemma at_ok_stop u b : at_ok ((u ++ [c_rb]) ++ b) = at_ok (u ++ [c_rb]).
Proof.
  unfold at_ok. rewrite <- app_assoc. cbn [app].
  destruct (dw_stop isword c_rb b eq_refl u) as (u2 & E1 & E2). rewrite E1, E2.
  destruct (dw_stop is_sptab c_rb b eq_refl u2) as (u3 & E3 & E4). rewrite E3, E4.
  destruct u3; reflexivity.
Qed.

Lemma classify1_same_at pb c r1 r2 : at_ok r1 = at_ok r2 -> classify1 pb c r1 = classify1 pb c r2.
Proof. intros H. unfold classify1. rewrite H. reflexivity. Qed.

Lemma classify1_rb_any pb r1 r2 : classify1 pb c_rb r1 = classify1 pb c_rb r2.
Proof. destruct pb; reflexivity. Qed.

Lemma classify_pre_closed u b : forall pb, classify_pre pb (u ++ [c_rb]) b = classify pb (u ++ [c_rb]).
Proof.
  induction u as [|c u IH]; intros pb; cbn [app classify_pre classify].
  - rewrite (classify1_rb_any pb b []). reflexivity.
  - rewrite IH. rewrite (classify1_same_at pb c _ _ (at_ok_stop u b)). reflexivity.
Qed.

(* the run over p ++ x continues the run over p when p ends with '}' *)
Lemma run_app_closed p' x : run ((p' ++ [c_rb]) ++ x) = fold_left step (classify false x) (run (p' ++ [c_rb])).
Proof.
  unfold run.
  change (c_nl :: (p' ++ [c_rb]) ++ x) with ((c_nl :: p' ++ [c_rb]) ++ x).
  rewrite classify_app, fold_left_app.
  change (c_nl :: p' ++ [c_rb]) with ((c_nl :: p') ++ [c_rb]).
  rewrite classify_pre_closed, last_bs_snoc, rb_not_bs. reflexivity.
Qed.

(* ------------------------------------------------------------------ (2) PREFIX STABILITY *)
Theorem prefix_stable : forall p x Bp,
  md (run p) = Out -> ic_rev (run p) = [] -> (exists p', p = p' ++ [c_rb]) ->
  split_raw p = Blocks Bp -> exists rest, split_raw (p ++ x) = Blocks (Bp ++ rest).
Proof.
  intros p x Bp M I0 [p' ->] F.
  unfold split_raw in F. rewrite (finish_closed _ M I0) in F. inversion F; subst Bp. clear F.
  destruct (split_raw_total ((p' ++ [c_rb]) ++ x)) as [bs E]. rewrite E.
  unfold split_raw in E. rewrite run_app_closed in E.
  destruct (finish_ext _ _ E) as [extra ->].
  destruct (fold_ext (classify false x) (run (p' ++ [c_rb]))) as [new En]. rewrite En.
  rewrite rev_app_distr, <- app_assoc. eexists. reflexivity.
Qed.

(* the hypothesis "p ends with '}'" follows from the other two *)
Lemma classify1_rb pb c rest : classify1 pb c rest = Some MRB -> c = c_rb.
Proof.
  unfold classify1. destruct (c =? c_nl)%N; [discriminate|].
  destruct (c =? c_at)%N; [destruct (at_ok rest); discriminate|].
  destruct pb; [discriminate|].
  destruct (c =? c_lb)%N; [discriminate|]. destruct (c =? c_rb)%N eqn:E; [intros _; apply N.eqb_eq; exact E|].
  destruct (c =? c_quote)%N; [discriminate|]. destruct (c =? c_comma)%N; [discriminate|].
  destruct (c =? c_eq)%N; discriminate.
Qed.

Lemma step_out_not_closed s c k : md (step_out s c k) = Out -> ic_rev (step_out s c k) = [] -> False.
Proof. destruct k as [[]|]; cbn [step_out md ic_rev]; intros; discriminate. Qed.

Lemma closed_by_rb s c k : md (step s (c, k)) = Out -> ic_rev (step s (c, k)) = [] -> k = Some MRB.
Proof.
  unfold step. destruct (md s) eqn:M.
  - intros A B. destruct (step_out_not_closed _ _ _ A B).
  - destruct k as [[]|]; try reflexivity;
      repeat match goal with |- context [if ?b then _ else _] => destruct b end;
      cbn [upd md]; intros; discriminate.
  - destruct k as [[]|]; try reflexivity; unfold abort;
      try (intros A B; destruct (step_out_not_closed _ _ _ A B));
      cbn [upd upd_nl md]; rewrite ?M; intros; discriminate.
  - destruct k as [[]|]; try reflexivity; unfold abort;
      try (intros A B; destruct (step_out_not_closed _ _ _ A B));
      cbn [upd upd_nl md]; rewrite ?M; intros; discriminate.
  - destruct k as [[]|]; try reflexivity; unfold abort;
      try (intros A B; destruct (step_out_not_closed _ _ _ A B));
      cbn [upd upd_nl md]; rewrite ?M; intros; discriminate.
  - destruct k as [[]|]; try reflexivity; unfold abort;
      try (intros A B; destruct (step_out_not_closed _ _ _ A B));
      cbn [upd upd_nl md]; rewrite ?M; intros; discriminate.
  - destruct k as [[]|]; try reflexivity; unfold abort;
      repeat match goal with |- context [if ?b then _ else _] => destruct b end;
      try (intros A B; destruct (step_out_not_closed _ _ _ A B));
      cbn [upd upd_nl md]; rewrite ?M; intros; discriminate.
  - rewrite M. discriminate.
Qed.

Lemma closed_ends_rb p : md (run p) = Out -> ic_rev (run p) = [] -> exists p', p = p' ++ [c_rb].
Proof.
  destruct (exists_last (l := c_nl :: p)) as (q & e & E); [discriminate|].
  unfold run. rewrite E, classify_app, fold_left_app. cbn [classify fold_left].
  intros A B. apply closed_by_rb in A; [|exact B]. apply classify1_rb in A. subst e.
  destruct q as [|c0 q]; cbn [app] in E; inversion E. exists q. reflexivity.
Qed.

Corollary prefix_stable' : forall p x Bp,
  md (run p) = Out -> ic_rev (run p) = [] ->
  split_raw p = Blocks Bp -> exists rest, split_raw (p ++ x) = Blocks (Bp ++ rest).
Proof. intros p x Bp M I0. apply prefix_stable; [exact M | exact I0 | apply closed_ends_rb; assumption]. Qed.

(* ------------------------------------------------------------------ (3) CONCATENATION *)
Lemma run_line p : line (run p) = count_nl p.
Proof.
  unfold run. rewrite (inv_line _ (c_nl :: p)).
  - cbn [count_nl]. rewrite N.eqb_refl. lia.
  - pose proof (run_inv (classify false (c_nl :: p)) st0 [] (classify_ckok _ _) inv_st0) as H.
    rewrite classify_fst in H. exact H.
  - apply (run_not_crashed p).
Qed.

Lemma end_implicit_nl l : end_implicit (rv [c_nl]) l = None.
Proof. reflexivity. Qed.

Theorem concat : forall p r Bp B0,
  md (run p) = Out -> ic_rev (run p) = [] -> (exists p', p = p' ++ [c_rb]) -> at_ok r = true ->
  split_raw p = Blocks Bp -> split_raw (c_at :: r) = Blocks B0 ->
  split_raw (p ++ c_nl :: c_at :: r) = Blocks (Bp ++ map (shiftb (count_nl p + 1)) B0).
Proof.
  intros p r Bp B0 M I0 [p' Ep] Ha Fp F0.
  unfold split_raw in Fp. rewrite (finish_closed _ M I0) in Fp. inversion Fp; subst Bp. clear Fp.
  destruct (split_raw_total (p ++ c_nl :: c_at :: r)) as [B E]. rewrite E. f_equal.
  unfold split_raw in E. rewrite Ep, run_app_closed, <- Ep in E.
  rewrite (classify_nl_at r Ha) in E. cbn [fold_left] in E.
  set (s1 := step (run p) (c_nl, Some MNL)) in *.
  assert (Es1 : s1 = mkst Out (line (run p) + 1) (out_rev (run p)) [c_nl] (ic_line (run p)) (ob (run p))).
  { unfold s1, step. rewrite M. cbn [step_out]. rewrite I0. reflexivity. }
  assert (M1 : md s1 = Out) by (rewrite Es1; reflexivity).
  pose proof (resync_core s1 r B B0) as HB.
  rewrite M1 in HB. specialize (HB ltac:(discriminate) ltac:(discriminate) Ha E F0).
  rewrite HB. f_equal.
  - unfold step. rewrite M1. cbn [step_out out_rev]. unfold flush_ic. rewrite Es1. cbn [ic_rev ic_line out_rev].
    rewrite end_implicit_nl. reflexivity.
  - rewrite Es1. cbn [line]. rewrite run_line. reflexivity.
Qed.

Corollary concat' : forall p r Bp B0,
  md (run p) = Out -> ic_rev (run p) = [] -> at_ok r = true ->
  split_raw p = Blocks Bp -> split_raw (c_at :: r) = Blocks B0 ->
  split_raw (p ++ c_nl :: c_at :: r) = Blocks (Bp ++ map (shiftb (count_nl p + 1)) B0).
Proof. intros p r Bp B0 M I0. apply concat; [exact M | exact I0 | apply closed_ends_rb; assumption]. Qed.

(* ------------------------------------------------------------------ instances *)
Definition ex_x : str := lit "@a{k, t = ""unclosed {".
Definition ex_r : str := lit "b{j, u = {v}}".
Definition ex_p : str := lit "junk @s{k,
  t = {v}}".

Example ex_r_ok : at_ok ex_r = true.
Proof. vm_compute. reflexivity. Qed.

(* garbage (an entry with an unterminated quoted value containing an open brace), then a block *)
Example ex_resync : exists f e,
  split_raw (ex_x ++ c_nl :: c_at :: ex_r) = Blocks [f; shiftb 1 e] /\
  split_raw (c_at :: ex_r) = Blocks [e] /\
  class_of f = CFailed /\ class_of e = CEntry /\ sl (bhdr e) = Some 0 /\ sl (bhdr (shiftb 1 e)) = Some 1.
Proof. vm_compute. do 2 eexists. repeat split; reflexivity. Qed.

Example ex_resync_thm : forall B B0,
  split_raw (ex_x ++ c_nl :: c_at :: ex_r) = Blocks B -> split_raw (c_at :: ex_r) = Blocks B0 ->
  exists pre, B = pre ++ map (shiftb 1) B0.
Proof. intros B B0. apply (resync ex_x ex_r B B0 ex_r_ok). Qed.

(* a closed prefix (free text, then a two-line entry) *)
Example ex_p_closed : md (run ex_p) = Out /\ ic_rev (run ex_p) = [] /\ (exists p', ex_p = p' ++ [c_rb]) /\ count_nl ex_p = 1.
Proof.
  split; [vm_compute; reflexivity|]. split; [vm_compute; reflexivity|]. split; [|vm_compute; reflexivity].
  apply closed_ends_rb; vm_compute; reflexivity.
Qed.

Example ex_prefix : exists i e rest,
  split_raw ex_p = Blocks [i; e] /\ split_raw (ex_p ++ ex_x) = Blocks ([i; e] ++ rest) /\
  class_of i = CImpl /\ class_of e = CEntry /\ rest <> [].
Proof. vm_compute. do 3 eexists. repeat split; try reflexivity. discriminate. Qed.

Example ex_concat : exists i e e',
  split_raw ex_p = Blocks [i; e] /\ split_raw (c_at :: ex_r) = Blocks [e'] /\
  split_raw (ex_p ++ c_nl :: c_at :: ex_r) = Blocks ([i; e] ++ map (shiftb 2) [e']) /\
  sl (bhdr (shiftb 2 e')) = Some 2.
Proof. vm_compute. do 3 eexists. repeat split; reflexivity. Qed.

Print Assumptions resync_tiles.
Print Assumptions resync.
Print Assumptions prefix_stable.
Print Assumptions prefix_stable'.
Print Assumptions concat.
Print Assumptions concat'.
