(* C09: duplicate keys are never merged or dropped (first wins, the rest are flagged), and duplicate field
   names inside one entry (every occurrence kept in source order, wrapper lists exactly the repeated names).

   Part A: Library.add (Model/LibAdd.v) against the index-free specification Spec/C09.v.
   Part B: the field bookkeeping of the splitter's open-block record (Model/Splitter.v: ob_field / entry_block),
           first on the record alone, then carried through the whole machine (every emitted block). *)
From Coq Require Import String List NArith ZArith Bool Lia.
From Coq Require Import Sorting.Permutation.
From BP Require Import Base.Chars Model.Blocks Model.Lexer Model.LibAdd Model.Splitter Spec.C09.
Import ListNotations.
Local Open Scope list_scope.

(* ------------------------------------------------------------------------------------------------ *)
(* Part A: the library                                                                              *)
(* ------------------------------------------------------------------------------------------------ *)

Lemma first_entry_app k a b :
  first_entry k (a ++ b) = match first_entry k a with Some x => Some x | None => first_entry k b end.
Proof.
  induction a as [|x a IH]; [reflexivity|].
  destruct x as [? ? k' ?|? k' ?|? ?|? ?|? ?|? ?|? ? ?|? ? ? ?|? ? ?]; cbn [app first_entry]; try apply IH.
  destruct (str_eqb k k'); [reflexivity | apply IH].
Qed.
Lemma first_string_app k a b :
  first_string k (a ++ b) = match first_string k a with Some x => Some x | None => first_string k b end.
Proof.
  induction a as [|x a IH]; [reflexivity|].
  destruct x as [? ? k' ?|? k' ?|? ?|? ?|? ?|? ?|? ? ?|? ? ? ?|? ? ?]; cbn [app first_string]; try apply IH.
  destruct (str_eqb k k'); [reflexivity | apply IH].
Qed.

(* what first_entry returns: a top-level plain entry of bs with that key, and no earlier one *)
Lemma first_entry_some k bs b : first_entry k bs = Some b ->
  exists pre post h t f, b = BEntry h t k f /\ bs = pre ++ b :: post /\ first_entry k pre = None.
Proof.
  induction bs as [|x bs IH]; [discriminate|].
  destruct x as [h t k' f|? k' ?|? ?|? ?|? ?|? ?|? ? ?|? ? ? ?|? ? ?]; cbn [first_entry]; intros H;
    try (destruct (IH H) as (pre & post & h1 & t1 & f1 & E1 & E2 & E3);
         eexists (_ :: pre), post, h1, t1, f1; repeat split; [exact E1 | rewrite E2; reflexivity | exact E3]).
  destruct (str_eqb k k') eqn:E.
  - apply str_eqb_eq in E. subst k'. inversion H; subst.
    exists [], bs, h, t, f. repeat split.
  - destruct (IH H) as (pre & post & h1 & t1 & f1 & E1 & E2 & E3).
    exists (BEntry h t k' f :: pre), post, h1, t1, f1. repeat split; [exact E1 | rewrite E2; reflexivity |].
    cbn [first_entry]. rewrite E. exact E3.
Qed.
Lemma first_string_some k bs b : first_string k bs = Some b ->
  exists pre post h v, b = BString h k v /\ bs = pre ++ b :: post /\ first_string k pre = None.
Proof.
  induction bs as [|x bs IH]; [discriminate|].
  destruct x as [? ? ? ?|h k' v|? ?|? ?|? ?|? ?|? ? ?|? ? ? ?|? ? ?]; cbn [first_string]; intros H;
    try (destruct (IH H) as (pre & post & h1 & v1 & E1 & E2 & E3);
         eexists (_ :: pre), post, h1, v1; repeat split; [exact E1 | rewrite E2; reflexivity | exact E3]).
  destruct (str_eqb k k') eqn:E.
  - apply str_eqb_eq in E. subst k'. inversion H; subst.
    exists [], bs, h, v. repeat split.
  - destruct (IH H) as (pre & post & h1 & v1 & E1 & E2 & E3).
    exists (BString h k' v :: pre), post, h1, v1. repeat split; [exact E1 | rewrite E2; reflexivity |].
    cbn [first_string]. rewrite E. exact E3.
Qed.

(* a key is absent iff no top-level plain entry has it (entries inside wrappers do not count) *)
Lemma first_entry_none k bs : first_entry k bs = None <-> (forall h t f, ~ In (BEntry h t k f) bs).
Proof.
  induction bs as [|x bs IH]; [split; [intros _ ? ? ? [] | reflexivity]|].
  destruct x as [h t k' f|? k' ?|? ?|? ?|? ?|? ?|? ? ?|? ? ? ?|? ? ?]; cbn [first_entry];
    try (rewrite IH; split; intros H h1 t1 f1; [intros [D|D]; [discriminate | exact (H _ _ _ D)]
                                                | intros D; apply (H h1 t1 f1); right; exact D]).
  destruct (str_eqb k k') eqn:E.
  - apply str_eqb_eq in E. subst k'. split; [discriminate|]. intros H. exfalso. apply (H h t f). left. reflexivity.
  - rewrite IH. apply str_eqb_neq in E. split; intros H h1 t1 f1.
    + intros [D|D]; [inversion D; congruence | exact (H _ _ _ D)].
    + intros D. apply (H h1 t1 f1). right. exact D.
Qed.
Lemma first_string_none k bs : first_string k bs = None <-> (forall h v, ~ In (BString h k v) bs).
Proof.
  induction bs as [|x bs IH]; [split; [intros _ ? ? [] | reflexivity]|].
  destruct x as [? ? ? ?|h k' v|? ?|? ?|? ?|? ?|? ? ?|? ? ? ?|? ? ?]; cbn [first_string];
    try (rewrite IH; split; intros H h1 v1; [intros [D|D]; [discriminate | exact (H _ _ D)]
                                             | intros D; apply (H h1 v1); right; exact D]).
  destruct (str_eqb k k') eqn:E.
  - apply str_eqb_eq in E. subst k'. split; [discriminate|]. intros H. exfalso. apply (H h v). left. reflexivity.
  - rewrite IH. apply str_eqb_neq in E. split; intros H h1 v1.
    + intros [D|D]; [inversion D; congruence | exact (H _ _ D)].
    + intros D. apply (H h1 v1). right. exact D.
Qed.

Lemma flag_all_snoc bs : forall pre b, flag_all pre (bs ++ [b]) = flag_all pre bs ++ [flagged (pre ++ bs) b].
Proof.
  induction bs as [|x bs IH]; intros pre b; cbn [app flag_all].
  - rewrite app_nil_r. reflexivity.
  - rewrite IH, <- app_assoc. reflexivity.
Qed.
Lemma flag_all_length bs : forall pre, length (flag_all pre bs) = length bs.
Proof. induction bs as [|x bs IH]; intros pre; cbn [flag_all length]; [reflexivity | rewrite IH; reflexivity]. Qed.

(* dictionaries as association lists *)
Lemma dict_get_none {V} (d : list (str * V)) k : dict_get d k = None <-> ~ In k (map fst d).
Proof.
  induction d as [|[k' v] d IH]; cbn [dict_get map fst In]; [tauto|].
  destruct (str_eqb k k') eqn:E.
  - apply str_eqb_eq in E. subst. split; [discriminate | intros H; exfalso; apply H; left; reflexivity].
  - apply str_eqb_neq in E. rewrite IH. split; [intros H [D|D]; [congruence | tauto] | tauto].
Qed.
Lemma dict_get_app {V} (a b : list (str * V)) k :
  dict_get (a ++ b) k = match dict_get a k with Some v => Some v | None => dict_get b k end.
Proof.
  induction a as [|[k' v] a IH]; cbn [app dict_get]; [reflexivity|].
  destruct (str_eqb k k'); [reflexivity | apply IH].
Qed.
(* with unique keys, looking up in insertion order or in most-recent-first order is the same *)
Lemma dict_get_rev {V} (d : list (str * V)) k : NoDup (map fst d) -> dict_get (rev d) k = dict_get d k.
Proof.
  induction d as [|[k' v] d IH]; [reflexivity|]. cbn [map fst rev]. intros H. inversion H as [|? ? Hn Hd]; subst.
  rewrite dict_get_app, (IH Hd). cbn [dict_get].
  destruct (str_eqb k k') eqn:E; [|destruct (dict_get d k); reflexivity].
  apply str_eqb_eq in E. subst k'. apply dict_get_none in Hn. rewrite Hn. reflexivity.
Qed.

(* the invariant of Library.add: [before] = the SOURCE blocks added so far *)
Record lib_inv (l : libst) (before : list block) : Prop := mk_lib_inv {
  inv_blocks : lrev l = rev (flag_all [] before);
  inv_ents : forall k, dict_get (ents l) k = first_entry k before;
  inv_strs : forall k, dict_get (strs l) k = first_string k before;
  inv_ents_nodup : NoDup (map fst (ents l));
  inv_strs_nodup : NoDup (map fst (strs l)) }.

Lemma lib_inv0 : lib_inv lib0 [].
Proof. split; try reflexivity; constructor. Qed.

Lemma add_block_lrev l before b : lib_inv l before -> lrev (add_block l b) = flagged before b :: lrev l.
Proof.
  intros I.
  destruct b as [h t k f|h k v|? ?|? ?|? ?|? ?|? ? ?|? ? ? ?|? ? ?]; cbn [add_block flagged]; try reflexivity.
  - rewrite <- (inv_ents _ _ I k). destruct (dict_get (ents l) k); reflexivity.
  - rewrite <- (inv_strs _ _ I k). destruct (dict_get (strs l) k); reflexivity.
Qed.

Lemma add_block_inv l before b : lib_inv l before -> lib_inv (add_block l b) (before ++ [b]).
Proof.
  intros I. split.
  - rewrite (add_block_lrev l before b I), flag_all_snoc, rev_app_distr, (inv_blocks _ _ I). reflexivity.
  - intros k'. rewrite first_entry_app, <- (inv_ents _ _ I k').
    destruct b as [h t k f|h k v|? ?|? ?|? ?|? ?|? ? ?|? ? ? ?|? ? ?]; cbn [add_block first_entry];
      try (cbn [ents]; destruct (dict_get (ents l) k'); reflexivity).
    + destruct (dict_get (ents l) k) eqn:G; cbn [ents dict_get].
      * destruct (str_eqb k' k) eqn:E; [|destruct (dict_get (ents l) k'); reflexivity].
        apply str_eqb_eq in E. subst k'. rewrite G. reflexivity.
      * destruct (str_eqb k' k) eqn:E; [|destruct (dict_get (ents l) k'); reflexivity].
        apply str_eqb_eq in E. subst k'. rewrite G. reflexivity.
    + destruct (dict_get (strs l) k); cbn [ents]; destruct (dict_get (ents l) k'); reflexivity.
  - intros k'. rewrite first_string_app, <- (inv_strs _ _ I k').
    destruct b as [h t k f|h k v|? ?|? ?|? ?|? ?|? ? ?|? ? ? ?|? ? ?]; cbn [add_block first_string];
      try (cbn [strs]; destruct (dict_get (strs l) k'); reflexivity).
    + destruct (dict_get (ents l) k); cbn [strs]; destruct (dict_get (strs l) k'); reflexivity.
    + destruct (dict_get (strs l) k) eqn:G; cbn [strs dict_get].
      * destruct (str_eqb k' k) eqn:E; [|destruct (dict_get (strs l) k'); reflexivity].
        apply str_eqb_eq in E. subst k'. rewrite G. reflexivity.
      * destruct (str_eqb k' k) eqn:E; [|destruct (dict_get (strs l) k'); reflexivity].
        apply str_eqb_eq in E. subst k'. rewrite G. reflexivity.
  - destruct b as [h t k f|h k v|? ?|? ?|? ?|? ?|? ? ?|? ? ? ?|? ? ?]; cbn [add_block];
      try exact (inv_ents_nodup _ _ I).
    + destruct (dict_get (ents l) k) eqn:G; cbn [ents]; [exact (inv_ents_nodup _ _ I)|].
      cbn [map fst]. constructor; [apply dict_get_none; exact G | exact (inv_ents_nodup _ _ I)].
    + destruct (dict_get (strs l) k); exact (inv_ents_nodup _ _ I).
  - destruct b as [h t k f|h k v|? ?|? ?|? ?|? ?|? ? ?|? ? ? ?|? ? ?]; cbn [add_block];
      try exact (inv_strs_nodup _ _ I).
    + destruct (dict_get (ents l) k); exact (inv_strs_nodup _ _ I).
    + destruct (dict_get (strs l) k) eqn:G; cbn [strs]; [exact (inv_strs_nodup _ _ I)|].
      cbn [map fst]. constructor; [apply dict_get_none; exact G | exact (inv_strs_nodup _ _ I)].
Qed.

Lemma lib_add_all_inv bs : forall l before, lib_inv l before -> lib_inv (lib_add_all bs l) (before ++ bs).
Proof.
  induction bs as [|b bs IH]; intros l before I; cbn [lib_add_all fold_left].
  - rewrite app_nil_r. exact I.
  - replace (before ++ b :: bs) with ((before ++ [b]) ++ bs) by (rewrite <- app_assoc; reflexivity).
    apply (IH (add_block l b)). apply add_block_inv. exact I.
Qed.

Lemma lib_of_inv bs : lib_inv (lib_of bs) bs.
Proof. exact (lib_add_all_inv bs lib0 [] lib_inv0). Qed.

(* (1) the blocks of Library(blocks=bs) are the source blocks, each flagged w.r.t. the source blocks before it *)
Theorem rebuild_flag_all : forall bs, rebuild bs = flag_all [] bs.
Proof.
  intros bs. unfold rebuild, lblocks. rewrite rv_rev, (inv_blocks _ _ (lib_of_inv bs)), rev_involutive. reflexivity.
Qed.

(* (2) no block merged or dropped *)
Theorem rebuild_length : forall bs, length (rebuild bs) = length bs.
Proof. intros bs. rewrite rebuild_flag_all. apply flag_all_length. Qed.

(* position by position: the i-th block is the i-th source block, flagged against the source blocks before it *)
Lemma flag_all_nth bs : forall pre i d, i < length bs ->
  nth i (flag_all pre bs) d = flagged (pre ++ firstn i bs) (nth i bs d).
Proof.
  induction bs as [|x bs IH]; intros pre i d Hi; cbn [length] in Hi; [lia|].
  destruct i as [|i]; cbn [flag_all nth firstn].
  - rewrite app_nil_r. reflexivity.
  - rewrite IH by lia. rewrite <- app_assoc. reflexivity.
Qed.
Theorem rebuild_nth : forall bs i d, i < length bs ->
  nth i (rebuild bs) d = flagged (firstn i bs) (nth i bs d).
Proof. intros bs i d Hi. rewrite rebuild_flag_all. apply (flag_all_nth bs [] i d Hi). Qed.

(* (3) first wins *)
Theorem entries_dict_first : forall bs k, dict_get (ents (lib_of bs)) k = first_entry k bs.
Proof. intros bs k. apply (inv_ents _ _ (lib_of_inv bs)). Qed.
Theorem strings_dict_first : forall bs k, dict_get (strs (lib_of bs)) k = first_string k bs.
Proof. intros bs k. apply (inv_strs _ _ (lib_of_inv bs)). Qed.

(* the same for the insertion-ordered views (keys are unique, so the lookup order does not matter) *)
Theorem ents_keys_unique : forall bs, NoDup (map fst (ents (lib_of bs))).
Proof. intros bs. apply (inv_ents_nodup _ _ (lib_of_inv bs)). Qed.
Theorem strs_keys_unique : forall bs, NoDup (map fst (strs (lib_of bs))).
Proof. intros bs. apply (inv_strs_nodup _ _ (lib_of_inv bs)). Qed.
Theorem entries_dict_view_first : forall bs k, dict_get (entries_dict (lib_of bs)) k = first_entry k bs.
Proof.
  intros bs k. unfold entries_dict. rewrite rv_rev, dict_get_rev by apply ents_keys_unique. apply entries_dict_first.
Qed.
Theorem strings_dict_view_first : forall bs k, dict_get (strings_dict (lib_of bs)) k = first_string k bs.
Proof.
  intros bs k. unfold strings_dict. rewrite rv_rev, dict_get_rev by apply strs_keys_unique. apply strings_dict_first.
Qed.

(* the registered block is a plain top-level entry with that key, and nothing before it has the key *)
Theorem entries_dict_value : forall bs k b, dict_get (ents (lib_of bs)) k = Some b ->
  exists pre post h t f, b = BEntry h t k f /\ bs = pre ++ b :: post /\ first_entry k pre = None.
Proof. intros bs k b H. rewrite entries_dict_first in H. apply first_entry_some. exact H. Qed.
Theorem strings_dict_value : forall bs k b, dict_get (strs (lib_of bs)) k = Some b ->
  exists pre post h v, b = BString h k v /\ bs = pre ++ b :: post /\ first_string k pre = None.
Proof. intros bs k b H. rewrite strings_dict_first in H. apply first_string_some. exact H. Qed.

(* duplicate-field blocks are never registered: a key whose entries all sit inside wrappers (i.e. no top-level
   plain BEntry has it) is absent *)
Corollary dupfield_not_registered : forall bs k,
  (forall h t f, ~ In (BEntry h t k f) bs) -> dict_get (ents (lib_of bs)) k = None.
Proof. intros bs k H. rewrite entries_dict_first. apply first_entry_none. exact H. Qed.
Corollary entry_key_absent_iff : forall bs k,
  dict_get (ents (lib_of bs)) k = None <-> (forall h t f, ~ In (BEntry h t k f) bs).
Proof. intros bs k. rewrite entries_dict_first. apply first_entry_none. Qed.
Corollary string_key_absent_iff : forall bs k,
  dict_get (strs (lib_of bs)) k = None <-> (forall h v, ~ In (BString h k v) bs).
Proof. intros bs k. rewrite strings_dict_first. apply first_string_none. Qed.

(* (4) *)
Theorem split_is_flagged : forall t bs, split_raw t = Blocks bs -> split t = Blocks (flag_all [] bs).
Proof. intros t bs H. unfold split. rewrite H, rebuild_flag_all. reflexivity. Qed.

(* ------------------------------------------------------------------------------------------------ *)
(* Part B: duplicate field names inside one entry                                                   *)
(* ------------------------------------------------------------------------------------------------ *)

(* number of occurrences of a key *)
Fixpoint cnt (k : str) (l : list str) : nat :=
  match l with [] => 0 | x :: r => (if str_eqb k x then 1 else 0) + cnt k r end.
(* some key occurs twice *)
Fixpoint has_dup (l : list str) : bool :=
  match l with [] => false | x :: r => mem_str x r || has_dup r end.

Lemma cnt_In k l : In k l <-> 1 <= cnt k l.
Proof.
  induction l as [|x l IH]; cbn [In cnt]; [lia|].
  destruct (str_eqb k x) eqn:E.
  - apply str_eqb_eq in E. subst. split; [lia | auto].
  - apply str_eqb_neq in E. rewrite IH. split; [intros [D|D]; [congruence | lia] | intros D; right; lia].
Qed.
Lemma cnt_app k a b : cnt k (a ++ b) = cnt k a + cnt k b.
Proof. induction a as [|x a IH]; cbn [app cnt]; [reflexivity | rewrite IH; lia]. Qed.
Lemma cnt_rev k l : cnt k (rev l) = cnt k l.
Proof. induction l as [|x l IH]; cbn [rev cnt]; [reflexivity | rewrite cnt_app, IH; cbn [cnt]; lia]. Qed.
Lemma cnt_perm k a b : Permutation a b -> cnt k a = cnt k b.
Proof. induction 1; cbn [cnt]; lia. Qed.

Lemma has_dup_cnt l : has_dup l = true <-> exists k, 2 <= cnt k l.
Proof.
  induction l as [|x l IH]; cbn [has_dup cnt].
  - split; [discriminate | intros [k H]; lia].
  - rewrite orb_true_iff, IH, mem_str_In, cnt_In. split.
    + intros [H|[k H]]; [exists x; rewrite str_eqb_refl; lia | exists k; lia].
    + intros [k H]. destruct (str_eqb k x) eqn:E.
      * apply str_eqb_eq in E. subst. left. lia.
      * right. exists k. lia.
Qed.
Lemma has_dup_false_NoDup l : has_dup l = false <-> NoDup l.
Proof.
  induction l as [|x l IH]; cbn [has_dup]; [split; [constructor | reflexivity]|].
  rewrite orb_false_iff, IH, <- not_true_iff_false, mem_str_In. split.
  - intros [H1 H2]. constructor; assumption.
  - intros H. inversion H; subst. split; assumption.
Qed.
Lemma has_dup_true_not_NoDup l : has_dup l = true <-> ~ NoDup l.
Proof. rewrite <- has_dup_false_NoDup. destruct (has_dup l); split; congruence. Qed.
Lemma has_dup_rev l : has_dup (rev l) = has_dup l.
Proof.
  destruct (has_dup l) eqn:E.
  - apply has_dup_cnt in E. apply has_dup_cnt. destruct E as [k H]. exists k. rewrite cnt_rev. exact H.
  - apply has_dup_false_NoDup in E. apply has_dup_false_NoDup. apply NoDup_rev. exact E.
Qed.

(* sorted(...) only permutes *)
Lemma insert_str_perm x l : Permutation (insert_str x l) (x :: l).
Proof.
  induction l as [|y l IH]; cbn [insert_str]; [apply Permutation_refl|].
  destruct (str_ltb y x); [|apply Permutation_refl].
  apply perm_trans with (y :: x :: l); [apply perm_skip; exact IH | apply perm_swap].
Qed.
Theorem sort_strs_perm : forall l, Permutation (sort_strs l) l.
Proof.
  induction l as [|x l IH]; cbn [sort_strs fold_right]; [apply perm_nil|].
  apply perm_trans with (x :: fold_right insert_str [] l); [apply insert_str_perm | apply perm_skip; exact IH].
Qed.
Corollary sort_strs_In l k : In k (sort_strs l) <-> In k l.
Proof. split; apply Permutation_in; [|apply Permutation_sym]; apply sort_strs_perm. Qed.
Corollary sort_strs_NoDup l : NoDup l -> NoDup (sort_strs l).
Proof. apply Permutation_NoDup. apply Permutation_sym. apply sort_strs_perm. Qed.
Corollary sort_strs_length l : List.length (sort_strs l) = List.length l.
Proof. apply Permutation_length. apply sort_strs_perm. Qed.

(* an update of the open block that does not touch flds_rev / seen / dups *)
Definition with_av (a v : str) (fl : Z) (r : str) (o : openb) : openb :=
  mkob (b_line o) r (typ_rev o) a v (etyp o) (ekey o) fl (flds_rev o) (seen o) (dups o).
(* the machine's accumulator updates inside an entry are of this form *)
Lemma ob_raw_with_av c o : ob_raw c o = with_av (a_rev o) (v_rev o) (f_line o) (c :: raw_rev o) o.
Proof. reflexivity. Qed.
Lemma ob_raw_a_with_av c o : ob_raw_a c o = with_av (c :: a_rev o) (v_rev o) (f_line o) (c :: raw_rev o) o.
Proof. reflexivity. Qed.
Lemma ob_raw_v_with_av c o : ob_raw_v c o = with_av (a_rev o) (c :: v_rev o) (f_line o) (c :: raw_rev o) o.
Proof. reflexivity. Qed.
Lemma ob_eq_with_av c ln o : ob_eq c ln o = with_av (a_rev o) [] ln (c :: raw_rev o) o.
Proof. reflexivity. Qed.

Definition keys_of (o : openb) : list str := map fkey (flds_rev o).
(* the field completed by ob_field *)
Definition field_of (o : openb) : field :=
  mkfield (strip (rv (a_rev o))) (VStr (strip (rv (v_rev o)))) (Some (f_line o)).

(* flds_rev only grows by consing *)
Lemma ob_field_flds o : flds_rev (ob_field o) = field_of o :: flds_rev o.
Proof. reflexivity. Qed.
Lemma with_av_flds a v fl r o : flds_rev (with_av a v fl r o) = flds_rev o.
Proof. reflexivity. Qed.

(* the invariant: seen = the keys, each once; dups = the keys occurring at least twice, each once *)
Record fld_inv (o : openb) : Prop := mk_fld_inv {
  fi_seen_nodup : NoDup (seen o);
  fi_seen : forall k, In k (seen o) <-> In k (keys_of o);
  fi_dups_nodup : NoDup (dups o);
  fi_dups : forall k, In k (dups o) <-> 2 <= cnt k (keys_of o) }.

Definition fresh (o : openb) : Prop := flds_rev o = [] /\ seen o = [] /\ dups o = [].

Lemma fld_inv_same o o' :
  flds_rev o' = flds_rev o -> seen o' = seen o -> dups o' = dups o -> fld_inv o -> fld_inv o'.
Proof. intros E1 E2 E3 [A B C D]. split; unfold keys_of in *; rewrite ?E1, ?E2, ?E3; assumption. Qed.

Lemma fld_inv_fresh o : fresh o -> fld_inv o.
Proof.
  intros (E1 & E2 & E3). split; unfold keys_of; rewrite ?E1, ?E2, ?E3; cbn [map cnt In]; try constructor; try tauto; lia.
Qed.
Lemma fld_inv_with_av a v fl r o : fld_inv o -> fld_inv (with_av a v fl r o).
Proof. apply fld_inv_same; reflexivity. Qed.

Lemma fld_inv_field o : fld_inv o -> fld_inv (ob_field o).
Proof.
  intros [A B C D]. set (k := strip (rv (a_rev o))).
  assert (EK : keys_of (ob_field o) = k :: keys_of o) by reflexivity.
  assert (ES : seen (ob_field o) = if mem_str k (seen o) then seen o else k :: seen o) by reflexivity.
  assert (ED : dups (ob_field o) = if mem_str k (seen o) && negb (mem_str k (dups o)) then k :: dups o else dups o)
    by reflexivity.
  assert (Bk : In k (seen o) <-> 1 <= cnt k (keys_of o)) by (rewrite <- cnt_In; apply B).
  assert (Dk := D k).
  split; rewrite ?EK, ?ES, ?ED.
  - destruct (mem_str k (seen o)) eqn:M; [exact A|].
    apply not_true_iff_false in M. rewrite mem_str_In in M. constructor; assumption.
  - intros k'. cbn [In]. destruct (mem_str k (seen o)) eqn:M.
    + apply mem_str_In in M. rewrite B. split; [tauto|]. intros [E|H]; [subst k'; apply B; exact M | exact H].
    + cbn [In]. rewrite B. tauto.
  - destruct (mem_str k (seen o)); cbn [andb]; [|exact C].
    destruct (mem_str k (dups o)) eqn:M; cbn [negb]; [exact C|].
    apply not_true_iff_false in M. rewrite mem_str_In in M. constructor; assumption.
  - intros k'. cbn [cnt]. destruct (str_eqb k' k) eqn:E.
    + apply str_eqb_eq in E. subst k'.
      destruct (mem_str k (seen o)) eqn:M; cbn [andb].
      * apply mem_str_In in M. apply Bk in M. destruct (mem_str k (dups o)) eqn:M2; cbn [negb].
        -- apply mem_str_In in M2. split; [lia | intros _; exact M2].
        -- split; [lia | intros _; left; reflexivity].
      * apply not_true_iff_false in M. rewrite mem_str_In, Bk in M. split; [|lia].
        intros H. apply Dk in H. lia.
    + apply str_eqb_neq in E.
      destruct (mem_str k (seen o) && negb (mem_str k (dups o))); [|rewrite D; lia].
      cbn [In]. rewrite D. split; [intros [H|H]; [congruence | lia] | intros H; right; lia].
Qed.

(* any interleaving of completed fields and other updates, from a fresh open block *)
Inductive act := AField | ASet (a v : str) (fl : Z) (r : str).
Definition do_act (o : openb) (x : act) : openb :=
  match x with AField => ob_field o | ASet a v fl r => with_av a v fl r o end.
Definition run_acts (xs : list act) (o : openb) : openb := fold_left do_act xs o.
(* the fields completed along the way, in source order *)
Fixpoint emitted (xs : list act) (o : openb) : list field :=
  match xs with
  | [] => []
  | AField :: r => field_of o :: emitted r (do_act o AField)
  | x :: r => emitted r (do_act o x)
  end.

Lemma run_acts_inv xs : forall o, fld_inv o -> fld_inv (run_acts xs o).
Proof.
  induction xs as [|x xs IH]; intros o I; cbn [run_acts fold_left]; [exact I|].
  apply IH. destruct x; cbn [do_act]; [apply fld_inv_field | apply fld_inv_with_av]; exact I.
Qed.

Theorem ob_field_invariant : forall xs o, fresh o -> fld_inv (run_acts xs o).
Proof. intros xs o F. apply run_acts_inv, fld_inv_fresh, F. Qed.

(* every field occurrence is kept, in source order *)
Theorem run_acts_fields : forall xs o, rv (flds_rev (run_acts xs o)) = rv (flds_rev o) ++ emitted xs o.
Proof.
  induction xs as [|x xs IH]; intros o; cbn [run_acts fold_left emitted].
  - rewrite app_nil_r. reflexivity.
  - unfold run_acts in IH. rewrite IH. destruct x; cbn [do_act]; [|reflexivity].
    rewrite ob_field_flds, !rv_rev. cbn [rev]. rewrite <- app_assoc. reflexivity.
Qed.
Corollary run_acts_fields_fresh : forall xs o, fresh o -> rv (flds_rev (run_acts xs o)) = emitted xs o.
Proof. intros xs o (E & _). rewrite run_acts_fields, E. reflexivity. Qed.

(* dups is empty exactly when no key repeats *)
Lemma fld_inv_dups_nil o : fld_inv o -> (dups o = [] <-> has_dup (keys_of o) = false).
Proof.
  intros [A B C D]. split.
  - intros E. destruct (has_dup (keys_of o)) eqn:H; [|reflexivity].
    apply has_dup_cnt in H. destruct H as [k H]. apply D in H. rewrite E in H. destruct H.
  - intros H. destruct (dups o) as [|d ds] eqn:E; [reflexivity|].
    assert (G : has_dup (keys_of o) = true) by (apply has_dup_cnt; exists d; apply D; left; reflexivity).
    congruence.
Qed.

Definition inner_entry (o : openb) : block := BEntry (hdr_of o) (etyp o) (ekey o) (rev (flds_rev o)).

(* the emitted block: wrapper iff some field name repeats; the inner entry has all occurrences in source order *)
Theorem entry_block_spec : forall o, fld_inv o ->
  entry_block o = if has_dup (keys_of o)
                  then BDupField (hdr_of o) (sort_strs (dups o)) (inner_entry o)
                  else inner_entry o.
Proof.
  intros o I. unfold entry_block, inner_entry. rewrite rv_rev.
  destruct (fld_inv_dups_nil o I) as [H1 H2].
  destruct (dups o) as [|d ds] eqn:E.
  - rewrite (H1 eq_refl). reflexivity.
  - destruct (has_dup (keys_of o)); [reflexivity|]. discriminate (H2 eq_refl).
Qed.

Theorem entry_block_dup_iff : forall o, fld_inv o ->
  (entry_block o = BDupField (hdr_of o) (sort_strs (dups o)) (inner_entry o) <-> ~ NoDup (keys_of o)).
Proof.
  intros o I. rewrite (entry_block_spec o I), <- has_dup_true_not_NoDup.
  destruct (has_dup (keys_of o)); split; try reflexivity; unfold inner_entry; discriminate.
Qed.
Theorem entry_block_plain_iff : forall o, fld_inv o ->
  (entry_block o = inner_entry o <-> NoDup (keys_of o)).
Proof.
  intros o I. rewrite (entry_block_spec o I), <- has_dup_false_NoDup.
  destruct (has_dup (keys_of o)); split; try reflexivity; unfold inner_entry; discriminate.
Qed.

(* the wrapper's key list: exactly the names occurring at least twice among the entry's fields, each once *)
Theorem dup_keys_spec : forall o, fld_inv o ->
  Permutation (sort_strs (dups o)) (dups o) /\ NoDup (sort_strs (dups o)) /\
  forall k, In k (sort_strs (dups o)) <-> 2 <= cnt k (map fkey (rev (flds_rev o))).
Proof.
  intros o I. split; [apply sort_strs_perm|]. split; [apply sort_strs_NoDup, (fi_dups_nodup o I)|].
  intros k. rewrite sort_strs_In, map_rev, cnt_rev. apply (fi_dups o I).
Qed.

(* the statement asked for, in one piece: from a fresh open block, after any interleaving *)
Theorem entry_block_after_acts : forall xs o, fresh o ->
  let o' := run_acts xs o in
  rv (flds_rev o') = emitted xs o /\
  NoDup (seen o') /\ (forall k, In k (seen o') <-> In k (map fkey (emitted xs o))) /\
  NoDup (dups o') /\ (forall k, In k (dups o') <-> 2 <= cnt k (map fkey (emitted xs o))) /\
  entry_block o' =
    if has_dup (map fkey (emitted xs o))
    then BDupField (hdr_of o') (sort_strs (dups o')) (BEntry (hdr_of o') (etyp o') (ekey o') (emitted xs o))
    else BEntry (hdr_of o') (etyp o') (ekey o') (emitted xs o).
Proof.
  intros xs o F o'. assert (I : fld_inv o') by (apply ob_field_invariant; exact F).
  assert (E : rv (flds_rev o') = emitted xs o) by (apply run_acts_fields_fresh; exact F).
  assert (K : map fkey (emitted xs o) = rev (keys_of o')) by (rewrite <- E, rv_rev, map_rev; reflexivity).
  split; [exact E|]. split; [apply (fi_seen_nodup o' I)|].
  split; [intros k; rewrite K, <- in_rev; apply (fi_seen o' I)|].
  split; [apply (fi_dups_nodup o' I)|].
  split; [intros k; rewrite K, cnt_rev; apply (fi_dups o' I)|].
  rewrite K, has_dup_rev, (entry_block_spec o' I). unfold inner_entry. rewrite <- rv_rev, E. reflexivity.
Qed.

(* ---- the same facts carried through the whole machine: every block the splitter emits *)

(* a block is consistent about repeated field names *)
Definition dup_ok (b : block) : Prop :=
  match b with
  | BEntry _ _ _ fs => NoDup (map fkey fs)
  | BDupField h ks (BEntry h' _ _ fs) =>
      h' = h /\ ~ NoDup (map fkey fs) /\ NoDup ks /\ forall k, In k ks <-> 2 <= cnt k (map fkey fs)
  | BDupField _ _ _ => False
  | _ => True
  end.

Lemma entry_block_dup_ok o : fld_inv o -> dup_ok (entry_block o).
Proof.
  intros I. rewrite (entry_block_spec o I). unfold inner_entry.
  assert (K : map fkey (rev (flds_rev o)) = rev (keys_of o)) by (rewrite map_rev; reflexivity).
  destruct (has_dup (keys_of o)) eqn:H; cbn [dup_ok]; rewrite K.
  - split; [reflexivity|]. split.
    + apply has_dup_true_not_NoDup. rewrite has_dup_rev. exact H.
    + split; [apply sort_strs_NoDup, (fi_dups_nodup o I)|].
      intros k. rewrite sort_strs_In, cnt_rev. apply (fi_dups o I).
  - apply NoDup_rev. apply has_dup_false_NoDup. exact H.
Qed.

Definition MInv (s : st) : Prop := fld_inv (ob s) /\ Forall dup_ok (out_rev s).

Lemma fld_inv_ob0 ln c : fld_inv (ob0 ln c).            Proof. apply fld_inv_fresh. repeat split. Qed.
Lemma fld_inv_open c ty o : fld_inv (ob_open c ty o).   Proof. apply fld_inv_fresh. repeat split. Qed.
Lemma fld_inv_key c o : fld_inv (ob_key c o).           Proof. apply fld_inv_fresh. repeat split. Qed.
Lemma fld_inv_raw c o : fld_inv o -> fld_inv (ob_raw c o).         Proof. apply fld_inv_same; reflexivity. Qed.
Lemma fld_inv_raw_typ c o : fld_inv o -> fld_inv (ob_raw_typ c o). Proof. apply fld_inv_same; reflexivity. Qed.
Lemma fld_inv_raw_a c o : fld_inv o -> fld_inv (ob_raw_a c o).     Proof. apply fld_inv_same; reflexivity. Qed.
Lemma fld_inv_raw_v c o : fld_inv o -> fld_inv (ob_raw_v c o).     Proof. apply fld_inv_same; reflexivity. Qed.
Lemma fld_inv_eq c ln o : fld_inv o -> fld_inv (ob_eq c ln o).     Proof. apply fld_inv_same; reflexivity. Qed.

Lemma flush_ic_ok s : Forall dup_ok (out_rev s) -> Forall dup_ok (flush_ic s).
Proof.
  intros H. unfold flush_ic, end_implicit. destruct (skip_leading (rv (ic_rev s)) 0) as [rest n].
  destruct (rstrip rest); [exact H|]. constructor; [exact I | exact H].
Qed.
Lemma minv_step_out s c k : MInv s -> MInv (step_out s c k).
Proof.
  intros [A B]. unfold step_out. destruct k as [[]|]; split; cbn [ob out_rev]; try assumption.
  - apply fld_inv_ob0.
  - apply flush_ic_ok. exact B.
Qed.
Lemma minv_abort s r c k : MInv s -> MInv (abort s r c k).
Proof. intros [A B]. unfold abort. apply minv_step_out. split; cbn [ob out_rev]; [exact A|]. constructor; [exact I | exact B]. Qed.
Lemma minv_upd s m o : MInv s -> fld_inv o -> MInv (upd s m o).
Proof. intros [A B] H. split; assumption. Qed.
Lemma minv_upd_nl s o : MInv s -> fld_inv o -> MInv (upd_nl s o).
Proof. intros [A B] H. split; assumption. Qed.
Lemma minv_close s b : MInv s -> dup_ok b -> MInv (close_block s b).
Proof. intros [A B] H. split; cbn [close_block ob out_rev]; [exact A | constructor; assumption]. Qed.
Lemma dup_ok_braces kd o : dup_ok (braces_block kd o).
Proof. destruct kd; exact I. Qed.

Lemma step_minv s ck : MInv s -> MInv (step s ck).
Proof.
  intros HI. assert (A := proj1 HI). destruct ck as [c k]. unfold step.
  destruct (md s); destruct k as [[]|];
    repeat match goal with |- context [if ?b then _ else _] => destruct b end;
    first [ exact HI
          | apply minv_step_out; exact HI
          | apply minv_abort; exact HI
          | apply minv_close; [exact HI|];
            first [ apply dup_ok_braces
                  | apply entry_block_dup_ok;
                    first [ apply fld_inv_key | apply fld_inv_raw; first [exact A | apply fld_inv_field; exact A] ] ]
          | apply minv_upd_nl; [exact HI|];
            first [ apply fld_inv_raw_a | apply fld_inv_raw_v ]; exact A
          | apply minv_upd; [exact HI|];
            first [ apply fld_inv_open | apply fld_inv_key
                  | apply fld_inv_raw; apply fld_inv_field; exact A
                  | first [ apply fld_inv_raw_typ | apply fld_inv_raw_a | apply fld_inv_raw_v | apply fld_inv_eq
                          | apply fld_inv_raw ]; exact A ] ].
Qed.

Lemma run_minv cl : forall s, MInv s -> MInv (fold_left step cl s).
Proof. induction cl as [|ck cl IH]; intros s HI; cbn [fold_left]; [exact HI | apply IH, step_minv, HI]. Qed.

(* every block emitted by the splitter: a plain entry has no repeated field name; a duplicate-field wrapper
   contains an entry (same header) with a repeated name, all occurrences kept, and lists exactly the names
   occurring at least twice, each once *)
Theorem split_raw_dup_ok : forall t bs, split_raw t = Blocks bs -> Forall dup_ok bs.
Proof.
  intros t bs H. unfold split_raw, run in H.
  assert (HI : MInv (fold_left step (classify false (c_nl :: t)) st0)).
  { apply run_minv. split; [apply fld_inv_ob0 | constructor]. }
  destruct HI as [A B]. unfold finish in H.
  destruct (md (fold_left step (classify false (c_nl :: t)) st0)); inversion H; subst; rewrite rv_rev;
    apply Forall_rev; try (constructor; [exact I | exact B]).
  apply flush_ic_ok. exact B.
Qed.

Lemma flagged_dup_ok pre b : dup_ok b -> dup_ok (flagged pre b).
Proof.
  intros H. destruct b as [h t k f|h k v|? ?|? ?|? ?|? ?|? ? ?|? ? ? ?|? ? ?]; cbn [flagged]; try exact H.
  - destruct (first_entry k pre); [exact I | exact H].
  - destruct (first_string k pre); [exact I | exact H].
Qed.
Lemma flag_all_dup_ok bs : forall pre, Forall dup_ok bs -> Forall dup_ok (flag_all pre bs).
Proof.
  induction bs as [|b bs IH]; intros pre H; cbn [flag_all]; [constructor|].
  inversion H; subst. constructor; [apply flagged_dup_ok; assumption | apply IH; assumption].
Qed.
Theorem split_dup_ok : forall t bs, split t = Blocks bs -> Forall dup_ok bs.
Proof.
  intros t bs H. destruct (split_raw t) as [bs0|] eqn:E.
  - rewrite (split_is_flagged t bs0 E) in H. inversion H; subst.
    apply flag_all_dup_ok. apply (split_raw_dup_ok t bs0 E).
  - unfold split in H. rewrite E in H. discriminate.
Qed.

(* ------------------------------------------------------------------------------------------------ *)
(* Examples (vm_compute on a concrete text)                                                         *)
(* ------------------------------------------------------------------------------------------------ *)

Definition ex_text : str :=
  lit "@a{k, x = {1}} @b{k, y = 2, y = 3, x = 4, z = 5, z = 6, y = 7} @string{k = ""s""} @c{k} @string{k = ""t""} @d{j, p = 1}"%string.
Definition blocks_of (o : outcome) : list block := match o with Blocks bs => bs | Raised => [] end.
Definition ex_raw : list block := blocks_of (split_raw ex_text).
Definition ex_out : list block := blocks_of (split ex_text).
Definition keys_in (b : block) : list str := match b with BEntry _ _ _ fs => map fkey fs | _ => [] end.

(* before Library.add: the repeated-field entry is already wrapped, the same-key blocks are still plain *)
Example ex_raw_classes : map class_of ex_raw = [CEntry; CDupField; CString; CEntry; CString; CEntry].
Proof. vm_compute. reflexivity. Qed.
(* (1)/(4): after Library.add, = flag_all; @c{k} and the second @string{k} are flagged, @b{k,...} (DupField) is
   not a duplicate KEY block and does not make @c{k} "first" either: @a{k} is *)
Example ex_rebuild_flag_all : rebuild ex_raw = flag_all [] ex_raw.
Proof. vm_compute. reflexivity. Qed.
Example ex_split_is_flagged : split ex_text = Blocks (flag_all [] ex_raw).
Proof. vm_compute. reflexivity. Qed.
Example ex_out_classes : map class_of ex_out = [CEntry; CDupField; CString; CDupKey; CDupKey; CEntry].
Proof. vm_compute. reflexivity. Qed.
(* (2) *)
Example ex_rebuild_length : List.length (rebuild ex_raw) = 6 /\ List.length ex_raw = 6.
Proof. vm_compute. split; reflexivity. Qed.
(* the wrappers expose the key, the FIRST block and the complete duplicate, at the duplicate's position *)
Example ex_dupkey_entry :
  nth 3 ex_out (BImpl hdr0 []) =
  BDupKey (mkhdr (sl (bhdr (nth 3 ex_raw (BImpl hdr0 [])))) (raw (bhdr (nth 3 ex_raw (BImpl hdr0 [])))) [])
          (lit "k") (nth 0 ex_raw (BImpl hdr0 [])) (nth 3 ex_raw (BImpl hdr0 [])).
Proof. vm_compute. reflexivity. Qed.
Example ex_dupkey_string :
  match nth 4 ex_out (BImpl hdr0 []) with
  | BDupKey _ k p d => k = lit "k" /\ p = nth 2 ex_raw (BImpl hdr0 []) /\ d = nth 4 ex_raw (BImpl hdr0 [])
  | _ => False
  end.
Proof. vm_compute. repeat split; reflexivity. Qed.
(* (3) first wins; entries and strings are separate indexes *)
Example ex_entries_dict :
  dict_get (ents (lib_of ex_raw)) (lit "k") = Some (nth 0 ex_raw (BImpl hdr0 [])) /\
  dict_get (ents (lib_of ex_raw)) (lit "k") = first_entry (lit "k") ex_raw /\
  dict_get (strs (lib_of ex_raw)) (lit "k") = Some (nth 2 ex_raw (BImpl hdr0 [])) /\
  dict_get (strs (lib_of ex_raw)) (lit "k") = first_string (lit "k") ex_raw /\
  map fst (entries_dict (lib_of ex_raw)) = [lit "k"; lit "j"] /\
  map fst (strings_dict (lib_of ex_raw)) = [lit "k"].
Proof. vm_compute. repeat split; reflexivity. Qed.
(* a key that only a duplicate-field entry has is absent; a later plain entry with that key is the live one *)
Definition ex_text2 : str := lit "@b{q, y = 2, y = 3} @c{q} @e{r, u = 1, u = 2}"%string.
Example ex_dupfield_not_registered :
  let raw := blocks_of (split_raw ex_text2) in
  map class_of (blocks_of (split ex_text2)) = [CDupField; CEntry; CDupField] /\
  dict_get (ents (lib_of raw)) (lit "q") = Some (nth 1 raw (BImpl hdr0 [])) /\
  dict_get (ents (lib_of raw)) (lit "r") = None.
Proof. vm_compute. repeat split; reflexivity. Qed.
(* (5) the duplicate-field wrapper: sorted repeated names; inner entry with every occurrence in source order *)
Example ex_dupfield_block :
  match nth 1 ex_out (BImpl hdr0 []) with
  | BDupField h ks (BEntry h' t k fs) =>
      h' = h /\ ks = [lit "y"; lit "z"] /\ t = lit "b" /\ k = lit "k" /\
      map fkey fs = [lit "y"; lit "y"; lit "x"; lit "z"; lit "z"; lit "y"] /\
      map fval fs = [VStr (lit "2"); VStr (lit "3"); VStr (lit "4"); VStr (lit "5"); VStr (lit "6"); VStr (lit "7")]
  | _ => False
  end.
Proof. vm_compute. repeat split; reflexivity. Qed.
(* the open-block record alone: fields y z y x z y with other updates interleaved *)
Definition ex_acts : list act :=
  [ASet (rv (lit " y ")) (rv (lit "1")) 3 []; AField; ASet (rv (lit "z")) [] 4 (lit "junk"); AField;
   ASet (rv (lit "y")) [] 5 []; AField; ASet (rv (lit "x")) [] 5 []; ASet (rv (lit "x")) (rv (lit "{v}")) 6 []; AField;
   ASet (rv (lit "z")) [] 7 []; AField; ASet (rv (lit "y")) [] 8 []; AField; ASet [] [] 9 []].
Example ex_ob_field :
  let o := run_acts ex_acts (ob0 0 c_at) in
  map fkey (rv (flds_rev o)) = [lit "y"; lit "z"; lit "y"; lit "x"; lit "z"; lit "y"] /\
  rv (flds_rev o) = emitted ex_acts (ob0 0 c_at) /\
  seen o = [lit "x"; lit "z"; lit "y"] /\ dups o = [lit "z"; lit "y"] /\
  has_dup (keys_of o) = true /\
  entry_block o = BDupField (hdr_of o) [lit "y"; lit "z"] (inner_entry o).
Proof. vm_compute. repeat split; reflexivity. Qed.
Example ex_sort_strs : sort_strs [lit "z"; lit "y"; lit "a"; lit "zz"] = [lit "a"; lit "y"; lit "z"; lit "zz"].
Proof. vm_compute. reflexivity. Qed.

Print Assumptions rebuild_flag_all.
Print Assumptions rebuild_length.
Print Assumptions rebuild_nth.
Print Assumptions entries_dict_first.
Print Assumptions strings_dict_first.
Print Assumptions entries_dict_view_first.
Print Assumptions strings_dict_view_first.
Print Assumptions entries_dict_value.
Print Assumptions strings_dict_value.
Print Assumptions dupfield_not_registered.
Print Assumptions entry_key_absent_iff.
Print Assumptions string_key_absent_iff.
Print Assumptions split_is_flagged.
Print Assumptions sort_strs_perm.
Print Assumptions ob_field_invariant.
Print Assumptions run_acts_fields.
Print Assumptions entry_block_spec.
Print Assumptions entry_block_dup_iff.
Print Assumptions entry_block_plain_iff.
Print Assumptions dup_keys_spec.
Print Assumptions entry_block_after_acts.
Print Assumptions split_raw_dup_ok.
Print Assumptions split_dup_ok.

(* ---- incremental parsing: adding to an existing library is adding to the concatenated block list *)
Lemma lib_add_all_app : forall a b l, lib_add_all (a ++ b) l = lib_add_all b (lib_add_all a l).
Proof. intros a b l. unfold lib_add_all. apply fold_left_app. Qed.

Lemma split_into_flag_all : forall prev t bs, split_raw t = Blocks bs ->
  split_into prev t = Blocks (flag_all [] (prev ++ bs)).
Proof.
  intros prev t bs H. unfold split_into. rewrite H. f_equal.
  rewrite <- rebuild_flag_all. unfold rebuild, lib_of. now rewrite lib_add_all_app.
Qed.

Lemma split_into_nil : forall t, split_into [] t = split t.
Proof. intros t. unfold split_into, split, rebuild, lib_of. reflexivity. Qed.
