(* C14, partition layer: re-partitioning the merged layout  "von Last[, Jr], First"  returns the same parts. *)
From Coq Require Import List NArith ZArith Bool Lia PeanoNat.
From BP Require Import Base.Chars Model.Blocks Gen.Constants Model.Names Spec.C13 Spec.C14
                       Proofs.NamesPartProofs Proofs.NamesParseProofs.
Import ListNotations.

(* the partition with the words still paired with their cases *)
Record cparts := mkcparts { c_first : list cword; c_von : list cword; c_last : list cword; c_jr : list cword }.
Definition strs (q : cparts) : parts := mkparts (map fst (c_first q)) (map fst (c_von q)) (map fst (c_last q)) (map fst (c_jr q)).

Definition partition_cw (secs : list (list cword)) : cparts :=
  match secs with
  | [] => mkcparts [] [] [] []
  | [sec] =>
      match sec with
      | [] => mkcparts [] [] [] []
      | [a] => mkcparts [] [] [a] []
      | [a; b] => mkcparts [a] [] [b] []
      | _ =>
          let f := leading (fun x => negb (is_lower x)) (removelast sec) in
          let k := Nat.max f (von_end sec) in
          mkcparts (firstn f sec) (firstn (k - f) (skipn f sec)) (skipn k sec) []
      end
  | sec0 :: rest =>
      let k := von_end sec0 in
      mkcparts (last rest []) (firstn k sec0) (skipn k sec0) (match rest with [jr; _] => jr | _ => [] end)
  end.

Lemma partition_cw_strs secs : partition_spec secs = strs (partition_cw secs).
Proof.
  destruct secs as [|sec0 [|s1 rest]]; [reflexivity| |].
  - destruct sec0 as [|a [|b [|c r]]]; reflexivity.
  - unfold partition_spec, partition_cw, strs. cbn [c_first c_von c_last c_jr]. f_equal.
    destruct rest as [|s2 [|s3 r]]; reflexivity.
Qed.

(* the sections of  merge_last_name_first:  "von Last" [, "Jr"], "First"  -- absent parts are left out *)
Definition relayout (q : cparts) : list (list cword) :=
  match c_first q, c_jr q with
  | [], [] => [c_von q ++ c_last q]
  | _, [] => [c_von q ++ c_last q; c_first q]
  | _, _ => [c_von q ++ c_last q; c_jr q; c_first q]
  end.

(* what a successful strict parse delivers: 1-3 sections, the last one non-empty when there are several *)
Definition valid_layout (secs : list (list cword)) : Prop :=
  match secs with
  | [_] => True
  | [_; f] => f <> []
  | [_; _; f] => f <> []
  | _ => False
  end.

Lemma upto_last_skip_leading {A} (p : A -> bool) l :
  upto_last p (skipn (leading (fun x => negb (p x)) l) l)
  = (Nat.max (leading (fun x => negb (p x)) l) (upto_last p l) - leading (fun x => negb (p x)) l)%nat.
Proof.
  induction l as [|x r IH]; [reflexivity|]. cbn [leading].
  destruct (p x) eqn:E; cbn [negb].
  - cbn [skipn]. lia.
  - cbn [skipn]. rewrite IH. cbn [upto_last]. rewrite E.
    destruct (upto_last p r); lia.
Qed.

Lemma removelast_skipn {A} (l : list A) n : (n < length l)%nat -> removelast (skipn n l) = skipn n (removelast l).
Proof.
  revert n. induction l as [|x l IH]; intros n H; [simpl in H; lia|].
  destruct n as [|n]; [reflexivity|].
  destruct l as [|y l]; [simpl in H; lia|].
  change (removelast (x :: y :: l)) with (x :: removelast (y :: l)). cbn [skipn]. apply IH. simpl in *. lia.
Qed.

Lemma repartition_form1 (sec : list cword) : (3 <= length sec)%nat ->
  let f := leading (fun x => negb (is_lower x)) (removelast sec) in
  let k := Nat.max f (von_end sec) in
  von_end (skipn f sec) = (k - f)%nat /\ (f <= k)%nat /\ (k < length sec)%nat.
Proof.
  intros Hn f k.
  assert (Hf : (f <= length (removelast sec))%nat) by apply leading_le.
  rewrite removelast_length in Hf.
  assert (Hv : (von_end sec < length sec)%nat) by (apply von_end_lt; destruct sec; [simpl in Hn; lia | discriminate]).
  repeat split; try (unfold k; lia).
  unfold von_end at 1. rewrite removelast_skipn by lia.
  unfold k, von_end, f. apply upto_last_skip_leading.
Qed.

Lemma repartition secs : valid_layout secs -> c_last (partition_cw secs) <> [] ->
  partition_cw (relayout (partition_cw secs)) = partition_cw secs.
Proof.
  intros HV HL.
  destruct secs as [|sec0 [|s1 [|s2 [|s3 rest]]]]; try contradiction.
  - (* one section *)
    destruct sec0 as [|a [|b [|c r]]]; try reflexivity.
    set (sec := a :: b :: c :: r) in *.
    destruct (repartition_form1 sec ltac:(simpl; lia)) as (E1 & Hfk & Hk). cbv zeta in E1, Hfk, Hk.
    change (partition_cw [sec]) with
      (let f := leading (fun x => negb (is_lower x)) (removelast sec) in
       let k := Nat.max f (von_end sec) in
       mkcparts (firstn f sec) (firstn (k - f) (skipn f sec)) (skipn k sec) []) in *.
    cbv zeta in *.
    remember (leading (fun x => negb (is_lower x)) (removelast sec)) as f eqn:Ef.
    remember (Nat.max f (von_end sec)) as k eqn:Ek.
    unfold relayout. cbn [c_first c_von c_last c_jr].
    assert (Evl : firstn (k - f) (skipn f sec) ++ skipn k sec = skipn f sec).
    { replace (skipn k sec) with (skipn (k - f) (skipn f sec)) by (rewrite skipn_add; f_equal; lia). apply firstn_skipn. }
    rewrite Evl.
    destruct (firstn f sec) as [|x0 F] eqn:EF.
    + (* First is empty: the merged text is the same single section *)
      assert (f = 0)%nat as Hf0.
      { destruct f; [reflexivity|]. simpl in EF. discriminate. }
      rewrite Hf0 in *. cbn [skipn].
      change (partition_cw [sec]) with
        (let f := leading (fun x => negb (is_lower x)) (removelast sec) in
         let k := Nat.max f (von_end sec) in
         mkcparts (firstn f sec) (firstn (k - f) (skipn f sec)) (skipn k sec) []).
      cbv zeta. rewrite <- Ef. rewrite <- Ek. cbn [firstn skipn]. reflexivity.
    + (* "von Last, First" *)
      change (partition_cw [skipn f sec; x0 :: F]) with
        (mkcparts (x0 :: F) (firstn (von_end (skipn f sec)) (skipn f sec)) (skipn (von_end (skipn f sec)) (skipn f sec)) []).
      rewrite E1. rewrite skipn_add. replace (k - f + f)%nat with k by lia. reflexivity.
  - (* von Last, First *)
    cbn [valid_layout] in HV.
    change (partition_cw [sec0; s1]) with (mkcparts s1 (firstn (von_end sec0) sec0) (skipn (von_end sec0) sec0) []).
    unfold relayout. cbn [c_first c_von c_last c_jr]. rewrite firstn_skipn.
    destruct s1 as [|x s1]; [contradiction|]. reflexivity.
  - (* von Last, Jr, First *)
    cbn [valid_layout] in HV.
    change (partition_cw [sec0; s1; s2]) with (mkcparts s2 (firstn (von_end sec0) sec0) (skipn (von_end sec0) sec0) s1).
    unfold relayout. cbn [c_first c_von c_last c_jr]. rewrite firstn_skipn.
    destruct s2 as [|x s2]; [contradiction|].
    destruct s1 as [|y s1]; reflexivity.
Qed.
