(* C14, the loop through writer and parser: when do the words of a valid name have balanced braces in the SPLITTER's
   reading?  names.py tokenises a name into escape pairs and single characters (Spec/C13: atoms); a word of a valid name
   is a balanced atom list.  The splitter reads a brace as escaped iff the character before it is a backslash.  The two
   readings differ exactly at a brace that follows the pair "\\"; without two adjacent backslashes they agree. *)
From Coq Require Import List NArith ZArith Bool Lia.
From BP Require Import Base.Chars Model.Blocks Gen.Constants Model.Names Spec.C12 Spec.C13 Spec.C14 Spec.C14Stack
  Proofs.NamesPartProofs Proofs.NamesParseProofs Proofs.NamesTokProofs Proofs.NamesInverseProofs Proofs.NamesRoundTripProofs.
Import ListNotations.

Lemma ndb_tail c t : no_double_bs (c :: t) = true -> no_double_bs t = true.
Proof. cbn [no_double_bs]. intros H. apply andb_true_iff in H. apply H. Qed.

Definition no_pair_bs (w : list atom) : Prop := Forall (fun a => a <> APair c_bs) w.

Lemma ndb_atoms w : no_double_bs (text w) = true -> no_pair_bs w.
Proof.
  induction w as [|a r IH]; intros H; constructor.
  - intros ->. rewrite text_cons in H. cbn [atom_text app no_double_bs] in H. rewrite !N.eqb_refl in H. discriminate.
  - apply IH. rewrite text_cons in H. destruct a; cbn [atom_text app] in H.
    + apply ndb_tail in H. apply ndb_tail in H. exact H.
    + apply ndb_tail in H. exact H.
Qed.

Definition after_bs_ok (w : list atom) : Prop :=
  match w with [] => True | AChar e :: _ => ws_parse e = true | APair _ :: _ => False end.

Lemma ws_not_brace c : ws_parse c = true -> (c =? c_lb)%N = false /\ (c =? c_rb)%N = false.
Proof.
  intros H. split.
  - destruct (c =? c_lb)%N eqn:E; [|reflexivity]. apply N.eqb_eq in E. subst c. vm_compute in H. discriminate.
  - destruct (c =? c_rb)%N eqn:E; [|reflexivity]. apply N.eqb_eq in E. subst c. vm_compute in H. discriminate.
Qed.

(* a canonical, balanced atom list without the pair "\\" is balanced for the splitter *)
Lemma atoms_bscan w : forall (d : N) pb, wfa w -> no_pair_bs w -> (pb = true -> after_bs_ok w) ->
  balanced_from w d = true -> exists pb', bscan pb (N.to_nat d) (text w) = Some (pb', 0%nat).
Proof.
  induction w as [|a r IH]; intros d pb W NP Hpb B.
  - cbn [balanced_from] in B. apply N.eqb_eq in B. subst d. exists pb. reflexivity.
  - inversion NP as [|? ? Na NPr]; subst. rewrite text_cons. destruct a as [c|c].
    + (* an escape pair *)
      destruct W as [_ Wr]. cbn [balanced_from is_open is_close] in B.
      assert (Ec : (c =? c_bs)%N = false) by (apply N.eqb_neq; intros ->; apply Na; reflexivity).
      destruct (IH d false Wr NPr (fun X => match Bool.diff_false_true X with end) B) as (pb' & E).
      exists pb'. cbn [atom_text app bscan].
      change (c_bs =? c_lb)%N with false. change (c_bs =? c_rb)%N with false. rewrite !andb_false_r.
      rewrite N.eqb_refl. cbn [negb andb]. rewrite Ec. exact E.
    + (* a single character *)
      destruct W as [Wc Wr]. cbn [atom_text app]. cbn [balanced_from is_open is_close] in B. unfold ceq in B, Wc.
      destruct (c =? c_lb)%N eqn:El.
      * assert (pb = false).
        { destruct pb; [|reflexivity]. specialize (Hpb eq_refl). cbn [after_bs_ok] in Hpb.
          destruct (ws_not_brace c Hpb) as [X _]. congruence. }
        subst pb. destruct (IH (d + 1)%N false Wr NPr (fun X => match Bool.diff_false_true X with end) B) as (pb' & E).
        exists pb'. cbn [bscan negb andb]. rewrite El. replace (S (N.to_nat d)) with (N.to_nat (d + 1)) by lia. exact E.
      * destruct (c =? c_rb)%N eqn:Er.
        -- assert (pb = false).
           { destruct pb; [|reflexivity]. specialize (Hpb eq_refl). cbn [after_bs_ok] in Hpb.
             destruct (ws_not_brace c Hpb) as [_ X]. congruence. }
           subst pb. destruct (d =? 0)%N eqn:Ed; [discriminate|]. apply N.eqb_neq in Ed.
           destruct (IH (N.pred d) false Wr NPr (fun X => match Bool.diff_false_true X with end) B) as (pb' & E).
           exists pb'. cbn [bscan negb andb]. rewrite El, Er.
           replace (N.to_nat d) with (S (N.to_nat (N.pred d))) by lia. exact E.
        -- destruct (IH d (c =? c_bs)%N Wr NPr) as (pb' & E); [| exact B |].
           { intros X. specialize (Wc X). destruct r as [|[e|e] r']; cbn [after_bs_ok]; [exact I | contradiction | exact Wc]. }
           exists pb'. cbn [bscan]. rewrite El, Er, !andb_false_r. exact E.
Qed.

(* every word of a valid name is the text of a good atom list *)
Lemma words_of_valid s p : spec_parse s = Some p -> Forall (fun t => exists w, t = text w /\ good w) (all_words p).
Proof.
  intros Hs. unfold spec_parse in Hs. destruct (invalid_name s) eqn:Einv; [discriminate|].
  unfold invalid_name in Einv. apply orb_false_iff in Einv. destruct Einv as [Einv _].
  apply orb_false_iff in Einv. destruct Einv as [Eunb _].
  assert (Hbal : balanced (atoms s) = true) by (unfold unbalanced in Eunb; destruct (balanced (atoms s)); [reflexivity | discriminate]).
  destruct (forallb is_nil (name_sections s)); inversion Hs; subst; [constructor|].
  rewrite partition_cw_strs. set (X := name_sections s).
  assert (HgX : Forall (Forall (fun x : cword => exists w, fst x = text w /\ good w)) X).
  { unfold X. rewrite name_sections_asecs. apply Forall_map. eapply Forall_impl; [|apply (asecs_good s Hbal)].
    intros sec Hsec. apply Forall_map. eapply Forall_impl; [|exact Hsec]. intros w Hw. exists w. split; [reflexivity | exact Hw]. }
  destruct (parts_Forall _ X HgX) as (G1 & G2 & G3 & G4).
  unfold all_words, NamesInverseProofs.strs. cbn [n_first n_von n_last n_jr].
  repeat (apply Forall_app; split); apply Forall_map; assumption.
Qed.

(* DERIVED: in a valid name, a word without two adjacent backslashes is balanced for the splitter *)
Theorem valid_words_brace_ok s p : parse_name true s = POk p ->
  Forall (fun t => no_double_bs t = true) (all_words p) -> Forall (fun t => word_brace_ok t = true) (all_words p).
Proof.
  intros Hs Hn. apply (proj1 (tokeniser_agreement s)) in Hs. pose proof (words_of_valid s p Hs) as Hw.
  apply Forall_forall. intros t Ht. rewrite Forall_forall in Hn, Hw. specialize (Hn t Ht). destruct (Hw t Ht) as (w & -> & G).
  destruct G as [_ Wf Hsc _]. pose proof (scan_balanced _ _ Hsc) as B.
  destruct (atoms_bscan w 0%N false Wf (ndb_atoms w Hn) (fun X => match Bool.diff_false_true X with end) B) as (pb' & E).
  unfold word_brace_ok. change (N.to_nat 0) with 0%nat in E. rewrite E. reflexivity.
Qed.
