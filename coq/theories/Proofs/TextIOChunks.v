(* open() decodes a file in CHUNKS (io.TextIOWrapper reads 8192 bytes at a time and feeds an incremental decoder); Model/TextIO.v
   decodes the whole file at once.  These lemmas are why that is the same thing: decoding is compositional at character
   boundaries, newline translation is compositional wherever the cut does not follow a carriage return - the one place where
   CPython's IncrementalNewlineDecoder keeps a pending character, exactly for this reason. *)
From Coq Require Import List ZArith Bool Lia ZifyBool.
Import ListNotations.
From BP Require Import Model.TextIO Proofs.TextIOProofs.
Local Open Scope Z_scope.

Lemma utf8_decode_encoded_app s a b : utf8_encode s = Some a ->
  utf8_decode (a ++ b) = option_map (app s) (utf8_decode b).
Proof.
  revert a. induction s as [|c s IH]; intros a H; cbn [utf8_encode] in H.
  - injection H as <-. cbn [app]. destruct (utf8_decode b); reflexivity.
  - destruct (scalar c) eqn:Hs; [|discriminate]. destruct (utf8_encode s) as [a'|] eqn:E; [|discriminate].
    cbn [option_map] in H. injection H as <-. rewrite <- app_assoc. rewrite utf8_dec_enc_cp by exact Hs.
    rewrite (IH a' eq_refl). destruct (utf8_decode b); reflexivity.
Qed.

(* a file cut at a character boundary: decoding the pieces one after the other is decoding the file *)
Theorem utf8_decode_app a b s : utf8_decode a = Some s ->
  utf8_decode (a ++ b) = option_map (app s) (utf8_decode b).
Proof. intro H. apply utf8_decode_encoded_app. apply utf8_canonical. exact H. Qed.

Corollary utf8_decode_app_some a b s t : utf8_decode a = Some s -> utf8_decode b = Some t -> utf8_decode (a ++ b) = Some (s ++ t).
Proof. intros Ha Hb. rewrite (utf8_decode_app a b s Ha), Hb. reflexivity. Qed.

(* an error in a later piece is an error of the file, and an error of the file after a good piece is in the later piece *)
Corollary utf8_decode_app_none a b s : utf8_decode a = Some s -> (utf8_decode (a ++ b) = None <-> utf8_decode b = None).
Proof. intro Ha. rewrite (utf8_decode_app a b s Ha). destruct (utf8_decode b); cbn; split; congruence. Qed.

(* universal newlines: compositional wherever the first piece does not end in a carriage return *)
Definition ends_in_cr (s : list Z) : bool := match rev s with 13 :: _ => true | _ => false end.

Lemma ends_in_cr_cons (c : Z) a : a <> [] -> ends_in_cr (c :: a) = ends_in_cr a.
Proof.
  intro Hn. unfold ends_in_cr. cbn [rev]. destruct (rev a) as [|x r] eqn:E.
  - exfalso. apply Hn. apply (f_equal (@rev Z)) in E. rewrite rev_involutive in E. exact E.
  - reflexivity.
Qed.

Theorem nl_read_app a b : ends_in_cr a = false -> nl_read (a ++ b) = nl_read a ++ nl_read b.
Proof.
  induction a as [a IH] using list_len_ind. intro H.
  destruct a as [|c r]; [reflexivity|].
  destruct (Z.eq_dec c 13) as [->|N].
  - destruct r as [|d r'].
    + discriminate H.
    + rewrite ends_in_cr_cons in H by discriminate.
      cbn [app]. rewrite !nl_read_cr.
      destruct (Z.eq_dec d 10) as [->|Nd].
      * destruct r' as [|e r''].
        -- cbn [app nl_read]. reflexivity.
        -- rewrite ends_in_cr_cons in H by discriminate.
           cbn [app]. cbn [app]. f_equal. apply (IH (e :: r'')); [cbn [length]; lia | exact H].
      * assert (E1 : forall t, match d :: t with 10 :: r0 => nl_read r0 | _ => nl_read (d :: t) end = nl_read (d :: t)).
        { intro t. destruct d as [|p|p]; try reflexivity. do 4 (destruct p as [p|p|]; try reflexivity). exfalso. apply Nd. reflexivity. }
        cbn [app]. rewrite (E1 (r' ++ b)), (E1 r'). cbn [app]. f_equal.
        apply (IH (d :: r')); [cbn [length]; lia | exact H].
  - destruct r as [|d r'].
    + cbn [app]. rewrite (nl_read_cons c b N), (nl_read_cons c [] N). reflexivity.
    + rewrite ends_in_cr_cons in H by discriminate.
      cbn [app]. rewrite (nl_read_cons c (d :: r' ++ b) N), (nl_read_cons c (d :: r') N). cbn [app]. f_equal.
      apply (IH (d :: r')); [cbn [length]; lia | exact H].
Qed.

(* and NOT where it does: a CR LF pair cut in the middle *)
Theorem nl_read_app_refuted_at_cr : nl_read ([97; 13] ++ [10; 98]) <> nl_read [97; 13] ++ nl_read [10; 98].
Proof. vm_compute. discriminate. Qed.

(* the whole text layer, cut at a character boundary that does not follow a carriage return *)
Theorem read_text_utf8_app a b s t : utf8_decode a = Some s -> utf8_decode b = Some t -> ends_in_cr s = false ->
  read_text Utf8 (a ++ b) = option_map (app (nl_read s)) (read_text Utf8 b).
Proof.
  intros Ha Hb Hc. unfold read_text. cbn [decode]. rewrite (utf8_decode_app_some a b s t Ha Hb), Hb. cbn [option_map].
  rewrite (nl_read_app s t Hc). reflexivity.
Qed.

(* writing in pieces: a text handed to file.write in several pieces arrives as the encoding of the whole text - for utf-8 and
   latin-1 piece by piece, for utf-16 at the level of code units (the byte order mark is written once, at the start of the
   stream: CPython's incremental encoder keeps that bit of state, the model encodes the whole text) *)
Definition oapp (x y : option (list Z)) : option (list Z) :=
  match x, y with Some a, Some b => Some (a ++ b) | _, _ => None end.

Theorem utf8_encode_app s t : utf8_encode (s ++ t) = oapp (utf8_encode s) (utf8_encode t).
Proof.
  induction s as [|c s IH]; cbn [app utf8_encode].
  - destruct (utf8_encode t); reflexivity.
  - destruct (scalar c); [|reflexivity]. rewrite IH.
    destruct (utf8_encode s), (utf8_encode t); cbn [option_map oapp]; try reflexivity. rewrite app_assoc. reflexivity.
Qed.

Theorem units_encode_app s t : units_encode (s ++ t) = oapp (units_encode s) (units_encode t).
Proof.
  induction s as [|c s IH]; cbn [app units_encode].
  - destruct (units_encode t); reflexivity.
  - destruct (scalar c); [|reflexivity]. rewrite IH.
    destruct (units_encode s), (units_encode t); cbn [option_map oapp]; try reflexivity. rewrite app_assoc. reflexivity.
Qed.

Theorem latin1_encode_app s t : latin1_encode (s ++ t) = oapp (latin1_encode s) (latin1_encode t).
Proof.
  unfold latin1_encode. rewrite forallb_app.
  destruct (forallb _ s), (forallb _ t); reflexivity.
Qed.

Lemma bytes_le_app a b : bytes_le (a ++ b) = bytes_le a ++ bytes_le b.
Proof. unfold bytes_le. apply flat_map_app. Qed.

(* utf-16: one mark, then the units of the pieces one after the other *)
Theorem utf16_encode_pieces s t a b : units_encode s = Some a -> units_encode t = Some b ->
  utf16_encode (s ++ t) = Some (255 :: 254 :: bytes_le a ++ bytes_le b).
Proof.
  intros Ha Hb. unfold utf16_encode. rewrite units_encode_app, Ha, Hb. cbn [oapp option_map]. rewrite bytes_le_app. reflexivity.
Qed.
