(* C13, partition layer: the model's partition (Python slices with negative indices) equals the readable
   partition_spec on every list of sections; consequences (every word once, Last keeps the final word). *)
From Coq Require Import List NArith ZArith Bool Lia PeanoNat.
From BP Require Import Base.Chars Model.Blocks Gen.Constants Model.Names Spec.C13.
Import ListNotations.

(* ---------------------------------------------------------------- Python slices *)
Section Slices.
Context {T : Type}.
Implicit Types l : list T.

Lemma firstn_min l i : firstn (Nat.min (length l) i) l = firstn i l.
Proof.
  destruct (Nat.le_gt_cases i (length l)) as [H|H].
  - rewrite Nat.min_r by exact H. reflexivity.
  - rewrite Nat.min_l by lia. rewrite firstn_all. rewrite firstn_all2 by lia. reflexivity.
Qed.
Lemma skipn_min l i : skipn (Nat.min (length l) i) l = skipn i l.
Proof.
  destruct (Nat.le_gt_cases i (length l)) as [H|H].
  - rewrite Nat.min_r by exact H. reflexivity.
  - rewrite Nat.min_l by lia. rewrite skipn_all. rewrite skipn_all2 by lia. reflexivity.
Qed.

Lemma pyslice_to_pos l i : pyslice l None (Some (Z.of_nat i)) = firstn i l.
Proof.
  unfold pyslice, py_bound.
  destruct (Z.ltb_spec (Z.of_nat i) 0) as [H|H]; [lia|].
  replace (Z.to_nat (Z.max 0 (Z.min (Z.of_nat (length l)) (Z.of_nat i)) - 0)) with (Nat.min (length l) i) by lia.
  simpl skipn. apply firstn_min.
Qed.

Lemma pyslice_from_pos l i : pyslice l (Some (Z.of_nat i)) None = skipn i l.
Proof.
  unfold pyslice, py_bound.
  destruct (Z.ltb_spec (Z.of_nat i) 0) as [H|H]; [lia|].
  replace (Z.to_nat (Z.max 0 (Z.min (Z.of_nat (length l)) (Z.of_nat i)))) with (Nat.min (length l) i) by lia.
  rewrite skipn_min.
  rewrite firstn_all2; [reflexivity|].
  rewrite skipn_length. lia.
Qed.

Lemma pyslice_to_neg l i : (i < length l)%nat ->
  pyslice l None (Some (Z.of_nat i - Z.of_nat (length l))%Z) = firstn i l.
Proof.
  intros Hi. unfold pyslice, py_bound.
  destruct (Z.ltb_spec (Z.of_nat i - Z.of_nat (length l)) 0) as [H|H]; [|lia].
  replace (Z.to_nat _) with i by lia. reflexivity.
Qed.

Lemma pyslice_from_neg l i : (i < length l)%nat ->
  pyslice l (Some (Z.of_nat i - Z.of_nat (length l))%Z) None = skipn i l.
Proof.
  intros Hi. unfold pyslice, py_bound.
  destruct (Z.ltb_spec (Z.of_nat i - Z.of_nat (length l)) 0) as [H|H]; [|lia].
  replace (Z.to_nat (Z.max 0 (Z.min (Z.of_nat (length l)) (Z.of_nat i - Z.of_nat (length l) + Z.of_nat (length l))))) with i by lia.
  rewrite firstn_all2; [reflexivity|]. rewrite skipn_length. lia.
Qed.

Lemma pyslice_mid_neg l i j : (i < length l)%nat -> (j < length l)%nat ->
  pyslice l (Some (Z.of_nat i - Z.of_nat (length l))%Z) (Some (Z.of_nat j - Z.of_nat (length l))%Z)
  = firstn (j - i) (skipn i l).
Proof.
  intros Hi Hj. unfold pyslice, py_bound.
  destruct (Z.ltb_spec (Z.of_nat i - Z.of_nat (length l)) 0) as [H|H]; [|lia].
  destruct (Z.ltb_spec (Z.of_nat j - Z.of_nat (length l)) 0) as [H'|H']; [|lia].
  replace (Z.to_nat (Z.max 0 (Z.min (Z.of_nat (length l)) (Z.of_nat i - Z.of_nat (length l) + Z.of_nat (length l))))) with i by lia.
  replace (Z.to_nat _) with (j - i)%nat by lia. reflexivity.
Qed.
End Slices.

(* ---------------------------------------------------------------- index / rindex on the case lists *)
Definition isz (c : Z) : bool := (c =? 0)%Z.
Definition lead (cs : list Z) : nat := leading (fun c => negb (isz c)) cs.
Definition upl (cs : list Z) : nat := upto_last isz cs.

Lemma has0_cons x r : has0 (x :: r) = isz x || has0 r.
Proof. unfold has0, isz. cbn [existsb]. rewrite (Z.eqb_sym 0 x). reflexivity. Qed.
Lemma has0_app a b : has0 (a ++ b) = has0 a || has0 b.
Proof. unfold has0. apply existsb_app. Qed.
Lemma has0_rev a : has0 (rev a) = has0 a.
Proof.
  induction a as [|x a IH]; [reflexivity|]. simpl rev. rewrite has0_app, IH, !has0_cons.
  change (has0 []) with false. rewrite orb_false_r. apply orb_comm.
Qed.
Lemma index0_cons x r : index0 (x :: r) = if isz x then 0%Z else (1 + index0 r)%Z.
Proof. reflexivity. Qed.
Lemma lead_cons x r : lead (x :: r) = if isz x then 0%nat else S (lead r).
Proof. unfold lead. cbn [leading]. destruct (isz x); reflexivity. Qed.
Lemma upl_cons x r : upl (x :: r) = match upl r with O => if isz x then 1%nat else 0%nat | S k => S (S k) end.
Proof. reflexivity. Qed.
Global Opaque has0 index0 lead upl.

Lemma index0_lead cs : has0 cs = true -> index0 cs = Z.of_nat (lead cs) /\ (lead cs < length cs)%nat.
Proof.
  induction cs as [|x r IH]; [discriminate|]. rewrite has0_cons, index0_cons, lead_cons. intros H.
  destruct (isz x); cbn [orb length] in *.
  - split; [reflexivity | lia].
  - destruct (IH H) as [I1 I2]. rewrite I1. split; lia.
Qed.

Lemma lead_all cs : has0 cs = false -> lead cs = length cs.
Proof.
  induction cs as [|x r IH]; [reflexivity|]. rewrite has0_cons, lead_cons. intros H.
  destruct (isz x); [discriminate|]. cbn [orb length] in *. rewrite IH by exact H. reflexivity.
Qed.

Lemma upl_none cs : has0 cs = false -> upl cs = 0%nat.
Proof.
  induction cs as [|x r IH]; [reflexivity|]. rewrite has0_cons, upl_cons. intros H.
  destruct (isz x); [discriminate|]. cbn [orb] in H. rewrite IH by exact H. reflexivity.
Qed.

Lemma upl_some cs : has0 cs = true -> (1 <= upl cs <= length cs)%nat.
Proof.
  induction cs as [|x r IH]; [discriminate|]. rewrite has0_cons, upl_cons. intros H. simpl length.
  destruct (has0 r) eqn:Hr.
  - specialize (IH eq_refl). destruct (upl r); lia.
  - rewrite (upl_none r Hr). rewrite orb_false_r in H. rewrite H. lia.
Qed.

Lemma index0_app a b : index0 (a ++ b) = if has0 a then index0 a else (Z.of_nat (length a) + index0 b)%Z.
Proof.
  induction a as [|x a IH]; [reflexivity|]. rewrite <- app_comm_cons, !index0_cons, has0_cons, IH.
  destruct (isz x); [reflexivity|]. simpl orb. destruct (has0 a); [reflexivity|]. simpl length. lia.
Qed.

Lemma index0_rev cs : has0 cs = true -> index0 (rev cs) = Z.of_nat (length cs - upl cs).
Proof.
  induction cs as [|x r IH]; [discriminate|]. rewrite has0_cons. intros H. simpl rev.
  rewrite index0_app, has0_rev, upl_cons. simpl length.
  destruct (has0 r) eqn:Hr.
  - rewrite IH by reflexivity. pose proof (upl_some r Hr) as U. destruct (upl r); [lia|]. f_equal.
  - rewrite (upl_none r Hr). rewrite orb_false_r in H. rewrite H.
    rewrite rev_length, index0_cons, H. lia.
Qed.

Lemma lead_lt_upl cs : has0 cs = true -> (lead cs < upl cs)%nat.
Proof.
  induction cs as [|x r IH]; [discriminate|]. rewrite has0_cons, lead_cons, upl_cons. intros H.
  destruct (isz x); cbn [orb length] in *.
  - destruct (upl r); lia.
  - specialize (IH H). destruct (upl r); lia.
Qed.

Lemma lead_snoc body x : lead (body ++ [x]) = if has0 body then lead body else (length body + (if isz x then 0 else 1))%nat.
Proof.
  induction body as [|y b IH].
  - simpl app. rewrite lead_cons. destruct (isz x); reflexivity.
  - rewrite <- app_comm_cons, !lead_cons, has0_cons, IH. destruct (isz y); [reflexivity|]. simpl orb.
    destruct (has0 b); simpl length; lia.
Qed.

(* ---------------------------------------------------------------- words paired with their case *)
Definition zw := (str * Z)%type.
Definition c2w (z : Z) : wcase := if (z =? 0)%Z then Lower else if (z =? 1)%Z then Upper else Caseless.
Definition cw (x : zw) : cword := (fst x, c2w (snd x)).

Lemma is_lower_cw x : is_lower (cw x) = isz (snd x).
Proof. unfold is_lower, cw, c2w, isz. simpl. destruct (snd x =? 0)%Z; [reflexivity|]. destruct (snd x =? 1)%Z; reflexivity. Qed.

Lemma leading_map {A B} (f : A -> B) p l : leading p (map f l) = leading (fun x => p (f x)) l.
Proof. induction l as [|x l IH]; simpl; [reflexivity|]. destruct (p (f x)); [rewrite IH|]; reflexivity. Qed.
Lemma upto_last_map {A B} (f : A -> B) p l : upto_last p (map f l) = upto_last (fun x => p (f x)) l.
Proof. induction l as [|x l IH]; simpl; [reflexivity|]. rewrite IH. reflexivity. Qed.
Lemma leading_ext {A} (p q : A -> bool) l : (forall x, p x = q x) -> leading p l = leading q l.
Proof. intros E. induction l as [|x l IH]; simpl; [reflexivity|]. rewrite E, IH. reflexivity. Qed.
Lemma upto_last_ext {A} (p q : A -> bool) l : (forall x, p x = q x) -> upto_last p l = upto_last q l.
Proof. intros E. induction l as [|x l IH]; simpl; [reflexivity|]. rewrite E, IH. reflexivity. Qed.

Lemma removelast_map {A B} (f : A -> B) l : removelast (map f l) = map f (removelast l).
Proof.
  induction l as [|x l IH]; [reflexivity|]. destruct l as [|y l]; [reflexivity|].
  change (removelast (map f (x :: y :: l))) with (f x :: removelast (map f (y :: l))).
  rewrite IH. reflexivity.
Qed.

Lemma lead_spec (sec : list zw) : leading (fun x => negb (is_lower x)) (map cw sec) = lead (map snd sec).
Proof.
  Transparent lead. unfold lead. Opaque lead. rewrite !leading_map. apply leading_ext. intros x. rewrite is_lower_cw. reflexivity.
Qed.
Lemma upl_spec (sec : list zw) : upto_last is_lower (map cw sec) = upl (map snd sec).
Proof.
  Transparent upl. unfold upl. Opaque upl. rewrite !upto_last_map. apply upto_last_ext. intros x. apply is_lower_cw.
Qed.

Lemma map_fst_cw (l : list zw) : map fst (map cw l) = map fst l.
Proof. rewrite map_map. reflexivity. Qed.

Lemma von_end_spec (sec : list zw) : von_end (map cw sec) = upl (map snd (removelast sec)).
Proof. unfold von_end. rewrite removelast_map. apply upl_spec. Qed.

Lemma removelast_length {A} (l : list A) : length (removelast l) = pred (length l).
Proof.
  induction l as [|x l IH]; [reflexivity|]. destruct l as [|y l]; [reflexivity|].
  change (removelast (x :: y :: l)) with (x :: removelast (y :: l)).
  change (length (x :: removelast (y :: l))) with (S (length (removelast (y :: l)))). rewrite IH. reflexivity.
Qed.

(* ---------------------------------------------------------------- Form 1, three or more words *)
Definition model_form1 (p0 : list str) (cs : list Z) : parts :=
  if has0 cs then
    let firstl := (index0 cs - Z.of_nat (length cs))%Z in
    let lastl := if has0 (pyslice cs None (Some (-1)%Z))
                 then (- index0 (rev (pyslice cs None (Some (-1)%Z))) - 2)%Z
                 else (-2)%Z in
    mkparts (pyslice p0 None (Some firstl)) (pyslice p0 (Some firstl) (Some (lastl + 1)%Z))
            (pyslice p0 (Some (lastl + 1)%Z) None) []
  else mkparts (pyslice p0 None (Some (-1)%Z)) [] (pyslice p0 (Some (-1)%Z) None) [].

Definition spec_form1 (sec : list cword) : parts :=
  let f := leading (fun x => negb (is_lower x)) (removelast sec) in
  let k := Nat.max f (von_end sec) in
  mkparts (map fst (firstn f sec)) (map fst (firstn (k - f) (skipn f sec))) (map fst (skipn k sec)) [].

Lemma map_firstn_cw n (l : list zw) : map fst (firstn n (map cw l)) = firstn n (map fst l).
Proof. rewrite firstn_map, map_fst_cw. symmetry. apply firstn_map. Qed.
Lemma map_skipn_cw n (l : list zw) : map fst (skipn n (map cw l)) = skipn n (map fst l).
Proof. rewrite skipn_map, map_fst_cw. symmetry. apply skipn_map. Qed.

Lemma map_firstn_skipn_cw a b (l : list zw) : map fst (firstn a (skipn b (map cw l))) = firstn a (skipn b (map fst l)).
Proof. rewrite skipn_map, firstn_map, map_fst_cw, <- firstn_map, <- skipn_map. reflexivity. Qed.

Lemma m1_as_neg n : (1 <= n)%nat -> (-1)%Z = (Z.of_nat (n - 1) - Z.of_nat n)%Z.
Proof. lia. Qed.

Lemma form1_eq (bz : list zw) (lz : zw) :
  model_form1 (map fst (bz ++ [lz])) (map snd (bz ++ [lz])) = spec_form1 (map cw (bz ++ [lz])).
Proof.
  set (sec := bz ++ [lz]).
  set (ws := map fst sec). set (cs := map snd sec). set (cb := map snd bz).
  assert (Hn : length sec = S (length bz)) by (unfold sec; rewrite app_length; simpl; lia).
  assert (Hws : length ws = S (length bz)) by (unfold ws; rewrite map_length; exact Hn).
  assert (Hcs : length cs = S (length bz)) by (unfold cs; rewrite map_length; exact Hn).
  assert (Hcb : length cb = length bz) by (unfold cb; apply map_length).
  assert (Ecs : cs = cb ++ [snd lz]) by (unfold cs, cb, sec; rewrite map_app; reflexivity).
  assert (Ebody : pyslice cs None (Some (-1)%Z) = cb).
  { rewrite (m1_as_neg (length cs)) by lia. rewrite pyslice_to_neg by lia.
    rewrite Ecs. rewrite app_length. simpl length. replace (length cb + 1 - 1)%nat with (length cb + 0)%nat by lia.
    rewrite firstn_app_2. simpl. apply app_nil_r. }
  (* the spec side *)
  unfold spec_form1.
  assert (Ermv : removelast sec = bz) by (unfold sec; apply removelast_last).
  rewrite removelast_map, lead_spec, von_end_spec, Ermv. fold cb.
  rewrite map_firstn_cw, map_firstn_skipn_cw, map_skipn_cw. fold ws.
  (* the model side *)
  unfold model_form1. rewrite Ebody.
  destruct (has0 cs) eqn:H0.
  - destruct (index0_lead cs H0) as [I1 I2]. rewrite I1.
    destruct (has0 cb) eqn:Hb.
    + rewrite index0_rev by exact Hb.
      pose proof (upl_some cb Hb) as U. pose proof (lead_lt_upl cb Hb) as LU.
      assert (El : lead cs = lead cb) by (rewrite Ecs, lead_snoc, Hb; reflexivity).
      rewrite El in *.
      replace (- Z.of_nat (length cb - upl cb) - 2 + 1)%Z with (Z.of_nat (upl cb) - Z.of_nat (length ws))%Z by lia.
      rewrite Hcs, <- Hws.
      rewrite pyslice_to_neg, pyslice_mid_neg, pyslice_from_neg by lia.
      rewrite Nat.max_r by lia. reflexivity.
    + assert (El : lead cs = length cb).
      { rewrite Ecs, lead_snoc, Hb. rewrite Ecs, has0_app, Hb, has0_cons in H0. simpl in H0.
        rewrite orb_false_r in H0. rewrite H0. lia. }
      rewrite El in *. rewrite (lead_all cb Hb), (upl_none cb Hb).
      replace (-2 + 1)%Z with (Z.of_nat (length cb) - Z.of_nat (length ws))%Z by lia.
      rewrite Hcs, <- Hws.
      rewrite pyslice_to_neg, pyslice_mid_neg, pyslice_from_neg by lia.
      rewrite Nat.max_l by lia. reflexivity.
  - assert (Hb : has0 cb = false).
    { rewrite Ecs, has0_app in H0. apply orb_false_iff in H0. tauto. }
    rewrite (lead_all cb Hb), (upl_none cb Hb).
    replace (-1)%Z with (Z.of_nat (length cb) - Z.of_nat (length ws))%Z by lia.
    rewrite pyslice_to_neg, pyslice_from_neg by lia.
    rewrite Nat.max_l by lia. rewrite Nat.sub_diag. reflexivity.
Qed.

(* ---------------------------------------------------------------- Forms 2 and 3: the first section *)
Definition model_sec0 (s0 : list str) (lcases : list Z) : list str * list str :=
  match s0 with
  | [_] => ([], s0)
  | _ => if has0 lcases then
           let split := (rindex0 (pyslice lcases None (Some (-1)%Z)) (-1) + 1)%Z in
           (pyslice s0 None (Some split), pyslice s0 (Some split) None)
         else ([], s0)
  end.

Lemma sec0_eq (sec0 : list zw) :
  model_sec0 (map fst sec0) (map snd sec0)
  = (map fst (firstn (von_end (map cw sec0)) (map cw sec0)), map fst (skipn (von_end (map cw sec0)) (map cw sec0))).
Proof.
  rewrite von_end_spec, map_firstn_cw, map_skipn_cw.
  destruct sec0 as [|a [|b r]].
  - reflexivity.
  - reflexivity.
  - set (sec := a :: b :: r).
    assert (Hex : exists bz lz, sec = bz ++ [lz]).
    { destruct (exists_last (l := sec)) as (bz & lz & E); [discriminate|]. exists bz, lz. exact E. }
    destruct Hex as (bz & lz & E).
    assert (Hm : model_sec0 (map fst sec) (map snd sec)
                 = if has0 (map snd sec) then
                     let split := (rindex0 (pyslice (map snd sec) None (Some (-1)%Z)) (-1) + 1)%Z in
                     (pyslice (map fst sec) None (Some split), pyslice (map fst sec) (Some split) None)
                   else ([], map fst sec)) by reflexivity.
    rewrite Hm. clear Hm. rewrite E. rewrite removelast_last.
    set (cb := map snd bz). set (cs := map snd (bz ++ [lz])). set (ws := map fst (bz ++ [lz])).
    assert (Ecs : cs = cb ++ [snd lz]) by (unfold cs, cb; rewrite map_app; reflexivity).
    assert (Hcs : length cs = S (length cb)) by (rewrite Ecs, app_length; simpl; lia).
    assert (Ebody : pyslice cs None (Some (-1)%Z) = cb).
    { rewrite (m1_as_neg (length cs)) by lia. rewrite pyslice_to_neg by lia.
      rewrite Ecs. rewrite app_length. simpl length. replace (length cb + 1 - 1)%nat with (length cb + 0)%nat by lia.
      rewrite firstn_app_2. simpl. apply app_nil_r. }
    rewrite Ebody.
    assert (Hsplit : (rindex0 cb (-1) + 1)%Z = Z.of_nat (upl cb)).
    { unfold rindex0. destruct (has0 cb) eqn:Hb.
      - rewrite index0_rev by exact Hb. pose proof (upl_some cb Hb). lia.
      - rewrite (upl_none cb Hb). reflexivity. }
    destruct (has0 cs) eqn:H0.
    + cbv zeta. rewrite Hsplit. rewrite pyslice_to_pos, pyslice_from_pos. reflexivity.
    + assert (Hb : has0 cb = false).
      { rewrite Ecs, has0_app in H0. apply orb_false_iff in H0. tauto. }
      rewrite (upl_none cb Hb). reflexivity.
Qed.

(* ---------------------------------------------------------------- the whole partition *)
Definition words_nonempty (Zs : list (list zw)) : Prop := Forall (Forall (fun x : zw => fst x <> [])) Zs.

Lemma truthy_first_ok (sec : list zw) : Forall (fun x : zw => fst x <> []) sec ->
  (if truthy_first (map fst sec) then map fst sec else []) = map fst sec.
Proof.
  intros H. destruct sec as [|a r]; [reflexivity|]. inversion H as [|? ? Ha Hr]; subst.
  simpl. destruct (fst a); [contradiction|reflexivity].
Qed.

Lemma last_map {A B} (f : A -> B) l d : last (map f l) (f d) = f (last l d).
Proof. induction l as [|x l IH]; [reflexivity|]. destruct l as [|y l]; [reflexivity|]. exact IH. Qed.

Lemma partition_shape (s0 : list str) (cs0 : list Z) (pf pj : list str) :
  (let first := pf in let jr := pj in
   match s0 with
   | [_] => mkparts first [] s0 jr
   | _ => if has0 cs0 then
            let split := (rindex0 (pyslice cs0 None (Some (-1)%Z)) (-1) + 1)%Z in
            mkparts first (pyslice s0 None (Some split)) (pyslice s0 (Some split) None) jr
          else mkparts first [] s0 jr
   end) = mkparts pf (fst (model_sec0 s0 cs0)) (snd (model_sec0 s0 cs0)) pj.
Proof.
  unfold model_sec0. destruct s0 as [|a [|b r]]; simpl; try reflexivity; destruct (has0 cs0); reflexivity.
Qed.

Lemma partition_eq (Zs : list (list zw)) : words_nonempty Zs ->
  partition (map (map fst) Zs) (map (map snd) Zs) = partition_spec (map (map cw) Zs).
Proof.
  intros Hne.
  destruct Zs as [|sec0 rest].
  - reflexivity.
  - destruct rest as [|s1 rest].
    + (* Form 1 *)
      destruct sec0 as [|a [|b [|c r]]]; try reflexivity.
      set (sec := a :: b :: c :: r).
      destruct (exists_last (l := sec)) as (bz & lz & E); [discriminate|].
      change (partition (map (map fst) [sec]) (map (map snd) [sec])) with (model_form1 (map fst sec) (map snd sec)).
      change (partition_spec (map (map cw) [sec])) with (spec_form1 (map cw sec)).
      rewrite E. apply form1_eq.
    + (* Forms 2 and 3 *)
      inversion Hne as [|? ? H0 Hrest]; subst.
      assert (Hlast : Forall (fun x : zw => fst x <> []) (last (s1 :: rest) [])).
      { clear - Hrest. revert s1 Hrest. induction rest as [|s2 rest IH]; intros s1 Hrest.
        - inversion Hrest; assumption.
        - inversion Hrest; subst. apply (IH s2). assumption. }
      assert (Efirst : last (map (map fst) (sec0 :: s1 :: rest)) [] = map fst (last (s1 :: rest) [])).
      { change (@nil str) with (map (@fst str Z) []) at 1. rewrite last_map. reflexivity. }
      unfold partition.
      change (map (map fst) (sec0 :: s1 :: rest)) with (map fst sec0 :: map fst s1 :: map (map fst) rest) at 1.
      cbv iota beta.
      rewrite Efirst.
      change (nth 0 (map (map fst) (sec0 :: s1 :: rest)) []) with (map fst sec0).
      change (nth 0 (map (map snd) (sec0 :: s1 :: rest)) []) with (map snd sec0).
      rewrite partition_shape.
      rewrite sec0_eq. cbn [fst snd].
      rewrite truthy_first_ok by exact Hlast.
      unfold partition_spec. cbn [map].
      change (last (map cw s1 :: map (map cw) rest) []) with (last (map (map cw) (s1 :: rest)) (map cw [])).
      rewrite last_map, map_fst_cw.
      f_equal.
      destruct rest as [|s2 [|s3 rest]].
      * reflexivity.
      * cbn [length map Nat.eqb Nat.sub nth andb].
        inversion Hrest as [|? ? H1 Hr2]; subst.
        rewrite truthy_first_ok by exact H1. rewrite map_fst_cw. reflexivity.
      * reflexivity.
Qed.
