(* Proofs for C16: block sorting is a stable permutation by (type rank, key) keeping comment runs attached. *)
From Coq Require Import List NArith ZArith Bool Arith Lia Permutation Sorted.
From BP Require Import Base.Chars Base.StableSort Model.Blocks Model.LibRebuild Model.SortBlocks Spec.C16
  Proofs.LibRebuildProofs.
Import ListNotations.

(* ================================================================ generic *)
Lemma Permutation_concat {A} (l l' : list (list A)) : Permutation l l' -> Permutation (concat l) (concat l').
Proof.
  induction 1 as [|x l l' H IH|x y l|l l' l'' H1 IH1 H2 IH2]; cbn [concat].
  - constructor.
  - apply Permutation_app_head. exact IH.
  - rewrite !app_assoc. apply Permutation_app_tail. apply Permutation_app_comm.
  - eapply Permutation_trans; eassumption.
Qed.

Lemma filter_map_comm {A B} (f : B -> bool) (g : A -> B) l : filter f (map g l) = map g (filter (fun x => f (g x)) l).
Proof.
  induction l as [|x l IH]; [reflexivity|]. cbn [map filter]. destruct (f (g x)); cbn [map]; rewrite IH; reflexivity.
Qed.

Lemma concat_singletons {A} (l : list A) : concat (map (fun b => [b]) l) = l.
Proof. induction l as [|x l IH]; [reflexivity|]. cbn [map concat app]. rewrite IH. reflexivity. Qed.

Lemma SS_map {A B} (R : B -> B -> Prop) (f : A -> B) l :
  StronglySorted (fun x y => R (f x) (f y)) l -> StronglySorted R (map f l).
Proof.
  induction 1 as [|x l Hs IH Hall]; cbn [map]; constructor; [exact IH|].
  apply Forall_forall. intros y Hy. apply in_map_iff in Hy as (z & <- & Hz).
  rewrite Forall_forall in Hall. apply Hall. exact Hz.
Qed.

Lemma SS_impl_In {A} (R R' : A -> A -> Prop) l :
  (forall x y, In x l -> In y l -> R x y -> R' x y) -> StronglySorted R l -> StronglySorted R' l.
Proof.
  intros H Hs. induction Hs as [|x l Hs IH Hall]; constructor.
  - apply IH. intros a b Ha Hb. apply H; right; assumption.
  - rewrite Forall_forall in *. intros y Hy. apply H; [left; reflexivity | right; exact Hy | apply Hall; exact Hy].
Qed.

(* ================================================================ keys and ranks *)
Lemma type_rank_in order c : type_rank order c = rank_in (class_code c) order.
Proof.
  unfold type_rank. induction order as [|x r IH]; [reflexivity|]. cbn [index_N rank_in length].
  destruct (N.eqb (class_code c) x); [reflexivity|]. rewrite <- IH. destruct (index_N (class_code c) r); reflexivity.
Qed.

Lemma key_attr_block_key b : match key_attr b with Some k => k | None => [] end = block_key b.
Proof. destruct b; reflexivity. Qed.

Lemma comment_no_key b : is_comment b = true -> key_attr b = None /\ block_key b = [].
Proof. destruct b; intros H; try discriminate; split; reflexivity. Qed.

Lemma block_sort_key_spec order b : block_sort_key order b = blk_sort_key order b.
Proof. unfold block_sort_key, blk_sort_key, block_rank. rewrite type_rank_in, key_attr_block_key. reflexivity. Qed.

(* what "rank" means: first index if listed, length of the order if unlisted *)
Lemma rank_in_listed c order : In c order ->
  nth_error order (rank_in c order) = Some c /\ forall j, j < rank_in c order -> nth_error order j <> Some c.
Proof.
  induction order as [|x r IH]; intros Hin; [destruct Hin|]. cbn [rank_in].
  destruct (N.eqb_spec c x) as [E|E].
  - subst x. split; [reflexivity | intros j Hj; lia].
  - destruct Hin as [Hx|Hin]; [congruence|]. destruct (IH Hin) as [H1 H2]. split; [exact H1|].
    intros [|j] Hj; cbn [nth_error]; [congruence | apply H2; lia].
Qed.

Lemma rank_in_unlisted c order : ~ In c order <-> rank_in c order = length order.
Proof.
  induction order as [|x r IH]; cbn [rank_in length In]; [tauto|].
  destruct (N.eqb_spec c x) as [E|E].
  - subst x. split; [intros H; exfalso; apply H; left; reflexivity | discriminate].
  - split.
    + intros H. f_equal. apply IH. intros Hin; apply H; right; exact Hin.
    + intros H [Hx|Hin]; [congruence|]. injection H as H. apply IH in H. contradiction.
Qed.

Lemma rank_in_le c order : rank_in c order <= length order.
Proof. induction order as [|x r IH]; cbn [rank_in length]; [lia|]. destruct (N.eqb c x); lia. Qed.

Theorem rank_meaning c order :
  (In c order -> nth_error order (rank_in c order) = Some c /\ forall j, j < rank_in c order -> nth_error order j <> Some c)
  /\ (~ In c order <-> rank_in c order = length order)
  /\ rank_in c order <= length order.
Proof. split; [apply rank_in_listed | split; [apply rank_in_unlisted | apply rank_in_le]]. Qed.

(* ================================================================ junks = units *)
Definition ukey (u : list block) : str := match rev u with [] => [] | b :: _ => block_key b end.
Definition good (j : junk) : Prop := jkey j = ukey (jblocks j).

Lemma junk_key_unit order j : good j -> junk_sort_key order j = unit_sort_key order (jblocks j).
Proof.
  unfold good, junk_sort_key, junk_rank, unit_sort_key, ukey. intros H. rewrite H.
  destruct (rev (jblocks j)); [reflexivity|]. unfold block_rank. rewrite type_rank_in. reflexivity.
Qed.

Lemma ukey_comments cb : Forall comment cb -> ukey cb = [].
Proof.
  intros H. unfold ukey. destruct (rev cb) as [|b r] eqn:E; [reflexivity|].
  assert (Hin : In b cb) by (apply in_rev; rewrite E; left; reflexivity).
  rewrite Forall_forall in H. apply comment_no_key. apply H. exact Hin.
Qed.

Lemma ukey_snoc cb b : ukey (cb ++ [b]) = block_key b.
Proof. unfold ukey. rewrite rev_app_distr. reflexivity. Qed.

Lemma Forall_snoc {A} (P : A -> Prop) l x : Forall P l -> P x -> Forall P (l ++ [x]).
Proof. intros H1 H2. apply Forall_app. split; [exact H1 | constructor; [exact H2 | constructor]]. Qed.

Lemma junks_loop_good bs : forall cb, Forall comment cb -> Forall good (junks_loop [] cb bs).
Proof.
  induction bs as [|b r IH]; intros cb Hcb; cbn [junks_loop].
  - destruct cb as [|c cb']; constructor; [|constructor]. unfold good; cbn [jkey jblocks].
    symmetry. apply ukey_comments. exact Hcb.
  - destruct (is_comment b) eqn:Eb.
    + destruct (comment_no_key b Eb) as [Hk _]. rewrite Hk. apply IH. apply Forall_snoc; assumption.
    + constructor; [|apply IH; constructor]. unfold good; cbn [jkey jblocks]. rewrite ukey_snoc. apply key_attr_block_key.
Qed.

Lemma junks_good bs : Forall good (block_junks bs).
Proof. apply junks_loop_good. constructor. Qed.

Lemma junks_loop_units bs : forall ck cb, Forall comment cb -> units_of (cb ++ bs) (map jblocks (junks_loop ck cb bs)).
Proof.
  induction bs as [|b r IH]; intros ck cb Hcb; cbn [junks_loop].
  - rewrite app_nil_r. destruct cb as [|c cb']; [constructor|]. cbn [map jblocks]. apply U_trailing; [discriminate | exact Hcb].
  - destruct (is_comment b) eqn:Eb.
    + replace (cb ++ b :: r) with ((cb ++ [b]) ++ r) by (rewrite <- app_assoc; reflexivity).
      apply IH. apply Forall_snoc; assumption.
    + cbn [map jblocks]. apply U_block; [exact Hcb | exact Eb|]. apply (IH [] [] (Forall_nil _)).
Qed.

Lemma junks_units bs : units_of bs (map jblocks (block_junks bs)).
Proof. apply (junks_loop_units bs [] [] (Forall_nil _)). Qed.

Lemma units_concat bs us : units_of bs us -> concat us = bs.
Proof.
  induction 1 as [|cs Hne Hcs|cs b r us Hcs Hb Hu IH]; cbn [concat].
  - reflexivity.
  - apply app_nil_r.
  - rewrite IH, <- app_assoc. reflexivity.
Qed.

Lemma junks_concat bs : concat (map jblocks (block_junks bs)) = bs.
Proof. apply units_concat, junks_units. Qed.

(* the units of a list are determined by the list *)
Lemma comments_split cs1 : forall cs2 b1 b2 r1 r2,
  Forall comment cs1 -> Forall comment cs2 -> is_comment b1 = false -> is_comment b2 = false ->
  cs1 ++ b1 :: r1 = cs2 ++ b2 :: r2 -> cs1 = cs2 /\ b1 = b2 /\ r1 = r2.
Proof.
  induction cs1 as [|c cs1 IH]; intros cs2 b1 b2 r1 r2 H1 H2 Hb1 Hb2 E.
  - destruct cs2 as [|c2 cs2]; cbn [app] in E.
    + injection E as -> ->. auto.
    + injection E as -> _. inversion H2; subst. unfold comment in *. congruence.
  - destruct cs2 as [|c2 cs2]; cbn [app] in E.
    + injection E as -> _. inversion H1; subst. unfold comment in *. congruence.
    + injection E as -> E. inversion H1; subst. inversion H2; subst.
      destruct (IH _ _ _ _ _ H4 H6 Hb1 Hb2 E) as (-> & -> & ->). auto.
Qed.

Lemma units_of_unique bs us : units_of bs us -> forall us2, units_of bs us2 -> us = us2.
Proof.
  induction 1 as [|cs Hne Hcs|cs b r us Hcs Hb Hu IH]; intros us2 H2.
  - inversion H2 as [|cs2 Hne2 Hcs2|cs2 b2 r2 us2' Hcs2 Hb2 Hu2 E]; subst; try reflexivity.
    + congruence.
    + destruct cs2; discriminate.
  - inversion H2 as [E|cs2 Hne2 Hcs2|cs2 b2 r2 us2' Hcs2 Hb2 Hu2 E]; subst; try reflexivity.
    + congruence.
    + exfalso. rewrite Forall_forall in Hcs. assert (Hc : comment b2) by (apply Hcs; apply in_elt).
      unfold comment in Hc. congruence.
  - inversion H2 as [E|cs2 Hne2 Hcs2|cs2 b2 r2 us2' Hcs2 Hb2 Hu2 E]; subst.
    + destruct cs; discriminate.
    + exfalso. rewrite Forall_forall in Hcs2. assert (Hc : comment b) by (apply Hcs2; apply in_elt).
      unfold comment in Hc. congruence.
    + destruct (comments_split _ _ _ _ _ _ Hcs2 Hcs Hb2 Hb E) as (-> & -> & ->).
      f_equal. apply IH. exact Hu2.
Qed.

(* ================================================================ the orders *)
Lemma junk_le_total order i j : junk_le order i j = true \/ junk_le order j i = true.
Proof. apply lex_leb_total. Qed.
Lemma junk_le_trans order i j k : junk_le order i j = true -> junk_le order j k = true -> junk_le order i k = true.
Proof. apply lex_leb_trans. Qed.
Lemma block_le_total order a b : block_le order a b = true \/ block_le order b a = true.
Proof. apply lex_leb_total. Qed.
Lemma block_le_trans order a b c : block_le order a b = true -> block_le order b c = true -> block_le order a c = true.
Proof. apply lex_leb_trans. Qed.

Definition unit_leb (order : list N) (u v : list block) : bool := lex_leb (unit_sort_key order u) (unit_sort_key order v).
Lemma unit_leb_total order u v : unit_leb order u v = true \/ unit_leb order v u = true.
Proof. apply lex_leb_total. Qed.
Lemma unit_leb_trans order u v w : unit_leb order u v = true -> unit_leb order v w = true -> unit_leb order u w = true.
Proof. apply lex_leb_trans. Qed.

(* ================================================================ permutation *)
Theorem sorted_blocks_perm preserve order bs : Permutation (sorted_blocks preserve order bs) bs.
Proof.
  unfold sorted_blocks. destruct preserve; [|apply isort_perm].
  rewrite <- (junks_concat bs) at 2. apply Permutation_concat. apply Permutation_map. apply isort_perm.
Qed.

(* ================================================================ sorted and stable *)
Lemma tie_class order k u v :
  unit_tie order k u = true -> unit_tie order k v = true -> unit_leb order u v = true.
Proof.
  unfold unit_tie, unit_leb. intros H1 H2. apply andb_true_iff in H1 as [_ H1]. apply andb_true_iff in H2 as [H2 _].
  eapply lex_leb_trans; eassumption.
Qed.

Theorem sorted_blocks_spec preserve order bs : sort_spec preserve order bs (sorted_blocks preserve order bs).
Proof.
  unfold sort_spec, sorted_blocks. destruct preserve.
  - set (js := block_junks bs). set (js' := isort (junk_le order) js).
    assert (Hg : Forall good js) by apply junks_good.
    assert (Hg' : Forall good js').
    { eapply Permutation_Forall; [apply Permutation_sym, isort_perm | exact Hg]. }
    exists (map jblocks js), (map jblocks js'). split; [apply junks_units|]. split; [apply Permutation_map, isort_perm|].
    split; [reflexivity|]. split.
    + apply SS_map.
      eapply SS_impl_In; [|exact (isort_sorted _ _ (junk_le_total order) (junk_le_trans order) js)].
      intros x y Hx Hy H. rewrite Forall_forall in Hg'. unfold leP, junk_le in H. unfold unit_le.
      rewrite <- !junk_key_unit by (apply Hg'; assumption). exact H.
    + intros k. rewrite !filter_map_comm. f_equal.
      rewrite (filter_ext_In _ (fun j => lex_leb k (junk_sort_key order j) && lex_leb (junk_sort_key order j) k) js').
      2:{ intros j Hj. rewrite Forall_forall in Hg'. unfold unit_tie. rewrite <- junk_key_unit by (apply Hg'; exact Hj). reflexivity. }
      rewrite (filter_ext_In _ (fun j => lex_leb k (junk_sort_key order j) && lex_leb (junk_sort_key order j) k) js).
      2:{ intros j Hj. rewrite Forall_forall in Hg. unfold unit_tie. rewrite <- junk_key_unit by (apply Hg; exact Hj). reflexivity. }
      apply isort_stable_class. intros y z Hy Hz. apply andb_true_iff in Hy as [_ Hy]. apply andb_true_iff in Hz as [Hz _].
      unfold junk_le. eapply lex_leb_trans; eassumption.
  - set (out := isort (block_le order) bs).
    exists (map (fun b => [b]) bs), (map (fun b => [b]) out). split; [reflexivity|].
    split; [apply Permutation_map, isort_perm|]. split; [symmetry; apply concat_singletons|]. split.
    + apply SS_map. eapply SS_impl; [|exact (isort_sorted _ _ (block_le_total order) (block_le_trans order) bs)].
      intros x y H. unfold leP, block_le in H. rewrite !block_sort_key_spec in H. exact H.
    + intros k. rewrite !filter_map_comm. f_equal.
      apply isort_stable_class. intros y z Hy Hz. unfold unit_tie, unit_sort_key in Hy, Hz. cbn [rev app] in Hy, Hz.
      apply andb_true_iff in Hy as [_ Hy]. apply andb_true_iff in Hz as [Hz _].
      unfold block_le. rewrite !block_sort_key_spec. unfold blk_sort_key. eapply lex_leb_trans; eassumption.
Qed.

Theorem plain_sorted_spec order bs : plain_sort_spec order bs (sorted_blocks false order bs).
Proof.
  unfold plain_sort_spec, sorted_blocks. split; [apply isort_perm|]. split.
  - eapply SS_impl; [|exact (isort_sorted _ _ (block_le_total order) (block_le_trans order) bs)].
    intros x y H. unfold leP, block_le in H. rewrite !block_sort_key_spec in H. exact H.
  - intros k. apply isort_stable_class. intros y z Hy Hz. unfold blk_tie in Hy, Hz.
    apply andb_true_iff in Hy as [_ Hy]. apply andb_true_iff in Hz as [Hz _].
    unfold block_le. rewrite !block_sort_key_spec. eapply lex_leb_trans; eassumption.
Qed.

(* ---- the contract determines the result: any stable sort gives the model's list *)
Theorem sort_spec_unique preserve order bs out : sort_spec preserve order bs out -> out = sorted_blocks preserve order bs.
Proof.
  intros (us & us' & Hu & Hp & -> & Hs & Hf).
  destruct (sorted_blocks_spec preserve order bs) as (vs & vs' & Hv & Hq & Hout & Ht & Hg).
  rewrite Hout. f_equal.
  assert (us = vs).
  { destruct preserve; cbn [units] in Hu, Hv; [eapply units_of_unique; eassumption | congruence]. }
  subst vs.
  assert (E1 : us' = isort (unit_leb order) us).
  { apply (stable_sort_unique _ _ (unit_leb_total order) (unit_leb_trans order)). split; [exact Hp|]. split; [exact Hs|].
    intros p. apply (Hf (unit_sort_key order p)). }
  assert (E2 : vs' = isort (unit_leb order) us).
  { apply (stable_sort_unique _ _ (unit_leb_total order) (unit_leb_trans order)). split; [exact Hq|]. split; [exact Ht|].
    intros p. apply (Hg (unit_sort_key order p)). }
  congruence.
Qed.

(* ================================================================ comments stay attached *)
Lemma junks_loop_cs cs : forall ck cb b post, Forall comment cs -> is_comment b = false ->
  exists ck', junks_loop ck cb (cs ++ b :: post) = mkjunk ck' (cb ++ cs ++ [b]) :: junks_loop [] [] post.
Proof.
  induction cs as [|c cs IH]; intros ck cb b post Hcs Hb.
  - cbn [app junks_loop]. rewrite Hb. eexists. reflexivity.
  - inversion Hcs as [|? ? Hc Hcs']; subst. cbn [app junks_loop]. unfold comment in Hc. rewrite Hc.
    destruct (IH (match key_attr c with Some k => k | None => ck end) (cb ++ [c]) b post Hcs' Hb) as (ck' & E).
    exists ck'. rewrite E. rewrite <- app_assoc. reflexivity.
Qed.

Lemma junks_loop_run pre : forall ck cb cs b post, Forall comment cs -> is_comment b = false ->
  exists j cs0, In j (junks_loop ck cb (pre ++ cs ++ b :: post)) /\ jblocks j = cs0 ++ cs ++ [b].
Proof.
  induction pre as [|p pre IH]; intros ck cb cs b post Hcs Hb.
  - cbn [app]. destruct (junks_loop_cs cs ck cb b post Hcs Hb) as (ck' & E). rewrite E.
    eexists _, cb. split; [left; reflexivity | reflexivity].
  - cbn [app junks_loop]. destruct (is_comment p).
    + apply IH; assumption.
    + destruct (IH [] [] cs b post Hcs Hb) as (j & cs0 & Hin & Hj). exists j, cs0. split; [right; exact Hin | exact Hj].
Qed.

Theorem sorted_blocks_comments order bs : comments_attached bs (sorted_blocks true order bs).
Proof.
  unfold comments_attached, sorted_blocks. intros pre cs b post -> Hcs Hb.
  destruct (junks_loop_run pre [] [] cs b post Hcs Hb) as (j & cs0 & Hin & Hj).
  fold (block_junks (pre ++ cs ++ b :: post)) in Hin.
  apply (isort_In _ (junk_le order)) in Hin. apply in_split in Hin as (l1 & l2 & E). rewrite E.
  rewrite map_app, concat_app. cbn [map concat]. rewrite Hj.
  exists (concat (map jblocks l1) ++ cs0), (concat (map jblocks l2)).
  rewrite <- !app_assoc. reflexivity.
Qed.

(* ================================================================ Library(blocks=...) on the sorted list *)
Lemma lib_ok_perm bs bs' : Permutation bs' bs -> lib_ok bs -> lib_ok bs'.
Proof.
  intros Hp [He Hs]. split.
  - eapply Permutation_NoDup; [|exact He]. apply Permutation_sym. unfold entry_keys. apply Permutation_flat_map. exact Hp.
  - eapply Permutation_NoDup; [|exact Hs]. apply Permutation_sym. unfold string_keys. apply Permutation_flat_map. exact Hp.
Qed.

Theorem sort_transform_ok preserve order bs : lib_ok bs ->
  sort_transform preserve order bs = sorted_blocks preserve order bs /\ lib_ok (sort_transform preserve order bs).
Proof.
  intros H. assert (Hok : lib_ok (sorted_blocks preserve order bs)) by (eapply lib_ok_perm; [apply sorted_blocks_perm | exact H]).
  unfold sort_transform. rewrite rebuild_ok by exact Hok. split; [reflexivity | exact Hok].
Qed.

(* ================================================================ assembled statements (Properties/C16.v) *)
Theorem transform_perm preserve order bs : lib_ok bs -> Permutation (sort_transform preserve order bs) bs.
Proof. intros H. destruct (sort_transform_ok preserve order bs H) as [-> _]. apply sorted_blocks_perm. Qed.

Theorem transform_sorted preserve order bs : lib_ok bs -> sort_spec preserve order bs (sort_transform preserve order bs).
Proof. intros H. destruct (sort_transform_ok preserve order bs H) as [-> _]. apply sorted_blocks_spec. Qed.

Theorem transform_plain order bs : lib_ok bs -> plain_sort_spec order bs (sort_transform false order bs).
Proof. intros H. destruct (sort_transform_ok false order bs H) as [-> _]. apply plain_sorted_spec. Qed.

Theorem transform_comments order bs : lib_ok bs -> comments_attached bs (sort_transform true order bs).
Proof. intros H. destruct (sort_transform_ok true order bs H) as [-> _]. apply sorted_blocks_comments. Qed.

Theorem transform_unique preserve order bs out : lib_ok bs ->
  sort_spec preserve order bs out -> out = sort_transform preserve order bs.
Proof. intros H Hs. destruct (sort_transform_ok preserve order bs H) as [-> _]. apply sort_spec_unique. exact Hs. Qed.

Theorem transform_sorted_only preserve order bs : lib_ok bs -> sorted_spec preserve order bs (sort_transform preserve order bs).
Proof. intros H. destruct (transform_sorted preserve order bs H) as (us & us' & H1 & H2 & H3 & H4 & _). exists us, us'. auto. Qed.

Theorem transform_stable_only preserve order bs : lib_ok bs -> stable_spec preserve order bs (sort_transform preserve order bs).
Proof. intros H. destruct (transform_sorted preserve order bs H) as (us & us' & H1 & H2 & H3 & _ & H5). exists us, us'. auto. Qed.
