(* The runtime text layer of Model/TextIO.v: both directions of each codec (what is written is read back; what is read has
   exactly one spelling), universal newlines, and the file layer end to end.  All by induction, for texts and files of any
   length. *)
From Coq Require Import List ZArith Bool Lia ZifyBool.
Import ListNotations.
From BP Require Import Model.TextIO.
Local Open Scope Z_scope.
Ltac Zify.zify_post_hook ::= Z.to_euclidean_division_equations.

Ltac bools := repeat match goal with
  | H : (_ && _) = true |- _ => apply andb_prop in H; destruct H
  | H : negb _ = true |- _ => apply negb_true_iff in H
  end.

Lemma scalar_spec c : scalar c = true <-> (0 <= c <= 1114111 /\ ~ (55296 <= c <= 57343)).
Proof. unfold scalar, cp_ok, surrogate. lia. Qed.

(* ------------------------------------------------------------ utf-8 *)
Lemma utf8_dec_enc_cp c r : scalar c = true ->
  utf8_decode (utf8_enc_cp c ++ r) = option_map (cons c) (utf8_decode r).
Proof.
  intro Hs. apply scalar_spec in Hs. destruct Hs as [Hr Hn].
  unfold utf8_enc_cp.
  destruct (c <? 128) eqn:E1.
  { cbn [app utf8_decode]. replace ((0 <=? c) && (c <? 128)) with true by lia. reflexivity. }
  destruct (c <? 2048) eqn:E2.
  { cbn [app utf8_decode].
    replace ((0 <=? 192 + c / 64) && (192 + c / 64 <? 128)) with false by lia.
    replace ((194 <=? 192 + c / 64) && (192 + c / 64 <=? 223)) with true by lia.
    unfold cont. replace ((128 <=? 128 + c mod 64) && (128 + c mod 64 <=? 191)) with true by lia.
    replace ((192 + c / 64 - 192) * 64 + (128 + c mod 64 - 128)) with c by lia. reflexivity. }
  destruct (c <? 65536) eqn:E3.
  { cbn [app utf8_decode].
    replace ((0 <=? 224 + c / 4096) && (224 + c / 4096 <? 128)) with false by lia.
    replace ((194 <=? 224 + c / 4096) && (224 + c / 4096 <=? 223)) with false by lia.
    replace ((224 <=? 224 + c / 4096) && (224 + c / 4096 <=? 239)) with true by lia.
    cbv zeta.
    replace ((224 + c / 4096 - 224) * 4096 + (128 + (c / 64) mod 64 - 128) * 64 + (128 + c mod 64 - 128)) with c by lia.
    unfold cont, surrogate.
    replace ((128 <=? 128 + (c / 64) mod 64) && (128 + (c / 64) mod 64 <=? 191)) with true by lia.
    replace ((128 <=? 128 + c mod 64) && (128 + c mod 64 <=? 191)) with true by lia.
    replace (2048 <=? c) with true by lia.
    replace ((55296 <=? c) && (c <=? 57343)) with false by lia. reflexivity. }
  cbn [app utf8_decode].
  replace ((0 <=? 240 + c / 262144) && (240 + c / 262144 <? 128)) with false by lia.
  replace ((194 <=? 240 + c / 262144) && (240 + c / 262144 <=? 223)) with false by lia.
  replace ((224 <=? 240 + c / 262144) && (240 + c / 262144 <=? 239)) with false by lia.
  replace ((240 <=? 240 + c / 262144) && (240 + c / 262144 <=? 244)) with true by lia.
  cbv zeta.
  replace ((240 + c / 262144 - 240) * 262144 + (128 + (c / 4096) mod 64 - 128) * 4096
           + (128 + (c / 64) mod 64 - 128) * 64 + (128 + c mod 64 - 128)) with c by lia.
  unfold cont.
  replace ((128 <=? 128 + (c / 4096) mod 64) && (128 + (c / 4096) mod 64 <=? 191)) with true by lia.
  replace ((128 <=? 128 + (c / 64) mod 64) && (128 + (c / 64) mod 64 <=? 191)) with true by lia.
  replace ((128 <=? 128 + c mod 64) && (128 + c mod 64 <=? 191)) with true by lia.
  replace (65536 <=? c) with true by lia. replace (c <=? 1114111) with true by lia. reflexivity.
Qed.

Theorem utf8_roundtrip s bs : utf8_encode s = Some bs -> utf8_decode bs = Some s.
Proof.
  revert bs. induction s as [|c s IH]; intros bs H; cbn [utf8_encode] in H.
  - injection H as <-. reflexivity.
  - destruct (scalar c) eqn:Hs; [|discriminate].
    destruct (utf8_encode s) as [bs'|] eqn:E; [|discriminate]. cbn in H. injection H as <-.
    rewrite utf8_dec_enc_cp by exact Hs. rewrite (IH bs' eq_refl). reflexivity.
Qed.

Theorem utf8_encode_total s : scalars s = true -> exists bs, utf8_encode s = Some bs.
Proof.
  induction s as [|c s IH]; cbn [scalars forallb utf8_encode]; intro H.
  - eexists; reflexivity.
  - apply andb_prop in H. destruct H as [Hc Hs]. rewrite Hc. destruct (IH Hs) as [bs ->]. eexists; reflexivity.
Qed.

Theorem utf8_encode_refuses s : scalars s = false -> utf8_encode s = None.
Proof.
  induction s as [|c s IH]; cbn [scalars forallb utf8_encode]; intro H; [discriminate|].
  destruct (scalar c); [|reflexivity]. cbn in H. unfold scalars in IH. rewrite (IH H). reflexivity.
Qed.

(* a strong induction on the length, for the decoders that consume 1..4 items per step *)
Lemma list_len_ind {A} (P : list A -> Prop) :
  (forall l, (forall l', (length l' < length l)%nat -> P l') -> P l) -> forall l, P l.
Proof.
  intros H l. remember (length l) as n eqn:E. revert l E.
  induction n as [n IH] using lt_wf_ind. intros l ->. apply H. intros l' Hl. apply (IH _ Hl _ eq_refl).
Qed.

(* the decoder accepts ONLY what the encoder writes: no second spelling of any text *)
Theorem utf8_canonical bs s : utf8_decode bs = Some s -> utf8_encode s = Some bs.
Proof.
  revert s. induction bs as [bs IH] using list_len_ind. intros s H.
  destruct bs as [|b0 r0]; cbn [utf8_decode] in H.
  { injection H as <-. reflexivity. }
  destruct ((0 <=? b0) && (b0 <? 128)) eqn:E0.
  { destruct (utf8_decode r0) as [s'|] eqn:E; [|discriminate]. cbn in H. injection H as <-.
    cbn [utf8_encode]. replace (scalar b0) with true by (unfold scalar, cp_ok, surrogate; lia).
    rewrite (IH r0 ltac:(cbn [length]; lia) s' E). cbn [option_map app]. unfold utf8_enc_cp. replace (b0 <? 128) with true by lia. reflexivity. }
  destruct ((194 <=? b0) && (b0 <=? 223)) eqn:E1.
  { destruct r0 as [|b1 r1]; [discriminate|]. destruct (cont b1) eqn:C1; [|discriminate].
    destruct (utf8_decode r1) as [s'|] eqn:E; [|discriminate]. cbn in H. injection H as <-.
    unfold cont in C1. remember ((b0 - 192) * 64 + (b1 - 128)) as c eqn:Hc.
    cbn [utf8_encode]. replace (scalar c) with true by (unfold scalar, cp_ok, surrogate; lia).
    rewrite (IH r1 ltac:(cbn [length]; lia) s' E). cbn [option_map app]. unfold utf8_enc_cp.
    replace (c <? 128) with false by lia. replace (c <? 2048) with true by lia.
    replace (192 + c / 64) with b0 by lia. replace (128 + c mod 64) with b1 by lia. reflexivity. }
  destruct ((224 <=? b0) && (b0 <=? 239)) eqn:E2.
  { destruct r0 as [|b1 [|b2 r2]]; try discriminate. cbv zeta in H.
    remember ((b0 - 224) * 4096 + (b1 - 128) * 64 + (b2 - 128)) as c eqn:Hc.
    destruct (cont b1 && cont b2 && (2048 <=? c) && negb (surrogate c)) eqn:G; [|discriminate].
    destruct (utf8_decode r2) as [s'|] eqn:E; [|discriminate]. cbn in H. injection H as <-.
    unfold cont, surrogate in G.
    cbn [utf8_encode]. replace (scalar c) with true by (unfold scalar, cp_ok, surrogate; lia).
    rewrite (IH r2 ltac:(cbn [length]; lia) s' E). cbn [option_map app]. unfold utf8_enc_cp.
    replace (c <? 128) with false by lia. replace (c <? 2048) with false by lia.
    replace (c <? 65536) with true by lia.
    replace (224 + c / 4096) with b0 by lia.
    replace (128 + (c / 64) mod 64) with b1 by lia.
    replace (128 + c mod 64) with b2 by lia. reflexivity. }
  destruct ((240 <=? b0) && (b0 <=? 244)) eqn:E3; [|discriminate].
  destruct r0 as [|b1 [|b2 [|b3 r3]]]; try discriminate. cbv zeta in H.
  remember ((b0 - 240) * 262144 + (b1 - 128) * 4096 + (b2 - 128) * 64 + (b3 - 128)) as c eqn:Hc.
  destruct (cont b1 && cont b2 && cont b3 && (65536 <=? c) && (c <=? 1114111)) eqn:G; [|discriminate].
  destruct (utf8_decode r3) as [s'|] eqn:E; [|discriminate]. cbn in H. injection H as <-.
  unfold cont in G.
  cbn [utf8_encode]. replace (scalar c) with true by (unfold scalar, cp_ok, surrogate; lia).
  rewrite (IH r3 ltac:(cbn [length]; lia) s' E). cbn [option_map app]. unfold utf8_enc_cp.
  replace (c <? 128) with false by lia. replace (c <? 2048) with false by lia. replace (c <? 65536) with false by lia.
  replace (240 + c / 262144) with b0 by lia.
  replace (128 + (c / 4096) mod 64) with b1 by lia.
  replace (128 + (c / 64) mod 64) with b2 by lia.
  replace (128 + c mod 64) with b3 by lia. reflexivity.
Qed.

Theorem utf8_decode_scalars bs s : utf8_decode bs = Some s -> scalars s = true.
Proof.
  intro H. apply utf8_canonical in H. destruct (scalars s) eqn:E; [reflexivity|].
  rewrite (utf8_encode_refuses s E) in H. discriminate.
Qed.

Theorem utf8_decode_injective b1 b2 s : utf8_decode b1 = Some s -> utf8_decode b2 = Some s -> b1 = b2.
Proof. intros H1 H2. apply utf8_canonical in H1, H2. congruence. Qed.

Lemma utf8_enc_cp_bytes c : scalar c = true -> bytes_ok (utf8_enc_cp c) = true.
Proof.
  intro Hs. apply scalar_spec in Hs. unfold utf8_enc_cp, bytes_ok, byte_ok.
  destruct (c <? 128) eqn:?; [cbn [forallb]; lia|]. destruct (c <? 2048) eqn:?; [cbn [forallb]; lia|].
  destruct (c <? 65536) eqn:?; cbn [forallb]; lia.
Qed.

Theorem utf8_encode_bytes s bs : utf8_encode s = Some bs -> bytes_ok bs = true.
Proof.
  revert bs. induction s as [|c s IH]; intros bs H; cbn [utf8_encode] in H.
  - injection H as <-. reflexivity.
  - destruct (scalar c) eqn:Hs; [|discriminate]. destruct (utf8_encode s) as [b'|]; [|discriminate].
    cbn in H. injection H as <-. unfold bytes_ok. rewrite forallb_app. fold (bytes_ok (utf8_enc_cp c)) (bytes_ok b').
    rewrite utf8_enc_cp_bytes by exact Hs. rewrite (IH b' eq_refl). reflexivity.
Qed.

(* ------------------------------------------------------------ utf-16 *)
Lemma units_le_bytes us : forallb (fun u => (0 <=? u) && (u <=? 65535)) us = true -> units_le (bytes_le us) = Some us.
Proof.
  induction us as [|u us IH]; cbn [forallb bytes_le flat_map app units_le]; intro H; [reflexivity|].
  apply andb_prop in H. destruct H as [Hu Hs]. fold (bytes_le us). rewrite (IH Hs). cbn [option_map].
  replace (u mod 256 + u / 256 * 256) with u by lia. reflexivity.
Qed.
Lemma units_be_bytes us : forallb (fun u => (0 <=? u) && (u <=? 65535)) us = true -> units_be (bytes_be us) = Some us.
Proof.
  induction us as [|u us IH]; cbn [forallb bytes_be flat_map app units_be]; intro H; [reflexivity|].
  apply andb_prop in H. destruct H as [Hu Hs]. fold (bytes_be us). rewrite (IH Hs). cbn [option_map].
  replace (u / 256 * 256 + u mod 256) with u by lia. reflexivity.
Qed.

Lemma units_dec_enc_cp c r : scalar c = true ->
  units_decode (units_of_cp c ++ r) = option_map (cons c) (units_decode r).
Proof.
  intro Hs. apply scalar_spec in Hs. unfold units_of_cp. destruct (c <? 65536) eqn:E.
  - cbn [app units_decode]. unfold hi_sur, lo_sur.
    replace ((55296 <=? c) && (c <=? 56319)) with false by lia.
    replace ((56320 <=? c) && (c <=? 57343)) with false by lia. reflexivity.
  - cbn [app units_decode]. unfold hi_sur, lo_sur.
    replace ((55296 <=? 55296 + (c - 65536) / 1024) && (55296 + (c - 65536) / 1024 <=? 56319)) with true by lia.
    replace ((56320 <=? 56320 + (c - 65536) mod 1024) && (56320 + (c - 65536) mod 1024 <=? 57343)) with true by lia.
    replace (65536 + (55296 + (c - 65536) / 1024 - 55296) * 1024 + (56320 + (c - 65536) mod 1024 - 56320)) with c by lia.
    reflexivity.
Qed.

Lemma units_roundtrip s us : units_encode s = Some us -> units_decode us = Some s.
Proof.
  revert us. induction s as [|c s IH]; intros us H; cbn [units_encode] in H.
  - injection H as <-. reflexivity.
  - destruct (scalar c) eqn:Hs; [|discriminate]. destruct (units_encode s) as [u'|]; [|discriminate].
    cbn in H. injection H as <-. rewrite units_dec_enc_cp by exact Hs. rewrite (IH u' eq_refl). reflexivity.
Qed.

Lemma units_encode_range s us : units_encode s = Some us -> forallb (fun u => (0 <=? u) && (u <=? 65535)) us = true.
Proof.
  revert us. induction s as [|c s IH]; intros us H; cbn [units_encode] in H.
  - injection H as <-. reflexivity.
  - destruct (scalar c) eqn:Hs; [|discriminate]. destruct (units_encode s) as [u'|]; [|discriminate].
    cbn in H. injection H as <-. rewrite forallb_app, (IH u' eq_refl), andb_true_r.
    apply scalar_spec in Hs. unfold units_of_cp. destruct (c <? 65536) eqn:?; cbn [forallb]; lia.
Qed.

Definition unit_ok (u : Z) : bool := (0 <=? u) && (u <=? 65535).

Lemma units_canonical us s : forallb unit_ok us = true -> units_decode us = Some s -> units_encode s = Some us.
Proof.
  revert s. induction us as [us IH] using list_len_ind. intros s Hr H.
  destruct us as [|u r]; cbn [units_decode] in H.
  { injection H as <-. reflexivity. }
  cbn [forallb] in Hr. apply andb_prop in Hr. destruct Hr as [Hu Hr].
  destruct (hi_sur u) eqn:Eh.
  { destruct r as [|u2 r2]; [discriminate|]. destruct (lo_sur u2) eqn:El; [|discriminate].
    cbn [forallb] in Hr. apply andb_prop in Hr. destruct Hr as [Hu2 Hr].
    remember (65536 + (u - 55296) * 1024 + (u2 - 56320)) as c eqn:Hc.
    destruct (units_decode r2) as [s'|] eqn:E; [|discriminate]. cbn [option_map] in H. injection H as <-.
    unfold hi_sur in Eh. unfold lo_sur in El.
    assert (Hl : (length r2 < length (u :: u2 :: r2))%nat) by (cbn [length]; lia).
    cbn [units_encode]. replace (scalar c) with true by (unfold scalar, cp_ok, surrogate; lia).
    rewrite (IH r2 Hl s' Hr E). cbn [option_map app]. unfold units_of_cp. replace (c <? 65536) with false by lia.
    replace (55296 + (c - 65536) / 1024) with u by lia.
    replace (56320 + (c - 65536) mod 1024) with u2 by lia. reflexivity. }
  destruct (lo_sur u) eqn:El; [discriminate|].
  destruct (units_decode r) as [s'|] eqn:E; [|discriminate]. cbn [option_map] in H. injection H as <-.
  unfold hi_sur in Eh. unfold lo_sur in El. unfold unit_ok in Hu.
  assert (Hl : (length r < length (u :: r))%nat) by (cbn [length]; lia).
  cbn [units_encode]. replace (scalar u) with true by (unfold scalar, cp_ok, surrogate; lia).
  rewrite (IH r Hl s' Hr E). cbn [option_map app]. unfold units_of_cp. replace (u <? 65536) with true by lia. reflexivity.
Qed.

Lemma units_le_inv bs us : bytes_ok bs = true -> units_le bs = Some us -> bytes_le us = bs /\ forallb unit_ok us = true.
Proof.
  revert us. induction bs as [bs IH] using list_len_ind. intros us Hb H.
  destruct bs as [|b0 [|b1 r]]; cbn [units_le] in H; try discriminate.
  { injection H as <-. split; reflexivity. }
  destruct (units_le r) as [us'|] eqn:E; [|discriminate]. cbn [option_map] in H. injection H as <-.
  unfold bytes_ok in Hb. cbn [forallb] in Hb. apply andb_prop in Hb. destruct Hb as [H0 Hb].
  apply andb_prop in Hb. destruct Hb as [H1 Hb]. unfold byte_ok in H0, H1.
  destruct (IH r ltac:(cbn [length]; lia) us' Hb E) as [I1 I2].
  cbn [bytes_le flat_map app forallb]. fold (bytes_le us'). rewrite I1, I2. unfold unit_ok. split; [|lia].
  f_equal; [lia|]. f_equal. lia.
Qed.
Lemma units_be_inv bs us : bytes_ok bs = true -> units_be bs = Some us -> bytes_be us = bs /\ forallb unit_ok us = true.
Proof.
  revert us. induction bs as [bs IH] using list_len_ind. intros us Hb H.
  destruct bs as [|b0 [|b1 r]]; cbn [units_be] in H; try discriminate.
  { injection H as <-. split; reflexivity. }
  destruct (units_be r) as [us'|] eqn:E; [|discriminate]. cbn [option_map] in H. injection H as <-.
  unfold bytes_ok in Hb. cbn [forallb] in Hb. apply andb_prop in Hb. destruct Hb as [H0 Hb].
  apply andb_prop in Hb. destruct Hb as [H1 Hb]. unfold byte_ok in H0, H1.
  destruct (IH r ltac:(cbn [length]; lia) us' Hb E) as [I1 I2].
  cbn [bytes_be flat_map app forallb]. fold (bytes_be us'). rewrite I1, I2. unfold unit_ok. split; [|lia].
  f_equal; [lia|]. f_equal. lia.
Qed.

Theorem utf16_roundtrip s bs : utf16_encode s = Some bs -> utf16_decode bs = Some s.
Proof.
  unfold utf16_encode. destruct (units_encode s) as [us|] eqn:E; [|discriminate]. cbn [option_map]. intro H. injection H as <-.
  cbn [utf16_decode]. rewrite units_le_bytes by (exact (units_encode_range s us E)). apply units_roundtrip. exact E.
Qed.

(* what the decoder accepts is the empty file, or a mark followed by the units the encoder computes, in the order the mark
   announces: every accepted file of a given byte order is the unique spelling of its text *)
Theorem utf16_canonical bs s : bytes_ok bs = true -> utf16_decode bs = Some s ->
  exists us, units_encode s = Some us /\
             ((bs = [] /\ us = []) \/ bs = 255 :: 254 :: bytes_le us \/ bs = 254 :: 255 :: bytes_be us).
Proof.
  intros Hb H. destruct bs as [|b0 [|b1 r]].
  - cbn in H. injection H as <-. exists []. split; [reflexivity|]. left. split; reflexivity.
  - exfalso. cbn [utf16_decode] in H. destruct b0 as [|p|p]; try discriminate.
    repeat (destruct p as [p|p|]; try discriminate).
  - assert (Hr : bytes_ok r = true).
    { unfold bytes_ok in Hb. cbn [forallb] in Hb. apply andb_prop in Hb. destruct Hb as [_ Hb].
      apply andb_prop in Hb. destruct Hb as [_ Hb]. exact Hb. }
    destruct (Z.eq_dec b0 255) as [->|N0].
    + destruct (Z.eq_dec b1 254) as [->|N1].
      * cbn [utf16_decode] in H. destruct (units_le r) as [us|] eqn:E; [|discriminate].
        destruct (units_le_inv r us Hr E) as [I1 I2]. exists us. split; [apply units_canonical; assumption|].
        right. left. rewrite I1. reflexivity.
      * exfalso. cbn [utf16_decode] in H. destruct b1 as [|p|p]; try discriminate.
        repeat (destruct p as [p|p|]; try discriminate). apply N1. reflexivity.
    + destruct (Z.eq_dec b0 254) as [->|N0'].
      * destruct (Z.eq_dec b1 255) as [->|N1].
        -- cbn [utf16_decode] in H. destruct (units_be r) as [us|] eqn:E; [|discriminate].
           destruct (units_be_inv r us Hr E) as [I1 I2]. exists us. split; [apply units_canonical; assumption|].
           right. right. rewrite I1. reflexivity.
        -- exfalso. cbn [utf16_decode] in H. destruct b1 as [|p|p]; try discriminate.
           repeat (destruct p as [p|p|]; try discriminate). apply N1. reflexivity.
      * exfalso. cbn [utf16_decode] in H. destruct b0 as [|p|p]; try discriminate.
        repeat (destruct p as [p|p|]; try discriminate); [apply N0|apply N0']; reflexivity.
Qed.

(* ------------------------------------------------------------ latin-1 *)
Theorem latin1_roundtrip s bs : latin1_encode s = Some bs -> latin1_decode bs = Some s.
Proof. unfold latin1_encode, latin1_decode. destruct (forallb _ s); [|discriminate]. intro H. injection H as <-. reflexivity. Qed.
Theorem latin1_canonical bs s : bytes_ok bs = true -> latin1_decode bs = Some s -> latin1_encode s = Some bs.
Proof. unfold latin1_encode, latin1_decode, bytes_ok, byte_ok. intros Hb H. injection H as <-. rewrite Hb. reflexivity. Qed.
Theorem latin1_decode_total bs : latin1_decode bs = Some bs.
Proof. reflexivity. Qed.

(* ------------------------------------------------------------ universal newlines *)
Definition no_cr (s : list Z) : bool := forallb (fun c => negb (c =? 13)) s.

Lemma nl_read_cons c r : c <> 13 -> nl_read (c :: r) = c :: nl_read r.
Proof.
  intro H. cbn [nl_read]. destruct c as [|p|p]; try reflexivity.
  do 4 (destruct p as [p|p|]; try reflexivity). exfalso. apply H. reflexivity.
Qed.
Lemma nl_read_cr r : nl_read (13 :: r) = 10 :: match r with 10 :: r' => nl_read r' | _ => nl_read r end.
Proof. reflexivity. Qed.

Theorem nl_read_id s : no_cr s = true -> nl_read s = s.
Proof.
  induction s as [|c s IH]; cbn [no_cr forallb]; intro H; [reflexivity|].
  apply andb_prop in H. destruct H as [Hc Hs]. rewrite nl_read_cons by lia. rewrite (IH Hs). reflexivity.
Qed.

Theorem nl_read_no_cr s : no_cr (nl_read s) = true.
Proof.
  induction s as [s IH] using list_len_ind. destruct s as [|c r]; [reflexivity|].
  destruct (Z.eq_dec c 13) as [->|N].
  - rewrite nl_read_cr. cbn [no_cr forallb]. replace (negb (10 =? 13)) with true by reflexivity. cbn [andb].
    destruct r as [|d r']; [reflexivity|].
    destruct (Z.eq_dec d 10) as [->|Nd].
    + apply IH. cbn [length]. lia.
    + assert (E : match d :: r' with 10 :: r'0 => nl_read r'0 | _ => nl_read (d :: r') end = nl_read (d :: r')).
      { destruct d as [|p|p]; try reflexivity. do 4 (destruct p as [p|p|]; try reflexivity). exfalso. apply Nd. reflexivity. }
      rewrite E. apply IH. cbn [length]. lia.
  - rewrite nl_read_cons by exact N. cbn [no_cr forallb]. replace (negb (c =? 13)) with true by lia. cbn [andb].
    apply IH. cbn [length]. lia.
Qed.

Theorem nl_read_idem s : nl_read (nl_read s) = nl_read s.
Proof. apply nl_read_id. apply nl_read_no_cr. Qed.

(* the translation never lengthens, and keeps every character that is not a carriage return or the line feed after one *)
Theorem nl_read_length s : (length (nl_read s) <= length s)%nat.
Proof.
  induction s as [s IH] using list_len_ind. destruct s as [|c r]; [cbn; lia|].
  destruct (Z.eq_dec c 13) as [->|N].
  - rewrite nl_read_cr. cbn [length]. destruct r as [|d r']; [cbn; lia|].
    destruct (Z.eq_dec d 10) as [->|Nd].
    + specialize (IH r' ltac:(cbn [length]; lia)). cbn [length]. lia.
    + assert (E : match d :: r' with 10 :: r'0 => nl_read r'0 | _ => nl_read (d :: r') end = nl_read (d :: r')).
      { destruct d as [|p|p]; try reflexivity. do 4 (destruct p as [p|p|]; try reflexivity). exfalso. apply Nd. reflexivity. }
      rewrite E. specialize (IH (d :: r') ltac:(cbn [length]; lia)). cbn [length] in *. lia.
  - rewrite nl_read_cons by exact N. specialize (IH r ltac:(cbn [length]; lia)). cbn [length]. lia.
Qed.

(* ------------------------------------------------------------ the text layer: what is written is what is read *)
Theorem write_then_read e s bs : write_text e s = Some bs -> read_text e bs = Some (nl_read s).
Proof.
  unfold write_text, read_text. intro H.
  assert (D : decode e bs = Some s).
  { destruct e; cbn [encode decode] in *;
      [apply utf8_roundtrip | apply latin1_roundtrip | apply utf16_roundtrip]; exact H. }
  rewrite D. reflexivity.
Qed.

(* a text without carriage returns survives the file exactly; one with a carriage return does NOT *)
Theorem file_transparent e s bs : no_cr s = true -> write_text e s = Some bs -> read_text e bs = Some s.
Proof. intros Hn H. rewrite (write_then_read e s bs H), (nl_read_id s Hn). reflexivity. Qed.

Theorem file_not_transparent_cr :
  exists s bs, write_text Utf8 s = Some bs /\ read_text Utf8 bs <> Some s.
Proof. exists [97; 13; 98], [97; 13; 98]. split; [reflexivity|]. vm_compute. discriminate. Qed.

(* which texts can be written at all *)
Theorem write_total_utf8 s : scalars s = true -> exists bs, write_text Utf8 s = Some bs /\ bytes_ok bs = true.
Proof. intro H. destruct (utf8_encode_total s H) as [bs E]. exists bs. split; [exact E|]. apply (utf8_encode_bytes s bs E). Qed.
Theorem write_refuses_surrogates_utf8 s : scalars s = false -> write_text Utf8 s = None.
Proof. apply utf8_encode_refuses. Qed.

(* what read_text returns never holds a carriage return, nor (for utf-8 and utf-16) a lone surrogate *)
Theorem read_no_cr e bs s : read_text e bs = Some s -> no_cr s = true.
Proof. unfold read_text. destruct (decode e bs); [|discriminate]. cbn. intro H. injection H as <-. apply nl_read_no_cr. Qed.
