(* C14, list level outside the known class K3:
   if no word of any name is 'and', merging the parts of every person, joining with " and ", separating and splitting
   again returns the same persons.

   1  a good name word (C13: atoms) scans cleanly as co-author text (C12: marks)
   2  the co-author walk over names given as word lists
   3  merge_last_name_first as a list of words; assembly with the person-level inverse *)
From Coq Require Import List NArith ZArith Bool Lia PeanoNat.
From BP Require Import Base.Chars Model.Blocks Gen.Constants Model.Names Spec.C12 Spec.C13 Spec.C14
     Proofs.NamesSplitProofs Proofs.NamesExactProofs Proofs.NamesIdemProofs
     Proofs.NamesPartProofs Proofs.NamesParseProofs Proofs.NamesTokProofs Proofs.NamesInverseProofs Proofs.NamesRoundTripProofs.
Import ListNotations.

(* ---------------------------------------------------------------- 1: from atoms to marks *)
Lemma ws4_ws5 c : ws_split c = true -> ws_parse c = true.
Proof.
  unfold ws_split, ws_parse, in_set, names_ws_split, names_ws_parse. cbn [existsb]. rewrite !orb_false_r.
  intros H. repeat (apply orb_true_iff in H; destruct H as [H|H]); apply N.eqb_eq in H; subst c; vm_compute; reflexivity.
Qed.

Lemma wm_app a b : wm (a ++ b) = wm a ++ wm b.
Proof. apply map_app. Qed.

Lemma atoms_scan12 w : wfa w -> pend w = false -> forall d d', scan ws_parse w d = Some d' ->
  forall rest, marks_go (text w ++ rest) d = wm (text w) ++ marks_go rest d'
               /\ balanced_go (text w ++ rest) d = balanced_go rest d'.
Proof.
  induction w as [|a w IH]; intros Hw Hp d d' Hs rest.
  - cbn in Hs. inversion Hs; subst. split; reflexivity.
  - destruct bs_facts as (B1 & B2 & B3 & B4 & B5).
    rewrite text_cons, <- app_assoc. cbn [scan] in Hs.
    destruct (is_sep ws_parse d a) eqn:Esep; [discriminate|].
    destruct (negb (is_open a) && is_close a && (d =? 0)%N) eqn:Ecl; [discriminate|].
    assert (Hp' : w <> [] -> pend w = false) by (intros Hne; unfold pend in *; destruct w; [contradiction | exact Hp]).
    destruct a as [c|c].
    + (* an escape pair *)
      destruct Hw as [Hc Hw]. cbn [atom_text app]. cbn [marks_go balanced_go]. replace (ceq c_bs c_bs) with true by reflexivity.
      assert (Hpw : pend w = false) by (destruct w; [reflexivity | apply Hp'; discriminate]).
      destruct (IH Hw Hpw d d' Hs rest) as [I1 I2]. rewrite I1, I2. unfold wm. rewrite ?map_app. cbn [map app]. split; reflexivity.
    + destruct Hw as [Hbs Hw]. cbn [atom_text app].
      destruct (ceq c c_bs) eqn:Ebs.
      * (* a lone backslash: followed by a whitespace atom (inside braces) *)
        apply N.eqb_eq in Ebs. subst c. specialize (Hbs eq_refl).
        destruct w as [|[e|e] w'']; [cbv in Hp; discriminate | contradiction |].
        rewrite text_cons, <- app_assoc. cbn [atom_text app].
        cbn [marks_go balanced_go]. replace (ceq c_bs c_bs) with true by reflexivity.
        unfold dupd in Hs. cbn [is_open is_close] in Hs. rewrite B1, B2 in Hs.
        cbn [scan] in Hs.
        destruct (is_sep ws_parse d (AChar e)) eqn:Esep2; [discriminate|].
        destruct (negb (is_open (AChar e)) && is_close (AChar e) && (d =? 0)%N) eqn:Ecl2; [discriminate|].
        destruct (ws_parse_facts e Hbs) as (E1 & E2 & E3 & E4 & E5).
        unfold dupd in Hs. cbn [is_open is_close] in Hs. rewrite E1, E2 in Hs.
        destruct Hw as [_ Hw''].
        assert (Hpw : pend w'' = false).
        { destruct w'' as [|x w3]; [reflexivity|]. unfold pend in *. exact Hp. }
        assert (IHw : forall rest0, marks_go (text w'' ++ rest0) d = wm (text w'') ++ marks_go rest0 d'
                                    /\ balanced_go (text w'' ++ rest0) d = balanced_go rest0 d').
        { (* the induction hypothesis is about AChar e :: w''; peel the whitespace atom off *)
          intros rest0.
          assert (Hwe : wfa (AChar e :: w'')) by (cbn; split; [intros He; rewrite He in E3; discriminate | exact Hw'']).
          assert (Hpe : pend (AChar e :: w'') = false).
          { destruct w'' as [|x w3]; [cbn; exact E3 | unfold pend in *; exact Hp]. }
          assert (Hse : scan ws_parse (AChar e :: w'') d = Some d').
          { cbn [scan]. rewrite Esep2, Ecl2. unfold dupd. cbn [is_open is_close]. rewrite E1, E2. exact Hs. }
          destruct (IH Hwe Hpe d d' Hse rest0) as [I1 I2].
          rewrite text_cons in I1, I2. cbn [atom_text app] in I1, I2.
          cbn [marks_go balanced_go] in I1, I2. rewrite E3, E1, E2 in I1, I2.
          unfold wm in I1. rewrite ?map_app in I1. cbn [map app] in I1. injection I1 as Hmark I1'. split; [exact I1' | exact I2]. }
        destruct (IHw rest) as [I1 I2]. rewrite I1, I2. unfold wm. rewrite ?map_app. cbn [map app]. split; reflexivity.
      * assert (Hpw : pend w = false).
        { destruct w as [|x w']; [reflexivity|]. apply Hp'. discriminate. }
        destruct (IH Hw Hpw _ d' Hs rest) as [I1 I2].
        cbn [marks_go balanced_go]. rewrite Ebs.
        cbn [is_open is_close] in *. unfold dupd in I1, I2. cbn [is_open is_close] in I1, I2.
        destruct (ceq c c_lb) eqn:Elb.
        { rewrite I1, I2. unfold wm. rewrite ?map_app. cbn [map app]. split; reflexivity. }
        destruct (ceq c c_rb) eqn:Erb.
        { cbn [negb andb] in Ecl. rewrite Ecl. rewrite I1, I2. unfold wm. rewrite ?map_app. cbn [map app]. split; reflexivity. }
        rewrite I1, I2. unfold wm. rewrite ?map_app. cbn [map app].
        assert (Emark : (d =? 0)%N && ws_split c = false).
        { unfold is_sep in Esep. cbn [is_open is_close] in Esep. rewrite Elb, Erb in Esep. cbn [negb andb] in Esep.
          destruct (d =? 0)%N; [|reflexivity]. cbn [andb] in *. destruct (ws_split c) eqn:E4; [|reflexivity].
          rewrite (ws4_ws5 c E4) in Esep. discriminate. }
        rewrite Emark. split; reflexivity.
Qed.

Lemma not_ws5_not_ws4 c : ws_parse c = false -> ws_split c = false.
Proof. intros H. destruct (ws_split c) eqn:E; [|reflexivity]. rewrite (ws4_ws5 c E) in H. discriminate. Qed.

Lemma nosep0_not_ws c : is_sep ws_parse 0 (AChar c) = false -> ws_split c = false.
Proof.
  destruct special_facts as (_ & _ & _ & _ & _ & _ & Wb & Wl & Wr).
  unfold is_sep. cbn [is_open is_close].
  destruct (ceq c c_lb) eqn:E1; [apply N.eqb_eq in E1; subst c; intros _; exact Wl|].
  destruct (ceq c c_rb) eqn:E2; [apply N.eqb_eq in E2; subst c; intros _; exact Wr|].
  cbn. intros H. apply not_ws5_not_ws4. exact H.
Qed.

(* what a good name word looks like to the co-author splitter *)
Record cword_ok (t : str) : Prop := mkcw {
  cw_ne : t <> [];
  cw_item : item_ok (false, t);
  cw_hd : ws_split (hdc t) = false;
  cw_last : ws_split (lastc t) = false
}.

Lemma good_cword w : good w -> pend w = false -> cword_ok (text w).
Proof.
  intros Hg Hp. destruct special_facts as (_ & _ & _ & _ & _ & _ & Wb & Wl & Wr).
  constructor.
  - apply text_ne. apply (gd_ne _ Hg).
  - intros rest. apply (atoms_scan12 w (gd_wfa _ Hg) Hp 0%N 0%N (gd_ws _ Hg) rest).
  - destruct w as [|a w']; [exfalso; apply (gd_ne _ Hg); reflexivity|].
    rewrite text_cons. destruct a as [c|c]; cbn [atom_text app hdc hd]; [exact Wb|].
    pose proof (gd_ws _ Hg) as Hs. cbn [scan] in Hs. destruct (is_sep ws_parse 0 (AChar c)) eqn:E; [discriminate|].
    apply nosep0_not_ws. exact E.
  - destruct (exists_last (gd_ne _ Hg)) as (w0 & a & ->).
    rewrite text_app. unfold text at 2. cbn [map concat]. rewrite app_nil_r.
    pose proof (gd_ws _ Hg) as Hs. rewrite scan_snoc in Hs.
    destruct (scan ws_parse w0 0) as [d|] eqn:E0; [|discriminate].
    destruct (is_sep ws_parse d a) eqn:Esep; [discriminate|].
    destruct (negb (is_open a) && is_close a && (d =? 0)%N) eqn:Ecl; [discriminate|].
    inversion Hs as [Hd].
    pose proof (wfa_app_r _ _ (gd_wfa _ Hg)) as Hwa.
    unfold pend in Hp. rewrite last_snoc in Hp.
    destruct a as [c|c]; cbn [atom_text].
    + rewrite lastc_app by discriminate. cbn. apply not_ws5_not_ws4. apply Hwa.
    + rewrite lastc_app by discriminate. cbn [lastc last].
      unfold dupd in Hd. cbn [is_open is_close] in Hd, Esep.
      destruct (ceq c c_lb) eqn:E1; [lia|].
      destruct (ceq c c_rb) eqn:E2; [apply N.eqb_eq in E2; subst c; exact Wr|].
      subst d. apply nosep0_not_ws. unfold is_sep. cbn [is_open is_close]. rewrite E1, E2.
      unfold is_sep in Esep. cbn [is_open is_close] in Esep. rewrite E1, E2 in Esep. exact Esep.
Qed.

Lemma comma_cword t : cword_ok t -> cword_ok (t ++ [c_comma]).
Proof.
  intros [Hne Hit Hh Hl]. destruct comma_facts as (C1 & C2 & C3 & C4 & C5).
  constructor.
  - destruct t; discriminate.
  - intros rest. cbn [snd] in *. rewrite <- app_assoc. destruct (Hit ([c_comma] ++ rest)) as [I1 I2]. cbn [snd] in I1, I2.
    rewrite I1, I2. cbn [app].
    destruct (plain_char c_comma false rest C2 ltac:(vm_compute; reflexivity) ltac:(vm_compute; reflexivity) ltac:(vm_compute; reflexivity)) as [P1 P2].
    rewrite P1, P2. unfold seg. cbn [fst snd]. rewrite map_app. cbn [map]. rewrite <- app_assoc. split; reflexivity.
  - rewrite hdc_app by exact Hne. exact Hh.
  - rewrite lastc_app by discriminate. vm_compute. reflexivity.
Qed.

(* ---------------------------------------------------------------- 2: the walk over names given as word lists *)
Definition tailruns (ws : list str) : list run := flat_map (fun w => [(true, sp_s); (false, w)]) ws.
Definition wr (ws : list str) : list run := match ws with [] => [] | w :: r => (false, w) :: tailruns r end.

Lemma ftext_tailruns ws : ftext (tailruns ws) = concat (map (fun w => sp_s ++ w) ws).
Proof. induction ws as [|w r IH]; [reflexivity|]. unfold ftext in *. cbn [tailruns flat_map app map concat snd]. fold (tailruns r). rewrite IH. rewrite <- app_assoc. reflexivity. Qed.

Lemma join_sp ws : forall w, join sp1 (w :: ws) = w ++ concat (map (fun x => sp_s ++ x) ws).
Proof.
  induction ws as [|x r IH]; intros w; [cbn; rewrite app_nil_r; reflexivity|].
  change (join sp1 (w :: x :: r)) with (w ++ sp1 ++ join sp1 (x :: r)). rewrite IH. cbn [map concat]. rewrite <- !app_assoc. reflexivity.
Qed.

Lemma ftext_wr ws : ftext (wr ws) = join sp1 ws.
Proof.
  destruct ws as [|w r]; [reflexivity|]. cbn [wr]. change (ftext ((false, w) :: tailruns r)) with (w ++ ftext (tailruns r)).
  rewrite ftext_tailruns, join_sp. reflexivity.
Qed.

Lemma tail_andfree ws : Forall (fun w => is_and_word w = false) ws -> forall cur T, cur <> [] ->
  ref_walk (tailruns ws ++ T) cur [] = ref_walk T (cur ++ concat (map (fun w => sp_s ++ w) ws)) [].
Proof.
  intros HF. induction HF as [|w r Hw HF IH]; intros cur T Hc.
  - cbn. rewrite app_nil_r. reflexivity.
  - cbn [tailruns flat_map app]. fold (tailruns r). cbn [ref_walk]. rewrite Hw. cbn [andb].
    rewrite (nonempty_true cur Hc). rewrite IH by (destruct cur; [contradiction | discriminate]).
    cbn [map concat]. rewrite <- !app_assoc. reflexivity.
Qed.

Definition allwords (WS : list (list str)) : list str :=
  match WS with [] => [] | ws :: r => ws ++ flat_map (fun x => and_w :: x) r end.

Lemma wr_app_and ws rest : ws <> [] -> wr (ws ++ and_w :: rest) = wr ws ++ (true, sp_s) :: (false, and_w) :: tailruns rest.
Proof.
  destruct ws as [|w r]; [contradiction|]. intros _. cbn [wr app]. f_equal.
  unfold tailruns. rewrite flat_map_app. reflexivity.
Qed.

Lemma walk_names WS : Forall (fun ws => ws <> [] /\ Forall (fun w => w <> [] /\ is_and_word w = false) ws) WS ->
  ref_walk (wr (allwords WS)) [] [] = map (join sp1) WS.
Proof.
  induction WS as [|ws WS IH]; intros HF; [reflexivity|].
  inversion HF as [|? ? [Hne Hws] HF']; subst.
  destruct ws as [|w0 r]; [contradiction|]. inversion Hws as [|? ? [Hw0 Ha0] Hr]; subst.
  assert (Hrand : Forall (fun w => is_and_word w = false) r) by (eapply Forall_impl; [|exact Hr]; intros x [_ H]; exact H).
  destruct WS as [|ws2 WS'].
  - cbn [allwords flat_map map]. rewrite app_nil_r. cbn [wr ref_walk nonempty andb]. rewrite andb_false_r.
    rewrite <- (app_nil_r (tailruns r)). rewrite (tail_andfree r Hrand w0 [] Hw0). cbn [ref_walk].
    rewrite nonempty_app_l by exact Hw0. rewrite join_sp. reflexivity.
  - specialize (IH HF'). inversion HF' as [|? ? [Hne2 _] _]; subst.
    change (allwords ((w0 :: r) :: ws2 :: WS')) with ((w0 :: r) ++ and_w :: allwords (ws2 :: WS')).
    rewrite wr_app_and by discriminate. cbn [wr app ref_walk nonempty andb]. rewrite andb_false_r.
    rewrite (tail_andfree r Hrand w0 _ Hw0). cbn [ref_walk]. rewrite and_w_is_and.
    rewrite (nonempty_app_l w0 _ Hw0).
    destruct ws2 as [|v0 r2]; [contradiction|].
    assert (Hhw : has_word (tailruns (allwords ((v0 :: r2) :: WS'))) = true) by reflexivity.
    rewrite Hhw. cbn [andb map]. rewrite join_sp. f_equal.
    cbn [allwords app tailruns flat_map ref_walk]. fold (tailruns (r2 ++ flat_map (fun x => and_w :: x) WS')).
    cbn [nonempty andb]. rewrite andb_false_r.
    cbn [allwords wr app ref_walk nonempty andb] in IH. rewrite andb_false_r in IH. exact IH.
Qed.

(* ---------------------------------------------------------------- 3: merge_last_name_first as a layout of good words *)
Lemma relayout_Forall (P : cword -> Prop) q :
  Forall P (c_first q) -> Forall P (c_von q) -> Forall P (c_last q) -> Forall P (c_jr q) -> Forall (Forall P) (relayout q).
Proof.
  intros H1 H2 H3 H4. assert (HVL : Forall P (c_von q ++ c_last q)) by (apply Forall_app; split; assumption).
  unfold relayout. destruct (c_first q), (c_jr q); repeat (constructor; [assumption|]); constructor.
Qed.

Lemma merge_layout s p (Q : str -> Prop) : spec_parse s = Some p -> admissible p -> Forall Q (all_words p) ->
  exists Lay, merge1 p = render Lay /\ Lay <> [] /\ Forall sec_ok Lay /\ Forall (Forall (fun w => Q (text w) /\ pend w = false)) Lay.
Proof.
  intros Hs [HLne Hodd] HQ. unfold spec_parse in Hs.
  destruct (invalid_name s) eqn:Einv; [discriminate|].
  remember (name_sections s) as X eqn:EX.
  assert (Hp : p = partition_spec X).
  { destruct (forallb is_nil X); inversion Hs; subst; [exfalso; apply HLne; reflexivity | reflexivity]. }
  clear Hs. rewrite partition_cw_strs in Hp. set (q := partition_cw X) in *.
  unfold invalid_name in Einv. apply orb_false_iff in Einv. destruct Einv as [Einv Etr].
  apply orb_false_iff in Einv. destruct Einv as [Eunb Etm].
  assert (Hbal : balanced (atoms s) = true) by (unfold unbalanced in Eunb; destruct (balanced (atoms s)); [reflexivity | discriminate]).
  (* the words of s are good, and so are the words of the parts *)
  assert (HX : X = map (map tw) (asecs s)) by (rewrite EX; apply name_sections_asecs).
  assert (Hodd' : Forall (fun t => ends_odd_bs t = false) (all_words p)).
  { unfold no_word_ends_odd_backslash in Hodd. rewrite forallb_forall in Hodd. apply Forall_forall. intros t Ht.
    specialize (Hodd t Ht). destruct (ends_odd_bs t); [discriminate | reflexivity]. }
  assert (HgX : Forall (Forall (fun x => exists w, x = tw w /\ good w)) X).
  { rewrite HX. apply Forall_map. eapply Forall_impl; [|apply (asecs_good s Hbal)].
    intros sec Hsec. apply Forall_map. eapply Forall_impl; [|exact Hsec]. intros w Hw. exists w. auto. }
  destruct (parts_Forall _ X HgX) as (G1 & G2 & G3 & G4). fold q in G1, G2, G3, G4.
  rewrite Hp in Hodd', HQ. unfold all_words, strs in Hodd', HQ. cbn [n_first n_von n_last n_jr] in Hodd', HQ.
  apply Forall_app in HQ. destruct HQ as [Q1 HQ].
  apply Forall_app in HQ. destruct HQ as [Q2 HQ].
  apply Forall_app in HQ. destruct HQ as [Q3 Q4].
  rewrite Forall_map in Q1, Q2, Q3, Q4.
  apply Forall_app in Hodd'. destruct Hodd' as [O1 Hodd'].
  apply Forall_app in Hodd'. destruct Hodd' as [O2 Hodd'].
  apply Forall_app in Hodd'. destruct Hodd' as [O3 O4].
  assert (Hcomb : forall l : list cword, Forall (fun x => exists w, x = tw w /\ good w) l ->
                    Forall (fun t => ends_odd_bs t = false) (map fst l) -> Forall goodc l).
  { intros l H1 H2. rewrite Forall_map in H2. induction H1 as [|x l Hx H1 IH]; [constructor|].
    inversion H2; subst. constructor; [|apply IH; assumption].
    destruct Hx as (w & E & Hg). exists w. split; [exact E|]. split; [exact Hg | assumption]. }
  pose proof (Hcomb _ G1 O1) as C1. pose proof (Hcomb _ G2 O2) as C2.
  pose proof (Hcomb _ G3 O3) as C3. pose proof (Hcomb _ G4 O4) as C4.
  assert (HqL : c_last q <> []).
  { intros E. apply HLne. rewrite Hp. unfold strs. cbn [n_last]. rewrite E. reflexivity. }
  (* the shape of the sections *)
  assert (HlenX : length X = length (sections (atoms s))) by (rewrite EX; unfold name_sections; apply map_length).
  assert (HV : valid_layout X).
  { unfold too_many_commas in Etm. rewrite <- HlenX in Etm. unfold trailing_comma in Etr. rewrite <- EX in Etr. clear EX HX HgX.
    pose proof (sections_ne (atoms s)) as Hne. 
    destruct X as [|a [|b [|c [|d r]]]]; cbn [valid_layout].
    - destruct (sections (atoms s)); [contradiction | discriminate].
    - exact I.
    - cbn in Etr. intros ->. discriminate.
    - cbn in Etr. intros ->. discriminate.
    - cbn in Etm. discriminate. }
  assert (HJF : c_jr q <> [] -> c_first q <> []) by (apply jr_first; exact HV).
  pose proof (repartition X HV HqL) as Hrep. fold q in Hrep.
  destruct (relayout_props q C1 C2 C3 C4 HqL HJF) as (HR1 & HR2 & HR3).
  set (Lay := map (map gat) (relayout q)).
  assert (HLayne : Lay <> []) by (apply map_ne; exact HR2).
  assert (HLayok : Forall sec_ok Lay).
  { unfold Lay. apply Forall_map. eapply Forall_impl; [|exact HR1]. intros sec [H1 H2]. apply sec_ok_gat; assumption. }
  assert (Htw : map (map tw) Lay = relayout q).
  { unfold Lay. rewrite map_map. clear - HR1. induction HR1 as [|sec rest [_ Hs] HR IH]; [reflexivity|].
    cbn [map]. rewrite IH, (map_tw_gat sec Hs). reflexivity. }
  assert (Hrender : merge1 p = render Lay).
  { unfold merge1. rewrite Hp.
    assert (Hokc : forall l, Forall goodc l -> Forall okc l).
    { intros l Hl. eapply Forall_impl; [|exact Hl]. intros x Hx. apply (goodc_gat x Hx). }
    rewrite (merge_render q (Hokc _ C1) (Hokc _ C2) (Hokc _ C3) (Hokc _ C4) HqL HJF).
    unfold render, Lay. rewrite map_map. f_equal.
    clear - HR1. induction HR1 as [|sec rest [_ Hs] HR IH]; [reflexivity|].
    cbn [map]. rewrite IH, (sec_text_gat sec Hs). reflexivity. }
  exists Lay. split; [exact Hrender|]. split; [exact HLayne|]. split; [exact HLayok|].
  pose proof (relayout_Forall (fun x => goodc x /\ Q (fst x)) q) as HRQ.
  assert (Hand : forall l : list cword, Forall goodc l -> Forall (fun x => Q (fst x)) l -> Forall (fun x => goodc x /\ Q (fst x)) l).
  { intros l H1 H2. induction H1 as [|x l Hx H1 IH]; [constructor|]. inversion H2; subst. constructor; [split; assumption | apply IH; assumption]. }
  specialize (HRQ (Hand _ C1 Q1) (Hand _ C2 Q2) (Hand _ C3 Q3) (Hand _ C4 Q4)).
  unfold Lay. apply Forall_map. eapply Forall_impl; [|exact HRQ]. intros sec Hsec. apply Forall_map.
  eapply Forall_impl; [|exact Hsec]. intros x [Hg Hq]. destruct (goodc_gat x Hg) as (_ & _ & Hpe & E & _). rewrite E. split; assumption.
Qed.

(* ---------------------------------------------------------------- the rendering as a list of words *)
Definition commalast (ws : list str) : list str := removelast ws ++ [last ws [] ++ [c_comma]].
Fixpoint wtexts (Lay : list (list (list atom))) : list str :=
  match Lay with
  | [] => []
  | sec :: rest => match rest with [] => map text sec | _ => commalast (map text sec) ++ wtexts rest end
  end.

Lemma commalast_cons w w2 r : commalast (w :: w2 :: r) = w :: commalast (w2 :: r).
Proof. reflexivity. Qed.

Lemma join_commalast ws : ws <> [] -> join sp1 (commalast ws) = join sp1 ws ++ [c_comma] /\ commalast ws <> [].
Proof.
  induction ws as [|w ws IH]; intros Hne; [contradiction|].
  destruct ws as [|w2 r]; [split; [reflexivity | discriminate]|].
  destruct (IH ltac:(discriminate)) as [I1 I2].
  rewrite commalast_cons. split; [|discriminate].
  rewrite (join_cons_ne sp1 w _ I2), I1. change (join sp1 (w :: w2 :: r)) with (w ++ sp1 ++ join sp1 (w2 :: r)).
  rewrite <- !app_assoc. reflexivity.
Qed.

Lemma render_words Lay : Lay <> [] -> Forall (fun sec : list (list atom) => sec <> []) Lay ->
  render Lay = join sp1 (wtexts Lay) /\ wtexts Lay <> [].
Proof.
  induction Lay as [|sec Lay IH]; intros Hne HF; [contradiction|].
  inversion HF as [|? ? Hs HF']; subst.
  destruct Lay as [|s2 r].
  - unfold render. cbn [map join wtexts]. split; [reflexivity | apply map_ne; exact Hs].
  - destruct (IH ltac:(discriminate) HF') as [I1 I2].
    destruct (join_commalast (map text sec) (map_ne _ _ Hs)) as [J1 J2].
    assert (Ew : wtexts (sec :: s2 :: r) = commalast (map text sec) ++ wtexts (s2 :: r)) by reflexivity.
    rewrite Ew. split; [|intros E; apply app_eq_nil in E; destruct E; contradiction].
    unfold render in *. cbn [map]. rewrite join_cons2. cbn [map] in I1. rewrite I1.
    rewrite (join_app_ne _ _ J2 I2), J1. unfold sec_text, comma_sp, sp1. rewrite <- !app_assoc. reflexivity.
Qed.

Definition wgood (t : str) : Prop := cword_ok t /\ is_and_word t = false.

Lemma comma_not_and t : is_and_word (t ++ [c_comma]) = false.
Proof. destruct t as [|a [|n [|d t']]]; try reflexivity. cbn. replace (is_dD c_comma) with false by reflexivity. rewrite !andb_false_r. reflexivity. destruct t'; reflexivity. Qed.

Lemma commalast_good ws : ws <> [] -> Forall wgood ws -> Forall wgood (commalast ws).
Proof.
  induction ws as [|w ws IH]; intros Hne HF; [contradiction|]. inversion HF as [|? ? [Hw _] HF']; subst.
  destruct ws as [|w2 r].
  - cbn. constructor; [|constructor]. split; [apply comma_cword; exact Hw | apply comma_not_and].
  - rewrite commalast_cons. constructor; [inversion HF; assumption | apply IH; [discriminate | exact HF']].
Qed.

Lemma wtexts_good Lay : Forall (fun sec : list (list atom) => sec <> [] /\ Forall (fun w => wgood (text w)) sec) Lay ->
  Forall wgood (wtexts Lay).
Proof.
  induction Lay as [|sec Lay IH]; intros HF; [constructor|]. inversion HF as [|? ? [Hne Hs] HF']; subst.
  assert (Hm : Forall wgood (map text sec)) by (apply Forall_map; exact Hs).
  destruct Lay as [|s2 r]; [exact Hm|].
  assert (Ew : wtexts (sec :: s2 :: r) = commalast (map text sec) ++ wtexts (s2 :: r)) by reflexivity.
  rewrite Ew. apply Forall_app. split; [apply commalast_good; [apply map_ne; exact Hne | exact Hm] | apply IH; exact HF'].
Qed.

(* ---------------------------------------------------------------- 4: splitting a join of and-free names *)
Lemma allwords_cons2 ws ws2 WS : allwords (ws :: ws2 :: WS) = ws ++ and_w :: allwords (ws2 :: WS).
Proof. reflexivity. Qed.

Lemma join_names WS : Forall (fun ws : list str => ws <> []) WS ->
  join and_sep (map (join sp1) WS) = join sp1 (allwords WS) /\ (WS <> [] -> allwords WS <> []).
Proof.
  induction WS as [|ws WS IH]; intros HF; [split; [reflexivity | intros H; contradiction]|].
  inversion HF as [|? ? Hne HF']; subst. destruct (IH HF') as [I1 I2].
  destruct WS as [|ws2 WS'].
  - cbn [map join allwords flat_map]. rewrite app_nil_r. split; [reflexivity | intros _; exact Hne].
  - rewrite allwords_cons2. split; [|intros _ E; apply app_eq_nil in E; destruct E; contradiction].
    cbn [map]. rewrite join_cons2. cbn [map] in I1. rewrite I1.
    rewrite (join_app_ne ws (and_w :: allwords (ws2 :: WS')) Hne ltac:(discriminate)).
    rewrite (join_cons_ne sp1 and_w _ (I2 ltac:(discriminate))).
    rewrite and_sep_eq. unfold sp1, sp_s. rewrite <- !app_assoc. reflexivity.
Qed.

Lemma and_cword : cword_ok and_w.
Proof. constructor; [discriminate | apply and_item_ok | vm_compute; reflexivity | vm_compute; reflexivity]. Qed.

Lemma items_sok L : Forall item_ok L -> sok L.
Proof. intros H. induction H as [|x L Hx H IH]; [exact I|]. apply sok_cons; assumption. Qed.

Lemma wr_props ws : Forall cword_ok ws -> Forall item_ok (wr ws) /\ altr (wr ws) /\ texts_ne (wr ws).
Proof.
  destruct and_item_ok as [_ Hsp].
  intros HF. destruct ws as [|w r]; [split; [constructor|]; split; [exact I | constructor]|]. inversion HF as [|? ? Hw Hr]; subst.
  assert (HT : Forall item_ok (tailruns r) /\ altr (tailruns r) /\ texts_ne (tailruns r) /\ hdpol (tailruns r) <> Some false).
  { clear - Hr Hsp. induction Hr as [|x r Hx Hr (I1 & I2 & I3 & I4)].
    - split; [constructor|]. split; [exact I|]. split; [constructor|]. cbn. discriminate.
    - cbn [tailruns flat_map app]. fold (tailruns r).
      split; [constructor; [exact Hsp|]; constructor; [apply (cw_item _ Hx) | exact I1]|].
      split; [cbn [altr hdpol]; split; [discriminate|]; split; [exact I4 | exact I2]|].
      split; [constructor; [discriminate|]; constructor; [apply (cw_ne _ Hx) | exact I3]|].
      cbn. discriminate. }
  destruct HT as (T1 & T2 & T3 & T4). cbn [wr].
  split; [constructor; [apply (cw_item _ Hw) | exact T1]|].
  split; [cbn [altr]; split; [exact T4 | exact T2]|].
  constructor; [apply (cw_ne _ Hw) | exact T3].
Qed.

Lemma Forall_hd_last {A} (P : A -> Prop) l d : l <> [] -> Forall P l -> P (hd d l) /\ P (last l d).
Proof.
  intros Hne HF. induction HF as [|x l Hx HF IH]; [contradiction|]. split; [exact Hx|].
  destruct l as [|y l']; [exact Hx|]. apply IH. discriminate.
Qed.

Lemma split_words_join WS : WS <> [] -> Forall (fun ws => ws <> [] /\ Forall wgood ws) WS ->
  split_names (join and_sep (map (join sp1) WS)) = map (join sp1) WS.
Proof.
  intros HWne HF.
  assert (HFne : Forall (fun ws : list str => ws <> []) WS) by (eapply Forall_impl; [|exact HF]; intros ws [H _]; exact H).
  destruct (join_names WS HFne) as [Ej Hane]. specialize (Hane HWne).
  set (AW := allwords WS) in *.
  assert (HAW : Forall cword_ok AW).
  { unfold AW. clear - HF. induction HF as [|ws WS [_ Hws] HF IH]; [constructor|].
    assert (Hc : Forall cword_ok ws) by (eapply Forall_impl; [|exact Hws]; intros t [H _]; exact H).
    destruct WS as [|ws2 WS']; [cbn [allwords flat_map]; rewrite app_nil_r; exact Hc|].
    rewrite allwords_cons2. apply Forall_app. split; [exact Hc|]. constructor; [apply and_cword | exact IH]. }
  destruct (wr_props AW HAW) as (Hitems & Haltr & Htne).
  pose proof (items_sok _ Hitems) as Hsok.
  destruct (sok_consistent _ Hsok) as [Hm Hb]. rewrite ftext_wr in Hm, Hb.
  set (t' := join sp1 AW) in *.
  assert (HAWne : Forall (fun p : str => p <> []) AW) by (eapply Forall_impl; [|exact HAW]; intros t H; apply (cw_ne _ H)).
  destruct (join_ends sp1 AW Hane HAWne) as (Hjne & Hh & Hl). fold t' in Hjne, Hh, Hl.
  destruct (Forall_hd_last cword_ok AW [] Hane HAW) as [Hhd Hla].
  assert (Estrip : strip4 t' = t').
  { apply strip_id; [exact Hjne | rewrite Hh; apply (cw_hd _ Hhd) | rewrite Hl; apply (cw_last _ Hla)]. }
  rewrite Ej. fold t'.
  rewrite (split_exact t') by (rewrite Estrip; exact Hb).
  unfold ref_split. rewrite Estrip. unfold marks. rewrite Hm.
  rewrite (runs_flat _ Haltr Htne).
  unfold AW. apply walk_names.
  eapply Forall_impl; [|exact HF]. intros ws [Hne Hws]. split; [exact Hne|].
  eapply Forall_impl; [|exact Hws]. intros t [Hc Hna]. split; [apply (cw_ne _ Hc) | exact Hna].
Qed.

(* ---------------------------------------------------------------- the theorem *)
Lemma map_eq_exists {A B C} (f : A -> C) (g : B -> C) l : forall l', map f l = map g l' -> Forall (fun y => exists x, f x = g y) l'.
Proof.
  induction l as [|x l IH]; intros [|y l'] H; try discriminate; [constructor|].
  cbn in H. inversion H. constructor; [exists x; assumption | apply IH; assumption].
Qed.

Theorem list_inverse_except_known v ps : persons_of v = map POk ps -> Forall admissible ps ->
  known_C14_K3_b ps = false -> persons_of (merge_names (map merge1 ps)) = map POk ps.
Proof.
  intros Hv Hadm Hk.
  destruct ps as [|p0 ps0]; [reflexivity|].
  set (ps := p0 :: ps0) in *.
  pose proof (map_eq_exists split1 (@POk parts) (split_names v) ps Hv) as Hsrc.
  assert (HK : Forall (fun p => Forall (fun t => is_and_word t = false) (all_words p)) ps).
  { unfold known_C14_K3_b in Hk. apply Forall_forall. intros p Hp. apply Forall_forall. intros t Ht.
    destruct (is_and_word t) eqn:E; [|reflexivity]. exfalso.
    assert (existsb k3_word ps = true); [|congruence].
    apply existsb_exists. exists p. split; [exact Hp|]. unfold k3_word. apply existsb_exists. exists t. auto. }
  assert (HWS : exists WS, map merge1 ps = map (join sp1) WS /\ Forall (fun ws => ws <> [] /\ Forall wgood ws) WS /\ length WS = length ps).
  { clear Hv Hk. induction ps as [|p ps' IH]; [exists []; repeat split; constructor|].
    inversion Hadm as [|? ? Ha Hadm']; subst. inversion Hsrc as [|? ? [s Hs] Hsrc']; subst. inversion HK as [|? ? Hq HK']; subst.
    destruct (IH Hadm' Hsrc' HK') as (WS & E & HF & HLn).
    apply (proj2 (tok_partition s p)) in Hs.
    destruct (merge_layout s p (fun t => is_and_word t = false) Hs Ha Hq) as (Lay & Er & Hne & Hok & HQ).
    assert (Hsne : Forall (fun sec : list (list atom) => sec <> []) Lay) by (eapply Forall_impl; [|exact Hok]; intros sec [H _]; exact H).
    destruct (render_words Lay Hne Hsne) as [Erw Hwne].
    exists (wtexts Lay :: WS). cbn [map length]. rewrite E, Er, Erw. split; [reflexivity|]. split; [|rewrite HLn; reflexivity].
    constructor; [|exact HF]. split; [exact Hwne|]. apply wtexts_good.
    clear - Hok HQ. induction Hok as [|sec Lay (Hn & Hg & _) Hok IH]; [constructor|]. inversion HQ as [|? ? Hq HQ']; subst.
    constructor; [|apply IH; exact HQ']. split; [exact Hn|].
    clear - Hg Hq. induction Hg as [|w sec Hw Hg IH]; [constructor|]. inversion Hq as [|? ? [Hna Hpe] Hq']; subst.
    constructor; [|apply IH; exact Hq']. split; [apply good_cword; assumption | exact Hna]. }
  destruct HWS as (WS & E & HF & HLn).
  assert (HWne : WS <> []) by (destruct WS; [simpl in HLn; discriminate | discriminate]).
  unfold persons_of, merge_names. rewrite E, (split_words_join WS HWne HF), <- E. rewrite map_map.
  clear - Hadm Hsrc. induction ps as [|p ps' IH]; [reflexivity|].
  inversion Hadm as [|? ? Ha Hadm']; subst. inversion Hsrc as [|? ? [s Hs] Hsrc']; subst.
  cbn [map]. rewrite (person_inverse s p Hs Ha), (IH Hadm' Hsrc'). reflexivity.
Qed.
