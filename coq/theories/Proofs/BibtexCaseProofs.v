(* Known finding K14, machine-checked: the word case of Spec/C13 (which C13_partition proves to be the library's) is not
   the one of BibTeX's von_token_found (Spec/BibtexCase.v) on words that hold a special character or an escape. *)
From Coq Require Import List NArith ZArith Bool String.
Local Open Scope string_scope.
From BP Require Import Base.Chars Model.Blocks Gen.Constants Model.Names Spec.C13 Spec.BibtexCase.
Import ListNotations.

Definition lib_von (w : str) : bool := match word_case (atoms w) with Lower => true | _ => false end.

(* D1 .. D5 of the finding, one word each: (library says von, BibTeX says von) *)
Definition k14_words : list (str * (bool * bool)) :=
  [ (lit "{\v{C}}apek", (true, false));    (* D1 first letter in a braced accent argument *)
    (lit "{\'{e}}", (false, true));
    (lit "{\O}rsted", (true, false));      (* D2 built-in control word *)
    (lit "{\aa}Berg", (false, true));
    (lit "{\'}x", (true, false));          (* D3 special character without a letter *)
    (lit "{Val\o}", (true, false));        (* D4 alphabetic escape inside an ordinary group *)
    (lit "{{\'e}}", (true, false)) ].      (* D5 'special character' at level 2 *)

Lemma k14_words_differ :
  forallb (fun x => Bool.eqb (lib_von (fst x)) (fst (snd x)) && Bool.eqb (von_token_found (fst x)) (snd (snd x))
                    && negb (Bool.eqb (lib_von (fst x)) (von_token_found (fst x)))) k14_words = true.
Proof. vm_compute. reflexivity. Qed.

Lemma word_case_refuted : exists w, lib_von w = true /\ von_token_found w = false.
Proof. exists (lit "{\O}rsted"). split; vm_compute; reflexivity. Qed.

Lemma partition_refuted : exists s p w,
  parse_name true s = POk p /\ n_first p = [lit "Bent"] /\ n_von p = [w] /\ n_last p = [lit "Hansen"]
  /\ von_token_found w = false.
Proof.
  exists (lit "Bent {\O}rsted Hansen"), (mkparts [lit "Bent"] [lit "{\O}rsted"] [lit "Hansen"] []), (lit "{\O}rsted").
  repeat split; vm_compute; reflexivity.
Qed.

(* a TEST, not a theorem about all words: forms on which the two agree (words without a backslash, escapes at brace
   level 0, the usual one-letter accents) *)
Definition agree_words : list str := map lit
  ["von"; "Von"; "{von}"; "{V}on"; "{v}On"; "123"; "d'Alembert"; "de"; "la"; "{\'E}douard"; "{\'e}douard"; "{\'e}";
   "\'{E}mile"; "\v{C}apek"; "\AA"; "\o"; "\ss{}"; "\L{}ukasz"; "\'Emile"; "{Val\'{e}ry}"; "{\i}x"; "M{\""u}ller"; "{\""U}ber"].
Lemma agree_sample : forallb (fun w => Bool.eqb (lib_von w) (von_token_found w)) agree_words = true.
Proof. vm_compute. reflexivity. Qed.
