(* C01: parse_string / write_string with the default stacks never raise (totality of the composed model).
   Invariant carried through the default parse stack: every block is "splitter-shaped" (good_block):
   field values and @string values are VStr and every block (also the blocks inside duplicate wrappers)
   has raw text. *)
From Coq Require Import List NArith ZArith Bool Lia String.
From BP Require Import Base.Chars Model.Blocks Model.LibAdd Model.Lexer Model.Splitter Model.Enclosing
  Model.Interpolate Model.Writer Model.Pipeline Gen.Constants Proofs.SplitTotal.
Import ListNotations.

(* ------------------------------------------------------------------ the invariant *)
Definition has_raw (h : hdr) : bool := match raw h with Some _ => true | None => false end.
Definition good_field (f : field) : bool := is_vstr (fval f).
(* entry.parser_metadata["removed_enclosing"] is absent, None or a dict: AddEnclosing calls .get on it whatever
   reuse_previous_enclosing says (see [meta_needed] at the end of this file) *)
Definition meta_ok (h : hdr) : bool :=
  match dict_get (meta h) remove_enclosing_metadata_key with
  | None | Some VNone | Some (VDict _) => true
  | _ => false
  end.

Fixpoint good_blockb (b : block) : bool :=
  match b with
  | BEntry h _ _ fs => has_raw h && meta_ok h && forallb good_field fs
  | BString h _ v => has_raw h && is_vstr v
  | BPreamble h _ | BExpl h _ | BImpl h _ | BFailed h _ => has_raw h
  | BMwErr h _ i => has_raw h && good_blockb i
  | BDupKey h _ p d => has_raw h && good_blockb p && good_blockb d
  | BDupField h _ e => has_raw h && good_blockb e
  end.
Definition good_block (b : block) : Prop := good_blockb b = true.

Lemma good_has_raw b : good_block b -> has_raw (bhdr b) = true.
Proof.
  unfold good_block. destruct b; cbn; intros H; repeat (apply andb_true_iff in H as [H ?]); assumption.
Qed.

Lemma has_raw_ex h : has_raw h = true -> exists r, raw h = Some r.
Proof. unfold has_raw. destruct (raw h); [eauto|discriminate]. Qed.

Lemma Forall_rv {A} (P : A -> Prop) l : Forall P l -> Forall P (rv l).
Proof. rewrite rv_rev. apply Forall_rev. Qed.

Lemma forallb_rv {A} (p : A -> bool) l : forallb p l = true -> forallb p (rv l) = true.
Proof.
  rewrite rv_rev, !forallb_forall. intros H x Hx. apply H. apply in_rev. exact Hx.
Qed.

(* ------------------------------------------------------------------ the splitter only builds good blocks *)
Definition sgood (s : st) : Prop :=
  Forall good_block (out_rev s) /\ forallb good_field (flds_rev (ob s)) = true.

Lemma hdr_of_raw o : has_raw (hdr_of o) = true.
Proof. reflexivity. Qed.

Lemma good_entry_block o : forallb good_field (flds_rev o) = true -> good_block (entry_block o).
Proof.
  intros H. unfold good_block, entry_block.
  destruct (dups o); cbn; rewrite forallb_rv; auto.
Qed.
Lemma good_braces_block k o : good_block (braces_block k o).
Proof. destruct k; reflexivity. Qed.
Lemma good_failed_block o r : good_block (failed_block o r).
Proof. reflexivity. Qed.

Lemma good_flush_ic s : Forall good_block (out_rev s) -> Forall good_block (flush_ic s).
Proof.
  intros H. unfold flush_ic, end_implicit.
  destruct (skip_leading (rv (ic_rev s)) 0) as [rest n].
  destruct (rstrip rest); [exact H|]. constructor; [reflexivity|exact H].
Qed.

Lemma sgood_step_out s c k : Forall good_block (out_rev s) -> forallb good_field (flds_rev (ob s)) = true ->
  sgood (step_out s c k).
Proof.
  intros H1 H2. unfold step_out. destruct k as [[]|]; split; cbn; auto using good_flush_ic.
Qed.

Lemma sgood_abort s r c k : sgood s -> sgood (abort s r c k).
Proof.
  intros [H1 H2]. unfold abort. apply sgood_step_out; cbn; auto.
  constructor; [apply good_failed_block|exact H1].
Qed.

Lemma sgood_upd s m o : sgood s -> forallb good_field (flds_rev o) = true -> sgood (upd s m o).
Proof. intros [H1 H2] H. split; cbn; auto. Qed.
Lemma sgood_upd_nl s o : sgood s -> forallb good_field (flds_rev o) = true -> sgood (upd_nl s o).
Proof. intros [H1 H2] H. split; cbn; auto. Qed.
Lemma sgood_close s b : sgood s -> good_block b -> sgood (close_block s b).
Proof. intros [H1 H2] H. split; cbn; auto. Qed.

Lemma flds_ob_field o : forallb good_field (flds_rev o) = true -> forallb good_field (flds_rev (ob_field o)) = true.
Proof. intros H. cbn. exact H. Qed.

Ltac sg_fields H2 :=
  cbn -[starts_with lower rv strip s_comment s_preamble s_string mem_str]; first [exact H2 | reflexivity].

Lemma step_sgood s ck : sgood s -> sgood (step s ck).
Proof.
  intros G. destruct ck as [c k]. pose proof G as [H1 H2]. unfold step.
  destruct (md s) eqn:M; [apply sgood_step_out; assumption| | | | | | |exact G];
  destruct k as [[]|];
  repeat match goal with |- context [if ?b then _ else _] => destruct b end;
  first
  [ apply sgood_abort; exact G
  | apply sgood_upd; [exact G | sg_fields H2]
  | apply sgood_upd_nl; [exact G | sg_fields H2]
  | apply sgood_close; [exact G |
      first [ apply good_braces_block | apply good_entry_block; sg_fields H2 ] ] ].
Qed.

Lemma fold_step_sgood l : forall s, sgood s -> sgood (fold_left step l s).
Proof. induction l as [|x l IH]; intros s G; cbn; [exact G|]. apply IH, step_sgood, G. Qed.

Lemma run_sgood t : sgood (run t).
Proof. unfold run. apply fold_step_sgood. split; [constructor|reflexivity]. Qed.

Theorem split_raw_good t bs : split_raw t = Blocks bs -> Forall good_block bs.
Proof.
  unfold split_raw, finish. destruct (run_sgood t) as [H1 H2].
  destruct (md (run t)); intros E; try discriminate; injection E as <-; apply Forall_rv;
    try (constructor; [apply good_failed_block|exact H1]).
  apply good_flush_ic, H1.
Qed.

(* ------------------------------------------------------------------ Library(blocks) keeps good blocks good *)
Definition str_ok (b : block) : Prop := good_block b /\ is_vstr (string_value b) = true.
Definition lgood (l : libst) : Prop :=
  Forall good_block (lrev l) /\ Forall (fun p => good_block (snd p)) (ents l) /\ Forall (fun p => str_ok (snd p)) (strs l).

Lemma dict_get_Forall {V} (Q : V -> Prop) (d : list (str * V)) k v :
  Forall (fun p => Q (snd p)) d -> dict_get d k = Some v -> Q v.
Proof.
  induction 1 as [|[k' v'] d H _ IH]; cbn; [discriminate|].
  destruct (str_eqb k k'); [intros E; injection E as <-; exact H|exact IH].
Qed.

Lemma add_block_good l b : lgood l -> good_block b -> lgood (add_block l b).
Proof.
  intros (H1 & H2 & H3) G. unfold add_block.
  destruct b; try (split; [constructor; assumption|split; assumption]).
  - destruct (dict_get (ents l) key) eqn:E.
    + split; [|split; assumption]. constructor; [|exact H1].
      pose proof (dict_get_Forall _ _ _ _ H2 E) as Gp.
      unfold good_block in *. cbn in G |- *. apply andb_true_iff in G as [Gr Gf].
      apply andb_true_iff in Gr as [Gr Gm].
      unfold has_raw in *. cbn. rewrite Gr, Gm, Gp, Gf. reflexivity.
    + split; [constructor; assumption|split; [constructor; assumption|assumption]].
  - destruct (dict_get (strs l) key) eqn:E.
    + split; [|split; assumption]. constructor; [|exact H1].
      pose proof (dict_get_Forall _ _ _ _ H3 E) as [Gp _].
      unfold good_block in *. cbn in G |- *. apply andb_true_iff in G as [Gr Gf].
      unfold has_raw in *. cbn. rewrite Gr, Gp, Gf. reflexivity.
    + split; [constructor; assumption|split; [assumption|constructor; [|assumption]]].
      split; [exact G|]. unfold good_block in G. cbn in G |- *. apply andb_true_iff in G as [_ G]. exact G.
Qed.

Lemma add_all_good bs : forall l, lgood l -> Forall good_block bs -> lgood (lib_add_all bs l).
Proof.
  unfold lib_add_all. induction bs as [|b bs IH]; intros l L G; cbn; [exact L|].
  inversion G; subst. apply IH; [apply add_block_good; assumption|assumption].
Qed.

Lemma lib_of_good bs : Forall good_block bs -> lgood (lib_of bs).
Proof. intros G. apply add_all_good; [|exact G]. repeat split; constructor. Qed.

Lemma rebuild_good bs : Forall good_block bs -> Forall good_block (rebuild bs).
Proof. intros G. apply Forall_rv. apply (lib_of_good bs G). Qed.

Lemma add_block_length l b : List.length (lrev (add_block l b)) = S (List.length (lrev l)).
Proof.
  unfold add_block. destruct b; try reflexivity.
  - destruct (dict_get (ents l) key); reflexivity.
  - destruct (dict_get (strs l) key); reflexivity.
Qed.
Lemma add_all_length bs : forall l, List.length (lrev (lib_add_all bs l)) = List.length bs + List.length (lrev l).
Proof.
  unfold lib_add_all. induction bs as [|b bs IH]; intros l; cbn; [reflexivity|].
  rewrite IH, add_block_length. lia.
Qed.
Lemma rv_length {A} (l : list A) : List.length (rv l) = List.length l.
Proof. rewrite rv_rev. apply rev_length. Qed.
Lemma rebuild_length bs : List.length (rebuild bs) = List.length bs.
Proof. unfold rebuild, lblocks, lib_of. rewrite rv_length, add_all_length. cbn. lia. Qed.

Theorem split_good t bs : split t = Blocks bs -> Forall good_block bs.
Proof.
  unfold split. destruct (split_raw t) as [bs0|] eqn:E; [|discriminate].
  intros H. injection H as <-. apply rebuild_good. eapply split_raw_good, E.
Qed.

(* ------------------------------------------------------------------ ResolveStringReferences *)
Lemma resolve_fields_good sd fs : Forall (fun p => str_ok (snd p)) sd -> forallb good_field fs = true ->
  forallb good_field (fst (resolve_fields sd fs)) = true.
Proof.
  intros S. induction fs as [|f r IH]; cbn; [reflexivity|].
  intros H. apply andb_true_iff in H as [Hf Hr]. specialize (IH Hr).
  destruct (resolve_fields sd r) as [r' ks]. cbn in IH.
  destruct (nonstring_or_enclosed (fval f)); [cbn; rewrite Hf, IH; reflexivity|].
  destruct (fval f) eqn:V; try (cbn; rewrite Hf, IH; reflexivity).
  destruct (dict_get sd s) eqn:E; [|cbn; rewrite Hf, IH; reflexivity].
  pose proof (dict_get_Forall _ _ _ _ S E) as [_ Hv].
  cbn. unfold good_field at 1. cbn. rewrite Hv, IH. reflexivity.
Qed.

Lemma has_raw_set_meta h k v : has_raw (set_meta h k v) = has_raw h.
Proof. reflexivity. Qed.

Lemma dict_get_set {V} (d : list (str * V)) k v k' :
  dict_get (dict_set d k v) k' = if str_eqb k' k then Some v else dict_get d k'.
Proof.
  induction d as [|[k0 v0] d IH]; cbn; [reflexivity|].
  destruct (str_eqb k k0) eqn:E; cbn.
  - apply str_eqb_eq in E. subst k0. destruct (str_eqb k' k); reflexivity.
  - rewrite IH. destruct (str_eqb k' k0) eqn:E0; [|reflexivity].
    destruct (str_eqb k' k) eqn:E1; [|reflexivity].
    apply str_eqb_eq in E0, E1. subst. rewrite str_eqb_refl in E. discriminate.
Qed.

Lemma meta_ok_set_other h k v : str_eqb remove_enclosing_metadata_key k = false -> meta_ok (set_meta h k v) = meta_ok h.
Proof. intros E. unfold meta_ok, set_meta. cbn [meta]. rewrite dict_get_set, E. reflexivity. Qed.
Lemma meta_ok_set_dict h d : meta_ok (set_meta h remove_enclosing_metadata_key (VDict d)) = true.
Proof. unfold meta_ok, set_meta. cbn [meta]. rewrite dict_get_set, str_eqb_refl. reflexivity. Qed.

Lemma resolve_block_good sd b : Forall (fun p => str_ok (snd p)) sd -> good_block b -> good_block (resolve_block sd b).
Proof.
  intros S G. destruct b; try exact G. unfold resolve_block.
  unfold good_block in G. cbn in G. apply andb_true_iff in G as [Gr Gf].
  apply andb_true_iff in Gr as [Gr Gm].
  pose proof (resolve_fields_good sd fields S Gf) as H.
  destruct (resolve_fields sd fields) as [fs' ks]. cbn in H.
  destruct ks; unfold good_block; cbn -[meta_ok set_meta];
    rewrite ?has_raw_set_meta, ?meta_ok_set_other, Gr, Gm, H by reflexivity; reflexivity.
Qed.

Lemma resolve_lib_good bs : Forall good_block bs -> Forall good_block (resolve_lib bs).
Proof.
  intros G. destruct (lib_of_good bs G) as (H1 & _ & H3).
  unfold resolve_lib, resolve_on. apply Forall_forall. intros x Hx.
  apply in_map_iff in Hx as (b & <- & Hb). apply resolve_block_good; [exact H3|].
  apply Forall_rv in H1. rewrite Forall_forall in H1. apply H1, Hb.
Qed.

Lemma resolve_lib_length bs : List.length (resolve_lib bs) = List.length bs.
Proof. unfold resolve_lib, resolve_on. rewrite map_length. apply rebuild_length. Qed.

(* ------------------------------------------------------------------ BlockMiddleware.transform *)
Lemma map_res_total {T U} (f : T -> Enclosing.res U) (P : T -> Prop) (Q : U -> Prop) l :
  (forall x, P x -> exists y, f x = Enclosing.Val y /\ Q y) -> Forall P l ->
  exists l', map_res f l = Enclosing.Val l' /\ Forall Q l' /\ List.length l' = List.length l.
Proof.
  intros F. induction 1 as [|x l Hx _ IH]; cbn; [exists []; auto|].
  destruct (F x Hx) as (y & -> & Hy). destruct IH as (l' & -> & Hl & Len).
  exists (y :: l'). cbn. auto.
Qed.

Lemma block_mw_total f bs :
  (forall b, good_block b -> exists b', f b = Enclosing.Val b' /\ good_block b') -> Forall good_block bs ->
  exists bs', block_mw f bs = Enclosing.Val bs' /\ Forall good_block bs' /\ List.length bs' = List.length bs.
Proof.
  intros F G. destruct (map_res_total f good_block good_block bs F G) as (l' & E & Hl & Len).
  unfold block_mw. rewrite E. exists (rebuild l'). split; [reflexivity|]. split; [apply rebuild_good, Hl|].
  rewrite rebuild_length. exact Len.
Qed.

(* ------------------------------------------------------------------ RemoveEnclosing *)
Lemma remove_fields_total fs : forallb good_field fs = true -> forall md,
  exists fs' md', remove_fields fs md = Enclosing.Val (fs', md') /\ forallb good_field fs' = true.
Proof.
  induction fs as [|f r IH]; cbn; intros H md; [exists [], md; auto|].
  apply andb_true_iff in H as [Hf Hr]. unfold good_field in Hf.
  destruct (fval f) eqn:V; try discriminate. cbn.
  destruct (strip_enclosing s) as [s' e].
  destruct (IH Hr (dict_set md (fkey f) (VStr e))) as (r' & md' & -> & Hg).
  exists (mkfield (fkey f) (VStr s') (fline f) :: r'), md'. split; [reflexivity|]. cbn. exact Hg.
Qed.

Lemma remove_block_total b : good_block b -> exists b', remove_block b = Enclosing.Val b' /\ good_block b'.
Proof.
  intros G. destruct b; try (eexists; split; [reflexivity|exact G]).
  - unfold good_block in G. cbn in G. apply andb_true_iff in G as [Gr Gf].
    destruct (remove_fields_total fields Gf []) as (fs' & md' & E & Hg).
    apply andb_true_iff in Gr as [Gr _].
    cbn. rewrite E. eexists; split; [reflexivity|]. unfold good_block. cbn -[meta_ok set_meta].
    rewrite has_raw_set_meta, meta_ok_set_dict, Gr, Hg. reflexivity.
  - unfold good_block in G. cbn in G. apply andb_true_iff in G as [Gr Gv].
    destruct v; try discriminate. cbn. destruct (strip_enclosing s) as [s' e].
    eexists; split; [reflexivity|]. unfold good_block. cbn. rewrite has_raw_set_meta, Gr. reflexivity.
Qed.

Lemma remove_lib_total bs : Forall good_block bs ->
  exists bs', remove_lib bs = Enclosing.Val bs' /\ Forall good_block bs' /\ List.length bs' = List.length bs.
Proof. apply block_mw_total. exact remove_block_total. Qed.

Lemma default_stack_total bs : Forall good_block bs ->
  exists bs', default_stack bs = Enclosing.Val bs' /\ Forall good_block bs' /\ List.length bs' = List.length bs.
Proof.
  intros G. unfold default_stack.
  destruct (remove_lib_total _ (resolve_lib_good bs G)) as (bs' & E & H & L).
  exists bs'. rewrite resolve_lib_length in L. auto.
Qed.

(* ================================================================== (1) parse_string never raises *)
Theorem parse_default_good t : exists bs, parse_default t = PVal bs /\ Forall good_block bs.
Proof.
  unfold parse_default. destruct (split_total t) as [bs0 E]. rewrite E.
  destruct (default_stack_total bs0 (split_good t bs0 E)) as (bs & -> & G & _). eauto.
Qed.

Theorem parse_default_total : forall t, exists bs, parse_default t = PVal bs.
Proof. intros t. destruct (parse_default_good t) as (bs & E & _). eauto. Qed.

(* ------------------------------------------------------------------ AddEnclosing with the default configuration *)
(* what the writer needs of a block: raw text, and str values *)
Definition wgood (b : block) : bool :=
  has_raw (bhdr b) &&
  match b with BEntry _ _ _ fs => forallb good_field fs | BString _ _ v => is_vstr v | _ => true end.

Lemma good_wgood b : good_block b -> wgood b = true.
Proof.
  intros G. unfold wgood. rewrite (good_has_raw b G). unfold good_block in G.
  destruct b; try reflexivity; cbn in G |- *; apply andb_true_iff in G as [_ G]; exact G.
Qed.

Lemma enclose_default s md b : enclose default_add (VStr s) md b = Enclosing.Val (VStr (c_lb :: s ++ [c_rb])).
Proof. unfold enclose. cbn. destruct b; reflexivity. Qed.

Lemma md_lookup_ok h k : meta_ok h = true ->
  exists p, md_lookup (dict_get (meta h) remove_enclosing_metadata_key) k = Enclosing.Val p.
Proof.
  unfold meta_ok, md_lookup. destruct (dict_get (meta h) remove_enclosing_metadata_key) as [[]|]; cbn;
    intros H; try discriminate; eauto.
Qed.

Lemma add_fields_total md fs : (forall k, exists p, md_lookup md k = Enclosing.Val p) ->
  forallb good_field fs = true ->
  exists fs', add_fields default_add md fs = Enclosing.Val fs' /\ forallb good_field fs' = true.
Proof.
  intros M. induction fs as [|f r IH]; cbn [add_fields forallb]; intros H; [exists []; auto|].
  apply andb_true_iff in H as [Hf Hr]. destruct (IH Hr) as (r' & E & Hg).
  destruct (M (fkey f)) as [p ->]. unfold good_field in Hf. destruct (fval f); try discriminate.
  rewrite enclose_default, E. eexists; split; [reflexivity|]. cbn. exact Hg.
Qed.

Lemma add_block_encl_total b : good_block b ->
  exists b', add_block_encl default_add b = Enclosing.Val b' /\ wgood b' = true.
Proof.
  intros G. pose proof (good_wgood b G) as W.
  destruct b; try (eexists; split; [reflexivity|exact W]).
  - unfold good_block in G. cbn in G. apply andb_true_iff in G as [Gr Gf]. apply andb_true_iff in Gr as [Gr Gm].
    destruct (add_fields_total (dict_get (meta h) remove_enclosing_metadata_key) fields
                (fun k => md_lookup_ok h k Gm) Gf) as (fs' & E & Hg).
    cbn [add_block_encl]. rewrite E. eexists; split; [reflexivity|].
    unfold wgood. cbn [bhdr]. unfold has_raw, del_meta in *. cbn [raw]. rewrite Gr, Hg. reflexivity.
  - unfold good_block in G. cbn in G. apply andb_true_iff in G as [Gr Gv]. destruct v; try discriminate.
    cbn [add_block_encl]. rewrite enclose_default. eexists; split; [reflexivity|].
    unfold wgood. cbn. rewrite Gr. reflexivity.
Qed.

Lemma add_block_wgood l b : wgood b = true -> Forall (fun x => wgood x = true) (lrev l) ->
  Forall (fun x => wgood x = true) (lrev (add_block l b)).
Proof.
  intros W H. unfold add_block. destruct b; try (constructor; assumption).
  - destruct (dict_get (ents l) key); cbn; constructor; try assumption.
    unfold wgood in *. cbn in *. apply andb_true_iff in W as [W _]. unfold has_raw in *. cbn. rewrite W. reflexivity.
  - destruct (dict_get (strs l) key); cbn; constructor; try assumption.
    unfold wgood in *. cbn in *. apply andb_true_iff in W as [W _]. unfold has_raw in *. cbn. rewrite W. reflexivity.
Qed.

Lemma rebuild_wgood bs : Forall (fun x => wgood x = true) bs -> Forall (fun x => wgood x = true) (rebuild bs).
Proof.
  intros G. apply Forall_rv. unfold lib_of, lib_add_all.
  assert (H : Forall (fun x => wgood x = true) (lrev lib0)) by constructor.
  revert H. generalize lib0. induction G as [|b bs Hb _ IH]; intros l H; cbn; [exact H|].
  apply IH, add_block_wgood; assumption.
Qed.

Lemma add_lib_total bs : Forall good_block bs ->
  exists bs', add_lib default_add bs = Enclosing.Val bs' /\ Forall (fun x => wgood x = true) bs' /\
              List.length bs' = List.length bs.
Proof.
  intros G.
  destruct (map_res_total (add_block_encl default_add) good_block (fun x => wgood x = true) bs
              add_block_encl_total G) as (l' & E & Hl & Len).
  unfold add_lib, block_mw. rewrite E. exists (rebuild l'). split; [reflexivity|].
  split; [apply rebuild_wgood, Hl|]. rewrite rebuild_length. exact Len.
Qed.

(* ------------------------------------------------------------------ the writer *)
Definition is_pstr (p : piece) : bool := match p with PStr _ => true | PBad => false end.
Definition all_str (ps : list piece) : bool := forallb is_pstr ps.

Lemma join_all_str ps : all_str ps = true -> exists s, join_pieces ps = Some s.
Proof.
  induction ps as [|[s|] ps IH]; cbn; intros H; [eauto| |discriminate].
  destruct (IH H) as [x ->]. cbn. eauto.
Qed.

Lemma fields_pieces_all_str indent col tr fs : forallb good_field fs = true ->
  all_str (fields_pieces indent col tr fs) = true.
Proof.
  induction fs as [|f r IH]; cbn [fields_pieces forallb]; intros H; [reflexivity|].
  apply andb_true_iff in H as [Hf Hr]. unfold all_str. rewrite forallb_app. fold (all_str (fields_pieces indent col tr r)).
  rewrite (IH Hr), andb_true_r. unfold field_pieces. unfold good_field in Hf. destruct (fval f); try discriminate.
  rewrite !forallb_app. cbn. destruct (tr || negb match r with [] => true | _ => false end); reflexivity.
Qed.

(* the failed-block comment template has {n} as its only replacement field *)
Definition template_ok (f : fmt) : Prop := forall n, exists s, expand (f_failed f) n = Some s.

Lemma treat_block_total indent col tr failed b : (forall n, exists s, expand failed n = Some s) -> wgood b = true ->
  exists ps, treat_block indent col tr failed b = Writer.Val ps /\ all_str ps = true.
Proof.
  intros T W. unfold wgood in W. apply andb_true_iff in W as [Wr Wv].
  assert (F : exists ps, treat_failed failed (bhdr b) = Writer.Val ps /\ all_str ps = true).
  { unfold treat_failed. apply has_raw_ex in Wr as [r ->].
    destruct (T (dec_of_N (N.of_nat (List.length (splitlines r))))) as [s ->]. eexists; split; reflexivity. }
  destruct b; cbn [treat_block]; try exact F; try (eexists; split; reflexivity).
  - eexists; split; [reflexivity|]. unfold all_str. rewrite !forallb_app.
    fold (all_str (fields_pieces indent col tr fields)). rewrite fields_pieces_all_str by exact Wv. reflexivity.
  - destruct v; try discriminate. eexists; split; reflexivity.
Qed.

Lemma write_pieces_total indent col tr failed sep bs : (forall n, exists s, expand failed n = Some s) ->
  Forall (fun x => wgood x = true) bs ->
  exists ps, write_pieces indent col tr failed sep bs = Writer.Val ps /\ all_str ps = true.
Proof.
  intros T. induction 1 as [|b bs Hb _ IH]; cbn [write_pieces]; [exists []; auto|].
  destruct (treat_block_total indent col tr failed b T Hb) as (p & -> & Hp).
  destruct IH as (q & -> & Hq). eexists; split; [reflexivity|].
  unfold all_str in *. rewrite !forallb_app, Hp, Hq. destruct bs; reflexivity.
Qed.

Lemma write_total f bs : template_ok f -> Forall (fun x => wgood x = true) bs -> exists s, write f bs = Writer.Val s.
Proof.
  intros T W. unfold write.
  destruct (write_pieces_total (f_indent f) (resolve_column f bs) (f_trailing f) (f_failed f) (f_sep f) bs T W)
    as (ps & -> & H).
  destruct (join_all_str ps H) as [s ->]. eauto.
Qed.

Lemma default_template_ok : template_ok default_fmt.
Proof. intros n. vm_compute. eauto. Qed.

(* ================================================================== (2) write_string never raises on good blocks *)
Theorem write_default_total : forall f bs, Forall good_block bs -> template_ok f -> exists s, write_default f bs = PVal s.
Proof.
  intros f bs G T. unfold write_default.
  destruct (add_lib_total bs G) as (bs' & -> & W & _).
  destruct (write_total f bs' T W) as [s ->]. eauto.
Qed.

(* ================================================================== (3) write_string(parse_string(t)) never raises *)
Theorem parse_write_total : forall t, exists s, parse_write t = PVal s.
Proof.
  intros t. unfold parse_write. destruct (parse_default_good t) as (bs & -> & G).
  apply write_default_total; [exact G|exact default_template_ok].
Qed.

(* ================================================================== (4) syntax errors surface only as failed blocks *)
Theorem failed_carry : forall t bs, parse_default t = PVal bs ->
  Forall (fun b => is_failed_class b = true -> exists r, raw (bhdr b) = Some r) bs.
Proof.
  intros t bs E. destruct (parse_default_good t) as (bs' & E' & G). rewrite E in E'. injection E' as <-.
  eapply Forall_impl; [|exact G]. intros b Gb _. apply has_raw_ex, good_has_raw, Gb.
Qed.

(* in fact every block of a default-parsed library has its raw text *)
Theorem all_raw_carry : forall t bs, parse_default t = PVal bs -> Forall (fun b => exists r, raw (bhdr b) = Some r) bs.
Proof.
  intros t bs E. destruct (parse_default_good t) as (bs' & E' & G). rewrite E in E'. injection E' as <-.
  eapply Forall_impl; [|exact G]. intros b Gb. apply has_raw_ex, good_has_raw, Gb.
Qed.

(* the default stack neither drops nor adds a block *)
Theorem parse_default_length : forall t bs0 bs, split t = Blocks bs0 -> parse_default t = PVal bs ->
  List.length bs = List.length bs0.
Proof.
  intros t bs0 bs S. unfold parse_default. rewrite S.
  destruct (default_stack_total bs0 (split_good t bs0 S)) as (bs' & -> & _ & L).
  intros E. injection E as <-. exact L.
Qed.

(* nor does the splitter's own Library.add *)
Theorem split_length : forall t bs0 bs, split_raw t = Blocks bs0 -> split t = Blocks bs -> List.length bs = List.length bs0.
Proof. intros t bs0 bs S. unfold split. rewrite S. intros E. injection E as <-. apply rebuild_length. Qed.

(* ------------------------------------------------------------------ why good_block constrains the metadata:
   with only "str values and raw text", write_string can raise (AttributeError: 'str' object has no attribute 'get'),
   because AddEnclosing reads parser_metadata["removed_enclosing"] even when reuse_previous_enclosing is False *)
Example meta_needed :
  let h := mkhdr (Some 0%Z) (Some []) [(remove_enclosing_metadata_key, VStr [])] in
  let b := BEntry h (lit "a"%string) (lit "k"%string) [mkfield (lit "f"%string) (VStr []) None] in
  wgood b = true /\ write_default default_fmt [b] = PRaise.
Proof. vm_compute. split; reflexivity. Qed.

(* ------------------------------------------------------------------ one text with a @string, a good entry, a duplicate
   key, a block with a syntax error (no '=' before the next '@') and an entry that uses the @string *)
Definition c01_text : str := lit "@string{T = {Title}}
@article{k1, a = {x}}
@article{k1, b = 2}
@article{bad, a
@book{g, t = T, u = ""q""}
"%string.

Example c01_example :
  (exists bs, parse_default c01_text = PVal bs /\
              map class_of bs = [CString; CEntry; CDupKey; CFailed; CEntry] /\
              map (fun b => raw (bhdr b)) (filter is_failed_class bs) =
                [Some (lit "@article{k1, b = 2}"%string); Some (lit "@article{bad, a
"%string)]) /\
  parse_write c01_text = PVal (lit "@string{T = {Title}}


@article{k1,
	a = {x}
}


% WARNING Parsing failed for the following 1 lines.
@article{k1, b = 2}


% WARNING Parsing failed for the following 1 lines.
@article{bad, a



@book{g,
	t = {Title},
	u = {q}
}
"%string).
Proof. split; [eexists; split; [vm_compute; reflexivity|split; vm_compute; reflexivity]|vm_compute; reflexivity]. Qed.

Print Assumptions parse_default_total.
Print Assumptions parse_default_good.
Print Assumptions write_default_total.
Print Assumptions parse_write_total.
Print Assumptions failed_carry.
Print Assumptions all_raw_carry.
Print Assumptions parse_default_length.
Print Assumptions split_length.
Print Assumptions default_template_ok.
Print Assumptions meta_needed.
Print Assumptions c01_example.
