(* C05, stage 1 (A): the default write stack and the writer depend on a library only through its content.
   write_default f bs = cwrite_default f (content bs)  for libraries without failed blocks, with pairwise
   distinct keys and with sane removed-enclosing metadata (None / a dict); each hypothesis is shown necessary. *)
From Coq Require Import List NArith ZArith Bool Lia String.
From BP Require Import Base.Chars Model.Blocks Model.LibAdd Gen.Constants Model.Enclosing Model.Writer
  Model.Pipeline Spec.C05 Proofs.LibAddProofs Proofs.EnclosingProofs.
Import ListNotations.

Notation EVal := Enclosing.Val.
Notation ERaise := Enclosing.Raise.
Notation ESkip := Enclosing.Skip.
Notation eres := Enclosing.res.

Definition no_failed (bs : list block) : bool := forallb (fun b => negb (is_failed_class b)) bs.
(* entry.parser_metadata["removed_enclosing"] is absent, None or a dict (anything else makes AddEnclosing raise) *)
Definition md_okv (md : option value) : bool :=
  match md with None | Some VNone | Some (VDict _) => true | _ => false end.
Definition md_ok1 (b : block) : bool :=
  match b with BEntry h _ _ _ => md_okv (dict_get (meta h) remove_enclosing_metadata_key) | _ => true end.
Definition md_ok (bs : list block) : bool := forallb md_ok1 bs.

Definition rmap {T U} (g : T -> U) (r : eres T) : eres U :=
  match r with EVal x => EVal (g x) | ERaise c => ERaise c | ESkip => ESkip end.

(* ---- AddEnclosing (default_add) on contents *)
Definition enc_value (v : value) : eres value :=
  match fmt_value v with None => ESkip | Some txt => EVal (VStr (c_lb :: txt ++ [c_rb])) end.
Fixpoint enc_fields (fs : list (str * value)) : eres (list (str * value)) :=
  match fs with
  | [] => EVal []
  | kv :: r => match enc_value (snd kv) with
               | EVal v' => rmap (cons (fst kv, v')) (enc_fields r)
               | ERaise c => ERaise c
               | ESkip => ESkip
               end
  end.
Definition enc_c1 (c : bcontent) : eres bcontent :=
  match c with
  | KEntry t k fs => rmap (KEntry t k) (enc_fields fs)
  | KString k v => rmap (KString k) (enc_value v)
  | _ => EVal c
  end.

Lemma enclose_default_add v md air : enclose default_add v md air = enc_value v.
Proof.
  unfold enclose, enc_value. destruct (fmt_value v) as [txt|]; [|reflexivity].
  cbn [reuse default_add enclose_integers negb andb default_enclosing]. rewrite andb_false_r.
  cbn [andb]. rewrite str_eqb_refl. reflexivity.
Qed.

Definition fpair (f : field) : str * value := (fkey f, fval f).

Lemma md_lookup_ok md k : md_okv md = true -> exists prev, md_lookup md k = EVal prev.
Proof.
  destruct md as [[]|]; cbn; intros H; try discriminate; eexists; reflexivity.
Qed.

Lemma add_fields_content md fs : md_okv md = true ->
  rmap (map fpair) (add_fields default_add md fs) = enc_fields (map fpair fs).
Proof.
  intros Hm. induction fs as [|f r IH]; [reflexivity|].
  cbn [add_fields map enc_fields]. destruct (md_lookup_ok md (fkey f) Hm) as [prev Hp]. rewrite Hp.
  rewrite enclose_default_add. cbn [fpair snd fst]. destruct (enc_value (fval f)) as [v'| |]; [|reflexivity..].
  rewrite <- IH. destruct (add_fields default_add md r); reflexivity.
Qed.

Lemma add_block_content b : md_ok1 b = true -> is_failed_class b = false ->
  rmap content1 (add_block_encl default_add b) = enc_c1 (content1 b).
Proof.
  destruct b as [h t k fs|h k v|h v|h c|h c|h e|h e i|h k p d|h ks e]; intros Hm Hf; try discriminate; try reflexivity.
  - cbn [add_block_encl content1 enc_c1]. cbn [md_ok1] in Hm.
    change (map (fun f => (fkey f, fval f)) fs) with (map fpair fs).
    rewrite <- (add_fields_content _ fs Hm). destruct (add_fields default_add _ fs); reflexivity.
  - cbn [add_block_encl content1 enc_c1]. rewrite enclose_default_add. destruct (enc_value v); reflexivity.
Qed.

Lemma map_res_content bs : md_ok bs = true -> no_failed bs = true ->
  rmap content (map_res (add_block_encl default_add) bs) = map_res enc_c1 (content bs).
Proof.
  induction bs as [|b r IH]; intros Hm Hf; [reflexivity|].
  cbn [md_ok no_failed forallb] in Hm, Hf. apply andb_true_iff in Hm as [Hm1 Hm2]. apply andb_true_iff in Hf as [Hf1 Hf2].
  apply negb_true_iff in Hf1. cbn [map_res content map]. rewrite <- (add_block_content b Hm1 Hf1).
  destruct (add_block_encl default_add b) as [b'| |]; cbn [rmap]; [|reflexivity..].
  change (map content1 r) with (content r). rewrite <- (IH Hm2 Hf2).
  destruct (map_res (add_block_encl default_add) r); reflexivity.
Qed.

(* ---- the canonical library of a content list *)
Definition cfield (kv : str * value) : field := mkfield (fst kv) (snd kv) None.
Definition canon1 (c : bcontent) : block :=
  match c with
  | KEntry t k fs => BEntry hdr0 t k (map cfield fs)
  | KString k v => BString hdr0 k v
  | KPreamble v => BPreamble hdr0 v
  | KExpl c => BExpl hdr0 c
  | KImpl c => BImpl hdr0 c
  | KOther => BFailed hdr0 (EAbort 0)
  end.
Definition canon (cs : list bcontent) : list block := map canon1 cs.

Lemma content_canon1 c : content1 (canon1 c) = c.
Proof.
  destruct c as [t k fs|k v|v|c|c|]; try reflexivity. cbn [canon1 content1]. f_equal.
  rewrite map_map. rewrite <- (map_id fs) at 2. apply map_ext. intros [a b]; reflexivity.
Qed.
Lemma content_canon cs : content (canon cs) = cs.
Proof. unfold content, canon. rewrite map_map. rewrite <- (map_id cs) at 2. apply map_ext, content_canon1. Qed.

Lemma fields_pieces_canon indent col tr fs :
  fields_pieces indent col tr fs = fields_pieces indent col tr (map cfield (map fpair fs)).
Proof.
  induction fs as [|f r IH]; [reflexivity|]. cbn [map fields_pieces]. rewrite <- IH. f_equal.
  destruct r; reflexivity.
Qed.

Lemma treat_block_canon indent col tr failed b : is_failed_class b = false ->
  treat_block indent col tr failed b = treat_block indent col tr failed (canon1 (content1 b)).
Proof.
  destruct b; intros Hf; try discriminate; try reflexivity.
  cbn [content1 canon1 treat_block]. change (map (fun f => (fkey f, fval f)) fields) with (map fpair fields).
  rewrite <- fields_pieces_canon. reflexivity.
Qed.

Lemma write_pieces_canon indent col tr failed sep bs : no_failed bs = true ->
  write_pieces indent col tr failed sep bs = write_pieces indent col tr failed sep (canon (content bs)).
Proof.
  induction bs as [|b r IH]; intros Hf; [reflexivity|].
  cbn [no_failed forallb] in Hf. apply andb_true_iff in Hf as [Hf1 Hf2]. apply negb_true_iff in Hf1.
  cbn [content canon map write_pieces]. rewrite <- (treat_block_canon _ _ _ _ b Hf1).
  change (map canon1 (map content1 r)) with (canon (content r)). rewrite <- (IH Hf2).
  destruct r; reflexivity.
Qed.

Lemma entry_keys_canon b : entry_keys b = entry_keys (canon1 (content1 b)).
Proof.
  destruct b; try reflexivity. cbn [content1 canon1 entry_keys]. rewrite !map_map. reflexivity.
Qed.

Lemma max_key_len_canon bs : max_key_len bs = max_key_len (canon (content bs)).
Proof.
  unfold max_key_len. generalize 0. induction bs as [|b r IH]; intros m; [reflexivity|].
  cbn [content canon map fold_left]. rewrite <- entry_keys_canon. apply IH.
Qed.

Lemma write_canon f bs : no_failed bs = true -> write f bs = write f (canon (content bs)).
Proof.
  intros Hf. unfold write, resolve_column, auto_column. rewrite <- max_key_len_canon.
  rewrite <- (write_pieces_canon _ _ _ _ _ bs Hf). reflexivity.
Qed.

(* ---- the default write stack on contents *)
Definition pres_of_write (r : Writer.res str) : pres str :=
  match r with Writer.Val s => PVal s | Writer.Raise _ => PRaise | Writer.Skip => PSkip end.
Definition cwrite_default (f : fmt) (cs : list bcontent) : pres str :=
  match map_res enc_c1 cs with
  | EVal cs' => pres_of_write (write f (canon cs'))
  | ERaise _ => PRaise
  | ESkip => PSkip
  end.

Lemma add_block_failed b b' : add_block_encl default_add b = EVal b' -> is_failed_class b' = is_failed_class b.
Proof.
  destruct b; cbn [add_block_encl]; intros H; try (inversion H; subst; reflexivity).
  - destruct (add_fields _ _ _); try discriminate. inversion H; reflexivity.
  - destruct (enclose _ _ _ _); try discriminate. inversion H; reflexivity.
Qed.

Lemma map_res_failed bs : forall l, map_res (add_block_encl default_add) bs = EVal l -> no_failed l = no_failed bs.
Proof.
  induction bs as [|b r IH]; intros l H; cbn [map_res] in H.
  - inversion H; reflexivity.
  - destruct (add_block_encl default_add b) as [b'| |] eqn:E; try discriminate.
    destruct (map_res _ r) as [r'| |] eqn:E2; try discriminate. inversion H; subst.
    cbn [no_failed forallb]. rewrite (add_block_failed _ _ E). f_equal. apply IH. reflexivity.
Qed.

Theorem write_default_c f bs : wf_blocks bs -> no_failed bs = true -> md_ok bs = true ->
  write_default f bs = cwrite_default f (content bs).
Proof.
  intros W Hf Hm. unfold write_default, cwrite_default, add_lib, block_mw.
  rewrite <- (map_res_content bs Hm Hf).
  destruct (map_res (add_block_encl default_add) bs) as [l| |] eqn:E; cbn [rmap]; try reflexivity.
  pose proof (map_res_Forall2 _ _ _ E) as F.
  assert (W' : wf_blocks l) by (apply (wf_Forall2 _ bs l (add_block_keys default_add) F W)).
  rewrite (rebuild_id l W'). rewrite (write_canon f l) by (rewrite (map_res_failed _ _ E); exact Hf).
  unfold pres_of_write. reflexivity.
Qed.

(* keys and failedness are functions of the content *)
Definition ekey_c (c : bcontent) : list str := match c with KEntry _ k _ => [k] | _ => [] end.
Definition skey_c (c : bcontent) : list str := match c with KString k _ => [k] | _ => [] end.
Definition other_c (c : bcontent) : bool := match c with KOther => true | _ => false end.
Lemma ekeys_content bs : ekeys bs = flat_map ekey_c (content bs).
Proof. induction bs as [|b r IH]; [reflexivity|]. cbn [ekeys content flat_map map]. fold (ekeys r). rewrite IH. destruct b; reflexivity. Qed.
Lemma skeys_content bs : skeys bs = flat_map skey_c (content bs).
Proof. induction bs as [|b r IH]; [reflexivity|]. cbn [skeys content flat_map map]. fold (skeys r). rewrite IH. destruct b; reflexivity. Qed.
Lemma no_failed_content bs : no_failed bs = forallb (fun c => negb (other_c c)) (content bs).
Proof. induction bs as [|b r IH]; [reflexivity|]. cbn [no_failed content forallb map]. fold (no_failed r). rewrite IH. destruct b; reflexivity. Qed.

Theorem write_default_content f bs bs' :
  content bs = content bs' -> wf_blocks bs -> no_failed bs = true -> md_ok bs = true -> md_ok bs' = true ->
  write_default f bs = write_default f bs'.
Proof.
  intros E W Hf Hm Hm'.
  assert (W' : wf_blocks bs') by (unfold wf_blocks in *; rewrite ekeys_content, skeys_content, <- E, <- ekeys_content, <- skeys_content; exact W).
  assert (Hf' : no_failed bs' = true) by (rewrite no_failed_content, <- E, <- no_failed_content; exact Hf).
  rewrite (write_default_c f bs W Hf Hm), (write_default_c f bs' W' Hf' Hm'), E. reflexivity.
Qed.
Print Assumptions write_default_content.

(* ---- what every parse_default result satisfies *)
From BP Require Import Model.Lexer Model.Splitter Model.Interpolate Proofs.InterpolateProofs.

Lemma parse_default_inv t l : parse_default t = PVal l ->
  exists bs, split t = Blocks bs /\ default_stack bs = EVal l.
Proof.
  unfold parse_default. destruct (split t) as [bs|]; [|discriminate].
  destruct (default_stack bs) as [l'| |] eqn:E; try discriminate. intros H; inversion H; subst. eauto.
Qed.

Lemma remove_block_md b b' : remove_block b = EVal b' -> md_ok1 b' = true.
Proof.
  destruct b; cbn [remove_block]; intros H; try (inversion H; subst; reflexivity).
  - destruct (remove_fields fields []) as [[fs' md]| |]; try discriminate. inversion H; subst.
    cbn [md_ok1 set_meta meta]. rewrite dict_get_set, str_eqb_refl. reflexivity.
  - destruct (strip_value v) as [[s e]| |]; try discriminate. inversion H; subst. reflexivity.
Qed.

Lemma default_stack_props bs l : default_stack bs = EVal l -> wf_blocks l /\ md_ok l = true.
Proof.
  intros H. pose proof (remove_lib_blockwise _ _ (resolve_lib_wf bs) H) as F. split.
  - unfold default_stack, remove_lib, block_mw in H.
    destruct (map_res remove_block (resolve_lib bs)) as [l0| |]; try discriminate.
    inversion H; subst. apply lib_of_wf.
  - clear H. induction F as [|b b' r r' Hb F IH]; [reflexivity|].
    cbn [md_ok forallb]. rewrite (remove_block_md _ _ Hb). exact IH.
Qed.

Lemma parse_default_props t l : parse_default t = PVal l -> wf_blocks l /\ md_ok l = true.
Proof. intros H. destruct (parse_default_inv _ _ H) as (bs & _ & D). exact (default_stack_props _ _ D). Qed.

Corollary roundtrip_fixpoint f t t1 l1 l2 t2 :
  roundtrip f t = PVal (t1, l2, t2) -> parse_default t = PVal l1 -> content l2 = content l1 ->
  no_failed l1 = true -> t2 = t1.
Proof.
  intros R P E Hf. unfold roundtrip in R. rewrite P in R.
  destruct (write_default f l1) as [t1'| |] eqn:W1; try discriminate.
  destruct (parse_default t1') as [l2'| |] eqn:P2; try discriminate.
  destruct (write_default f l2') as [t2'| |] eqn:W2; try discriminate.
  inversion R; subst. destruct (parse_default_props _ _ P) as [Wf1 M1]. destruct (parse_default_props _ _ P2) as [_ M2].
  rewrite (write_default_content f l1 l2 (eq_sym E) Wf1 Hf M1 M2) in W1. congruence.
Qed.
Print Assumptions roundtrip_fixpoint.
