(* C02: the splitter machine parses every rendered well-formed document back to its ground truth:
     split_render : wf_doc d -> nodup_fields d -> split_raw (render d) = Blocks (expected d).

   Layers of the proof:
   1. [runf]: fold_left step over classify, fused into one structural recursion on the text;
   2. under side condition G ([noat]) classify1 is the context-free [delim];
   3. flat-text lemmas, one per mode: a run of text all of whose characters are harmless for the mode is
      accumulated verbatim (Out: any text; Head: word/blank; key modes: [quiet]; InBraces: the depth tracker
      [bdepth]; FldVal: the quote/depth tracker [fvst]);
   4. pure lemmas: the renders of well-formed braced/quoted/pieces/values drive the trackers back to where
      they started;
   5. single-step lemmas for the structural delimiters; per-item lemmas; induction on the item list. *)
From Coq Require Import List NArith ZArith Bool Lia String.
From BP Require Import Base.Chars Model.Blocks Model.Lexer Model.LibAdd Model.Splitter Spec.C03 Model.Grammar
                       Proofs.SplitTotal Proofs.SplitTiling.
Import ListNotations.
Local Open Scope Z_scope.

(* ------------------------------------------------------------------ 1. the fused run *)
Fixpoint runf (pb : bool) (l : str) (s : st) : st :=
  match l with
  | [] => s
  | c :: r => runf (c =? c_bs)%N r (step s (c, classify1 pb c r))
  end.
Lemma runf_fold l : forall pb s, fold_left step (classify pb l) s = runf pb l s.
Proof. induction l as [|c r IH]; intros pb s; cbn [classify fold_left runf]; [reflexivity | apply IH]. Qed.

(* ------------------------------------------------------------------ booleans *)
Ltac band H := repeat (rewrite andb_true_iff in H); repeat (rewrite negb_true_iff in H).

(* ------------------------------------------------------------------ 2. delim and classify1 *)
Lemma classify1_delim pb c rest :
  (negb (c =? c_at)%N || negb (at_ok rest)) = true -> classify1 pb c rest = delim pb c.
Proof.
  intros H. unfold classify1, delim. destruct (c =? c_nl)%N; [reflexivity|].
  destruct (c =? c_at)%N eqn:E.
  - cbn in H. rewrite negb_true_iff in H. rewrite H. apply N.eqb_eq in E. subst c. destruct pb; reflexivity.
  - reflexivity.
Qed.
Lemma delim_nl pb c : delim pb c = Some MNL -> c = c_nl.
Proof.
  unfold delim. destruct (c =? c_nl)%N eqn:E; [intros _; apply N.eqb_eq, E|].
  destruct pb; [discriminate|].
  destruct (c =? c_lb)%N; [discriminate|]. destruct (c =? c_rb)%N; [discriminate|].
  destruct (c =? c_quote)%N; [discriminate|]. destruct (c =? c_comma)%N; [discriminate|].
  destruct (c =? c_eq)%N; discriminate.
Qed.
Lemma delim_not_nl pb c : delim pb c <> Some MNL -> (c =? c_nl)%N = false.
Proof.
  intros H. destruct (c =? c_nl)%N eqn:E; [|reflexivity]. exfalso. apply H. unfold delim. rewrite E. reflexivity.
Qed.
Lemma delim_not_at pb c : delim pb c <> Some MAt.
Proof.
  unfold delim. destruct (c =? c_nl)%N; [discriminate|]. destruct pb; [discriminate|].
  destruct (c =? c_lb)%N; [discriminate|]. destruct (c =? c_rb)%N; [discriminate|].
  destruct (c =? c_quote)%N; [discriminate|]. destruct (c =? c_comma)%N; [discriminate|].
  destruct (c =? c_eq)%N; discriminate.
Qed.

(* ------------------------------------------------------------------ flat-text facts *)
Lemma noat_app t1 : forall t2 rest, noat (t1 ++ t2) rest = noat t1 (t2 ++ rest) && noat t2 rest.
Proof.
  induction t1 as [|c t1 IH]; intros t2 rest; cbn [app noat]; [reflexivity|].
  rewrite IH, <- app_assoc, andb_assoc. reflexivity.
Qed.
Lemma ends_bs_app t1 : forall pb t2, ends_bs pb (t1 ++ t2) = ends_bs (ends_bs pb t1) t2.
Proof. induction t1 as [|c t1 IH]; intros pb t2; cbn [app ends_bs]; [reflexivity | apply IH]. Qed.
Lemma space_not_bs c : isspace c = true -> (c =? c_bs)%N = false.
Proof. intros H. apply (eqb_false_of_flag isspace c c_bs H eq_refl). Qed.
Lemma ends_bs_ws w : forall pb, is_ws w = true -> pb = false -> ends_bs pb w = false.
Proof.
  induction w as [|c w IH]; intros pb H Hpb; cbn [ends_bs]; [exact Hpb|].
  cbn [is_ws forallb] in H. apply andb_true_iff in H as [Hc Hw]. apply IH; [exact Hw | apply space_not_bs, Hc].
Qed.
Lemma noat_ws w rest : is_ws w = true -> noat w rest = true.
Proof.
  induction w as [|c w IH]; intros H; cbn [noat]; [reflexivity|].
  cbn [is_ws forallb] in H. apply andb_true_iff in H as [Hc Hw].
  rewrite (eqb_false_of_flag isspace c c_at Hc eq_refl). cbn. apply IH, Hw.
Qed.
Lemma is_ws_app a b : is_ws (a ++ b) = is_ws a && is_ws b.
Proof. apply forallb_app. Qed.
Lemma count_nl_cons c r : count_nl (c :: r) = (if (c =? c_nl)%N then 1 else 0) + count_nl r.
Proof. reflexivity. Qed.
Lemma rev_snoc {A} (R : list A) c : c :: rev R = rev (R ++ [c]).
Proof. rewrite rev_unit. reflexivity. Qed.

(* ------------------------------------------------------------------ 3a. Out mode: any text without a block start *)
Lemma run_out t : forall pb rest ln o P icl B, noat t rest = true ->
  runf pb (t ++ rest) (mkst Out ln o (rev P) icl B)
  = runf (ends_bs pb t) rest (mkst Out (ln + count_nl t) o (rev (P ++ t)) icl B).
Proof.
  induction t as [|c t IH]; intros pb rest ln o P icl B H; cbn [app runf ends_bs].
  - rewrite app_nil_r, Z.add_0_r. reflexivity.
  - cbn [noat] in H. apply andb_true_iff in H as [Hc Ht].
    rewrite (classify1_delim pb c _ Hc). rewrite count_nl_cons.
    assert (E : step (mkst Out ln o (rev P) icl B) (c, delim pb c)
                = mkst Out (ln + (if (c =? c_nl)%N then 1 else 0)) o (rev (P ++ [c])) icl B).
    { rewrite <- rev_snoc. destruct (delim pb c) as [[]|] eqn:D; cbn [step md step_out line out_rev ic_rev ic_line ob];
        try (rewrite (delim_not_nl pb c) by (rewrite D; discriminate)); rewrite ?Z.add_0_r; try reflexivity.
      - apply delim_nl in D. subst c. reflexivity.
      - exfalso. exact (delim_not_at _ _ D). }
    rewrite E, (IH _ _ _ _ _ _ _ Ht), <- app_assoc, Z.add_assoc. reflexivity.
Qed.

(* ------------------------------------------------------------------ 3b. Head mode: word characters and blanks *)
Definition plainw (c : ch) : bool := isword c || is_sptab c.
Lemma plainw_cls pb c r : plainw c = true -> classify1 pb c r = None /\ (c =? c_bs)%N = false.
Proof.
  unfold plainw. intros H. apply orb_true_iff in H as [H|H].
  - split; [apply word_plain, H | apply word_not_bs, H].
  - split; [apply sptab_plain, H | apply sptab_not_bs, H].
Qed.
Lemma ends_bs_plainw t : forall pb, forallb plainw t = true -> pb = false -> ends_bs pb t = false.
Proof.
  induction t as [|c t IH]; intros pb H Hpb; cbn [ends_bs]; [exact Hpb|].
  cbn [forallb] in H. apply andb_true_iff in H as [Hc Ht]. apply IH; [exact Ht|].
  apply (plainw_cls false c []), Hc.
Qed.
Lemma run_head t : forall pb rest ln o ic icl bl R T a v et ek fl fs sn dp, forallb plainw t = true ->
  runf pb (t ++ rest) (mkst Head ln o ic icl (mkob bl (rev R) (rev T) a v et ek fl fs sn dp))
  = runf (ends_bs pb t) rest (mkst Head ln o ic icl (mkob bl (rev (R ++ t)) (rev (T ++ t)) a v et ek fl fs sn dp)).
Proof.
  induction t as [|c t IH]; intros pb rest ln o ic icl bl R T a v et ek fl fs sn dp H; cbn [app runf ends_bs].
  - rewrite !app_nil_r. reflexivity.
  - cbn [forallb] in H. apply andb_true_iff in H as [Hc Ht].
    destruct (plainw_cls pb c (t ++ rest) Hc) as [E1 E2]. rewrite E1.
    assert (E : step (mkst Head ln o ic icl (mkob bl (rev R) (rev T) a v et ek fl fs sn dp)) (c, None)
                = mkst Head ln o ic icl (mkob bl (rev (R ++ [c])) (rev (T ++ [c])) a v et ek fl fs sn dp)).
    { rewrite <- !rev_snoc. reflexivity. }
    rewrite E, (IH _ _ _ _ _ _ _ _ _ _ _ _ _ _ _ _ _ Ht), <- !app_assoc. reflexivity.
Qed.

(* ------------------------------------------------------------------ 3c. key modes: quiet text *)
Fixpoint quiet (pb : bool) (t : str) : bool :=
  match t with
  | [] => true
  | c :: r => match delim pb c with None | Some MNL => true | _ => false end && quiet (c =? c_bs)%N r
  end.
Definition keymode (m : mode) : Prop := m = StrKey \/ m = EntKey \/ m = FldKey.
Lemma run_key t : forall m pb rest ln o ic icl bl R T A v et ek fl fs sn dp, keymode m ->
  noat t rest = true -> quiet pb t = true ->
  runf pb (t ++ rest) (mkst m ln o ic icl (mkob bl (rev R) T (rev A) v et ek fl fs sn dp))
  = runf (ends_bs pb t) rest
      (mkst m (ln + count_nl t) o ic icl (mkob bl (rev (R ++ t)) T (rev (A ++ t)) v et ek fl fs sn dp)).
Proof.
  induction t as [|c t IH]; intros m pb rest ln o ic icl bl R T A v et ek fl fs sn dp Hm Hn Hq;
    cbn [app runf ends_bs].
  - rewrite !app_nil_r, Z.add_0_r. reflexivity.
  - cbn [noat] in Hn. apply andb_true_iff in Hn as [Hc Hn].
    cbn [quiet] in Hq. apply andb_true_iff in Hq as [Hd Hq].
    rewrite (classify1_delim pb c _ Hc), count_nl_cons.
    assert (E : step (mkst m ln o ic icl (mkob bl (rev R) T (rev A) v et ek fl fs sn dp)) (c, delim pb c)
                = mkst m (ln + (if (c =? c_nl)%N then 1 else 0)) o ic icl
                    (mkob bl (rev (R ++ [c])) T (rev (A ++ [c])) v et ek fl fs sn dp)).
    { rewrite <- !rev_snoc. destruct (delim pb c) as [[]|] eqn:D; try discriminate Hd.
      - apply delim_nl in D. subst c. destruct Hm as [->|[->| ->]]; reflexivity.
      - rewrite (delim_not_nl pb c) by (rewrite D; discriminate). rewrite Z.add_0_r.
        destruct Hm as [->|[->| ->]]; reflexivity. }
    rewrite E, (IH m _ _ _ _ _ _ _ _ _ _ _ _ _ _ _ _ _ Hm Hn Hq), <- !app_assoc, Z.add_assoc. reflexivity.
Qed.

(* ------------------------------------------------------------------ 3d. InBraces: the depth tracker *)
Definition bd1 (k : option mk) (d : N) : option N :=
  match k with
  | Some MLB => Some (d + 1)%N
  | Some MRB => if (d =? 0)%N then None else Some (d - 1)%N
  | Some MAt => None
  | _ => Some d
  end.
Fixpoint bdepth (pb : bool) (t : str) (d : N) : option N :=
  match t with
  | [] => Some d
  | c :: r => match bd1 (delim pb c) d with Some d' => bdepth (c =? c_bs)%N r d' | None => None end
  end.
Lemma run_braces t : forall kd pb rest ln o ic icl bl R T a V et ek fl fs sn dp d d',
  noat t rest = true -> bdepth pb t d = Some d' ->
  runf pb (t ++ rest) (mkst (InBraces kd d) ln o ic icl (mkob bl (rev R) T a (rev V) et ek fl fs sn dp))
  = runf (ends_bs pb t) rest
      (mkst (InBraces kd d') (ln + count_nl t) o ic icl (mkob bl (rev (R ++ t)) T a (rev (V ++ t)) et ek fl fs sn dp)).
Proof.
  induction t as [|c t IH]; intros kd pb rest ln o ic icl bl R T a V et ek fl fs sn dp d d' Hn Hd;
    cbn [app runf ends_bs].
  - cbn [bdepth] in Hd. injection Hd as <-. rewrite !app_nil_r, Z.add_0_r. reflexivity.
  - cbn [noat] in Hn. apply andb_true_iff in Hn as [Hc Hn].
    cbn [bdepth] in Hd. destruct (bd1 (delim pb c) d) as [d1|] eqn:D1; [|discriminate].
    rewrite (classify1_delim pb c _ Hc), count_nl_cons.
    assert (E : step (mkst (InBraces kd d) ln o ic icl (mkob bl (rev R) T a (rev V) et ek fl fs sn dp)) (c, delim pb c)
                = mkst (InBraces kd d1) (ln + (if (c =? c_nl)%N then 1 else 0)) o ic icl
                    (mkob bl (rev (R ++ [c])) T a (rev (V ++ [c])) et ek fl fs sn dp)).
    { rewrite <- !rev_snoc. destruct (delim pb c) as [[]|] eqn:D; cbn [bd1] in D1;
        try (rewrite (delim_not_nl pb c) by (rewrite D; discriminate); rewrite Z.add_0_r);
        try (injection D1 as <-; reflexivity).
      - cbn [step md]. destruct (d =? 0)%N; [discriminate|]. injection D1 as <-. reflexivity.
      - apply delim_nl in D. subst c. injection D1 as <-. reflexivity.
      - discriminate. }
    rewrite E, (IH kd _ _ _ _ _ _ _ _ _ _ _ _ _ _ _ _ _ _ _ Hn Hd), <- !app_assoc, Z.add_assoc. reflexivity.
Qed.

(* ------------------------------------------------------------------ 3e. FldVal: the quote/depth tracker *)
Definition fv1 (k : option mk) (q : bool) (d : N) : option (bool * N) :=
  match k with
  | None | Some MEq | Some MNL => Some (q, d)
  | Some MQ => Some (if (d =? 0)%N then negb q else q, d)
  | Some MLB => Some (q, if q then d else (d + 1)%N)
  | Some MRB => if q then Some (q, d) else if (d =? 0)%N then None else Some (q, (d - 1)%N)
  | Some MComma => if q || negb (d =? 0)%N then Some (q, d) else None
  | Some MAt => None
  end.
Fixpoint fvst (pb : bool) (t : str) (q : bool) (d : N) : option (bool * N) :=
  match t with
  | [] => Some (q, d)
  | c :: r => match fv1 (delim pb c) q d with Some (q', d') => fvst (c =? c_bs)%N r q' d' | None => None end
  end.
Lemma run_fldval t : forall pb rest ln o ic icl bl R T a V et ek fl fs sn dp q d q' d',
  noat t rest = true -> fvst pb t q d = Some (q', d') ->
  runf pb (t ++ rest) (mkst (FldVal q d) ln o ic icl (mkob bl (rev R) T a (rev V) et ek fl fs sn dp))
  = runf (ends_bs pb t) rest
      (mkst (FldVal q' d') (ln + count_nl t) o ic icl (mkob bl (rev (R ++ t)) T a (rev (V ++ t)) et ek fl fs sn dp)).
Proof.
  induction t as [|c t IH]; intros pb rest ln o ic icl bl R T a V et ek fl fs sn dp q d q' d' Hn Hd;
    cbn [app runf ends_bs].
  - cbn [fvst] in Hd. injection Hd as <- <-. rewrite !app_nil_r, Z.add_0_r. reflexivity.
  - cbn [noat] in Hn. apply andb_true_iff in Hn as [Hc Hn].
    cbn [fvst] in Hd. destruct (fv1 (delim pb c) q d) as [[q1 d1]|] eqn:D1; [|discriminate].
    rewrite (classify1_delim pb c _ Hc), count_nl_cons.
    assert (E : step (mkst (FldVal q d) ln o ic icl (mkob bl (rev R) T a (rev V) et ek fl fs sn dp)) (c, delim pb c)
                = mkst (FldVal q1 d1) (ln + (if (c =? c_nl)%N then 1 else 0)) o ic icl
                    (mkob bl (rev (R ++ [c])) T a (rev (V ++ [c])) et ek fl fs sn dp)).
    { rewrite <- !rev_snoc. destruct (delim pb c) as [[]|] eqn:D; cbn [fv1] in D1;
        try (rewrite (delim_not_nl pb c) by (rewrite D; discriminate); rewrite Z.add_0_r).
      - (* MLB *) injection D1 as <- <-. destruct q; reflexivity.
      - (* MRB *) cbn [step md]. destruct q; [injection D1 as <- <-; reflexivity|].
        destruct (d =? 0)%N; [discriminate|]. injection D1 as <- <-. reflexivity.
      - (* MQ *) injection D1 as <- <-. cbn [step md]. destruct (d =? 0)%N; reflexivity.
      - (* MComma *) cbn [step md]. destruct (q || negb (d =? 0)%N); [|discriminate].
        injection D1 as <- <-. reflexivity.
      - (* MEq *) injection D1 as <- <-. reflexivity.
      - (* MNL *) apply delim_nl in D. subst c. injection D1 as <- <-. reflexivity.
      - discriminate.
      - injection D1 as <- <-. reflexivity. }
    rewrite E, (IH _ _ _ _ _ _ _ _ _ _ _ _ _ _ _ _ _ _ _ _ _ Hn Hd), <- !app_assoc, Z.add_assoc. reflexivity.
Qed.

(* ------------------------------------------------------------------ strip *)
Lemma is_ws_rev w : is_ws (rev w) = is_ws w.
Proof.
  induction w as [|c w IH]; [reflexivity|]. cbn [rev]. rewrite is_ws_app, IH. cbn [is_ws forallb].
  rewrite andb_true_r. apply andb_comm.
Qed.
Lemma lstrip_ws w s : is_ws w = true -> lstrip (w ++ s) = lstrip s.
Proof.
  induction w as [|c w IH]; intros H; cbn [app lstrip]; [reflexivity|].
  cbn [is_ws forallb] in H. apply andb_true_iff in H as [Hc Hw]. rewrite Hc. apply IH, Hw.
Qed.
Lemma lstrip_head c s : isspace c = false -> lstrip (c :: s) = c :: s.
Proof. intros H. cbn [lstrip]. rewrite H. reflexivity. Qed.
Lemma rstrip_ws s w : is_ws w = true -> rstrip (s ++ w) = rstrip s.
Proof.
  intros H. unfold rstrip. rewrite !rv_rev, rev_app_distr, lstrip_ws; [reflexivity|]. rewrite is_ws_rev. exact H.
Qed.
Lemma rstrip_last s c : isspace c = false -> rstrip (s ++ [c]) = s ++ [c].
Proof.
  intros H. unfold rstrip. rewrite !rv_rev, rev_unit, (lstrip_head _ _ H). rewrite <- (rev_unit s c). apply rev_involutive.
Qed.
Lemma tight_inv s : tight s = true ->
  exists c s' s0 x, s = c :: s' /\ s = s0 ++ [x] /\ isspace c = false /\ isspace x = false.
Proof.
  destruct s as [|c s']; [discriminate|]. intros H. unfold tight in H. apply andb_true_iff in H as [H1 H2].
  apply negb_true_iff in H1, H2.
  destruct (@exists_last _ (c :: s')) as (s0 & x & E); [discriminate|].
  exists c, s', s0, x. repeat split; auto. rewrite E, last_last in H2. exact H2.
Qed.
Lemma strip_tight w1 s w2 : is_ws w1 = true -> is_ws w2 = true -> tight s = true -> strip (w1 ++ s ++ w2) = s.
Proof.
  intros H1 H2 Ht. destruct (tight_inv s Ht) as (c & s' & s0 & x & E1 & E2 & Hc & Hx).
  unfold strip. rewrite (lstrip_ws _ _ H1). rewrite E1 at 1. cbn [app]. rewrite (lstrip_head _ _ Hc).
  change (c :: s' ++ w2) with ((c :: s') ++ w2). rewrite <- E1, (rstrip_ws _ _ H2), E2. apply rstrip_last, Hx.
Qed.

(* ------------------------------------------------------------------ the implicit comment *)
Definition flushl (o : list block) (P : str) (icl : Z) : list block :=
  match end_implicit P icl with Some b => b :: o | None => o end.
Lemma flush_ic_l ln o P icl B : flush_ic (mkst Out ln o (rev P) icl B) = flushl o P icl.
Proof. unfold flush_ic, flushl. cbn [ic_rev ic_line out_rev]. rewrite rv_rev, rev_involutive. reflexivity. Qed.
Lemma skip_leading_ws w : forall s n, is_ws w = true -> skip_leading (w ++ s) n = skip_leading s (n + count_nl w).
Proof.
  induction w as [|c w IH]; intros s n H; cbn [app skip_leading count_nl]; [rewrite Z.add_0_r; reflexivity|].
  cbn [is_ws forallb] in H. apply andb_true_iff in H as [Hc Hw].
  destruct (c =? c_nl)%N; [|rewrite Hc]; rewrite (IH _ _ Hw); f_equal; lia.
Qed.
Lemma end_implicit_ws P icl : is_ws P = true -> end_implicit P icl = None.
Proof.
  intros H. unfold end_implicit. rewrite <- (app_nil_r P), (skip_leading_ws _ _ _ H). reflexivity.
Qed.
Lemma end_implicit_free P t g icl : is_ws P = true -> is_ws g = true -> tight t = true ->
  end_implicit (P ++ t ++ g) icl = Some (BImpl (mkhdr (Some (icl + count_nl P)) (Some t) []) t).
Proof.
  intros HP Hg Ht. destruct (tight_inv t Ht) as (c & s' & s0 & x & E1 & E2 & Hc & Hx).
  unfold end_implicit. rewrite (skip_leading_ws _ _ _ HP).
  assert (E : skip_leading (t ++ g) (0 + count_nl P) = (t ++ g, 0 + count_nl P)).
  { rewrite E1. cbn [app skip_leading]. rewrite Hc.
    destruct (c =? c_nl)%N eqn:En; [apply N.eqb_eq in En; subst c; discriminate Hc | reflexivity]. }
  rewrite E, (rstrip_ws _ _ Hg). rewrite E2 at 1. rewrite (rstrip_last _ _ Hx), <- E2.
  rewrite E1, Z.add_0_l. reflexivity.
Qed.

(* ------------------------------------------------------------------ 5. the item list *)
(* what has to be shown for a block item: from Out (pending implicit comment P) the machine flushes P, emits
   exactly the item's block, and is back in Out with an empty implicit comment *)
Definition item_ok (it : item) : Prop :=
  forall rest pb ln o P icl B,
    is_free it = false -> wf_item it = true -> nodup_item it = true -> noat (render_body it) rest = true ->
    exists B', runf pb (render_item it ++ rest) (mkst Out ln o (rev P) icl B)
               = runf false rest (mkst Out (ln + count_nl (render_item it)) (block_of ln it :: flushl o P icl)
                                    (rev []) (ln + count_nl (render_item it)) B').

Lemma run_items (Q : item -> Prop) (HQ : forall it, Q it -> item_ok it) :
  forall items pf pb ln o P icl B,
  Forall (fun p => Q (fst p)) items ->
  wf_items pf items = true -> forallb (fun p => nodup_item (fst p)) items = true ->
  (pf = false -> is_ws P = true /\ icl + count_nl P = ln) ->
  finish (runf pb (render_items items) (mkst Out ln o (rev P) icl B))
  = Blocks (rev (flushl o P icl) ++ exp_items ln items).
Proof.
  induction items as [|[it g] r IH]; intros pf pb ln o P icl B HF Hwf Hnd Hpf.
  - cbn [render_items runf exp_items]. unfold finish. cbn [md]. rewrite flush_ic_l, rv_rev, app_nil_r. reflexivity.
  - inversion HF as [|? ? HQit HFr]; subst. cbn [fst] in HQit.
    cbn [wf_items] in Hwf. band Hwf. destruct Hwf as ((((Hit & Hg) & Hadj) & Hna) & Hr).
    cbn [forallb fst] in Hnd. apply andb_true_iff in Hnd as [Hndi Hndr].
    cbn [render_items exp_items].
    destruct (is_free it) eqn:Fr.
    + destruct it as [| | | |t]; try discriminate Fr. cbn [andb] in Hadj. subst pf.
      destruct (Hpf eq_refl) as [HP Hl]. cbn [render_item render_body wf_item] in *.
      rewrite app_assoc, (run_out (t ++ g)) by exact Hna.
      rewrite (IH true _ _ _ _ _ _ HFr Hr Hndr) by discriminate.
      unfold flushl. rewrite (end_implicit_free P t g icl HP Hg Hit), (end_implicit_ws P icl HP).
      cbn [rev block_of render_item]. rewrite <- app_assoc, Hl. reflexivity.
    + rewrite noat_app in Hna. apply andb_true_iff in Hna as [Hna1 Hna2].
      destruct (HQ it HQit (g ++ render_items r) pb ln o P icl B Fr Hit Hndi Hna1) as [B' E].
      rewrite E. rewrite (run_out g) by exact Hna2.
      rewrite (IH false _ _ _ _ _ _ HFr Hr Hndr).
      * unfold flushl at 1. cbn [app]. rewrite (end_implicit_ws g _ Hg). cbn [rev].
        rewrite <- app_assoc, count_nl_app, Z.add_assoc. reflexivity.
      * intros _. cbn [app]. split; [exact Hg | reflexivity].
Qed.

Lemma split_render_gen (Q : item -> Prop) (HQ : forall it, Q it -> item_ok it) d :
  wf_doc d -> nodup_fields d -> Forall (fun p => Q (fst p)) (d_items d) ->
  split_raw (render d) = Blocks (expected d).
Proof.
  intros Hwf Hnd HF. unfold wf_doc, wf_doc_b in Hwf. apply andb_true_iff in Hwf as [Hg Hwf].
  unfold split_raw, run, render, expected. rewrite runf_fold.
  change (c_nl :: d_gap0 d ++ render_items (d_items d)) with ((c_nl :: d_gap0 d) ++ render_items (d_items d)).
  assert (Hg' : is_ws (c_nl :: d_gap0 d) = true) by (cbn [is_ws forallb]; exact Hg).
  unfold st0. change (mkst Out (-1) [] [] (-1) (ob0 0 0%N)) with (mkst Out (-1) [] (rev []) (-1) (ob0 0 0%N)).
  rewrite (run_out (c_nl :: d_gap0 d)) by (apply noat_ws, Hg').
  rewrite (run_items Q HQ (d_items d) false _ _ _ _ _ _ HF Hwf Hnd).
  - unfold flushl. cbn [app]. rewrite (end_implicit_ws _ _ Hg'). cbn [rev app]. f_equal. f_equal.
    change (count_nl (c_nl :: d_gap0 d)) with (1 + count_nl (d_gap0 d)). lia.
  - intros _. cbn [app]. split; [exact Hg'|].
    change (count_nl (c_nl :: d_gap0 d)) with (1 + count_nl (d_gap0 d)). lia.
Qed.

(* ------------------------------------------------------------------ keywords *)
Lemma starts_with_app_blank p : forall a b,
  (forall x y, In x p -> In y b -> (x =? y)%N = false) -> starts_with p (a ++ b) = starts_with p a.
Proof.
  induction p as [|x p IH]; intros a b H; [destruct a; reflexivity|].
  destruct a as [|z a]; cbn [app starts_with].
  - destruct b as [|y b]; [reflexivity|]. rewrite (H x y); [reflexivity | left; reflexivity | left; reflexivity].
  - rewrite IH; [reflexivity|]. intros x' y' Hx Hy. apply H; [right; exact Hx | exact Hy].
Qed.
Lemma lower_sptab c : is_sptab c = true -> lower_ch c = c.
Proof. intros H. destruct (sptab_cases c H); subst; reflexivity. Qed.
Lemma starts_with_hws p a b : forallb (fun x => negb (is_sptab x)) p = true -> is_hws b = true ->
  starts_with p (lower (a ++ b)) = starts_with p (lower a).
Proof.
  intros Hp Hb. unfold lower. rewrite map_app. apply starts_with_app_blank.
  intros x y Hx Hy. apply in_map_iff in Hy as (c & <- & Hc).
  unfold is_hws in Hb. rewrite forallb_forall in Hp, Hb. specialize (Hp x Hx). specialize (Hb c Hc).
  rewrite (lower_sptab c Hb). apply negb_true_iff in Hp.
  destruct (x =? c)%N eqn:E; [|reflexivity]. apply N.eqb_eq in E. subst. congruence.
Qed.
Lemma kw_noblank : forallb (fun x => negb (is_sptab x)) s_comment = true
  /\ forallb (fun x => negb (is_sptab x)) s_preamble = true /\ forallb (fun x => negb (is_sptab x)) s_string = true.
Proof. repeat split; reflexivity. Qed.
Lemma kw_excl l :
  (starts_with s_preamble l = true -> starts_with s_comment l = false)
  /\ (starts_with s_string l = true -> starts_with s_comment l = false /\ starts_with s_preamble l = false).
Proof.
  destruct l as [|x l]; [split; discriminate|].
  change s_comment with (asc 99 :: lit "omment"%string). change s_preamble with (asc 112 :: lit "reamble"%string).
  change s_string with (asc 115 :: lit "tring"%string). cbn [starts_with].
  destruct (asc 99 =? x)%N eqn:E1.
  - apply N.eqb_eq in E1. subst x. change (asc 112 =? asc 99)%N with false. change (asc 115 =? asc 99)%N with false.
    cbn [andb]. split; discriminate.
  - cbn [andb]. split; [reflexivity|]. destruct (asc 112 =? x)%N eqn:E2.
    + apply N.eqb_eq in E2. subst x. change (asc 115 =? asc 112)%N with false. cbn [andb]. discriminate.
    + cbn [andb]. intros _. split; reflexivity.
Qed.

(* ------------------------------------------------------------------ the block head *)
Lemma drop_while_all p a : forall b, forallb p a = true -> drop_while p (a ++ b) = drop_while p b.
Proof.
  induction a as [|c a IH]; intros b H; cbn [app]; [reflexivity|].
  cbn [forallb] in H. apply andb_true_iff in H as [Hc Ha]. cbn [drop_while]. rewrite Hc. apply IH, Ha.
Qed.
Lemma sptab_not_word c : is_sptab c = true -> isword c = false.
Proof. intros H. destruct (sptab_cases c H); subst; reflexivity. Qed.
Lemma at_ok_head w h r : forallb isword w = true -> is_hws h = true -> at_ok (w ++ h ++ c_lb :: r) = true.
Proof.
  intros Hw Hh. unfold at_ok. rewrite (drop_while_all isword w _ Hw).
  assert (E : drop_while isword (h ++ c_lb :: r) = h ++ c_lb :: r).
  { destruct h as [|c h]; [reflexivity|]. cbn [app drop_while]. cbn [is_hws forallb] in Hh.
    apply andb_true_iff in Hh as [Hc _]. rewrite (sptab_not_word c Hc). reflexivity. }
  rewrite E, (drop_while_all is_sptab h _ Hh). reflexivity.
Qed.
Lemma plainw_head w h : forallb isword w = true -> is_hws h = true -> forallb plainw (w ++ h) = true.
Proof.
  intros Hw Hh. rewrite forallb_app. apply andb_true_iff. unfold is_hws in Hh. rewrite forallb_forall in Hw, Hh.
  split; apply forallb_forall; intros x Hx; unfold plainw; [rewrite (Hw x Hx) | rewrite (Hh x Hx), orb_true_r]; reflexivity.
Qed.
(* '@' in Out mode *)
Lemma step_at pb r ln o P icl B : at_ok r = true ->
  runf pb (c_at :: r) (mkst Out ln o (rev P) icl B)
  = runf false r (mkst Head ln (flushl o P icl) [] ln (mkob ln (rev [c_at]) (rev []) [] [] [] [] 0 [] [] [])).
Proof.
  intros H. cbn [runf]. assert (E : classify1 pb c_at r = Some MAt).
  { unfold classify1. change (c_at =? c_nl)%N with false. change (c_at =? c_at)%N with true. cbn iota. rewrite H. reflexivity. }
  rewrite E. cbn [step md step_out]. rewrite flush_ic_l. reflexivity.
Qed.
(* '{' in Head mode *)
Definition head_target (T : str) : mode * str :=
  let ty := lower T in
  if starts_with s_comment ty then (InBraces KComment 0, [])
  else if starts_with s_preamble ty then (InBraces KPreamble 0, [])
  else if starts_with s_string ty then (StrKey, [])
  else (EntKey, strip ty).
Lemma step_head_lb r ln o ic icl bl R T a v et ek fl fs sn dp :
  runf false (c_lb :: r) (mkst Head ln o ic icl (mkob bl (rev R) (rev T) a v et ek fl fs sn dp))
  = runf false r (mkst (fst (head_target T)) ln o ic icl
                    (mkob bl (rev (R ++ [c_lb])) (rev T) [] [] (snd (head_target T)) [] fl [] [] [])).
Proof.
  cbn [runf]. change (classify1 false c_lb r) with (Some MLB). change (c_lb =? c_bs)%N with false. f_equal.
  unfold step, head_target. cbn [md Splitter.ob typ_rev]. rewrite rv_rev, rev_involutive, <- rev_snoc.
  destruct (starts_with s_comment (lower T)); [reflexivity|].
  destruct (starts_with s_preamble (lower T)); [reflexivity|].
  destruct (starts_with s_string (lower T)); reflexivity.
Qed.
Lemma run_at_head w h r pb ln o P icl B : forallb isword w = true -> is_hws h = true ->
  runf pb (c_at :: w ++ h ++ c_lb :: r) (mkst Out ln o (rev P) icl B)
  = runf false r (mkst (fst (head_target (w ++ h))) ln (flushl o P icl) [] ln
                    (mkob ln (rev (c_at :: w ++ h ++ [c_lb])) (rev (w ++ h)) (rev []) (rev []) (snd (head_target (w ++ h))) []
                       0 [] [] [])).
Proof.
  intros Hw Hh. rewrite (step_at pb _ ln o P icl B (at_ok_head w h r Hw Hh)).
  rewrite app_assoc, (run_head (w ++ h)) by (apply plainw_head; assumption).
  rewrite (ends_bs_plainw (w ++ h) false) by (try apply plainw_head; auto).
  rewrite step_head_lb. cbn [app]. rewrite <- !app_assoc. reflexivity.
Qed.

(* ------------------------------------------------------------------ 4. pure tracker lemmas *)
Lemma bdepth_app t1 : forall pb t2 d,
  bdepth pb (t1 ++ t2) d = match bdepth pb t1 d with Some d' => bdepth (ends_bs pb t1) t2 d' | None => None end.
Proof.
  induction t1 as [|c t1 IH]; intros pb t2 d; cbn [app bdepth ends_bs]; [reflexivity|].
  destruct (bd1 (delim pb c) d); [apply IH | reflexivity].
Qed.
Lemma add1_sub1 d : (d + 1 - 1)%N = d.  Proof. lia. Qed.
Lemma add1_nz d : (d + 1 =? 0)%N = false.  Proof. apply N.eqb_neq. lia. Qed.
Lemma braced_bdepth b : forall pb d, wf_braced pb b = true ->
  bdepth pb (render_braced b) d = Some d /\ ends_bs pb (render_braced b) = false.
Proof.
  induction b as [|c b IH|g IHg b IHb]; intros pb d H; cbn [render_braced wf_braced] in *.
  - apply negb_true_iff in H. subst pb. split; reflexivity.
  - apply andb_true_iff in H as [Hc Hb]. cbn [bdepth ends_bs].
    assert (E : bd1 (delim pb c) d = Some d).
    { destruct (delim pb c) as [[]|] eqn:D; try discriminate Hc; try reflexivity. exfalso. exact (delim_not_at _ _ D). }
    rewrite E. apply IH, Hb.
  - band H. destruct H as [[Hpb Hg] Hb]. subst pb.
    cbn [bdepth ends_bs]. change (delim false c_lb) with (Some MLB). change (c_lb =? c_bs)%N with false. cbn [bd1].
    destruct (IHg false (d + 1)%N Hg) as [E1 E2]. destruct (IHb false d Hb) as [E3 E4].
    rewrite bdepth_app, E1, E2, ends_bs_app, E2. cbn [bdepth ends_bs].
    change (delim false c_rb) with (Some MRB). change (c_rb =? c_bs)%N with false. cbn [bd1].
    rewrite add1_nz, add1_sub1. split; assumption.
Qed.

(* ------------------------------------------------------------------ comment / preamble items *)
Lemma step_close_braces kd r ln o ic icl bl R T a V et ek fl fs sn dp :
  runf false (c_rb :: r) (mkst (InBraces kd 0) ln o ic icl (mkob bl (rev R) T a (rev V) et ek fl fs sn dp))
  = runf false r (mkst Out ln (braces_block kd (mkob bl (rev (R ++ [c_rb])) T a (rev V) et ek fl fs sn dp) :: o) [] ln
                    (mkob bl (rev R) T a (rev V) et ek fl fs sn dp)).
Proof. rewrite <- rev_snoc. reflexivity. Qed.
Lemma head_target_comment kw h : is_hws h = true -> starts_with s_comment (lower kw) = true ->
  head_target (kw ++ h) = (InBraces KComment 0, []).
Proof.
  intros Hh H. unfold head_target. destruct kw_noblank as (K1 & K2 & K3).
  rewrite (starts_with_hws _ kw h K1 Hh), H. reflexivity.
Qed.
Lemma head_target_preamble kw h : is_hws h = true -> starts_with s_preamble (lower kw) = true ->
  head_target (kw ++ h) = (InBraces KPreamble 0, []).
Proof.
  intros Hh H. unfold head_target. destruct kw_noblank as (K1 & K2 & K3).
  rewrite (starts_with_hws _ kw h K1 Hh), (starts_with_hws _ kw h K2 Hh), H.
  rewrite (proj1 (kw_excl _) H). reflexivity.
Qed.
Lemma count_nl_plainw t : forallb plainw t = true -> count_nl t = 0.
Proof.
  induction t as [|c t IH]; intros H; [reflexivity|]. cbn [forallb] in H. apply andb_true_iff in H as [Hc Ht].
  rewrite count_nl_cons, (IH Ht). destruct (c =? c_nl)%N eqn:E; [|reflexivity].
  apply N.eqb_eq in E. subst c. discriminate Hc.
Qed.
Lemma out_eq rest L1 L2 b1 b2 F B : L1 = L2 -> b1 = b2 ->
  runf false rest (mkst Out L1 (b1 :: F) [] L1 B) = runf false rest (mkst Out L2 (b2 :: F) (rev []) L2 B).
Proof. intros -> ->. reflexivity. Qed.
Lemma rv_rev_id (l : str) : rv (rev l) = l.
Proof. rewrite rv_rev. apply rev_involutive. Qed.

Lemma count_nl_head kw h t : forallb isword kw = true -> is_hws h = true ->
  count_nl (c_at :: kw ++ h ++ c_lb :: t) = count_nl t.
Proof.
  intros Hkw Hh. rewrite app_assoc, count_nl_cons, count_nl_app, (count_nl_plainw (kw ++ h)) by (apply plainw_head; assumption).
  rewrite count_nl_cons. reflexivity.
Qed.
Lemma count_nl_rb t : count_nl (t ++ [c_rb]) = count_nl t.
Proof. rewrite count_nl_app. cbn. lia. Qed.
Ltac lnorm := repeat (progress (rewrite <- ?app_assoc; cbn [app])).
Ltac blk := cbn [b_line raw_rev typ_rev a_rev v_rev etyp ekey f_line flds_rev seen dups]; rewrite ?rv_rev_id; lnorm.

Lemma item_ok_comment kw h b : item_ok (IComment kw h b).
Proof.
  intros rest pb ln o P icl B _ Hwf _ Hna. cbn [wf_item] in Hwf. band Hwf. destruct Hwf as (((Hkw & Hh) & Hsw) & Hb).
  cbn [render_item render_body] in *. rewrite !noat_app in Hna. cbn [app] in Hna. band Hna.
  destruct Hna as (_ & _ & Hna). change (c_lb :: render_braced b ++ [c_rb]) with ([c_lb] ++ render_braced b ++ [c_rb]) in Hna.
  rewrite !noat_app in Hna. band Hna. destruct Hna as (_ & Hnb & _). cbn [app] in Hnb.
  eexists. cbn [app]. rewrite <- !app_assoc. cbn [app].
  rewrite (run_at_head kw h _ pb ln o P icl B Hkw Hh), (head_target_comment kw h Hh Hsw). cbn [fst snd].
  destruct (braced_bdepth b false 0%N Hb) as [Ed Ee]. rewrite <- ?app_assoc. cbn [app].
  rewrite (run_braces (render_braced b) KComment false _ _ _ _ _ _ _ _ _ _ _ _ _ _ _ _ 0%N 0%N Hnb Ed), Ee.
  rewrite step_close_braces. apply out_eq.
  - rewrite (count_nl_head kw h _ Hkw Hh), count_nl_rb. reflexivity.
  - unfold braces_block, hdr_of, block_of. cbn [render_item render_body]. blk. reflexivity.
Qed.
Lemma item_ok_preamble kw h b : item_ok (IPreamble kw h b).
Proof.
  intros rest pb ln o P icl B _ Hwf _ Hna. cbn [wf_item] in Hwf. band Hwf. destruct Hwf as (((Hkw & Hh) & Hsw) & Hb).
  cbn [render_item render_body] in *. rewrite !noat_app in Hna. cbn [app] in Hna. band Hna.
  destruct Hna as (_ & _ & Hna). change (c_lb :: render_braced b ++ [c_rb]) with ([c_lb] ++ render_braced b ++ [c_rb]) in Hna.
  rewrite !noat_app in Hna. band Hna. destruct Hna as (_ & Hnb & _). cbn [app] in Hnb.
  eexists. lnorm.
  rewrite (run_at_head kw h _ pb ln o P icl B Hkw Hh), (head_target_preamble kw h Hh Hsw). cbn [fst snd].
  destruct (braced_bdepth b false 0%N Hb) as [Ed Ee]. lnorm.
  rewrite (run_braces (render_braced b) KPreamble false _ _ _ _ _ _ _ _ _ _ _ _ _ _ _ _ 0%N 0%N Hnb Ed), Ee.
  rewrite step_close_braces. apply out_eq.
  - rewrite (count_nl_head kw h _ Hkw Hh), count_nl_rb. reflexivity.
  - unfold braces_block, hdr_of, block_of. cbn [render_item render_body]. blk. reflexivity.
Qed.

(* ------------------------------------------------------------------ stages 1 and 2 *)
Definition stage1_item (it : item) : Prop :=
  match it with IComment _ _ _ | IPreamble _ _ _ | IFree _ => True | _ => False end.
Lemma stage1_ok it : stage1_item it -> item_ok it.
Proof.
  destruct it; cbn; try contradiction; intros _.
  - apply item_ok_preamble.
  - apply item_ok_comment.
  - intros rest pb ln o P icl B H. discriminate H.
Qed.
(* documents of @comment / @preamble items, free text and gaps *)
Theorem split_render_stage2 d : wf_doc d -> Forall (fun p => stage1_item (fst p)) (d_items d) ->
  split_raw (render d) = Blocks (expected d).
Proof.
  intros Hwf HF. apply (split_render_gen stage1_item stage1_ok d Hwf); [|exact HF].
  unfold nodup_fields, nodup_fields_b. apply forallb_forall. intros [it g] Hin.
  rewrite Forall_forall in HF. specialize (HF _ Hin). destruct it; try contradiction; reflexivity.
Qed.
Theorem split_render_stage1 d : wf_doc d ->
  Forall (fun p => match fst p with IComment _ _ _ | IPreamble _ _ _ => True | _ => False end) (d_items d) ->
  split_raw (render d) = Blocks (expected d).
Proof.
  intros Hwf HF. apply split_render_stage2; [exact Hwf|]. eapply Forall_impl; [|exact HF].
  intros [it g]; destruct it; cbn; tauto.
Qed.

(* ------------------------------------------------------------------ whitespace, key characters, lower *)
Lemma space_delim pb c : isspace c = true -> delim pb c = None \/ delim pb c = Some MNL.
Proof.
  intros H. unfold delim. destruct (c =? c_nl)%N; [right; reflexivity|]. left. destruct pb; [reflexivity|].
  rewrite (eqb_false_of_flag isspace c c_lb H eq_refl), (eqb_false_of_flag isspace c c_rb H eq_refl),
          (eqb_false_of_flag isspace c c_quote H eq_refl), (eqb_false_of_flag isspace c c_comma H eq_refl),
          (eqb_false_of_flag isspace c c_eq H eq_refl). reflexivity.
Qed.
Lemma quiet_app a : forall pb b, quiet pb (a ++ b) = quiet pb a && quiet (ends_bs pb a) b.
Proof.
  induction a as [|c a IH]; intros pb b; cbn [app quiet ends_bs]; [reflexivity|]. rewrite IH, andb_assoc. reflexivity.
Qed.
Lemma quiet_ws w : forall pb, is_ws w = true -> quiet pb w = true.
Proof.
  induction w as [|c w IH]; intros pb H; cbn [quiet]; [reflexivity|].
  cbn [is_ws forallb] in H. apply andb_true_iff in H as [Hc Hw]. rewrite (IH _ Hw), andb_true_r.
  destruct (space_delim pb c Hc) as [-> | ->]; reflexivity.
Qed.
Lemma no_delim_none pb c : no_delim pb c = true -> delim pb c = None.
Proof. unfold no_delim. destruct (delim pb c); [discriminate | reflexivity]. Qed.
Lemma quiet_kchars s : forall pb, kchars pb s = true -> quiet pb s = true.
Proof.
  induction s as [|c s IH]; intros pb H; cbn [quiet]; [reflexivity|].
  cbn [kchars] in H. band H. destruct H as [[_ Hd] Hs]. rewrite (no_delim_none _ _ Hd), (IH _ Hs). reflexivity.
Qed.
Lemma kchars_nospace s : forall pb, kchars pb s = true -> forallb (fun c => negb (isspace c)) s = true.
Proof.
  induction s as [|c s IH]; intros pb H; cbn [forallb]; [reflexivity|].
  cbn [kchars] in H. band H. destruct H as [[Hc _] Hs]. rewrite Hc, (IH _ Hs). reflexivity.
Qed.
Lemma tight_nospace s : nonnil s = true -> forallb (fun c => negb (isspace c)) s = true -> tight s = true.
Proof.
  intros Hn H. destruct s as [|c s']; [discriminate|]. unfold tight.
  rewrite forallb_forall in H. rewrite (H c (or_introl eq_refl)). cbn [andb].
  destruct (@exists_last _ (c :: s')) as (s0 & x & E); [discriminate|]. rewrite E, last_last.
  apply H. rewrite E. apply in_or_app. right. left. reflexivity.
Qed.
Lemma name_tight s : name_ok s = true -> tight s = true.
Proof.
  unfold name_ok. intros H. apply andb_true_iff in H as [Hn Hk]. apply tight_nospace; [exact Hn|].
  apply (kchars_nospace s false Hk).
Qed.
Lemma isspace_lower c : isspace (lower_ch c) = isspace c.
Proof.
  unfold lower_ch. destruct ((asc 65 <=? c)%N && (c <=? asc 90)%N && (N.land c 127 =? 22)%N) eqn:E; [|reflexivity].
  apply andb_true_iff in E as [_ E]. apply N.eqb_eq in E.
  assert (H0 : N.testbit c 0 = false).
  { assert (H := N.land_spec c 127 0). rewrite E in H. cbn in H. rewrite andb_true_r in H. symmetry. exact H. }
  unfold isspace. rewrite H0, N.bit0_odd, N.odd_add, <- N.bit0_odd, H0. reflexivity.
Qed.

(* ------------------------------------------------------------------ entries: head and key *)
Lemma sptab_space c : is_sptab c = true -> isspace c = true.
Proof. intros H. destruct (sptab_cases c H); subst; reflexivity. Qed.
Lemma hws_ws h : is_hws h = true -> is_ws h = true.
Proof.
  unfold is_hws, is_ws. rewrite !forallb_forall. intros H x Hx. apply sptab_space, H, Hx.
Qed.
Lemma lower_hws h : is_hws h = true -> lower h = h.
Proof.
  induction h as [|c h IH]; intros H; [reflexivity|]. cbn [is_hws forallb] in H. apply andb_true_iff in H as [Hc Hh].
  cbn [lower map]. rewrite (lower_sptab c Hc). f_equal. apply IH, Hh.
Qed.
Lemma typ_tight typ : typ_ok typ = true -> tight (lower typ) = true /\ forallb isword typ = true.
Proof.
  unfold typ_ok. intros H. apply andb_true_iff in H as [Hn H]. rewrite forallb_forall in H. split.
  - apply tight_nospace; [destruct typ; [discriminate | reflexivity]|].
    apply forallb_forall. intros x Hx. apply in_map_iff in Hx as (c & <- & Hc).
    rewrite isspace_lower. specialize (H c Hc). apply andb_true_iff in H as [_ H]. exact H.
  - apply forallb_forall. intros x Hx. specialize (H x Hx). apply andb_true_iff in H as [H _]. exact H.
Qed.
Lemma head_target_entry typ h : typ_ok typ = true -> is_hws h = true ->
  starts_with s_comment (lower typ) = false -> starts_with s_preamble (lower typ) = false ->
  starts_with s_string (lower typ) = false -> head_target (typ ++ h) = (EntKey, lower typ).
Proof.
  intros Ht Hh H1 H2 H3. unfold head_target. destruct kw_noblank as (K1 & K2 & K3).
  rewrite (starts_with_hws _ typ h K1 Hh), (starts_with_hws _ typ h K2 Hh), (starts_with_hws _ typ h K3 Hh), H1, H2, H3.
  f_equal. unfold lower at 1. rewrite map_app. fold (lower typ). fold (lower h). rewrite (lower_hws h Hh).
  apply (strip_tight [] (lower typ) h eq_refl (hws_ws h Hh)), (typ_tight typ Ht).
Qed.
Lemma quiet_key w1 key w2 : is_ws w1 = true -> name_ok key = true -> is_ws w2 = true ->
  quiet false (w1 ++ key ++ w2) = true.
Proof.
  intros H1 Hk H2. unfold name_ok in Hk. apply andb_true_iff in Hk as [_ Hk].
  rewrite !quiet_app, (quiet_ws w1 _ H1), (ends_bs_ws w1 false H1 eq_refl), (quiet_kchars key _ Hk), (quiet_ws w2 _ H2).
  reflexivity.
Qed.
Lemma ends_bs_key w1 key w2 : is_ws w1 = true -> ends_bs false (key ++ w2) = false ->
  ends_bs false (w1 ++ key ++ w2) = false.
Proof. intros H1 H. rewrite ends_bs_app, (ends_bs_ws w1 false H1 eq_refl). exact H. Qed.
Lemma count_nl_entry_head typ h w1 key w2 : forallb isword typ = true -> is_hws h = true ->
  count_nl (entry_head typ h w1 key w2) = count_nl (w1 ++ key ++ w2).
Proof.
  intros Ht Hh. unfold entry_head. rewrite app_assoc, count_nl_app, (count_nl_plainw (typ ++ h)) by (apply plainw_head; assumption).
  rewrite count_nl_cons. reflexivity.
Qed.
Lemma run_entry_head typ h w1 key w2 r pb ln o P icl B :
  typ_ok typ = true -> is_hws h = true ->
  starts_with s_comment (lower typ) = false -> starts_with s_preamble (lower typ) = false ->
  starts_with s_string (lower typ) = false ->
  is_ws w1 = true -> name_ok key = true -> is_ws w2 = true -> ends_bs false (key ++ w2) = false ->
  noat (w1 ++ key ++ w2) r = true ->
  runf pb (c_at :: entry_head typ h w1 key w2 ++ r) (mkst Out ln o (rev P) icl B)
  = runf false r (mkst EntKey (ln + count_nl (entry_head typ h w1 key w2)) (flushl o P icl) [] ln
                    (mkob ln (rev (c_at :: entry_head typ h w1 key w2)) (rev (typ ++ h)) (rev (w1 ++ key ++ w2)) (rev [])
                       (lower typ) [] 0 [] [] [])).
Proof.
  intros Ht Hh S1 S2 S3 H1 Hk H2 He Hn. destruct (typ_tight typ Ht) as [_ Hw].
  rewrite (count_nl_entry_head typ h w1 key w2 Hw Hh). unfold entry_head. lnorm.
  rewrite (run_at_head typ h _ pb ln o P icl B Hw Hh), (head_target_entry typ h Ht Hh S1 S2 S3). cbn [fst snd].
  rewrite !app_assoc, <- (app_assoc w1).
  rewrite (run_key (w1 ++ key ++ w2) EntKey false r) by (auto using quiet_key; right; left; reflexivity).
  rewrite (ends_bs_key w1 key w2 H1 He). lnorm. reflexivity.
Qed.

(* ------------------------------------------------------------------ structural delimiters of entries *)
Lemma step_entkey_rb r ln o ic icl bl R T A v et ek fl fs sn dp :
  runf false (c_rb :: r) (mkst EntKey ln o ic icl (mkob bl (rev R) T (rev A) v et ek fl fs sn dp))
  = runf false r (mkst Out ln (BEntry (mkhdr (Some bl) (Some (R ++ [c_rb])) []) et (strip A) [] :: o) [] ln
                    (mkob bl (rev R) T (rev A) v et ek fl fs sn dp)).
Proof.
  cbn [runf]. change (classify1 false c_rb r) with (Some MRB). change (c_rb =? c_bs)%N with false. f_equal.
  unfold step, close_block, entry_block, ob_key, hdr_of.
  cbn [md line out_rev Splitter.ob b_line raw_rev typ_rev a_rev v_rev etyp ekey f_line flds_rev seen dups].
  rewrite rev_snoc, !rv_rev_id. reflexivity.
Qed.
Lemma step_entkey_comma r ln o ic icl bl R T A v et ek fl fs sn dp :
  runf false (c_comma :: r) (mkst EntKey ln o ic icl (mkob bl (rev R) T (rev A) v et ek fl fs sn dp))
  = runf false r (mkst FldKey ln o ic icl (mkob bl (rev (R ++ [c_comma])) T (rev []) (rev []) et (strip A) fl [] [] [])).
Proof.
  cbn [runf]. change (classify1 false c_comma r) with (Some MComma). change (c_comma =? c_bs)%N with false. f_equal.
  unfold step, upd, ob_key.
  cbn [md line out_rev ic_rev ic_line Splitter.ob b_line raw_rev typ_rev a_rev v_rev etyp ekey f_line flds_rev seen dups].
  rewrite rev_snoc, !rv_rev_id. reflexivity.
Qed.
Lemma step_fldkey_rb r ln o ic icl bl R T a v et ek fl fs sn :
  runf false (c_rb :: r) (mkst FldKey ln o ic icl (mkob bl (rev R) T a v et ek fl fs sn []))
  = runf false r (mkst Out ln (BEntry (mkhdr (Some bl) (Some (R ++ [c_rb])) []) et ek (rev fs) :: o) [] ln
                    (mkob bl (rev R) T a v et ek fl fs sn [])).
Proof.
  cbn [runf]. change (classify1 false c_rb r) with (Some MRB). change (c_rb =? c_bs)%N with false. f_equal.
  unfold step, close_block, entry_block, ob_raw, hdr_of.
  cbn [md line out_rev Splitter.ob b_line raw_rev typ_rev a_rev v_rev etyp ekey f_line flds_rev seen dups].
  rewrite rev_snoc, rv_rev_id, rv_rev. reflexivity.
Qed.
Lemma step_fldkey_eq r ln o ic icl bl R T a v et ek fl fs sn dp :
  runf false (c_eq :: r) (mkst FldKey ln o ic icl (mkob bl (rev R) T a v et ek fl fs sn dp))
  = runf false r (mkst (FldVal false 0) ln o ic icl (mkob bl (rev (R ++ [c_eq])) T a (rev []) et ek ln fs sn dp)).
Proof. rewrite <- rev_snoc. reflexivity. Qed.

(* ------------------------------------------------------------------ 4b. trackers over well-formed content *)
Lemma fvst_app t1 : forall pb t2 q d,
  fvst pb (t1 ++ t2) q d
  = match fvst pb t1 q d with Some (q', d') => fvst (ends_bs pb t1) t2 q' d' | None => None end.
Proof.
  induction t1 as [|c t1 IH]; intros pb t2 q d; cbn [app fvst ends_bs]; [reflexivity|].
  destruct (fv1 (delim pb c) q d) as [[q1 d1]|]; [apply IH | reflexivity].
Qed.
Lemma quiet_track t : forall pb, quiet pb t = true ->
  (forall q d, fvst pb t q d = Some (q, d)) /\ (forall d, bdepth pb t d = Some d).
Proof.
  induction t as [|c t IH]; intros pb H; cbn [fvst bdepth]; [split; reflexivity|].
  cbn [quiet] in H. apply andb_true_iff in H as [Hc Ht]. destruct (IH _ Ht) as [I1 I2].
  destruct (delim pb c) as [[]|]; try discriminate Hc; cbn [fv1 bd1]; split; auto.
Qed.
Lemma braced_fvst b : forall pb d, wf_braced pb b = true ->
  fvst pb (render_braced b) false (d + 1)%N = Some (false, (d + 1)%N).
Proof.
  induction b as [|c b IH|g IHg b IHb]; intros pb d H; cbn [render_braced wf_braced] in *.
  - reflexivity.
  - apply andb_true_iff in H as [Hc Hb]. cbn [fvst].
    assert (E : fv1 (delim pb c) false (d + 1)%N = Some (false, (d + 1)%N)).
    { destruct (delim pb c) as [[]|] eqn:D; try discriminate Hc; cbn [fv1]; rewrite ?add1_nz; try reflexivity.
      exfalso. exact (delim_not_at _ _ D). }
    rewrite E. apply IH, Hb.
  - band H. destruct H as [[Hpb Hg] Hb]. subst pb.
    cbn [fvst]. change (delim false c_lb) with (Some MLB). change (c_lb =? c_bs)%N with false. cbn [fv1].
    rewrite fvst_app, (IHg false (d + 1)%N Hg), (proj2 (braced_bdepth g false 0%N Hg)). cbn [fvst].
    change (delim false c_rb) with (Some MRB). change (c_rb =? c_bs)%N with false. cbn [fv1].
    rewrite add1_nz, add1_sub1. apply IHb, Hb.
Qed.
Lemma quoted_track q : forall pb, wf_quoted pb q = true ->
  fvst pb (render_quoted q) true 0%N = Some (true, 0%N)
  /\ (forall d, bdepth pb (render_quoted q) d = Some d) /\ ends_bs pb (render_quoted q) = false.
Proof.
  induction q as [|c q IH|g IHg q IHq]; intros pb H; cbn [render_quoted wf_quoted] in *.
  - apply negb_true_iff in H. subst pb. repeat split; reflexivity.
  - apply andb_true_iff in H as [Hc Hq]. cbn [fvst bdepth ends_bs]. destruct (IH _ Hq) as (I1 & I2 & I3).
    destruct (delim pb c) as [[]|] eqn:D; try discriminate Hc; cbn [fv1 bd1 orb]; repeat split; auto.
    all: exfalso; exact (delim_not_at _ _ D).
  - band H. destruct H as [[Hpb Hg] Hq]. subst pb.
    destruct (IHg false Hg) as (G1 & G2 & G3). destruct (IHq false Hq) as (Q1 & Q2 & Q3).
    cbn [fvst bdepth ends_bs]. change (delim false c_lb) with (Some MLB). change (c_lb =? c_bs)%N with false.
    cbn [fv1 bd1]. rewrite fvst_app, G1, G3, ends_bs_app, G3. cbn [fvst ends_bs].
    change (delim false c_rb) with (Some MRB). change (c_rb =? c_bs)%N with false. cbn [fv1].
    repeat split; auto. intros d. rewrite bdepth_app, G2, G3. cbn [bdepth].
    change (delim false c_rb) with (Some MRB). change (c_rb =? c_bs)%N with false. cbn [bd1].
    rewrite add1_nz, add1_sub1. apply Q2.
Qed.
Lemma piece_track p : wf_piece p = true ->
  fvst false (render_piece p) false 0%N = Some (false, 0%N) /\ (forall d, bdepth false (render_piece p) d = Some d).
Proof.
  destruct p as [s|b|q]; cbn [wf_piece render_piece]; intros H.
  - unfold name_ok in H. band H. destruct H as [[_ Hk] _].
    destruct (quiet_track s false (quiet_kchars s false Hk)) as [T1 T2]. split; [apply T1 | exact T2].
  - destruct (braced_bdepth b false 0%N H) as [_ Ee]. split.
    + cbn [fvst]. change (delim false c_lb) with (Some MLB). change (c_lb =? c_bs)%N with false. cbn [fv1].
      rewrite fvst_app, (braced_fvst b false 0%N H), Ee. cbn [fvst].
      change (delim false c_rb) with (Some MRB). change (c_rb =? c_bs)%N with false. cbn [fv1].
      rewrite add1_nz, add1_sub1. reflexivity.
    + intros d. cbn [bdepth]. change (delim false c_lb) with (Some MLB). change (c_lb =? c_bs)%N with false. cbn [bd1].
      rewrite bdepth_app, (proj1 (braced_bdepth b false (d + 1)%N H)), Ee. cbn [bdepth].
      change (delim false c_rb) with (Some MRB). cbn [bd1]. rewrite add1_nz, add1_sub1. reflexivity.
  - destruct (quoted_track q false H) as (Q1 & Q2 & Q3). split.
    + cbn [fvst]. change (delim false c_quote) with (Some MQ). change (c_quote =? c_bs)%N with false. cbn [fv1].
      change (0 =? 0)%N with true. cbn [negb]. rewrite fvst_app, Q1, Q3. cbn [fvst].
      change (delim false c_quote) with (Some MQ). cbn [fv1]. reflexivity.
    + intros d. cbn [bdepth]. change (delim false c_quote) with (Some MQ). change (c_quote =? c_bs)%N with false. cbn [bd1].
      rewrite bdepth_app, Q2, Q3. cbn [bdepth]. change (delim false c_quote) with (Some MQ). reflexivity.
Qed.
Lemma delim_hash pb : delim pb c_hash = None.
Proof. destruct pb; reflexivity. Qed.
Lemma quiet_sep a b : forall pb, is_ws a = true -> is_ws b = true ->
  quiet pb (a ++ c_hash :: b) = true /\ ends_bs pb (a ++ c_hash :: b) = false.
Proof.
  intros pb Ha Hb. split.
  - rewrite quiet_app, (quiet_ws a _ Ha). cbn [quiet andb]. rewrite delim_hash. apply quiet_ws, Hb.
  - rewrite ends_bs_app. cbn [ends_bs]. apply ends_bs_ws; [exact Hb | reflexivity].
Qed.
Lemma more_track l : forall pb, wf_more l = true ->
  fvst pb (render_more l) false 0%N = Some (false, 0%N) /\ (forall d, bdepth pb (render_more l) d = Some d).
Proof.
  induction l as [|[[a b] p] r IH]; intros pb H; cbn [render_more wf_more] in *; [split; reflexivity|].
  band H. destruct H as [[[Ha Hb] Hp] Hr]. destruct (quiet_sep a b pb Ha Hb) as [Hq He].
  destruct (quiet_track _ _ Hq) as [T1 T2]. destruct (piece_track p Hp) as [P1 P2].
  destruct (IH (ends_bs false (render_piece p)) Hr) as [I1 I2].
  change (a ++ c_hash :: b ++ render_piece p ++ render_more r) with (a ++ (c_hash :: b) ++ render_piece p ++ render_more r).
  rewrite (app_assoc a). split.
  - rewrite fvst_app, T1, He, fvst_app, P1. exact I1.
  - intros d. rewrite bdepth_app, T2, He, bdepth_app, P2. apply I2.
Qed.
Lemma value_track v : wf_value v = true ->
  fvst false (render_value v) false 0%N = Some (false, 0%N) /\ (forall d, bdepth false (render_value v) d = Some d).
Proof.
  unfold wf_value, render_value. intros H. apply andb_true_iff in H as [Hp Hm].
  destruct (piece_track _ Hp) as [P1 P2]. destruct (more_track (v_more v) (ends_bs false (render_piece (v_first v))) Hm) as [M1 M2].
  split; [rewrite fvst_app, P1; exact M1 | intros d; rewrite bdepth_app, P2; apply M2].
Qed.

(* ------------------------------------------------------------------ a value starts and ends with a non-blank *)
Definition fst_ns (s : str) : Prop := exists c s', s = c :: s' /\ isspace c = false.
Definition lst_ns (s : str) : Prop := exists s0 x, s = s0 ++ [x] /\ isspace x = false.
Lemma tight_intro s : fst_ns s -> lst_ns s -> tight s = true.
Proof.
  intros (c & s' & E1 & Hc) (s0 & x & E2 & Hx). unfold tight. rewrite E1 at 1. rewrite Hc, E2, last_last, Hx. reflexivity.
Qed.
Lemma tight_elim s : tight s = true -> fst_ns s /\ lst_ns s.
Proof.
  intros H. destruct (tight_inv s H) as (c & s' & s0 & x & E1 & E2 & Hc & Hx).
  split; [exists c, s' | exists s0, x]; auto.
Qed.
Lemma fst_ns_app a b : fst_ns a -> fst_ns (a ++ b).
Proof. intros (c & s' & -> & Hc). exists c, (s' ++ b). auto. Qed.
Lemma lst_ns_app a b : lst_ns b -> lst_ns (a ++ b).
Proof. intros (s0 & x & -> & Hx). exists (a ++ s0), x. rewrite app_assoc. auto. Qed.
Lemma piece_ns p : wf_piece p = true -> fst_ns (render_piece p) /\ lst_ns (render_piece p).
Proof.
  destruct p as [s|b|q]; cbn [wf_piece render_piece]; intros H.
  - apply andb_true_iff in H as [H _]. apply tight_elim, name_tight, H.
  - split; [exists c_lb, (render_braced b ++ [c_rb]) | exists (c_lb :: render_braced b), c_rb]; auto.
  - split; [exists c_quote, (render_quoted q ++ [c_quote]) | exists (c_quote :: render_quoted q), c_quote]; auto.
Qed.
Lemma more_ns l : wf_more l = true -> render_more l = [] \/ lst_ns (render_more l).
Proof.
  induction l as [|[[a b] p] r IH]; intros H; cbn [render_more wf_more] in *; [left; reflexivity|]. right.
  band H. destruct H as [[[_ _] Hp] Hr].
  change (a ++ c_hash :: b ++ render_piece p ++ render_more r) with (a ++ (c_hash :: b) ++ render_piece p ++ render_more r).
  apply lst_ns_app, lst_ns_app. destruct (IH Hr) as [-> | Hl].
  - rewrite app_nil_r. apply piece_ns, Hp.
  - apply lst_ns_app, Hl.
Qed.
Lemma value_tight v : wf_value v = true -> tight (render_value v) = true.
Proof.
  unfold wf_value, render_value. intros H. apply andb_true_iff in H as [Hp Hm].
  destruct (piece_ns _ Hp) as [F L]. apply tight_intro; [apply fst_ns_app, F|].
  destruct (more_ns _ Hm) as [-> | Hl]; [rewrite app_nil_r; exact L | apply lst_ns_app, Hl].
Qed.

(* ------------------------------------------------------------------ fields *)
Lemma step_fldval_comma r ln o ic icl bl R T A V et ek fl fs sn :
  mem_str (strip A) sn = false ->
  runf false (c_comma :: r) (mkst (FldVal false 0) ln o ic icl (mkob bl (rev R) T (rev A) (rev V) et ek fl fs sn []))
  = runf false r (mkst FldKey ln o ic icl
                    (mkob bl (rev (R ++ [c_comma])) T (rev []) (rev []) et ek fl
                       (mkfield (strip A) (VStr (strip V)) (Some fl) :: fs) (strip A :: sn) [])).
Proof.
  intros Hm. cbn [runf]. change (classify1 false c_comma r) with (Some MComma). change (c_comma =? c_bs)%N with false.
  f_equal. unfold step, upd, ob_raw, ob_field.
  cbn [md line out_rev ic_rev ic_line Splitter.ob b_line raw_rev typ_rev a_rev v_rev etyp ekey f_line flds_rev seen dups
       orb negb N.eqb].
  rewrite rev_snoc, !rv_rev_id, Hm. reflexivity.
Qed.
Lemma step_fldval_rb r ln o ic icl bl R T A V et ek fl fs sn :
  mem_str (strip A) sn = false ->
  runf false (c_rb :: r) (mkst (FldVal false 0) ln o ic icl (mkob bl (rev R) T (rev A) (rev V) et ek fl fs sn []))
  = runf false r (mkst Out ln
                    (BEntry (mkhdr (Some bl) (Some (R ++ [c_rb])) []) et ek
                       (rev (mkfield (strip A) (VStr (strip V)) (Some fl) :: fs)) :: o) [] ln
                    (mkob bl (rev R) T (rev A) (rev V) et ek fl fs sn [])).
Proof.
  intros Hm. cbn [runf]. change (classify1 false c_rb r) with (Some MRB). change (c_rb =? c_bs)%N with false.
  f_equal. unfold step, close_block, entry_block, ob_raw, ob_field, hdr_of.
  cbn [md line out_rev ic_rev ic_line Splitter.ob b_line raw_rev typ_rev a_rev v_rev etyp ekey f_line flds_rev seen dups
       N.eqb].
  rewrite rev_snoc, !rv_rev_id, Hm, rv_rev. reflexivity.
Qed.
Definition field_tail (f : gfield) : str := g_w2 f ++ render_value (g_val f) ++ g_post f.
Lemma render_field_eq f : render_field f = field_head f ++ c_eq :: field_tail f.
Proof. reflexivity. Qed.
Lemma run_field f r ln o ic icl bl R T et ek fl F sn dp : wf_field f = true -> noat (render_field f) r = true ->
  runf false (render_field f ++ r) (mkst FldKey ln o ic icl (mkob bl (rev R) T (rev []) (rev []) et ek fl F sn dp))
  = runf false r (mkst (FldVal false 0) (ln + count_nl (render_field f)) o ic icl
                    (mkob bl (rev (R ++ render_field f)) T (rev (field_head f)) (rev (field_tail f)) et ek
                       (ln + count_nl (field_head f)) F sn dp)).
Proof.
  intros Hwf Hna. unfold wf_field in Hwf. band Hwf.
  destruct Hwf as (((((((Hpre & Hname) & Hw1) & He1) & Hw2) & Hv) & Hpost) & He2).
  rewrite render_field_eq in *. rewrite noat_app in Hna. apply andb_true_iff in Hna as [Hn1 Hn2].
  change (c_eq :: field_tail f) with ([c_eq] ++ field_tail f) in Hn2. rewrite noat_app in Hn2.
  apply andb_true_iff in Hn2 as [_ Hn2].
  rewrite <- app_assoc.
  rewrite (run_key (field_head f) FldKey false _ _ _ _ _ _ _ _ _ _ _ _ _ _ _ _ (or_intror (or_intror eq_refl)) Hn1
             (quiet_key _ _ _ Hpre Hname Hw1)).
  unfold field_head at 1. rewrite (ends_bs_key _ _ _ Hpre He1). cbn [app].
  rewrite step_fldkey_eq.
  destruct (value_track _ Hv) as [V1 _].
  assert (Ef : fvst false (field_tail f) false 0%N = Some (false, 0%N)).
  { unfold field_tail. rewrite fvst_app, (proj1 (quiet_track _ false (quiet_ws _ false Hw2))).
    rewrite (ends_bs_ws _ false Hw2 eq_refl), fvst_app, V1. apply (quiet_track _ _ (quiet_ws _ _ Hpost)). }
  rewrite (run_fldval (field_tail f) false r _ _ _ _ _ _ _ _ _ _ _ _ _ _ _ _ _ _ _ Hn2 Ef).
  assert (Ee : ends_bs false (field_tail f) = false).
  { unfold field_tail. rewrite ends_bs_app, (ends_bs_ws _ false Hw2 eq_refl). exact He2. }
  rewrite Ee. lnorm. rewrite count_nl_app, count_nl_cons. change (c_eq =? c_nl)%N with false. cbn iota.
  rewrite Z.add_0_l, Z.add_assoc. reflexivity.
Qed.
Lemma field_strips f : wf_field f = true ->
  strip (field_head f) = g_name f /\ strip (field_tail f) = render_value (g_val f).
Proof.
  intros Hwf. unfold wf_field in Hwf. band Hwf.
  destruct Hwf as (((((((Hpre & Hname) & Hw1) & He1) & Hw2) & Hv) & Hpost) & He2).
  split; [apply strip_tight; auto using name_tight | apply strip_tight; auto using value_tight].
Qed.
Lemma out_eq2 rest L1 L2 b1 b2 F B : L1 = L2 -> b1 = b2 ->
  runf false rest (mkst Out L1 (b1 :: F) [] L1 B) = runf false rest (mkst Out L2 (b2 :: F) [] L2 B).
Proof. intros -> ->. reflexivity. Qed.
Lemma run_fields fs : forall r ln o ic icl bl R T et ek fl F sn,
  wf_fields fs = true -> fresh_all sn (field_names fs) = true -> noat (render_fields fs) r = true ->
  exists B', runf false (render_fields fs ++ r)
               (mkst FldKey ln o ic icl (mkob bl (rev R) T (rev []) (rev []) et ek fl F sn []))
  = runf false r (mkst Out (ln + count_nl (render_fields fs))
                    (BEntry (mkhdr (Some bl) (Some (R ++ render_fields fs)) []) et ek (rev F ++ exp_fields ln fs) :: o)
                    [] (ln + count_nl (render_fields fs)) B').
Proof.
  induction fs as [w|f|f r0 IH]; intros r ln o ic icl bl R T et ek fl F sn Hwf Hfr Hna;
    cbn [render_fields wf_fields field_names fresh_all exp_fields] in *.
  - rewrite noat_app in Hna. apply andb_true_iff in Hna as [Hn1 _]. eexists. rewrite <- app_assoc.
    rewrite (run_key w FldKey false _ _ _ _ _ _ _ _ _ _ _ _ _ _ _ _ (or_intror (or_intror eq_refl)) Hn1 (quiet_ws _ _ Hwf)).
    rewrite (ends_bs_ws w false Hwf eq_refl). cbn [app]. rewrite step_fldkey_rb. apply out_eq2.
    + rewrite count_nl_rb. reflexivity.
    + rewrite app_nil_r. lnorm. reflexivity.
  - rewrite noat_app in Hna. apply andb_true_iff in Hna as [Hn1 _]. band Hfr. destruct Hfr as [Hm _].
    destruct (field_strips f Hwf) as [S1 S2]. eexists. rewrite <- app_assoc.
    rewrite (run_field f _ _ _ _ _ _ _ _ _ _ _ _ _ _ Hwf Hn1). cbn [app].
    rewrite step_fldval_rb by (rewrite S1; exact Hm). apply out_eq2.
    + rewrite count_nl_rb. reflexivity.
    + rewrite S1, S2. cbn [rev]. lnorm. reflexivity.
  - apply andb_true_iff in Hwf as [Hwf Hwr]. band Hfr. destruct Hfr as [Hm Hfr].
    rewrite noat_app in Hna. apply andb_true_iff in Hna as [Hn1 Hn2].
    change (c_comma :: render_fields r0) with ([c_comma] ++ render_fields r0) in Hn2.
    rewrite noat_app in Hn2. apply andb_true_iff in Hn2 as [_ Hn2].
    destruct (field_strips f Hwf) as [S1 S2]. rewrite <- app_assoc.
    rewrite (run_field f _ _ _ _ _ _ _ _ _ _ _ _ _ _ Hwf Hn1). cbn [app].
    rewrite step_fldval_comma by (rewrite S1; exact Hm). rewrite S1, S2.
    destruct (IH r (ln + count_nl (render_field f)) o ic icl bl ((R ++ render_field f) ++ [c_comma]) T et ek
                (ln + count_nl (field_head f))
                (mkfield (g_name f) (VStr (render_value (g_val f))) (Some (ln + count_nl (field_head f))) :: F)
                (g_name f :: sn) Hwr Hfr Hn2) as [B' E].
    exists B'. rewrite E. apply out_eq2.
    + rewrite count_nl_app, count_nl_cons. change (c_comma =? c_nl)%N with false. cbn iota. lia.
    + cbn [rev]. lnorm. reflexivity.
Qed.

(* ------------------------------------------------------------------ entry items *)
Lemma item_ok_entry typ h w1 key w2 t : item_ok (IEntry typ h w1 key w2 t).
Proof.
  intros rest pb ln o P icl B _ Hwf Hnd Hna. cbn [wf_item] in Hwf. band Hwf.
  destruct Hwf as (((((((((Ht & Hh) & S1) & S2) & S3) & H1) & Hk) & H2) & He) & Htl).
  cbn [render_item render_body] in *.
  assert (Hs : strip (w1 ++ key ++ w2) = key) by (apply strip_tight; auto using name_tight).
  unfold entry_head in Hna at 1. set (K := w1 ++ key ++ w2) in *.
  change (typ ++ h ++ c_lb :: K) with (typ ++ h ++ [c_lb] ++ K) in Hna.
  rewrite <- !app_assoc in Hna. rewrite noat_app in Hna. apply andb_true_iff in Hna as [_ Hna].
  rewrite noat_app in Hna. apply andb_true_iff in Hna as [_ Hna].
  rewrite noat_app in Hna. apply andb_true_iff in Hna as [_ Hna].
  rewrite noat_app in Hna. apply andb_true_iff in Hna as [HnK Hnt]. subst K.
  cbn [app]. rewrite <- app_assoc.
  rewrite (run_entry_head typ h w1 key w2 _ pb ln o P icl B Ht Hh S1 S2 S3 H1 Hk H2 He HnK).
  destruct t as [|fs]; cbn [render_etail wf_etail nodup_item] in *.
  - eexists. cbn [app]. rewrite step_entkey_rb. apply out_eq.
    + rewrite app_comm_cons, count_nl_rb, count_nl_cons. reflexivity.
    + rewrite Hs. unfold block_of. cbn [render_item render_body render_etail]. lnorm. reflexivity.
  - change (c_comma :: render_fields fs) with ([c_comma] ++ render_fields fs) in Hnt.
    rewrite noat_app in Hnt. apply andb_true_iff in Hnt as [_ Hnt].
    cbn [app]. rewrite step_entkey_comma, Hs.
    destruct (run_fields fs rest (ln + count_nl (entry_head typ h w1 key w2)) (flushl o P icl) [] ln ln
                ((c_at :: entry_head typ h w1 key w2) ++ [c_comma]) (rev (typ ++ h)) (lower typ) key 0 [] []
                Htl Hnd Hnt) as [B' E].
    exists B'. rewrite E. apply out_eq.
    + rewrite count_nl_cons, count_nl_app, count_nl_cons. change (c_comma =? c_nl)%N with false.
      change (c_at =? c_nl)%N with false. cbn iota. lia.
    + unfold block_of. cbn [render_item render_body render_etail rev]. lnorm. reflexivity.
Qed.

(* ------------------------------------------------------------------ @string items *)
Lemma head_target_string kw h : is_hws h = true -> starts_with s_string (lower kw) = true ->
  head_target (kw ++ h) = (StrKey, []).
Proof.
  intros Hh H. unfold head_target. destruct kw_noblank as (K1 & K2 & K3).
  rewrite (starts_with_hws _ kw h K1 Hh), (starts_with_hws _ kw h K2 Hh), (starts_with_hws _ kw h K3 Hh), H.
  destruct (proj2 (kw_excl _) H) as [-> ->]. reflexivity.
Qed.
Lemma step_strkey_eq r ln o ic icl bl R T a v et ek fl fs sn dp :
  runf false (c_eq :: r) (mkst StrKey ln o ic icl (mkob bl (rev R) T a v et ek fl fs sn dp))
  = runf false r (mkst (InBraces KString 0) ln o ic icl (mkob bl (rev (R ++ [c_eq])) T a (rev []) et ek ln fs sn dp)).
Proof. rewrite <- rev_snoc. reflexivity. Qed.
Lemma item_ok_string kw h w1 name w2 w3 v w4 : item_ok (IString kw h w1 name w2 w3 v w4).
Proof.
  intros rest pb ln o P icl B _ Hwf _ Hna. cbn [wf_item] in Hwf. band Hwf.
  destruct Hwf as ((((((((((Hkw & Hh) & Hsw) & H1) & Hk) & H2) & He1) & H3) & Hv) & H4) & He2).
  cbn [render_item render_body] in *.
  set (K := w1 ++ name ++ w2) in *. set (V := w3 ++ render_value v ++ w4).
  assert (EV : w3 ++ render_value v ++ w4 ++ [c_rb] = V ++ [c_rb]) by (unfold V; rewrite <- !app_assoc; reflexivity).
  assert (EK : w1 ++ name ++ w2 ++ c_eq :: V ++ [c_rb] = K ++ [c_eq] ++ V ++ [c_rb])
    by (unfold K; rewrite <- !app_assoc; reflexivity).
  rewrite EV, EK in *.
  change (kw ++ h ++ c_lb :: K ++ [c_eq] ++ V ++ [c_rb]) with (kw ++ h ++ [c_lb] ++ K ++ [c_eq] ++ V ++ [c_rb]) in Hna.
  rewrite noat_app in Hna. apply andb_true_iff in Hna as [_ Hna].
  rewrite noat_app in Hna. apply andb_true_iff in Hna as [_ Hna].
  rewrite noat_app in Hna. apply andb_true_iff in Hna as [_ Hna].
  rewrite noat_app in Hna. apply andb_true_iff in Hna as [HnK Hna].
  rewrite noat_app in Hna. apply andb_true_iff in Hna as [_ Hna].
  rewrite noat_app in Hna. apply andb_true_iff in Hna as [HnV _].
  rewrite <- ?app_assoc in HnK. cbn [app] in HnK, HnV.
  eexists. cbn [app]. rewrite <- !app_assoc. cbn [app].
  rewrite (run_at_head kw h _ pb ln o P icl B Hkw Hh), (head_target_string kw h Hh Hsw). cbn [fst snd].
  lnorm. rewrite (run_key K StrKey false _ _ _ _ _ _ _ _ _ _ _ _ _ _ _ _ (or_introl eq_refl) HnK (quiet_key _ _ _ H1 Hk H2)).
  unfold K at 1. rewrite (ends_bs_key _ _ _ H1 He1). rewrite step_strkey_eq.
  destruct (value_track _ Hv) as [_ V2].
  assert (Ed : bdepth false V 0%N = Some 0%N).
  { unfold V. rewrite bdepth_app, (proj2 (quiet_track _ false (quiet_ws _ false H3))).
    rewrite (ends_bs_ws _ false H3 eq_refl), bdepth_app, V2. apply (quiet_track _ _ (quiet_ws _ _ H4)). }
  rewrite (run_braces V KString false _ _ _ _ _ _ _ _ _ _ _ _ _ _ _ _ 0%N 0%N HnV Ed).
  assert (Ee : ends_bs false V = false).
  { unfold V. rewrite ends_bs_app, (ends_bs_ws _ false H3 eq_refl). exact He2. }
  rewrite Ee, step_close_braces. apply out_eq.
  - rewrite (count_nl_head kw h _ Hkw Hh), !count_nl_app, !count_nl_cons.
    change (c_eq =? c_nl)%N with false. change (c_rb =? c_nl)%N with false. cbn [count_nl]. rewrite ?count_nl_rb. lia.
  - unfold braces_block, hdr_of, block_of. blk. cbn [render_item render_body].
    unfold K at 2. unfold V at 2. rewrite (strip_tight w1 name w2 H1 H2 (name_tight _ Hk)).
    rewrite (strip_tight w3 _ w4 H3 H4 (value_tight _ Hv)). rewrite EV, EK. lnorm. reflexivity.
Qed.

(* ------------------------------------------------------------------ the theorems *)
Lemma all_items_ok it : True -> item_ok it.
Proof.
  intros _. destruct it.
  - apply item_ok_entry.
  - apply item_ok_string.
  - apply item_ok_preamble.
  - apply item_ok_comment.
  - intros rest pb ln o P icl B H. discriminate H.
Qed.

Theorem split_render : forall d, wf_doc d -> nodup_fields d -> split_raw (render d) = Blocks (expected d).
Proof.
  intros d Hwf Hnd. apply (split_render_gen (fun _ => True) all_items_ok d Hwf Hnd).
  apply Forall_forall. intros; exact I.
Qed.

(* the ground truth contains no failed-class block *)
Lemma exp_items_no_failed l : forall ln, forallb (fun b => negb (is_failed_class b)) (exp_items ln l) = true.
Proof.
  induction l as [|[it g] r IH]; intros ln; cbn [exp_items forallb]; [reflexivity|].
  rewrite IH, andb_true_r. destruct it; reflexivity.
Qed.
Theorem expected_no_failed d : forallb (fun b => negb (is_failed_class b)) (expected d) = true.
Proof. apply exp_items_no_failed. Qed.
Corollary split_render_no_failed d : wf_doc d -> nodup_fields d ->
  exists bs, split_raw (render d) = Blocks bs /\ filter is_failed_class bs = [].
Proof.
  intros Hwf Hnd. exists (expected d). split; [apply split_render; assumption|].
  assert (H := expected_no_failed d). induction (expected d) as [|b l IH]; [reflexivity|].
  cbn [forallb filter] in *. apply andb_true_iff in H as [Hb Hl]. apply negb_true_iff in Hb. rewrite Hb. apply IH, Hl.
Qed.

(* the stages, as instances *)
Definition zero_fields (it : item) : bool :=
  match it with IEntry _ _ _ _ _ ENoComma | IEntry _ _ _ _ _ (EComma (FEnd _)) => true | IEntry _ _ _ _ _ _ => false | _ => true end.
Definition no_entry (it : item) : bool := match it with IEntry _ _ _ _ _ _ => false | _ => true end.
Fixpoint braced_only (fs : gfields) : bool :=
  let one f := match g_val f with mkgv (PBraced _) [] => true | _ => false end in
  match fs with FEnd _ => false | FLast f => one f | FCons f r => one f && match r with FEnd _ => false | _ => braced_only r end end.
Definition stage5_item (it : item) : bool :=
  zero_fields it || match it with IEntry _ _ _ _ _ (EComma fs) => braced_only fs | _ => false end.
Theorem split_render_stage3 d : wf_doc d -> forallb (fun p => no_entry (fst p)) (d_items d) = true ->
  split_raw (render d) = Blocks (expected d).
Proof.
  intros Hwf H. apply split_render; [exact Hwf|]. unfold nodup_fields, nodup_fields_b.
  rewrite forallb_forall in *. intros [it g] Hin. specialize (H _ Hin). destruct it; try reflexivity. discriminate H.
Qed.
Theorem split_render_stage4 d : wf_doc d -> forallb (fun p => zero_fields (fst p)) (d_items d) = true ->
  split_raw (render d) = Blocks (expected d).
Proof.
  intros Hwf H. apply split_render; [exact Hwf|]. unfold nodup_fields, nodup_fields_b.
  rewrite forallb_forall in *. intros [it g] Hin. specialize (H _ Hin). destruct it as [? ? ? ? ? [|[]]| | | |]; try reflexivity; discriminate H.
Qed.
Theorem split_render_stage5 d : wf_doc d -> nodup_fields d -> forallb (fun p => stage5_item (fst p)) (d_items d) = true ->
  split_raw (render d) = Blocks (expected d).
Proof. intros Hwf Hnd _. apply split_render; assumption. Qed.
Theorem split_render_stage6 d : wf_doc d -> nodup_fields d -> split_raw (render d) = Blocks (expected d).
Proof. apply split_render. Qed.
Print Assumptions split_render.
Print Assumptions split_render_no_failed.

(* ------------------------------------------------------------------ non-vacuity *)
Definition bs_ (s : str) (k : braced) : braced := fold_right BChar k s.
Definition qs_ (s : str) (k : quoted) : quoted := fold_right QChar k s.
Definition sp_ : str := lit " ".
Definition ex_f1 : gfield :=
  mkgf (c_nl :: lit "  ") (lit "title") sp_ sp_
       (mkgv (PBraced (bs_ (lit "A ") (BGroup (bs_ (lit "B=""x") BNil) (bs_ (lit " c, d") BNil)))) []) [].
Definition ex_f2 : gfield :=
  mkgf (c_nl :: lit "  ") (lit "note") [] sp_
       (mkgv (PQuoted (qs_ (lit "say \""hi\"", ") (QGroup (qs_ (lit "ok") QNil) QNil))) [(sp_, sp_, PBare (lit "jan")); ([], [], PBraced BNil)]) [c_nl].
Definition ex_doc : doc :=
  mkdoc [c_nl]
    [ (IFree (lit "% header: x = {1, 2} @ home"), [c_nl]);
      (IComment (lit "Comment") [] (bs_ (lit " hello, ") (BGroup (bs_ (lit "w") BNil) BNil)), [c_nl; c_nl]);
      (IString (lit "String") sp_ [] (lit "jan") sp_ sp_ (mkgv (PQuoted (qs_ (lit "January") QNil)) []) [], [c_nl]);
      (IEntry (lit "Article") [] sp_ (lit "key:1") [] (EComma (FCons ex_f1 (FLast ex_f2))), [c_nl]);
      (IEntry (lit "misc") sp_ [] (lit "k2") [] ENoComma, []);
      (IFree (lit "trailing"), []) ].
Example ex_wf : wf_doc ex_doc.  Proof. vm_compute. reflexivity. Qed.
Example ex_nodup : nodup_fields ex_doc.  Proof. vm_compute. reflexivity. Qed.
Example ex_render : render ex_doc = lit "
% header: x = {1, 2} @ home
@Comment{ hello, {w}}

@String {jan = ""January""}
@Article{ key:1,
  title = {A {B=""x} c, d},
  note= ""say \""hi\"", {ok}"" # jan#{}
}
@misc {k2}trailing".
Proof. vm_compute. reflexivity. Qed.
Example ex_split : split_raw (render ex_doc) = Blocks (expected ex_doc).
Proof. apply split_render; [exact ex_wf | exact ex_nodup]. Qed.
Example ex_split_computed : split_raw (render ex_doc) = Blocks (expected ex_doc).
Proof. vm_compute. reflexivity. Qed.
Example ex_expected_nontrivial : map class_of (expected ex_doc) = [CImpl; CExpl; CString; CEntry; CEntry; CImpl].
Proof. vm_compute. reflexivity. Qed.
(* boundary B1: an active quote inside a brace group of a quoted piece is outside the dialect, and the
   statement fails there (the splitter closes the value at that quote) *)
Definition ex_b1 : doc :=
  mkdoc [] [ (IEntry (lit "a") [] [] (lit "k") []
               (EComma (FLast (mkgf [] (lit "t") [] [] (mkgv (PQuoted (QGroup (qs_ (lit """") QNil) (qs_ (lit ",") QNil))) []) []))), []) ].
Example ex_b1_not_wf : wf_doc_b ex_b1 = false.  Proof. vm_compute. reflexivity. Qed.
Example ex_b1_diverges : split_raw (render ex_b1) <> Blocks (expected ex_b1).
Proof. vm_compute. discriminate. Qed.
