(* Proofs for C15.  The month table is the generated one; every table-dependent fact is re-checked by
   computation on the current table at every build. *)
From Coq Require Import List NArith ZArith Bool Lia.
From BP Require Import Base.Chars Model.Blocks Gen.Constants Model.Month Spec.C15.
Import ListNotations.
Local Open Scope Z_scope.

Lemma table_ok_true : table_ok = true.
Proof. vm_compute. reflexivity. Qed.

(* ---- characters *)
Lemma lower_ch_decimal c : isdecimal c = true -> lower_ch c = c.
Proof.
  unfold isdecimal, lower_ch. intros H.
  destruct (N.land c 127 =? 22)%N eqn:E; [|rewrite andb_false_r; reflexivity].
  apply N.eqb_eq in E.
  assert (N.testbit (N.land c 127) 5 = N.testbit c 5) as T.
  { rewrite N.land_spec. replace (N.testbit 127 5) with true by reflexivity. apply andb_true_r. }
  rewrite E in T. rewrite H in T. discriminate T.
Qed.

Lemma lower_decimal s : forallb isdecimal s = true -> lower s = s.
Proof.
  induction s as [|c s IH]; simpl; intros H; [reflexivity|].
  apply andb_true_iff in H as [H1 H2]. rewrite lower_ch_decimal by exact H1. f_equal. apply IH, H2.
Qed.

Lemma str_isdecimal_lower s : str_isdecimal s = true -> lower s = s.
Proof. destruct s; [discriminate|]. intros H. apply lower_decimal, H. Qed.

(* ---- lists *)
Lemma index_of_Some x l i : index_of x l = Some i -> nth i l [] = x /\ (i < length l)%nat /\ mem_str x l = true.
Proof.
  revert i; induction l as [|y l IH]; simpl; intros i H; [discriminate|].
  destruct (str_eqb x y) eqn:E.
  - inversion H; subst. apply str_eqb_eq in E. subst. simpl. repeat split; lia.
  - destruct (index_of x l) as [j|] eqn:J; [|discriminate]. inversion H; subst.
    destruct (IH j eq_refl) as (A & B & C). simpl. repeat split; [exact A | lia | exact C].
Qed.
Lemma index_of_None x l : index_of x l = None -> mem_str x l = false.
Proof.
  induction l as [|y l IH]; simpl; [reflexivity|].
  destruct (str_eqb x y); [discriminate|]. destruct (index_of x l); [discriminate|]. intros _. apply IH. reflexivity.
Qed.
Lemma mem_index x l : mem_str x l = true -> exists i, index_of x l = Some i.
Proof.
  intros H. destruct (index_of x l) eqn:E; [eauto|]. apply index_of_None in E. congruence.
Qed.

(* ---- the month a value spells, computably *)
Definition month_of (v : value) : option Z :=
  match v with
  | VInt z => if in_range z then Some z else None
  | VStr s =>
      if str_isdecimal s then
        match int_of_decimal s with Some z => if in_range z then Some z else None | None => None end
      else match index_of (lower s) month_abbrev with
           | Some i => Some (Z.of_nat i + 1)
           | None => match index_of (lower s) lowercase_full with Some i => Some (Z.of_nat i + 1) | None => None end
           end
  | _ => None
  end.

Definition canon (k : mkind) (m : Z) : value :=
  match k with MInt => VInt m | MAbbrev => VStr (abbrev_of m) | MLong => VStr (full_of m) end.

Ltac twelve i :=
  destruct i as [|[|[|[|[|[|[|[|[|[|[|[|i]]]]]]]]]]]]; [ .. | exfalso; simpl in *; lia ].

Lemma in_range_spec z : in_range z = true <-> 1 <= z <= 12.
Proof. unfold in_range. rewrite andb_true_iff, !Z.leb_le. tauto. Qed.

Lemma range_cases m : 1 <= m <= 12 ->
  m = 1 \/ m = 2 \/ m = 3 \/ m = 4 \/ m = 5 \/ m = 6 \/ m = 7 \/ m = 8 \/ m = 9 \/ m = 10 \/ m = 11 \/ m = 12.
Proof. lia. Qed.

(* a lower-cased string that is one of the (letter-only) table rows is not a decimal string *)
Lemma abbrev_row_not_decimal s i : (i < 12)%nat -> lower s = nth i month_abbrev [] -> str_isdecimal s = false.
Proof.
  intros Hi H. destruct (str_isdecimal s) eqn:D; [|reflexivity]. exfalso.
  rewrite (str_isdecimal_lower s D) in H. subst s. clear - D Hi. revert D.
  twelve i; vm_compute; discriminate.
Qed.
Lemma full_row_not_decimal s i : (i < 12)%nat -> lower s = nth i lowercase_full [] -> str_isdecimal s = false.
Proof.
  intros Hi H. destruct (str_isdecimal s) eqn:D; [|reflexivity]. exfalso.
  rewrite (str_isdecimal_lower s D) in H. subst s. clear - D Hi. revert D.
  twelve i; vm_compute; discriminate.
Qed.

Lemma lowercase_full_nth i : nth i lowercase_full [] = lower (nth i month_full []).
Proof. unfold lowercase_full. rewrite <- (map_nth lower). reflexivity. Qed.

(* ---- month_of agrees with the readable definition *)
Lemma month_of_spells m v : 1 <= m <= 12 -> spells m v -> month_of v = Some m.
Proof.
  intros Hm [H|[(s & Hv & Hd & Hp)|[(s & Hv & Hl)|(s & Hv & Hl)]]]; subst v; unfold month_of.
  - apply in_range_spec in Hm. rewrite Hm. reflexivity.
  - rewrite Hd. unfold int_of_decimal. rewrite Hp. rewrite Z2N.id by lia.
    apply in_range_spec in Hm. rewrite Hm. reflexivity.
  - unfold abbrev_of in Hl.
    assert (Z.to_nat (m - 1) < 12)%nat as Hi by lia.
    rewrite (abbrev_row_not_decimal s _ Hi Hl). rewrite Hl.
    destruct (range_cases m Hm) as [E|[E|[E|[E|[E|[E|[E|[E|[E|[E|[E|E]]]]]]]]]]]; subst m; reflexivity.
  - unfold full_of in Hl. rewrite <- lowercase_full_nth in Hl.
    assert (Z.to_nat (m - 1) < 12)%nat as Hi by lia.
    rewrite (full_row_not_decimal s _ Hi Hl). rewrite Hl.
    destruct (range_cases m Hm) as [E|[E|[E|[E|[E|[E|[E|[E|[E|[E|[E|E]]]]]]]]]]]; subst m; reflexivity.
Qed.

Lemma month_of_sound v m : month_of v = Some m -> 1 <= m <= 12 /\ spells m v.
Proof.
  unfold month_of. destruct v as [s|z| | | | | | |]; try discriminate.
  - destruct (str_isdecimal s) eqn:D.
    + unfold int_of_decimal. destruct (py_int s) as [n|] eqn:P; [|discriminate].
      destruct (in_range (Z.of_N n)) eqn:R; [|discriminate]. intros H; inversion H; subst.
      apply in_range_spec in R. split; [exact R|]. right; left. exists s. repeat split; auto.
      rewrite N2Z.id. exact P.
    + destruct (index_of (lower s) month_abbrev) as [i|] eqn:I.
      * intros H; inversion H; subst. destruct (index_of_Some _ _ _ I) as (A & B & _).
        assert (length month_abbrev = 12%nat) as L by reflexivity. rewrite L in B.
        split; [lia|]. right; right; left. exists s. split; [reflexivity|].
        unfold abbrev_of. replace (Z.to_nat (Z.of_nat i + 1 - 1)) with i by lia. symmetry; exact A.
      * destruct (index_of (lower s) lowercase_full) as [i|] eqn:J; [|discriminate].
        intros H; inversion H; subst. destruct (index_of_Some _ _ _ J) as (A & B & _).
        assert (length lowercase_full = 12%nat) as L by reflexivity. rewrite L in B.
        split; [lia|]. right; right; right. exists s. split; [reflexivity|].
        unfold full_of. replace (Z.to_nat (Z.of_nat i + 1 - 1)) with i by lia.
        rewrite <- lowercase_full_nth. symmetry; exact A.
  - destruct (in_range z) eqn:R; [|discriminate]. intros H; inversion H; subst.
    apply in_range_spec in R. split; [exact R|]. left; reflexivity.
Qed.

Lemma month_of_None v : month_of v = None -> ~ is_month_spelling v.
Proof.
  intros H (m & Hm & Hs). rewrite (month_of_spells m v Hm Hs) in H. discriminate.
Qed.

(* ---- what the three functions do with a spelling of month m *)
Lemma resolve_spelled k v m : month_of v = Some m -> resolve k v = MVal (canon k m).
Proof.
  unfold month_of. destruct v as [s|z| | | | | | |]; try discriminate.
  - destruct (str_isdecimal s) eqn:D.
    + (* decimal string *)
      destruct (int_of_decimal s) as [z|] eqn:P; [|discriminate].
      destruct (in_range z) eqn:R; [|discriminate]. intros H; inversion H; subst m.
      pose proof (str_isdecimal_lower s D) as Hl.
      assert (mem_str s month_abbrev = false /\ index_of s lowercase_full = None) as [M1 M2].
      { split.
        - destruct (mem_str s month_abbrev) eqn:M; [|reflexivity]. exfalso.
          apply mem_index in M as [i I]. destruct (index_of_Some _ _ _ I) as (A & B & _).
          assert (length month_abbrev = 12%nat) as L by reflexivity. rewrite L in B.
          rewrite <- Hl in A. symmetry in A. rewrite (abbrev_row_not_decimal s i B A) in D. discriminate.
        - destruct (index_of s lowercase_full) as [i|] eqn:I; [|reflexivity]. exfalso.
          destruct (index_of_Some _ _ _ I) as (A & B & _).
          assert (length lowercase_full = 12%nat) as L by reflexivity. rewrite L in B.
          rewrite <- Hl in A. symmetry in A. rewrite (full_row_not_decimal s i B A) in D. discriminate. }
      destruct k; cbn [resolve]; unfold resolve_int, resolve_abbrev, resolve_long; rewrite ?Hl, ?D, ?P, ?R, ?M1, ?M2; reflexivity.
    + destruct (index_of (lower s) month_abbrev) as [i|] eqn:I.
      * intros H; inversion H; subst m. destruct (index_of_Some _ _ _ I) as (A & B & _).
        assert (length month_abbrev = 12%nat) as L by reflexivity. rewrite L in B. clear I L.
        destruct k; cbn [resolve canon]; unfold resolve_int, resolve_abbrev, resolve_long, abbrev_of, full_of;
          rewrite ?D; cbv zeta; rewrite <- A;
          try (destruct (str_eqb (nth i month_abbrev []) s) eqn:E; [apply str_eqb_eq in E; rewrite <- E|]);
          clear - B; twelve i; vm_compute; reflexivity.
      * destruct (index_of (lower s) lowercase_full) as [i|] eqn:J; [|discriminate].
        intros H; inversion H; subst m. destruct (index_of_Some _ _ _ J) as (A & B & _).
        assert (length lowercase_full = 12%nat) as L by reflexivity. rewrite L in B. clear J L.
        apply index_of_None in I.
        destruct k; cbn [resolve canon]; unfold resolve_int, resolve_abbrev, resolve_long, abbrev_of, full_of, abbrev_to_full;
          rewrite ?D; cbv zeta.
        -- rewrite I. rewrite <- A. clear - B. twelve i; vm_compute; reflexivity.
        -- rewrite <- A. clear - B. twelve i; vm_compute; reflexivity.
        -- destruct (index_of (lower s) month_abbrev) eqn:I2; [apply index_of_Some in I2; destruct I2 as (_ & _ & I2); congruence|].
           rewrite <- A.
           destruct (str_eqb s (nth (Z.to_nat (Z.of_nat i + 1 - 1)) month_full [])) eqn:E.
           ++ apply str_eqb_eq in E. rewrite E. clear - B. twelve i; vm_compute; reflexivity.
           ++ revert E. clear - B. twelve i; vm_compute; intros E; rewrite ?E; reflexivity.
  - destruct (in_range z) eqn:R; [|discriminate]. intros H; inversion H; subst m.
    destruct k; cbn [resolve canon]; unfold resolve_int, resolve_abbrev, resolve_long, abbrev_of, full_of, nth_str; rewrite ?R; reflexivity.
Qed.

(* ---- any other value is returned unchanged *)
(* True is excluded: isinstance(True, int) holds, so the long / abbreviation middlewares read it as month 1 although it
   is not a spelling (resolve_bool_true below) *)
Lemma resolve_other k v : month_of v = None -> in_domain v -> v <> VBool true -> resolve k v = MVal v.
Proof.
  unfold month_of, in_domain. destruct v as [s|z| | | |b| | |]; try (intros; destruct k; reflexivity).
  - destruct (str_isdecimal s) eqn:D.
    + intros H Hdom _. specialize (Hdom eq_refl). unfold int_of_decimal in H.
      destruct (py_int s) as [n|] eqn:P; [|congruence].
      destruct (in_range (Z.of_N n)) eqn:R; [discriminate|].
      pose proof (str_isdecimal_lower s D) as Hl.
      assert (mem_str s month_abbrev = false /\ index_of s lowercase_full = None) as [M1 M2].
      { split.
        - destruct (mem_str s month_abbrev) eqn:M; [|reflexivity]. exfalso.
          apply mem_index in M as [i I]. destruct (index_of_Some _ _ _ I) as (A & B & _).
          assert (length month_abbrev = 12%nat) as L by reflexivity. rewrite L in B.
          rewrite <- Hl in A. symmetry in A. rewrite (abbrev_row_not_decimal s i B A) in D. discriminate.
        - destruct (index_of s lowercase_full) as [i|] eqn:I; [|reflexivity]. exfalso.
          destruct (index_of_Some _ _ _ I) as (A & B & _).
          assert (length lowercase_full = 12%nat) as L by reflexivity. rewrite L in B.
          rewrite <- Hl in A. symmetry in A. rewrite (full_row_not_decimal s i B A) in D. discriminate. }
      destruct k; cbn [resolve]; unfold resolve_int, resolve_abbrev, resolve_long, int_of_decimal;
        rewrite ?Hl, ?D, ?P, ?R, ?M1, ?M2; reflexivity.
    + destruct (index_of (lower s) month_abbrev) as [i|] eqn:I; [discriminate|].
      destruct (index_of (lower s) lowercase_full) as [i|] eqn:J; [discriminate|]. intros _ _ _.
      pose proof (index_of_None _ _ I) as M1. pose proof (index_of_None _ _ J) as M2.
      destruct k; cbn [resolve]; unfold resolve_int, resolve_abbrev, resolve_long, abbrev_to_full;
        rewrite ?D; cbv zeta; rewrite ?I, ?J, ?M1, ?M2; reflexivity.
  - destruct (in_range z) eqn:R; [discriminate|]. intros _ _ _.
    destruct k; cbn [resolve]; unfold resolve_int, resolve_abbrev, resolve_long; rewrite ?R; reflexivity.
  - destruct b; [intros _ _ H; contradiction H; reflexivity | intros _ _ _; destruct k; reflexivity].
Qed.

Lemma resolve_bool_true :
  resolve MInt (VBool true) = MVal (VBool true)
  /\ resolve MAbbrev (VBool true) = MVal (VStr (abbrev_of 1))
  /\ resolve MLong (VBool true) = MVal (VStr (full_of 1))
  /\ ~ is_month_spelling (VBool true).
Proof.
  repeat split; try reflexivity.
  intros (m & _ & [H|[(s & H & _)|[(s & H & _)|(s & H & _)]]]); discriminate H.
Qed.

(* ---- the three canonical outputs are themselves spellings of the same month *)
Lemma canon_spells k m : 1 <= m <= 12 -> month_of (canon k m) = Some m.
Proof.
  intros Hm. destruct (range_cases m Hm) as [E|[E|[E|[E|[E|[E|[E|[E|[E|[E|[E|E]]]]]]]]]]]; subst m;
    destruct k; vm_compute; reflexivity.
Qed.
Lemma canon_in_domain k m : 1 <= m <= 12 -> in_domain (canon k m).
Proof.
  intros Hm. destruct (range_cases m Hm) as [E|[E|[E|[E|[E|[E|[E|[E|[E|[E|[E|E]]]]]]]]]]]; subst m;
    destruct k; vm_compute; try exact I; discriminate.
Qed.

(* ---- the property, function level *)
Lemma spellings_resolve m v : 1 <= m <= 12 -> spells m v ->
  resolve MInt v = MVal (VInt m) /\ resolve MAbbrev v = MVal (VStr (abbrev_of m)) /\ resolve MLong v = MVal (VStr (full_of m)).
Proof.
  intros Hm Hs. pose proof (month_of_spells m v Hm Hs) as H.
  repeat split; [apply (resolve_spelled MInt) | apply (resolve_spelled MAbbrev) | apply (resolve_spelled MLong)]; exact H.
Qed.

Lemma others_unchanged k v : ~ is_month_spelling v -> in_domain v -> v <> VBool true -> resolve k v = MVal v.
Proof.
  intros Hn Hd Hb. apply resolve_other; [|exact Hd|exact Hb].
  destruct (month_of v) as [m|] eqn:E; [|reflexivity]. exfalso. apply Hn.
  destruct (month_of_sound v m E) as [Hm Hs]. exists m. split; assumption.
Qed.

Lemma compose f g v v1 : in_domain v -> v <> VBool true -> resolve f v = MVal v1 -> resolve g v1 = resolve g v.
Proof.
  intros Hd Hb H1. destruct (month_of v) as [m|] eqn:E.
  - destruct (month_of_sound v m E) as [Hm _].
    rewrite (resolve_spelled f v m E) in H1. inversion H1; subst v1.
    rewrite (resolve_spelled g _ m (canon_spells f m Hm)). rewrite (resolve_spelled g v m E). reflexivity.
  - rewrite (resolve_other f v E Hd Hb) in H1. inversion H1; subst. reflexivity.
Qed.

Lemma never_raises k v : resolve k v <> MRaise.
Proof.
  destruct (month_of v) as [m|] eqn:E.
  - rewrite (resolve_spelled k v m E). discriminate.
  - destruct v as [s|z| | | | | | |]; try (destruct k; discriminate).
    destruct (str_isdecimal s) eqn:D.
    + destruct (py_int s) as [n|] eqn:P.
      * rewrite (resolve_other k (VStr s) E); [discriminate| |discriminate]. unfold in_domain. intros _. congruence.
      * pose proof (str_isdecimal_lower s D) as Hl.
           destruct k; cbn [resolve]; unfold resolve_int, resolve_abbrev, resolve_long, int_of_decimal; rewrite ?Hl, ?D, ?P; try discriminate.
           destruct (mem_str s month_abbrev) eqn:M.
           { exfalso. apply mem_index in M as [i I]. destruct (index_of_Some _ _ _ I) as (A & B & _).
             assert (length month_abbrev = 12%nat) as L by reflexivity. rewrite L in B.
             rewrite <- Hl in A. symmetry in A. rewrite (abbrev_row_not_decimal s i B A) in D. discriminate. }
           destruct (index_of s lowercase_full); discriminate.
    + rewrite (resolve_other k (VStr s) E); [discriminate| |discriminate]. unfold in_domain. congruence.
Qed.

(* ---- middleware level: only the value of the month field (and the middleware's own metadata entry) changes *)
Lemma set_last_keys k v fs : map fkey (set_last k v fs) = map fkey fs.
Proof.
  induction fs as [|f fs IH]; simpl; [reflexivity|].
  destruct (has_key k fs); simpl; [f_equal; exact IH|]. destruct (str_eqb (fkey f) k); reflexivity.
Qed.
Lemma set_last_lines k v fs : map fline (set_last k v fs) = map fline fs.
Proof.
  induction fs as [|f fs IH]; simpl; [reflexivity|].
  destruct (has_key k fs); simpl; [f_equal; exact IH|]. destruct (str_eqb (fkey f) k); reflexivity.
Qed.
Lemma last_value_has_key k fs : has_key k fs = match last_value k fs with Some _ => true | None => false end.
Proof.
  induction fs as [|g fs IH]; simpl; [reflexivity|]. rewrite IH.
  destruct (last_value k fs); [apply orb_true_r|]. rewrite orb_false_r. destruct (str_eqb (fkey g) k); reflexivity.
Qed.
Lemma set_last_same k fs v : last_value k fs = Some v -> set_last k v fs = fs.
Proof.
  revert v; induction fs as [|f fs IH]; simpl; intros v; [reflexivity|].
  rewrite (last_value_has_key k fs).
  destruct (last_value k fs) as [w|] eqn:E.
  - intros H; inversion H; subst. rewrite (IH v eq_refl). reflexivity.
  - destruct (str_eqb (fkey f) k); [|discriminate]. intros H; inversion H; subst. destruct f; reflexivity.
Qed.
Lemma set_last_value k v fs : has_key k fs = true -> last_value k (set_last k v fs) = Some v.
Proof.
  induction fs as [|f fs IH]; simpl; [discriminate|].
  destruct (has_key k fs) eqn:Hk; simpl.
  - intros _. rewrite (IH eq_refl). reflexivity.
  - rewrite orb_false_r. intros E. rewrite E. simpl.
    rewrite (last_value_has_key k fs) in Hk. destruct (last_value k fs); [discriminate|]. rewrite E. reflexivity.
Qed.

Lemma month_entry_no_raise k b : month_entry k b <> BRaise.
Proof.
  destruct b; try discriminate. simpl. destruct (last_value month_key fields) as [v|]; [|discriminate].
  pose proof (never_raises k v). destruct (resolve k v); congruence.
Qed.

Lemma month_entry_frame k b b' : month_entry k b = BVal b' ->
  match b with
  | BEntry h t key fs =>
      exists h' fs', b' = BEntry h' t key fs' /\ sl h' = sl h /\ raw h' = raw h
                     /\ map fkey fs' = map fkey fs /\ map fline fs' = map fline fs
                     /\ (last_value month_key fs = None -> b' = b)
  | _ => b' = b
  end.
Proof.
  destruct b; simpl; try (intros H; inversion H; reflexivity).
  destruct (last_value month_key fields) as [v|] eqn:E.
  - destruct (resolve k v) as [v'| |]; try discriminate. intros H; inversion H; subst b'.
    eexists _, _. split; [reflexivity|]. simpl. repeat split; auto using set_last_keys, set_last_lines. discriminate.
  - intros H; inversion H; subst. exists h, fields. repeat split; auto.
Qed.
