(* C05, non-vacuity and necessity of the hypotheses (all by vm_compute on the executable models). *)
From Coq Require Import List NArith ZArith Bool Lia String.
From BP Require Import Base.Chars Model.Blocks Model.LibAdd Gen.Constants Model.Enclosing Model.Writer
  Model.Lexer Model.Splitter Model.Interpolate Model.Grammar Model.Pipeline Spec.C05
  Proofs.LibAddProofs Proofs.DupProofs Proofs.RoundTrip Proofs.RoundTrip2 Proofs.RoundTrip3.
Import ListNotations.

Definition qchars (s : str) (k : quoted) : quoted := fold_right QChar k s.
Definition B (s : string) : braced := chars (lit s) BNil.
Definition sp : str := lit " ".
Definition nl : str := [c_nl].
Definition mkf (name : string) (v : gvalue) (post : str) : gfield := mkgf sp (lit name) sp sp v post.

(* @string{s = {Foo}}  @comment{ hi }  free text  @Article {k1, a = {x {y} z}, b = "q{r}", c = s , d = {a} # "b" # s, n = 12 } *)
Definition ex_d : doc :=
  mkdoc nl
    [ (IString (lit "string") [] [] (lit "s") sp sp (gv1 (PBraced (B "Foo"))) [], nl);
      (IComment (lit "Comment") [] (B " hi "), nl);
      (IFree (lit "free text, with = and {"), nl ++ nl);
      (IPreamble (lit "preamble") sp (B "p q"), nl);
      (IEntry (lit "Article") sp [] (lit "k1") []
         (EComma (FCons (mkf "a" (gv1 (PBraced (chars (lit "x ") (BGroup (B "y") (B " z"))))) [])
                 (FCons (mkf "b" (gv1 (PQuoted (qchars (lit "q") (QGroup (qchars (lit "r") QNil) QNil)))) [])
                 (FCons (mkf "c" (gv1 (PBare (lit "s"))) sp)
                 (FCons (mkf "d" (mkgv (PBraced (B "a")) [(sp, sp, PQuoted (qchars (lit "b") QNil)); (sp, sp, PBare (lit "s"))]) [])
                 (FLast (mkf "n" (gv1 (PBare (lit "12"))) sp))))))), nl) ].
Definition ex_f : fmt := mkfmt (lit "  ") ColAuto (nl ++ lit " " ++ nl) true default_failed_comment.

Example ex_wf : wf_doc ex_d.
Proof. vm_compute. reflexivity. Qed.
Example ex_nodup : nodup_doc ex_d.
Proof. split; [vm_compute; reflexivity|]. split; apply has_dup_false_NoDup; vm_compute; reflexivity. Qed.
Example ex_fmt : wf_fmt ex_f.
Proof. split; repeat constructor. Qed.

(* the whole round trip on ex_d: content preserved, text a fixpoint, the resolved reference really is resolved *)
Example ex_roundtrip :
  match parse_default (render ex_d), roundtrip ex_f (render ex_d) with
  | PVal l1, PVal (t1, l2, t2) =>
      content l2 = content l1 /\ t2 = t1 /\ known_K7 l1 = false /\ List.length l1 = 5%nat
      /\ nth_error (content l1) 4 = Some (KEntry (lit "article") (lit "k1")
           [(lit "a", VStr (lit "x {y} z")); (lit "b", VStr (lit "q{r}")); (lit "c", VStr (lit "Foo"));
            (lit "d", VStr (lit "{a} # ""b"" # s")); (lit "n", VStr (lit "12"))])
  | _, _ => False
  end.
Proof. vm_compute. repeat split. Qed.

(* ---- K7: the exclusion is needed.  @comment{a\ }  and  @a{k, x = ab\ }  are well-formed, yet the content changes *)
Definition bsl : str := [c_bs].
Definition k7_comment : doc := mkdoc [] [(IComment (lit "comment") [] (chars (lit "a" ++ bsl ++ sp) BNil), [])].
Definition k7_value : doc :=
  mkdoc [] [(IEntry (lit "a") [] [] (lit "k") [] (EComma (FLast (mkf "x" (gv1 (PBare (lit "ab" ++ bsl))) sp))), [])].

Definition changes (d : doc) : Prop :=
  wf_doc d /\ nodup_doc d /\
  match parse_default (render d) with
  | PVal l1 => known_K7 l1 = true /\
      match write_default default_fmt l1 with
      | PVal t1 => match parse_default t1 with PVal l2 => content l2 <> content l1 | _ => False end
      | _ => False
      end
  | _ => False
  end.
Ltac changes_tac :=
  split; [vm_compute; reflexivity|]; split;
  [split; [vm_compute; reflexivity|]; split; apply has_dup_false_NoDup; vm_compute; reflexivity|];
  vm_compute; split; [reflexivity | discriminate].
Example roundtrip_content_refuted_K7_comment : changes k7_comment.
Proof. changes_tac. Qed.
Example roundtrip_content_refuted_K7_value : changes k7_value.
Proof. changes_tac. Qed.
Example default_fmt_wf : wf_fmt default_fmt.
Proof. split; repeat constructor. Qed.

(* ---- (A): each hypothesis of write_default_content is needed *)
Definition fx : field := mkfield (lit "x") (VStr (lit "v")) None.
Definition h_raw (r : string) : hdr := mkhdr None (Some (lit r)) [].
(* a removed-enclosing metadata that is not a dict makes AddEnclosing raise, although reuse is off *)
Definition a_md : list block := [BEntry (mkhdr None None [(remove_enclosing_metadata_key, VStr (lit "{"))]) (lit "a") (lit "k") [fx]].
Definition a_md' : list block := [BEntry hdr0 (lit "a") (lit "k") [fx]].
Example content_md_needed :
  content a_md = content a_md' /\ wf_blocks a_md /\ no_failed a_md = true /\ md_ok a_md = false /\ md_ok a_md' = true
  /\ write_default default_fmt a_md = PRaise /\ write_default default_fmt a_md' <> PRaise.
Proof.
  repeat split; try (vm_compute; reflexivity); try (apply has_dup_false_NoDup; vm_compute; reflexivity).
  vm_compute. discriminate.
Qed.
(* duplicate keys: Library(blocks) wraps the second entry into a failed block, which is written from its raw text *)
Definition a_dup (r : string) : list block := [BEntry hdr0 (lit "a") (lit "k") []; BEntry (h_raw r) (lit "a") (lit "k") []].
Example content_wf_blocks_needed :
  content (a_dup "one") = content (a_dup "two") /\ no_failed (a_dup "one") = true
  /\ md_ok (a_dup "one") = true /\ md_ok (a_dup "two") = true
  /\ write_default default_fmt (a_dup "one") <> write_default default_fmt (a_dup "two").
Proof. repeat split; try (vm_compute; reflexivity). vm_compute. discriminate. Qed.
(* failed blocks are written from their raw text, which the content does not contain *)
Definition a_failed (r : string) : list block := [BFailed (h_raw r) (EAbort 0)].
Example content_no_failed_needed :
  content (a_failed "one") = content (a_failed "two") /\ wf_blocks (a_failed "one")
  /\ md_ok (a_failed "one") = true /\ md_ok (a_failed "two") = true
  /\ write_default default_fmt (a_failed "one") <> write_default default_fmt (a_failed "two").
Proof.
  repeat split; try (vm_compute; reflexivity); try (apply has_dup_false_NoDup; vm_compute; reflexivity).
  vm_compute. discriminate.
Qed.
