(* Facts about Library(blocks) (Model/LibAdd.v) used by the middleware-level engines:
   - the blocks of a library have pairwise distinct top-level entry keys and string keys,
   - rebuilding a library from such a list returns the list itself (BlockMiddleware.transform's Library(blocks=...)),
   - strings_dict holds the FIRST @string block per key. *)
From Coq Require Import List NArith ZArith Bool Lia.
From BP Require Import Base.Chars Model.Blocks Model.LibAdd.
Import ListNotations.

Definition ekey (b : block) : list str := match b with BEntry _ _ k _ => [k] | _ => [] end.
Definition skey (b : block) : list str := match b with BString _ k _ => [k] | _ => [] end.
Definition ekeys (bs : list block) : list str := flat_map ekey bs.
Definition skeys (bs : list block) : list str := flat_map skey bs.

(* the block list of a Library object: live entries / strings have pairwise distinct keys *)
Definition wf_blocks (bs : list block) : Prop := NoDup (ekeys bs) /\ NoDup (skeys bs).

(* first @string block with key k in a block list *)
Fixpoint first_string_block (bs : list block) (k : str) : option block :=
  match bs with
  | [] => None
  | b :: r => match b with
              | BString _ k' _ => if str_eqb k k' then Some b else first_string_block r k
              | _ => first_string_block r k
              end
  end.

Lemma dict_get_none {V} (d : list (str * V)) k : dict_get d k = None <-> ~ In k (map fst d).
Proof.
  induction d as [|[k' v] d IH]; simpl; [tauto|].
  destruct (str_eqb k k') eqn:E.
  - apply str_eqb_eq in E. subst. split; [discriminate | intros H; exfalso; apply H; auto].
  - apply str_eqb_neq in E. rewrite IH. split; intros H; [intros [H1|H1]; [congruence | tauto] | tauto].
Qed.

Lemma dict_get_app {V} (d : list (str * V)) k' v k :
  dict_get (d ++ [(k', v)]) k = match dict_get d k with Some x => Some x | None => if str_eqb k k' then Some v else None end.
Proof.
  induction d as [|[k1 v1] d IH]; simpl; [reflexivity|].
  destruct (str_eqb k k1); [reflexivity | exact IH].
Qed.

Lemma ekeys_app a b : ekeys (a ++ b) = ekeys a ++ ekeys b.
Proof. unfold ekeys. apply flat_map_app. Qed.
Lemma skeys_app a b : skeys (a ++ b) = skeys a ++ skeys b.
Proof. unfold skeys. apply flat_map_app. Qed.

Lemma NoDup_snoc {T} (l : list T) x : NoDup l -> ~ In x l -> NoDup (l ++ [x]).
Proof.
  intros Hn Hx. induction l as [|y l IH]; simpl.
  - constructor; [tauto | constructor].
  - inversion Hn; subst. constructor.
    + rewrite in_app_iff. simpl. intros [H|[H|[]]]; [tauto | subst; apply Hx; left; reflexivity].
    + apply IH; [assumption | intros H; apply Hx; right; assumption].
Qed.

(* ---------------------------------------------------------------- invariant of the library state *)
Definition inv (l : libst) : Prop :=
  rev (map fst (ents l)) = ekeys (rev (lrev l)) /\ rev (map fst (strs l)) = skeys (rev (lrev l))
  /\ NoDup (map fst (ents l)) /\ NoDup (map fst (strs l)).

Lemma inv_add l b : inv l -> inv (add_block l b).
Proof.
  intros (He & Hs & Hne & Hns). unfold inv.
  destruct b; simpl; try (rewrite ekeys_app, skeys_app; simpl; rewrite !app_nil_r; tauto).
  - destruct (dict_get (ents l) key) eqn:E; simpl; rewrite ekeys_app, skeys_app; simpl; rewrite ?app_nil_r.
    + tauto.
    + rewrite He. repeat split; try assumption.
      constructor; [apply dict_get_none; assumption | assumption].
  - destruct (dict_get (strs l) key) eqn:E; simpl; rewrite ekeys_app, skeys_app; simpl; rewrite ?app_nil_r.
    + tauto.
    + rewrite Hs. repeat split; try assumption.
      constructor; [apply dict_get_none; assumption | assumption].
Qed.

Lemma inv_add_all bs : forall l, inv l -> inv (lib_add_all bs l).
Proof.
  induction bs as [|b bs IH]; intros l H; simpl; [assumption|].
  apply IH. apply inv_add. assumption.
Qed.

Lemma inv_lib0 : inv lib0.
Proof. unfold inv; simpl. repeat split; constructor. Qed.

Theorem lib_of_wf bs : wf_blocks (lblocks (lib_of bs)).
Proof.
  destruct (inv_add_all bs lib0 inv_lib0) as (He & Hs & Hne & Hns).
  unfold wf_blocks, lblocks, lib_of. rewrite rv_rev. rewrite <- He, <- Hs. split; apply NoDup_rev; assumption.
Qed.

(* ---------------------------------------------------------------- rebuilding a well-formed list is the identity *)
Lemma add_all_fresh bs : forall l,
  NoDup (ekeys bs) -> NoDup (skeys bs) ->
  (forall k, In k (ekeys bs) -> ~ In k (map fst (ents l))) ->
  (forall k, In k (skeys bs) -> ~ In k (map fst (strs l))) ->
  lrev (lib_add_all bs l) = rev bs ++ lrev l.
Proof.
  induction bs as [|b bs IH]; intros l Hne Hns He Hs; simpl; [reflexivity|].
  assert (Hgen : forall l', lrev l' = b :: lrev l ->
            (forall k, In k (ekeys bs) -> ~ In k (map fst (ents l'))) ->
            (forall k, In k (skeys bs) -> ~ In k (map fst (strs l'))) ->
            NoDup (ekeys bs) -> NoDup (skeys bs) ->
            lrev (lib_add_all bs l') = (rev bs ++ [b]) ++ lrev l).
  { intros l' Hl' He' Hs' Hne' Hns'. rewrite (IH l' Hne' Hns' He' Hs'), Hl', <- app_assoc. reflexivity. }
  destruct b; simpl in *;
    try (apply Hgen; [reflexivity | assumption | assumption | assumption | assumption]).
  - (* entry *)
    inversion Hne as [|k0 r Hnotin Hnd]; subst.
    assert (E : dict_get (ents l) key = None) by (apply dict_get_none; apply He; left; reflexivity).
    rewrite E. apply Hgen; simpl; try assumption; try reflexivity.
    + intros k Hk. simpl. intros [H|H].
      * subst. contradiction.
      * apply (He k); [right; assumption | assumption].
  - (* string *)
    inversion Hns as [|k0 r Hnotin Hnd]; subst.
    assert (E : dict_get (strs l) key = None) by (apply dict_get_none; apply Hs; left; reflexivity).
    rewrite E. apply Hgen; simpl; try assumption; try reflexivity.
    + intros k Hk. simpl. intros [H|H].
      * subst. contradiction.
      * apply (Hs k); [right; assumption | assumption].
Qed.

Theorem rebuild_id bs : wf_blocks bs -> rebuild bs = bs.
Proof.
  intros [Hne Hns]. unfold rebuild, lblocks, lib_of. rewrite rv_rev.
  rewrite (add_all_fresh bs lib0 Hne Hns); simpl; [| intros; tauto | intros; tauto].
  rewrite app_nil_r. apply rev_involutive.
Qed.

Corollary rebuild_lib_of bs : rebuild (lblocks (lib_of bs)) = lblocks (lib_of bs).
Proof. apply rebuild_id. apply lib_of_wf. Qed.

(* a map that keeps the class and key of entries and strings keeps well-formedness *)
Lemma keys_Forall2 (R : block -> block -> Prop) bs bs' :
  (forall b b', R b b' -> ekey b' = ekey b /\ skey b' = skey b) ->
  Forall2 R bs bs' -> ekeys bs' = ekeys bs /\ skeys bs' = skeys bs.
Proof.
  intros HR H. induction H as [|b b' bs bs' Hb _ IH]; simpl; [split; reflexivity|].
  destruct (HR _ _ Hb) as [E1 E2]. destruct IH as [I1 I2]. rewrite E1, E2, I1, I2. split; reflexivity.
Qed.

Lemma wf_Forall2 (R : block -> block -> Prop) bs bs' :
  (forall b b', R b b' -> ekey b' = ekey b /\ skey b' = skey b) ->
  Forall2 R bs bs' -> wf_blocks bs -> wf_blocks bs'.
Proof.
  intros HR H [W1 W2]. destruct (keys_Forall2 R bs bs' HR H) as [E1 E2].
  unfold wf_blocks. rewrite E1, E2. split; assumption.
Qed.

(* ---------------------------------------------------------------- strings_dict = first definition per key *)
Lemma strs_add_all bs : forall l k,
  dict_get (strs (lib_add_all bs l)) k =
  match dict_get (strs l) k with Some b => Some b | None => first_string_block bs k end.
Proof.
  induction bs as [|b bs IH]; intros l k; simpl.
  - destruct (dict_get (strs l) k); reflexivity.
  - rewrite IH. destruct b; simpl; try reflexivity.
    + destruct (dict_get (ents l) key); reflexivity.
    + destruct (dict_get (strs l) key) eqn:E; simpl.
      * destruct (dict_get (strs l) k) eqn:E2; [reflexivity|].
        destruct (str_eqb k key) eqn:E3; [|reflexivity].
        apply str_eqb_eq in E3. subst. congruence.
      * cbn [dict_get]. destruct (str_eqb k key) eqn:E3.
        -- apply str_eqb_eq in E3. subst. rewrite E. reflexivity.
        -- destruct (dict_get (strs l) k); reflexivity.
Qed.

Theorem strs_first bs k : dict_get (strs (lib_of bs)) k = first_string_block bs k.
Proof. unfold lib_of. rewrite strs_add_all. reflexivity. Qed.
