(* C07 - frame reasoning over the heap (Model/Heap.v, Model/HeapMw.v). *)
From Coq Require Import List ZArith Bool Arith Lia.
From BP Require Import Model.Heap Model.HeapMw Spec.C07.
Import ListNotations.

(* ------------------------------------------------------------------ lookup / dom / fresh *)
Lemma lookup_dom : forall h p ob, lookup h p = Some ob -> In p (dom h).
Proof.
  induction h as [|[k v] r IH]; simpl; intros p ob H; [discriminate|].
  destruct (Nat.eqb k p) eqn:E.
  - left. now apply Nat.eqb_eq.
  - right. eapply IH; eauto.
Qed.

Lemma dom_lookup : forall h p, In p (dom h) -> exists ob, lookup h p = Some ob.
Proof.
  induction h as [|[k v] r IH]; simpl; intros p H; [contradiction|].
  destruct (Nat.eqb k p) eqn:E; [eauto|].
  destruct H as [H|H]; [subst; rewrite Nat.eqb_refl in E; discriminate|auto].
Qed.

Lemma lookup_none : forall h p, ~ In p (dom h) -> lookup h p = None.
Proof.
  intros h p H. destruct (lookup h p) eqn:E; [|reflexivity]. exfalso. eauto using lookup_dom.
Qed.

Lemma dom_lt_fresh : forall h p, In p (dom h) -> p < fresh h.
Proof.
  unfold fresh. intros h. induction (dom h) as [|a l IH]; simpl; intros p H; [contradiction|].
  destruct H as [H|H]; [subst; lia|]. specialize (IH p H). lia.
Qed.

Lemma fresh_not_in : forall h, ~ In (fresh h) (dom h).
Proof. intros h H. apply dom_lt_fresh in H. lia. Qed.

Lemma lookup_set : forall h o ob p, lookup (set_obj h o ob) p = if Nat.eqb o p then Some ob else lookup h p.
Proof. reflexivity. Qed.

Lemma lookup_set_other : forall h o ob p, o <> p -> lookup (set_obj h o ob) p = lookup h p.
Proof. intros. rewrite lookup_set. destruct (Nat.eqb o p) eqn:E; [apply Nat.eqb_eq in E; contradiction|reflexivity]. Qed.

Lemma lookup_set_same : forall h o ob, lookup (set_obj h o ob) o = Some ob.
Proof. intros. rewrite lookup_set, Nat.eqb_refl. reflexivity. Qed.

Lemma dom_set : forall h o ob p, In p (dom (set_obj h o ob)) <-> p = o \/ In p (dom h).
Proof. intros. simpl. intuition. Qed.

(* ------------------------------------------------------------------ unchanged *)
Lemma unchanged_refl : forall h, unchanged h h.
Proof. red; reflexivity. Qed.

Lemma unchanged_dom : forall h h' p, unchanged h h' -> In p (dom h) -> In p (dom h').
Proof.
  intros h h' p U H. destruct (dom_lookup _ _ H) as [ob E]. rewrite <- (U p H) in E. eauto using lookup_dom.
Qed.

Lemma unchanged_trans : forall a b c, unchanged a b -> unchanged b c -> unchanged a c.
Proof.
  intros a b c U1 U2 p H. rewrite (U2 p (unchanged_dom _ _ _ U1 H)). auto.
Qed.

Lemma unchanged_set_new : forall h0 h o ob, unchanged h0 h -> ~ In o (dom h0) -> unchanged h0 (set_obj h o ob).
Proof.
  intros h0 h o ob U N p H. rewrite lookup_set_other; [auto|]. intro; subst; contradiction.
Qed.

Lemma unchanged_alloc : forall h ob, unchanged h (fst (alloc h ob)).
Proof.
  intros h ob p H. unfold alloc. cbn [fst]. change ((fresh h, ob) :: h) with (set_obj h (fresh h) ob).
  apply lookup_set_other. intro E. subst. now apply (fresh_not_in h).
Qed.

(* ------------------------------------------------------------------ reach *)
Lemma reach_trans : forall h a b c, reach h a b -> reach h b c -> reach h a c.
Proof. induction 1; intros; eauto using reach. Qed.

(* a set that contains r and is closed under the heap's edges contains everything reachable from r *)
Lemma reach_closed : forall h (S : nat -> Prop),
  (forall q ob q', S q -> lookup h q = Some ob -> In q' (refs_of ob) -> S q') ->
  forall r p, reach h r p -> S r -> S p.
Proof. intros h S C r p R. induction R; intros; eauto. Qed.

Lemma reach_in_dom : forall h r p, wf_heap h -> In r (dom h) -> reach h r p -> In p (dom h).
Proof.
  intros h r p W H R. revert H. apply (reach_closed h (fun q => In q (dom h))); auto.
  intros q ob q' _ E I. eapply W; eauto.
Qed.

Lemma reach_frame : forall h h' r p,
  (forall q, reach h r q -> lookup h' q = lookup h q) -> reach h r p -> reach h' r p.
Proof.
  intros h h' r p A R. induction R as [r | r ob q p E I R IH]; [constructor|].
  eapply reach_step; [rewrite A; [exact E|constructor] | exact I |].
  apply IH. intros q' R'. apply A. eapply reach_step; eauto.
Qed.

Lemma reach_frame_inv : forall h h' r p,
  (forall q, reach h r q -> lookup h' q = lookup h q) -> reach h' r p -> reach h r p.
Proof.
  intros h h' r p A R. induction R as [r | r ob q p E I R IH]; [constructor|].
  assert (E' : lookup h r = Some ob) by (rewrite <- A; [exact E|constructor]).
  eapply reach_step; [exact E' | exact I |].
  apply IH. intros q' R'. apply A. eapply reach_step; eauto.
Qed.

(* old objects keep their reachable sets when the heap only grows around them *)
Lemma reach_unchanged : forall h h' r p, wf_heap h -> In r (dom h) -> unchanged h h' ->
  (reach h' r p <-> reach h r p).
Proof.
  intros h h' r p W H U.
  assert (A : forall q, reach h r q -> lookup h' q = lookup h q)
    by (intros q R; apply U; eapply reach_in_dom; eauto).
  split; [apply reach_frame_inv | apply reach_frame]; auto.
Qed.

(* ------------------------------------------------------------------ good: everything reachable is new w.r.t. h0 *)
Notation good := shares_nothing.
Definition goodv (h0 hc : heap) (v : pv) : Prop := forall q, In q (pv_refs v) -> In q (dom hc) /\ good h0 hc q.
Definition goodo (h0 hc : heap) (ob : obj) : Prop := forall q, In q (refs_of ob) -> In q (dom hc) /\ good h0 hc q.

Lemma good_new : forall h0 hc p, good h0 hc p -> ~ In p (dom h0).
Proof. intros h0 hc p G. apply G. constructor. Qed.

Lemma good_step : forall h0 hc p ob q, good h0 hc p -> lookup hc p = Some ob -> In q (refs_of ob) -> good h0 hc q.
Proof. intros h0 hc p ob q G E I p' R. apply G. eapply reach_step; eauto. Qed.

Lemma good_obj : forall h0 hc p ob, wf_heap hc -> good h0 hc p -> lookup hc p = Some ob -> goodo h0 hc ob.
Proof. intros h0 hc p ob W G E q I. split; [eapply W; eauto | eapply good_step; eauto]. Qed.

Lemma good_weaken : forall h0 h1 hc p, (forall q, In q (dom h0) -> In q (dom h1)) -> good h1 hc p -> good h0 hc p.
Proof. intros h0 h1 hc p S G p' R I. apply (G p' R). auto. Qed.

(* a write whose new content only refers to good objects keeps every good object good *)
Lemma good_set : forall h0 hc o ob x, goodo h0 hc ob -> good h0 hc x -> good h0 (set_obj hc o ob) x.
Proof.
  intros h0 hc o ob x GO GX p' R.
  assert (G : good h0 hc p').
  { revert GX. apply (reach_closed (set_obj hc o ob) (good h0 hc)); [|exact R].
    intros q ob' q' Gq E I. rewrite lookup_set in E. destruct (Nat.eqb o q) eqn:Eq.
    - inversion E; subst. apply GO; auto.
    - eapply good_step; eauto. }
  eapply good_new; eauto.
Qed.

(* ... and the written object is good itself if it is new *)
Lemma good_set_self : forall h0 hc o ob, goodo h0 hc ob -> ~ In o (dom h0) -> good h0 (set_obj hc o ob) o.
Proof.
  intros h0 hc o ob GO N p' R.
  assert (G : p' = o \/ good h0 hc p').
  { apply (reach_closed (set_obj hc o ob) (fun p => p = o \/ good h0 hc p)) with (r := o); auto.
    intros q ob' q' Gq E I. right. rewrite lookup_set in E. destruct (Nat.eqb o q) eqn:Eq.
    - inversion E; subst. apply GO; auto.
    - destruct Gq as [->|Gq]; [rewrite Nat.eqb_refl in Eq; discriminate|]. eapply good_step; eauto. }
  destruct G as [->|G]; [auto | eapply good_new; eauto].
Qed.

Lemma wf_set : forall hc o ob, wf_heap hc -> (forall q, In q (refs_of ob) -> In q (dom hc)) -> wf_heap (set_obj hc o ob).
Proof.
  intros hc o ob W R p ob' q E I. rewrite lookup_set in E. apply dom_set. destruct (Nat.eqb o p) eqn:Eq.
  - inversion E; subst. right; auto.
  - right. eapply W; eauto.
Qed.

Lemma goodo_wf : forall h0 hc ob, goodo h0 hc ob -> forall q, In q (refs_of ob) -> In q (dom hc).
Proof. intros h0 hc ob G q I. apply G; auto. Qed.

(* the state threaded through straight-line code working on new objects only *)
Definition st_ok (h0 hc : heap) : Prop := wf_heap hc /\ unchanged h0 hc.

Lemma st_set : forall h0 hc o ob, st_ok h0 hc -> goodo h0 hc ob -> ~ In o (dom h0) -> st_ok h0 (set_obj hc o ob).
Proof.
  intros h0 hc o ob [W U] G N. split.
  - apply wf_set; auto. eapply goodo_wf; eauto.
  - apply unchanged_set_new; auto.
Qed.

Lemma st_dom : forall h0 hc p, st_ok h0 hc -> In p (dom h0) -> In p (dom hc).
Proof. intros h0 hc p [_ U]. eauto using unchanged_dom. Qed.

Lemma alloc_spec : forall h0 hc ob h1 n, st_ok h0 hc -> goodo h0 hc ob -> alloc hc ob = (h1, n) ->
  st_ok h0 h1 /\ In n (dom h1) /\ good h0 h1 n /\ ~ In n (dom hc)
  /\ (forall x, good h0 hc x -> good h0 h1 x) /\ (forall q, In q (dom hc) -> In q (dom h1)).
Proof.
  intros h0 hc ob h1 n S G A. unfold alloc in A. inversion A; subst; clear A.
  assert (N : ~ In (fresh hc) (dom h0)) by (intro I; apply (fresh_not_in hc); eapply st_dom; eauto).
  repeat split.
  - apply (st_set h0 hc (fresh hc) ob S G N).
  - apply (st_set h0 hc (fresh hc) ob S G N).
  - simpl; auto.
  - apply good_set_self; auto.
  - apply fresh_not_in.
  - intros x Gx. apply good_set; auto.
  - intros q I. simpl; auto.
Qed.

(* goodness of values / contents is stable under these steps *)
Lemma goodv_mono : forall h0 hc h1 v, (forall x, good h0 hc x -> good h0 h1 x) -> (forall q, In q (dom hc) -> In q (dom h1)) ->
  goodv h0 hc v -> goodv h0 h1 v.
Proof. intros h0 hc h1 v M D G q I. destruct (G q I). split; auto. Qed.

Lemma goodv_atom : forall h0 hc a, goodv h0 hc (PAtom a).
Proof. intros h0 hc a q I. inversion I. Qed.

Lemma goodv_ref : forall h0 hc o, In o (dom hc) -> good h0 hc o -> goodv h0 hc (PRef o).
Proof. intros h0 hc o D G q [<-|[]]. auto. Qed.

Lemma goodv_ref_inv : forall h0 hc o, goodv h0 hc (PRef o) -> In o (dom hc) /\ good h0 hc o.
Proof. intros h0 hc o G. apply G. simpl; auto. Qed.

(* association lists *)
Definition gooda (h0 hc : heap) (d : list (Z * pv)) : Prop := forall k v, In (k, v) d -> goodv h0 hc v.

Lemma refs_of_inst : forall c a q, In q (refs_of (OInst c a)) <-> exists k v, In (k, v) a /\ In q (pv_refs v).
Proof.
  intros c a q. unfold refs_of; simpl. rewrite in_flat_map. split.
  - intros [v [I Q]]. apply in_map_iff in I. destruct I as [[k v'] [E I]]. simpl in E; subst. eauto.
  - intros [k [v [I Q]]]. exists v. split; auto. apply in_map_iff. exists (k, v); auto.
Qed.
Lemma refs_of_dict : forall a q, In q (refs_of (ODict a)) <-> exists k v, In (k, v) a /\ In q (pv_refs v).
Proof. intros a q. apply (refs_of_inst 0%Z a q). Qed.
Lemma refs_of_list : forall l q, In q (refs_of (OList l)) <-> exists v, In v l /\ In q (pv_refs v).
Proof. intros l q. unfold refs_of; simpl. apply in_flat_map. Qed.

Lemma goodo_inst : forall h0 hc c a, gooda h0 hc a <-> goodo h0 hc (OInst c a).
Proof.
  intros; split.
  - intros G q I. apply refs_of_inst in I. destruct I as [k [v [I Q]]]. eapply G; eauto.
  - intros G k v I q Q. apply G. apply refs_of_inst. eauto.
Qed.
Lemma goodo_dict : forall h0 hc a, gooda h0 hc a <-> goodo h0 hc (ODict a).
Proof. intros. apply (goodo_inst h0 hc 0%Z a). Qed.
Lemma goodo_list : forall h0 hc l, (forall v, In v l -> goodv h0 hc v) <-> goodo h0 hc (OList l).
Proof.
  intros; split.
  - intros G q I. apply refs_of_list in I. destruct I as [v [I Q]]. eapply G; eauto.
  - intros G v I q Q. apply G. apply refs_of_list. eauto.
Qed.

Lemma aget_in : forall d k v, aget d k = Some v -> In (k, v) d.
Proof.
  induction d as [|[k' v'] r IH]; simpl; intros k v H; [discriminate|].
  destruct (Z.eqb k' k) eqn:E; [apply Z.eqb_eq in E; inversion H; subst; auto | right; auto].
Qed.
Lemma aset_in : forall d k v k1 v1, In (k1, v1) (aset d k v) -> In (k1, v1) d \/ (k1, v1) = (k, v).
Proof.
  induction d as [|[k' v'] r IH]; simpl; intros k v k1 v1 H.
  - destruct H as [H|[]]; auto.
  - destruct (Z.eqb k' k) eqn:E.
    + apply Z.eqb_eq in E. subst. destruct H as [H|H]; [right; auto | left; auto].
    + destruct H as [H|H]; [left; auto|]. destruct (IH _ _ _ _ H); auto.
Qed.
Lemma gooda_aset : forall h0 hc d k v, gooda h0 hc d -> goodv h0 hc v -> gooda h0 hc (aset d k v).
Proof.
  intros h0 hc d k v G Gv k1 v1 I. apply aset_in in I. destruct I as [I|I]; [eapply G; eauto | inversion I; subst; auto].
Qed.
Lemma gooda_mono : forall h0 hc h1 d, (forall x, good h0 hc x -> good h0 h1 x) -> (forall q, In q (dom hc) -> In q (dom h1)) ->
  gooda h0 hc d -> gooda h0 h1 d.
Proof. intros h0 hc h1 d M D G k v I. eapply goodv_mono; eauto. Qed.

(* reading from a good object gives good values *)
Lemma getattr_good : forall h0 hc o a v, wf_heap hc -> good h0 hc o -> getattr hc o a = Some v -> goodv h0 hc v.
Proof.
  intros h0 hc o a v W G E. unfold getattr in E. destruct (lookup hc o) as [[| |c attrs]|] eqn:L; try discriminate.
  pose proof (good_obj _ _ _ _ W G L) as GO. apply goodo_inst in GO. eapply GO. eapply aget_in; eauto.
Qed.
Lemma get_list_good : forall h0 hc o l, wf_heap hc -> good h0 hc o -> get_list hc o = Some l -> forall v, In v l -> goodv h0 hc v.
Proof.
  intros h0 hc o l W G E. unfold get_list in E. destruct (lookup hc o) as [[l'| |]|] eqn:L; try discriminate.
  inversion E; subst. apply goodo_list. eapply good_obj; eauto.
Qed.
Lemma get_dict_good : forall h0 hc o d, wf_heap hc -> good h0 hc o -> get_dict hc o = Some d -> gooda h0 hc d.
Proof.
  intros h0 hc o d W G E. unfold get_dict in E. destruct (lookup hc o) as [[|d'|]|] eqn:L; try discriminate.
  inversion E; subst. apply goodo_dict. eapply good_obj; eauto.
Qed.
Lemma as_refs_in : forall l rs, as_refs l = Some rs -> forall r, In r rs -> In (PRef r) l.
Proof.
  induction l as [|[a|o] l IH]; simpl; intros rs H r I.
  - inversion H; subst. inversion I.
  - discriminate.
  - destruct (as_refs l) as [r'|] eqn:E; [|discriminate]. inversion H; subst.
    destruct I as [<-|I]; [auto | right; eapply IH; eauto].
Qed.

(* setattr on a new, good object *)
Lemma setattr_spec : forall h0 hc o a v h1, st_ok h0 hc -> good h0 hc o -> goodv h0 hc v -> setattr hc o a v = Some h1 ->
  st_ok h0 h1 /\ (forall x, good h0 hc x -> good h0 h1 x) /\ (forall q, In q (dom hc) -> In q (dom h1)).
Proof.
  intros h0 hc o a v h1 S G Gv E. unfold setattr in E. destruct (lookup hc o) as [[| |c attrs]|] eqn:L; try discriminate.
  inversion E; subst; clear E. destruct S as [W U].
  assert (GO : goodo h0 hc (OInst c (aset attrs a v))).
  { apply goodo_inst. apply gooda_aset; auto. apply goodo_inst with (c := c). eapply good_obj; eauto. }
  repeat split.
  - apply wf_set; auto. eapply goodo_wf; eauto.
  - apply unchanged_set_new; auto. eapply good_new; eauto.
  - intros x Gx. apply good_set; auto.
  - intros q I. simpl; auto.
Qed.

(* ------------------------------------------------------------------ heap extension: good objects stay good, dom grows *)
Definition ext (h0 h h' : heap) : Prop :=
  (forall x, good h0 h x -> good h0 h' x) /\ (forall q, In q (dom h) -> In q (dom h')).
Lemma ext_refl : forall h0 h, ext h0 h h.
Proof. split; auto. Qed.
Lemma ext_trans : forall h0 a b c, ext h0 a b -> ext h0 b c -> ext h0 a c.
Proof. intros h0 a b c [A1 A2] [B1 B2]. split; auto. Qed.
Lemma ext_goodv : forall h0 h h' v, ext h0 h h' -> goodv h0 h v -> goodv h0 h' v.
Proof. intros h0 h h' v [A B]. apply goodv_mono; auto. Qed.
Lemma ext_gooda : forall h0 h h' d, ext h0 h h' -> gooda h0 h d -> gooda h0 h' d.
Proof. intros h0 h h' d [A B]. apply gooda_mono; auto. Qed.
Definition goodr (h0 h : heap) (r : nat) : Prop := In r (dom h) /\ good h0 h r.
Lemma ext_goodr : forall h0 h h' r, ext h0 h h' -> goodr h0 h r -> goodr h0 h' r.
Proof. intros h0 h h' r [A B] [C D]. split; auto. Qed.
Lemma goodr_goodv : forall h0 h r, goodr h0 h r -> goodv h0 h (PRef r).
Proof. intros h0 h r [A B]. apply goodv_ref; auto. Qed.

Lemma alloc_ext : forall h0 hc ob h1 n, st_ok h0 hc -> goodo h0 hc ob -> alloc hc ob = (h1, n) ->
  st_ok h0 h1 /\ goodr h0 h1 n /\ ext h0 hc h1.
Proof.
  intros h0 hc ob h1 n S G A. destruct (alloc_spec _ _ _ _ _ S G A) as (S1 & D & Gn & _ & M & DD).
  split; [exact S1|]. split; split; auto.
Qed.
Lemma setattr_ext : forall h0 hc o a v h1, st_ok h0 hc -> good h0 hc o -> goodv h0 hc v -> setattr hc o a v = Some h1 ->
  st_ok h0 h1 /\ ext h0 hc h1.
Proof.
  intros h0 hc o a v h1 S G Gv E. destruct (setattr_spec _ _ _ _ _ _ S G Gv E) as (S1 & M & D).
  split; [exact S1|]. split; auto.
Qed.

Lemma gooda_cons : forall h0 h k v d, goodv h0 h v -> gooda h0 h d -> gooda h0 h ((k, v) :: d).
Proof. intros h0 h k v d Gv Gd k1 v1 [E|I]; [inversion E; subst; auto | eapply Gd; eauto]. Qed.
Lemma gooda_nil : forall h0 h, gooda h0 h [].
Proof. intros h0 h k v []. Qed.

(* ------------------------------------------------------------------ Library(blocks) *)
Definition add_inv (h0 : heap) (st : lstate) : Prop :=
  let '(h, acc, ed, sd) := st in
  st_ok h0 h /\ (forall r, In r acc -> goodr h0 h r) /\ gooda h0 h ed /\ gooda h0 h sd.
Definition st_heap (st : lstate) : heap := let '(h, _, _, _) := st in h.

Lemma add_keyed_ok : forall h0 ie st b st', add_inv h0 st -> goodr h0 (st_heap st) b -> add_keyed ie st b = Some st' ->
  add_inv h0 st' /\ ext h0 (st_heap st) (st_heap st').
Proof.
  intros h0 ie [[[h acc] ed] sd] b st' (S & GA & GE & GS) Gb E. simpl in Gb. unfold add_keyed in E.
  pose proof S as [W U].
  destruct (getattr h b A_key) as [[k|?]|] eqn:EK; try discriminate.
  destruct (aget (if ie then ed else sd) k) as [prev|] eqn:EP.
  - destruct (getattr h b A_start_line_in_file) as [sl|] eqn:ES; try discriminate.
    destruct (getattr h b A_raw) as [raw|] eqn:ER; try discriminate.
    destruct (alloc h (ODict [])) as [h1 md] eqn:A1.
    destruct (alloc h1 _) as [h2 w] eqn:A2.
    inversion E; subst; clear E.
    assert (G0 : goodo h0 h (ODict [])) by (apply goodo_dict, gooda_nil).
    destruct (alloc_ext _ _ _ _ _ S G0 A1) as (S1 & Gmd & X1).
    assert (Gprev : goodv h0 h prev).
    { apply aget_in in EP. destruct ie; [eapply GE | eapply GS]; eauto. }
    destruct Gb as [Db Gb].
    assert (Gsl : goodv h0 h sl) by (eapply getattr_good; eauto).
    assert (Graw : goodv h0 h raw) by (eapply getattr_good; eauto).
    match type of A2 with alloc h1 ?o = _ => assert (G1 : goodo h0 h1 o) end.
    { apply goodo_inst.
      repeat apply gooda_cons; try apply gooda_nil; try apply goodv_atom;
        try solve [eapply ext_goodv; [exact X1|]; assumption].
      - apply goodr_goodv; auto.
      - eapply ext_goodv; [exact X1|]. apply goodv_ref; auto. }
    destruct (alloc_ext _ _ _ _ _ S1 G1 A2) as (S2 & Gw & X2).
    assert (X : ext h0 h h2) by (eapply ext_trans; eauto).
    simpl. split; [|exact X]. split; [exact S2|]. split; [|split].
    + intros r0 [<-|I]; [apply Gw | eapply ext_goodr; [exact X|]; auto].
    + eapply ext_gooda; eauto.
    + eapply ext_gooda; eauto.
  - inversion E; subst; clear E. simpl. split; [|apply ext_refl].
    split; [exact S|]. split; [|split].
    + intros r0 [<-|I]; auto.
    + destruct ie; auto. apply gooda_aset; auto. apply goodr_goodv; auto.
    + destruct ie; auto. apply gooda_aset; auto. apply goodr_goodv; auto.
Qed.

Lemma add_one_ok : forall h0 st b st', add_inv h0 st -> goodr h0 (st_heap st) b -> add_one st b = Some st' ->
  add_inv h0 st' /\ ext h0 (st_heap st) (st_heap st').
Proof.
  intros h0 st b st' I Gb E. unfold add_one in E. destruct st as [[[h acc] ed] sd] eqn:Est.
  assert (P : forall st1, Some (h, b :: acc, ed, sd) = Some st1 -> add_inv h0 st1 /\ ext h0 h (st_heap st1)).
  { intros st1 E1. inversion E1; subst. simpl. split; [|apply ext_refl].
    destruct I as (S & GA & GE & GS). split; [exact S|]. split; [|split]; auto.
    intros r0 [<-|Ir]; auto. }
  destruct (class_of h b) as [c|]; [|apply P; auto].
  destruct (Z.eqb c C_Entry); [rewrite <- Est in *; eapply add_keyed_ok; eauto|].
  destruct (Z.eqb c C_String); [rewrite <- Est in *; eapply add_keyed_ok; eauto|].
  apply P; auto.
Qed.

Lemma add_all_ok : forall h0 bs st st', add_inv h0 st -> (forall b, In b bs -> goodr h0 (st_heap st) b) ->
  add_all st bs = Some st' -> add_inv h0 st' /\ ext h0 (st_heap st) (st_heap st').
Proof.
  intros h0 bs. induction bs as [|b r IH]; simpl; intros st st' I G E.
  - inversion E; subst. split; [auto|apply ext_refl].
  - destruct (add_one st b) as [st1|] eqn:E1; [|discriminate].
    destruct (add_one_ok h0 st b st1 I (G b (or_introl eq_refl)) E1) as [I1 X1].
    destruct (IH st1 st' I1) as [I2 X2]; auto.
    + intros b' Ib. eapply ext_goodr; [exact X1|]. auto.
    + split; [auto | eapply ext_trans; eauto].
Qed.

(* the library built from good blocks is a good (entirely new) object; nothing old is touched *)
Lemma new_library_ok : forall h0 h blocks h' lib', st_ok h0 h -> (forall b, In b blocks -> goodr h0 h b) ->
  new_library h blocks = Some (h', lib') -> st_ok h0 h' /\ goodr h0 h' lib' /\ ext h0 h h'.
Proof.
  intros h0 h blocks h' lib' S G E. unfold new_library in E.
  destruct (add_all (h, [], [], []) blocks) as [[[[h1 acc] ed] sd]|] eqn:EA; [|discriminate].
  assert (I0 : add_inv h0 (h, [], [], [])).
  { simpl. split; [exact S|]. split; [|split]; try apply gooda_nil. intros r []. }
  destruct (add_all_ok h0 blocks _ _ I0 G EA) as [(S1 & GA & GE & GS) X1]. simpl in X1.
  destruct (alloc h1 (OList (map PRef (rev acc)))) as [h2 bl] eqn:A2.
  destruct (alloc h2 (ODict ed)) as [h3 e] eqn:A3.
  destruct (alloc h3 (ODict sd)) as [h4 s] eqn:A4.
  destruct (alloc h4 _) as [h5 lib] eqn:A5.
  inversion E; subst; clear E.
  assert (G2 : goodo h0 h1 (OList (map PRef (rev acc)))).
  { apply goodo_list. intros v Iv. apply in_map_iff in Iv. destruct Iv as [r [<- Ir]].
    apply goodr_goodv. apply GA. apply in_rev; auto. }
  destruct (alloc_ext _ _ _ _ _ S1 G2 A2) as (S2 & Gbl & X2).
  assert (G3 : goodo h0 h2 (ODict ed)) by (apply goodo_dict; eapply ext_gooda; eauto).
  destruct (alloc_ext _ _ _ _ _ S2 G3 A3) as (S3 & Ge & X3).
  assert (G4 : goodo h0 h3 (ODict sd)).
  { apply goodo_dict. eapply ext_gooda; [exact X3|]. eapply ext_gooda; eauto. }
  destruct (alloc_ext _ _ _ _ _ S3 G4 A4) as (S4 & Gs & X4).
  match type of A5 with alloc h4 ?o = _ => assert (G5 : goodo h0 h4 o) end.
  { apply goodo_inst. repeat apply gooda_cons; try apply gooda_nil; apply goodr_goodv.
    - eapply ext_goodr; [exact X4|]. eapply ext_goodr; eauto.
    - eapply ext_goodr; eauto.
    - auto. }
  destruct (alloc_ext _ _ _ _ _ S4 G5 A5) as (S5 & Glib & X5).
  split; [exact S5|]. split; [exact Glib|]. split.
  - intros x Gx. apply X5, X4, X3, X2, X1. auto.
  - intros q Iq. apply X5, X4, X3, X2, X1. auto.
Qed.

(* ------------------------------------------------------------------ reading structure *)
Lemma set_ext : forall h0 hc o ob, st_ok h0 hc -> goodo h0 hc ob -> ~ In o (dom h0) ->
  st_ok h0 (set_obj hc o ob) /\ ext h0 hc (set_obj hc o ob).
Proof.
  intros h0 hc o ob S G N. split; [apply st_set; auto|]. split.
  - intros x Gx. apply good_set; auto.
  - intros q I. simpl; auto.
Qed.

Lemma unchanged_goodr : forall h0 h h' r, wf_heap h -> unchanged h h' -> goodr h0 h r -> goodr h0 h' r.
Proof.
  intros h0 h h' r W U [D G]. split; [eauto using unchanged_dom|].
  intros p R. apply G. apply (reach_unchanged h h' r p W D U). exact R.
Qed.

Lemma attr_list_good : forall h0 h o a l xs, wf_heap h -> good h0 h o -> attr_list h o a = Some (l, xs) ->
  goodr h0 h l /\ forall v, In v xs -> goodv h0 h v.
Proof.
  intros h0 h o a l xs W G E. unfold attr_list in E.
  destruct (getattr h o a) as [v|] eqn:E1; [|discriminate].
  destruct v as [?|l']; simpl in E; [discriminate|].
  destruct (get_list h l') as [xs'|] eqn:E2; [|discriminate]. inversion E; subst.
  pose proof (getattr_good _ _ _ _ _ W G E1) as Gl. apply goodv_ref_inv in Gl. split; [exact Gl|].
  exact (get_list_good h0 h l xs W (proj2 Gl) E2).
Qed.

Lemma refs_goodr : forall h0 h xs rs, (forall v, In v xs -> goodv h0 h v) -> as_refs xs = Some rs ->
  forall r, In r rs -> goodr h0 h r.
Proof. intros h0 h xs rs G E r I. apply goodv_ref_inv. apply G. eapply as_refs_in; eauto. Qed.

Lemma lib_blocks_good : forall h0 h lib bs, wf_heap h -> good h0 h lib -> lib_blocks h lib = Some bs ->
  forall b, In b bs -> goodr h0 h b.
Proof.
  intros h0 h lib bs W G E. unfold lib_blocks in E.
  destruct (attr_list h lib A_blocks) as [[l xs]|] eqn:E1; [|discriminate]. simpl in E.
  destruct (attr_list_good _ _ _ _ _ _ W G E1) as [_ Gx]. eapply refs_goodr; eauto.
Qed.

(* membership in dom only needs well-formedness: instantiate `good` with the empty base heap *)
Lemma good_nil : forall h p, good [] h p.
Proof. intros h p p' _ []. Qed.
Lemma lib_blocks_dom : forall h lib bs, wf_heap h -> lib_blocks h lib = Some bs -> forall b, In b bs -> In b (dom h).
Proof. intros h lib bs W E b I. eapply (lib_blocks_good [] h lib bs W (good_nil h lib) E b I). Qed.

(* ------------------------------------------------------------------ the framework *)
Arguments alloc : simpl never.

Section Framework.
  Variable DC : heap -> nat -> heap * nat.
  Hypothesis DCok : dc_contract DC.

  Lemma dc_goodr : forall h0 h r h1 r', st_ok h0 h -> In r (dom h) -> DC h r = (h1, r') ->
    st_ok h0 h1 /\ goodr h0 h1 r' /\ unchanged h h1.
  Proof.
    intros h0 h r h1 r' [W U] D E. destruct (DCok h r h1 r' W D E) as (W1 & U1 & D1 & N1).
    split; [split; [auto | eapply unchanged_trans; eauto]|]. split; [|auto]. split; [auto|].
    intros p R I. apply (N1 p R). eapply unchanged_dom; eauto.
  Qed.

  Lemma block_loop_ok : forall bd h0 lib, footprint_ok bd -> forall bs hc acc h' acc',
    st_ok h0 hc -> In lib (dom hc) -> (forall b, In b bs -> In b (dom hc)) -> (forall r, In r acc -> goodr h0 hc r) ->
    block_loop DC false bd lib hc acc bs = Some (h', acc') ->
    st_ok h0 h' /\ (forall r, In r acc' -> goodr h0 h' r).
  Proof.
    intros bd h0 lib F bs. induction bs as [|b rest IH]; simpl; intros hc acc h' acc' S L B A E.
    - inversion E; subst. auto.
    - destruct (DC hc b) as [h1 b'] eqn:ED.
      destruct (bd h1 lib b') as [[h2 res]|] eqn:EB; [|discriminate].
      pose proof S as [W U].
      destruct (DCok hc b h1 b' W (B b (or_introl eq_refl)) ED) as (W1 & U1 & D1 & N1).
      destruct (F h1 lib b' h2 res W1 (unchanged_dom _ _ _ U1 L) D1 EB) as (W2 & DD & F2 & F3).
      assert (U12 : unchanged hc h2).
      { intros p Hp. rewrite F2; [apply U1; auto | eapply unchanged_dom; eauto | intro R; apply (N1 p R Hp)]. }
      assert (S2 : st_ok h0 h2) by (split; [auto | eapply unchanged_trans; eauto]).
      apply (IH h2 (acc ++ result_blocks res) h' acc'); auto.
      + eapply unchanged_dom; eauto.
      + intros b0 I. eapply unchanged_dom; eauto.
      + intros r I. apply in_app_or in I. destruct I as [I|I].
        * exact (unchanged_goodr h0 hc h2 r W U12 (A r I)).
        * destruct (F3 r I) as [Dr Rr]. split; [auto|]. intros p R I0.
          destruct (Rr p R) as [R1|N].
          -- apply (N1 p R1). eapply unchanged_dom; eauto.
          -- apply N. eapply unchanged_dom; [exact U1|]. eapply unchanged_dom; eauto.
  Qed.

  Lemma st_ok_no_alias : forall h h' r, st_ok h h' -> goodr h h' r -> no_alias h h' r.
  Proof. intros h h' r [W U] [D G]. repeat split; auto. Qed.

  Lemma st_ok_refl : forall h, wf_heap h -> st_ok h h.
  Proof. intros; split; [auto|apply unchanged_refl]. Qed.

  (* BlockMiddleware(allow_inplace_modification=False).transform *)
  Lemma copy_mode_ok : forall bd h lib h' lib', footprint_ok bd -> wf_heap h -> In lib (dom h) ->
    transform_block_mw DC false bd h lib = Some (h', lib') -> no_alias h h' lib'.
  Proof.
    intros bd h lib h' lib' F W L E. unfold transform_block_mw in E.
    destruct (lib_blocks h lib) as [bs|] eqn:EB; [|discriminate].
    destruct (block_loop DC false bd lib h [] bs) as [[h1 acc]|] eqn:EL; [|discriminate]. simpl in E.
    destruct (block_loop_ok bd h lib F bs h [] h1 acc (st_ok_refl h W) L (lib_blocks_dom h lib bs W EB)
                (fun r (I : In r []) => match I with end) EL) as [S1 G1].
    destruct (new_library_ok h h1 acc h' lib' S1 G1 E) as (S2 & G2 & _).
    apply st_ok_no_alias; auto.
  Qed.

  (* LibraryMiddleware(allow_inplace_modification=False).transform *)
  Lemma library_mw_ok : forall h lib h' lib', wf_heap h -> In lib (dom h) ->
    library_mw DC false h lib = Some (h', lib') -> no_alias h h' lib'.
  Proof.
    intros h lib h' lib' W L E. unfold library_mw in E. destruct (DC h lib) as [h1 l1] eqn:ED. inversion E; subst.
    destruct (dc_goodr h h lib h' lib' (st_ok_refl h W) L ED) as (S1 & G1 & _). apply st_ok_no_alias; auto.
  Qed.

  (* SortBlocksByTypeAndKeyMiddleware.transform *)
  Lemma perm_sel_in : forall (cr : list nat) perm sorted,
    fold_right (fun i acc => match acc with Some a => match nth_error cr i with Some x => Some (x :: a) | None => None end
                                       | None => None end) (Some []) perm = Some sorted ->
    forall x, In x sorted -> In x cr.
  Proof.
    intros cr perm. induction perm as [|i r IH]; simpl; intros sorted E x I.
    - inversion E; subst. inversion I.
    - destruct (fold_right _ (Some []) r) as [a|] eqn:EF; [|discriminate].
      destruct (nth_error cr i) as [y|] eqn:EN; [|discriminate]. inversion E; subst.
      destruct I as [<-|I]; [eapply nth_error_In; eauto | eapply IH; eauto].
  Qed.

  Lemma sort_blocks_ok : forall perm h lib h' lib', wf_heap h -> In lib (dom h) ->
    sort_blocks_mw DC perm h lib = Some (h', lib') -> no_alias h h' lib'.
  Proof.
    intros perm h lib h' lib' W L E. unfold sort_blocks_mw in E.
    destruct (getattr h lib A_blocks) as [[?|bl]|] eqn:E1; simpl in E; try discriminate.
    assert (Dbl : In bl (dom h)).
    { apply (goodv_ref_inv [] h bl). eapply getattr_good; eauto. apply good_nil. }
    destruct (DC h bl) as [h1 bl'] eqn:ED.
    destruct (dc_goodr h h bl h1 bl' (st_ok_refl h W) Dbl ED) as (S1 & G1 & _).
    destruct (get_list h1 bl') as [cs|] eqn:E2; [|discriminate].
    destruct (as_refs cs) as [cr|] eqn:E3; [|discriminate].
    match type of E with context [fold_right ?f ?a perm] => destruct (fold_right f a perm) as [sorted|] eqn:E4 end;
      [|discriminate].
    assert (Gc : forall r, In r cr -> goodr h h1 r).
    { eapply refs_goodr; [|exact E3]. eapply get_list_good; [apply S1 | apply G1 | exact E2]. }
    destruct (new_library_ok h h1 sorted h' lib' S1) as (S2 & G2 & _); auto.
    - intros b I. apply Gc. eapply perm_sel_in; eauto.
    - apply st_ok_no_alias; auto.
  Qed.

  (* ResolveStringReferencesMiddleware(allow_inplace_modification=False).transform *)
  Lemma resolve_fields_ok : forall bare sd h0 fs hc keys h1 keys',
    st_ok h0 hc -> gooda h0 hc sd -> (forall f, In f fs -> goodr h0 hc f) -> (forall k, In k keys -> goodv h0 hc k) ->
    resolve_fields bare sd hc keys fs = Some (h1, keys') ->
    st_ok h0 h1 /\ ext h0 hc h1 /\ (forall k, In k keys' -> goodv h0 h1 k).
  Proof.
    intros bare sd h0 fs. induction fs as [|f r IH]; simpl; intros hc keys h1 keys' S Gsd Gf Gk E.
    - inversion E; subst. split; [auto|]. split; [apply ext_refl|auto].
    - assert (Gr : forall f0, In f0 r -> goodr h0 hc f0) by (intros; apply Gf; auto).
      destruct (getattr hc f A_value) as [[a|?]|] eqn:EV; try discriminate; [|eapply IH; eauto].
      destruct (existsb (Z.eqb a) bare); [|eapply IH; eauto].
      destruct (aget sd a) as [[?|s]|] eqn:ES; try discriminate; [|eapply IH; eauto].
      destruct (getattr hc s A_value) as [sv|] eqn:ESV; [|discriminate].
      destruct (setattr hc f A_value sv) as [h2|] eqn:EW; [|discriminate].
      destruct (getattr h2 f A_key) as [k|] eqn:EK; [|discriminate].
      pose proof S as [W U].
      destruct (Gf f (or_introl eq_refl)) as [Df Gff].
      assert (Gs : goodr h0 hc s) by (apply goodv_ref_inv; eapply Gsd; eapply aget_in; eauto).
      assert (Gsv : goodv h0 hc sv) by (eapply getattr_good; [exact W | apply Gs | exact ESV]).
      destruct (setattr_ext _ _ _ _ _ _ S Gff Gsv EW) as [S2 X2].
      assert (Gkk : goodv h0 h2 k) by (eapply getattr_good; [apply S2 | apply X2; exact Gff | exact EK]).
      destruct (IH h2 (keys ++ [k]) h1 keys' S2) as (S3 & X3 & G3); auto.
      + eapply ext_gooda; eauto.
      + intros f0 I. eapply ext_goodr; eauto.
      + intros k0 I. apply in_app_or in I. destruct I as [I|[<-|[]]]; [eapply ext_goodv; eauto | auto].
      + split; [auto|]. split; [eapply ext_trans; eauto | auto].
  Qed.

  Lemma resolve_entries_ok : forall bare kres sdref h0 bs hc h2,
    st_ok h0 hc -> goodr h0 hc sdref -> (forall b, In b bs -> goodr h0 hc b) ->
    resolve_entries bare kres sdref hc bs = Some h2 -> st_ok h0 h2 /\ ext h0 hc h2.
  Proof.
    intros bare kres sdref h0 bs. induction bs as [|b r IH]; simpl; intros hc h2 S Gsd Gb E.
    - inversion E; subst. split; [auto|apply ext_refl].
    - assert (Gr : forall b0, In b0 r -> goodr h0 hc b0) by (intros; apply Gb; auto).
      destruct (class_of hc b) as [c|]; [|eapply IH; eauto].
      destruct (Z.eqb c C_Entry); [|eapply IH; eauto].
      destruct (get_dict hc sdref) as [sd|] eqn:ESD; [|discriminate].
      destruct (attr_list hc b A_fields) as [[fl xs]|] eqn:EF; [|discriminate]. simpl in E.
      destruct (as_refs xs) as [fs|] eqn:EFS; [|discriminate].
      destruct (resolve_fields bare sd hc [] fs) as [[h1 keys]|] eqn:ERF; [|discriminate].
      pose proof S as [W U]. destruct (Gb b (or_introl eq_refl)) as [Db Gbb].
      destruct (attr_list_good _ _ _ _ _ _ W Gbb EF) as [_ Gxs].
      destruct (resolve_fields_ok bare sd h0 fs hc [] h1 keys S) as (S1 & X1 & Gk); auto.
      { eapply get_dict_good; [exact W | apply Gsd | exact ESD]. }
      { eapply refs_goodr; eauto. }
      { intros k []. }
      assert (Next : forall hx, st_ok h0 hx -> ext h0 hc hx -> resolve_entries bare kres sdref hx r = Some h2 ->
                               st_ok h0 h2 /\ ext h0 hc h2).
      { intros hx Sx Xx Ex. destruct (IH hx h2 Sx) as [S3 X3]; auto.
        - eapply ext_goodr; eauto.
        - intros b0 I. eapply ext_goodr; eauto.
        - split; [auto | eapply ext_trans; eauto]. }
      destruct keys as [|k0 ks]; [apply (Next h1); auto|]. cbv beta iota in E.
      pose (h3 := (fresh h1, OList (k0 :: ks)) :: h1). pose (rl := fresh h1).
      assert (EA : alloc h1 (OList (k0 :: ks)) = (h3, rl)) by reflexivity.
      unfold alloc in E. cbv zeta beta iota in E.
      change ((fresh h1, OList (k0 :: ks)) :: h1) with h3 in E. change (fresh h1) with rl in E.
      clearbody h3 rl.
      destruct (getattr h3 b A_parser_metadata) as [[?|md]|] eqn:EM; simpl in E; try discriminate.
      destruct (get_dict h3 md) as [d|] eqn:EDD; [|discriminate].
      assert (GL : goodo h0 h1 (OList (k0 :: ks))) by (apply goodo_list; auto).
      destruct (alloc_ext _ _ _ _ _ S1 GL EA) as (S3 & Grl & X3).
      assert (X13 : ext h0 hc h3) by (eapply ext_trans; eauto).
      assert (Gmd : goodr h0 h3 md).
      { apply goodv_ref_inv. eapply getattr_good; [apply S3 | apply X13; exact Gbb | exact EM]. }
      assert (GD : goodo h0 h3 (ODict (aset d kres (PRef rl)))).
      { apply goodo_dict. apply gooda_aset; [|apply goodr_goodv; auto].
        eapply get_dict_good; [apply S3 | apply Gmd | exact EDD]. }
      destruct (set_ext h0 h3 md _ S3 GD (good_new _ _ _ (proj2 Gmd))) as [S4 X4].
      apply (Next _ S4); auto. eapply ext_trans; eauto.
  Qed.

  Lemma resolve_ok : forall bare kres h lib h' lib', wf_heap h -> In lib (dom h) ->
    resolve_mw DC false bare kres h lib = Some (h', lib') -> no_alias h h' lib'.
  Proof.
    intros bare kres h lib h' lib' W L E. unfold resolve_mw in E.
    destruct (DC h lib) as [h1 l1] eqn:ED.
    destruct (dc_goodr h h lib h1 l1 (st_ok_refl h W) L ED) as (S1 & G1 & _).
    destruct (lib_blocks h1 l1) as [bs|] eqn:EB; [|discriminate].
    destruct (getattr h1 l1 A_strings_by_key) as [[?|sdref]|] eqn:ES; simpl in E; try discriminate.
    destruct (resolve_entries bare kres sdref h1 bs) as [h2|] eqn:ER; [|discriminate]. inversion E; subst.
    destruct (resolve_entries_ok bare kres sdref h bs h1 h' S1) as [S2 X2]; auto.
    - apply goodv_ref_inv. eapply getattr_good; [apply S1 | apply G1 | exact ES].
    - eapply lib_blocks_good; [apply S1 | apply G1 | exact EB].
    - apply st_ok_no_alias; auto. eapply ext_goodr; eauto.
  Qed.

  (* every copy-mode middleware *)
  Lemma run_mw_ok : forall m h lib h' lib', mw_ok m -> wf_heap h -> In lib (dom h) ->
    run_mw DC m h lib = Some (h', lib') -> no_alias h h' lib'.
  Proof.
    intros m h lib h' lib' [C F] W L E. destruct m as [i bd|i|i bare k|perm]; simpl in *; subst.
    - eapply copy_mode_ok; eauto.
    - eapply library_mw_ok; eauto.
    - eapply resolve_ok; eauto.
    - eapply sort_blocks_ok; eauto.
  Qed.

  (* stacks of ANY positive length *)
  Lemma run_stack_ok : forall ms h lib h' lib', Forall mw_ok ms -> ms <> [] -> wf_heap h -> In lib (dom h) ->
    run_stack DC ms h lib = Some (h', lib') -> no_alias h h' lib'.
  Proof.
    induction ms as [|m r IH]; intros h lib h' lib' F N W L E; [contradiction|].
    simpl in E. destruct (run_mw DC m h lib) as [[h1 l1]|] eqn:E1; [|discriminate]. simpl in E.
    inversion F as [|? ? Fm Fr]; subst.
    destruct (run_mw_ok m h lib h1 l1 Fm W L E1) as (W1 & D1 & U1 & G1).
    destruct r as [|m2 r2].
    - simpl in E. inversion E; subst. repeat split; auto.
    - destruct (IH h1 l1 h' lib' Fr) as (W2 & D2 & U2 & G2); auto; [discriminate|].
      repeat split; auto.
      + eapply unchanged_trans; eauto.
      + intros p R I. apply (G2 p R). eapply unchanged_dom; eauto.
  Qed.

  (* writer.write and write_string with the default stack *)
  Lemma writer_ok : forall a1 a2 h lib fmt h', wf_heap h -> In fmt (dom h) ->
    writer_mw DC a1 a2 h lib fmt = Some h' -> st_ok h h'.
  Proof.
    intros a1 a2 h lib fmt h' W D E. unfold writer_mw in E.
    destruct (lib_blocks h lib); [|discriminate].
    destruct (getattr h fmt A_align_field_values) as [[a|?]|]; try discriminate;
      try (inversion E; subst; apply st_ok_refl; auto).
    destruct (Z.eqb a a1); [|inversion E; subst; apply st_ok_refl; auto].
    destruct (DC h fmt) as [h1 f1] eqn:ED.
    destruct (dc_goodr h h fmt h1 f1 (st_ok_refl h W) D ED) as (S1 & G1 & _).
    eapply setattr_ext; [exact S1 | apply G1 | apply goodv_atom | exact E].
  Qed.

  Lemma write_string_ok : forall bd a1 a2 h lib fmt h', footprint_ok bd -> wf_heap h -> In lib (dom h) -> In fmt (dom h) ->
    write_string_mw DC bd a1 a2 h lib fmt = Some h' ->
    wf_heap h' /\ input_untouched h h'
    /\ (forall p, reach h' lib p <-> reach h lib p) /\ (forall p, reach h' fmt p <-> reach h fmt p).
  Proof.
    intros bd a1 a2 h lib fmt h' F W L D E. unfold write_string_mw in E.
    destruct (transform_block_mw DC false bd h lib) as [[h1 l1]|] eqn:E1; [|discriminate]. simpl in E.
    destruct (copy_mode_ok bd h lib h1 l1 F W L E1) as (W1 & D1 & U1 & _).
    destruct (writer_ok a1 a2 h1 l1 fmt h' W1 (unchanged_dom _ _ _ U1 D) E) as [W2 U2].
    assert (U : unchanged h h') by (eapply unchanged_trans; eauto).
    split; [exact W2|]. split; [exact U|]. split; intros p; apply reach_unchanged; auto.
  Qed.
End Framework.

(* ------------------------------------------------------------------ footprints of concrete bodies.
   region h b = what a body working on block b may touch: the objects reachable from b in the heap h it was given,
   and objects that did not exist in h.  fp_inv: the invariant of straight-line code that stays inside. *)
Definition region (h : heap) (b q : nat) : Prop := reach h b q \/ ~ In q (dom h).
Definition fp_inv (h : heap) (b : nat) (hc : heap) : Prop :=
  wf_heap hc /\ (forall p, In p (dom h) -> In p (dom hc))
  /\ (forall p, In p (dom h) -> ~ reach h b p -> lookup hc p = lookup h p)
  /\ (forall q ob q', region h b q -> lookup hc q = Some ob -> In q' (refs_of ob) -> region h b q').
Definition regr (h : heap) (b : nat) (hc : heap) (q : nat) : Prop := In q (dom hc) /\ region h b q.
Definition regv (h : heap) (b : nat) (hc : heap) (v : pv) : Prop := forall q, In q (pv_refs v) -> regr h b hc q.
Definition rego (h : heap) (b : nat) (hc : heap) (ob : obj) : Prop := forall q, In q (refs_of ob) -> regr h b hc q.
Definition rega (h : heap) (b : nat) (hc : heap) (d : list (Z * pv)) : Prop := forall k v, In (k, v) d -> regv h b hc v.

Lemma fp_init : forall h b, wf_heap h -> fp_inv h b h.
Proof.
  intros h b W. repeat split; auto.
  intros q ob q' [R|N] E I.
  - left. eapply reach_trans; [exact R|]. eapply reach_step; eauto. constructor.
  - exfalso. apply N. eauto using lookup_dom.
Qed.

Lemma fp_set : forall h b hc o ob, fp_inv h b hc -> region h b o -> rego h b hc ob -> fp_inv h b (set_obj hc o ob).
Proof.
  intros h b hc o ob (W & D & F & C) Ro Go. repeat split.
  - apply wf_set; auto. intros q I. apply Go; auto.
  - intros p I. simpl. right. auto.
  - intros p I N. rewrite lookup_set_other; auto. intro; subst. destruct Ro; contradiction.
  - intros q ob' q' Rq E I. rewrite lookup_set in E. destruct (Nat.eqb o q).
    + inversion E; subst. apply Go; auto.
    + eapply C; eauto.
Qed.

Lemma fp_dom : forall h b hc p, fp_inv h b hc -> In p (dom h) -> In p (dom hc).
Proof. intros h b hc p (_ & D & _) I. auto. Qed.

Lemma fp_alloc : forall h b hc ob h1 n, fp_inv h b hc -> rego h b hc ob -> alloc hc ob = (h1, n) ->
  fp_inv h b h1 /\ regr h b h1 n /\ (forall q, In q (dom hc) -> In q (dom h1)).
Proof.
  intros h b hc ob h1 n I G A. unfold alloc in A. inversion A; subst; clear A.
  assert (N : region h b (fresh hc)).
  { right. intro X. apply (fresh_not_in hc). eapply fp_dom; eauto. }
  split; [apply (fp_set h b hc (fresh hc) ob I N G)|]. split; [split; [simpl; auto | exact N]|].
  intros q Iq. simpl; auto.
Qed.

Lemma fp_read : forall h b hc q ob, fp_inv h b hc -> region h b q -> lookup hc q = Some ob -> rego h b hc ob.
Proof. intros h b hc q ob (W & D & F & C) R E q' I. split; [eapply W; eauto | eapply C; eauto]. Qed.

Lemma regv_atom : forall h b hc a, regv h b hc (PAtom a).
Proof. intros h b hc a q []. Qed.
Lemma regv_ref : forall h b hc o, regr h b hc o -> regv h b hc (PRef o).
Proof. intros h b hc o R q [<-|[]]. auto. Qed.
Lemma regv_ref_inv : forall h b hc o, regv h b hc (PRef o) -> regr h b hc o.
Proof. intros h b hc o R. apply R. simpl; auto. Qed.
Lemma regr_mono : forall h b hc h1 q, (forall p, In p (dom hc) -> In p (dom h1)) -> regr h b hc q -> regr h b h1 q.
Proof. intros h b hc h1 q M [D R]. split; auto. Qed.
Lemma regv_mono : forall h b hc h1 v, (forall p, In p (dom hc) -> In p (dom h1)) -> regv h b hc v -> regv h b h1 v.
Proof. intros h b hc h1 v M R q I. eapply regr_mono; eauto. Qed.

Lemma rego_inst : forall h b hc c a, rega h b hc a <-> rego h b hc (OInst c a).
Proof.
  intros; split.
  - intros G q I. apply refs_of_inst in I. destruct I as [k [v [I Q]]]. eapply G; eauto.
  - intros G k v I q Q. apply G. apply refs_of_inst. eauto.
Qed.
Lemma rego_dict : forall h b hc a, rega h b hc a <-> rego h b hc (ODict a).
Proof. intros. apply (rego_inst h b hc 0%Z a). Qed.
Lemma rego_list : forall h b hc l, (forall v, In v l -> regv h b hc v) <-> rego h b hc (OList l).
Proof.
  intros; split.
  - intros G q I. apply refs_of_list in I. destruct I as [v [I Q]]. eapply G; eauto.
  - intros G v I q Q. apply G. apply refs_of_list. eauto.
Qed.
Lemma rega_aset : forall h b hc d k v, rega h b hc d -> regv h b hc v -> rega h b hc (aset d k v).
Proof.
  intros h b hc d k v G Gv k1 v1 I. apply aset_in in I. destruct I as [I|I]; [eapply G; eauto | inversion I; subst; auto].
Qed.
Lemma rega_cons : forall h b hc k v d, regv h b hc v -> rega h b hc d -> rega h b hc ((k, v) :: d).
Proof. intros h b hc k v d Gv Gd k1 v1 [E|I]; [inversion E; subst; auto | eapply Gd; eauto]. Qed.
Lemma rega_nil : forall h b hc, rega h b hc [].
Proof. intros h b hc k v []. Qed.

Lemma getattr_reg : forall h b hc o a v, fp_inv h b hc -> region h b o -> getattr hc o a = Some v -> regv h b hc v.
Proof.
  intros h b hc o a v I R E. unfold getattr in E. destruct (lookup hc o) as [[| |c attrs]|] eqn:L; try discriminate.
  pose proof (fp_read _ _ _ _ _ I R L) as G. apply rego_inst in G. eapply G. eapply aget_in; eauto.
Qed.

Lemma setattr_fp : forall h b hc o a v h1, fp_inv h b hc -> region h b o -> regv h b hc v -> setattr hc o a v = Some h1 ->
  fp_inv h b h1 /\ (forall p, In p (dom hc) -> In p (dom h1)).
Proof.
  intros h b hc o a v h1 I R Gv E. unfold setattr in E. destruct (lookup hc o) as [[| |c attrs]|] eqn:L; try discriminate.
  inversion E; subst; clear E. split; [|intros p Ip; simpl; auto].
  apply fp_set; auto. apply rego_inst. apply rega_aset; auto. apply rego_inst with (c := c). eapply fp_read; eauto.
Qed.

Lemma attr_list_reg : forall h b hc o a l xs, fp_inv h b hc -> region h b o -> attr_list hc o a = Some (l, xs) ->
  regr h b hc l /\ forall v, In v xs -> regv h b hc v.
Proof.
  intros h b hc o a l xs I R E. unfold attr_list in E.
  destruct (getattr hc o a) as [v|] eqn:E1; [|discriminate].
  destruct v as [?|l']; simpl in E; [discriminate|].
  destruct (get_list hc l') as [xs'|] eqn:E2; [|discriminate]. inversion E; subst.
  pose proof (regv_ref_inv _ _ _ _ (getattr_reg _ _ _ _ _ _ I R E1)) as Gl. split; [exact Gl|].
  unfold get_list in E2. destruct (lookup hc l) as [[l0| |]|] eqn:L; try discriminate. inversion E2; subst.
  apply rego_list. exact (fp_read h b hc l _ I (proj2 Gl) L).
Qed.

(* from the invariant to the footprint *)
Lemma fp_final : forall h b h' res, fp_inv h b h' -> (forall r, In r (result_blocks res) -> regr h b h' r) ->
  wf_heap h'
  /\ (forall p, In p (dom h) -> In p (dom h'))
  /\ (forall p, In p (dom h) -> ~ reach h b p -> lookup h' p = lookup h p)
  /\ (forall r, In r (result_blocks res) ->
        In r (dom h') /\ forall p, reach h' r p -> reach h b p \/ ~ In p (dom h)).
Proof.
  intros h b h' res (W & D & F & C) R. repeat split; auto.
  - apply R; auto.
  - intros p Rp. apply (reach_closed h' (region h b) C r p Rp). apply R; auto.
Qed.

Lemma region_self : forall h b, region h b b.
Proof. intros; left; constructor. Qed.

Lemma set_values_fp : forall h b c fs hc h1, fp_inv h b hc -> (forall f, In f fs -> region h b f) ->
  set_values hc fs c = Some h1 -> fp_inv h b h1 /\ (forall p, In p (dom hc) -> In p (dom h1)).
Proof.
  intros h b c fs. induction fs as [|f r IH]; simpl; intros hc h1 I R E.
  - inversion E; subst. auto.
  - destruct (setattr hc f A_value (PAtom c)) as [h2|] eqn:E1; [|discriminate].
    destruct (setattr_fp _ _ _ _ _ _ _ I (R f (or_introl eq_refl)) (regv_atom _ _ _ _) E1) as [I2 M2].
    destruct (IH h2 h1 I2) as [I3 M3]; auto.
Qed.

Lemma fp_identity : footprint_ok probe_identity.
Proof.
  intros h lib b h' res W L B E. unfold probe_identity in E. inversion E; subst.
  apply fp_final; [apply fp_init; auto|]. simpl. intros r [<-|[]]. split; [auto|apply region_self].
Qed.

Lemma fp_ret_same : forall h b h1, fp_inv h b h1 -> In b (dom h) -> forall r, In r (result_blocks (ROne b)) -> regr h b h1 r.
Proof. intros h b h1 I B r [<-|[]]. split; [eapply fp_dom; eauto | apply region_self]. Qed.

Lemma fp_set_values : forall c, footprint_ok (probe_set_values c).
Proof.
  intros c h lib b h' res W L B E. unfold probe_set_values in E. pose proof (fp_init h b W) as I0.
  destruct (is_entry h b).
  - destruct (attr_list h b A_fields) as [[l xs]|] eqn:EF; [|discriminate]. simpl in E.
    destruct (as_refs xs) as [fs|] eqn:ER; [|discriminate].
    destruct (set_values h fs c) as [h1|] eqn:ES; [|discriminate]. inversion E; subst.
    destruct (attr_list_reg _ _ _ _ _ _ _ I0 (region_self h b) EF) as [_ Gx].
    destruct (set_values_fp h b c fs h h' I0) as [I1 _]; auto.
    + intros f If. apply (regv_ref_inv h b h f). apply Gx. eapply as_refs_in; eauto.
    + apply fp_final; auto. apply fp_ret_same; auto.
  - destruct (is_string h b).
    + destruct (setattr h b A_value (PAtom c)) as [h1|] eqn:ES; [|discriminate]. inversion E; subst.
      destruct (setattr_fp _ _ _ _ _ _ _ I0 (region_self h b) (regv_atom _ _ _ _) ES) as [I1 _].
      apply fp_final; auto. apply fp_ret_same; auto.
    + inversion E; subst. apply fp_final; auto. apply fp_ret_same; auto.
Qed.

Lemma fp_append_field : forall c kp, footprint_ok (probe_append_field c kp).
Proof.
  intros c kp h lib b h' res W L B E. unfold probe_append_field in E. pose proof (fp_init h b W) as I0.
  destruct (is_entry h b); [|inversion E; subst; apply fp_final; auto; apply fp_ret_same; auto].
  destruct (attr_list h b A_fields) as [[l xs]|] eqn:EF; [|discriminate]. cbn [fst snd] in E.
  destruct (alloc h _) as [h1 f] eqn:EA. inversion E; subst; clear E.
  destruct (attr_list_reg _ _ _ _ _ _ _ I0 (region_self h b) EF) as [Gl Gx].
  match type of EA with alloc h ?o = _ => assert (G1 : rego h b h o) end.
  { apply rego_inst. repeat apply rega_cons; try apply rega_nil; apply regv_atom. }
  destruct (fp_alloc _ _ _ _ _ _ I0 G1 EA) as (I1 & Gf & M1).
  assert (I2 : fp_inv h b (set_obj h1 l (OList (xs ++ [PRef f])))).
  { apply fp_set; auto; [apply Gl|]. apply rego_list. intros v Iv. apply in_app_or in Iv. destruct Iv as [Iv|[<-|[]]].
    - eapply regv_mono; [exact M1|]. auto.
    - apply regv_ref; auto. }
  apply fp_final; auto. apply fp_ret_same; auto.
Qed.

Lemma fp_replace_metadata : forall c kp, footprint_ok (probe_replace_metadata c kp).
Proof.
  intros c kp h lib b h' res W L B E. unfold probe_replace_metadata in E. pose proof (fp_init h b W) as I0.
  destruct (is_plain_block h b); [|inversion E; subst; apply fp_final; auto; apply fp_ret_same; auto].
  destruct (alloc h _) as [h1 md] eqn:EA.
  destruct (setattr h1 b A_parser_metadata (PRef md)) as [h2|] eqn:ES; [|discriminate]. inversion E; subst; clear E.
  match type of EA with alloc h ?o = _ => assert (G1 : rego h b h o) end.
  { apply rego_dict. apply rega_cons; [apply regv_atom | apply rega_nil]. }
  destruct (fp_alloc _ _ _ _ _ _ I0 G1 EA) as (I1 & Gm & M1).
  destruct (setattr_fp _ _ _ _ _ _ _ I1 (region_self h b) (regv_ref _ _ _ _ Gm) ES) as [I2 _].
  apply fp_final; auto. apply fp_ret_same; auto.
Qed.

Lemma fp_drop_strings : footprint_ok probe_drop_strings.
Proof.
  intros h lib b h' res W L B E. unfold probe_drop_strings in E. pose proof (fp_init h b W) as I0.
  destruct (is_string h b); inversion E; subst; apply fp_final; auto.
  - intros r [].
  - apply fp_ret_same; auto.
Qed.

Lemma fp_add_comment : forall kp, footprint_ok (probe_add_comment kp).
Proof.
  intros kp h lib b h' res W L B E. unfold probe_add_comment in E. pose proof (fp_init h b W) as I0.
  destruct (is_entry h b); [|inversion E; subst; apply fp_final; auto; apply fp_ret_same; auto].
  destruct (alloc h (ODict [])) as [h1 md] eqn:EA1.
  destruct (alloc h1 _) as [h2 cm] eqn:EA2. inversion E; subst; clear E.
  assert (G1 : rego h b h (ODict [])) by (apply rego_dict, rega_nil).
  destruct (fp_alloc _ _ _ _ _ _ I0 G1 EA1) as (I1 & Gm & M1).
  match type of EA2 with alloc h1 ?o = _ => assert (G2 : rego h b h1 o) end.
  { apply rego_inst. repeat apply rega_cons; try apply rega_nil; try apply regv_atom. apply regv_ref; auto. }
  destruct (fp_alloc _ _ _ _ _ _ I1 G2 EA2) as (I2 & Gc & M2).
  apply fp_final; auto. simpl. intros r [<-|[<-|[]]]; [|auto].
  split; [eapply fp_dom; eauto | apply region_self].
Qed.

Lemma fp_twice : footprint_ok probe_twice.
Proof.
  intros h lib b h' res W L B E. unfold probe_twice in E. pose proof (fp_init h b W) as I0.
  destruct (is_entry h b); inversion E; subst; apply fp_final; auto.
  - simpl. intros r [<-|[<-|[]]]; (split; [auto | apply region_self]).
  - apply fp_ret_same; auto.
Qed.

Lemma fp_same_key : forall k, footprint_ok (probe_same_key k).
Proof.
  intros k h lib b h' res W L B E. unfold probe_same_key in E. pose proof (fp_init h b W) as I0.
  destruct (is_entry h b); [|inversion E; subst; apply fp_final; auto; apply fp_ret_same; auto].
  destruct (setattr h b A_key (PAtom k)) as [h1|] eqn:ES; [|discriminate]. inversion E; subst.
  destruct (setattr_fp _ _ _ _ _ _ _ I0 (region_self h b) (regv_atom _ _ _ _) ES) as [I1 _].
  apply fp_final; auto. apply fp_ret_same; auto.
Qed.

(* every probe body except the deliberately leaking one (7) stays within its footprint *)
Lemma probe_footprints : forall n c kp kdup, n <> 7%Z -> footprint_ok (probe_body n c kp kdup).
Proof.
  intros n c kp kdup N. unfold probe_body.
  destruct (Z.eqb n 0); [apply fp_identity|].
  destruct (Z.eqb n 1); [apply fp_set_values|].
  destruct (Z.eqb n 2); [apply fp_append_field|].
  destruct (Z.eqb n 3); [apply fp_replace_metadata|].
  destruct (Z.eqb n 4); [apply fp_drop_strings|].
  destruct (Z.eqb n 5); [apply fp_add_comment|].
  destruct (Z.eqb n 6); [apply fp_twice|].
  destruct (Z.eqb n 7) eqn:E7; [apply Z.eqb_eq in E7; contradiction|].
  apply fp_same_key.
Qed.

(* ------------------------------------------------------------------ the executable deepcopy meets the contract
   whenever it completes (flag true).  That the fuel S (length h) always suffices on a well-formed heap is proved in
   Proofs/HeapCopyTotal.v (dc_total_fuel, deepcopy_checked_total, deepcopy_exec_contract). *)
Definition minv (h0 h : heap) (m : memo) : Prop := forall k v, In (k, v) m -> goodr h0 h v.

Lemma memo_get_in : forall m o v, memo_get m o = Some v -> In (o, v) m.
Proof.
  induction m as [|[k w] r IH]; simpl; intros o v H; [discriminate|].
  destruct (Nat.eqb k o) eqn:E; [apply Nat.eqb_eq in E; inversion H; subst; auto | right; auto].
Qed.

Lemma minv_ext : forall h0 h h' m, ext h0 h h' -> minv h0 h m -> minv h0 h' m.
Proof. intros h0 h h' m X M k v I. eapply ext_goodr; eauto. Qed.

Definition dc_spec (h0 : heap) (rec : heap -> memo -> nat -> heap * memo * nat * bool) : Prop :=
  forall h m o h' m' o', st_ok h0 h -> minv h0 h m -> rec h m o = (h', m', o', true) ->
    st_ok h0 h' /\ ext h0 h h' /\ minv h0 h' m' /\ goodr h0 h' o'.

Lemma copy_pvs_ok : forall h0 rec, dc_spec h0 rec -> forall l h m h2 m2 l',
  st_ok h0 h -> minv h0 h m -> copy_pvs rec l h m = (h2, m2, l', true) ->
  st_ok h0 h2 /\ ext h0 h h2 /\ minv h0 h2 m2 /\ (forall v, In v l' -> goodv h0 h2 v).
Proof.
  intros h0 rec R l. induction l as [|[a|q] r IH]; simpl; intros h m h2 m2 l' S M E.
  - inversion E; subst. split; [auto|]. split; [apply ext_refl|]. split; [auto|]. intros v [].
  - destruct (copy_pvs rec r h m) as [[[h3 m3] r'] ok] eqn:E1. inversion E; subst.
    destruct (IH h m h2 m2 r' S M E1) as (S2 & X2 & M2 & G2).
    split; [auto|]. split; [auto|]. split; [auto|]. intros v [<-|I]; [apply goodv_atom | auto].
  - destruct (rec h m q) as [[[h1 m1] q'] ok1] eqn:E0.
    destruct (copy_pvs rec r h1 m1) as [[[h3 m3] r'] ok2] eqn:E1. inversion E; subst.
    apply andb_true_iff in H3. destruct H3 as [-> ->].
    destruct (R h m q h1 m1 q' S M E0) as (S1 & X1 & M1 & G1).
    destruct (IH h1 m1 h2 m2 r' S1 M1 E1) as (S2 & X2 & M2 & G2).
    split; [auto|]. split; [eapply ext_trans; eauto|]. split; [auto|].
    intros v [<-|I]; [apply goodr_goodv; eapply ext_goodr; eauto | auto].
Qed.

Lemma refs_rebuild : forall ob l q, In q (refs_of (rebuild ob l)) -> exists v, In v l /\ In q (pv_refs v).
Proof.
  intros ob l q I. destruct ob as [l0|d|c a]; simpl in I.
  - apply refs_of_list in I. exact I.
  - apply refs_of_dict in I. destruct I as [k [v [I Q]]]. exists v. split; [eapply in_combine_r; eauto | auto].
  - apply refs_of_inst in I. destruct I as [k [v [I Q]]]. exists v. split; [eapply in_combine_r; eauto | auto].
Qed.

Lemma shell_no_refs : forall ob q, ~ In q (refs_of (shell ob)).
Proof. intros [l|d|c a] q I; inversion I. Qed.

Lemma dc_ok : forall h0 fuel, dc_spec h0 (dc fuel).
Proof.
  intros h0 fuel. induction fuel as [|f IH]; intros h m o h' m' o' S M E; simpl in E; [inversion E|].
  destruct (memo_get m o) as [v|] eqn:EM.
  - inversion E; subst. split; [auto|]. split; [apply ext_refl|]. split; [auto|]. eapply M. eapply memo_get_in; eauto.
  - destruct (lookup h o) as [ob|] eqn:EL; [|inversion E].
    destruct (copy_pvs (dc f) (obj_pvs ob) (set_obj h (fresh h) (shell ob)) ((o, fresh h) :: m)) as [[[h2 m2] l'] ok] eqn:EC.
    inversion E; subst; clear E.
    assert (GS : goodo h0 h (shell ob)) by (intros q I; exfalso; eapply shell_no_refs; eauto).
    assert (EA : alloc h (shell ob) = (set_obj h (fresh h) (shell ob), fresh h)) by reflexivity.
    destruct (alloc_ext _ _ _ _ _ S GS EA) as (S1 & Gn & X1).
    assert (M1 : minv h0 (set_obj h (fresh h) (shell ob)) ((o, fresh h) :: m)).
    { intros k v [I|I]; [inversion I; subst; auto | eapply ext_goodr; [exact X1|]; eapply M; eauto]. }
    destruct (copy_pvs_ok h0 (dc f) IH _ _ _ _ _ _ S1 M1 EC) as (S2 & X2 & M2 & G2).
    assert (GR : goodo h0 h2 (rebuild ob l')).
    { intros q I. apply refs_rebuild in I. destruct I as [v [Iv Q]]. apply (G2 v Iv q Q). }
    assert (Gn2 : goodr h0 h2 (fresh h)) by (eapply ext_goodr; eauto).
    assert (N : ~ In (fresh h) (dom h0)) by (eapply good_new; apply Gn2).
    destruct (set_ext h0 h2 (fresh h) _ S2 GR N) as [S3 X3].
    split; [auto|]. split; [eapply ext_trans; [exact X1|]; eapply ext_trans; eauto|].
    split; [eapply minv_ext; eauto|].
    split; [simpl; auto | apply good_set_self; auto].
Qed.

Lemma deepcopy_checked_contract : forall h r h' r', wf_heap h -> In r (dom h) -> deepcopy_checked h r = Some (h', r') ->
  wf_heap h' /\ unchanged h h' /\ In r' (dom h') /\ (forall p, reach h' r' p -> ~ In p (dom h)).
Proof.
  intros h r h' r' W D E. unfold deepcopy_checked in E.
  destruct (dc (S (length h)) h [] r) as [[[h1 m1] r1] ok] eqn:ED. destruct ok; [|discriminate]. inversion E; subst.
  destruct (dc_ok h (S (length h)) h [] r h' m1 r' (conj W (unchanged_refl h)) (fun k v (I : In (k, v) []) => match I with end) ED)
    as ([W1 U1] & _ & _ & [D1 G1]).
  auto.
Qed.

Lemma deepcopy_checked_exec : forall h r h' r', deepcopy_checked h r = Some (h', r') -> deepcopy_exec h r = (h', r').
Proof.
  intros h r h' r' E. unfold deepcopy_checked in E. unfold deepcopy_exec.
  destruct (dc (S (length h)) h [] r) as [[[h1 m1] r1] ok]. destruct ok; [|discriminate]. inversion E; subst. reflexivity.
Qed.
