(* C14, the loop through writer and parser (Spec/C14Stack.v): the text MergeNameParts + MergeCoAuthors produce is
   written by the default write stack as one braced field value and read back by the default parse stack as exactly
   that text, which SeparateCoAuthors + SplitNameParts split into the same persons (list-level law of C14).
   Composition of: Proofs/RoundTrip4-7 (the writer's output on a clean library is a well-formed document of the
   grammar, which the splitter and the default stack read back with the same content: C05/C10),
   Proofs/NamesListProofs (list_inverse_except_known) and Proofs/NamesStackProofs (the middleware on one field).
   Nothing about the splitter is re-proved here. *)
From Coq Require Import List NArith ZArith Bool Lia.
From BP Require Import Base.Chars Model.Blocks Model.LibAdd Gen.Constants Model.Lexer Model.Splitter Model.Enclosing
  Model.Interpolate Model.Writer Model.Grammar Model.Pipeline Model.Names Spec.C05 Spec.C12 Spec.C13 Spec.C14 Spec.C14Stack
  Proofs.LibAddProofs Proofs.EnclosingProofs Proofs.SplitGrammar
  Proofs.RoundTrip Proofs.RoundTrip2 Proofs.RoundTrip3 Proofs.RoundTrip4 Proofs.RoundTrip5 Proofs.RoundTrip6 Proofs.RoundTrip7
  Proofs.NamesParseProofs Proofs.NamesStackProofs Proofs.NamesListProofs.
Import ListNotations.

(* ================================================================== 1. the splitter's reading of braces *)
Lemma bscan_app a : forall pb d b,
  bscan pb d (a ++ b) = match bscan pb d a with Some (pb', d') => bscan pb' d' b | None => None end.
Proof.
  induction a as [|c a IH]; intros pb d b; cbn [app bscan]; [reflexivity|].
  destruct (negb pb && (c =? c_lb)%N); [apply IH|].
  destruct (negb pb && (c =? c_rb)%N); [destruct d; [reflexivity | apply IH] | apply IH].
Qed.

Lemma bscan_shift s : forall pb d pb' d' e, bscan pb d s = Some (pb', d') -> bscan pb (d + e) s = Some (pb', d' + e).
Proof.
  induction s as [|c s IH]; intros pb d pb' d' e H; cbn [bscan] in *.
  - inversion H; subst. reflexivity.
  - destruct (negb pb && (c =? c_lb)%N); [exact (IH false (S d) _ _ e H)|].
    destruct (negb pb && (c =? c_rb)%N); [|exact (IH _ _ _ _ e H)].
    destruct d as [|d0]; [discriminate|]. cbn [Nat.add]. exact (IH _ _ _ _ e H).
Qed.

Lemma bscan_ends s : forall pb d pb' d', bscan pb d s = Some (pb', d') -> pb' = Grammar.ends_bs pb s.
Proof.
  induction s as [|c s IH]; intros pb d pb' d' H; cbn [bscan Grammar.ends_bs] in *.
  - inversion H; reflexivity.
  - destruct (negb pb && (c =? c_lb)%N) eqn:E1.
    + apply andb_true_iff in E1 as [_ E1]. apply N.eqb_eq in E1. subst c. exact (IH _ _ _ _ H).
    + destruct (negb pb && (c =? c_rb)%N) eqn:E2; [|exact (IH _ _ _ _ H)].
      apply andb_true_iff in E2 as [_ E2]. apply N.eqb_eq in E2. subst c.
      destruct d as [|d0]; [discriminate|]. exact (IH _ _ _ _ H).
Qed.

(* balanced when read from a position that does not follow a backslash *)
Definition bal (s : str) : Prop := forall d, exists pb', bscan false d s = Some (pb', d).

Lemma word_brace_ok_bal w : word_brace_ok w = true -> bal w.
Proof.
  unfold word_brace_ok. intros H d. destruct (bscan false 0 w) as [[pb' [|n]]|] eqn:E; try discriminate.
  exists pb'. exact (bscan_shift w false 0 pb' 0 d E).
Qed.

Lemma bal_word_brace_ok w : bal w -> word_brace_ok w = true.
Proof. intros H. destruct (H 0) as (pb' & E). unfold word_brace_ok. rewrite E. reflexivity. Qed.

Lemma bal_nil : bal [].
Proof. intros d. exists false. reflexivity. Qed.

(* separators: no brace, no backslash *)
Definition plain (s : str) : bool :=
  forallb (fun c => negb (c =? c_lb)%N && negb (c =? c_rb)%N && negb (c =? c_bs)%N) s.

Lemma bscan_plain s : plain s = true -> s <> [] -> forall pb d, bscan pb d s = Some (false, d).
Proof.
  induction s as [|c s IH]; intros P Hne pb d; [contradiction|].
  cbn [plain forallb] in P. apply andb_true_iff in P as [Pc P]. apply andb_true_iff in Pc as [Pc P3].
  apply andb_true_iff in Pc as [P1 P2]. apply negb_true_iff in P1, P2, P3.
  cbn [bscan]. rewrite P1, P2, P3, !andb_false_r.
  destruct s as [|c2 s]; [reflexivity|]. apply IH; [exact P | discriminate].
Qed.

Lemma bal_app_sep a sep b : bal a -> plain sep = true -> sep <> [] -> bal b -> bal (a ++ sep ++ b).
Proof.
  intros Ha P Hne Hb d. destruct (Ha d) as (p1 & E1). destruct (Hb d) as (p2 & E2).
  exists p2. rewrite bscan_app, E1, bscan_app, (bscan_plain sep P Hne). exact E2.
Qed.

Lemma bal_snoc_bs a : bal a -> bal (a ++ [c_bs]).
Proof. intros Ha d. destruct (Ha d) as (p1 & E1). exists true. rewrite bscan_app, E1. destruct p1; reflexivity. Qed.

Lemma bal_join sep l : plain sep = true -> sep <> [] -> Forall bal l -> bal (join sep l).
Proof.
  intros P Hne F. induction F as [|x l Hx F IH]; [exact bal_nil|].
  destruct l as [|y r]; [exact Hx|].
  change (join sep (x :: y :: r)) with (x ++ sep ++ join sep (y :: r)). apply bal_app_sep; assumption.
Qed.

Lemma Forall_map_filter {A B} (P : B -> Prop) (f : A -> B) (g : A -> bool) l :
  Forall (fun x => P (f x)) l -> Forall P (map f (filter g l)).
Proof.
  induction 1 as [|x l Hx F IH]; [constructor|]. cbn [filter]. destruct (g x); [constructor; assumption | exact IH].
Qed.

Lemma bal_join_opt l : Forall bal l -> bal (opt_str (join_opt l)).
Proof.
  intros F. destruct l as [|x r]; [exact bal_nil|]. cbn [join_opt opt_str].
  apply bal_join; [reflexivity | discriminate | exact F].
Qed.

Lemma bal_escape s : bal s -> bal (escape_last_slash s).
Proof. intros H. unfold escape_last_slash. destruct (Nat.even _); [exact H | apply bal_snoc_bs; exact H]. Qed.

(* MergeNameParts("last") keeps the words balanced for the splitter: it only adds spaces, ", " and, after an odd run
   of backslashes, one more backslash *)
Lemma bal_merge1 p : Forall bal (all_words p) -> bal (merge1 p).
Proof.
  unfold all_words. intros F. apply Forall_app in F as [F1 F]. apply Forall_app in F as [F2 F]. apply Forall_app in F as [F3 F4].
  unfold merge1, merge_last_first.
  apply bal_join; [reflexivity | discriminate|].
  apply (Forall_map_filter bal (fun o => escape_last_slash (opt_str o)) truthy_opt).
  repeat constructor; cbn [opt_str]; apply bal_escape; try (apply bal_join_opt; assumption).
  apply bal_join; [reflexivity | discriminate|].
  apply (Forall_map_filter bal opt_str truthy_opt).
  repeat constructor; apply bal_join_opt; assumption.
Qed.

Lemma bal_merge_names l : Forall bal l -> bal (merge_names l).
Proof. intros F. unfold merge_names. apply bal_join; [reflexivity | discriminate | exact F]. Qed.

(* DERIVED: if every word of every person is balanced in the splitter's reading, so is the merged text; it is a
   brace content as soon as it does not end in a backslash *)
Theorem merged_brace_ok ps :
  Forall (fun p => Forall (fun w => word_brace_ok w = true) (all_words p)) ps ->
  Grammar.ends_bs false (merge_names (map merge1 ps)) = false ->
  brace_ok (merge_names (map merge1 ps)) = true.
Proof.
  intros F E.
  assert (B : bal (merge_names (map merge1 ps))).
  { apply bal_merge_names. apply Forall_map. eapply Forall_impl; [|exact F]. intros p Fp. apply bal_merge1.
    eapply Forall_impl; [|exact Fp]. intros w. apply word_brace_ok_bal. }
  destruct (B 0) as (pb' & Hb). pose proof (bscan_ends _ _ _ _ _ Hb) as Ep. rewrite E in Ep. subst pb'.
  unfold brace_ok. rewrite Hb. reflexivity.
Qed.

(* a text the splitter reads as balanced and that does not end in a backslash is the render of a well-formed
   brace content of the grammar *)
Fixpoint closes (rest : list braced) : str :=
  match rest with [] => [] | x :: r => c_rb :: render_braced x ++ closes r end.

Lemma delim_inactive pb c : negb pb && (c =? c_lb)%N = false -> negb pb && (c =? c_rb)%N = false ->
  match delim pb c with Some MLB | Some MRB => false | _ => true end = true.
Proof.
  intros H1 H2. unfold delim. destruct (c =? c_nl)%N; [reflexivity|]. destruct pb; [reflexivity|].
  cbn [negb andb] in H1, H2. rewrite H1, H2.
  destruct (c =? c_quote)%N; [reflexivity|]. destruct (c =? c_comma)%N; [reflexivity|]. destruct (c =? c_eq)%N; reflexivity.
Qed.

Lemma bscan_ast s : forall pb d, bscan pb d s = Some (false, 0) ->
  exists b rest, length rest = d /\ wf_braced pb b = true /\ Forall (fun x => wf_braced false x = true) rest
                 /\ s = render_braced b ++ closes rest.
Proof.
  induction s as [|c s IH]; intros pb d H; cbn [bscan] in H.
  - inversion H; subst. exists BNil, []. repeat split. constructor.
  - destruct (negb pb && (c =? c_lb)%N) eqn:E1.
    + apply andb_true_iff in E1 as [Ep E1]. apply N.eqb_eq in E1. subst c. apply negb_true_iff in Ep. subst pb.
      destruct (IH _ _ H) as (b1 & rest1 & L & W1 & F & E). destruct rest1 as [|x rest']; [discriminate|].
      inversion F as [|? ? Wx F']; subst. exists (BGroup b1 x), rest'. split; [cbn in L; lia|].
      split; [cbn [wf_braced negb andb]; rewrite W1, Wx; reflexivity|]. split; [exact F'|].
      cbn [render_braced closes app]. rewrite <- app_assoc. reflexivity.
    + destruct (negb pb && (c =? c_rb)%N) eqn:E2.
      * apply andb_true_iff in E2 as [Ep E2]. apply N.eqb_eq in E2. subst c. apply negb_true_iff in Ep. subst pb.
        destruct d as [|d0]; [discriminate|].
        destruct (IH _ _ H) as (b1 & rest1 & L & W1 & F & E). exists BNil, (b1 :: rest1).
        split; [cbn; lia|]. split; [reflexivity|]. split; [constructor; assumption|].
        cbn [render_braced closes app]. rewrite E. reflexivity.
      * destruct (IH _ _ H) as (b1 & rest1 & L & W1 & F & E). exists (BChar c b1), rest1.
        split; [exact L|]. split; [cbn [wf_braced]; rewrite (delim_inactive pb c E1 E2), W1; reflexivity|].
        split; [exact F|]. cbn [render_braced app]. rewrite E. reflexivity.
Qed.

Theorem brace_ok_ast s : brace_ok s = true -> exists b, render_braced b = s /\ wf_braced false b = true.
Proof.
  unfold brace_ok. intros H. destruct (bscan false 0 s) as [[[|] [|n]]|] eqn:E; try discriminate.
  destruct (bscan_ast s false 0 E) as (b & rest & L & W & _ & Es). destruct rest; [|discriminate].
  cbn [closes] in Es. rewrite app_nil_r in Es. exists b. split; [symmetry; exact Es | exact W].
Qed.

(* ... and conversely *)
Lemma bscan_render b : forall pb d k, wf_braced pb b = true ->
  bscan pb d (render_braced b ++ k) = bscan false d k.
Proof.
  induction b as [|c b IH|g IHg b IH]; intros pb d k W; cbn [wf_braced render_braced app] in *.
  - apply negb_true_iff in W. subst pb. reflexivity.
  - apply andb_true_iff in W as [W1 W2]. cbn [bscan].
    assert (A : negb pb && (c =? c_lb)%N = false /\ negb pb && (c =? c_rb)%N = false).
    { unfold delim in W1. destruct pb; [split; reflexivity|]. cbn [negb andb].
      destruct (c =? c_nl)%N eqn:En; [apply N.eqb_eq in En; subst c; split; reflexivity|].
      destruct (c =? c_lb)%N; [discriminate|]. destruct (c =? c_rb)%N; [discriminate|]. split; reflexivity. }
    destruct A as [A1 A2]. rewrite A1, A2. apply IH. exact W2.
  - apply andb_true_iff in W as [W W3]. apply andb_true_iff in W as [W1 W2]. apply negb_true_iff in W1. subst pb.
    cbn [bscan negb andb]. rewrite N.eqb_refl. rewrite <- app_assoc. rewrite IHg by exact W2.
    cbn [app bscan negb andb]. change (c_rb =? c_lb)%N with false. rewrite N.eqb_refl. apply IH. exact W3.
Qed.

Theorem render_brace_ok b : wf_braced false b = true -> brace_ok (render_braced b) = true.
Proof.
  intros W. unfold brace_ok. rewrite <- (app_nil_r (render_braced b)), (bscan_render b false 0 [] W). reflexivity.
Qed.

(* ================================================================== 2. the name middlewares on a library *)
(* g applied to the value of every name field of an entry *)
Definition nmap_fields (nf : list str) (g : value -> value) (fs : list field) : list field :=
  map (fun f => if mem_str (fkey f) nf then mkfield (fkey f) (g (fval f)) (fline f) else f) fs.
Definition nmap (nf : list str) (g : value -> value) (b : block) : block :=
  match b with BEntry h t k fs => BEntry h t k (nmap_fields nf g fs) | _ => b end.
(* the same on contents *)
Definition cmap (nf : list str) (g : value -> value) (c : bcontent) : bcontent :=
  match c with
  | KEntry t k fs => KEntry t k (map (fun kv => if mem_str (fst kv) nf then (fst kv, g (snd kv)) else kv) fs)
  | _ => c
  end.

Definition vid (v : value) : value := v.
Definition gsep (v : value) : value := match v with VStr s => VList (map VStr (split_names s)) | _ => v end.
Definition gp (v : value) : value := match v with VStr s => VList (map v_of_parts (parts_of s)) | _ => v end.
Definition gm (v : value) : value := match v with VStr s => VList (map VStr (map merge1 (parts_of s))) | _ => v end.
Definition gw (v : value) : value := match v with VStr s => VStr (remerge s) | _ => v end.

Lemma nmap_fields_id nf fs : nmap_fields nf vid fs = fs.
Proof.
  induction fs as [|f r IH]; [reflexivity|]. cbn [nmap_fields map]. fold (nmap_fields nf vid r). rewrite IH.
  destruct (mem_str (fkey f) nf); [destruct f|]; reflexivity.
Qed.
Lemma nmap_id nf b : nmap nf vid b = b.
Proof. destruct b; cbn [nmap]; try reflexivity. rewrite nmap_fields_id. reflexivity. Qed.
Lemma map_nmap_id nf bs : map (nmap nf vid) bs = bs.
Proof. induction bs as [|b r IH]; [reflexivity|]. cbn [map]. rewrite IH, nmap_id. reflexivity. Qed.

Lemma content1_nmap nf g b : content1 (nmap nf g b) = cmap nf g (content1 b).
Proof.
  destruct b; cbn [nmap content1 cmap]; try reflexivity. f_equal. unfold nmap_fields. rewrite !map_map.
  apply map_ext. intros f. cbn [fst snd]. destruct (mem_str (fkey f) nf); reflexivity.
Qed.
Lemma content_nmap nf g bs : content (map (nmap nf g) bs) = map (cmap nf g) (content bs).
Proof. unfold content. rewrite !map_map. apply map_ext. intros b. apply content1_nmap. Qed.

Lemma keys_nmap nf g bs : ekeys (map (nmap nf g) bs) = ekeys bs /\ skeys (map (nmap nf g) bs) = skeys bs.
Proof.
  induction bs as [|b r [I1 I2]]; [split; reflexivity|]. cbn [map ekeys skeys flat_map].
  fold (ekeys (map (nmap nf g) r)). fold (skeys (map (nmap nf g) r)). fold (ekeys r). fold (skeys r). rewrite I1, I2.
  destruct b; split; reflexivity.
Qed.
Lemma wf_nmap nf g bs : wf_blocks bs -> wf_blocks (map (nmap nf g) bs).
Proof. intros [W1 W2]. destruct (keys_nmap nf g bs) as [E1 E2]. unfold wf_blocks. rewrite E1, E2. split; assumption. Qed.
Lemma md_ok_nmap nf g bs : md_ok (map (nmap nf g) bs) = md_ok bs.
Proof.
  unfold md_ok. induction bs as [|b r IH]; [reflexivity|]. cbn [map forallb]. rewrite IH. destruct b; reflexivity.
Qed.

(* the condition "every name field of every entry satisfies Q", on blocks *)
Definition bsat (nf : list str) (Q : value -> Prop) (b : block) : Prop :=
  match b with BEntry _ _ _ fs => Forall (fun f => mem_str (fkey f) nf = true -> Q (fval f)) fs | _ => True end.

Lemma bsat_content nf P bs : Forall (name_fields_sat nf P) (content bs) ->
  Forall (bsat nf (fun v => exists s, v = VStr s /\ P s)) bs.
Proof.
  induction bs as [|b r IH]; intros F; [constructor|]. cbn [content map] in F. inversion F as [|? ? Hb Fr]; subst.
  constructor; [|apply IH; exact Fr]. destruct b; cbn [content1 name_fields_sat bsat] in *; try exact I.
  rewrite Forall_map in Hb. exact Hb.
Qed.

(* one middleware, relative to a base library: from g-values to g'-values *)
Lemma tf_nmap nf mw g g' fs :
  Forall (fun f => mem_str (fkey f) nf = true -> transform_value mw (g (fval f)) = VOk (g' (fval f))) fs ->
  transform_fields nf mw (nmap_fields nf g fs) = FOk (nmap_fields nf g' fs).
Proof.
  induction 1 as [|f r Hf F IH]; [reflexivity|].
  cbn [nmap_fields map]. fold (nmap_fields nf g r). fold (nmap_fields nf g' r).
  destruct (mem_str (fkey f) nf) eqn:Em.
  - cbn [transform_fields fkey fval fline]. rewrite Em, (Hf eq_refl), IH. reflexivity.
  - cbn [transform_fields]. rewrite Em, IH. reflexivity.
Qed.

Lemma map_res_map {T U} (f : T -> Enclosing.res U) (h : T -> U) l :
  Forall (fun x => f x = Enclosing.Val (h x)) l -> map_res f l = Enclosing.Val (map h l).
Proof. induction 1 as [|x r Hx F IH]; [reflexivity|]. cbn [map_res map]. rewrite Hx, IH. reflexivity. Qed.

Lemma name_mw_lib_nmap nf mw g g' bs : wf_blocks bs ->
  Forall (bsat nf (fun v => transform_value mw (g v) = VOk (g' v))) bs ->
  name_mw_lib nf mw (map (nmap nf g) bs) = Enclosing.Val (map (nmap nf g') bs).
Proof.
  intros W F. unfold name_mw_lib, block_mw.
  assert (E : map_res (fun b => nb_res (name_entry nf mw b)) (map (nmap nf g) bs)
              = Enclosing.Val (map (nmap nf g') bs)).
  { clear W. induction F as [|b r Hb F IH]; [reflexivity|]. cbn [map map_res]. rewrite IH.
    destruct b; cbn [nmap name_entry nb_res bsat] in *; try reflexivity.
    rewrite (tf_nmap nf mw g g' _ Hb). reflexivity. }
  rewrite E, (rebuild_id _ (wf_nmap nf g' bs W)). reflexivity.
Qed.

Lemma parts_of_ok s ps : persons_of s = map POk ps -> parts_of s = ps.
Proof.
  unfold parts_of. intros ->. rewrite map_map. induction ps as [|p r IH]; [reflexivity|]. cbn [map]. rewrite IH. reflexivity.
Qed.

Definition valid_names (s : str) : Prop := persons_of s = map POk (parts_of s).

(* SeparateCoAuthors ; SplitNameParts on a library whose name fields hold valid names *)
Lemma parse_side_lib nf bs : wf_blocks bs -> Forall (name_fields_sat nf valid_names) (content bs) ->
  names_lib nf parse_side bs = Enclosing.Val (map (nmap nf gp) bs).
Proof.
  intros W F. apply bsat_content in F. unfold names_lib, parse_side. cbn [fold_left].
  rewrite <- (map_nmap_id nf bs) at 1.
  rewrite (name_mw_lib_nmap nf MwSeparate vid gsep bs W).
  2:{ eapply Forall_impl; [|exact F]. intros b Hb. destruct b; cbn [bsat] in *; try exact I.
      eapply Forall_impl; [|exact Hb]. intros f Hf Em. destruct (Hf Em) as (s & -> & _). reflexivity. }
  apply (name_mw_lib_nmap nf MwSplitParts gsep gp bs W).
  eapply Forall_impl; [|exact F]. intros b Hb. destruct b; cbn [bsat] in *; try exact I.
  eapply Forall_impl; [|exact Hb]. intros f Hf Em. destruct (Hf Em) as (s & -> & Hv).
  cbn [gsep gp transform_value]. apply parse_all_ok. exact Hv.
Qed.

(* MergeNameParts("last") ; MergeCoAuthors on the result *)
Lemma write_side_lib nf bs : wf_blocks bs -> Forall (name_fields_sat nf (fun _ => True)) (content bs) ->
  names_lib nf write_side (map (nmap nf gp) bs) = Enclosing.Val (map (nmap nf gw) bs).
Proof.
  intros W F. apply bsat_content in F. unfold names_lib, write_side. cbn [fold_left].
  rewrite (name_mw_lib_nmap nf (MwMergeParts 0) gp gm bs W).
  2:{ eapply Forall_impl; [|exact F]. intros b Hb. destruct b; cbn [bsat] in *; try exact I.
      eapply Forall_impl; [|exact Hb]. intros f Hf Em. destruct (Hf Em) as (s & -> & _).
      cbn [gp gm transform_value]. destruct (merge_all_parts (parts_of s)) as [M1 M2].
      change (2 <=? 0)%N with false. cbv iota. rewrite M1. exact M2. }
  apply (name_mw_lib_nmap nf MwMergeCo gm gw bs W).
  eapply Forall_impl; [|exact F]. intros b Hb. destruct b; cbn [bsat] in *; try exact I.
  eapply Forall_impl; [|exact Hb]. intros f Hf Em. destruct (Hf Em) as (s & -> & _).
  cbn [gm gw transform_value]. rewrite all_strs_map. reflexivity.
Qed.

Lemma sat_impl nf (P Q : str -> Prop) cs : (forall s, P s -> Q s) ->
  Forall (name_fields_sat nf P) cs -> Forall (name_fields_sat nf Q) cs.
Proof.
  intros HPQ F. eapply Forall_impl; [|exact F]. intros c Hc. destruct c; cbn [name_fields_sat] in *; try exact I.
  eapply Forall_impl; [|exact Hc]. intros kv H Em. destruct (H Em) as (s & E & Hs). exists s. split; [exact E | apply HPQ, Hs].
Qed.

(* the names C14 speaks about (valid, admissible, outside K3), as a predicate of the text *)
Definition in_scope (s : str) : Prop :=
  valid_names s /\ Forall admissible (parts_of s) /\ known_C14_K3_b (parts_of s) = false.

Lemma in_scope_inverse s : in_scope s -> persons_of (remerge s) = map POk (parts_of s).
Proof. intros (V & A & K). exact (list_inverse_except_known s (parts_of s) V A K). Qed.

Lemma in_scope_remerge s : in_scope s -> valid_names (remerge s) /\ parts_of (remerge s) = parts_of s.
Proof.
  intros H. pose proof (in_scope_inverse s H) as E. pose proof (parts_of_ok _ _ E) as Ep.
  split; [unfold valid_names; rewrite Ep; exact E | exact Ep].
Qed.

(* splitting the merged text gives the structured value again *)
Lemma cmap_gp_gw nf c : name_fields_sat nf in_scope c -> cmap nf gp (cmap nf gw c) = cmap nf gp c.
Proof.
  destruct c as [t k fs| | | | |]; cbn [name_fields_sat cmap]; try reflexivity.
  intros F. f_equal. rewrite map_map. induction F as [|kv r Hkv F IH]; [reflexivity|]. cbn [map]. rewrite IH. f_equal.
  destruct (mem_str (fst kv) nf) eqn:Em; cbn [fst snd]; rewrite Em; [|reflexivity].
  destruct (Hkv eq_refl) as (s & -> & Hs). cbn [gw gp]. rewrite (proj2 (in_scope_remerge s Hs)). reflexivity.
Qed.

Lemma sat_gw nf c : name_fields_sat nf in_scope c -> name_fields_sat nf valid_names (cmap nf gw c).
Proof.
  destruct c as [t k fs| | | | |]; cbn [name_fields_sat cmap]; try (intros; exact I).
  intros F. apply Forall_map. eapply Forall_impl; [|exact F]. intros kv Hkv.
  destruct (mem_str (fst kv) nf) eqn:Em; cbn [fst snd]; rewrite Em; [|discriminate].
  intros _. destruct (Hkv Em) as (s & -> & Hs). exists (remerge s). split; [reflexivity | exact (proj1 (in_scope_remerge s Hs))].
Qed.

(* ================================================================== 3. the loop *)
(* CORE: l0 is any library (unique keys, sane enclosing metadata) whose name fields hold names in scope; if the library
   after the write-side middlewares is clean (every text a brace content without block-start pattern: cs'), then the
   write succeeds, its output parses, and the parse side yields the structured library again *)
Theorem stack_core nf f l0 cs' : wf_fmt f -> wf_blocks l0 -> md_ok l0 = true ->
  Forall (name_fields_sat nf in_scope) (content l0) ->
  content (map (nmap nf gw) l0) = ccontent cs' -> wf_cs false cs' ->
  let l1 := map (nmap nf gp) l0 in
  names_lib nf parse_side l0 = Enclosing.Val l1 /\
  write_names nf f l1 = PVal (render (ast_fmt f cs')) /\
  exists l2, parse_names nf (render (ast_fmt f cs')) = PVal l2 /\ content l2 = content l1.
Proof.
  intros Hf W Hm Hs Ec Wcs l1.
  assert (Hv : Forall (name_fields_sat nf valid_names) (content l0)) by (apply (sat_impl nf in_scope); [intros s H; apply H | exact Hs]).
  split; [exact (parse_side_lib nf l0 W Hv)|].
  set (lm := map (nmap nf gw) l0) in *.
  assert (Wm : wf_blocks lm) by (apply wf_nmap; exact W).
  assert (Mm : md_ok lm = true) by (unfold lm; rewrite md_ok_nmap; exact Hm).
  destruct (clean_written f cs' lm Hf Wcs Ec Wm Mm) as (Hw & Wd & Nd).
  assert (Ews : names_lib nf write_side l1 = Enclosing.Val lm).
  { apply write_side_lib; [exact W|]. apply (sat_impl nf in_scope); [intros; exact I | exact Hs]. }
  split; [unfold write_names; rewrite Ews; exact Hw|].
  destruct (parse_render_total _ Wd Nd) as (l2' & P2).
  destruct (clean_roundtrip f cs' lm _ l2' Hf Wcs Ec Wm Mm Hw P2) as (_ & _ & C2 & _).
  destruct (parse_default_props _ _ P2) as [W2 M2].
  assert (Hv2 : Forall (name_fields_sat nf valid_names) (content l2')).
  { rewrite C2. unfold lm. rewrite content_nmap. apply Forall_map. eapply Forall_impl; [|exact Hs]. intros c. apply sat_gw. }
  exists (map (nmap nf gp) l2'). split.
  - unfold parse_names. rewrite P2, (parse_side_lib nf l2' W2 Hv2). reflexivity.
  - unfold l1. rewrite !content_nmap, C2. unfold lm. rewrite content_nmap, map_map.
    clear - Hs. induction Hs as [|c r Hc Hs IH]; [reflexivity|]. cbn [map]. rewrite IH, (cmap_gp_gw nf c Hc). reflexivity.
Qed.

(* ================================================================== 4. when the merged library is clean *)
Lemma writable_cb s : writable s -> exists b, render_braced b = s /\ wf_cb b.
Proof.
  intros [B N]. destruct (brace_ok_ast s B) as (b & E & W). exists b. split; [exact E|]. split; [exact W|].
  rewrite E. exact (nat_ok_intro s [c_rb] N).
Qed.

Lemma name_value_ok_scope s : name_value_ok s -> in_scope s /\ writable (remerge s).
Proof. intros (V & A & K & Wr). split; [split; [exact V | split; [exact A | exact K]] | exact Wr]. Qed.

Definition cpair (p : str * braced) : str * value := (fst p, cval (snd p)).

(* a clean library stays clean when the name fields are replaced by writable merged texts *)
Lemma clean_fields_merge nf fs : Forall wf_cfield fs ->
  Forall (fun kv => mem_str (fst kv) nf = true -> exists s, snd kv = VStr s /\ writable (remerge s)) (map cpair fs) ->
  exists fs', map (fun kv => if mem_str (fst kv) nf then (fst kv, gw (snd kv)) else kv) (map cpair fs) = map cpair fs'
              /\ Forall wf_cfield fs' /\ map fst fs' = map fst fs.
Proof.
  induction 1 as [|p r Hp F IH]; intros S; [exists []; repeat split; constructor|].
  cbn [map] in S. inversion S as [|? ? Sp Sr]; subst. destruct (IH Sr) as (r' & E & Fr' & Ek).
  destruct p as [n b]. cbn [cpair fst snd] in Sp. cbn [map cpair fst snd].
  destruct (mem_str n nf) eqn:Em.
  - destruct (Sp eq_refl) as (s & Es & Wr). unfold cval in Es. injection Es as <-.
    destruct (writable_cb _ Wr) as (b' & Eb & Wb). exists ((n, b') :: r').
    destruct Hp as (N1 & N2 & _). split; [|split].
    + cbn [map cpair fst snd]. fold cpair. rewrite E. unfold cpair at 2, cval. cbn [gw fst snd]. rewrite Eb. reflexivity.
    + constructor; [|exact Fr']. split; [exact N1|]. split; [exact N2 | exact Wb].
    + cbn [map fst]. rewrite Ek. reflexivity.
  - exists ((n, b) :: r'). split; [|split].
    + cbn [map cpair fst snd]. fold cpair. rewrite E. reflexivity.
    + constructor; assumption.
    + cbn [map fst]. rewrite Ek. reflexivity.
Qed.

Lemma clean_after_merge nf cs : forall prev, wf_cs prev cs ->
  Forall (name_fields_sat nf (fun s => writable (remerge s))) (ccontent cs) ->
  exists cs', map (cmap nf gw) (ccontent cs) = ccontent cs' /\ wf_cs prev cs'.
Proof.
  induction cs as [|c r IH]; intros prev W F; [exists []; split; [reflexivity | exact I]|].
  destruct W as (Wc & Hfree & Wr). cbn [ccontent map] in F. fold (ccontent r) in F. inversion F as [|? ? Fc Fr]; subst.
  destruct (IH _ Wr Fr) as (r' & E & Wr').
  destruct c as [t k fs|n b|b|b|t].
  - destruct Wc as (T & K1 & K2 & K3 & Ff & Fresh). cbn [cc1 name_fields_sat] in Fc.
    change (map (fun p : str * braced => (fst p, cval (snd p))) fs) with (map cpair fs) in Fc.
    destruct (clean_fields_merge nf fs Ff Fc) as (fs' & Efs & Ffs' & Ek).
    exists (CEntry t k fs' :: r'). split.
    + cbn [ccontent map cc1 cmap]. fold (ccontent r). fold (ccontent r'). rewrite E.
      change (map (fun p : str * braced => (fst p, cval (snd p))) fs) with (map cpair fs). rewrite Efs. reflexivity.
    + cbn [wf_cs cfree] in *. split; [|split; [exact Hfree | exact Wr']].
      cbn [wf_citem]. rewrite Ek. split; [exact T|]. repeat split; assumption.
  - exists (CString n b :: r'). split; [cbn [ccontent map cc1 cmap]; fold (ccontent r); fold (ccontent r'); rewrite E; reflexivity|].
    cbn [wf_cs cfree] in *. split; [exact Wc | split; [exact Hfree | exact Wr']].
  - exists (CPre b :: r'). split; [cbn [ccontent map cc1 cmap]; fold (ccontent r); fold (ccontent r'); rewrite E; reflexivity|].
    cbn [wf_cs cfree] in *. split; [exact Wc | split; [exact Hfree | exact Wr']].
  - exists (CExpl b :: r'). split; [cbn [ccontent map cc1 cmap]; fold (ccontent r); fold (ccontent r'); rewrite E; reflexivity|].
    cbn [wf_cs cfree] in *. split; [exact Wc | split; [exact Hfree | exact Wr']].
  - exists (CFree t :: r'). split; [cbn [ccontent map cc1 cmap]; fold (ccontent r); fold (ccontent r'); rewrite E; reflexivity|].
    cbn [wf_cs cfree] in *. split; [exact Wc | split; [exact Hfree | exact Wr']].
Qed.

(* LIBRARY: a clean library (the kind every parse of a dialect document outside K7 produces) whose name fields are in
   scope and merge to writable text *)
Theorem stack_clean_roundtrip nf f cs l0 : wf_fmt f -> wf_cs false cs -> content l0 = ccontent cs ->
  wf_blocks l0 -> md_ok l0 = true -> Forall (name_fields_ok nf) (content l0) ->
  exists l1 t1 l2, names_lib nf parse_side l0 = Enclosing.Val l1 /\ write_names nf f l1 = PVal t1
                   /\ parse_names nf t1 = PVal l2 /\ content l2 = content l1.
Proof.
  intros Hf Wcs E W Hm Hs.
  assert (Hsc : Forall (name_fields_sat nf in_scope) (content l0)).
  { apply (sat_impl nf name_value_ok); [intros s H; apply (name_value_ok_scope s H) | exact Hs]. }
  assert (Hwr : Forall (name_fields_sat nf (fun s => writable (remerge s))) (ccontent cs)).
  { rewrite <- E. apply (sat_impl nf name_value_ok); [intros s H; apply (name_value_ok_scope s H) | exact Hs]. }
  destruct (clean_after_merge nf cs false Wcs Hwr) as (cs' & Ec & Wcs').
  assert (Ec' : content (map (nmap nf gw) l0) = ccontent cs') by (rewrite content_nmap, E; exact Ec).
  destruct (stack_core nf f l0 cs' Hf W Hm Hsc Ec' Wcs') as (P1 & Hw & l2 & P2 & C2).
  exists (map (nmap nf gp) l0), (Grammar.render (ast_fmt f cs')), l2. repeat split; assumption.
Qed.

(* DOCUMENT: the sentence of the property *)
Theorem stack_doc_roundtrip nf d f l0 : wf_doc d -> nodup_doc d -> wf_fmt f ->
  parse_default (Grammar.render d) = PVal l0 -> known_K7 l0 = false -> Forall (name_fields_ok nf) (content l0) ->
  exists l1 t1 l2, parse_names nf (Grammar.render d) = PVal l1 /\ write_names nf f l1 = PVal t1
                   /\ parse_names nf t1 = PVal l2 /\ content l2 = content l1.
Proof.
  intros Wd Nd Hf P1 K Hs.
  pose proof (parse_render_content d l0 Wd Nd P1) as C1.
  rewrite known_K7_c, C1 in K. destruct (first_parse_clean d Wd Nd K) as (cs & Wcs & Ecs).
  destruct (parse_default_props _ _ P1) as [Wb Hm].
  assert (E : content l0 = ccontent cs) by congruence.
  destruct (stack_clean_roundtrip nf f cs l0 Hf Wcs E Wb Hm Hs) as (l1 & t1 & l2 & A & B & C & D).
  exists l1, t1, l2. split; [unfold parse_names; rewrite P1, A; reflexivity|]. repeat split; assumption.
Qed.

(* ================================================================== 5. one entry, one field *)
Lemma no_at_nat_ok s : no_at s = true -> nat_ok s.
Proof. intros H. apply (nat_ok_intro s []). apply noat_plain. exact H. Qed.

Lemma entry_frame_clean t k : entry_frame_ok t k = true ->
  typ_clean t /\ name_ok k = true /\ Grammar.ends_bs false k = false /\ nat_ok k.
Proof.
  unfold entry_frame_ok. intros H.
  repeat match goal with H : _ && _ = true |- _ => apply andb_true_iff in H; destruct H end.
  split; [|split; [assumption|split; [apply negb_true_iff; assumption | apply no_at_nat_ok; assumption]]].
  unfold typ_clean. split; [assumption|]. split; [apply str_eqb_eq; assumption|].
  repeat match goal with H : ?x = true |- context [?x] => rewrite H end. reflexivity.
Qed.

Lemma clean_entry_fields nf fs : Forall (entry_field_ok nf) fs ->
  exists cfs, map fpair (nmap_fields nf gw fs) = map cpair cfs /\ Forall wf_cfield cfs /\ map fst cfs = map fkey fs.
Proof.
  induction 1 as [|f r Hf F IH]; [exists []; repeat split; constructor|].
  destruct IH as (r' & E & Fr' & Ek). destruct Hf as (Kf & s & Es & Hs).
  unfold field_key_ok in Kf. apply andb_true_iff in Kf as [K1 K2]. apply no_at_nat_ok in K2.
  cbn [nmap_fields map]. fold (nmap_fields nf gw r). destruct (mem_str (fkey f) nf) eqn:Em.
  - destruct (name_value_ok_scope s Hs) as [_ Wr]. destruct (writable_cb _ Wr) as (b' & Eb & Wb).
    exists ((fkey f, b') :: r'). split; [|split].
    + cbn [map]. rewrite E. f_equal. unfold fpair, cpair, cval. cbn [fkey fval fst snd]. rewrite Es. cbn [gw]. rewrite Eb. reflexivity.
    + constructor; [|exact Fr']. split; [exact K1|]. split; [exact K2 | exact Wb].
    + cbn [map fst]. rewrite Ek. reflexivity.
  - destruct (writable_cb _ Hs) as (b & Eb & Wb). exists ((fkey f, b) :: r'). split; [|split].
    + cbn [map]. rewrite E. f_equal. unfold fpair, cpair, cval. cbn [fst snd]. rewrite Es, Eb. reflexivity.
    + constructor; [|exact Fr']. split; [exact K1|]. split; [exact K2 | exact Wb].
    + cbn [map fst]. rewrite Ek. reflexivity.
Qed.

Lemma content_single_entry l t k X : content l = [KEntry t k X] ->
  exists h fs, l = [BEntry h t k fs] /\ map fpair fs = X.
Proof.
  destruct l as [|b [|b2 r]]; try discriminate. cbn [content map]. intros H. injection H as H.
  destruct b; try discriminate. cbn [content1] in H. injection H as -> -> <-. eexists _, _. split; reflexivity.
Qed.

(* ENTRY: one entry with any number of fields; only the merged texts (and the texts of the other fields) have to be
   writable, the original name texts need not be *)
Theorem stack_entry_roundtrip_nmap nf f h t k fs : wf_fmt f -> entry_frame_ok t k = true ->
  fresh_all [] (map fkey fs) = true -> md_ok [BEntry h t k fs] = true -> Forall (entry_field_ok nf) fs ->
  let fs1 := nmap_fields nf gp fs in
  names_lib nf parse_side [BEntry h t k fs] = Enclosing.Val [BEntry h t k fs1] /\
  exists t1 h' fs2, write_names nf f [BEntry h t k fs1] = PVal t1
                    /\ parse_names nf t1 = PVal [BEntry h' t k fs2] /\ map fpair fs2 = map fpair fs1.
Proof.
  intros Hf Hfr Fresh Hm Hfs fs1.
  destruct (entry_frame_clean t k Hfr) as (T & K1 & K2 & K3).
  destruct (clean_entry_fields nf fs Hfs) as (cfs & Ec & Fc & Ek).
  assert (W : wf_blocks [BEntry h t k fs]).
  { split; cbn; [constructor; [intros []|constructor] | constructor]. }
  assert (Hsc : Forall (name_fields_sat nf in_scope) (content [BEntry h t k fs])).
  { constructor; [|constructor]. cbn [content1 name_fields_sat]. apply Forall_map.
    eapply Forall_impl; [|exact Hfs]. intros x (_ & s & Es & Hs) Em. cbn [fst snd] in *. rewrite Em in Hs.
    exists s. split; [exact Es | exact (proj1 (name_value_ok_scope s Hs))]. }
  assert (Ec' : content (map (nmap nf gw) [BEntry h t k fs]) = ccontent [CEntry t k cfs]).
  { cbn [map nmap content content1 ccontent cc1]. f_equal. f_equal. exact Ec. }
  assert (Wcs : wf_cs false [CEntry t k cfs]).
  { cbn [wf_cs cfree andb]. split; [|split; [reflexivity | exact I]]. cbn [wf_citem]. rewrite Ek. split; [exact T|]. repeat split; assumption. }
  destruct (stack_core nf f _ _ Hf W Hm Hsc Ec' Wcs) as (P1 & Hw & l2 & P2 & C2).
  split; [exact P1|]. cbn [map nmap] in Hw, C2. fold fs1 in Hw, C2.
  cbn [content map content1] in C2. destruct (content_single_entry _ _ _ _ C2) as (h' & fs2 & -> & E2).
  exists (Grammar.render (ast_fmt f [CEntry t k cfs])), h', fs2. repeat split; assumption.
Qed.

(* FIELD: one name field of one entry, with the persons given *)
Theorem stack_field_roundtrip nf f h t k name fl v ps :
  wf_fmt f -> entry_frame_ok t k = true -> field_key_ok name = true -> mem_str name nf = true ->
  md_ok [BEntry h t k [mkfield name (VStr v) fl]] = true ->
  persons_of v = map POk ps -> Forall admissible ps -> known_C14_K3_b ps = false ->
  writable (merge_names (map merge1 ps)) ->
  let structured := VList (map v_of_parts ps) in
  names_lib nf parse_side [BEntry h t k [mkfield name (VStr v) fl]] = Enclosing.Val [BEntry h t k [mkfield name structured fl]] /\
  exists t1 h' fl', write_names nf f [BEntry h t k [mkfield name structured fl]] = PVal t1
                    /\ parse_names nf t1 = PVal [BEntry h' t k [mkfield name structured fl']].
Proof.
  intros Hf Hfr Hk Hmem Hm Hv Ha Hk3 Hwr structured.
  pose proof (parts_of_ok v ps Hv) as Ep.
  assert (Hfs : Forall (entry_field_ok nf) [mkfield name (VStr v) fl]).
  { constructor; [|constructor]. split; [exact Hk|]. exists v. split; [reflexivity|]. cbn [fkey]. rewrite Hmem.
    unfold name_value_ok, remerge. rewrite Ep. repeat split; try assumption; apply Hwr. }
  assert (Fresh : fresh_all [] (map fkey [mkfield name (VStr v) fl]) = true) by reflexivity.
  destruct (stack_entry_roundtrip_nmap nf f h t k _ Hf Hfr Fresh Hm Hfs) as (P1 & t1 & h' & fs2 & Hw & P2 & E2).
  cbn [nmap_fields map fkey fval fline gp] in P1, Hw, E2. rewrite Hmem, Ep in P1, Hw, E2. fold structured in P1, Hw, E2.
  split; [exact P1|]. destruct fs2 as [|f2 [|f3 r]]; try discriminate. destruct f2 as [k2 v2 l2].
  cbn [map fpair fkey fval] in E2. injection E2 as -> ->. exists t1, h', l2. split; assumption.
Qed.

Theorem stack_entry_roundtrip nf f h t k fs : wf_fmt f -> entry_frame_ok t k = true ->
  fresh_all [] (map fkey fs) = true -> md_ok [BEntry h t k fs] = true -> Forall (entry_field_ok nf) fs ->
  exists fs1 t1 h' fs2,
    names_lib nf parse_side [BEntry h t k fs] = Enclosing.Val [BEntry h t k fs1]
    /\ write_names nf f [BEntry h t k fs1] = PVal t1
    /\ parse_names nf t1 = PVal [BEntry h' t k fs2]
    /\ map (fun x => (fkey x, fval x)) fs2 = map (fun x => (fkey x, fval x)) fs1.
Proof.
  intros Hf Hfr Fresh Hm Hfs.
  destruct (stack_entry_roundtrip_nmap nf f h t k fs Hf Hfr Fresh Hm Hfs) as (P1 & t1 & h' & fs2 & Hw & P2 & E2).
  exists (nmap_fields nf gp fs), t1, h', fs2. repeat split; assumption.
Qed.

Theorem brace_ok_iff s : brace_ok s = true <-> exists b, render_braced b = s /\ wf_braced false b = true.
Proof. split; [apply brace_ok_ast | intros (b & <- & W); apply render_brace_ok; exact W]. Qed.

(* ================================================================== 6. the balance hypothesis cannot be dropped *)
(* names.py reads "\\" as an escape pair, after which a brace is a real brace; the splitter's look-behind reads a
   brace after ANY backslash as escaped.  The words  {\\}  and  \\{}  are balanced for names.py and unbalanced for the
   splitter (+1 and -1); "{\\} \\{}" is a fine field value holding one valid person (First = {\\}, Last = \\{});
   MergeNameParts writes it last-name-first, "\\{}, {\\}", whose first '}' closes the field for the splitter. *)
From Coq Require Import String.
Definition bs2_text : str := lit "@article{k, author = {{\\} \\{}}}"%string.
Definition bs2_value : str := lit "{\\} \\{}"%string.
Definition bs2_ps : list parts := [mkparts [lit "{\\}"%string] [] [lit "\\{}"%string] []].

Theorem stack_roundtrip_refuted :
  exists l1 t1 l2,
    parse_names default_name_fields bs2_text = PVal l1
    /\ content l1 = [KEntry (lit "article"%string) (lit "k"%string) [(lit "author"%string, VList (map v_of_parts bs2_ps))]]
    /\ persons_of bs2_value = map POk bs2_ps /\ forallb admissible_b bs2_ps = true /\ known_C14_K3_b bs2_ps = false
    /\ brace_ok bs2_value = true /\ noat bs2_value [c_rb] = true
    /\ forallb word_brace_ok (flat_map all_words bs2_ps) = false
    /\ merge_names (map merge1 bs2_ps) = lit "\\{}, {\\}"%string
    /\ brace_ok (merge_names (map merge1 bs2_ps)) = false
    /\ write_names default_name_fields default_fmt l1 = PVal t1
    /\ t1 = lit "@article{k,
	author = {\\{}, {\\}}
}
"%string
    /\ parse_names default_name_fields t1 = PVal l2
    /\ map class_of l2 = [CFailed; CImpl].
Proof.
  destruct (parse_names default_name_fields bs2_text) as [l1| |] eqn:P1; try (vm_compute in P1; discriminate).
  destruct (write_names default_name_fields default_fmt l1) as [t1| |] eqn:Hw;
    try (vm_compute in P1; inversion P1; subst l1; vm_compute in Hw; discriminate).
  destruct (parse_names default_name_fields t1) as [l2| |] eqn:P2;
    try (vm_compute in P1; inversion P1; subst l1; vm_compute in Hw; inversion Hw; subst t1; vm_compute in P2; discriminate).
  exists l1, t1, l2.
  vm_compute in P1. inversion P1; subst l1. vm_compute in Hw. inversion Hw; subst t1. vm_compute in P2. inversion P2; subst l2.
  repeat (split; [vm_compute; reflexivity|]). vm_compute. reflexivity.
Qed.

(* the assumption on block-start patterns must be made on the MERGED text: the tie of "Z @a~{x}" is not a blank, so the
   original text has no pattern '@' word* blank* '{'; its person is First Z, von @a, Last {x}; merged last-name-first it
   reads "@a {x}, Z", and the splitter starts a block at "@a {" (class K2 of C10, reached through the merge) *)
Definition at2_text : str := lit "@article{k, author = {Z @a~{x}}}"%string.
Definition at2_value : str := lit "Z @a~{x}"%string.
Definition at2_ps : list parts := [mkparts [lit "Z"%string] [lit "@a"%string] [lit "{x}"%string] []].

Theorem stack_roundtrip_refuted_at :
  exists l1 t1 l2,
    parse_names default_name_fields at2_text = PVal l1
    /\ content l1 = [KEntry (lit "article"%string) (lit "k"%string) [(lit "author"%string, VList (map v_of_parts at2_ps))]]
    /\ persons_of at2_value = map POk at2_ps /\ forallb admissible_b at2_ps = true /\ known_C14_K3_b at2_ps = false
    /\ brace_ok at2_value = true /\ noat at2_value [c_rb] = true
    /\ merge_names (map merge1 at2_ps) = lit "@a {x}, Z"%string
    /\ brace_ok (merge_names (map merge1 at2_ps)) = true
    /\ noat (merge_names (map merge1 at2_ps)) [c_rb] = false
    /\ write_names default_name_fields default_fmt l1 = PVal t1
    /\ parse_names default_name_fields t1 = PVal l2
    /\ map class_of l2 = [CFailed; Blocks.CEntry; CImpl].
Proof.
  destruct (parse_names default_name_fields at2_text) as [l1| |] eqn:P1; try (vm_compute in P1; discriminate).
  destruct (write_names default_name_fields default_fmt l1) as [t1| |] eqn:Hw;
    try (vm_compute in P1; inversion P1; subst l1; vm_compute in Hw; discriminate).
  destruct (parse_names default_name_fields t1) as [l2| |] eqn:P2;
    try (vm_compute in P1; inversion P1; subst l1; vm_compute in Hw; inversion Hw; subst t1; vm_compute in P2; discriminate).
  exists l1, t1, l2.
  vm_compute in P1. inversion P1; subst l1. vm_compute in Hw. inversion Hw; subst t1. vm_compute in P2. inversion P2; subst l2.
  repeat (split; [vm_compute; reflexivity|]). vm_compute. reflexivity.
Qed.

(* ================================================================== 7. balance from validity, where the two readings
   of a backslash agree (Proofs/NamesBraceProofs.v) *)
From BP Require Import Proofs.NamesBraceProofs.

Lemma persons_each l : forall ps, map split1 l = map POk ps -> Forall (fun p => exists n, split1 n = POk p) ps.
Proof.
  induction l as [|n l IH]; intros [|p ps] H; try discriminate; constructor.
  - cbn [map] in H. injection H as H _. exists n. exact H.
  - cbn [map] in H. injection H as _ H. apply IH. exact H.
Qed.

Theorem merged_brace_ok_valid v ps : persons_of v = map POk ps ->
  Forall (fun p => Forall (fun t => no_double_bs t = true) (all_words p)) ps ->
  Grammar.ends_bs false (merge_names (map merge1 ps)) = false ->
  brace_ok (merge_names (map merge1 ps)) = true.
Proof.
  intros Hv Hn He. apply merged_brace_ok; [|exact He].
  pose proof (persons_each _ _ Hv) as Hp. clear Hv He.
  induction Hp as [|p r (n & Hs) Hp IH]; [constructor|]. inversion Hn; subst.
  constructor; [|apply IH; assumption]. apply (valid_words_brace_ok n p Hs). assumption.
Qed.

Theorem stack_field_roundtrip_valid nf f h t k name fl v ps :
  wf_fmt f -> entry_frame_ok t k = true -> field_key_ok name = true -> mem_str name nf = true ->
  md_ok [BEntry h t k [mkfield name (VStr v) fl]] = true ->
  persons_of v = map POk ps -> Forall admissible ps -> known_C14_K3_b ps = false ->
  Forall (fun p => Forall (fun w => no_double_bs w = true) (all_words p)) ps ->
  Grammar.ends_bs false (merge_names (map merge1 ps)) = false ->
  noat (merge_names (map merge1 ps)) [c_rb] = true ->
  let structured := VList (map v_of_parts ps) in
  names_lib nf parse_side [BEntry h t k [mkfield name (VStr v) fl]] = Enclosing.Val [BEntry h t k [mkfield name structured fl]] /\
  exists t1 h' fl', write_names nf f [BEntry h t k [mkfield name structured fl]] = PVal t1
                    /\ parse_names nf t1 = PVal [BEntry h' t k [mkfield name structured fl']].
Proof.
  intros Hf Hfr Hk Hmem Hm Hv Ha Hk3 Hn He Hat.
  apply (stack_field_roundtrip nf f h t k name fl v ps); try assumption.
  split; [exact (merged_brace_ok_valid v ps Hv Hn He) | exact Hat].
Qed.
