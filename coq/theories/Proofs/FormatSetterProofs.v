From Coq Require Import List NArith ZArith Bool Lia.
From BP Require Import Base.Chars Model.Blocks Model.Writer Model.FormatSetters.
Local Open Scope Z_scope.

Lemma value_column_setter : forall f a,
  (snd (assign_value_column f a) = false <->
     (exists z, a = VInt z /\ (0 <= z)%Z) \/ (exists b, a = VBool b) \/ a = VStr s_auto)
  /\ (snd (assign_value_column f a) = true -> fst (assign_value_column f a) = f)
  /\ (forall z, (0 <= z)%Z -> f_column (fst (assign_value_column f (VInt z))) = ColN (Z.to_nat z))
  /\ f_column (fst (assign_value_column f (VStr s_auto))) = ColAuto.
Proof.
  intros f a. unfold assign_value_column, set_value_column.
  split; [split|split; [|split]].
  - destruct a as [s|z| | | |b| | |]; cbn [snd fst]; try discriminate.
    + destruct (str_eqb s s_auto) eqn:E; cbn [snd]; [|discriminate]. intros _. right; right. apply str_eqb_eq in E. subst; reflexivity.
    + destruct (z <? 0)%Z eqn:E; cbn [snd]; [discriminate|]. intros _. left. exists z. split; [reflexivity|]. apply Z.ltb_ge; exact E.
    + intros _. right; left. exists b; reflexivity.
  - intros [(z & Ea & Hz)|[(b & Ea)| Ea]]; subst a.
    + apply Z.ltb_ge in Hz. rewrite Hz. reflexivity.
    + reflexivity.
    + rewrite str_eqb_refl. reflexivity.
  - destruct a as [s|z| | | |b| | |]; try reflexivity.
    + destruct (str_eqb s s_auto); cbn [snd fst]; [discriminate | reflexivity].
    + destruct (z <? 0)%Z; cbn [snd fst]; [reflexivity | discriminate].
    + cbn [snd]. discriminate.
  - intros z Hz. apply Z.ltb_ge in Hz. rewrite Hz. reflexivity.
  - rewrite str_eqb_refl. reflexivity.
Qed.
