(* C05, part 4: the document the writer produces is a well-formed duplicate-free dialect document. *)
From Coq Require Import List NArith ZArith Bool Lia String.
From BP Require Import Base.Chars Model.Blocks Model.LibAdd Gen.Constants Model.Enclosing Model.Writer
  Model.Lexer Model.Splitter Model.Interpolate Model.Grammar Model.Pipeline Spec.C05
  Proofs.EnclosingProofs Proofs.WriterProofs Proofs.SplitGrammar Proofs.RoundTrip Proofs.RoundTrip2 Proofs.RoundTrip3 Proofs.RoundTrip4.
Import ListNotations.

Definition wf_cb (b : braced) : Prop := wf_braced false b = true /\ nat_ok (render_braced b).
Definition wf_cfield (p : str * braced) : Prop := name_ok (fst p) = true /\ nat_ok (fst p) /\ wf_cb (snd p).
Definition typ_clean (t : str) : Prop :=
  typ_ok t = true /\ lower t = t /\
  negb (starts_with s_comment t) && negb (starts_with s_preamble t) && negb (starts_with s_string t) = true.
Definition wf_citem (c : citem) : Prop :=
  match c with
  | CEntry t k fs => typ_clean t /\ name_ok k = true /\ ends_bs false k = false /\ nat_ok k
                     /\ Forall wf_cfield fs /\ fresh_all [] (map fst fs) = true
  | CString n b => name_ok n = true /\ nat_ok n /\ wf_cb b
  | CPre b => wf_cb b
  | CExpl b => wf_cb b /\ strip (render_braced b) = render_braced b
  | CFree t => tight t = true /\ nat_ok t
  end.
Definition cfree (c : citem) : bool := match c with CFree _ => true | _ => false end.
Fixpoint wf_cs (prev_free : bool) (cs : list citem) : Prop :=
  match cs with
  | [] => True
  | c :: r => wf_citem c /\ cfree c && prev_free = false /\ wf_cs (cfree c) r
  end.

(* ---- texts without '@' *)
Definition noatc (s : str) : bool := forallb (fun c => negb (c =? c_at)%N) s.
Lemma noat_plain s R : noatc s = true -> noat s R = true.
Proof.
  induction s as [|c s IH]; [reflexivity|]. cbn [noatc forallb noat]. intros H. apply andb_true_iff in H as [H1 H2].
  rewrite H1. cbn [orb andb]. apply IH, H2.
Qed.
Lemma noatc_ws s : is_ws s = true -> noatc s = true.
Proof.
  unfold is_ws, noatc. intros H. rewrite forallb_forall in *. intros c I. specialize (H c I).
  destruct (c =? c_at)%N eqn:E; [|reflexivity]. apply N.eqb_eq in E. subst c. discriminate.
Qed.
Lemma noatc_word s : forallb isword s = true -> noatc s = true.
Proof.
  unfold noatc. intros H. rewrite forallb_forall in *. intros c I. specialize (H c I).
  destruct (c =? c_at)%N eqn:E; [|reflexivity]. apply N.eqb_eq in E. subst c. discriminate.
Qed.
Lemma noatc_app a b : noatc (a ++ b) = noatc a && noatc b.
Proof. apply forallb_app. Qed.

Lemma noat_plain_app s X R : noatc s = true -> noat (s ++ X) R = noat X R.
Proof. intros H. rewrite noat_app, (noat_plain s _ H). reflexivity. Qed.
Lemma noat_txt_app v X R : nat_ok v -> tailok (X ++ R) -> noat (v ++ X) R = noat X R.
Proof. intros H T. rewrite noat_app, (H _ T). reflexivity. Qed.
Lemma noat_cons_plain c X R : (c =? c_at)%N = false -> noat (c :: X) R = noat X R.
Proof. intros H. cbn [noat]. rewrite H. reflexivity. Qed.

Lemma is_ws_pad col k : is_ws (pad col k) = true.
Proof. unfold pad. induction (col - List.length k - List.length val_sep)%nat; [reflexivity|]. cbn [repeat is_ws forallb]. exact IHn. Qed.
Lemma is_hws_pad col k : is_hws (pad col k ++ [c_sp]) = true.
Proof.
  unfold pad. induction (col - List.length k - List.length val_sep)%nat; [reflexivity|]. cbn [repeat is_hws forallb app].
  exact IHn.
Qed.

Lemma tailok_pad col k z R : tailok ((pad col k ++ c_sp :: c_eq :: z) ++ R).
Proof.
  exists (pad col k ++ [c_sp]), c_eq, (z ++ R). split; [norm_app; reflexivity|]. split; [apply is_hws_pad | reflexivity].
Qed.
Lemma tailok_c c z R : stopper c = true -> tailok ((c :: z) ++ R).
Proof. intros H. apply tailok_stop, H. Qed.

(* one field line is self-contained for side condition G *)
Lemma noat_wfield indent col p X R : is_ws indent = true -> wf_cfield p ->
  noat (wfield indent col p ++ X) R = noat X R.
Proof.
  intros Hi (Hn & Hk & Hb & Hv). unfold wfield. change val_sep with [c_sp; c_eq; c_sp]. norm_app.
  rewrite (noat_plain_app indent) by (apply noatc_ws, Hi).
  rewrite (noat_txt_app (fst p)) by (try exact Hk; apply tailok_pad).
  rewrite (noat_plain_app (pad col (fst p))) by (apply noatc_ws, is_ws_pad).
  rewrite !noat_cons_plain by reflexivity.
  rewrite (noat_txt_app (render_braced (snd p))) by (try exact Hv; apply tailok_c; reflexivity).
  rewrite noat_cons_plain by reflexivity. reflexivity.
Qed.

Lemma noat_wfields indent col tr fs : forall X R, is_ws indent = true -> Forall wf_cfield fs ->
  noat (wfields indent col tr fs ++ X) R = noat X R.
Proof.
  induction fs as [|p r IH]; intros X R Hi F; [reflexivity|]. inversion F as [|? ? Hp Fr]; subst.
  cbn [wfields]. norm_app. rewrite (noat_wfield indent col p _ R Hi Hp).
  destruct (tr || negb (isnil r)); norm_app; rewrite !noat_cons_plain by reflexivity; apply IH; assumption.
Qed.

(* the text of an item body as the writer lays it out *)
Lemma body_entry indent col tr t k fs :
  render_body (ast_item indent col tr (CEntry t k fs)) = t ++ c_lb :: k ++ c_comma :: c_nl :: wfields indent col tr fs ++ [c_rb].
Proof.
  cbn [ast_item render_body]. unfold entry_head. cbn [render_etail]. rewrite render_ast_fields. norm_app. reflexivity.
Qed.
Lemma body_string indent col tr n b :
  render_body (ast_item indent col tr (CString n b))
  = s_string ++ c_lb :: n ++ c_sp :: c_eq :: c_sp :: c_lb :: render_braced b ++ [c_rb; c_rb].
Proof. cbn [ast_item render_body]. rewrite render_gv1. cbn [render_piece]. norm_app. reflexivity. Qed.

Lemma typ_clean_word t : typ_clean t -> forallb isword t = true.
Proof. intros (H & _). destruct (typ_tight t H) as [_ W]. exact W. Qed.

Lemma noat_body indent col tr c g R : is_ws indent = true -> wf_citem c ->
  noat (render_body (ast_item indent col tr c) ++ c_nl :: g) R = noat g R.
Proof.
  intros Hi W. destruct c as [t k fs|n b|b|b|t].
  - destruct W as (Ht & Hk & _ & Nk & F & _). rewrite body_entry. norm_app.
    rewrite (noat_plain_app t) by (apply noatc_word, typ_clean_word, Ht).
    rewrite noat_cons_plain by reflexivity.
    rewrite (noat_txt_app k) by (try exact Nk; apply tailok_c; reflexivity).
    rewrite !noat_cons_plain by reflexivity. rewrite noat_wfields by assumption.
    rewrite !noat_cons_plain by reflexivity. reflexivity.
  - destruct W as (Hn & Nn & Hb & Nb). rewrite body_string. norm_app.
    rewrite (noat_plain_app s_string) by reflexivity. rewrite noat_cons_plain by reflexivity.
    rewrite (noat_txt_app n) by (try exact Nn; exists [c_sp], c_eq; eexists; repeat split).
    rewrite !noat_cons_plain by reflexivity.
    rewrite (noat_txt_app (render_braced b)) by (try exact Nb; apply tailok_c; reflexivity).
    rewrite !noat_cons_plain by reflexivity. reflexivity.
  - destruct W as (Hb & Nb). cbn [ast_item render_body]. norm_app.
    rewrite (noat_plain_app s_preamble) by reflexivity. rewrite noat_cons_plain by reflexivity.
    rewrite (noat_txt_app (render_braced b)) by (try exact Nb; apply tailok_c; reflexivity).
    rewrite !noat_cons_plain by reflexivity. reflexivity.
  - destruct W as ((Hb & Nb) & _). cbn [ast_item render_body]. norm_app.
    rewrite (noat_plain_app s_comment) by reflexivity. rewrite noat_cons_plain by reflexivity.
    rewrite (noat_txt_app (render_braced b)) by (try exact Nb; apply tailok_c; reflexivity).
    rewrite !noat_cons_plain by reflexivity. reflexivity.
  - destruct W as (_ & Nt). cbn [ast_item render_body].
    rewrite (noat_txt_app t) by (try exact Nt; apply tailok_c; reflexivity).
    rewrite noat_cons_plain by reflexivity. reflexivity.
Qed.

(* ---- well-formedness of the items *)
Lemma wf_gv1_braced b : wf_braced false b = true -> wf_value (gv1 (PBraced b)) = true.
Proof. intros H. unfold wf_value, gv1. cbn. rewrite H. reflexivity. Qed.
Lemma ends_bs_braced b post : post = [] \/ post = [c_nl] ->
  ends_bs false (render_value (gv1 (PBraced b)) ++ post) = false.
Proof.
  rewrite render_gv1. cbn [render_piece]. intros [->| ->].
  - rewrite app_nil_r. change (c_lb :: render_braced b ++ [c_rb]) with ((c_lb :: render_braced b) ++ [c_rb]). apply ends_bs_snoc.
  - apply ends_bs_snoc.
Qed.

Lemma wf_ast_field indent col p post : is_ws indent = true -> wf_cfield p -> post = [] \/ post = [c_nl] ->
  wf_field (ast_field indent col p post) = true.
Proof.
  intros Hi (Hn & _ & Hb & _) Hp. unfold wf_field, ast_field. cbn [g_pre g_name g_w1 g_w2 g_val g_post].
  rewrite (ends_bs_braced (snd p) post Hp), (wf_gv1_braced _ Hb), Hn. rewrite app_assoc, ends_bs_snoc.
  rewrite is_ws_app, is_ws_pad. change (is_ws (c_nl :: indent)) with (isspace c_nl && is_ws indent). rewrite Hi.
  destruct Hp as [->| ->]; reflexivity.
Qed.

Lemma wf_ast_fields indent col tr fs : is_ws indent = true -> Forall wf_cfield fs ->
  wf_fields (ast_fields indent col tr fs) = true.
Proof.
  intros Hi F. induction F as [|p r Hp F IH]; [reflexivity|]. cbn [ast_fields]. destruct r as [|p2 r].
  - destruct tr; cbn [wf_fields]; rewrite wf_ast_field; auto.
  - cbn [wf_fields]. rewrite wf_ast_field by auto. exact IH.
Qed.

Lemma wf_ast_item indent col tr c : is_ws indent = true -> wf_citem c -> wf_item (ast_item indent col tr c) = true.
Proof.
  intros Hi W. destruct c as [t k fs|n b|b|b|t]; cbn [ast_item wf_item].
  - destruct W as ((Ht & Hl & Hx) & Hk & Ek & _ & F & _). apply andb_true_iff in Hx as [Hx X3].
    apply andb_true_iff in Hx as [X1 X2]. rewrite Hl, X1, X2, X3, Ht, Hk, app_nil_r, Ek.
    cbn [wf_etail]. rewrite wf_ast_fields by assumption. reflexivity.
  - destruct W as (Hn & _ & Hb & _). rewrite Hn, (wf_gv1_braced _ Hb), ends_bs_snoc, (ends_bs_braced b []) by (left; reflexivity).
    reflexivity.
  - destruct W as (Hb & _). rewrite Hb. reflexivity.
  - destruct W as ((Hb & _) & _). rewrite Hb. reflexivity.
  - destruct W as (Ht & _). exact Ht.
Qed.

Lemma is_free_ast indent col tr c : is_free (ast_item indent col tr c) = cfree c.
Proof. destruct c; reflexivity. Qed.

Lemma wf_ast_items indent col tr sep cs : forall prev, is_ws indent = true -> is_ws sep = true ->
  wf_cs prev cs -> wf_items prev (ast_items indent col tr sep cs) = true.
Proof.
  induction cs as [|c r IH]; intros prev Hi Hs W; [reflexivity|]. destruct W as (Wc & Hf & Wr).
  cbn [ast_items wf_items]. set (g := match r with [] => [] | _ => sep end).
  assert (G : is_ws g = true) by (subst g; destruct r; [reflexivity | exact Hs]).
  rewrite (wf_ast_item _ _ _ c Hi Wc), is_free_ast, Hf, (IH (cfree c) Hi Hs Wr).
  rewrite noat_body by assumption.
  rewrite (noat_ws _ _ G). change (is_ws (c_nl :: g)) with (isspace c_nl && is_ws g). rewrite G. reflexivity.
Qed.

Lemma wf_fmt_ws f : wf_fmt f -> is_ws (f_indent f) = true /\ is_ws (f_sep f) = true.
Proof. intros [A B]. unfold is_ws. rewrite !forallb_forall. rewrite Forall_forall in A, B. split; assumption. Qed.

Theorem wf_ast_fmt f cs : wf_fmt f -> wf_cs false cs -> wf_doc (ast_fmt f cs).
Proof.
  intros Hf W. destruct (wf_fmt_ws f Hf) as [Hi Hs]. unfold wf_doc, wf_doc_b, ast_fmt, ast_of. cbn [d_gap0 d_items is_ws forallb andb].
  apply wf_ast_items; assumption.
Qed.

(* ---- its parse: every value is one braced piece, nothing is resolved, exactly that layer is removed *)
Lemma enclosed_braced s : enclosedb (c_lb :: s ++ [c_rb]) = true.
Proof.
  unfold enclosedb, nonstring_or_enclosed, first_is, last_is. rewrite rv_rev.
  change (c_lb :: s ++ [c_rb]) with ((c_lb :: s) ++ [c_rb]). rewrite rev_app_distr. cbn [rev app]. apply orb_true_r.
Qed.

Lemma pfield_braced bs n b ln : wf_braced false b = true ->
  pfield bs (mkfield n (VStr (render_value (gv1 (PBraced b)))) ln) = (n, cval b).
Proof.
  intros W. unfold pfield. cbn [fkey fval str_of]. rewrite render_gv1. cbn [render_piece].
  unfold res_str. rewrite enclosed_braced. unfold stripv. rewrite strip_enclosing_braced by exact W. reflexivity.
Qed.

Lemma pfields_ast bs indent col tr fs : forall ln, Forall wf_cfield fs ->
  map (pfield bs) (exp_fields ln (ast_fields indent col tr fs)) = map (fun p => (fst p, cval (snd p))) fs.
Proof.
  induction fs as [|p r IH]; intros ln F; [reflexivity|]. inversion F as [|? ? (_ & _ & Hb & _) Fr]; subst.
  cbn [ast_fields]. destruct r as [|p2 r].
  - destruct tr; cbn [exp_fields map]; unfold exp_field, ast_field; cbn [g_name g_val]. all: rewrite (pfield_braced bs (fst p) (snd p) _ Hb); reflexivity.
  - cbn [exp_fields map]. rewrite IH by exact Fr. unfold exp_field, ast_field. cbn [g_name g_val].
    rewrite (pfield_braced bs (fst p) (snd p) _ Hb). reflexivity.
Qed.

Lemma pc1_ast bs indent col tr c ln : wf_citem c -> pc1 bs (block_of ln (ast_item indent col tr c)) = cc1 c.
Proof.
  intros W. destruct c as [t k fs|n b|b|b|t]; cbn [ast_item block_of pc1 cc1 content1].
  - destruct W as ((_ & Hl & _) & _ & _ & _ & F & _). rewrite Hl, pfields_ast by exact F. reflexivity.
  - destruct W as (_ & _ & Hb & _). cbn [str_of]. rewrite render_gv1. cbn [render_piece]. unfold stripv.
    rewrite strip_enclosing_braced by exact Hb. reflexivity.
  - reflexivity.
  - destruct W as (_ & Hs). rewrite Hs. reflexivity.
  - reflexivity.
Qed.

Lemma pcontent_ast_items bs indent col tr sep cs : forall prev ln, wf_cs prev cs ->
  map (pc1 bs) (exp_items ln (ast_items indent col tr sep cs)) = ccontent cs.
Proof.
  induction cs as [|c r IH]; intros prev ln W; [reflexivity|]. destruct W as (Wc & _ & Wr).
  cbn [ast_items exp_items map ccontent]. rewrite pc1_ast by exact Wc. f_equal. exact (IH _ _ Wr).
Qed.

Theorem pcontent_ast f cs : wf_cs false cs -> pcontent (ast_fmt f cs) = ccontent cs.
Proof. intros W. unfold pcontent, expected, ast_fmt, ast_of. cbn [d_gap0 d_items]. exact (pcontent_ast_items _ _ _ _ _ cs false _ W). Qed.

(* ---- duplicate-freeness *)
Lemma field_names_ast indent col tr fs : field_names (ast_fields indent col tr fs) = map fst fs.
Proof.
  induction fs as [|p r IH]; [reflexivity|]. cbn [ast_fields]. destruct r as [|p2 r].
  - destruct tr; reflexivity.
  - cbn [field_names map]. rewrite IH. reflexivity.
Qed.
Lemma ekeys_ast indent col tr sep cs :
  flat_map (fun p => item_ekey (fst p)) (ast_items indent col tr sep cs) = flat_map ekey_c (ccontent cs).
Proof. induction cs as [|c r IH]; [reflexivity|]. cbn [ast_items flat_map ccontent map fst]. rewrite IH. destruct c; reflexivity. Qed.
Lemma skeys_ast indent col tr sep cs :
  flat_map (fun p => item_skey (fst p)) (ast_items indent col tr sep cs) = flat_map skey_c (ccontent cs).
Proof. induction cs as [|c r IH]; [reflexivity|]. cbn [ast_items flat_map ccontent map fst]. rewrite IH. destruct c; reflexivity. Qed.
Lemma nodup_fields_ast indent col tr sep cs : forall prev, wf_cs prev cs ->
  forallb (fun p => nodup_item (fst p)) (ast_items indent col tr sep cs) = true.
Proof.
  induction cs as [|c r IH]; intros prev W; [reflexivity|]. destruct W as (Wc & _ & Wr).
  cbn [ast_items forallb fst]. rewrite (IH _ Wr), andb_true_r. destruct c; try reflexivity.
  cbn [ast_item nodup_item]. rewrite field_names_ast. destruct Wc as (_ & _ & _ & _ & _ & H). exact H.
Qed.

Theorem nodup_ast_fmt f cs : wf_cs false cs ->
  NoDup (flat_map ekey_c (ccontent cs)) -> NoDup (flat_map skey_c (ccontent cs)) -> nodup_doc (ast_fmt f cs).
Proof.
  intros W E S. unfold nodup_doc, nodup_fields, nodup_fields_b, doc_ekeys, doc_skeys, ast_fmt, ast_of. cbn [d_items].
  rewrite ekeys_ast, skeys_ast. split; [exact (nodup_fields_ast _ _ _ _ cs false W)|]. split; assumption.
Qed.
