(* The writer puts a carriage return into its output only if the library or the format holds one - so a CR-free library written
   under a CR-free format goes through a file unchanged (Model/TextIO.v: file_transparent). *)
From Coq Require Import List NArith ZArith Bool String Lia.
From BP Require Import Base.Chars Model.Blocks Gen.Constants Model.Writer Model.TextIO Proofs.TextIOProofs.
Import ListNotations.
Local Open Scope N_scope.

Definition good (c : ch) : bool := negb (code c =? 13).
Definition ok (s : str) : bool := forallb good s.
Definition value_ok (v : value) : bool := match v with VStr s => ok s | _ => true end.
Definition field_ok (f : field) : bool := ok (fkey f) && value_ok (fval f).
Definition hdr_ok (h : hdr) : bool := match raw h with Some r => ok r | None => true end.
Definition block_ok (b : block) : bool :=
  match b with
  | BEntry _ t k fs => ok t && ok k && forallb field_ok fs
  | BString _ k v => ok k && value_ok v
  | BPreamble _ v => ok v
  | BExpl _ c => ok c
  | BImpl _ c => ok c
  | BFailed h _ | BMwErr h _ _ | BDupKey h _ _ _ | BDupField h _ _ => hdr_ok h
  end.
Definition fmt_ok (f : fmt) : bool := ok (f_indent f) && ok (f_sep f) && ok (f_failed f).
Definition piece_ok (p : piece) : bool := match p with PStr s => ok s | PBad => true end.

Lemma ok_app a b : ok (a ++ b) = ok a && ok b.
Proof. apply forallb_app. Qed.

Lemma digits_good : forallb (fun d => good (digit_ch d)) [0;1;2;3;4;5;6;7;8;9] = true.
Proof. vm_compute. reflexivity. Qed.
Lemma digit_good n : good (digit_ch (n mod 10)) = true.
Proof.
  assert (H : In (n mod 10) [0;1;2;3;4;5;6;7;8;9]).
  { pose proof (N.mod_upper_bound n 10 ltac:(discriminate)) as B.
    assert (E : n mod 10 = 0 \/ n mod 10 = 1 \/ n mod 10 = 2 \/ n mod 10 = 3 \/ n mod 10 = 4 \/ n mod 10 = 5 \/
                n mod 10 = 6 \/ n mod 10 = 7 \/ n mod 10 = 8 \/ n mod 10 = 9) by lia.
    cbn [In]. intuition. }
  exact (proj1 (forallb_forall _ _) digits_good _ H).
Qed.
Lemma dec_fuel_ok f : forall n acc, ok acc = true -> ok (dec_fuel f n acc) = true.
Proof.
  induction f as [|f IH]; intros n acc H; cbn [dec_fuel]; [exact H|].
  assert (H' : ok (digit_ch (n mod 10) :: acc) = true) by (cbn [ok forallb]; rewrite digit_good; exact H).
  destruct (n / 10 =? 0); [exact H' | apply IH; exact H'].
Qed.
Lemma dec_ok n : ok (dec_of_N n) = true.
Proof. unfold dec_of_N. apply dec_fuel_ok. reflexivity. Qed.

Lemma str_len_ind (P : str -> Prop) :
  (forall l : str, (forall l' : str, (List.length l' < List.length l)%nat -> P l') -> P l) -> forall l, P l.
Proof.
  intros H l. remember (List.length l) as n eqn:E. revert l E.
  induction n as [n IH] using lt_wf_ind. intros l ->. apply H. intros l' Hl. apply (IH _ Hl _ eq_refl).
Qed.

Lemma good_lb : good c_lb = true. Proof. reflexivity. Qed.
Lemma good_rb : good c_rb = true. Proof. reflexivity. Qed.

Lemma expand_ok n : ok n = true -> forall t r, ok t = true -> expand t n = Some r -> ok r = true.
Proof.
  intros Hn t. pattern t. apply str_len_ind. clear t. intros t IH r Ht H.
  destruct t as [|c t1]; cbn [expand] in H.
  { injection H as <-. reflexivity. }
  cbn [ok forallb] in Ht. apply andb_prop in Ht. destruct Ht as [Hc Ht1]. fold (ok t1) in Ht1.
  destruct (ceq c c_lb).
  { destruct t1 as [|c1 r1]; [discriminate|].
    cbn [ok forallb] in Ht1. apply andb_prop in Ht1. destruct Ht1 as [Hc1 Hr1]. fold (ok r1) in Hr1.
    destruct (ceq c1 c_lb).
    { destruct (expand r1 n) as [x|] eqn:E; [|discriminate]. cbn [option_map] in H. injection H as <-.
      cbn [ok forallb]. rewrite good_lb. apply (IH r1 ltac:(cbn [List.length]; lia) x Hr1 E). }
    destruct (ceq c1 c_n); [|discriminate].
    destruct r1 as [|c2 r2]; [discriminate|].
    cbn [ok forallb] in Hr1. apply andb_prop in Hr1. destruct Hr1 as [Hc2 Hr2]. fold (ok r2) in Hr2.
    destruct (ceq c2 c_rb); [|discriminate].
    destruct (expand r2 n) as [x|] eqn:E; [|discriminate]. cbn [option_map] in H. injection H as <-.
    rewrite ok_app, Hn. apply (IH r2 ltac:(cbn [List.length]; lia) x Hr2 E). }
  destruct (ceq c c_rb).
  { destruct t1 as [|c1 r1]; [discriminate|].
    cbn [ok forallb] in Ht1. apply andb_prop in Ht1. destruct Ht1 as [Hc1 Hr1]. fold (ok r1) in Hr1.
    destruct (ceq c1 c_rb); [|discriminate].
    destruct (expand r1 n) as [x|] eqn:E; [|discriminate]. cbn [option_map] in H. injection H as <-.
    cbn [ok forallb]. rewrite good_rb. apply (IH r1 ltac:(cbn [List.length]; lia) x Hr1 E). }
  destruct (expand t1 n) as [x|] eqn:E; [|discriminate]. cbn [option_map] in H. injection H as <-.
  cbn [ok forallb]. rewrite Hc. apply (IH t1 ltac:(cbn [List.length]; lia) x Ht1 E).
Qed.

Lemma join_ok ps : forall s, forallb piece_ok ps = true -> join_pieces ps = Some s -> ok s = true.
Proof.
  induction ps as [|p ps IH]; intros s Hp H; cbn [join_pieces] in H.
  - injection H as <-. reflexivity.
  - destruct p as [x|]; [|discriminate]. cbn [forallb piece_ok] in Hp. apply andb_prop in Hp. destruct Hp as [Hx Hps].
    destruct (join_pieces ps) as [y|] eqn:E; [|discriminate]. cbn [option_map] in H. injection H as <-.
    rewrite ok_app, Hx. apply (IH y Hps eq_refl).
Qed.

Lemma val_sep_ok : ok val_sep = true. Proof. vm_compute. reflexivity. Qed.
Lemma pad_ok col k : ok (pad col k) = true.
Proof. unfold pad. induction (col - List.length k - List.length val_sep)%nat as [|m IH]; [reflexivity|]. cbn [repeat ok forallb]. exact IH. Qed.
Lemma piece_value_ok v : value_ok v = true -> piece_ok (piece_of_value v) = true.
Proof. destruct v; cbn; auto. Qed.

Lemma field_pieces_ok indent col tr last f : ok indent = true -> field_ok f = true ->
  forallb piece_ok (field_pieces indent col tr last f) = true.
Proof.
  intros Hi Hf. unfold field_ok in Hf. apply andb_prop in Hf. destruct Hf as [Hk Hv].
  unfold field_pieces. rewrite !forallb_app. cbn [forallb piece_ok].
  rewrite Hi, Hk, pad_ok, val_sep_ok, (piece_value_ok _ Hv). destruct (tr || negb last); reflexivity.
Qed.
Lemma fields_pieces_ok indent col tr fs : ok indent = true -> forallb field_ok fs = true ->
  forallb piece_ok (fields_pieces indent col tr fs) = true.
Proof.
  intros Hi. induction fs as [|f fs IH]; intro H; [reflexivity|].
  cbn [forallb] in H. apply andb_prop in H. destruct H as [Hf Hfs].
  cbn [fields_pieces]. rewrite forallb_app, (field_pieces_ok _ _ _ _ _ Hi Hf), (IH Hfs). reflexivity.
Qed.

Lemma treat_block_ok indent col tr failed b ps : ok indent = true -> ok failed = true -> block_ok b = true ->
  treat_block indent col tr failed b = Val ps -> forallb piece_ok ps = true.
Proof.
  intros Hi Hf Hb H.
  assert (TF : forall h, hdr_ok h = true -> treat_failed failed h = Val ps -> forallb piece_ok ps = true).
  { intros h Hh T. unfold treat_failed in T. unfold hdr_ok in Hh. destruct (raw h) as [r|]; [|discriminate].
    destruct (expand failed _) as [cmt|] eqn:E; [|discriminate]. injection T as <-.
    cbn [forallb piece_ok]. rewrite (expand_ok _ (dec_ok _) failed cmt Hf E), Hh. reflexivity. }
  destruct b; cbn [treat_block block_ok] in *; try (apply (TF h Hb H)).
  - injection H as <-. apply andb_prop in Hb. destruct Hb as [Hb Hfs]. apply andb_prop in Hb. destruct Hb as [Ht Hk].
    cbn [forallb piece_ok]. rewrite forallb_app. cbn [forallb piece_ok]. rewrite Ht, Hk, (fields_pieces_ok _ _ _ _ Hi Hfs). reflexivity.
  - injection H as <-. apply andb_prop in Hb. destruct Hb as [Hk Hv].
    cbn [forallb piece_ok]. rewrite Hk, val_sep_ok, (piece_value_ok _ Hv).
    replace (ok (lit "@string{")) with true by (vm_compute; reflexivity). reflexivity.
  - injection H as <-.
    assert (X : ok (lit "@preamble{" ++ v ++ [c_rb; c_nl]) = true).
    { rewrite !ok_app, Hb. vm_compute. reflexivity. }
    cbn [forallb piece_ok]. rewrite andb_true_r. exact X.
  - injection H as <-. cbn [forallb piece_ok]. rewrite Hb.
    replace (ok (lit "@comment{")) with true by (vm_compute; reflexivity). reflexivity.
  - injection H as <-. cbn [forallb piece_ok]. rewrite Hb. reflexivity.
Qed.

Lemma write_pieces_ok indent col tr failed sep bs : ok indent = true -> ok failed = true -> ok sep = true ->
  forall ps, forallb block_ok bs = true -> write_pieces indent col tr failed sep bs = Val ps -> forallb piece_ok ps = true.
Proof.
  intros Hi Hf Hs. induction bs as [|b rest IH]; intros ps Hb H; cbn [write_pieces] in H.
  - injection H as <-. reflexivity.
  - cbn [forallb] in Hb. apply andb_prop in Hb. destruct Hb as [Hb Hrest].
    destruct (treat_block indent col tr failed b) as [p| |] eqn:T; try discriminate.
    destruct (write_pieces indent col tr failed sep rest) as [q| |] eqn:W; try discriminate.
    injection H as <-. rewrite !forallb_app, (treat_block_ok _ _ _ _ _ _ Hi Hf Hb T), (IH q Hrest eq_refl).
    destruct rest; cbn [forallb piece_ok]; rewrite ?Hs; reflexivity.
Qed.

(* the writer introduces no carriage return *)
Theorem write_no_cr f bs s : fmt_ok f = true -> forallb block_ok bs = true -> write f bs = Val s -> ok s = true.
Proof.
  intros Hf Hb H. unfold fmt_ok in Hf. apply andb_prop in Hf. destruct Hf as [Hf Hfa]. apply andb_prop in Hf. destruct Hf as [Hi Hs].
  unfold write in H. destruct (write_pieces _ _ _ _ _ bs) as [ps| |] eqn:W; try discriminate.
  destruct (join_pieces ps) as [x|] eqn:J; [|discriminate]. injection H as <-.
  apply (join_ok ps x (write_pieces_ok _ _ _ _ _ _ Hi Hfa Hs ps Hb W) J).
Qed.

(* ... so what write_file puts into a file for such a library comes back from the file exactly: the code points of the written
   text survive the text layer of every modelled codec that can encode them *)
Definition cps (s : str) : list Z := map (fun c => Z.of_N (code c)) s.
Lemma ok_no_cr s : ok s = true -> no_cr (cps s) = true.
Proof.
  induction s as [|c s IH]; [reflexivity|]. cbn [ok forallb cps map no_cr]. intro H. apply andb_prop in H. destruct H as [Hc Hs].
  fold (cps s). fold (no_cr (cps s)). rewrite (IH Hs), andb_true_r. unfold good in Hc.
  apply negb_true_iff in Hc. apply N.eqb_neq in Hc. apply negb_true_iff. apply Z.eqb_neq. lia.
Qed.

Theorem written_library_survives_the_file f bs s e bytes :
  fmt_ok f = true -> forallb block_ok bs = true -> write f bs = Val s ->
  write_text e (cps s) = Some bytes -> read_text e bytes = Some (cps s).
Proof.
  intros Hf Hb W E. apply (file_transparent e (cps s) bytes); [|exact E].
  apply ok_no_cr. apply (write_no_cr f bs s Hf Hb W).
Qed.
