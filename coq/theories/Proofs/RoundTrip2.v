(* C05, part 1: the content of parse_default (render d) for a well-formed duplicate-free document, as a
   block-wise function [pc1] of [expected d] (resolution by the first @string of that name, then one layer stripped). *)
From Coq Require Import List NArith ZArith Bool Lia String.
From BP Require Import Base.Chars Model.Blocks Model.LibAdd Gen.Constants Model.Enclosing Model.Writer
  Model.Lexer Model.Splitter Model.Interpolate Model.Grammar Model.Pipeline Spec.C05
  Proofs.LibAddProofs Proofs.EnclosingProofs Proofs.InterpolateProofs Proofs.DupProofs Proofs.SplitGrammar Proofs.RoundTrip.
Import ListNotations.

Definition enclosedb (s : str) : bool := nonstring_or_enclosed (VStr s).
Definition sd_lookup (bs : list block) (k : str) : option str :=
  option_map (fun b => str_of (string_value b)) (first_string_block bs k).
Definition res_str (bs : list block) (s : str) : str :=
  if enclosedb s then s else match sd_lookup bs s with Some v => v | None => s end.
Definition stripv (s : str) : value := VStr (fst (strip_enclosing s)).
Definition pfield (bs : list block) (f : field) : str * value := (fkey f, stripv (res_str bs (str_of (fval f)))).
Definition pc1 (bs : list block) (b : block) : bcontent :=
  match b with
  | BEntry _ t k fs => KEntry t k (map (pfield bs) fs)
  | BString _ k v => KString k (stripv (str_of v))
  | _ => content1 b
  end.
Definition allstr1 (b : block) : bool :=
  match b with
  | BEntry _ _ _ fs => forallb (fun f => is_vstr (fval f)) fs
  | BString _ _ v => is_vstr v
  | _ => true
  end.
Definition allstr (bs : list block) : bool := forallb allstr1 bs.

Definition resolve_field (sd : list (str * block)) (f : field) : field :=
  if nonstring_or_enclosed (fval f) then f
  else match fval f with
       | VStr s => match dict_get sd s with None => f | Some sb => mkfield (fkey f) (string_value sb) (fline f) end
       | _ => f
       end.
Lemma resolve_fields_fst sd fs : fst (resolve_fields sd fs) = map (resolve_field sd) fs.
Proof.
  induction fs as [|f r IH]; [reflexivity|]. cbn [resolve_fields map]. unfold resolve_field at 1.
  destruct (resolve_fields sd r) as [r' ks]. cbn [fst] in IH. subst r'.
  destruct (nonstring_or_enclosed (fval f)); [reflexivity|].
  destruct (fval f); try reflexivity. destruct (dict_get sd s); reflexivity.
Qed.

Lemma remove_fields_content fs : forall md r, remove_fields fs md = EVal r ->
  forallb (fun f => is_vstr (fval f)) fs = true ->
  map fpair (fst r) = map (fun f => (fkey f, stripv (str_of (fval f)))) fs.
Proof.
  induction fs as [|f fs IH]; intros md r H A; cbn [remove_fields] in H.
  - inversion H; reflexivity.
  - cbn [forallb] in A. apply andb_true_iff in A as [A1 A2].
    destruct (fval f) as [s| | | | | | | |] eqn:Ev; try discriminate. cbn [strip_value] in H.
    destruct (strip_enclosing s) as [s' e] eqn:Es.
    destruct (remove_fields fs _) as [[r' md']| |] eqn:E; try discriminate. inversion H; subst.
    pose proof (IH _ _ E A2) as IH'. cbn [fst] in IH'. cbn [fst map]. rewrite IH'.
    unfold fpair at 1. cbn [fkey fval]. rewrite Ev. cbn [str_of]. unfold stripv. rewrite Es. reflexivity.
Qed.

Lemma first_string_block_in bs k b : first_string_block bs k = Some b -> In b bs /\ is_string b = true.
Proof.
  induction bs as [|x r IH]; [discriminate|]. cbn [first_string_block]. intros H.
  destruct x; try (destruct (IH H); split; [right|]; assumption).
  destruct (str_eqb k key).
  - inversion H; subst. split; [left|]; reflexivity.
  - destruct (IH H); split; [right|]; assumption.
Qed.

Lemma resolve_field_val bs f : allstr bs = true -> is_vstr (fval f) = true ->
  fkey (resolve_field (strs (lib_of bs)) f) = fkey f /\
  fval (resolve_field (strs (lib_of bs)) f) = VStr (res_str bs (str_of (fval f))).
Proof.
  intros A V. destruct (fval f) as [s| | | | | | | |] eqn:Ev; try discriminate. clear V.
  unfold resolve_field, res_str, enclosedb, sd_lookup. rewrite Ev. cbn [str_of].
  destruct (nonstring_or_enclosed (VStr s)); [split; [reflexivity | exact Ev]|].
  rewrite strs_first. destruct (first_string_block bs s) as [sb|] eqn:E; [|split; [reflexivity | exact Ev]].
  cbn [option_map fkey fval]. split; [reflexivity|].
  destruct (first_string_block_in _ _ _ E) as [I S]. unfold allstr in A. rewrite forallb_forall in A.
  specialize (A _ I). destruct sb; try discriminate. cbn [allstr1] in A. destruct v; try discriminate. reflexivity.
Qed.

Lemma stack_block_content bs b b' : allstr bs = true -> allstr1 b = true ->
  remove_block (resolve_block (strs (lib_of bs)) b) = EVal b' -> content1 b' = pc1 bs b.
Proof.
  intros A A1 H. destruct b as [h t k fs|h k v|h v|h c|h c|h e|h e i|h k p d|h ks e];
    try (cbn [resolve_block remove_block] in H; inversion H; subst; reflexivity).
  - rewrite resolve_block_entry in H. cbn [remove_block] in H. rewrite resolve_fields_fst in H.
    destruct (remove_fields _ []) as [[fs' md]| |] eqn:E; try discriminate. inversion H; subst.
    cbn [content1 pc1]. f_equal. change (map (fun f => (fkey f, fval f)) fs') with (map fpair (fst (fs', md))).
    cbn [allstr1] in A1. rewrite forallb_forall in A1.
    rewrite (remove_fields_content _ _ _ E).
    + rewrite map_map. apply map_ext_in. intros f I. destruct (resolve_field_val bs f A (A1 _ I)) as [K V].
      unfold pfield. rewrite K, V. reflexivity.
    + apply forallb_forall. intros f I. apply in_map_iff in I as (f0 & <- & I0).
      destruct (resolve_field_val bs f0 A (A1 _ I0)) as [_ V]. rewrite V. reflexivity.
  - cbn [resolve_block remove_block] in H. cbn [allstr1] in A1. destruct v; try discriminate.
    cbn [strip_value] in H. destruct (strip_enclosing s) as [s' e] eqn:Es. inversion H; subst.
    cbn [content1 pc1 str_of]. unfold stripv. rewrite Es. reflexivity.
Qed.

Lemma stack_content bs l : wf_blocks bs -> allstr bs = true -> default_stack bs = EVal l ->
  content l = map (pc1 bs) bs.
Proof.
  intros W A H. pose proof (default_stack_blockwise _ _ H) as F.
  change (lblocks (lib_of bs)) with (rebuild bs) in F. rewrite (rebuild_id bs W) in F.
  assert (G : forall xs ys, Forall2 (fun b b' => remove_block (resolve_block (strs (lib_of bs)) b) = EVal b') xs ys ->
              allstr xs = true -> content ys = map (pc1 bs) xs).
  { intros xs ys F2. induction F2 as [|b b' r r' Hb F2 IH]; intros A0; [reflexivity|].
    cbn [allstr forallb] in A0. apply andb_true_iff in A0 as [A1 A2].
    cbn [content map]. f_equal; [apply stack_block_content; assumption | apply IH; exact A2]. }
  apply G; assumption.
Qed.

(* ---- duplicate-free documents *)
Definition item_ekey (it : item) : list str := match it with IEntry _ _ _ key _ _ => [key] | _ => [] end.
Definition item_skey (it : item) : list str := match it with IString _ _ _ name _ _ _ _ => [name] | _ => [] end.
Definition doc_ekeys (d : doc) : list str := flat_map (fun p => item_ekey (fst p)) (d_items d).
Definition doc_skeys (d : doc) : list str := flat_map (fun p => item_skey (fst p)) (d_items d).
Definition nodup_doc (d : doc) : Prop := nodup_fields d /\ NoDup (doc_ekeys d) /\ NoDup (doc_skeys d).

Lemma ekeys_exp l : forall ln, ekeys (exp_items ln l) = flat_map (fun p => item_ekey (fst p)) l.
Proof.
  induction l as [|[it g] r IH]; intros ln; [reflexivity|]. cbn [exp_items flat_map fst].
  change (ekeys (?b :: ?r)) with (ekey b ++ ekeys r). rewrite IH. destruct it; reflexivity.
Qed.
Lemma skeys_exp l : forall ln, skeys (exp_items ln l) = flat_map (fun p => item_skey (fst p)) l.
Proof.
  induction l as [|[it g] r IH]; intros ln; [reflexivity|]. cbn [exp_items flat_map fst].
  change (skeys (?b :: ?r)) with (skey b ++ skeys r). rewrite IH. destruct it; reflexivity.
Qed.
Lemma nodup_doc_wf d : nodup_doc d -> wf_blocks (expected d).
Proof. intros (_ & E & S). unfold wf_blocks, expected. rewrite ekeys_exp, skeys_exp. split; assumption. Qed.

Lemma exp_fields_str fs : forall ln, forallb (fun f => is_vstr (fval f)) (exp_fields ln fs) = true.
Proof. induction fs as [w|f|f r IH]; intros ln; cbn [exp_fields forallb]; try reflexivity. apply IH. Qed.
Lemma allstr_exp l : forall ln, allstr (exp_items ln l) = true.
Proof.
  induction l as [|[it g] r IH]; intros ln; [reflexivity|]. cbn [exp_items allstr forallb].
  match goal with |- context [forallb allstr1 (exp_items ?n r)] => change (forallb allstr1 (exp_items n r)) with (allstr (exp_items n r)); rewrite (IH n) end.
  rewrite andb_true_r.
  destruct it as [typ h w1 key w2 [|fs]| | | |]; try reflexivity. apply exp_fields_str.
Qed.

Definition pcontent (d : doc) : list bcontent := map (pc1 (expected d)) (expected d).

Theorem parse_render_content d l : wf_doc d -> nodup_doc d -> parse_default (render d) = PVal l ->
  content l = pcontent d.
Proof.
  intros W N P. destruct (parse_default_inv _ _ P) as (bs & S & D).
  pose proof (nodup_doc_wf d N) as Wb. destruct N as (Nf & _).
  rewrite (split_is_flagged _ _ (split_render d W Nf)), <- rebuild_flag_all, (rebuild_id _ Wb) in S.
  inversion S; subst bs. apply stack_content; [exact Wb | apply allstr_exp | exact D].
Qed.
Print Assumptions parse_render_content.
