(* What the encoder rules configured in latex_encoding.py do (Model/LatexRules.v), for every text and every default
   conversion [enc_char].  In particular the root causes of the known findings K5 and K6 as theorems:
   - encode_keeps_first_to_last_dollar: with keep_math, on one line, EVERYTHING from the first dollar to the last dollar that
     is not preceded by a backslash is copied as it is, whatever stands between (other spans, `&`, `%`): K5;
   - encode_url_raw: with enclose_urls, a matched URL is put between \url{ and } exactly as it is, nothing in it is
     converted: K6. *)
From Coq Require Import List NArith Bool Arith Lia.
From BP Require Import Base.Chars Model.LatexRules.
Import ListNotations.

Section Proofs.
  Variable enc_char : ch -> str.
  Notation enc_go := (enc_go enc_char).
  Notation encode := (encode enc_char).

  (* the flag "previous source character is a backslash" after passing over n characters of s *)
  Fixpoint pb_after (pb : bool) (n : nat) (s : str) : bool :=
    match n, s with
    | S k, c :: r => pb_after (ceq c c_bs) k r
    | _, _ => pb
    end.

  (* passing over the rest of a match is skipping that many characters *)
  Lemma enc_skip : forall km eu n s pb, enc_go km eu pb n s = enc_go km eu (pb_after pb n s) 0 (skipn n s).
  Proof.
    intros km eu n. induction n as [|k IH]; intros s pb; [destruct s; reflexivity|].
    destruct s as [|c r]; [reflexivity|]. simpl. apply IH.
  Qed.

  (* both rules off: the default conversion, character by character *)
  Theorem encode_no_rules : forall s, encode false false s = flat_map enc_char s.
  Proof.
    intros s. unfold encode, LatexRules.encode.
    assert (G : forall pb, enc_go false false pb 0 s = flat_map enc_char s); [|apply G].
    induction s as [|c r IH]; intros pb; [reflexivity|]. cbn [LatexRules.enc_go flat_map]. rewrite IH. reflexivity.
  Qed.

  (* ---- the keep-math pattern is greedy up to the last dollar of the line *)
  Definition no_nl (u : str) : Prop := forall c, In c u -> ceq c c_nl = false.

  Lemma math_k_step : forall a b t i best,
    math_k (a :: b :: t) i best
    = if ceq a c_nl then (if negb (ceq a c_bs) && ceq b c_dollar then Some i else best)
      else math_k (b :: t) (S i) (if negb (ceq a c_bs) && ceq b c_dollar then Some i else best).
  Proof. reflexivity. Qed.

  Lemma math_k_last : forall u x i best, no_nl u -> ceq x c_bs = false ->
    math_k (u ++ [x; c_dollar]) i best = Some (i + length u).
  Proof.
    induction u as [|a u IH]; intros x i best N X.
    - cbn [app math_k length]. rewrite X. cbn [negb andb].
      replace (ceq c_dollar c_dollar) with true by reflexivity.
      rewrite Nat.add_0_r. destruct (ceq x c_nl); reflexivity.
    - assert (Na : ceq a c_nl = false) by (apply N; left; reflexivity).
      assert (Nu : no_nl u) by (intros c I; apply N; right; exact I).
      change ((a :: u) ++ [x; c_dollar]) with (a :: (u ++ [x; c_dollar])).
      destruct (u ++ [x; c_dollar]) as [|b t'] eqn:E; [destruct u; discriminate|].
      rewrite math_k_step, Na. rewrite <- E. rewrite IH by assumption. simpl. f_equal. lia.
  Qed.

  Lemma math_match_greedy : forall u x, no_nl u -> ceq x c_bs = false ->
    math_match false (c_dollar :: u ++ [x; c_dollar]) = Some (c_dollar :: u ++ [x; c_dollar]).
  Proof.
    intros u x N X. unfold math_match. unfold ceq at 1. rewrite N.eqb_refl. simpl negb. cbn [andb].
    rewrite (math_k_last u x 0 None N X). simpl plus.
    replace (length u + 2) with (length (u ++ [x; c_dollar])) by (rewrite app_length; simpl; lia).
    rewrite firstn_all. reflexivity.
  Qed.

  (* K5: with keep_math, a text that starts with a dollar, has no line break, and ends in a dollar not preceded by a
     backslash is copied whole - nothing between the first and the last dollar is converted *)
  Theorem encode_keeps_first_to_last_dollar : forall eu u x, no_nl u -> ceq x c_bs = false ->
    encode true eu (c_dollar :: u ++ [x; c_dollar]) = c_dollar :: u ++ [x; c_dollar].
  Proof.
    intros eu u x N X. unfold encode, LatexRules.encode.
    set (s := c_dollar :: u ++ [x; c_dollar]).
    assert (M : math_match false s = Some s) by (apply math_match_greedy; assumption).
    unfold s at 1. cbn [LatexRules.enc_go]. fold s. rewrite M.
    rewrite enc_skip.
    assert (Ls : length s - 1 = length (u ++ [x; c_dollar])) by (unfold s; simpl; lia).
    rewrite Ls. rewrite skipn_all2 by lia. simpl. rewrite app_nil_r. reflexivity.
  Qed.

  Lemma math_match_not_dollar : forall pb c r, ceq c c_dollar = false -> math_match pb (c :: r) = None.
  Proof. intros pb c r H. unfold math_match. rewrite H. reflexivity. Qed.

  (* ---- the intended behaviour: ONE span on a line is kept as it is and everything around it is converted *)
  Definition no_dollar (u : str) : Prop := forall c, In c u -> ceq c c_dollar = false.

  (* without a dollar the math rule never fires *)
  Lemma enc_go_no_dollar : forall s pb, no_dollar s -> enc_go true false pb 0 s = flat_map enc_char s.
  Proof.
    induction s as [|c r IH]; intros pb N; [reflexivity|].
    cbn [LatexRules.enc_go flat_map]. rewrite (math_match_not_dollar pb c r (N c (or_introl eq_refl))).
    rewrite IH by (intros x I; apply N; right; exact I). reflexivity.
  Qed.

  Lemma math_k_no_dollar : forall t i best, no_dollar (tl t) -> math_k t i best = best.
  Proof.
    induction t as [|a t IH]; intros i best N; [reflexivity|].
    destruct t as [|b t']; [reflexivity|]. rewrite math_k_step.
    assert (Hb : ceq b c_dollar = false) by (apply N; left; reflexivity).
    rewrite Hb, andb_false_r. destruct (ceq a c_nl); [reflexivity|].
    apply IH. intros x I. apply N. right. exact I.
  Qed.

  Lemma math_k_span : forall u x post i best, no_nl u -> ceq x c_bs = false -> no_dollar post ->
    math_k (u ++ [x; c_dollar] ++ post) i best = Some (i + length u).
  Proof.
    induction u as [|a u IH]; intros x post i best N X P.
    - cbn [app length]. rewrite Nat.add_0_r. rewrite math_k_step, X. cbn [negb andb].
      replace (ceq c_dollar c_dollar) with true by reflexivity.
      destruct (ceq x c_nl); [reflexivity|]. apply math_k_no_dollar. exact P.
    - assert (Na : ceq a c_nl = false) by (apply N; left; reflexivity).
      assert (Nu : no_nl u) by (intros c I; apply N; right; exact I).
      change ((a :: u) ++ [x; c_dollar] ++ post) with (a :: (u ++ [x; c_dollar] ++ post)).
      destruct (u ++ [x; c_dollar] ++ post) as [|b t'] eqn:E; [destruct u; discriminate|].
      rewrite math_k_step, Na. rewrite <- E. rewrite IH by assumption. simpl. f_equal. lia.
  Qed.

  (* pre $ body x $ post, no other dollar, no line break inside the span, the opening dollar not after a backslash:
     the span is copied, pre and post are converted character by character (URL rule off) *)
  Theorem encode_single_span : forall pre u x post,
    no_dollar pre -> ceq (last pre c_sp) c_bs = false ->
    no_nl u -> ceq x c_bs = false -> no_dollar post ->
    encode true false (pre ++ c_dollar :: u ++ [x; c_dollar] ++ post)
    = flat_map enc_char pre ++ (c_dollar :: u ++ [x; c_dollar]) ++ flat_map enc_char post.
  Proof.
    intros pre u x post Npre Lpre Nu X Npost. unfold encode, LatexRules.encode.
    assert (G : forall pb, (pre = [] -> pb = false) ->
                enc_go true false pb 0 (pre ++ c_dollar :: u ++ [x; c_dollar] ++ post)
                = flat_map enc_char pre ++ (c_dollar :: u ++ [x; c_dollar]) ++ flat_map enc_char post);
      [|apply G; reflexivity].
    revert Npre Lpre. induction pre as [|c r IH]; intros Npre Lpre pb Hpb.
    - rewrite (Hpb eq_refl). rewrite app_nil_l. cbn [flat_map]. rewrite app_nil_l.
      set (t := u ++ [x; c_dollar] ++ post).
      assert (M : math_match false (c_dollar :: t) = Some (c_dollar :: u ++ [x; c_dollar])).
      { unfold math_match. replace (ceq c_dollar c_dollar) with true by reflexivity. cbn [negb andb].
        unfold t. rewrite (math_k_span u x post 0 None Nu X Npost). cbn [plus].
        f_equal. f_equal. rewrite app_assoc. rewrite firstn_app.
        replace (length u + 2 - length (u ++ [x; c_dollar])) with 0 by (rewrite app_length; simpl; lia).
        rewrite firstn_O, app_nil_r.
        replace (length u + 2) with (length (u ++ [x; c_dollar])) by (rewrite app_length; simpl; lia).
        apply firstn_all. }
      cbn [LatexRules.enc_go]. rewrite M. rewrite enc_skip.
      replace (length (c_dollar :: u ++ [x; c_dollar]) - 1) with (length (u ++ [x; c_dollar])) by (simpl; lia).
      unfold t. rewrite app_assoc. rewrite skipn_app.
      replace (length (u ++ [x; c_dollar]) - length (u ++ [x; c_dollar])) with 0 by lia.
      rewrite skipn_all, skipn_O. cbn [app]. rewrite enc_go_no_dollar by exact Npost.
      rewrite <- app_assoc. reflexivity.
    - cbn [app flat_map LatexRules.enc_go].
      rewrite (math_match_not_dollar pb c _ (Npre c (or_introl eq_refl))).
      rewrite <- app_assoc. f_equal.
      apply IH.
      + intros y I. apply Npre. right. exact I.
      + destruct r as [|c2 r2]; [reflexivity | exact Lpre].
      + intros ->. simpl in Lpre. exact Lpre.
  Qed.

  (* ---- a URL match starts with `h` or `w`, hence never with a dollar: the math rule does not fire there *)
  Lemma url_match_head : forall s m, url_match s = Some m -> exists c r, s = c :: r /\ (ceq c c_h = true \/ ceq c c_w = true).
  Proof.
    intros s m H. destruct s as [|c r]; [discriminate|]. exists c, r. split; [reflexivity|].
    unfold url_match in H. cbn [starts_with app] in H.
    destruct (N.eqb c_h c) eqn:Eh.
    - left. unfold ceq. rewrite N.eqb_sym. exact Eh.
    - simpl in H. destruct r as [|b [|c2 [|d t]]]; try discriminate.
      right. destruct (ceq c c_w); [reflexivity | simpl in H; discriminate].
  Qed.


  Lemma h_not_dollar : forall c, ceq c c_h = true -> ceq c c_dollar = false.
  Proof. intros c H. apply N.eqb_eq in H. subst. reflexivity. Qed.
  Lemma w_not_dollar : forall c, ceq c c_w = true -> ceq c c_dollar = false.
  Proof. intros c H. apply N.eqb_eq in H. subst. reflexivity. Qed.

  (* the matched URL is a prefix of the text *)
  Lemma nonspace_run_prefix : forall t, exists rest, t = nonspace_run t ++ rest.
  Proof.
    induction t as [|c r [rest IH]]; [exists []; reflexivity|]. simpl.
    destruct (isspace c); [exists (c :: r); reflexivity | exists rest; simpl; f_equal; exact IH].
  Qed.

  Lemma dotted_run_prefix : forall t r, dotted_run t = Some r -> exists rest, t = r ++ rest.
  Proof.
    intros t r H. unfold dotted_run in H. destruct (has_dot (nonspace_run t)); [|discriminate].
    inversion H; subst. apply nonspace_run_prefix.
  Qed.

  Opaque firstn skipn.
  Theorem url_match_prefix : forall s m, url_match s = Some m -> exists rest, s = m ++ rest.
  Proof.
    intros s m H. unfold url_match in H.
    assert (WWW : match s with
                  | a :: b :: c :: d :: t =>
                      if ceq a c_w && ceq b c_w && ceq c c_w && negb (ceq d c_nl)
                      then match dotted_run t with Some r => Some (a :: b :: c :: d :: r) | None => None end else None
                  | _ => None
                  end = Some m -> exists rest, s = m ++ rest).
    { intros W. destruct s as [|a [|b [|c [|d t]]]]; try discriminate.
      destruct (ceq a c_w && ceq b c_w && ceq c c_w && negb (ceq d c_nl)); [|discriminate].
      destruct (dotted_run t) as [r|] eqn:D2; [|discriminate]. inversion W; subst.
      destruct (dotted_run_prefix _ _ D2) as [rest R]. exists rest. simpl. rewrite <- R. reflexivity. }
    destruct (starts_with ([c_h; c_t; c_t; c_p] ++ c_s :: [c_colon; c_slash; c_slash]) s) eqn:E1.
    - destruct (dotted_run (skipn 8 s)) as [r|] eqn:D; [|apply WWW; exact H].
      injection H as Hm. rewrite <- Hm. destruct (dotted_run_prefix _ _ D) as [rest R]. exists rest.
      rewrite <- app_assoc, <- R. symmetry. apply firstn_skipn.
    - destruct (starts_with ([c_h; c_t; c_t; c_p] ++ [c_colon; c_slash; c_slash]) s) eqn:E2; [|apply WWW; exact H].
      destruct (dotted_run (skipn 7 s)) as [r|] eqn:D; [|apply WWW; exact H].
      injection H as Hm. rewrite <- Hm. destruct (dotted_run_prefix _ _ D) as [rest R]. exists rest.
      rewrite <- app_assoc, <- R. symmetry. apply firstn_skipn.
  Qed.

  Transparent firstn skipn.

  Lemma url_match_nonempty : forall s m, url_match s = Some m -> m <> [].
  Proof.
    intros s m H. destruct (url_match_head s m H) as (c & r & -> & _). unfold url_match in H.
    change (firstn 8 (c :: r)) with (c :: firstn 7 r) in H. change (firstn 7 (c :: r)) with (c :: firstn 6 r) in H.
    repeat match type of H with
           | context [if ?b then _ else _] => destruct b
           | context [match dotted_run ?t with Some _ => _ | None => _ end] => destruct (dotted_run t)
           | context [match ?l with [] => _ | _ :: _ => _ end] => destruct l
           end; try discriminate; inversion H; discriminate.
  Qed.

  (* the URL rule: a matched URL is written raw between \url{ and }, and conversion resumes after it *)
  Theorem encode_url_raw : forall km s m pb, url_match s = Some m ->
    enc_go km true pb 0 s = url_open ++ m ++ [c_rb] ++ enc_go km true (pb_after pb (length m) s) 0 (skipn (length m) s).
  Proof.
    intros km s m pb H. destruct (url_match_head s m H) as (c & r & -> & Hc).
    assert (D : ceq c c_dollar = false) by (destruct Hc; [apply h_not_dollar | apply w_not_dollar]; assumption).
    cbn [LatexRules.enc_go]. rewrite (math_match_not_dollar pb c r D).
    replace (if km then None else None) with (@None str) by (destruct km; reflexivity).
    rewrite H. rewrite enc_skip.
    pose proof (url_match_nonempty _ _ H) as Nm.
    destruct m as [|x m']; [contradiction|].
    replace (length (x :: m') - 1) with (length m') by (simpl; lia). reflexivity.
  Qed.

End Proofs.

(* the constructors refuse exactly the combination "custom converter AND one of the two switches given" *)
Lemma resolve_options_refuses : forall custom a b da db,
  resolve_options custom a b da db = None <-> custom = true /\ (a <> None \/ b <> None).
Proof.
  intros [|] [x|] [y|] da db; unfold resolve_options; simpl; split; intros H; try discriminate; try reflexivity;
    try (split; [reflexivity|]; try (left; discriminate); right; discriminate);
    destruct H as [H1 [H2|H2]]; try discriminate; exfalso; apply H2; reflexivity.
Qed.

Lemma resolve_options_defaults : forall da db, resolve_options false None None da db = Some (false, da, db).
Proof. reflexivity. Qed.
