(* Proofs for C17 over an ARBITRARY str.lower (Model/SortFieldsGen.v, Model/FieldKeysGen.v, Spec/C17Gen.v).
   What is assumed about [lowerU]:
     - custom sort (contract form, uniqueness, explicit form), constructor, normalisation (key order, last value,
       no value changed), frame, blockwise form, idempotence of the custom sort:      NOTHING;
     - "the normalised keys are lower-case" and idempotence of NormalizeFieldKeys:     lowerU (lowerU s) = lowerU s,
       and that hypothesis is NECESSARY for each of the two (normalize_idem_iff, keys_lower_iff).
   The hypothesis is always an explicit premise; there is no axiom.  [gen_instance]: with lowerU := Base.Chars.lower
   the generalised definitions are the existing ones, by reflexivity. *)
From Coq Require Import List NArith ZArith Bool Arith Lia Permutation Sorted.
From BP Require Import Base.Chars Base.StableSort Model.Blocks Model.LibRebuild Model.SortFields Model.FieldKeys
  Model.SortFieldsGen Model.FieldKeysGen Spec.C17 Spec.C17Gen Proofs.LibRebuildProofs Proofs.SortFieldsProofs.
Import ListNotations.

Section Gen.
  Variable lowerU : str -> str.

  Notation fold_key_g := (fold_key_gen lowerU).
  Notation folded_g := (folded_gen lowerU).
  Notation custom_rank_g := (custom_rank_gen lowerU).
  Notation custom_le_g := (custom_le_gen lowerU).
  Notation sort_custom_g := (sort_custom_gen lowerU).
  Notation custom_ctor_g := (custom_ctor_gen lowerU).
  Notation custom_block_g := (custom_block_gen lowerU).
  Notation field_pos_g := (field_pos_gen lowerU).
  Notation same_pos_g := (same_pos_gen lowerU).
  Notation custom_spec_g := (custom_spec_gen lowerU).
  Notation has_key_g := (has_key_gen lowerU).
  Notation unlisted_g := (unlisted_gen lowerU).
  Notation custom_explicit_g := (custom_explicit_gen lowerU).
  Notation lkey_g := (lkey_gen lowerU).
  Notation last_with_g := (last_with_gen lowerU).
  Notation lowered_g := (lowered_gen lowerU).
  Notation norm_loop_g := (norm_loop_gen lowerU).
  Notation normalize_fields_g := (normalize_fields_gen lowerU).
  Notation normalize_block_g := (normalize_block_gen lowerU).
  Notation normalize_spec_g := (normalize_spec_gen lowerU).
  Notation keys_lower_g := (keys_lower_gen lowerU).

  (* ================================================================ custom order: no hypothesis *)
  Lemma custom_rank_pos_g cs ord f : custom_rank_g cs ord f = field_pos_g cs ord f.
  Proof. unfold custom_rank_gen, field_pos_gen. apply rank_position. Qed.

  Lemma custom_le_total_g cs ord f g : custom_le_g cs ord f g = true \/ custom_le_g cs ord g f = true.
  Proof. apply nat_leb_total. Qed.
  Lemma custom_le_trans_g cs ord f g h :
    custom_le_g cs ord f g = true -> custom_le_g cs ord g h = true -> custom_le_g cs ord f h = true.
  Proof. apply nat_leb_trans. Qed.

  Lemma eqv_custom_same_pos_g cs ord p f : eqv (custom_le_g cs ord) p f = same_pos_g cs ord p f.
  Proof.
    unfold eqv, custom_le_gen, same_pos_gen. rewrite !custom_rank_pos_g.
    destruct (Nat.eqb_spec (field_pos_g cs ord p) (field_pos_g cs ord f)) as [E|E].
    - rewrite E, Nat.leb_refl. reflexivity.
    - destruct (Nat.leb_spec (field_pos_g cs ord p) (field_pos_g cs ord f));
        destruct (Nat.leb_spec (field_pos_g cs ord f) (field_pos_g cs ord p)); try reflexivity; lia.
  Qed.

  Theorem sort_custom_spec_g cs ord fs : custom_spec_g cs ord fs (sort_custom_g cs ord fs).
  Proof.
    unfold custom_spec_gen, sort_custom_gen. split; [apply isort_perm|]. split.
    - eapply SS_impl; [|exact (isort_sorted _ _ (custom_le_total_g cs ord) (custom_le_trans_g cs ord) fs)].
      intros x y H. unfold leP, custom_le_gen in H. rewrite !custom_rank_pos_g in H. apply Nat.leb_le. exact H.
    - intros p.
      rewrite (filter_ext_In (same_pos_g cs ord p) (eqv (custom_le_g cs ord) p))
        by (intros; symmetry; apply eqv_custom_same_pos_g).
      rewrite (filter_ext_In (same_pos_g cs ord p) (eqv (custom_le_g cs ord) p) fs)
        by (intros; symmetry; apply eqv_custom_same_pos_g).
      exact (isort_stable _ _ (custom_le_trans_g cs ord) p fs).
  Qed.

  Theorem custom_spec_unique_g cs ord fs out : custom_spec_g cs ord fs out -> out = sort_custom_g cs ord fs.
  Proof.
    intros (Hp & Hs & Hf). unfold sort_custom_gen.
    apply (stable_sort_unique _ _ (custom_le_total_g cs ord) (custom_le_trans_g cs ord)). split; [exact Hp|]. split.
    - eapply SS_impl; [|exact Hs]. intros x y H. unfold leP, custom_le_gen. rewrite !custom_rank_pos_g.
      apply Nat.leb_le. exact H.
    - intros p. rewrite !(filter_ext_In _ _ _ (fun x _ => eqv_custom_same_pos_g cs ord p x)). apply Hf.
  Qed.

  Lemma sort_custom_idem_g cs ord fs : sort_custom_g cs ord (sort_custom_g cs ord fs) = sort_custom_g cs ord fs.
  Proof. exact (isort_idem _ _ (custom_le_total_g cs ord) (custom_le_trans_g cs ord) fs). Qed.

  (* ---- the constructor *)
  Theorem custom_ctor_error_g cs order : custom_ctor_g cs order = None <-> ~ NoDup (map (folded_g cs) order).
  Proof.
    unfold custom_ctor_gen. change (fold_key_g cs) with (folded_g cs).
    destruct (has_dup (map (folded_g cs) order)) eqn:E; split; intros H; try reflexivity; try discriminate.
    - intros Hn. apply has_dup_false in Hn. congruence.
    - exfalso. apply H. apply has_dup_false. exact E.
  Qed.

  Theorem custom_ctor_ok_g cs order ord :
    custom_ctor_g cs order = Some ord -> ord = map (folded_g cs) order /\ NoDup ord.
  Proof.
    unfold custom_ctor_gen. change (fold_key_g cs) with (folded_g cs).
    destruct (has_dup (map (folded_g cs) order)) eqn:E; intros H; [discriminate|].
    injection H as H. subst ord. split; [reflexivity | apply has_dup_false; exact E].
  Qed.

  (* ---- explicit form *)
  Theorem sort_custom_explicit_g cs ord fs : NoDup ord -> sort_custom_g cs ord fs = custom_explicit_g cs ord fs.
  Proof.
    unfold sort_custom_gen, custom_explicit_gen. revert fs.
    induction ord as [|k ord IH]; intros fs Hnd.
    - cbn [flat_map app]. rewrite filter_all by reflexivity.
      apply isort_sorted_id; [apply custom_le_total_g | apply custom_le_trans_g|].
      assert (H : forall l : list field, StronglySorted (leP (custom_le_g cs [])) l).
      { induction l as [|x l IHl]; constructor; [exact IHl|]. apply Forall_forall. intros y _. reflexivity. }
      apply H.
    - inversion Hnd as [|? ? Hk Hnd']; subst.
      rewrite (isort_partition _ (custom_le_g cs (k :: ord)) (has_key_g cs k)).
      + cbn [flat_map]. rewrite <- app_assoc. f_equal.
        set (rest := filter (fun x => negb (has_key_g cs k x)) fs).
        assert (Hrest : forall x, In x rest -> has_key_g cs k x = false).
        { intros x Hx. apply filter_In in Hx as [_ Hx]. apply negb_true_iff in Hx. exact Hx. }
        rewrite (isort_ext_In (custom_le_g cs (k :: ord)) (custom_le_g cs ord) rest).
        2:{ intros x y Hx Hy. unfold custom_le_gen. rewrite !custom_rank_pos_g. unfold field_pos_gen. cbn [position].
            pose proof (Hrest x Hx) as Ex. pose proof (Hrest y Hy) as Ey. unfold has_key_gen in Ex, Ey.
            rewrite Ex, Ey. reflexivity. }
        rewrite IH by exact Hnd'. f_equal.
        * assert (Hfm : forall l, (forall k', In k' l -> k' <> k) ->
                    flat_map (fun k' => filter (has_key_g cs k') rest) l
                    = flat_map (fun k' => filter (has_key_g cs k') fs) l).
          { induction l as [|k' l IHl]; intros Hl; [reflexivity|]. cbn [flat_map]. f_equal.
            - unfold rest. rewrite filter_filter_and. apply filter_ext_In. intros x _.
              unfold has_key_gen. destruct (str_eqb (folded_g cs (fkey x)) k') eqn:E1; [|reflexivity].
              apply str_eqb_eq in E1. assert (Hne : k' <> k) by (apply Hl; left; reflexivity).
              assert (E2 : str_eqb (folded_g cs (fkey x)) k = false) by (apply str_eqb_neq; congruence).
              rewrite E2. reflexivity.
            - apply IHl. intros k'' Hk''. apply Hl. right; exact Hk''. }
          apply Hfm. intros k' Hk' ->. contradiction.
        * unfold rest. rewrite filter_filter_and. apply filter_ext_In. intros x _.
          unfold unlisted_gen, has_key_gen. cbn [mem_str]. rewrite negb_orb, andb_comm. reflexivity.
      + intros x y Hx. unfold custom_le_gen. rewrite !custom_rank_pos_g. unfold field_pos_gen. cbn [position].
        unfold has_key_gen in Hx. rewrite Hx. reflexivity.
      + intros x y Hx Hy. unfold custom_le_gen. rewrite !custom_rank_pos_g. unfold field_pos_gen. cbn [position].
        unfold has_key_gen in Hx, Hy. rewrite Hx, Hy. reflexivity.
  Qed.

  Theorem custom_explicit_after_ctor_g cs order ord fs :
    custom_ctor_g cs order = Some ord -> sort_custom_g cs ord fs = custom_explicit_g cs ord fs.
  Proof. intros H. apply sort_custom_explicit_g. apply (custom_ctor_ok_g _ _ _ H). Qed.

  (* ================================================================ key normalisation: no hypothesis *)
  Lemma norm_loop_keys_g fs : forall d, map fst (norm_loop_g d fs) = fold_left add_key (map lkey_g fs) (map fst d).
  Proof.
    induction fs as [|f r IH]; intros d; [reflexivity|]. cbn [norm_loop_gen map fold_left].
    rewrite IH, dict_keys_set. reflexivity.
  Qed.

  Lemma norm_loop_wf_g fs : forall d, Forall (fun kv => fkey (snd kv) = fst kv) d ->
                                      Forall (fun kv => fkey (snd kv) = fst kv) (norm_loop_g d fs).
  Proof.
    induction fs as [|f r IH]; intros d Hd; [exact Hd|]. cbn [norm_loop_gen]. apply IH.
    clear IH. induction d as [|[k0 v0] d IHd]; cbn [dict_set].
    - constructor; [reflexivity | constructor].
    - inversion Hd; subst. destruct (str_eqb (lowerU (fkey f)) k0) eqn:E.
      + constructor; [|assumption]. cbn. apply str_eqb_eq in E. exact E.
      + constructor; [assumption | apply IHd; assumption].
  Qed.

  Lemma normalize_keys_g fs : map fkey (normalize_fields_g fs) = keep_first (map lkey_g fs) /\
                              map fst (norm_loop_g [] fs) = keep_first (map lkey_g fs).
  Proof.
    assert (H : map fst (norm_loop_g [] fs) = keep_first (map lkey_g fs)).
    { rewrite norm_loop_keys_g, fold_add_key. cbn [map app]. apply filter_all. reflexivity. }
    split; [|exact H].
    rewrite <- H. unfold normalize_fields_gen. pose proof (norm_loop_wf_g fs [] (Forall_nil _)) as Hwf.
    clear H. revert Hwf. generalize (norm_loop_g [] fs) as d. clear.
    induction d as [|kv d IHd]; intros Hwf; [reflexivity|]. inversion Hwf; subst. cbn [map]. f_equal; auto.
  Qed.

  Lemma norm_loop_get_g fs : forall d k,
    dict_get (norm_loop_g d fs) k = match last_with_g k fs with Some g => Some (lowered_g g) | None => dict_get d k end.
  Proof.
    induction fs as [|f r IH]; intros d k; [reflexivity|]. cbn [norm_loop_gen last_with_gen].
    rewrite IH. destruct (last_with_g k r); [reflexivity|].
    rewrite dict_get_set. unfold lkey_gen. rewrite (str_eqb_sym k). destruct (str_eqb (lowerU (fkey f)) k); reflexivity.
  Qed.

  Lemma norm_loop_nodup_g fs : forall d, NoDup (map fst d) -> NoDup (map fst (norm_loop_g d fs)).
  Proof.
    induction fs as [|f r IH]; intros d H; [exact H|]. cbn [norm_loop_gen]. apply IH. apply dict_keys_set_nodup. exact H.
  Qed.

  Lemma last_with_In_g k fs g : last_with_g k fs = Some g -> In g fs /\ lkey_g g = k.
  Proof.
    induction fs as [|f r IH]; [discriminate|]. cbn [last_with_gen]. destruct (last_with_g k r) as [g'|].
    - intros H. injection H as ->. destruct (IH eq_refl) as [H1 H2]. split; [right; exact H1 | exact H2].
    - destruct (str_eqb (lkey_g f) k) eqn:E; [|discriminate]. intros H. injection H as ->.
      apply str_eqb_eq in E. split; [left; reflexivity | exact E].
  Qed.

  (* every output field is the lowered last source field carrying its key *)
  Lemma normalize_values_g fs o : In o (normalize_fields_g fs) ->
    exists g, last_with_g (fkey o) fs = Some g /\ o = lowered_g g.
  Proof.
    assert (Hnd : NoDup (map fst (norm_loop_g [] fs))) by (apply norm_loop_nodup_g; constructor).
    intros Ho. unfold normalize_fields_gen in Ho. apply in_map_iff in Ho as ([k v] & Hv & Hin). cbn in Hv. subst v.
    pose proof (dict_get_In _ _ _ _ Hnd Hin) as Hg. rewrite norm_loop_get_g in Hg. cbn [dict_get] in Hg.
    destruct (last_with_g k fs) as [g|] eqn:El; [|discriminate]. injection Hg as Hg.
    destruct (last_with_In_g _ _ _ El) as [_ Hlk].
    exists g. split; [|congruence]. subst o. cbn [lowered_gen fkey]. unfold lkey_gen in Hlk. rewrite Hlk. exact El.
  Qed.

  Theorem normalize_fields_spec_g fs : normalize_spec_g fs (normalize_fields_g fs).
  Proof.
    destruct (normalize_keys_g fs) as [Hk _].
    unfold normalize_spec_gen. split; [exact Hk|]. split; [rewrite Hk; apply keep_first_nodup|].
    intros o Ho. destruct (normalize_values_g fs o Ho) as (g & Hl & ->). exists g.
    destruct (last_with_In_g _ _ _ Hl) as [Hin _]. repeat split; try assumption.
  Qed.

  (* ================================================================ where idempotence of lower() enters *)
  Theorem normalize_keys_lower_g : lower_idempotent lowerU -> forall fs, keys_lower_g (normalize_fields_g fs).
  Proof.
    intros Hid fs. apply Forall_forall. intros o Ho. destruct (normalize_values_g fs o Ho) as (g & _ & ->).
    cbn [lowered_gen fkey]. apply Hid.
  Qed.

  Lemma norm_loop_fresh_g l : forall d,
    NoDup (map fkey l) -> Forall (fun f => lowerU (fkey f) = fkey f) l -> (forall f, In f l -> ~ In (fkey f) (map fst d)) ->
    norm_loop_g d l = d ++ map (fun f => (fkey f, f)) l.
  Proof.
    induction l as [|f r IH]; intros d Hnd Hlow Hdis; [cbn; rewrite app_nil_r; reflexivity|].
    cbn [norm_loop_gen map]. inversion Hnd as [|? ? Hf Hnd']; subst. inversion Hlow as [|? ? Hlf Hlow']; subst.
    assert (El : lowered_g f = f) by (destruct f as [k v ln]; unfold lowered_gen; cbn in *; rewrite Hlf; reflexivity).
    rewrite Hlf, El. rewrite dict_set_fresh by (apply Hdis; left; reflexivity).
    rewrite IH; [rewrite <- app_assoc; reflexivity | exact Hnd' | exact Hlow' |].
    intros g Hg. rewrite map_app, in_app_iff. cbn [map fst In]. intros [H|[H|[]]].
    - eapply Hdis; [right; exact Hg | exact H].
    - apply Hf. rewrite H. apply in_map. exact Hg.
  Qed.

  Theorem normalize_fields_idem_g : lower_idempotent lowerU ->
    forall fs, normalize_fields_g (normalize_fields_g fs) = normalize_fields_g fs.
  Proof.
    intros Hid fs. destruct (normalize_fields_spec_g fs) as (_ & Hnd & _).
    pose proof (normalize_keys_lower_g Hid fs) as Hlow.
    unfold normalize_fields_gen at 1. rewrite norm_loop_fresh_g; try assumption; [|intros f _ []].
    cbn [app]. rewrite map_map. cbn [snd]. apply map_id.
  Qed.

  (* the hypothesis is necessary: a one-field entry already shows it *)
  Lemma normalize_single_g k v ln : normalize_fields_g [mkfield k v ln] = [mkfield (lowerU k) v ln].
  Proof. reflexivity. Qed.

  Theorem normalize_idem_iff :
    (forall fs, normalize_fields_g (normalize_fields_g fs) = normalize_fields_g fs) <-> lower_idempotent lowerU.
  Proof.
    split; [|apply normalize_fields_idem_g].
    intros H s. specialize (H [mkfield s (VInt 0) None]). rewrite !normalize_single_g in H.
    injection H as H. exact H.
  Qed.

  Theorem keys_lower_iff : (forall fs, keys_lower_g (normalize_fields_g fs)) <-> lower_idempotent lowerU.
  Proof.
    split; [|apply normalize_keys_lower_g].
    intros H s. specialize (H [mkfield s (VInt 0) None]). rewrite normalize_single_g in H.
    inversion H as [|? ? H1 _]; subst. exact H1.
  Qed.

  (* ================================================================ blocks and libraries *)
  Definition mw_custom_gen (cs tup : bool) (ord : list str) : list block -> list block :=
    block_mw (custom_block_g cs tup ord).
  Definition mw_normalize_gen : list block -> list block := block_mw normalize_block_g.

  Lemma custom_block_frame_g cs tup ord b : block_frame (Some custom_meta_key) b (custom_block_g cs tup ord b).
  Proof. apply on_entry_frame_gen. intros h. apply set_meta_frame. Qed.
  Lemma normalize_block_frame_g b : block_frame None b (normalize_block_g b).
  Proof. apply on_entry_frame_gen. intros h. cbn. auto. Qed.

  Lemma custom_block_idem_g cs tup ord b :
    custom_block_g cs tup ord (custom_block_g cs tup ord b) = custom_block_g cs tup ord b.
  Proof. apply on_entry_idem; [intros; apply set_meta_idem | apply sort_custom_idem_g]. Qed.
  Lemma normalize_block_idem_g : lower_idempotent lowerU ->
    forall b, normalize_block_g (normalize_block_g b) = normalize_block_g b.
  Proof. intros Hid. apply on_entry_idem; [reflexivity | apply normalize_fields_idem_g; exact Hid]. Qed.

  (* frame (no hypothesis on lowerU): on a library satisfying Library's key invariant the result corresponds
     block for block, it IS the block-wise image, and an entry keeps type and key and gets the sorted /
     normalised fields *)
  Theorem frame_all_g bs : lib_ok bs ->
    (forall cs tup ord, lib_frame (Some custom_meta_key) bs (mw_custom_gen cs tup ord bs))
    /\ lib_frame None bs (mw_normalize_gen bs)
    /\ (forall cs tup ord, mw_custom_gen cs tup ord bs = map (custom_block_g cs tup ord) bs)
    /\ mw_normalize_gen bs = map normalize_block_g bs
    /\ (forall h t k fs,
          (forall cs tup ord, exists h',
              custom_block_g cs tup ord (BEntry h t k fs) = BEntry h' t k (sort_custom_g cs ord fs))
          /\ normalize_block_g (BEntry h t k fs) = BEntry h t k (normalize_fields_g fs)).
  Proof.
    intros H. split; [|split; [|split; [|split]]].
    - intros cs tup ord. apply block_mw_frame; [exact H | apply custom_block_frame_g].
    - apply block_mw_frame; [exact H | apply normalize_block_frame_g].
    - intros cs tup ord. apply block_mw_ok; exact H.
    - apply block_mw_ok; exact H.
    - intros h t k fs. split; [intros; eexists; reflexivity | reflexivity].
  Qed.

  (* idempotence: custom sort for every lowerU; normalisation exactly when lowerU is idempotent
     (library level, ANY list of blocks; and field level) *)
  Lemma mw_normalize_single_g k v ln :
    mw_normalize_gen [BEntry hdr0 [] [] [mkfield k v ln]] = [BEntry hdr0 [] [] [mkfield (lowerU k) v ln]].
  Proof. reflexivity. Qed.

  Theorem idem_all_g :
    (forall cs tup ord bs, mw_custom_gen cs tup ord (mw_custom_gen cs tup ord bs) = mw_custom_gen cs tup ord bs)
    /\ (forall cs ord fs, sort_custom_g cs ord (sort_custom_g cs ord fs) = sort_custom_g cs ord fs)
    /\ (lower_idempotent lowerU ->
          (forall bs, mw_normalize_gen (mw_normalize_gen bs) = mw_normalize_gen bs)
          /\ (forall fs, normalize_fields_g (normalize_fields_g fs) = normalize_fields_g fs)
          /\ (forall fs, keys_lower_g (normalize_fields_g fs)))
    /\ ((forall bs, mw_normalize_gen (mw_normalize_gen bs) = mw_normalize_gen bs) -> lower_idempotent lowerU)
    /\ ((forall fs, normalize_fields_g (normalize_fields_g fs) = normalize_fields_g fs) -> lower_idempotent lowerU)
    /\ ((forall fs, keys_lower_g (normalize_fields_g fs)) -> lower_idempotent lowerU).
  Proof.
    split; [|split; [|split; [|split; [|split]]]].
    - intros cs tup ord bs. apply block_mw_idem. apply custom_block_idem_g.
    - intros cs ord fs. apply sort_custom_idem_g.
    - intros Hid. split; [|split].
      + intros bs. apply block_mw_idem. apply normalize_block_idem_g. exact Hid.
      + apply normalize_fields_idem_g. exact Hid.
      + apply normalize_keys_lower_g. exact Hid.
    - intros H s. specialize (H [BEntry hdr0 [] [] [mkfield s (VInt 0) None]]).
      rewrite !mw_normalize_single_g in H. injection H as H. exact H.
    - apply normalize_idem_iff.
    - apply keys_lower_iff.
  Qed.
End Gen.

(* ================================================================ assembled statements (Properties/C17.v) *)
Theorem gen_custom (lowerU : str -> str) cs ord fs :
  custom_spec_gen lowerU cs ord fs (sort_custom_gen lowerU cs ord fs)
  /\ (forall out, custom_spec_gen lowerU cs ord fs out -> out = sort_custom_gen lowerU cs ord fs)
  /\ (forall order, custom_ctor_gen lowerU cs order = Some ord ->
        sort_custom_gen lowerU cs ord fs = custom_explicit_gen lowerU cs ord fs).
Proof.
  split; [apply sort_custom_spec_g | split].
  - intros out. apply custom_spec_unique_g.
  - intros order. apply custom_explicit_after_ctor_g.
Qed.

Theorem gen_ctor (lowerU : str -> str) cs order :
  (custom_ctor_gen lowerU cs order = None <-> ~ NoDup (map (folded_gen lowerU cs) order))
  /\ (forall ord, custom_ctor_gen lowerU cs order = Some ord -> ord = map (folded_gen lowerU cs) order /\ NoDup ord).
Proof. split; [apply custom_ctor_error_g | intros ord; apply custom_ctor_ok_g]. Qed.

(* keys = first occurrences of the lowerU names, in order; value and line of the last occurrence; no value changed:
   for every lowerU.  The keys are fixed points of lowerU ("lower-case") as soon as lowerU is idempotent. *)
Theorem gen_normalize (lowerU : str -> str) fs :
  normalize_spec_gen lowerU fs (normalize_fields_gen lowerU fs)
  /\ (lower_idempotent lowerU -> keys_lower_gen lowerU (normalize_fields_gen lowerU fs)).
Proof. split; [apply normalize_fields_spec_g | intros H; apply normalize_keys_lower_g; exact H]. Qed.

(* ================================================================ the ASCII instance *)
(* with lowerU := Base.Chars.lower the generalised model and specification are the existing ones (conversion) *)
Theorem gen_instance :
  (* model *)
  (forall cs k, fold_key_gen lower cs k = fold_key cs k)
  /\ (forall cs order, custom_ctor_gen lower cs order = custom_ctor cs order)
  /\ (forall cs ord f, custom_rank_gen lower cs ord f = custom_rank cs ord f)
  /\ (forall cs ord fs, sort_custom_gen lower cs ord fs = sort_custom cs ord fs)
  /\ (forall cs tup ord b, custom_block_gen lower cs tup ord b = custom_block cs tup ord b)
  /\ (forall f, lowered_gen lower f = lowered f)
  /\ (forall d fs, norm_loop_gen lower d fs = norm_loop d fs)
  /\ (forall fs, normalize_fields_gen lower fs = normalize_fields fs)
  /\ (forall b, normalize_block_gen lower b = normalize_block b)
  /\ (forall cs tup ord bs, mw_custom_gen lower cs tup ord bs = mw_custom cs tup ord bs)
  /\ (forall bs, mw_normalize_gen lower bs = mw_normalize bs)
  (* specification *)
  /\ (forall cs k, folded_gen lower cs k = folded cs k)
  /\ (forall cs ord f, field_pos_gen lower cs ord f = field_pos cs ord f)
  /\ (forall cs ord fs out, custom_spec_gen lower cs ord fs out = custom_spec cs ord fs out)
  /\ (forall cs ord fs, custom_explicit_gen lower cs ord fs = custom_explicit cs ord fs)
  /\ (forall k fs, last_with_gen lower k fs = last_with k fs)
  /\ (forall fs out, (normalize_spec_gen lower fs out /\ keys_lower_gen lower out) <-> normalize_spec fs out)
  (* and the hypothesis of the idempotence theorem holds of it *)
  /\ lower_idempotent lower.
Proof.
  repeat match goal with |- _ /\ _ => split end; try (intros; reflexivity).
  - intros fs out. unfold normalize_spec_gen, keys_lower_gen, normalize_spec.
    change (lkey_gen lower) with lkey. change (last_with_gen lower) with last_with.
    split.
    + intros ((H1 & H2 & H3) & H4). repeat split; try assumption.
      intros o Ho. destruct (H3 o Ho) as (g & G1 & G2 & _ & G4 & G5). exists g. repeat split; assumption.
    + intros (H1 & H2 & H3 & H4). repeat split; try assumption.
      intros o Ho. destruct (H4 o Ho) as (g & G1 & G2 & G4 & G5). exists g.
      destruct (last_with_In _ _ _ G1) as [_ Hk]. repeat split; try assumption. symmetry. exact Hk.
  - exact lower_idem.
Qed.
