(* C14, person level for strings:  spec_parse s = Some p, admissible p  ->  spec_parse (merge1 p) = Some p
   (and hence, by the tokeniser agreement of C13, the same for parse_name true).

   A  text / atoms
   B  the words of a valid name are "good": non-empty, canonical atom lists without depth-0 separators, balanced
   C  tokenising the rendering of a layout of good words gives the layout back
   D  merge_last_name_first is that rendering; assembly with the partition-level inverse *)
From Coq Require Import List NArith ZArith Bool Lia PeanoNat.
From BP Require Import Base.Chars Model.Blocks Gen.Constants Model.Names Spec.C13 Spec.C14
                       Proofs.NamesPartProofs Proofs.NamesParseProofs Proofs.NamesTokProofs Proofs.NamesInverseProofs.
Import ListNotations.

(* ---------------------------------------------------------------- A: text and atoms *)
Lemma text_cons a l : text (a :: l) = atom_text a ++ text l.
Proof. reflexivity. Qed.
Lemma text_app a b : text (a ++ b) = text a ++ text b.
Proof. unfold text. rewrite map_app, concat_app. reflexivity. Qed.

Lemma atoms_nbs c r : ceq c c_bs = false -> atoms (c :: r) = AChar c :: atoms r.
Proof. intros H. cbn [atoms]. rewrite H. reflexivity. Qed.
Lemma atoms_bs_ws e r : ws_parse e = true -> atoms (c_bs :: e :: r) = AChar c_bs :: AChar e :: atoms r.
Proof. intros H. cbn [atoms]. replace (ceq c_bs c_bs) with true by reflexivity. rewrite H. reflexivity. Qed.
Lemma atoms_bs_pair e r : ws_parse e = false -> atoms (c_bs :: e :: r) = APair e :: atoms r.
Proof. intros H. cbn [atoms]. replace (ceq c_bs c_bs) with true by reflexivity. rewrite H. reflexivity. Qed.

(* atom lists as [atoms] produces them: a lone backslash is last or followed by whitespace; a pair is not backslash+whitespace *)
Fixpoint wfa (l : list atom) : Prop :=
  match l with
  | [] => True
  | APair c :: r => ws_parse c = false /\ wfa r
  | AChar c :: r =>
      (ceq c c_bs = true -> match r with [] => True | AChar e :: _ => ws_parse e = true | APair _ :: _ => False end) /\ wfa r
  end.

Lemma wfa_atoms : forall n s, (length s <= n)%nat -> wfa (atoms s).
Proof.
  induction n as [|n IH]; intros s Hn.
  - destruct s; [exact I | simpl in Hn; lia].
  - destruct s as [|c r]; [exact I|]. cbn [atoms].
    destruct (ceq c c_bs) eqn:Ec.
    + destruct r as [|e r']; [cbn; auto|].
      destruct (ws_parse e) eqn:Ee.
      * cbn [wfa]. split; [intros _; exact Ee|]. split.
        -- intros Hb. destruct (ws_parse_facts e Ee) as (_ & _ & E3 & _). rewrite E3 in Hb. discriminate.
        -- apply IH. simpl in Hn. lia.
      * cbn [wfa]. split; [exact Ee|]. apply IH. simpl in Hn. lia.
    + cbn [wfa]. split; [intros H; rewrite H in Ec; discriminate|]. apply IH. simpl in Hn. lia.
Qed.

Lemma wfa_app_l a b : wfa (a ++ b) -> wfa a.
Proof.
  induction a as [|x a IH]; intros H; [exact I|]. cbn [app wfa] in *. destruct x as [c|c].
  - destruct H as [H1 H2]. split; [exact H1 | apply IH; exact H2].
  - destruct H as [H1 H2]. split; [|apply IH; exact H2].
    intros Hc. specialize (H1 Hc). destruct a as [|y a]; [exact I|]. exact H1.
Qed.
Lemma wfa_app_r a b : wfa (a ++ b) -> wfa b.
Proof.
  induction a as [|x a IH]; intros H; [exact H|]. cbn [app wfa] in H. destruct x; apply IH; apply H.
Qed.

(* a lone backslash at the very end *)
Definition pend (w : list atom) : bool := match last w (APair 0%N) with AChar c => ceq c c_bs | APair _ => false end.

Definition starts_ws (rest : str) : Prop := match rest with [] => True | e :: _ => ws_parse e = true end.

Lemma atoms_text_app w : wfa w -> forall rest, (pend w = false \/ starts_ws rest) -> atoms (text w ++ rest) = w ++ atoms rest.
Proof.
  induction w as [|a w IH]; intros Hw rest Hr; [reflexivity|].
  rewrite text_cons, <- app_assoc. destruct a as [c|c]; cbn [atom_text app].
  - (* pair *)
    destruct Hw as [Hc Hw]. rewrite atoms_bs_pair by exact Hc. rewrite IH; [reflexivity | exact Hw |].
    destruct Hr as [Hp|Hs]; [left | right; exact Hs].
    unfold pend in *. destruct w; [reflexivity | exact Hp].
  - destruct Hw as [Hbs Hw].
    assert (Hr' : pend w = false \/ starts_ws rest).
    { destruct Hr as [Hp|Hs]; [|right; exact Hs]. destruct w as [|y w]; [left; reflexivity | left; exact Hp]. }
    destruct (ceq c c_bs) eqn:Ec.
    + apply N.eqb_eq in Ec. subst c. specialize (Hbs eq_refl).
      destruct w as [|y w].
      * (* the backslash is the last atom *)
        cbn [text concat map app]. destruct Hr as [Hp|Hs]; [cbv in Hp; discriminate|].
        destruct rest as [|e r]; [reflexivity|]. cbn in Hs. rewrite atoms_bs_ws by exact Hs.
        destruct (ws_parse_facts e Hs) as (_ & _ & E3 & _). rewrite atoms_nbs by exact E3. reflexivity.
      * destruct y as [e|e]; [contradiction|].
        specialize (IH Hw rest Hr').
        rewrite text_cons in *. cbn [atom_text app] in *. rewrite atoms_bs_ws by exact Hbs.
        destruct (ws_parse_facts e Hbs) as (_ & _ & E3 & _). rewrite atoms_nbs in IH by exact E3.
        inversion IH as [IH']. rewrite IH'. reflexivity.
    + rewrite atoms_nbs by exact Ec. rewrite IH; [reflexivity | exact Hw | exact Hr'].
Qed.

Lemma atoms_text w : wfa w -> atoms (text w) = w.
Proof.
  intros H. pose proof (atoms_text_app w H [] (or_intror I)) as E. rewrite !app_nil_r in E. exact E.
Qed.

Lemma text_atoms : forall n s, (length s <= n)%nat -> text (atoms s) = s.
Proof.
  induction n as [|n IH]; intros s Hn.
  - destruct s; [reflexivity | simpl in Hn; lia].
  - destruct s as [|c r]; [reflexivity|]. cbn [atoms].
    destruct (ceq c c_bs) eqn:Ec.
    + apply N.eqb_eq in Ec. subst c. destruct r as [|e r']; [reflexivity|].
      destruct (ws_parse e); rewrite !text_cons; cbn [atom_text app]; rewrite IH by (simpl in Hn; lia); reflexivity.
    + rewrite text_cons. cbn [atom_text app]. rewrite IH by (simpl in Hn; lia). reflexivity.
Qed.

(* ---------------------------------------------------------------- B: words of a valid name are good *)
(* the depth after l when no separator of depth 0 and no unmatched closing brace is met *)
Fixpoint scan (sep : ch -> bool) (l : list atom) (d : N) : option N :=
  match l with
  | [] => Some d
  | a :: r => if is_sep sep d a then None
              else if negb (is_open a) && is_close a && (d =? 0)%N then None
              else scan sep r (dupd d a)
  end.

Lemma scan_app sep a : forall b d, scan sep (a ++ b) d = match scan sep a d with Some d' => scan sep b d' | None => None end.
Proof.
  induction a as [|x a IH]; intros b d; [reflexivity|]. cbn [app scan].
  destruct (is_sep sep d x); [reflexivity|]. destruct (negb (is_open x) && is_close x && (d =? 0)%N); [reflexivity|]. apply IH.
Qed.

Lemma bal_cons a r d : balanced_from (a :: r) d =
  if negb (is_open a) && is_close a && (d =? 0)%N then false else balanced_from r (dupd d a).
Proof.
  cbn [balanced_from]. unfold dupd. destruct (is_open a); [reflexivity|]. destruct (is_close a); [|reflexivity].
  cbn [negb andb]. destruct (d =? 0)%N; reflexivity.
Qed.

Lemma scan_bal sep l : forall d d' X, scan sep l d = Some d' -> balanced_from (l ++ X) d = balanced_from X d'.
Proof.
  induction l as [|a l IH]; intros d d' X H; cbn [scan] in H.
  - inversion H; subst. reflexivity.
  - destruct (is_sep sep d a); [discriminate|].
    cbn [app]. rewrite bal_cons. destruct (negb (is_open a) && is_close a && (d =? 0)%N); [discriminate|].
    apply IH. exact H.
Qed.

Lemma cut_scan_app sep w : forall r d d' cur, scan sep w d = Some d' ->
  cut_go sep (w ++ r) d cur = cut_go sep r d' (rev w ++ cur).
Proof.
  induction w as [|a w IH]; intros r d d' cur H; cbn [scan] in H.
  - inversion H; subst. reflexivity.
  - destruct (is_sep sep d a) eqn:Es; [discriminate|].
    destruct (negb (is_open a) && is_close a && (d =? 0)%N); [discriminate|].
    cbn [app]. rewrite cut_go_step, Es. rewrite (IH _ _ _ _ H). cbn [rev]. rewrite <- app_assoc. reflexivity.
Qed.

Lemma scan_snoc sep p a : scan sep (p ++ [a]) 0 = match scan sep p 0 with
  | Some d => if is_sep sep d a then None else if negb (is_open a) && is_close a && (d =? 0)%N then None else Some (dupd d a)
  | None => None end.
Proof.
  rewrite scan_app. destruct (scan sep p 0%N) as [d0|]; [|reflexivity]. cbn [scan].
  destruct (is_sep sep d0 a); [reflexivity|]. destruct (negb (is_open a) && is_close a && (d0 =? 0)%N); reflexivity.
Qed.

Lemma is_sep_props sep d a : is_sep sep d a = true -> d = 0%N /\ is_open a = false /\ is_close a = false /\ dupd d a = d.
Proof.
  unfold is_sep, dupd. destruct (is_open a), (is_close a); cbn; try discriminate.
  destruct a as [c|c]; [discriminate|]. intros H. apply andb_true_iff in H. destruct H as [H _]. apply N.eqb_eq in H. auto.
Qed.

(* pieces of a balanced list cut at depth-0 separators contain no separator, and are balanced *)
Lemma cut_scan sep l : forall d cur, balanced_from l d = true -> scan sep (rev cur) 0 = Some d ->
  Forall (fun p => scan sep p 0 = Some 0%N) (cut_go sep l d cur).
Proof.
  induction l as [|a l IH]; intros d cur Hb Hs.
  - cbn in *. apply N.eqb_eq in Hb. subst d. constructor; [exact Hs | constructor].
  - rewrite cut_go_step. rewrite bal_cons in Hb.
    destruct (is_sep sep d a) eqn:Es.
    + destruct (is_sep_props _ _ _ Es) as (Hd & Ho & Hc & Hdu). subst d.
      rewrite Ho, Hc in Hb. cbn in Hb. rewrite Hdu in Hb.
      constructor; [exact Hs|]. apply IH; [exact Hb | reflexivity].
    + destruct (negb (is_open a) && is_close a && (d =? 0)%N) eqn:Ec; [discriminate|].
      apply IH; [exact Hb|]. cbn [rev]. rewrite scan_snoc, Hs, Es, Ec. reflexivity.
Qed.

(* ... and no separator of another kind either, if the list has none *)
Lemma cut_scan2 (A B : ch -> bool) l : forall d cur, scan A l d = Some 0%N -> scan A (rev cur) 0 = Some d ->
  Forall (fun p => scan A p 0 = Some 0%N) (cut_go B l d cur).
Proof.
  induction l as [|a l IH]; intros d cur Hl Hs.
  - cbn in *. inversion Hl; subst. constructor; [exact Hs | constructor].
  - rewrite cut_go_step. cbn [scan] in Hl.
    destruct (is_sep A d a) eqn:EA; [discriminate|].
    destruct (negb (is_open a) && is_close a && (d =? 0)%N) eqn:Ec; [discriminate|].
    destruct (is_sep B d a) eqn:EB.
    + destruct (is_sep_props _ _ _ EB) as (Hd & Ho & Hc & Hdu). subst d. rewrite Hdu in Hl.
      constructor; [exact Hs|]. apply IH; [exact Hl | reflexivity].
    + apply IH; [exact Hl|]. cbn [rev]. rewrite scan_snoc, Hs, EA, Ec. reflexivity.
Qed.

Lemma cut_wfa sep l : forall d cur, wfa (rev cur ++ l) -> Forall wfa (cut_go sep l d cur).
Proof.
  induction l as [|a l IH]; intros d cur H.
  - cbn. rewrite app_nil_r in H. constructor; [exact H | constructor].
  - rewrite cut_go_step. destruct (is_sep sep d a).
    + constructor; [apply (wfa_app_l _ _ H)|]. apply IH. cbn [rev app].
      apply wfa_app_r in H. change (a :: l) with ([a] ++ l) in H. apply wfa_app_r in H. exact H.
    + apply IH. cbn [rev]. rewrite <- app_assoc. exact H.
Qed.

Record good (w : list atom) : Prop := mkgood {
  gd_ne : w <> [];
  gd_wfa : wfa w;
  gd_ws : scan ws_parse w 0 = Some 0%N;
  gd_comma : scan comma w 0 = Some 0%N
}.

Lemma Forall_filter {A} (P : A -> Prop) f l : Forall P l -> Forall P (filter f l).
Proof. intros H. apply Forall_forall. intros x Hin. apply filter_In in Hin. rewrite Forall_forall in H. apply H. tauto. Qed.

Lemma scan_balanced sep l : scan sep l 0 = Some 0%N -> balanced_from l 0 = true.
Proof. intros H. pose proof (scan_bal sep l 0%N 0%N [] H) as E. rewrite app_nil_r in E. exact E. Qed.

Lemma words_good sec : wfa sec -> scan comma sec 0 = Some 0%N -> Forall good (words sec).
Proof.
  intros Hw Hc. unfold words.
  pose proof (cut_wfa ws_parse sec 0%N [] Hw) as F1.
  pose proof (cut_scan ws_parse sec 0%N [] (scan_balanced _ _ Hc) eq_refl) as F2.
  pose proof (cut_scan2 comma ws_parse sec 0%N [] Hc eq_refl) as F3.
  fold (cut ws_parse sec) in F1, F2, F3.
  apply Forall_forall. intros w Hin. apply filter_In in Hin. destruct Hin as [Hin Hne].
  rewrite Forall_forall in F1, F2, F3. constructor; auto. destruct w; [discriminate | discriminate].
Qed.

Lemma sections_good l : wfa l -> balanced l = true ->
  Forall (fun sec => wfa sec /\ scan comma sec 0 = Some 0%N) (sections l).
Proof.
  intros Hw Hb. unfold sections.
  pose proof (cut_wfa (fun c => ceq c c_comma) l 0%N [] Hw) as F1.
  pose proof (cut_scan (fun c => ceq c c_comma) l 0%N [] Hb eq_refl) as F2.
  fold (cut (fun c => ceq c c_comma) l) in F1, F2.
  apply Forall_forall. intros sec Hin. rewrite Forall_forall in F1, F2. split; [apply F1 | apply F2]; exact Hin.
Qed.

Definition asecs (s : str) : list (list (list atom)) := map words (sections (atoms s)).
Definition tw (w : list atom) : cword := (text w, word_case w).

Lemma name_sections_asecs s : name_sections s = map (map tw) (asecs s).
Proof. unfold name_sections, asecs. rewrite map_map. reflexivity. Qed.

Lemma asecs_good s : balanced (atoms s) = true -> Forall (Forall good) (asecs s).
Proof.
  intros Hb. unfold asecs. apply Forall_map.
  eapply Forall_impl; [|apply (sections_good (atoms s) (wfa_atoms _ s (le_n _)) Hb)].
  intros sec [H1 H2]. apply words_good; assumption.
Qed.

(* ---------------------------------------------------------------- C: tokenising a rendered layout *)
Definition a_sp : atom := AChar c_sp.
Definition a_comma : atom := AChar c_comma.

Lemma sp_facts : ws_parse c_sp = true /\ ceq c_sp c_bs = false /\ is_sep ws_parse 0 a_sp = true /\ is_sep comma 0 a_sp = false
                 /\ is_open a_sp = false /\ is_close a_sp = false.
Proof. vm_compute. auto 10. Qed.
Lemma comma_facts : ws_parse c_comma = false /\ ceq c_comma c_bs = false /\ is_sep comma 0 a_comma = true
                    /\ is_open a_comma = false /\ is_close a_comma = false.
Proof. vm_compute. auto 10. Qed.

Fixpoint join_a (sep : list atom) (l : list (list atom)) : list atom :=
  match l with
  | [] => []
  | [x] => x
  | x :: r => x ++ sep ++ join_a sep r
  end.
Lemma join_a_cons2 sep x y r : join_a sep (x :: y :: r) = x ++ sep ++ join_a sep (y :: r).
Proof. reflexivity. Qed.
Lemma join_cons2 sep x y r : join sep (x :: y :: r) = x ++ sep ++ join sep (y :: r).
Proof. reflexivity. Qed.

Definition sec_atoms (sec : list (list atom)) : list atom := join_a [a_sp] sec.
Definition sec_text (sec : list (list atom)) : str := join sp1 (map text sec).
Definition render (Lay : list (list (list atom))) : str := join comma_sp (map sec_text Lay).
Definition blocks (Lay : list (list (list atom))) : list (list atom) :=
  match Lay with [] => [] | s1 :: rest => sec_atoms s1 :: map (fun sec => a_sp :: sec_atoms sec) rest end.

Definition lastw (sec : list (list atom)) : list atom := last sec [].

Lemma atoms_sec sec : sec <> [] -> Forall wfa sec -> forall rest, (pend (lastw sec) = false \/ starts_ws rest) ->
  atoms (sec_text sec ++ rest) = sec_atoms sec ++ atoms rest.
Proof.
  induction sec as [|w sec IH]; intros Hne Hw rest Hr; [contradiction|].
  inversion Hw as [|? ? Hw1 Hw2]; subst.
  destruct sec as [|w2 sec].
  - unfold sec_text, sec_atoms. cbn [map join join_a]. apply atoms_text_app; assumption.
  - unfold sec_text, sec_atoms in *. cbn [map]. rewrite join_cons2, join_a_cons2, <- !app_assoc.
    destruct sp_facts as (S1 & S2 & _).
    rewrite atoms_text_app; [|exact Hw1 | right; exact S1].
    unfold sp1. cbn [app]. rewrite atoms_nbs by exact S2.
    cbn [map] in IH. rewrite IH; [reflexivity | discriminate | exact Hw2 | exact Hr].
Qed.

Definition sec_ok (sec : list (list atom)) : Prop := sec <> [] /\ Forall good sec /\ pend (lastw sec) = false.

Lemma atoms_render Lay : Lay <> [] -> Forall sec_ok Lay -> atoms (render Lay) = join_a [a_comma] (blocks Lay).
Proof.
  assert (Hgen : forall Lay, Lay <> [] -> Forall sec_ok Lay ->
                   atoms (render Lay) = join_a [a_comma; a_sp] (map sec_atoms Lay)).
  { induction Lay0 as [|sec Lay0 IH]; intros Hne HF; [contradiction|].
    inversion HF as [|? ? (H1 & H2 & H3) HF']; subst.
    assert (Hwf : Forall wfa sec) by (eapply Forall_impl; [|exact H2]; intros w Hg; apply (gd_wfa _ Hg)).
    destruct Lay0 as [|sec2 Lay0].
    - unfold render. cbn [map join join_a].
      pose proof (atoms_sec sec H1 Hwf [] (or_intror I)) as E. rewrite !app_nil_r in E. exact E.
    - unfold render in *. cbn [map]. rewrite join_cons2, join_a_cons2.
      rewrite atoms_sec; [|exact H1 | exact Hwf | left; exact H3].
      destruct comma_facts as (C1 & C2 & _). destruct sp_facts as (S1 & S2 & _).
      unfold comma_sp in *. cbn [app]. rewrite atoms_nbs by exact C2. rewrite atoms_nbs by exact S2.
      cbn [map] in IH. rewrite IH; [reflexivity | discriminate | exact HF']. }
  intros Hne HF. rewrite (Hgen Lay Hne HF). clear.
  destruct Lay as [|s1 rest]; [reflexivity|]. cbn [blocks map].
  revert s1. induction rest as [|s2 rest IH]; intros s1; [reflexivity|].
  cbn [map]. rewrite !join_a_cons2. cbn [map] in IH. rewrite IH. f_equal. cbn [app]. f_equal.
  destruct (map (fun sec : list (list atom) => a_sp :: sec_atoms sec) rest); reflexivity.
Qed.

(* cutting a join of separator-free blocks gives the blocks back *)
Lemma cut_join sep x bs : bs <> [] -> Forall (fun b => scan sep b 0 = Some 0%N) bs -> is_sep sep 0 x = true ->
  cut_go sep (join_a [x] bs) 0 [] = bs.
Proof.
  intros Hne HF Hx. induction bs as [|b bs IH]; [contradiction|].
  inversion HF as [|? ? Hb HF']; subst.
  destruct bs as [|b2 bs].
  - cbn [join_a]. rewrite <- (app_nil_r b) at 1. rewrite (cut_scan_app sep b [] _ _ _ Hb). cbn. rewrite app_nil_r, rev_involutive. reflexivity.
  - rewrite join_a_cons2. rewrite (cut_scan_app sep b _ _ _ _ Hb). cbn [app]. rewrite cut_go_step, Hx.
    rewrite app_nil_r, rev_involutive. f_equal. apply IH; [discriminate | exact HF'].
Qed.

Lemma bal_join sep x bs : Forall (fun b => scan sep b 0 = Some 0%N) bs -> is_open x = false -> is_close x = false ->
  balanced_from (join_a [x] bs) 0 = true.
Proof.
  intros HF Ho Hc. induction bs as [|b bs IH]; [reflexivity|].
  inversion HF as [|? ? Hb HF']; subst.
  destruct bs as [|b2 bs].
  - cbn [join_a]. apply (scan_balanced sep). exact Hb.
  - rewrite join_a_cons2. rewrite (scan_bal sep b _ _ _ Hb). cbn [app]. rewrite bal_cons, Ho, Hc. cbn [negb andb].
    unfold dupd. rewrite Ho, Hc. apply IH. exact HF'.
Qed.

Lemma scan_cons_plain sep a l : is_sep sep 0 a = false -> is_open a = false -> is_close a = false ->
  scan sep (a :: l) 0 = scan sep l 0.
Proof. intros H1 H2 H3. cbn [scan]. rewrite H1, H2, H3. cbn. unfold dupd. rewrite H2, H3. reflexivity. Qed.

Lemma scan_comma_sec sec : Forall good sec -> scan comma (sec_atoms sec) 0 = Some 0%N.
Proof.
  intros HF. unfold sec_atoms. induction sec as [|w sec IH]; [reflexivity|].
  inversion HF as [|? ? Hw HF']; subst.
  destruct sec as [|w2 sec]; [cbn [join_a]; apply (gd_comma _ Hw)|].
  rewrite join_a_cons2, scan_app, (gd_comma _ Hw). cbn [app].
  destruct sp_facts as (_ & _ & _ & S4 & S5 & S6). rewrite scan_cons_plain by assumption. apply IH. exact HF'.
Qed.

Lemma words_sec sec : sec <> [] -> Forall good sec -> words (sec_atoms sec) = sec /\ words (a_sp :: sec_atoms sec) = sec.
Proof.
  intros Hne HF.
  assert (Hcut : cut_go ws_parse (sec_atoms sec) 0 [] = sec).
  { apply cut_join; [exact Hne | | apply sp_facts].
    eapply Forall_impl; [|exact HF]. intros w Hg. apply (gd_ws _ Hg). }
  assert (Hfil : filter (fun w : list atom => match w with [] => false | _ => true end) sec = sec).
  { clear - HF. induction HF as [|w sec Hw HF IH]; [reflexivity|]. cbn [filter].
    destruct w; [exfalso; apply (gd_ne _ Hw); reflexivity|]. rewrite IH. reflexivity. }
  split; unfold words, cut.
  - rewrite Hcut. exact Hfil.
  - rewrite cut_go_step. destruct sp_facts as (_ & _ & S3 & _). unfold a_sp in *. rewrite S3. rewrite Hcut. cbn [rev filter]. exact Hfil.
Qed.

Lemma tokenise_render Lay : Lay <> [] -> Forall sec_ok Lay ->
  asecs (render Lay) = Lay /\ balanced (atoms (render Lay)) = true.
Proof.
  intros Hne HF. unfold asecs. rewrite (atoms_render Lay Hne HF).
  assert (Hb : Forall (fun b => scan comma b 0 = Some 0%N) (blocks Lay)).
  { destruct Lay as [|s1 rest]; [contradiction|]. cbn [blocks]. inversion HF as [|? ? (_ & G1 & _) HF']; subst.
    constructor; [apply scan_comma_sec; exact G1|]. apply Forall_map.
    eapply Forall_impl; [|exact HF']. intros sec (_ & G & _).
    destruct sp_facts as (_ & _ & _ & S4 & S5 & S6). unfold a_sp. rewrite scan_cons_plain by assumption.
    apply scan_comma_sec. exact G. }
  assert (Hbne : blocks Lay <> []) by (destruct Lay; [contradiction | discriminate]).
  destruct comma_facts as (_ & _ & C3 & C4 & C5).
  split.
  - unfold sections. change (fun c : ch => ceq c c_comma) with comma. unfold cut.
    rewrite (cut_join comma a_comma (blocks Lay) Hbne Hb C3).
    destruct Lay as [|s1 rest]; [contradiction|]. cbn [blocks map]. inversion HF as [|? ? (N1 & G1 & _) HF']; subst.
    rewrite (proj1 (words_sec s1 N1 G1)). f_equal.
    clear - HF'. induction HF' as [|sec rest (N & G & _) HF IH]; [reflexivity|].
    cbn [map]. rewrite (proj2 (words_sec sec N G)), IH. reflexivity.
  - unfold balanced. apply (bal_join comma a_comma); assumption.
Qed.

(* ---------------------------------------------------------------- D: merge_last_name_first renders the re-laid-out parts *)
(* number of leading backslashes (of the reversed text) *)
Fixpoint cnt (r : str) : nat := match r with c :: r' => if ceq c_bs c then S (cnt r') else 0 | [] => 0 end.

Lemma lstrip_len p (r : str) : (length (lstrip_set p r) <= length r)%nat.
Proof. induction r as [|c r IH]; [simpl; lia|]. simpl. destruct (p c); simpl; lia. Qed.
Lemma cnt_spec r : (length r - length (lstrip_set (ceq c_bs) r))%nat = cnt r.
Proof.
  induction r as [|c r IH]; [reflexivity|]. cbn [lstrip_set cnt]. destruct (ceq c_bs c).
  - rewrite <- IH. pose proof (lstrip_len (ceq c_bs) r). simpl length. lia.
  - simpl. lia.
Qed.
Lemma ends_odd_cnt s : ends_odd_bs s = Nat.odd (cnt (rev s)).
Proof. unfold ends_odd_bs, rstrip_bs. rewrite rev_length, <- cnt_spec, rev_length. reflexivity. Qed.

Lemma rtext_of_rev w : rtext (rev w) = rev (text w).
Proof. rewrite <- (rev_involutive (rtext (rev w))), rtext_rev, rev_involutive. reflexivity. Qed.

Definition nb (u : list atom) : Prop := match u with AChar c :: _ => ceq c c_bs = false | _ => True end.

Lemma ceq_sym a b : ceq a b = ceq b a.
Proof. apply N.eqb_sym. Qed.

Lemma cnt_even u : wfa (rev u) -> nb u -> Nat.even (cnt (rtext u)) = true.
Proof.
  induction u as [|a u IH]; intros Hw Hn; [reflexivity|].
  destruct a as [c|c]; cbn [rtext atom_text rev app cnt].
  - destruct (ceq c_bs c) eqn:Ec; [|reflexivity]. cbn [cnt]. replace (ceq c_bs c_bs) with true by reflexivity.
    cbn [Nat.even]. apply IH.
    + cbn [rev] in Hw. apply (wfa_app_l _ _ Hw).
    + destruct u as [|[c'|c'] u'']; cbn [nb]; auto.
      destruct (ceq c' c_bs) eqn:Ec'; [|reflexivity]. exfalso.
      cbn [rev] in Hw. rewrite <- app_assoc in Hw. apply wfa_app_r in Hw. cbn in Hw. destruct Hw as [H _]. apply (H Ec').
  - cbn [nb] in Hn. rewrite ceq_sym, Hn. reflexivity.
Qed.

Lemma pend_odd w : wfa w -> pend w = true -> ends_odd_bs (text w) = true.
Proof.
  intros Hw Hp. rewrite ends_odd_cnt, <- rtext_of_rev.
  unfold pend in Hp.
  destruct (exists_last (l := w)) as (w' & a & E).
  { intros ->. cbn in Hp. discriminate. }
  subst w. rewrite last_snoc in Hp. destruct a as [c|c]; [discriminate|].
  apply N.eqb_eq in Hp. subst c.
  rewrite rev_app_distr. cbn [rev app rtext atom_text cnt]. replace (ceq c_bs c_bs) with true by reflexivity.
  rewrite Nat.odd_succ. apply cnt_even.
  - rewrite rev_involutive. apply (wfa_app_l _ _ Hw).
  - destruct (rev w') as [|[c'|c'] u''] eqn:Er; cbn [nb]; auto.
    destruct (ceq c' c_bs) eqn:Ec'; [|reflexivity]. exfalso.
    assert (w' = rev u'' ++ [AChar c']) by (rewrite <- (rev_involutive w'), Er; reflexivity). subst w'.
    rewrite <- app_assoc in Hw. apply wfa_app_r in Hw. cbn in Hw. destruct Hw as [H _]. specialize (H Ec').
    vm_compute in H. discriminate.
Qed.

(* --- the four parts only contain words of the sections *)
Lemma In_firstn {A} n (l : list A) x : In x (firstn n l) -> In x l.
Proof. revert l. induction n; intros l H; [contradiction|]. destruct l; [contradiction|]. destruct H; [left | right]; auto. Qed.
Lemma In_skipn' {A} n (l : list A) x : In x (skipn n l) -> In x l.
Proof. revert l. induction n; intros l H; [exact H|]. destruct l; [contradiction|]. right. auto. Qed.

Section Parts.
Variable P : cword -> Prop.
Lemma Forall_firstn' n (l : list cword) : Forall P l -> Forall P (firstn n l).
Proof. intros H. apply Forall_forall. intros x Hx. rewrite Forall_forall in H. apply H. eapply In_firstn; eassumption. Qed.
Lemma Forall_skipn' n (l : list cword) : Forall P l -> Forall P (skipn n l).
Proof. intros H. apply Forall_forall. intros x Hx. rewrite Forall_forall in H. apply H. eapply In_skipn'; eassumption. Qed.
Lemma Forall_last (l : list (list cword)) : Forall (Forall P) l -> Forall P (last l []).
Proof. induction l as [|x l IH]; intros H; [constructor|]. inversion H; subst. destruct l; [assumption|]. apply IH. assumption. Qed.

Lemma parts_Forall X : Forall (Forall P) X ->
  Forall P (c_first (partition_cw X)) /\ Forall P (c_von (partition_cw X)) /\ Forall P (c_last (partition_cw X))
  /\ Forall P (c_jr (partition_cw X)).
Proof.
  intros H. destruct X as [|sec0 [|s1 rest]].
  - repeat split; constructor.
  - inversion H as [|? ? H0 _]; subst.
    destruct sec0 as [|a [|b [|c r]]]; cbn [partition_cw c_first c_von c_last c_jr].
    + repeat split; constructor.
    + repeat split; first [assumption | constructor].
    + inversion H0 as [|? ? Ha Hb]; subst. repeat split; first [assumption | constructor; [assumption | constructor] | constructor].
    +
      repeat split; try constructor; try apply Forall_firstn'; try apply Forall_skipn'; try apply Forall_firstn'; try apply Forall_skipn'; assumption.
  - inversion H as [|? ? H0 Hr]; subst.
    cbn [partition_cw c_first c_von c_last c_jr]. repeat split.
    + apply Forall_last. exact Hr.
    + apply Forall_firstn'. exact H0.
    + apply Forall_skipn'. exact H0.
    + destruct rest as [|s2 [|s3 r]]; try constructor. inversion Hr; assumption.
Qed.
End Parts.

(* --- strings: joins and the trailing-backslash escape *)
Lemma join_opt_ne l : l <> [] -> join_opt l = Some (join sp1 l).
Proof. destruct l; [contradiction | reflexivity]. Qed.

Lemma join_ne (l : list str) : l <> [] -> Forall (fun w => w <> []) l -> join sp1 l <> [].
Proof.
  intros Hne HF. destruct l as [|x l]; [contradiction|]. inversion HF; subst.
  destruct l as [|y l]; cbn [join]; [assumption|]. destruct x; [contradiction | discriminate].
Qed.

Lemma join_app_ne (a b : list str) : a <> [] -> b <> [] -> join sp1 (a ++ b) = join sp1 a ++ sp1 ++ join sp1 b.
Proof.
  intros Ha Hb. induction a as [|x a IH]; [contradiction|].
  destruct a as [|y a].
  - cbn [app]. destruct b; [contradiction | reflexivity].
  - cbn [app] in *. rewrite !join_cons2. rewrite IH by discriminate. rewrite <- !app_assoc. reflexivity.
Qed.

Lemma esc_id s : ends_odd_bs s = false -> escape_last_slash s = s.
Proof.
  unfold ends_odd_bs, escape_last_slash. intros H. rewrite <- Nat.negb_odd, H. reflexivity.
Qed.

Lemma cnt_app_stop a c b : ceq c_bs c = false -> cnt (a ++ c :: b) = cnt a.
Proof.
  intros Hc. induction a as [|x a IH]; cbn [app cnt]; [rewrite Hc; reflexivity|].
  destruct (ceq c_bs x); [rewrite IH|]; reflexivity.
Qed.

Lemma ends_odd_join (l : list str) : l <> [] -> ends_odd_bs (join sp1 l) = ends_odd_bs (last l []).
Proof.
  intros Hne. induction l as [|x l IH]; [contradiction|].
  destruct l as [|y l]; [reflexivity|].
  rewrite join_cons2. unfold sp1 in *. rewrite (ends_odd_cnt (x ++ [c_sp] ++ join [c_sp] (y :: l))), !rev_app_distr. cbn [rev app].
  rewrite <- app_assoc. cbn [app]. rewrite cnt_app_stop by reflexivity.
  rewrite <- ends_odd_cnt. rewrite IH by discriminate. reflexivity.
Qed.

Definition tsec (sec : list cword) : str := join sp1 (map fst sec).

Definition okc (x : cword) : Prop := fst x <> [] /\ ends_odd_bs (fst x) = false.

Lemma last_okc (sec : list cword) : sec <> [] -> Forall okc sec -> ends_odd_bs (last (map fst sec) []) = false.
Proof.
  intros Hne HF. induction sec as [|x sec IH]; [contradiction|]. inversion HF as [|? ? Hx HF']; subst.
  destruct sec as [|y sec]; [apply Hx|]. apply IH; [discriminate | exact HF'].
Qed.

Lemma esc_tsec sec : sec <> [] -> Forall okc sec -> escape_last_slash (tsec sec) = tsec sec.
Proof.
  intros Hne HF. apply esc_id. unfold tsec. rewrite ends_odd_join by (destruct sec; [contradiction | discriminate]).
  apply last_okc; assumption.
Qed.

Lemma tsec_ne sec : sec <> [] -> Forall okc sec -> tsec sec <> [].
Proof.
  intros Hne HF. unfold tsec. apply join_ne; [destruct sec; [contradiction | discriminate]|].
  apply Forall_map. eapply Forall_impl; [|exact HF]. intros x [H _]. exact H.
Qed.

Lemma map_ne {A B} (f : A -> B) l : l <> [] -> map f l <> [].
Proof. destruct l; [contradiction | discriminate]. Qed.

Lemma truthy_some s : s <> [] -> truthy_opt (Some s) = true.
Proof. destruct s; [contradiction | reflexivity]. Qed.
Lemma filt3 a b c : filter truthy_opt [a; b; c]
  = (if truthy_opt a then [a] else []) ++ (if truthy_opt b then [b] else []) ++ (if truthy_opt c then [c] else []).
Proof. cbn. destruct (truthy_opt a), (truthy_opt b), (truthy_opt c); reflexivity. Qed.
Lemma filt2 a b : filter truthy_opt [a; b] = (if truthy_opt a then [a] else []) ++ (if truthy_opt b then [b] else []).
Proof. cbn. destruct (truthy_opt a), (truthy_opt b); reflexivity. Qed.

Lemma merge_render q :
  Forall okc (c_first q) -> Forall okc (c_von q) -> Forall okc (c_last q) -> Forall okc (c_jr q) ->
  c_last q <> [] -> (c_jr q <> [] -> c_first q <> []) ->
  merge_last_first (strs q) = join comma_sp (map tsec (relayout q)).
Proof.
  intros HF HV HL HJ HLne HJF.
  assert (HVL : Forall okc (c_von q ++ c_last q)) by (apply Forall_app; split; assumption).
  assert (HVLne : c_von q ++ c_last q <> []) by (intros E; apply app_eq_nil in E; tauto).
  assert (Evl : join sp1 (map opt_str (filter truthy_opt [join_opt (map fst (c_von q)); join_opt (map fst (c_last q))]))
                = tsec (c_von q ++ c_last q)).
  { unfold tsec. rewrite map_app, filt2.
    rewrite (join_opt_ne (map fst (c_last q))) by (apply map_ne; exact HLne).
    match goal with |- context[if truthy_opt (Some ?x) then _ else _] => let E := fresh "Etr" in destruct (truthy_opt (Some x)) eqn:E; [|exfalso; pose proof (truthy_some _ (tsec_ne (c_last q) HLne HL)) as Ht; discriminate (eq_trans (eq_sym Ht) E)] end.
    destruct (c_von q) as [|v vs] eqn:Ev.
    - reflexivity.
    - rewrite (join_opt_ne (map fst (v :: vs))) by discriminate.
      match goal with |- context[if truthy_opt (Some ?x) then _ else _] => let E := fresh "Etr" in destruct (truthy_opt (Some x)) eqn:E; [|exfalso; pose proof (truthy_some _ (tsec_ne (v :: vs) ltac:(discriminate) HV)) as Ht; discriminate (eq_trans (eq_sym Ht) E)] end.
      remember (join sp1 (map fst (v :: vs) ++ map fst (c_last q))) as R eqn:ER.
      cbn [app map opt_str]. change (join sp1 [?a; ?b]) with (a ++ sp1 ++ b).
      subst R. symmetry. apply (join_app_ne (map fst (v :: vs)) (map fst (c_last q))); [discriminate | apply map_ne; exact HLne]. }
  unfold merge_last_first, strs. cbn [n_first n_von n_last n_jr]. rewrite Evl, filt3.
  match goal with |- context[if truthy_opt (Some ?x) then _ else _] => let E := fresh "Etr" in destruct (truthy_opt (Some x)) eqn:E; [|exfalso; pose proof (truthy_some _ (tsec_ne _ HVLne HVL)) as Ht; discriminate (eq_trans (eq_sym Ht) E)] end.
  unfold relayout.
  destruct (c_jr q) as [|j js] eqn:Ej.
  - destruct (c_first q) as [|f fs] eqn:Ef.
    + cbn [map join_opt truthy_opt app opt_str join]. apply esc_tsec; assumption.
    + rewrite (join_opt_ne (map fst (f :: fs))) by discriminate.
      match goal with |- context[if truthy_opt (Some ?x) then _ else _] => let E := fresh "Etr" in destruct (truthy_opt (Some x)) eqn:E; [|exfalso; pose proof (truthy_some _ (tsec_ne (f :: fs) ltac:(discriminate) HF)) as Ht; discriminate (eq_trans (eq_sym Ht) E)] end.
      cbn [map join_opt truthy_opt app opt_str]. apply f_equal.
      apply f_equal2; [apply esc_tsec; assumption|]. apply f_equal2; [|reflexivity].
      apply (esc_tsec (f :: fs)); [discriminate | assumption].
  - assert (Hfne : c_first q <> []) by (apply HJF; discriminate).
    destruct (c_first q) as [|f fs] eqn:Ef; [contradiction|].
    rewrite (join_opt_ne (map fst (f :: fs))) by discriminate.
    rewrite (join_opt_ne (map fst (j :: js))) by discriminate.
    match goal with |- context[if truthy_opt (Some ?x) then _ else _] => let E := fresh "Etr" in destruct (truthy_opt (Some x)) eqn:E; [|exfalso; pose proof (truthy_some _ (tsec_ne (j :: js) ltac:(discriminate) HJ)) as Ht; discriminate (eq_trans (eq_sym Ht) E)] end.
    match goal with |- context[if truthy_opt (Some ?x) then _ else _] => let E := fresh "Etr" in destruct (truthy_opt (Some x)) eqn:E; [|exfalso; pose proof (truthy_some _ (tsec_ne (f :: fs) ltac:(discriminate) HF)) as Ht; discriminate (eq_trans (eq_sym Ht) E)] end.
    cbn [map app opt_str]. apply f_equal.
    apply f_equal2; [apply esc_tsec; assumption|]. apply f_equal2; [apply (esc_tsec (j :: js)); [discriminate | assumption]|].
    apply f_equal2; [|reflexivity]. apply (esc_tsec (f :: fs)); [discriminate | assumption].
Qed.

(* ---------------------------------------------------------------- assembly *)
Definition goodc (x : cword) : Prop := exists w, x = tw w /\ good w /\ ends_odd_bs (fst x) = false.
Definition gat (x : cword) : list atom := atoms (fst x).

Lemma goodc_gat x : goodc x -> tw (gat x) = x /\ good (gat x) /\ pend (gat x) = false /\ text (gat x) = fst x /\ okc x.
Proof.
  intros (w & -> & Hg & Ho). unfold gat, tw in *. cbn [fst] in *.
  rewrite (atoms_text w (gd_wfa _ Hg)).
  split; [reflexivity|]. split; [exact Hg|]. split.
  { destruct (pend w) eqn:Ep; [|reflexivity]. rewrite (pend_odd w (gd_wfa _ Hg) Ep) in Ho. discriminate. }
  split; [reflexivity|]. split; [|exact Ho].
  cbn [fst]. apply text_ne. apply (gd_ne _ Hg).
Qed.

Lemma sections_ne l : sections l <> [].
Proof.
  unfold sections. rewrite (cut_fold (fun c => ceq c c_comma) l).
  destruct (fold_left (cstep (fun c : ch => ceq c c_comma)) l ([], 0%N, [])) as [[done d] cur].
  intros E. apply (f_equal (@length _)) in E. rewrite rev_length in E. simpl in E. lia.
Qed.

Lemma last_pend (l : list (list atom)) : l <> [] -> Forall (fun w => pend w = false) l -> pend (lastw l) = false.
Proof.
  unfold lastw. intros Hne HF. induction l as [|x l IH]; [contradiction|]. inversion HF; subst.
  destruct l as [|y l]; [assumption|]. apply IH; [discriminate | assumption].
Qed.

Lemma sec_ok_gat (sec : list cword) : sec <> [] -> Forall goodc sec -> sec_ok (map gat sec).
Proof.
  intros Hne HF. unfold sec_ok. split; [apply map_ne; exact Hne|]. split.
  - apply Forall_map. eapply Forall_impl; [|exact HF]. intros x Hx. apply (goodc_gat x Hx).
  - apply last_pend; [apply map_ne; exact Hne|]. apply Forall_map. eapply Forall_impl; [|exact HF].
    intros x Hx. apply (goodc_gat x Hx).
Qed.

Lemma map_tw_gat (sec : list cword) : Forall goodc sec -> map tw (map gat sec) = sec.
Proof.
  intros HF. induction HF as [|x sec Hx HF IH]; [reflexivity|]. cbn [map]. rewrite IH.
  rewrite (proj1 (goodc_gat x Hx)). reflexivity.
Qed.
Lemma sec_text_gat (sec : list cword) : Forall goodc sec -> sec_text (map gat sec) = tsec sec.
Proof.
  intros HF. unfold sec_text, tsec. f_equal. induction HF as [|x sec Hx HF IH]; [reflexivity|]. cbn [map]. rewrite IH.
  destruct (goodc_gat x Hx) as (_ & _ & _ & E & _). rewrite E. reflexivity.
Qed.

Lemma relayout_props q :
  Forall goodc (c_first q) -> Forall goodc (c_von q) -> Forall goodc (c_last q) -> Forall goodc (c_jr q) ->
  c_last q <> [] -> (c_jr q <> [] -> c_first q <> []) ->
  Forall (fun sec => sec <> [] /\ Forall goodc sec) (relayout q) /\ relayout q <> [] /\ (length (relayout q) <= 3)%nat.
Proof.
  intros HF HV HL HJ HLne HJF.
  assert (HVL : Forall goodc (c_von q ++ c_last q)) by (apply Forall_app; split; assumption).
  assert (HVLne : c_von q ++ c_last q <> []) by (intros E; apply app_eq_nil in E; tauto).
  unfold relayout. destruct (c_jr q) as [|j js] eqn:Ej.
  - destruct (c_first q) as [|f fs] eqn:Ef.
    + split; [|split; [discriminate | simpl; lia]].
      constructor; [split; assumption | constructor].
    + split; [|split; [discriminate | simpl; lia]].
      constructor; [split; assumption|]. constructor; [split; [discriminate | assumption] | constructor].
  - assert (Hfne : c_first q <> []) by (apply HJF; discriminate).
    destruct (c_first q) as [|f fs] eqn:Ef; [contradiction|].
    split; [|split; [discriminate | simpl; lia]].
    constructor; [split; assumption|]. constructor; [split; [discriminate | assumption]|].
    constructor; [split; [discriminate | assumption] | constructor].
Qed.

Lemma jr_first X : valid_layout X -> c_jr (partition_cw X) <> [] -> c_first (partition_cw X) <> [].
Proof.
  destruct X as [|a [|b [|c [|d r]]]]; cbn [valid_layout]; intros HV H; try contradiction.
  - exfalso. apply H. destruct a as [|a1 [|a2 [|a3 ar]]]; reflexivity.
  - cbn. exact HV.
Qed.

Theorem person_inverse_spec s p : spec_parse s = Some p -> admissible p -> spec_parse (merge1 p) = Some p.
Proof.
  intros Hs [HLne Hodd]. unfold spec_parse in Hs.
  destruct (invalid_name s) eqn:Einv; [discriminate|].
  remember (name_sections s) as X eqn:EX.
  assert (Hp : p = partition_spec X).
  { destruct (forallb is_nil X); inversion Hs; subst; [exfalso; apply HLne; reflexivity | reflexivity]. }
  clear Hs. rewrite partition_cw_strs in Hp. set (q := partition_cw X) in *.
  unfold invalid_name in Einv. apply orb_false_iff in Einv. destruct Einv as [Einv Etr].
  apply orb_false_iff in Einv. destruct Einv as [Eunb Etm].
  assert (Hbal : balanced (atoms s) = true) by (unfold unbalanced in Eunb; destruct (balanced (atoms s)); [reflexivity | discriminate]).
  (* the words of s are good, and so are the words of the parts *)
  assert (HX : X = map (map tw) (asecs s)) by (rewrite EX; apply name_sections_asecs).
  assert (Hodd' : Forall (fun t => ends_odd_bs t = false) (all_words p)).
  { unfold no_word_ends_odd_backslash in Hodd. rewrite forallb_forall in Hodd. apply Forall_forall. intros t Ht.
    specialize (Hodd t Ht). destruct (ends_odd_bs t); [discriminate | reflexivity]. }
  assert (HgX : Forall (Forall (fun x => exists w, x = tw w /\ good w)) X).
  { rewrite HX. apply Forall_map. eapply Forall_impl; [|apply (asecs_good s Hbal)].
    intros sec Hsec. apply Forall_map. eapply Forall_impl; [|exact Hsec]. intros w Hw. exists w. auto. }
  destruct (parts_Forall _ X HgX) as (G1 & G2 & G3 & G4). fold q in G1, G2, G3, G4.
  rewrite Hp in Hodd'. unfold all_words, strs in Hodd'. cbn [n_first n_von n_last n_jr] in Hodd'.
  apply Forall_app in Hodd'. destruct Hodd' as [O1 Hodd'].
  apply Forall_app in Hodd'. destruct Hodd' as [O2 Hodd'].
  apply Forall_app in Hodd'. destruct Hodd' as [O3 O4].
  assert (Hcomb : forall l : list cword, Forall (fun x => exists w, x = tw w /\ good w) l ->
                    Forall (fun t => ends_odd_bs t = false) (map fst l) -> Forall goodc l).
  { intros l H1 H2. rewrite Forall_map in H2. induction H1 as [|x l Hx H1 IH]; [constructor|].
    inversion H2; subst. constructor; [|apply IH; assumption].
    destruct Hx as (w & E & Hg). exists w. split; [exact E|]. split; [exact Hg | assumption]. }
  pose proof (Hcomb _ G1 O1) as C1. pose proof (Hcomb _ G2 O2) as C2.
  pose proof (Hcomb _ G3 O3) as C3. pose proof (Hcomb _ G4 O4) as C4.
  assert (HqL : c_last q <> []).
  { intros E. apply HLne. rewrite Hp. unfold strs. cbn [n_last]. rewrite E. reflexivity. }
  (* the shape of the sections *)
  assert (HlenX : length X = length (sections (atoms s))) by (rewrite EX; unfold name_sections; apply map_length).
  assert (HV : valid_layout X).
  { unfold too_many_commas in Etm. rewrite <- HlenX in Etm. unfold trailing_comma in Etr. rewrite <- EX in Etr. clear EX HX HgX.
    pose proof (sections_ne (atoms s)) as Hne. 
    destruct X as [|a [|b [|c [|d r]]]]; cbn [valid_layout].
    - destruct (sections (atoms s)); [contradiction | discriminate].
    - exact I.
    - cbn in Etr. intros ->. discriminate.
    - cbn in Etr. intros ->. discriminate.
    - cbn in Etm. discriminate. }
  assert (HJF : c_jr q <> [] -> c_first q <> []) by (apply jr_first; exact HV).
  pose proof (repartition X HV HqL) as Hrep. fold q in Hrep.
  destruct (relayout_props q C1 C2 C3 C4 HqL HJF) as (HR1 & HR2 & HR3).
  set (Lay := map (map gat) (relayout q)).
  assert (HLayne : Lay <> []) by (apply map_ne; exact HR2).
  assert (HLayok : Forall sec_ok Lay).
  { unfold Lay. apply Forall_map. eapply Forall_impl; [|exact HR1]. intros sec [H1 H2]. apply sec_ok_gat; assumption. }
  assert (Htw : map (map tw) Lay = relayout q).
  { unfold Lay. rewrite map_map. clear - HR1. induction HR1 as [|sec rest [_ Hs] HR IH]; [reflexivity|].
    cbn [map]. rewrite IH, (map_tw_gat sec Hs). reflexivity. }
  assert (Hrender : merge1 p = render Lay).
  { unfold merge1. rewrite Hp.
    assert (Hokc : forall l, Forall goodc l -> Forall okc l).
    { intros l Hl. eapply Forall_impl; [|exact Hl]. intros x Hx. apply (goodc_gat x Hx). }
    rewrite (merge_render q (Hokc _ C1) (Hokc _ C2) (Hokc _ C3) (Hokc _ C4) HqL HJF).
    unfold render, Lay. rewrite map_map. f_equal.
    clear - HR1. induction HR1 as [|sec rest [_ Hs] HR IH]; [reflexivity|].
    cbn [map]. rewrite IH, (sec_text_gat sec Hs). reflexivity. }
  rewrite Hrender.
  destruct (tokenise_render Lay HLayne HLayok) as [Hasecs Hbal2].
  assert (Hns : name_sections (render Lay) = relayout q) by (rewrite name_sections_asecs, Hasecs; exact Htw).
  unfold spec_parse, invalid_name, unbalanced, too_many_commas, trailing_comma.
  rewrite Hbal2, Hns. cbn [negb orb].
  assert (Hlen2 : length (sections (atoms (render Lay))) = length (relayout q)).
  { rewrite <- Hns. unfold name_sections. rewrite map_length. reflexivity. }
  rewrite Hlen2.
  assert (Etm2 : (3 <? length (relayout q))%nat = false) by (apply Nat.ltb_ge; exact HR3).
  rewrite Etm2. cbn [orb].
  assert (Hlastne : is_nil (last (relayout q) []) = false).
  { clear - HR1 HR2. induction HR1 as [|sec rest [Hne _] HR IH]; [contradiction|].
    destruct rest as [|s2 rest]; [destruct sec; [contradiction | reflexivity]|]. apply IH. discriminate. }
  rewrite Hlastne, andb_false_r.
  assert (Hnotnil : forallb is_nil (relayout q) = false).
  { destruct HR1 as [|sec rest [Hne _] _]; [contradiction|]. cbn. destruct sec; [contradiction | reflexivity]. }
  rewrite Hnotnil. rewrite partition_cw_strs, Hrep, Hp. reflexivity.
Qed.

Theorem person_inverse s p : split1 s = POk p -> admissible p -> split1 (merge1 p) = POk p.
Proof.
  unfold split1. intros H Ha. apply (proj1 (tok_partition (merge1 p) p)). apply (person_inverse_spec s p); [|exact Ha].
  apply (proj2 (tok_partition s p)). exact H.
Qed.
