(* C01, splitter part: for every text the machine ends in a state that yields blocks; the two "should never
   happen" exceptions of splitter.py (ParserStateException / RegexMismatchException when the mark after an
   @-match is not an opening brace) are unreachable because of the look-ahead of the mark regex. *)
From Coq Require Import List NArith ZArith Bool Lia.
From BP Require Import Base.Chars Model.Blocks Model.Lexer Model.LibAdd Model.Splitter.
Import ListNotations.
Local Open Scope N_scope.

(* the classified input that may follow an At mark: plain characters, then an opening-brace mark *)
Inductive good_head : list (ch * option mk) -> Prop :=
| gh_lb c l : good_head ((c, Some MLB) :: l)
| gh_plain c l : good_head l -> good_head ((c, None) :: l).

Lemma eqb_false_of_flag (f : ch -> bool) (c lit : ch) : f c = true -> f lit = false -> (c =? lit) = false.
Proof. intros Hc Hl. apply N.eqb_neq. intros E. subst. congruence. Qed.

Lemma word_plain pb c r : isword c = true -> classify1 pb c r = None.
Proof.
  intros H. unfold classify1.
  rewrite (eqb_false_of_flag isword c c_nl H eq_refl), (eqb_false_of_flag isword c c_at H eq_refl),
          (eqb_false_of_flag isword c c_lb H eq_refl), (eqb_false_of_flag isword c c_rb H eq_refl),
          (eqb_false_of_flag isword c c_quote H eq_refl), (eqb_false_of_flag isword c c_comma H eq_refl),
          (eqb_false_of_flag isword c c_eq H eq_refl).
  destruct pb; reflexivity.
Qed.
Lemma word_not_bs c : isword c = true -> (c =? c_bs) = false.
Proof. intros H. apply (eqb_false_of_flag isword c c_bs H eq_refl). Qed.

Lemma sptab_cases c : is_sptab c = true -> c = c_sp \/ c = c_tab.
Proof. unfold is_sptab. rewrite orb_true_iff, !N.eqb_eq. tauto. Qed.
Lemma sptab_plain pb c r : is_sptab c = true -> classify1 pb c r = None.
Proof. intros H. destruct (sptab_cases c H); subst; destruct pb; reflexivity. Qed.
Lemma sptab_not_bs c : is_sptab c = true -> (c =? c_bs) = false.
Proof. intros H. destruct (sptab_cases c H); subst; reflexivity. Qed.

(* after blanks: the brace *)
Lemma good_after_blanks r : forall pb, pb = false ->
  match drop_while is_sptab r with c :: _ => (c =? c_lb) = true | [] => False end ->
  good_head (classify pb r).
Proof.
  induction r as [|c r IH]; simpl; intros pb Hpb H; [contradiction|].
  destruct (is_sptab c) eqn:S.
  - rewrite (sptab_plain pb c r S). apply gh_plain. apply IH; [apply sptab_not_bs, S | exact H].
  - apply N.eqb_eq in H. subst c pb. cbn. apply gh_lb.
Qed.

Lemma good_after_words r : forall pb, pb = false ->
  at_ok r = true -> good_head (classify pb r).
Proof.
  unfold at_ok. induction r as [|c r IH]; simpl; intros pb Hpb H; [discriminate|].
  destruct (isword c) eqn:W.
  - rewrite (word_plain pb c r W). apply gh_plain. apply IH; [apply word_not_bs, W | exact H].
  - (* the blanks start here *)
    change ((c, classify1 pb c r) :: classify (c =? c_bs) r) with (classify pb (c :: r)).
    apply good_after_blanks; [exact Hpb|].
    destruct (drop_while is_sptab (c :: r)) as [|d l]; [discriminate|]. exact H.
Qed.

Lemma at_mark_spec pb c r : classify1 pb c r = Some MAt -> c = c_at /\ at_ok r = true.
Proof.
  unfold classify1. destruct (c =? c_nl); [discriminate|].
  destruct (c =? c_at) eqn:E.
  - apply N.eqb_eq in E. destruct (at_ok r); [auto|discriminate].
  - destruct pb; [discriminate|].
    destruct (c =? c_lb); [discriminate|]. destruct (c =? c_rb); [discriminate|].
    destruct (c =? c_quote); [discriminate|]. destruct (c =? c_comma); [discriminate|].
    destruct (c =? c_eq); discriminate.
Qed.

(* the invariant: not crashed, and in Head mode the rest of the input begins with plain* '{' *)
Definition ok (s : st) (l : list (ch * option mk)) : Prop :=
  md s <> Crashed /\ (md s = Head -> good_head l).

Lemma step_out_md s c k : md (step_out s c k) = match k with Some MAt => Head | _ => Out end.
Proof. destruct k as [[]|]; reflexivity. Qed.
Lemma abort_md s rs c k : md (abort s rs c k) = match k with Some MAt => Head | _ => Out end.
Proof. unfold abort. apply step_out_md. Qed.

Lemma step_ok s c k l (tail : list (ch * option mk)) :
  ok s ((c, k) :: l) ->
  (k = Some MAt -> good_head l) ->
  ok (step s (c, k)) l.
Proof.
  intros [Hc Hh] Hat. unfold ok, step.
  destruct (md s) eqn:M.
  - (* Out *) rewrite step_out_md. destruct k as [[]|]; split; try discriminate; auto.
  - (* Head *)
    specialize (Hh eq_refl). inversion Hh; subst.
    + cbn -[starts_with lower rv strip s_comment s_preamble s_string].
      repeat (match goal with |- context [if ?b then _ else _] => destruct b end);
        cbn -[starts_with lower rv strip]; split; discriminate.
    + cbn. split; [discriminate|]. intros _. assumption.
  - (* InBraces *)
    destruct k as [[]|]; cbn; rewrite ?abort_md, ?M; try (split; [discriminate | discriminate]).
    + destruct (d =? 0); cbn; split; discriminate.
    + split; [discriminate|]. intros _. apply Hat. reflexivity.
  - (* StrKey *)
    destruct k as [[]|]; cbn; rewrite ?abort_md, ?M; try (split; [discriminate | discriminate]).
    split; [discriminate|]. intros _. apply Hat. reflexivity.
  - (* EntKey *)
    destruct k as [[]|]; cbn; rewrite ?abort_md, ?M; try (split; [discriminate | discriminate]).
    split; [discriminate|]. intros _. apply Hat. reflexivity.
  - (* FldKey *)
    destruct k as [[]|]; cbn; rewrite ?abort_md, ?M; try (split; [discriminate | discriminate]).
    split; [discriminate|]. intros _. apply Hat. reflexivity.
  - (* FldVal *)
    destruct k as [[]|]; cbn; rewrite ?abort_md, ?M; try (split; [discriminate | discriminate]).
    + destruct q; cbn; split; discriminate.
    + destruct q; cbn; [split; discriminate|]. destruct (d =? 0); cbn; split; discriminate.
    + destruct (d =? 0); cbn; split; discriminate.
    + destruct (q || negb (d =? 0))%bool; cbn; split; discriminate.
    + split; [discriminate|]. intros _. apply Hat. reflexivity.
  - contradiction.
Qed.

Lemma run_ok r : forall pb s, pb = false \/ True ->
  ok s (classify pb r) ->
  let s' := fold_left step (classify pb r) s in md s' <> Crashed /\ md s' <> Head.
Proof.
  induction r as [|c r IH]; intros pb s _ Hok; cbn [classify fold_left].
  - destruct Hok as [Hc Hh]. split; [exact Hc|]. intros E. specialize (Hh E). inversion Hh.
  - apply IH; [right; exact I|].
    apply (step_ok s c (classify1 pb c r) (classify (c =? c_bs) r) []); [exact Hok|].
    intros E. apply at_mark_spec in E as [Ec Ha]. subst c. apply good_after_words; [reflexivity | exact Ha].
Qed.

Lemma run_not_crashed t : md (run t) <> Crashed /\ md (run t) <> Head.
Proof.
  unfold run. apply (run_ok (c_nl :: t) false st0); [left; reflexivity|].
  split; [discriminate|]. discriminate.
Qed.

Theorem split_raw_total t : exists bs, split_raw t = Blocks bs.
Proof.
  unfold split_raw, finish. destruct (run_not_crashed t) as [A B].
  destruct (md (run t)); try contradiction; eauto.
Qed.

Theorem split_total t : exists bs, split t = Blocks bs.
Proof.
  unfold split. destruct (split_raw_total t) as [bs E]. rewrite E. eauto.
Qed.

(* the mark after every At mark is an opening-brace mark (anchor: "lookahead in the mark regex guaranteeing
   an opening brace after every @type mark") *)
Theorem at_then_brace pb c r : classify1 pb c r = Some MAt -> good_head (classify (c =? c_bs) r).
Proof.
  intros E. apply at_mark_spec in E as [Ec Ha]. subst c. apply good_after_words; [reflexivity | exact Ha].
Qed.
