(* C13: what the single pass of parse_single_name_into_parts guarantees about its own word and case lists
   (lock-step, no empty word), the partition theorem over them, words-once, strict vs non-strict, error blocks. *)
From Coq Require Import List NArith ZArith Bool Lia PeanoNat.
From BP Require Import Base.Chars Model.Blocks Gen.Constants Model.Names Spec.C13 Proofs.NamesPartProofs.
Import ListNotations.

(* ---------------------------------------------------------------- lock-step invariant of the pass *)
Definition ZInv (st : pst) : Prop :=
  exists Zs : list (list zw), p_secs st = map (map fst) Zs /\ p_cases st = map (map snd) Zs /\ words_nonempty Zs.

Lemma push_last_fst (x : zw) Zs : map (map fst) (push_last x Zs) = push_last (fst x) (map (map fst) Zs).
Proof. destruct Zs; reflexivity. Qed.
Lemma push_last_snd (x : zw) Zs : map (map snd) (push_last x Zs) = push_last (snd x) (map (map snd) Zs).
Proof. destruct Zs; reflexivity. Qed.
Lemma push_last_ne (x : zw) Zs : fst x <> [] -> words_nonempty Zs -> words_nonempty (push_last x Zs).
Proof.
  intros Hx H. destruct Zs as [|z Zs]; simpl.
  - repeat constructor. exact Hx.
  - inversion H; subst. constructor; [constructor|]; assumption.
Qed.

Lemma rev_ne {A} (l : list A) : l <> [] -> rev l <> [].
Proof. destruct l as [|x l]; [contradiction|]. intros _ E. simpl in E. destruct (rev l); discriminate. Qed.

Lemma zinv_push st w c : w <> [] -> ZInv st ->
  exists Zs, push_last (rev w) (p_secs st) = map (map fst) Zs /\ push_last c (p_cases st) = map (map snd) Zs /\ words_nonempty Zs.
Proof.
  intros Hw (Zs & E1 & E2 & Hne). exists (push_last (rev w, c) Zs).
  rewrite push_last_fst, push_last_snd, E1, E2. repeat split; try reflexivity.
  apply push_last_ne; [simpl; apply rev_ne; exact Hw | exact Hne].
Qed.

Lemma zinv_newsec secs cases : (exists Zs, secs = map (map fst) Zs /\ cases = map (map snd) Zs /\ words_nonempty Zs) ->
  exists Zs, [] :: secs = map (map fst) Zs /\ [] :: cases = map (map snd) Zs /\ words_nonempty Zs.
Proof.
  intros (Zs & E1 & E2 & Hne). exists ([] :: Zs). simpl. rewrite E1, E2. repeat split; try reflexivity.
  constructor; [constructor | exact Hne].
Qed.

Ltac dif H := match type of H with context[if ?b then _ else _] => destruct b end.

Lemma norm_zinv strict st c st' : parse_norm strict st c = POk st' -> ZInv st -> ZInv st'.
Proof.
  unfold parse_norm. intros H HI.
  destruct (ceq c c_lb); [inversion H; subst; exact HI|].
  destruct (ceq c c_rb).
  { destruct (negb (p_level st =? 0)%N); [inversion H; subst; exact HI|].
    destruct strict; [discriminate|]. inversion H; subst; exact HI. }
  destruct (negb (p_level st =? 0)%N); [inversion H; subst; exact HI|].
  destruct (ceq c c_comma || ws_parse c).
  2:{ inversion H; subst; exact HI. }
  destruct (p_word st) as [|x w] eqn:Ew.
  - cbn [p_secs p_cases p_case p_controlseq p_specialchar] in H.
    destruct (ceq c c_comma).
    + dif H.
      * inversion H; subst. unfold ZInv. cbn [p_secs p_cases]. apply zinv_newsec. exact HI.
      * destruct strict; [discriminate|]. inversion H; subst; exact HI.
    + inversion H; subst; exact HI.
  - cbn [p_secs p_cases p_case p_controlseq p_specialchar] in H.
    assert (HP := zinv_push st (x :: w) (p_case st) ltac:(discriminate) HI).
    destruct (ceq c c_comma).
    + dif H.
      * inversion H; subst. unfold ZInv. cbn [p_secs p_cases]. apply zinv_newsec. exact HP.
      * destruct strict; [discriminate|]. inversion H; subst. exact HP.
    + inversion H; subst. exact HP.
Qed.

Lemma esc_zinv strict st c st' : parse_esc strict st c = POk st' -> ZInv st -> ZInv st'.
Proof.
  unfold parse_esc. intros H HI.
  destruct (ws_parse c).
  - eapply norm_zinv; [exact H|]. exact HI.
  - destruct (p_bracestart st); inversion H; subst; exact HI.
Qed.

Lemma step_zinv strict st c st' : parse_step strict (POk st) c = POk st' -> ZInv st -> ZInv st'.
Proof.
  unfold parse_step. intros H HI.
  destruct (p_esc st).
  - eapply esc_zinv; [exact H|]. exact HI.
  - destruct (ceq c c_bs).
    + inversion H; subst. exact HI.
    + eapply norm_zinv; eassumption.
Qed.

Lemma fold_err strict s e : fold_left (parse_step strict) s (PErr e) = PErr e.
Proof. induction s as [|c s IH]; [reflexivity|]. simpl. exact IH. Qed.

Lemma fold_zinv strict s : forall st st', fold_left (parse_step strict) s (POk st) = POk st' -> ZInv st -> ZInv st'.
Proof.
  induction s as [|c s IH]; intros st st' H HI; cbn [fold_left] in H.
  - inversion H; subst; exact HI.
  - destruct (parse_step strict (POk st) c) as [st1|e] eqn:E.
    + eapply IH; [exact H|]. eapply step_zinv; eassumption.
    + rewrite fold_err in H. discriminate.
Qed.

Lemma zinv0 : ZInv pst0.
Proof. exists [[]]. repeat split. repeat constructor. Qed.

Lemma zip_final (Zs : list (list zw)) :
  rev (map (@rev str) (map (map fst) Zs)) = map (map fst) (rev (map (@rev zw) Zs))
  /\ rev (map (@rev Z) (map (map snd) Zs)) = map (map snd) (rev (map (@rev zw) Zs))
  /\ (words_nonempty Zs -> words_nonempty (rev (map (@rev zw) Zs))).
Proof.
  repeat split.
  - rewrite map_rev, !map_map. f_equal. apply map_ext. intros l. symmetry. apply map_rev.
  - rewrite map_rev, !map_map. f_equal. apply map_ext. intros l. symmetry. apply map_rev.
  - intros H. unfold words_nonempty in *. apply Forall_rev. apply Forall_map.
    eapply Forall_impl; [|exact H]. intros l Hl. apply Forall_rev. exact Hl.
Qed.

(* the word lists and case lists handed to the partition are in lock-step and contain no empty word *)
Lemma parse_sections_zip strict s secs cases : parse_sections strict s = POk (secs, cases) ->
  exists Zs : list (list zw), secs = map (map fst) Zs /\ cases = map (map snd) Zs /\ words_nonempty Zs.
Proof.
  unfold parse_sections. intros H.
  destruct (fold_left (parse_step strict) s (POk pst0)) as [st0|e] eqn:Ef; [|discriminate].
  pose proof (fold_zinv strict s _ _ Ef zinv0) as HI0.
  destruct (if p_esc st0 then parse_norm strict (set_esc st0 false) c_bs else POk st0) as [st|e] eqn:Ee; [|discriminate].
  assert (HI : ZInv st).
  { destruct (p_esc st0).
    - eapply norm_zinv; [exact Ee|]. exact HI0.
    - inversion Ee; subst; exact HI0. }
  clear Ef Ee HI0 st0.
  destruct (negb (p_level st =? 0)%N && strict); [discriminate|].
  set (word := repeat_ch c_rb (N.to_nat (p_level st)) ++ p_word st) in *.
  assert (HP : exists Zs, (match word with [] => p_secs st | _ => push_last (rev word) (p_secs st) end) = map (map fst) Zs
                          /\ (match word with [] => p_cases st | _ => push_last (p_case st) (p_cases st) end) = map (map snd) Zs
                          /\ words_nonempty Zs).
  { destruct word as [|x w] eqn:Ew; [exact HI|]. apply zinv_push; [discriminate | exact HI]. }
  destruct HP as (Zs & E1 & E2 & Hne). rewrite E1, E2 in H. clear E1 E2.
  destruct Zs as [|z Zs].
  - simpl in H. inversion H; subst. exists []. repeat split. constructor.
  - destruct z as [|x z].
    + cbn [map] in H.
      dif H; [discriminate|].
      inversion H; subst. destruct (zip_final Zs) as (F1 & F2 & F3).
      exists (rev (map (@rev zw) Zs)). repeat split; [exact F1 | exact F2 |]. apply F3. inversion Hne; assumption.
    + cbn [map] in H. inversion H; subst.
      destruct (zip_final ((x :: z) :: Zs)) as (F1 & F2 & F3).
      exists (rev (map (@rev zw) ((x :: z) :: Zs))). repeat split; [exact F1 | exact F2 |]. apply F3. exact Hne.
Qed.

(* ---------------------------------------------------------------- the partition theorem over the pass's own lists *)
Definition zsecs_of (Zs : list (list zw)) : list (list cword) := map (map cw) Zs.

Lemma parse_name_partition strict s p : parse_name strict s = POk p ->
  exists Zs : list (list zw),
    parse_sections strict s = POk (map (map fst) Zs, map (map snd) Zs) /\ words_nonempty Zs /\
    p = if forallb is_nil Zs then parts0 else partition_spec (zsecs_of Zs).
Proof.
  unfold parse_name. intros H.
  destruct (parse_sections strict s) as [[secs cases]|e] eqn:E; [|discriminate].
  destruct (parse_sections_zip strict s secs cases E) as (Zs & E1 & E2 & Hne). subst secs cases.
  exists Zs. split; [reflexivity|]. split; [exact Hne|].
  assert (Hall : forallb (fun sec : list str => match sec with [] => true | _ => false end) (map (map fst) Zs) = forallb is_nil Zs).
  { clear. induction Zs as [|z Zs IH]; [reflexivity|]. simpl. rewrite IH. destruct z; reflexivity. }
  rewrite Hall in H. destruct (forallb is_nil Zs); inversion H; subst; [reflexivity|].
  apply partition_eq. exact Hne.
Qed.

(* ---------------------------------------------------------------- every word once; Last keeps the final word *)
Lemma leading_le {A} (p : A -> bool) l : (leading p l <= length l)%nat.
Proof. induction l as [|x l IH]; simpl; [lia|]. destruct (p x); lia. Qed.
Lemma upto_last_le {A} (p : A -> bool) l : (upto_last p l <= length l)%nat.
Proof. induction l as [|x l IH]; simpl; [lia|]. destruct (upto_last p l); [destruct (p x)|]; lia. Qed.

Lemma skipn_add {A} (l : list A) a b : skipn a (skipn b l) = skipn (a + b) l.
Proof.
  revert l. induction b as [|b IH]; intros l.
  - rewrite Nat.add_0_r. reflexivity.
  - rewrite Nat.add_succ_r. destruct l as [|x l]; [rewrite !skipn_nil; reflexivity|]. simpl. apply IH.
Qed.

Lemma split3 {A} (l : list A) f k : (f <= k)%nat -> firstn f l ++ firstn (k - f) (skipn f l) ++ skipn k l = l.
Proof.
  intros H. replace (skipn k l) with (skipn (k - f) (skipn f l)).
  - rewrite firstn_skipn. apply firstn_skipn.
  - rewrite skipn_add. f_equal. lia.
Qed.

Lemma last_skipn {A} (l : list A) k d : (k < length l)%nat -> skipn k l <> [] /\ last (skipn k l) d = last l d.
Proof.
  revert k. induction l as [|x l IH]; intros k H; simpl in H; [lia|].
  destruct k as [|k].
  - simpl. split; [discriminate | reflexivity].
  - simpl skipn. destruct (IH k ltac:(lia)) as [I1 I2]. split; [exact I1|].
    rewrite I2. destruct l; [simpl in H; lia | reflexivity].
Qed.

Lemma last_map_fst (sec : list cword) : last (map fst sec) [] = fst (last sec ([], Caseless)).
Proof. change (@nil ch) with (fst (@nil ch, Caseless)) at 1. apply last_map. Qed.

Lemma von_end_lt (sec : list cword) : sec <> [] -> (von_end sec < length sec)%nat.
Proof.
  intros H. unfold von_end. pose proof (upto_last_le is_lower (removelast sec)). rewrite removelast_length in H0.
  destruct sec; [contradiction|]. simpl in *. lia.
Qed.

Lemma spec_words_once secs : words_once secs (partition_spec secs) /\ last_keeps_final secs (partition_spec secs).
Proof.
  destruct secs as [|sec0 rest]; [split; [reflexivity | exact I]|].
  destruct rest as [|s1 rest].
  - (* Form 1 *)
    destruct sec0 as [|a [|b [|c r]]].
    + split; [split; reflexivity | intros H; contradiction].
    + split; [split; reflexivity | intros _; split; [discriminate | reflexivity]].
    + split; [split; reflexivity | intros _; split; [discriminate | reflexivity]].
    + set (sec := a :: b :: c :: r).
      change (partition_spec [sec]) with
        (let f := leading (fun x => negb (is_lower x)) (removelast sec) in
         let k := Nat.max f (von_end sec) in
         mkparts (map fst (firstn f sec)) (map fst (firstn (k - f) (skipn f sec))) (map fst (skipn k sec)) []).
      cbv zeta. set (f := leading _ _). set (k := Nat.max f _).
      assert (Hf : (f <= k)%nat) by (unfold k; lia).
      assert (Hk : (k < length sec)%nat).
      { unfold k. pose proof (von_end_lt sec ltac:(discriminate)).
        pose proof (leading_le (fun x => negb (is_lower x)) (removelast sec)) as L. fold f in L.
        rewrite removelast_length in L. simpl length in *. lia. }
      split.
      * unfold words_once. cbn [n_first n_von n_last n_jr]. split; [|reflexivity].
        rewrite <- !map_app. f_equal. apply split3. exact Hf.
      * unfold last_keeps_final. cbn [n_last]. intros _.
        destruct (last_skipn sec k ([], Caseless) Hk) as [L1 L2]. split.
        -- intros E. apply map_eq_nil in E. contradiction.
        -- rewrite !last_map_fst, L2. reflexivity.
  - (* Forms 2, 3 *)
    change (partition_spec (sec0 :: s1 :: rest)) with
      (mkparts (map fst (last (s1 :: rest) [])) (map fst (firstn (von_end sec0) sec0)) (map fst (skipn (von_end sec0) sec0))
               (match s1 :: rest with [jr; _] => map fst jr | _ => [] end)).
    split.
    + unfold words_once. cbn [n_first n_von n_last n_jr]. split; [|split; reflexivity].
      rewrite <- map_app, firstn_skipn. reflexivity.
    + unfold last_keeps_final. cbn [n_last]. intros Hne.
      destruct (last_skipn sec0 (von_end sec0) ([], Caseless) (von_end_lt sec0 Hne)) as [L1 L2]. split.
      * intros E. apply map_eq_nil in E. contradiction.
      * rewrite !last_map_fst, L2. reflexivity.
Qed.

(* ---------------------------------------------------------------- strict mode only adds errors *)
Lemma norm_strict_sub st c st' : parse_norm true st c = POk st' -> parse_norm false st c = POk st'.
Proof.
  unfold parse_norm. intros H.
  repeat (match goal with |- context[if ?b then _ else _] => destruct b end; try exact H; try discriminate).
Qed.
Lemma esc_strict_sub st c st' : parse_esc true st c = POk st' -> parse_esc false st c = POk st'.
Proof.
  unfold parse_esc. intros H. destruct (ws_parse c); [apply norm_strict_sub; exact H | exact H].
Qed.
Lemma step_strict_sub st c st' : parse_step true (POk st) c = POk st' -> parse_step false (POk st) c = POk st'.
Proof.
  unfold parse_step. intros H. destruct (p_esc st); [apply esc_strict_sub; exact H|].
  destruct (ceq c c_bs); [exact H | apply norm_strict_sub; exact H].
Qed.
Lemma fold_strict_sub s : forall st st', fold_left (parse_step true) s (POk st) = POk st' ->
  fold_left (parse_step false) s (POk st) = POk st'.
Proof.
  induction s as [|c s IH]; intros st st' H; cbn [fold_left] in *; [exact H|].
  destruct (parse_step true (POk st) c) as [st1|e] eqn:E.
  - rewrite (step_strict_sub _ _ _ E). apply IH. exact H.
  - rewrite fold_err in H. discriminate.
Qed.

Lemma sections_strict_sub s r : parse_sections true s = POk r -> parse_sections false s = POk r.
Proof.
  unfold parse_sections. intros H.
  destruct (fold_left (parse_step true) s (POk pst0)) as [st0|e] eqn:Ef; [|discriminate].
  rewrite (fold_strict_sub s _ _ Ef).
  destruct (p_esc st0).
  - destruct (parse_norm true (set_esc st0 false) c_bs) as [st|e] eqn:En; [|discriminate].
    rewrite (norm_strict_sub _ _ _ En).
    destruct (negb (p_level st =? 0)%N); [discriminate|]. cbn [andb] in *.
    repeat (match type of H with context[match ?x with _ => _ end] => destruct x end; try discriminate; try exact H).
    all: rewrite andb_false_r; exact H.
  - destruct (negb (p_level st0 =? 0)%N); [discriminate|]. cbn [andb] in *.
    repeat (match type of H with context[match ?x with _ => _ end] => destruct x end; try discriminate; try exact H).
    all: rewrite andb_false_r; exact H.
Qed.

Lemma strict_sub s p : parse_name true s = POk p -> parse_name false s = POk p.
Proof.
  unfold parse_name. intros H. destruct (parse_sections true s) as [r|e] eqn:E; [|discriminate].
  rewrite (sections_strict_sub s r E). exact H.
Qed.

(* ---------------------------------------------------------------- SplitNameParts on an entry *)
Lemma map_VStr_inj l l' : map VStr l = map VStr l' -> l = l'.
Proof.
  revert l'. induction l as [|x l IH]; intros [|y l'] H; simpl in H; try discriminate; [reflexivity|].
  inversion H; subst. f_equal. apply IH. assumption.
Qed.

Lemma parse_all_strs l :
  (exists ps, parse_all (map VStr l) = VOk (VList (map v_of_parts ps)) /\ Forall2 (fun n p => parse_name true n = POk p) l ps)
  \/ (exists e n, parse_all (map VStr l) = VInvalid e /\ In n l /\ parse_name true n = PErr e).
Proof.
  induction l as [|n l IH].
  - left. exists []. split; [reflexivity | constructor].
  - cbn [map parse_all]. destruct (parse_name true n) as [p|e] eqn:E.
    + destruct IH as [(ps & E1 & F)|(e & n' & E1 & Hin & E2)].
      * left. exists (p :: ps). rewrite E1. split; [reflexivity|]. constructor; assumption.
      * right. exists e, n'. rewrite E1. repeat split; [right; exact Hin | exact E2].
    + right. exists e, n. repeat split; [left; reflexivity | exact E].
Qed.

Lemma frame_refl nf fs : frame nf fs fs.
Proof. induction fs; constructor; auto. Qed.

Lemma Forall2_In_l {A B} (R : A -> B -> Prop) l l' x : Forall2 R l l' -> In x l -> exists y, R x y.
Proof.
  intros F. induction F as [|a b l l' Hab F IH]; intros Hin; [contradiction|].
  destruct Hin as [->|Hin]; [exists b; exact Hab | apply IH; exact Hin].
Qed.

Lemma tf_split nf fs : well_typed nf fs ->
  (exists fs', transform_fields nf MwSplitParts fs = FOk fs' /\ frame nf fs fs' /\ Forall2 (split_field_ok nf) fs fs'
               /\ ~ Exists (has_invalid_name nf) fs)
  \/ (exists fs', transform_fields nf MwSplitParts fs = FInvalid fs' /\ frame nf fs fs'
                  /\ exists f, In f fs /\ In f fs' /\ has_invalid_name nf f).
Proof.
  induction fs as [|f r IH]; intros HW.
  - left. exists []. repeat split; try constructor. intros H; inversion H.
  - inversion HW as [|? ? Hf Hr]; subst. specialize (IH Hr). cbn [transform_fields].
    destruct (mem_str (fkey f) nf) eqn:Em.
    + destruct (Hf eq_refl) as [l Hl]. unfold names_of in Hl. rewrite Hl. cbn [transform_value].
      destruct (parse_all_strs l) as [(ps & E1 & F)|(e & n & E1 & Hin & E2)]; rewrite E1.
      * destruct IH as [(r' & E & Fr & Sp & NE)|(r' & E & Fr & f0 & I1 & I2 & HI)]; rewrite E.
        -- left. eexists. split; [reflexivity|]. split; [|split].
           ++ constructor; [|exact Fr]. cbn. repeat split; try reflexivity. rewrite Em. discriminate.
           ++ constructor; [|exact Sp]. intros _. exists l, ps. repeat split; assumption.
           ++ intros Hex. inversion Hex as [? ? Hh|? ? Ht]; subst; [|apply NE; exact Ht].
              destruct Hh as (_ & l' & n & e & Hl' & Hin & Herr). unfold names_of in Hl'. rewrite Hl in Hl'.
              inversion Hl' as [Hm]. apply map_VStr_inj in Hm. subst l'.
              destruct (Forall2_In_l _ _ _ _ F Hin) as [p Hp]. rewrite Hp in Herr. discriminate.
        -- right. eexists. split; [reflexivity|]. split.
           ++ constructor; [|exact Fr]. cbn. repeat split; try reflexivity. rewrite Em. discriminate.
           ++ exists f0. repeat split; [right; exact I1 | right; exact I2 | apply HI | apply HI].
      * right. exists (f :: r). split; [reflexivity|]. split; [apply frame_refl|].
        exists f. repeat split; [left; reflexivity | left; reflexivity | exact Em |].
        exists l, n, e. repeat split; assumption.
    + destruct IH as [(r' & E & Fr & Sp & NE)|(r' & E & Fr & f0 & I1 & I2 & HI)]; rewrite E.
      * left. exists (f :: r'). split; [reflexivity|]. split; [|split].
        -- constructor; [|exact Fr]. auto.
        -- constructor; [|exact Sp]. intros Hc. rewrite Em in Hc. discriminate.
        -- intros Hex. inversion Hex as [? ? Hh|? ? Ht]; subst; [|apply NE; exact Ht].
           destruct Hh as [Hc _]. rewrite Em in Hc. discriminate.
      * right. exists (f :: r'). split; [reflexivity|]. split.
        -- constructor; [|exact Fr]. auto.
        -- exists f0. repeat split; [right; exact I1 | right; exact I2 | apply HI | apply HI].
Qed.

Lemma split_entry_error_block nf h t key fs : well_typed nf fs ->
  error_block_spec nf h t key fs (name_entry nf MwSplitParts (BEntry h t key fs)).
Proof.
  intros HW. unfold error_block_spec, name_entry.
  destruct (tf_split nf fs HW) as [(fs' & E & Fr & Sp & NE)|(fs' & E & Fr & Hex)]; rewrite E.
  - left. exists fs'. auto.
  - right. exists fs'. auto.
Qed.

(* blocks that are not entries pass through every name middleware unchanged *)
Lemma name_entry_other nf mw b : is_entry b = false -> name_entry nf mw b = NBVal b.
Proof. destruct b; try reflexivity; discriminate. Qed.

Lemma spec_words_once1 secs : words_once secs (partition_spec secs).
Proof. exact (proj1 (spec_words_once secs)). Qed.
Lemma spec_last_keeps_final secs : last_keeps_final secs (partition_spec secs).
Proof. exact (proj2 (spec_words_once secs)). Qed.
