(* K14 needs a brace as well: on ASCII words without a brace - escapes at level 0 included - the word case of Spec/C13 (the
   library's) IS the one of BibTeX's von_token_found. *)
From Coq Require Import List NArith ZArith Bool String Lia Wf_nat.
From BP Require Import Base.Chars Model.Blocks Gen.Constants Model.Names Spec.C13 Spec.BibtexCase Proofs.BibtexCaseProofs Proofs.BibtexCaseAgree.
Import ListNotations.
Local Open Scope N_scope.

Definition no_brace (w : str) : bool := forallb (fun c => negb (ceq c c_lb) && negb (ceq c c_rb)) w.

(* the separators of the name parser (regenerated from the running module) are not ASCII letters: re-checked at every build *)
Lemma ws_not_letters : forallb (fun c => negb (upA c || loA c)) names_ws_parse = true.
Proof. vm_compute. reflexivity. Qed.
Lemma ws_not_letter e : ws_parse e = true -> upA e || loA e = false.
Proof.
  unfold ws_parse, in_set. intro H. apply existsb_exists in H. destruct H as (x & Hin & Hx).
  apply N.eqb_eq in Hx. subst x. pose proof (proj1 (forallb_forall _ _) ws_not_letters _ Hin) as F.
  apply negb_true_iff in F. exact F.
Qed.
Lemma bs_not_letter : upA c_bs || loA c_bs = false.
Proof. reflexivity. Qed.

Lemma str_len_ind (P : str -> Prop) :
  (forall l : str, (forall l' : str, (List.length l' < List.length l)%nat -> P l') -> P l) -> forall l, P l.
Proof.
  intros H l. remember (List.length l) as n eqn:E. revert l E.
  induction n as [n IH] using lt_wf_ind. intros l ->. apply H. intros l' Hl. apply (IH _ Hl _ eq_refl).
Qed.

Lemma agree_nb w : forallb ascii_canon w = true -> no_brace w = true ->
  (match word_case_go (atoms w) MTop 0 with Lower => true | _ => false end) = von_go w TTop.
Proof.
  pattern w. apply str_len_ind. clear w. intros w IH Hc Hb. destruct w as [|c r]; [reflexivity|].
  cbn [forallb] in Hc. apply andb_prop in Hc. destruct Hc as [Hc Hcr].
  cbn [no_brace forallb] in Hb. apply andb_prop in Hb. destruct Hb as [Hb Hbr].
  apply andb_prop in Hb. destruct Hb as [Ho Hcl]. apply negb_true_iff in Ho, Hcl.
  destruct (canon_facts c Hc) as [Fa Fu].
  cbn [atoms]. destruct (ceq c c_bs) eqn:Ebs.
  - apply N.eqb_eq in Ebs. subst c.
    destruct r as [|e r'].
    + reflexivity.
    + cbn [forallb] in Hcr. apply andb_prop in Hcr. destruct Hcr as [He Hcr'].
      cbn [no_brace forallb] in Hbr. apply andb_prop in Hbr. destruct Hbr as [Hbe Hbr'].
      apply andb_prop in Hbe. destruct Hbe as [Hoe Hcle]. apply negb_true_iff in Hoe, Hcle.
      destruct (canon_facts e He) as [Fae Fue].
      assert (IHr : (match word_case_go (atoms r') MTop 0 with Lower => true | _ => false end) = von_go r' TTop).
      { apply IH; [cbn [List.length]; lia | exact Hcr' | exact Hbr']. }
      destruct (ws_parse e) eqn:Ews.
      * pose proof (ws_not_letter e Ews) as Nl. apply orb_false_elim in Nl. destruct Nl as [Nu Nlo].
        cbn [word_case_go is_open is_close von_go]. rewrite Ho, Hcl, Hoe, Hcle.
        replace (isalpha c_bs) with false by reflexivity. replace (upA c_bs) with false by reflexivity.
        replace (loA c_bs) with false by reflexivity.
        rewrite Fae, Nu, Nlo. cbn [orb]. exact IHr.
      * cbn [word_case_go is_open is_close von_go]. rewrite Ho.
        replace (upA c_bs) with false by reflexivity. replace (loA c_bs) with false by reflexivity.
        rewrite Hoe. rewrite Fae. unfold letter_case. rewrite Fue.
        destruct (upA e) eqn:U; [reflexivity|]. destruct (loA e) eqn:Lo; [reflexivity|]. cbn [orb]. exact IHr.
  - assert (IHr : (match word_case_go (atoms r) MTop 0 with Lower => true | _ => false end) = von_go r TTop).
    { apply IH; [cbn [List.length]; lia | exact Hcr | exact Hbr]. }
    cbn [word_case_go is_open is_close von_go]. rewrite Ho, Hcl. rewrite Fa. unfold letter_case. rewrite Fu.
    destruct (upA c) eqn:U; [reflexivity|]. destruct (loA c) eqn:Lo; [reflexivity|]. cbn [orb]. exact IHr.
Qed.

(* on ASCII words without a brace - escapes included - the library's word case IS BibTeX's: K14 needs a brace as well *)
Theorem agree_no_brace w : forallb ascii_canon w = true -> no_brace w = true -> lib_von w = von_token_found w.
Proof. intros Hc Hb. unfold lib_von, von_token_found, word_case. apply agree_nb; assumption. Qed.
