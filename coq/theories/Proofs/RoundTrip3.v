(* C05, part 2: RemoveEnclosing on the rendered values of the dialect.  One braced / quoted piece loses exactly
   its delimiters; every other value (bare, concatenation) is kept whole. *)
From Coq Require Import List NArith ZArith Bool Lia String.
From BP Require Import Base.Chars Model.Blocks Gen.Constants Model.Enclosing Model.Lexer Model.Splitter Model.Grammar
  Proofs.EnclosingProofs Proofs.SplitGrammar.
Import ListNotations.
Local Open Scope Z_scope.

Lemma ceq_N a b : ceq a b = (a =? b)%N.
Proof. reflexivity. Qed.

(* an active-brace-free character, as wf_braced sees it *)
Lemma delim_nobrace pb c :
  match delim pb c with Some MLB | Some MRB => false | _ => true end = true ->
  pb = true \/ ((c =? c_lb)%N = false /\ (c =? c_rb)%N = false).
Proof.
  unfold delim. destruct (c =? c_nl)%N eqn:En.
  - apply N.eqb_eq in En. subst. intros _. right. split; reflexivity.
  - destruct pb; [left; reflexivity|]. intros H. right.
    destruct (c =? c_lb)%N; [discriminate|]. destruct (c =? c_rb)%N; [discriminate|]. split; reflexivity.
Qed.

(* the scan of _is_single_enclosed_piece walks over a well-formed brace content without returning *)
Lemma scan_braced b : forall pb d rest, wf_braced pb b = true -> d > 0 -> rest <> [] ->
  scan true false pb d (render_braced b ++ rest) = scan true false false d rest.
Proof.
  induction b as [|c b IH|g IHg b IHb]; intros pb d rest W Hd Hr; cbn [render_braced app].
  - cbn [wf_braced] in W. destruct pb; [discriminate | reflexivity].
  - cbn [wf_braced] in W. apply andb_true_iff in W as [W1 W2].
    assert (Hne : render_braced b ++ rest <> []) by (destruct (render_braced b); [exact Hr | discriminate]).
    cbn [scan]. destruct (render_braced b ++ rest) as [|x xs] eqn:Ex; [contradiction|]. rewrite <- Ex.
    destruct pb.
    + unfold ceq. apply IH; assumption.
    + destruct (delim_nobrace _ _ W1) as [?|[A B]]; [discriminate|]. unfold ceq. rewrite A, B.
      cbn [negb andb]. rewrite andb_false_r. cbn [andb]. apply IH; assumption.
  - cbn [wf_braced] in W. apply andb_true_iff in W as [W1 W3]. apply andb_true_iff in W1 as [W1 W2].
    destruct pb; [discriminate|]. cbn [scan]. change (ceq c_lb c_lb) with true. cbn iota.
    rewrite <- app_assoc. rewrite IHg; [|exact W2|lia|discriminate]. cbn [app scan].
    change (ceq c_rb c_lb) with false. change (ceq c_rb c_rb) with true. cbn iota.
    replace (d + 1 - 1 =? 0) with false by (symmetry; apply Z.eqb_neq; lia). cbn [andb].
    replace (d + 1 - 1) with d by lia. apply IHb; assumption.
Qed.

Lemma delim_noquote pb c :
  match delim pb c with Some MLB | Some MRB | Some MQ => false | _ => true end = true ->
  pb = true \/ ((c =? c_lb)%N = false /\ (c =? c_rb)%N = false /\ (c =? c_quote)%N = false).
Proof.
  unfold delim. destruct (c =? c_nl)%N eqn:En.
  - apply N.eqb_eq in En. subst. intros _. right. repeat split; reflexivity.
  - destruct pb; [left; reflexivity|]. intros H. right.
    destruct (c =? c_lb)%N; [discriminate|]. destruct (c =? c_rb)%N; [discriminate|].
    destruct (c =? c_quote)%N; [discriminate|]. repeat split; reflexivity.
Qed.

Lemma scan_quoted q : forall pb d rest, wf_quoted pb q = true -> d >= 0 -> rest <> [] ->
  scan false false pb d (render_quoted q ++ rest) = scan false false false d rest.
Proof.
  induction q as [|c q IH|g IHg q IHq]; intros pb d rest W Hd Hr; cbn [render_quoted app].
  - cbn [wf_quoted] in W. destruct pb; [discriminate | reflexivity].
  - cbn [wf_quoted] in W. apply andb_true_iff in W as [W1 W2].
    assert (Hne : render_quoted q ++ rest <> []) by (destruct (render_quoted q); [exact Hr | discriminate]).
    cbn [scan]. destruct (render_quoted q ++ rest) as [|x xs] eqn:Ex; [contradiction|]. rewrite <- Ex.
    destruct pb.
    + unfold ceq. apply IH; assumption.
    + destruct (delim_noquote _ _ W1) as [?|(A & B & C)]; [discriminate|]. unfold ceq. rewrite A, B, C.
      cbn [andb]. apply IH; assumption.
  - cbn [wf_quoted] in W. apply andb_true_iff in W as [W1 W3]. apply andb_true_iff in W1 as [W1 W2].
    destruct pb; [discriminate|]. cbn [scan]. change (ceq c_lb c_lb) with true. cbn iota.
    rewrite <- app_assoc. rewrite IHg; [|exact W2|lia|discriminate]. cbn [app scan].
    change (ceq c_rb c_lb) with false. change (ceq c_rb c_rb) with true. cbn iota.
    rewrite andb_false_r. replace (d + 1 - 1) with d by lia. apply IHq; assumption.
Qed.

Lemma last_ch_snoc2 c w x : last_ch (c :: w ++ [x]) = x.
Proof. apply last_ch_snoc. Qed.

Lemma single_braced b : wf_braced false b = true ->
  is_single_enclosed_piece (c_lb :: render_braced b ++ [c_rb]) = true.
Proof.
  intros W. unfold is_single_enclosed_piece. rewrite last_ch_snoc.
  change (ceq c_lb c_lb) with true. change (ceq c_rb c_rb) with true. cbn [andb negb].
  cbn [scan]. change (ceq c_lb c_lb) with true. cbn iota.
  rewrite (scan_braced b false (0 + 1) [c_rb] W); [reflexivity | lia | discriminate].
Qed.

Lemma single_quoted q : wf_quoted false q = true ->
  is_single_enclosed_piece (c_quote :: render_quoted q ++ [c_quote]) = true.
Proof.
  intros W. unfold is_single_enclosed_piece. rewrite last_ch_snoc.
  change (ceq c_quote c_lb) with false. change (ceq c_quote c_quote) with true. cbn [andb negb].
  cbn [scan]. change (ceq c_quote c_lb) with false. change (ceq c_quote c_rb) with false.
  change (ceq c_quote c_quote) with true. cbn [andb negb]. rewrite !andb_false_r. cbn iota.
  change (ceq c_quote c_bs) with false.
  rewrite (scan_quoted q false 0 [c_quote] W); [reflexivity | lia | discriminate].
Qed.

Lemma strip_tight0 s : tight s = true -> strip s = s.
Proof. intros T. pose proof (strip_tight [] s [] eq_refl eq_refl T) as H. rewrite app_nil_r in H. exact H. Qed.

Lemma strip_enclosing_single c w x : strip (c :: w ++ [x]) = c :: w ++ [x] ->
  is_single_enclosed_piece (c :: w ++ [x]) = true -> strip_enclosing (c :: w ++ [x]) = (w, [c]).
Proof.
  intros S I. unfold strip_enclosing. rewrite S.
  assert (E : exists y ys, w ++ [x] = y :: ys) by (destruct w; cbn; eauto).
  destruct E as (y & ys & E). pose proof (inner_snoc c w x) as In. rewrite E in *. rewrite I, In. reflexivity.
Qed.

Lemma strip_enclosing_not_single s : strip s = s -> is_single_enclosed_piece s = false ->
  strip_enclosing s = (s, no_enclosing).
Proof.
  intros S I. unfold strip_enclosing. rewrite S. destruct s as [|c [|y ys]]; try reflexivity. rewrite I. reflexivity.
Qed.

Lemma value_strip v : wf_value v = true -> strip (render_value v) = render_value v.
Proof. intros W. apply strip_tight0, value_tight, W. Qed.

Definition gv1 (p : piece) : gvalue := mkgv p [].
Lemma render_gv1 p : render_value (gv1 p) = render_piece p.
Proof. unfold render_value, gv1. cbn. apply app_nil_r. Qed.

Lemma strip_enclosing_braced b : wf_braced false b = true ->
  strip_enclosing (c_lb :: render_braced b ++ [c_rb]) = (render_braced b, [c_lb]).
Proof.
  intros W. apply strip_enclosing_single; [|apply single_braced, W].
  change (c_lb :: render_braced b ++ [c_rb]) with (render_piece (PBraced b)).
  rewrite <- (render_gv1 (PBraced b)). apply value_strip. unfold wf_value, gv1. cbn. rewrite W. reflexivity.
Qed.
Lemma strip_enclosing_quoted q : wf_quoted false q = true ->
  strip_enclosing (c_quote :: render_quoted q ++ [c_quote]) = (render_quoted q, [c_quote]).
Proof.
  intros W. apply strip_enclosing_single; [|apply single_quoted, W].
  change (c_quote :: render_quoted q ++ [c_quote]) with (render_piece (PQuoted q)).
  rewrite <- (render_gv1 (PQuoted q)). apply value_strip. unfold wf_value, gv1. cbn. rewrite W. reflexivity.
Qed.

(* ---- values that are not one enclosed piece *)
Lemma isp_false_if_scan c0 r : scan (ceq c0 c_lb) true false 0 (c0 :: r) = false -> is_single_enclosed_piece (c0 :: r) = false.
Proof. intros H. unfold is_single_enclosed_piece. rewrite H. destruct (negb _ && negb _); reflexivity. Qed.

Lemma not_single_braced_more b rest : wf_braced false b = true -> rest <> [] ->
  is_single_enclosed_piece (c_lb :: render_braced b ++ c_rb :: rest) = false.
Proof.
  intros W Hr. apply isp_false_if_scan. change (ceq c_lb c_lb) with true. cbn [scan].
  change (ceq c_lb c_lb) with true. cbn iota.
  rewrite (scan_braced b false (0 + 1) (c_rb :: rest) W); [|lia|discriminate].
  cbn [scan]. change (ceq c_rb c_lb) with false. change (ceq c_rb c_rb) with true. cbn [Z.add Z.sub Z.eqb andb Z.pos_sub Z.opp].
  destruct rest; [contradiction | reflexivity].
Qed.

Lemma not_single_quoted_more q rest : wf_quoted false q = true -> rest <> [] ->
  is_single_enclosed_piece (c_quote :: render_quoted q ++ c_quote :: rest) = false.
Proof.
  intros W Hr. apply isp_false_if_scan. change (ceq c_quote c_lb) with false. cbn [scan].
  change (ceq c_quote c_lb) with false. change (ceq c_quote c_rb) with false. change (ceq c_quote c_quote) with true.
  cbn [andb negb]. rewrite !andb_false_r. cbn iota. change (ceq c_quote c_bs) with false.
  rewrite (scan_quoted q false 0 (c_quote :: rest) W); [|lia|discriminate].
  cbn [scan]. change (ceq c_quote c_lb) with false. change (ceq c_quote c_rb) with false. change (ceq c_quote c_quote) with true.
  destruct rest; [contradiction | reflexivity].
Qed.

Lemma name_ok_head s : name_ok s = true -> exists c r, s = c :: r /\ (c =? c_lb)%N = false /\ (c =? c_quote)%N = false /\ isspace c = false.
Proof.
  unfold name_ok. destruct s as [|c r]; [discriminate|]. cbn [nonnil kchars andb]. intros H.
  apply andb_true_iff in H as [H _]. apply andb_true_iff in H as [Hs H]. exists c, r. split; [reflexivity|].
  apply negb_true_iff in Hs. unfold no_delim, delim in H. destruct (c =? c_nl)%N; [discriminate|].
  destruct (c =? c_lb)%N; [discriminate|]. destruct (c =? c_rb)%N; [discriminate|].
  destruct (c =? c_quote)%N; [discriminate|]. repeat split; assumption.
Qed.

Lemma not_single_bare s rest : name_ok s = true -> is_single_enclosed_piece (s ++ rest) = false.
Proof.
  intros H. destruct (name_ok_head s H) as (c & r & -> & A & B & _). cbn [app]. unfold is_single_enclosed_piece, ceq.
  rewrite A, B. reflexivity.
Qed.

(* the text RemoveEnclosing leaves of a rendered value *)
Definition sval (v : gvalue) : str :=
  match v_more v, v_first v with
  | [], PBraced b => render_braced b
  | [], PQuoted q => render_quoted q
  | _, _ => render_value v
  end.

Lemma render_more_nonnil x l : render_more (x :: l) <> [].
Proof. destruct x as [[a b] p]. cbn [render_more]. destruct a; discriminate. Qed.

Lemma strip_enclosing_value v : wf_value v = true -> fst (strip_enclosing (render_value v)) = sval v.
Proof.
  intros W. pose proof (value_strip v W) as S. unfold wf_value in W. apply andb_true_iff in W as [Wp Wm].
  destruct v as [p more]. unfold sval, render_value in *. cbn [v_first v_more] in *.
  destruct more as [|x more].
  - cbn [render_more] in *. rewrite app_nil_r in *. destruct p as [s|b|q]; cbn [render_piece wf_piece] in *.
    + apply andb_true_iff in Wp as [Wp _]. rewrite strip_enclosing_not_single; [reflexivity | exact S|].
      rewrite <- (app_nil_r s). apply not_single_bare, Wp.
    + rewrite strip_enclosing_braced by exact Wp. reflexivity.
    + rewrite strip_enclosing_quoted by exact Wp. reflexivity.
  - pose proof (render_more_nonnil x more) as Hn. rewrite strip_enclosing_not_single; [destruct p; reflexivity | exact S |].
    destruct p as [s|b|q]; cbn [render_piece wf_piece] in *.
    + apply andb_true_iff in Wp as [Wp _]. apply not_single_bare, Wp.
    + cbn [app]. rewrite <- app_assoc. cbn [app]. apply not_single_braced_more; assumption.
    + cbn [app]. rewrite <- app_assoc. cbn [app]. apply not_single_quoted_more; assumption.
Qed.

(* ---- the stripped value as brace content (an AST of [braced]) *)
Definition chars (s : str) (k : braced) : braced := fold_right BChar k s.
Fixpoint bapp (a k : braced) : braced :=
  match a with BNil => k | BChar c a' => BChar c (bapp a' k) | BGroup g a' => BGroup g (bapp a' k) end.
Fixpoint q2b (q : quoted) : braced :=
  match q with QNil => BNil | QChar c q' => BChar c (q2b q') | QGroup g q' => BGroup (q2b g) (q2b q') end.
Definition piece_b (p : piece) (k : braced) : braced :=
  match p with
  | PBare s => chars s k
  | PBraced b => BGroup b k
  | PQuoted q => BChar c_quote (bapp (q2b q) (BChar c_quote k))
  end.
Fixpoint more_b (l : list (str * str * piece)) : braced :=
  match l with
  | [] => BNil
  | (a, b, p) :: r => chars a (BChar c_hash (chars b (piece_b p (more_b r))))
  end.
Definition whole_b (v : gvalue) : braced := piece_b (v_first v) (more_b (v_more v)).
Definition clean_of (v : gvalue) : braced :=
  match v_more v, v_first v with
  | [], PBraced b => b
  | [], PQuoted q => q2b q
  | _, _ => whole_b v
  end.

Lemma render_chars s k : render_braced (chars s k) = s ++ render_braced k.
Proof. induction s as [|c s IH]; [reflexivity|]. cbn [chars fold_right render_braced app]. f_equal. exact IH. Qed.
Lemma render_bapp a k : render_braced (bapp a k) = render_braced a ++ render_braced k.
Proof.
  induction a as [|c a IH|g _ a IH]; cbn [bapp render_braced app]; [reflexivity | f_equal; exact IH|].
  rewrite IH, <- app_assoc. reflexivity.
Qed.
Lemma render_q2b q : render_braced (q2b q) = render_quoted q.
Proof.
  induction q as [|c q IH|g IHg q IH]; cbn [q2b render_braced render_quoted]; [reflexivity | f_equal; exact IH|].
  rewrite IHg, IH. reflexivity.
Qed.
Lemma render_piece_b p k : render_braced (piece_b p k) = render_piece p ++ render_braced k.
Proof.
  destruct p as [s|b|q]; cbn [piece_b render_piece render_braced].
  - apply render_chars.
  - cbn [app]. rewrite <- app_assoc. reflexivity.
  - rewrite render_bapp, render_q2b. cbn [render_braced app]. rewrite <- app_assoc. reflexivity.
Qed.
Lemma render_more_b l : render_braced (more_b l) = render_more l.
Proof.
  induction l as [|[[a b] p] r IH]; [reflexivity|]. cbn [more_b render_more].
  rewrite render_chars. cbn [render_braced]. rewrite render_chars, render_piece_b, IH. reflexivity.
Qed.
Lemma render_whole_b v : render_braced (whole_b v) = render_value v.
Proof. unfold whole_b, render_value. rewrite render_piece_b, render_more_b. reflexivity. Qed.
Lemma render_clean_of v : render_braced (clean_of v) = sval v.
Proof.
  unfold clean_of, sval. destruct (v_more v); [|apply render_whole_b].
  destruct (v_first v) eqn:E; try apply render_q2b; try reflexivity.
  rewrite render_whole_b. reflexivity.
Qed.

Lemma wf_chars s : forall pb k, quiet pb s = true -> wf_braced (ends_bs pb s) k = true -> wf_braced pb (chars s k) = true.
Proof.
  induction s as [|c s IH]; intros pb k Q W; [exact W|]. cbn [quiet] in Q. apply andb_true_iff in Q as [Q1 Q2].
  cbn [chars fold_right wf_braced]. apply andb_true_iff. split.
  - destruct (delim pb c) as [[]|]; try reflexivity; discriminate.
  - apply IH; assumption.
Qed.
Lemma wf_bapp a : forall pb k, wf_braced pb a = true -> wf_braced false k = true -> wf_braced pb (bapp a k) = true.
Proof.
  induction a as [|c a IH|g _ a IH]; intros pb k Wa Wk; cbn [bapp wf_braced] in *.
  - destruct pb; [discriminate | exact Wk].
  - apply andb_true_iff in Wa as [W1 W2]. rewrite W1. cbn [andb]. apply IH; assumption.
  - apply andb_true_iff in Wa as [W1 W3]. rewrite W1. cbn [andb]. apply IH; assumption.
Qed.
Lemma wf_q2b q : forall pb, wf_quoted pb q = true -> wf_braced pb (q2b q) = true.
Proof.
  induction q as [|c q IH|g IHg q IH]; intros pb W; cbn [q2b wf_quoted wf_braced] in *; [exact W| |].
  - apply andb_true_iff in W as [W1 W2]. rewrite (IH _ W2), andb_true_r. destruct (delim pb c) as [[]|]; try reflexivity; discriminate.
  - apply andb_true_iff in W as [W1 W3]. apply andb_true_iff in W1 as [W1 W2]. rewrite W1, (IHg _ W2), (IH _ W3). reflexivity.
Qed.
Lemma ends_bs_snoc s c : forall pb, ends_bs pb (s ++ [c]) = (c =? c_bs)%N.
Proof. intros pb. rewrite ends_bs_app. reflexivity. Qed.

Lemma wf_piece_b p k : wf_piece p = true -> wf_braced (ends_bs false (render_piece p)) k = true ->
  wf_braced false (piece_b p k) = true.
Proof.
  destruct p as [s|b|q]; cbn [wf_piece piece_b render_piece]; intros Wp Wk.
  - apply andb_true_iff in Wp as [Wp _]. unfold name_ok in Wp. apply andb_true_iff in Wp as [_ Wp].
    apply wf_chars; [apply quiet_kchars, Wp | exact Wk].
  - change (c_lb :: render_braced b ++ [c_rb]) with ([c_lb] ++ render_braced b ++ [c_rb]) in Wk.
    rewrite app_assoc, ends_bs_snoc in Wk. cbn [wf_braced negb andb]. rewrite Wp. exact Wk.
  - change (c_quote :: render_quoted q ++ [c_quote]) with ([c_quote] ++ render_quoted q ++ [c_quote]) in Wk.
    rewrite app_assoc, ends_bs_snoc in Wk. cbn [wf_braced]. apply andb_true_iff. split; [reflexivity|].
    apply wf_bapp; [apply wf_q2b, Wp|]. cbn [wf_braced]. apply andb_true_iff. split; [reflexivity | exact Wk].
Qed.

Lemma wf_more_b l : forall pb, wf_more l = true -> ends_bs pb (render_more l) = false -> wf_braced pb (more_b l) = true.
Proof.
  induction l as [|[[a b] p] r IH]; intros pb W E.
  - cbn in E. subst pb. reflexivity.
  - cbn [wf_more] in W. apply andb_true_iff in W as [W Wr]. apply andb_true_iff in W as [W Wp].
    apply andb_true_iff in W as [Wa Wb]. cbn [more_b render_more] in *.
    apply wf_chars; [apply quiet_ws, Wa|]. cbn [wf_braced]. rewrite delim_hash. cbn [andb].
    change (c_hash =? c_bs)%N with false. apply wf_chars; [apply quiet_ws, Wb|].
    rewrite (ends_bs_ws b false Wb eq_refl). apply wf_piece_b; [exact Wp|]. apply IH; [exact Wr|].
    rewrite ends_bs_app in E. cbn [ends_bs] in E. change (c_hash =? c_bs)%N with false in E.
    rewrite !ends_bs_app in E. rewrite (ends_bs_ws b false Wb eq_refl) in E. exact E.
Qed.

Lemma wf_whole_b v : wf_value v = true -> ends_bs false (render_value v) = false -> wf_braced false (whole_b v) = true.
Proof.
  unfold wf_value, render_value, whole_b. intros W E. apply andb_true_iff in W as [Wp Wm].
  apply wf_piece_b; [exact Wp|]. apply wf_more_b; [exact Wm|]. rewrite <- ends_bs_app. exact E.
Qed.

Lemma wf_clean_of v : wf_value v = true -> ends_bs false (sval v) = false -> wf_braced false (clean_of v) = true.
Proof.
  intros W E. pose proof W as W0. unfold wf_value in W. apply andb_true_iff in W as [Wp Wm].
  unfold clean_of, sval in *. destruct (v_more v) eqn:Em.
  - destruct (v_first v) eqn:Ef; cbn [wf_piece] in Wp.
    + apply wf_whole_b; assumption.
    + exact Wp.
    + apply wf_q2b, Wp.
  - apply wf_whole_b; assumption.
Qed.

(* ---- side condition G is stable under a change of the text behind, as long as that text cannot complete a
   block-start pattern: blanks, then a character that is neither a word character, a blank nor '{' *)
Definition stopper (c : ch) : bool := negb (isword c) && negb (is_sptab c) && negb (c =? c_lb)%N.
Definition tailok (T : str) : Prop := exists w c z, T = w ++ c :: z /\ is_hws w = true /\ stopper c = true.

Definition at2 (r : str) : bool := match drop_while is_sptab r with c :: _ => (c =? c_lb)%N | [] => false end.
Lemma at_ok_at2 r : at_ok r = at2 (drop_while isword r).
Proof. reflexivity. Qed.

Lemma at2_tail x : forall T y, tailok T -> at2 (x ++ T) = true -> at2 (x ++ y) = true.
Proof.
  induction x as [|a x IH]; intros T y HT H.
  - exfalso. destruct HT as (w & c & z & -> & Hw & Hc). cbn [app] in H. unfold at2 in H.
    unfold is_hws in Hw. rewrite (drop_while_all is_sptab w (c :: z) Hw) in H. cbn [drop_while] in H.
    unfold stopper in Hc. apply andb_true_iff in Hc as [Hc Hl]. apply andb_true_iff in Hc as [_ Hs].
    apply negb_true_iff in Hs, Hl. rewrite Hs in H. congruence.
  - cbn [app] in *. unfold at2 in *. cbn [drop_while] in *. destruct (is_sptab a); [|exact H].
    exact (IH T y HT H).
Qed.

Lemma at_ok_tail x : forall T y, tailok T -> at_ok (x ++ T) = true -> at_ok (x ++ y) = true.
Proof.
  induction x as [|a x IH]; intros T y HT H.
  - exfalso. pose proof HT as HT0. destruct HT as (w & c & z & -> & Hw & Hc). cbn [app] in H.
    rewrite at_ok_at2 in H.
    assert (E : drop_while isword (w ++ c :: z) = w ++ c :: z).
    { unfold stopper in Hc. apply andb_true_iff in Hc as [Hc _]. apply andb_true_iff in Hc as [Hc _]. apply negb_true_iff in Hc.
      destruct w as [|b w]; cbn [app drop_while]; [rewrite Hc; reflexivity|].
      cbn [is_hws forallb] in Hw. apply andb_true_iff in Hw as [Hb _]. rewrite (sptab_not_word b Hb). reflexivity. }
    rewrite E in H. pose proof (at2_tail [] _ [] HT0 H) as K. discriminate K.
  - rewrite at_ok_at2 in *. cbn [app drop_while] in *. destruct (isword a).
    + rewrite <- at_ok_at2 in *. exact (IH T y HT H).
    + exact (at2_tail (a :: x) T y HT H).
Qed.

Lemma noat_tail v : forall y T, tailok T -> noat v y = true -> noat v T = true.
Proof.
  induction v as [|c v IH]; intros y T HT H; [reflexivity|]. cbn [noat] in *.
  apply andb_true_iff in H as [H1 H2]. apply andb_true_iff. split; [|exact (IH y T HT H2)].
  destruct (c =? c_at)%N; [|reflexivity]. cbn [negb orb] in *. apply negb_true_iff in H1. apply negb_true_iff.
  destruct (at_ok (v ++ T)) eqn:E; [|reflexivity]. rewrite (at_ok_tail v T y HT E) in H1. discriminate.
Qed.

Definition nat_ok (v : str) : Prop := forall T, tailok T -> noat v T = true.
Lemma nat_ok_intro v y : noat v y = true -> nat_ok v.
Proof. intros H T HT. exact (noat_tail v y T HT H). Qed.
Lemma nat_ok_mid a v b y : noat (a ++ v ++ b) y = true -> nat_ok v.
Proof.
  rewrite noat_app. intros H. apply andb_true_iff in H as [_ H]. rewrite noat_app in H.
  apply andb_true_iff in H as [H _]. exact (nat_ok_intro _ _ H).
Qed.

Lemma sval_mid v : exists a b, render_value v = a ++ sval v ++ b.
Proof.
  unfold sval, render_value. destruct (v_more v).
  - cbn [render_more]. rewrite app_nil_r. destruct (v_first v); cbn [render_piece].
    + exists [], []. rewrite app_nil_r. reflexivity.
    + exists [c_lb], [c_rb]. reflexivity.
    + exists [c_quote], [c_quote]. reflexivity.
  - exists [], []. rewrite app_nil_r. destruct (v_first v); reflexivity.
Qed.
Lemma nat_ok_sval a v b y : noat (a ++ render_value v ++ b) y = true -> nat_ok (sval v).
Proof.
  destruct (sval_mid v) as (a' & b' & E). rewrite E. intros H.
  apply (nat_ok_mid (a ++ a') (sval v) (b' ++ b) y). rewrite <- !app_assoc in *. exact H.
Qed.

(* tails the writer produces *)
Lemma tailok_stop c z : stopper c = true -> tailok (c :: z).
Proof. intros H. exists [], c, z. repeat split; assumption. Qed.
Lemma tailok_hws w c z : is_hws w = true -> stopper c = true -> tailok (w ++ c :: z).
Proof. intros Hw H. exists w, c, z. repeat split; assumption. Qed.
Lemma stopper_rb : stopper c_rb = true.  Proof. reflexivity. Qed.
Lemma stopper_comma : stopper c_comma = true.  Proof. reflexivity. Qed.
Lemma stopper_nl : stopper c_nl = true.  Proof. reflexivity. Qed.
Lemma stopper_eq : stopper c_eq = true.  Proof. reflexivity. Qed.

(* ---- stripping whitespace off a brace content keeps it a brace content (unless a backslash becomes last: K7) *)
Lemma braced_drop_prefix w : forall b rest, Forall (fun c => isspace c = true) w -> render_braced b = w ++ rest ->
  wf_braced false b = true -> exists b', render_braced b' = rest /\ wf_braced false b' = true.
Proof.
  induction w as [|c w IH]; intros b rest Hw E W; [exists b; split; assumption|].
  inversion Hw as [|? ? Hc Hw']; subst. destruct b as [|c' b|g b]; cbn [render_braced] in E.
  - discriminate.
  - cbn [app] in E. inversion E; subst c'. cbn [wf_braced] in W. apply andb_true_iff in W as [_ W].
    rewrite (space_not_bs c Hc) in W. exact (IH b rest Hw' H1 W).
  - cbn [app] in E. inversion E; subst c. discriminate Hc.
Qed.

Lemma split_nonws_mid A : forall c B S W, isspace c = false -> Forall (fun c => isspace c = true) W ->
  A ++ c :: B = S ++ W -> exists S', S = A ++ c :: S' /\ B = S' ++ W.
Proof.
  induction A as [|a A IH]; intros c B S W Hc HW E; destruct S as [|s S]; cbn [app] in E.
  - subst W. inversion HW; subst. congruence.
  - inversion E; subst. exists S. split; reflexivity.
  - subst W. inversion HW as [|? ? _ HW']; subst. apply Forall_app in HW' as [_ HW']. inversion HW'; subst. congruence.
  - inversion E; subst. destruct (IH c B S W Hc HW H1) as (S' & -> & ->). exists S'. split; reflexivity.
Qed.

Lemma braced_drop_suffix b : forall pb s w, Forall (fun c => isspace c = true) w -> render_braced b = s ++ w ->
  wf_braced pb b = true -> ends_bs pb s = false -> exists b', render_braced b' = s /\ wf_braced pb b' = true.
Proof.
  induction b as [|c b IH|g _ b IH]; intros pb s w Hw E W Hs; cbn [render_braced] in E.
  - destruct s; [|discriminate]. exists BNil. split; [reflexivity | exact W].
  - destruct s as [|c' s].
    + exists BNil. split; [reflexivity|]. cbn in Hs. subst pb. reflexivity.
    + cbn [app] in E. inversion E; subst c'. cbn [wf_braced] in W. apply andb_true_iff in W as [W1 W2].
      cbn [ends_bs] in Hs. destruct (IH _ s w Hw H1 W2 Hs) as (b' & R & W').
      exists (BChar c b'). split; [cbn [render_braced]; f_equal; exact R|]. cbn [wf_braced]. rewrite W1, W'. reflexivity.
  - cbn [wf_braced] in W. apply andb_true_iff in W as [W1 W3]. apply andb_true_iff in W1 as [Wp W2].
    apply negb_true_iff in Wp. subst pb. destruct s as [|c' s].
    + cbn [app] in E. subst w. inversion Hw; subst. discriminate.
    + cbn [app] in E. inversion E; subst c'. destruct (split_nonws_mid (render_braced g) c_rb (render_braced b) s w eq_refl Hw H1) as (S' & -> & E2).
      assert (Hs' : ends_bs false S' = false).
      { replace (c_lb :: render_braced g ++ c_rb :: S') with (((c_lb :: render_braced g) ++ [c_rb]) ++ S') in Hs
          by (rewrite <- app_assoc; reflexivity).
        rewrite ends_bs_app, ends_bs_snoc in Hs. exact Hs. }
      destruct (IH false S' w Hw E2 W3 Hs') as (b' & R & W').
      exists (BGroup g b'). split; [cbn [render_braced]; rewrite R; reflexivity|]. cbn [wf_braced]. rewrite W2, W'. reflexivity.
Qed.

From BP Require Import Proofs.SplitTiling.
Lemma strip_split s : exists lead trail, s = lead ++ strip s ++ trail
  /\ Forall (fun c => isspace c = true) lead /\ Forall (fun c => isspace c = true) trail.
Proof.
  destruct (lstrip_split s) as (lead & E1 & H1). destruct (rstrip_split (lstrip s)) as (trail & E2 & H2).
  exists lead, trail. unfold strip. rewrite <- E2. repeat split; assumption.
Qed.

Lemma strip_braced b : wf_braced false b = true -> ends_bs false (strip (render_braced b)) = false ->
  exists b', render_braced b' = strip (render_braced b) /\ wf_braced false b' = true.
Proof.
  intros W E. destruct (strip_split (render_braced b)) as (lead & trail & S & Hl & Ht).
  destruct (braced_drop_prefix lead b _ Hl S W) as (b1 & R1 & W1).
  exact (braced_drop_suffix b1 false _ trail Ht R1 W1 E).
Qed.

Lemma nat_ok_strip a s b y : noat (a ++ s ++ b) y = true -> nat_ok (strip s).
Proof.
  destruct (strip_split s) as (lead & trail & S & _ & _). intros H. rewrite S in H.
  apply (nat_ok_mid (a ++ lead) (strip s) (trail ++ b) y). rewrite <- !app_assoc in *. exact H.
Qed.
